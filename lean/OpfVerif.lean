-- models (core Lean only)
import OpfVerif.Model.Heap
import OpfVerif.Model.HeapSpec
import OpfVerif.Model.Forest
import OpfVerif.Model.ForestSpec
import OpfVerif.Model.CompeteSpec
import OpfVerif.Model.PrimSpec
import OpfVerif.Model.Expr
-- translator output
import OpfVerif.Gen.Distance
import OpfVerif.Gen.Registry
import OpfVerif.Gen.Decorator
-- property theorems
import OpfVerif.Props.C01
import OpfVerif.Props.C02
import OpfVerif.Props.C03
import OpfVerif.Props.C05
import OpfVerif.Model.Lawful
import OpfVerif.Model.ExecSpec
import OpfVerif.Lemmas.Lawful
