-- models (core Lean only)
import OpfVerif.Model.Heap
import OpfVerif.Model.HeapSpec
import OpfVerif.Model.Forest
import OpfVerif.Model.ForestSpec
import OpfVerif.Model.CompeteSpec
import OpfVerif.Model.PrimSpec
import OpfVerif.Model.Lawful
import OpfVerif.Model.ExecSpec
import OpfVerif.Model.Expr
import OpfVerif.Model.Knn
import OpfVerif.Model.KnnSpec
-- translator output
import OpfVerif.Gen.Distance
import OpfVerif.Gen.Registry
import OpfVerif.Gen.Decorator
import OpfVerif.Gen.Effects
import OpfVerif.Gen.Fingerprint
-- property theorems
import OpfVerif.Props.C01
import OpfVerif.Props.C01Exec
import OpfVerif.Props.C02
import OpfVerif.Props.C02Exec
import OpfVerif.Props.C03
import OpfVerif.Props.C05
import OpfVerif.Props.C06
import OpfVerif.Props.C06b
import OpfVerif.Props.C07
import OpfVerif.Props.C08
import OpfVerif.Props.C08Symm
import OpfVerif.Props.C08Self
import OpfVerif.Props.C08Metric
import OpfVerif.Props.C08Nonneg
import OpfVerif.Props.C12Arcs
import OpfVerif.Props.C12Pdf
import OpfVerif.Props.C14
import OpfVerif.Props.C13
import OpfVerif.Props.C04
