import OpfVerif.Model.Heap
import OpfVerif.Model.Forest
