/-
Relational ("lawful run") semantics of `SupervisedOPF._find_prototypes` (Prim's algorithm on the
complete graph + prototype flagging), tie-breaking among queued nodes of equal cost left open.
Core Lean only.
-/
import OpfVerif.Model.Heap
namespace Opf

structure PState where
  color : Nat → Nat
  cost  : Nat → Int
  pred  : Nat → Option Nat
  proto : Nat → Bool
  order : List Nat

structure PrimInst where
  n   : Nat
  w   : Nat → Nat → Int
  lam : Nat → Nat          -- true labels
  top : Int

namespace PrimInst

/-- fresh subgraph (every `pred` NIL, no prototype), heap with costs `top`, node 0 inserted. -/
def init (I : PrimInst) : PState :=
  { color := fun x => if x = 0 ∧ 0 < I.n then GRAY else WHITE,
    cost := fun _ => I.top,
    pred := fun _ => none,
    proto := fun _ => false,
    order := [] }

/-- node `q` takes `p` as predecessor when `p` is removed. -/
def relaxed (I : PrimInst) (s : PState) (p q : Nat) : Bool :=
  decide (q < I.n ∧ q ≠ p ∧ s.color q ≠ BLACK ∧ I.w p q < s.cost q)

/-- `p` is removed: flag both endpoints of its tree arc if their labels differ, then relax. -/
def fire (I : PrimInst) (s : PState) (p : Nat) : PState :=
  { color := fun q => if q = p then BLACK
                      else if I.relaxed s p q ∧ s.color q = WHITE then GRAY else s.color q,
    cost := fun q => if I.relaxed s p q then I.w p q else s.cost q,
    pred := fun q => if I.relaxed s p q then some p else s.pred q,
    proto := fun x => match s.pred p with
      | none => s.proto x
      | some r => if I.lam p ≠ I.lam r ∧ (x = p ∨ x = r) then true else s.proto x,
    order := s.order ++ [p] }

def Step (I : PrimInst) (s s' : PState) : Prop :=
  ∃ p, p < I.n ∧ s.color p = GRAY ∧ (∀ q, q < I.n → s.color q = GRAY → s.cost p ≤ s.cost q) ∧
    s' = I.fire s p

inductive Reach (I : PrimInst) : PState → Prop
  | init : Reach I I.init
  | step {s s' : PState} : Reach I s → I.Step s s' → Reach I s'

def Final (I : PrimInst) (s : PState) : Prop := ∀ q, q < I.n → s.color q ≠ GRAY

/-- hypotheses of C02: at least one sample, symmetric weights, all below `top`. -/
structure Good (I : PrimInst) : Prop where
  n_pos : 0 < I.n
  symm : ∀ p q, p < I.n → q < I.n → I.w p q = I.w q p
  w_lt_top : ∀ p q, p < I.n → q < I.n → I.w p q < I.top

/-- all pairwise distances distinct. -/
def Distinct (I : PrimInst) : Prop :=
  ∀ a b c d, a < I.n → b < I.n → c < I.n → d < I.n → a ≠ b → c ≠ d →
    I.w a b = I.w c d → (a = c ∧ b = d) ∨ (a = d ∧ b = c)

/-- `u` and `v` are joined by a tree arc of the final state. -/
def TreeArc (s : PState) (u v : Nat) : Prop := s.pred v = some u ∨ s.pred u = some v

/-- `Anc s c u`: `c` is `u` or a transitive predecessor of `u`. -/
inductive Anc (s : PState) (c : Nat) : Nat → Prop
  | refl : Anc s c c
  | step {u p : Nat} : s.pred u = some p → Anc s c p → Anc s c u

/-- `Conn I θ u v`: `u` and `v` are connected in the complete graph on `0..n-1` using only arcs of
weight strictly below `θ`. -/
inductive Conn (I : PrimInst) (θ : Int) : Nat → Nat → Prop
  | refl {u : Nat} : u < I.n → Conn I θ u u
  | arc {u v x : Nat} : Conn I θ u v → x < I.n → I.w v x < θ → Conn I θ u x

/-- order-free characterisation of the arcs of THE minimum spanning tree when all weights are
distinct: `{u,v}` is an MST arc iff its endpoints are not already connected by strictly lighter
arcs (Kruskal's rule / the cycle property). It mentions neither sample order nor the run. -/
def MstArc (I : PrimInst) (u v : Nat) : Prop :=
  u < I.n ∧ v < I.n ∧ u ≠ v ∧ ¬ Conn I (I.w u v) u v

end PrimInst
end Opf
