/-
L4–L7 — executable models of
  * `KNNSubgraph.create_arcs / calculate_pdf / eliminate_maxima_height`  (subgraphs/knn.py)
  * `UnsupervisedOPF._clustering`, `KNNSupervisedOPF._clustering`, `propagate_labels`
  * the k-nearest scan and arg-max of `KNNSupervisedOPF.predict` / `UnsupervisedOPF.predict`
  * the selection loops of `KNNSupervisedOPF._learn` and `UnsupervisedOPF._best_minimum_cut`.
Comparison-driven parts run over `Int` (order-preserving encodings of the doubles); arithmetic
parts (`pdfG`, `queryDensityG`, `elimG`) are written ONCE, polymorphically over the operations they use, and
instantiated at `Float` (driver, bit-exact against numpy given numpy's `exp` values) and at `ℝ`/`ℚ`
(theorems).  Core Lean only.
-/
import OpfVerif.Model.Heap
namespace Opf

/-! ### L4a: the k-nearest insertion scan -/

abbrev Slot := Int × Nat

/-- `while cur_k > 0 and distances[cur_k] < distances[cur_k-1]: swap; cur_k -= 1` -/
def bubble (buf : Array Slot) : Nat → Array Slot
  | 0 => buf
  | cur + 1 =>
    if (buf.getD (cur + 1) (0, 0)).1 < (buf.getD cur (0, 0)).1 then
      bubble ((buf.setIfInBounds (cur + 1) (buf.getD cur (0, 0))).setIfInBounds cur (buf.getD (cur + 1) (0, 0))) cur
    else buf

/-- write the candidate into slot `k`, then bubble it towards the front. -/
def scanInsert (k : Nat) (buf : Array Slot) (d : Int) (j : Nat) : Array Slot :=
  bubble (buf.setIfInBounds k (d, j)) k

/-- the `k+1`-slot buffer after scanning candidates `cands` (in order) with distances `dist j`. -/
def scan (k : Nat) (top : Int) (dist : Nat → Int) (cands : List Nat) : Array Slot :=
  cands.foldl (fun buf j => scanInsert k buf (dist j) j) (Array.replicate (k + 1) (top, 0))

/-- first `k` slots that hold a real candidate (`distances[l] != FLOAT_MAX`). -/
def validSlots (k : Nat) (top : Int) (buf : Array Slot) : List Slot :=
  (buf.toList.take k).filter (fun s => s.1 ≠ top)

/-! ### L4b: `create_arcs` -/

structure KnnSub where
  n      : Nat
  adj    : Array (List Nat)
  radius : Array Int
  nplat  : Array Nat
  bound  : Int               -- `KNNSubgraph.density`
deriving Repr

def KnnSub.fresh (n : Nat) : KnnSub :=
  { n := n, adj := Array.replicate n [], radius := Array.replicate n 0, nplat := Array.replicate n 0, bound := 0 }

structure ArcAcc where
  g    : KnnSub
  maxd : Array Int

/-- the `for l in range(k-1, -1, -1)` loop for node `i`, one slot. -/
def arcSlot (top : Int) (i : Nat) (buf : Array Slot) (a : ArcAcc) (l : Nat) : ArcAcc :=
  let s := buf.getD l (0, 0)
  if s.1 ≠ top then
    { g := { a.g with bound := if s.1 > a.g.bound then s.1 else a.g.bound,
                      radius := a.g.radius.setIfInBounds i (if s.1 > a.g.radius.getD i 0 then s.1 else a.g.radius.getD i 0),
                      adj := a.g.adj.setIfInBounds i (s.2 :: a.g.adj.getD i []) },
      maxd := a.maxd.setIfInBounds l (if s.1 > a.maxd.getD l 0 then s.1 else a.maxd.getD l 0) }
  else a

def arcNode (w : Nat → Nat → Int) (top : Int) (k : Nat) (a : ArcAcc) (i : Nat) : ArcAcc :=
  let buf := scan k top (w i) ((List.range a.g.n).filter (· ≠ i))
  let a1 : ArcAcc := { a with g := { a.g with radius := a.g.radius.setIfInBounds i 0, nplat := a.g.nplat.setIfInBounds i 0 } }
  ((List.range k).reverse).foldl (arcSlot top i buf) a1

/-- `create_arcs(k)`; `tiny` = enc 1e-5, `one` = enc 1.0.  Returns the subgraph and `max_distances`. -/
def createArcs (w : Nat → Nat → Int) (top tiny one : Int) (k : Nat) (g : KnnSub) : KnnSub × Array Int :=
  let a := (List.range g.n).foldl (arcNode w top k) { g := g, maxd := Array.replicate k 0 }
  ({ a.g with bound := if a.g.bound < tiny then one else a.g.bound }, a.maxd)

def destroyArcs (g : KnnSub) : KnnSub :=
  { g with adj := Array.replicate g.n [], nplat := Array.replicate g.n 0 }

/-! ### L4c: `calculate_pdf`, written once over the operations it uses -/

section Arith
variable {α : Type} [Add α] [Sub α] [Mul α] [Div α] [LT α] [DecidableRel (α := α) (· < ·)] [BEq α]

structure PdfOut (α : Type) where
  constant : α
  minD : α
  maxD : α
  pdf : List α
  density : List α
  cost : List α

/-- `exps i` = the values `np.exp(-distance/constant)` of node `i`'s `k` neighbours, in adjacency
order. Constants are passed in (`zero one two nine maxDens top`) so that one definition serves
`Float` and exact fields. -/
def pdfG (zero one two nine maxDens top : α) (bound : α) (k : Nat) (kPlus1 : α) (exps : List (List α)) : PdfOut α :=
  let constant := two * bound / nine
  let pdf := exps.map (fun es => (es.take k).foldl (· + ·) zero / kPlus1)
  let mm := pdf.foldl (fun (m : α × α) p => (if p < m.1 then p else m.1, if m.2 < p then p else m.2)) (top, zero - top)
  if mm.1 == mm.2 then
    { constant := constant, minD := mm.1, maxD := mm.2, pdf := pdf,
      density := pdf.map (fun _ => maxDens), cost := pdf.map (fun _ => maxDens - one) }
  else
    let dens := pdf.map (fun p => (maxDens - one) * (p - mm.1) / (mm.2 - mm.1) + one)
    { constant := constant, minD := mm.1, maxD := mm.2, pdf := pdf,
      density := dens, cost := dens.map (fun d => d - one) }

/-- density of a query in `predict`: mean of the `k` exp values, min-max scaled with `+ EPSILON`. -/
def queryDensityG (zero one maxDens eps : α) (minD maxD : α) (kA : α) (exps : List α) : α :=
  let d := exps.foldl (· + ·) zero / kA
  (maxDens - one) * (d - minD) / (maxD - minD + eps) + one

/-- `eliminate_maxima_height(h)` on one node: new cost. -/
def elimG (zero : α) (height density cost : α) : α :=
  if zero < height then (let v := density - height; if zero < v then v else zero) else cost
end Arith

/-! ### L5: clustering (max-heap competition on densities) -/

structure Clu where
  n      : Nat
  adj    : Array (List Nat)
  nplat  : Array Nat
  dens   : Array Int
  cost   : Array Int          -- `Node.cost`
  pred   : Array (Option Nat)
  root   : Array Nat
  lab    : Array Nat          -- `cluster_label` (unsupervised) / `predicted_label` (KNN-supervised)
  tlabel : Array Nat          -- true labels
  order  : Array Nat          -- `idx_nodes` (accumulates over calls, as in the source)
  nclusters : Nat
deriving Repr

namespace Clu
@[inline] def adjOf (c : Clu) (i : Nat) : List Nat := c.adj.getD i []
@[inline] def densOf (c : Clu) (i : Nat) : Int := c.dens.getD i 0
@[inline] def costOf (c : Clu) (i : Nat) : Int := c.cost.getD i 0
@[inline] def predOf (c : Clu) (i : Nat) : Option Nat := c.pred.getD i none
@[inline] def rootOf (c : Clu) (i : Nat) : Nat := c.root.getD i 0
@[inline] def labOf (c : Clu) (i : Nat) : Nat := c.lab.getD i 0
@[inline] def tlabelOf (c : Clu) (i : Nat) : Nat := c.tlabel.getD i 0
end Clu

/-- plateau symmetrisation of `KNNSupervisedOPF._clustering` (iterates over the LIVE list of `i`;
inserting into `adj[j]` with `j ≠ i` never changes it, `j = i` cannot occur). -/
def symKnnInner (c : Clu) (i : Nat) (j : Nat) : Clu :=
  if c.densOf i = c.densOf j then
    if (c.adjOf j).all (fun l => l ≠ i) then { c with adj := c.adj.setIfInBounds j (i :: c.adjOf j) } else c
  else c

def symKnn (c : Clu) : Clu :=
  (List.range c.n).foldl (fun c i => (c.adjOf i).foldl (fun c j => symKnnInner c i j) c) c

/-- plateau symmetrisation of `UnsupervisedOPF._clustering(k)` as written: scans the first `k`
entries of the lists as they are NOW, and the `if insert` sits inside the inner scan, so it may
insert `i` several times (once per inner position until a match is seen) or not at all. -/
def symUnsInner (k : Nat) (c : Clu) (i : Nat) (pos : Nat) : Clu :=
  let j := (c.adjOf i).getD pos 0
  if c.densOf i = c.densOf j then
    (List.range k).foldl (fun (st : Clu × Bool) l =>
        let adjv := (st.1.adjOf j).getD l 0
        let ins := st.2 && !(i == adjv)
        if ins then ({ st.1 with adj := st.1.adj.setIfInBounds j (i :: st.1.adjOf j),
                                 nplat := st.1.nplat.setIfInBounds j (st.1.nplat.getD j 0 + 1) }, ins)
        else (st.1, ins)) (c, true) |>.1
  else c

def symUns (k : Nat) (c : Clu) : Clu :=
  (List.range c.n).foldl (fun c i => (List.range k).foldl (fun c pos => symUnsInner k c i pos) c) c

structure CluSt where
  h : Heap
  c : Clu
  l : Nat                      -- next cluster identifier (unsupervised)

/-- relaxation of neighbour `q` from the removed node `p`. `force` = `force_prototype`,
`negTop` = enc(-FLOAT_MAX). `unsup` selects which label field semantics applies (both copy the label). -/
def cluRelax (force : Bool) (negTop : Int) (p : Nat) (s : CluSt) (q : Nat) : CluSt :=
  if s.h.colorOf q ≠ BLACK then
    let cur0 := min (s.h.costOf p) (s.c.densOf q)
    let cur := if force ∧ s.c.tlabelOf p ≠ s.c.tlabelOf q then negTop else cur0
    if cur > s.h.costOf q then
      { s with h := s.h.update q cur,
               c := { s.c with pred := s.c.pred.setIfInBounds q (some p),
                               root := s.c.root.setIfInBounds q (s.c.rootOf p),
                               lab := s.c.lab.setIfInBounds q (s.c.labOf p) } }
    else s
  else s

/-- one iteration of the clustering loop. `unsup`: cluster ids are handed out to roots and the
neighbours are the first `nplat[p] + k` entries of the list; otherwise (KNN-supervised) roots take
their true label and the whole list is visited. -/
def cluStep (unsup force : Bool) (negTop : Int) (k : Nat) (s : CluSt) : Option CluSt :=
  match s.h.remove with
  | (_, none) => none
  | (h1, some p) =>
    let c1 : Clu := { s.c with order := s.c.order.push p }
    let isRoot := c1.predOf p == none
    let h2 := if isRoot then h1.setCost p (c1.densOf p) else h1
    let c2 : Clu := if isRoot then { c1 with lab := c1.lab.setIfInBounds p (if unsup then s.l else c1.tlabelOf p) } else c1
    let l2 := if isRoot ∧ unsup then s.l + 1 else s.l
    let c3 : Clu := { c2 with cost := c2.cost.setIfInBounds p (h2.costOf p) }
    let nbrs := if unsup then (c3.adjOf p).take (c3.nplat.getD p 0 + k) else c3.adjOf p
    some (nbrs.foldl (cluRelax force negTop p) { h := h2, c := c3, l := l2 })

def cluLoop (unsup force : Bool) (negTop : Int) (k : Nat) : Nat → CluSt → CluSt
  | 0, s => s
  | fuel + 1, s =>
    match cluStep unsup force negTop k s with
    | none => s
    | some s' => cluLoop unsup force negTop k fuel s'

def cluInit (s : CluSt) (i : Nat) : CluSt :=
  { s with h := ((s.h.setCost i (s.c.costOf i)).insert i).1,
           c := { s.c with pred := s.c.pred.setIfInBounds i none, root := s.c.root.setIfInBounds i i } }

/-- `_clustering` after the symmetrisation pass. -/
def clusterRun (unsup force : Bool) (top negTop : Int) (k : Nat) (c : Clu) : Clu :=
  let c0 := if unsup then symUns k c else symKnn c
  let s0 := (List.range c0.n).foldl cluInit { h := Heap.init c0.n true top, c := c0, l := 0 }
  let s1 := cluLoop unsup force negTop k (c0.n + 1) s0
  if unsup then { s1.c with nclusters := s1.l } else s1.c

/-- `propagate_labels`: predicted label of every node := true label of its root. -/
def propagateLabels (c : Clu) : Array Nat :=
  (Array.range c.n).map (fun i => if c.rootOf i = i then c.tlabelOf i else c.tlabelOf (c.rootOf i))

/-! ### L6: prediction of the KNN-supervised / unsupervised models -/

/-- arg-max of `min(cost nb, density)` over the valid neighbour slots, first strict improvement
wins; `none` when there is no valid neighbour (the label fields then keep their default 0). -/
def knnArgmax (negTop : Int) (cost : Nat → Int) (density : Int) (slots : List Slot) : Option Nat × Int :=
  slots.foldl (fun (acc : Option Nat × Int) s =>
      let t := min (cost s.2) density
      if t > acc.2 then (some s.2, t) else acc) (none, negTop)

/-- neighbours of a query: scan over ALL training samples `0..n-1`. -/
def queryNeighbours (k n : Nat) (top : Int) (dist : Nat → Int) : Array Slot :=
  scan k top dist (List.range n)

/-! ### L7: selection loops -/

/-- `_learn`: first strict improvement over `max_acc = -1.0`; `accs` are the validation accuracies
for k = 1, 2, … (encoded); returns the chosen k. -/
def selectMaxAcc (start : Int) (accs : List Int) : Option Nat :=
  (accs.foldl (fun (st : Int × Option Nat × Nat) a =>
      if a > st.1 then (a, some st.2.2, st.2.2 + 1) else (st.1, st.2.1, st.2.2 + 1)) (start, none, 1)).2.1

/-- `_best_minimum_cut`: candidates `minK, minK+1, …`; a candidate is evaluated only while the
running minimum is not exactly 0; `cuts` lists the values the loop would observe for each candidate
(entries after the stop are not consulted). Returns `(best_k, number of candidates evaluated)`. -/
def selectMinCut (top zero : Int) (minK : Nat) (cuts : List Int) : Option Nat × Nat :=
  let r := cuts.foldl (fun (st : Int × Option Nat × Nat × Nat) c =>
      if st.1 ≠ zero then
        (if c < st.1 then (c, some st.2.2.1, st.2.2.1 + 1, st.2.2.2 + 1) else (st.1, st.2.1, st.2.2.1 + 1, st.2.2.2 + 1))
      else (st.1, st.2.1, st.2.2.1 + 1, st.2.2.2)) (top, none, minK, 0)
  (r.2.1, r.2.2.2)

end Opf

/-! ### normalised cut (`UnsupervisedOPF._normalized_cut`), written once over its operations -/
namespace Opf
section Cut
variable {α : Type} [Add α] [Div α] [LT α] [DecidableRel (α := α) (· < ·)]

/-- per-cluster sums of `1/distance` over the arcs visited from every node (first `nplat[i] + k`
entries of its list), split into arcs inside the cluster and arcs leaving it; arcs of distance 0 are
skipped. Returns `(internal, external)` indexed by cluster id. -/
def cutSums (zero one : α) (dist : Nat → Nat → α) (adj : Array (List Nat)) (nplat : Array Nat) (k : Nat)
    (clu : Nat → Nat) (n nclusters : Nat) : Array α × Array α :=
  (List.range n).foldl (fun (acc : Array α × Array α) i =>
    ((adj.getD i []).take (nplat.getD i 0 + k)).foldl (fun (acc : Array α × Array α) j =>
      let d := dist i j
      if zero < d then
        if clu i = clu j then (acc.1.setIfInBounds (clu i) (acc.1.getD (clu i) zero + one / d), acc.2)
        else (acc.1, acc.2.setIfInBounds (clu i) (acc.2.getD (clu i) zero + one / d))
      else acc) acc) (Array.replicate nclusters zero, Array.replicate nclusters zero)

/-- `cut = Σ_l external[l] / (internal[l] + external[l])` over clusters with a positive total. -/
def normalizedCutG (zero one : α) (dist : Nat → Nat → α) (adj : Array (List Nat)) (nplat : Array Nat) (k : Nat)
    (clu : Nat → Nat) (n nclusters : Nat) : α :=
  let s := cutSums zero one dist adj nplat k clu n nclusters
  (List.range nclusters).foldl (fun cut l =>
    let tot := s.1.getD l zero + s.2.getD l zero
    if zero < tot then cut + s.2.getD l zero / tot else cut) zero
end Cut
end Opf
