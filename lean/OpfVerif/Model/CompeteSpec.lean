/-
Relational ("lawful run") semantics of the competition phase of `SupervisedOPF.fit` /
`SemiSupervisedOPF.fit` (DESIGN §1.2).  A step removes ANY queued node of minimum cost — the
tie-breaking of the real heap is not fixed here — and relaxes every other node exactly as the
source does.  All C01/C15 theorems are proved for every run of this semantics; the executable
model `competeRun` (which drives the real heap model) is shown to be one such run.
Core Lean only.
-/
import OpfVerif.Model.Heap
namespace Opf

/-- abstract state of the competition. -/
structure AState where
  color : Nat → Nat
  cost  : Nat → Int
  pred  : Nat → Option Nat
  lab   : Nat → Nat          -- assigned (`predicted_label`)
  order : List Nat           -- `idx_nodes`, oldest first

/-- problem instance: `n` nodes, arc weights, seed (prototype) set, true labels, `top` = FLOAT_MAX. -/
structure CompInst where
  n    : Nat
  w    : Nat → Nat → Int
  seed : Nat → Bool
  lam  : Nat → Nat
  top  : Int

namespace CompInst

/-- state after the initialisation loop of `fit`: seeds queued with cost 0 and their own label,
all other nodes WHITE with cost `top`; their `pred`/`lab` are whatever was there before
(`pred0`, `lab0` — the Prim predecessors and label 0 in the real code). -/
def init (I : CompInst) (pred0 : Nat → Option Nat) (lab0 : Nat → Nat) : AState :=
  { color := fun x => if x < I.n ∧ I.seed x = true then GRAY else WHITE,
    cost := fun x => if I.seed x = true then 0 else I.top,
    pred := fun x => if I.seed x = true then none else pred0 x,
    lab := fun x => if I.seed x = true then I.lam x else lab0 x,
    order := [] }

/-- what the inner `for q` loop does to node `q` when `p` has just been removed: offer
`max (cost p) (w p q)`; accept on strict improvement (then `pred`, label and queue membership
follow).  The source's extra guard `cost p < cost q` is implied by the strict improvement. -/
def relaxed (I : CompInst) (s : AState) (p q : Nat) : Bool :=
  decide (q < I.n ∧ q ≠ p ∧ max (s.cost p) (I.w p q) < s.cost q)

/-- remove `p` (it turns BLACK, is appended to the order) and relax every other node. -/
def fire (I : CompInst) (s : AState) (p : Nat) : AState :=
  { color := fun q => if q = p then BLACK
                      else if I.relaxed s p q ∧ s.color q = WHITE then GRAY else s.color q,
    cost := fun q => if I.relaxed s p q then max (s.cost p) (I.w p q) else s.cost q,
    pred := fun q => if I.relaxed s p q then some p else s.pred q,
    lab := fun q => if I.relaxed s p q then s.lab p else s.lab q,
    order := s.order ++ [p] }

/-- a lawful step: `p` is queued and no queued node is strictly cheaper. -/
def Step (I : CompInst) (s s' : AState) : Prop :=
  ∃ p, p < I.n ∧ s.color p = GRAY ∧ (∀ q, q < I.n → s.color q = GRAY → s.cost p ≤ s.cost q) ∧
    s' = I.fire s p

/-- states reachable by lawful steps from the initial state. -/
inductive Reach (I : CompInst) (pred0 : Nat → Option Nat) (lab0 : Nat → Nat) : AState → Prop
  | init : Reach I pred0 lab0 (I.init pred0 lab0)
  | step {s s' : AState} : Reach I pred0 lab0 s → I.Step s s' → Reach I pred0 lab0 s'

/-- the loop `while not h.is_empty()` has ended. -/
def Final (I : CompInst) (s : AState) : Prop := ∀ q, q < I.n → s.color q ≠ GRAY

/-- hypotheses of C01 on the instance: finite non-negative weights below `top`, at least one seed. -/
structure Good (I : CompInst) : Prop where
  top_pos : 0 < I.top
  w_nonneg : ∀ p q, p < I.n → q < I.n → 0 ≤ I.w p q
  w_lt_top : ∀ p q, p < I.n → q < I.n → I.w p q < I.top
  has_seed : ∃ s, s < I.n ∧ I.seed s = true

/-- `PathCost I t c`: some path seed = v₀, v₁, …, v_k = t through nodes `< n` has largest arc
weight `c` (`0` for the trivial path). -/
inductive PathCost (I : CompInst) : Nat → Int → Prop
  | seed {s : Nat} : s < I.n → I.seed s = true → PathCost I s 0
  | arc {p q : Nat} {c : Int} : PathCost I p c → q < I.n → q ≠ p → PathCost I q (max c (I.w p q))

/-- `Chain s r t`: following `pred` from `t` reaches `r` (reflexive-transitive). -/
inductive Chain (s : AState) (r : Nat) : Nat → Prop
  | refl : Chain s r r
  | step {t p : Nat} : s.pred t = some p → Chain s r p → Chain s r t

end CompInst
end Opf
