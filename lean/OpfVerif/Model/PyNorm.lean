/-
numpy operations used by the translation of `normalize` (`opfython/math/general.py`; `tools/translate_meas.py` → `Gen/NormImp.lean`).
Core Lean only.  Trusted reading: a 2-D array is a NON-EMPTY list of equally long rows (anything else is outside the reading: `none`);
`np.mean(a, axis=0)` / `np.std(a, axis=0)` apply a reduction — a parameter of the translated function — to every column;
`A - v`, `A / v` with `v` of shape `(c,)` broadcast `v` along the rows of the `(r, c)` array.
-/
namespace Opf.Py

/-- column `j` of a matrix given by its rows. -/
def col {α : Type} [Inhabited α] (a : Array (Array α)) (j : Nat) : List α := a.toList.map (fun r => r.getD j default)

/-- number of columns (`none`: no row, or rows of different lengths). -/
def ncols {α : Type} (a : Array (Array α)) : Option Nat :=
  match a.toList with
  | [] => none
  | r :: rs => if rs.all (fun x => x.size == r.size) then some r.size else none

/-- `np.<f>(a, axis=0)`: the reduction `f` of every column. -/
def axis0 {α : Type} [Inhabited α] (f : List α → α) (a : Array (Array α)) : Option (Array α) :=
  (ncols a).map (fun c => (Array.range c).map (fun j => f (col a j)))

/-- `A op v` with `v` broadcast along the rows (`ValueError` when a row and `v` differ in length). -/
def bcast {α : Type} [Inhabited α] (op : α → α → α) (a : Array (Array α)) (v : Array α) : Option (Array (Array α)) :=
  if a.all (fun r => r.size == v.size) then
    some (a.map (fun r => (Array.range r.size).map (fun j => op (r.getD j default) (v.getD j default))))
  else none

end Opf.Py
