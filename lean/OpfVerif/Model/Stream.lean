/-
L9 — models of `opfython/stream/splitter.py` (`split`, `split_with_index`, `merge`),
`stream/parser.py` (`parse_loader`) and the binary decoding shared by the three converters of
`utils/converter.py`.  Core Lean only.
-/
namespace Opf

/-! ### split / merge -/

/-- `idx[:halt], idx[halt:]` for the permutation `idx = np.random.permutation(n)` -/
def splitIdx (perm : List Nat) (halt : Nat) : List Nat × List Nat := (perm.take halt, perm.drop halt)

/-- fancy indexing `A[idx]` -/
def gather {β : Type} [Inhabited β] (rows : List β) (idx : List Nat) : List β := idx.map (fun i => rows.getD i default)

/-- `split_with_index`: the two sets of (row, label, original index). -/
def splitRun {β : Type} [Inhabited β] (X : List β) (Y : List Nat) (perm : List Nat) (halt : Nat) :
    (List β × List Nat × List Nat) × (List β × List Nat × List Nat) :=
  let s := splitIdx perm halt
  ((gather X s.1, gather Y s.1, s.1), (gather X s.2, gather Y s.2, s.2))

/-- `merge`: `vstack` / `hstack` -/
def mergeRun {β : Type} (X1 X2 : List β) (Y1 Y2 : List Nat) : List β × List Nat := (X1 ++ X2, Y1 ++ Y2)

/-! ### parse_loader -/

/-- sorted distinct values (`np.unique`) of integer-valued labels -/
def uniqueSorted (l : List Int) : List Int :=
  (l.foldl (fun acc v => if acc.contains v then acc else acc ++ [v]) []).mergeSort (· ≤ ·)

/-- labels accepted iff their sorted distinct values are exactly `0, 1, …, K-1`.
(A non-integral label makes `np.unique(Y)` differ from `arange(K)`, hence is rejected: the harness
checks that case directly.) -/
def parseAccept (labels : List Int) : Bool :=
  uniqueSorted labels == (List.range (uniqueSorted labels).length).map Int.ofNat

/-- `X = data[:, 2:]`, `Y = data[:, 1]` -/
def parseCols {β : Type} [Inhabited β] (rows : List (List β)) : List (List β) × List β :=
  (rows.map (·.drop 2), rows.map (·.getD 1 default))

/-! ### OPF binary format: `<iii` header (samples, classes, features), records `<ii` + d × `f` -/

def le32 (b : List UInt8) : Option (UInt32 × List UInt8) :=
  match b with
  | b0 :: b1 :: b2 :: b3 :: rest =>
    some (b0.toUInt32 ||| (b1.toUInt32 <<< 8) ||| (b2.toUInt32 <<< 16) ||| (b3.toUInt32 <<< 24), rest)
  | _ => none

/-- two's-complement reading of a little-endian `int32` -/
def toInt32 (u : UInt32) : Int := if u.toNat < 2147483648 then u.toNat else (u.toNat : Int) - 4294967296

def readWords : Nat → List UInt8 → Option (List UInt32 × List UInt8)
  | 0, b => some ([], b)
  | k + 1, b => match le32 b with
    | none => none
    | some (w, rest) => match readWords k rest with
      | none => none
      | some (ws, rest') => some (w :: ws, rest')

/-- one sample as the converters emit it: identifier, label − 1, float32 payloads (bit patterns) -/
structure OpfSample where
  id : Int
  label : Int
  feats : List UInt32
deriving Repr, DecidableEq

def readSamples (d : Nat) : Nat → List UInt8 → Option (List OpfSample)
  | 0, _ => some []
  | k + 1, b => match readWords (2 + d) b with
    | some (i :: l :: fs, rest) => match readSamples d k rest with
      | none => none
      | some ss => some ({ id := toInt32 i, label := toInt32 l - 1, feats := fs } :: ss)
    | _ => none

/-- what `opf2txt` / `opf2csv` / `opf2json` decode before writing. -/
def decodeOpf (b : List UInt8) : Option (List OpfSample) :=
  match readWords 3 b with
  | some ([n, _, d], rest) => readSamples d.toNat n.toNat rest
  | _ => none

def enc32 (u : UInt32) : List UInt8 :=
  [u.toUInt8, (u >>> 8).toUInt8, (u >>> 16).toUInt8, (u >>> 24).toUInt8]

def ofInt32 (i : Int) : UInt32 := UInt32.ofNat (i % 4294967296).toNat

/-- writer of the binary format (what produced the file): labels are stored 1-based. -/
def encodeOpf (nClasses : Nat) (d : Nat) (ss : List OpfSample) : List UInt8 :=
  enc32 (UInt32.ofNat ss.length) ++ enc32 (UInt32.ofNat nClasses) ++ enc32 (UInt32.ofNat d) ++
  ss.flatMap (fun s => enc32 (ofInt32 s.id) ++ enc32 (ofInt32 (s.label + 1)) ++ s.feats.flatMap enc32)

end Opf
