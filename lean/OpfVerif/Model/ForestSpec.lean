/-
Specification-level vocabulary for forests (used by the statements of C01–C04, C09, C15, C17).
Core Lean only.
-/
import OpfVerif.Model.Forest
namespace Opf

namespace Forest
@[inline] def relevantOf (f : Forest) (x : Nat) : Bool := f.relevant.getD x false

/-- array sizes agree with `n`, predecessors and conquest order stay inside `0..n-1`. -/
structure WF (f : Forest) : Prop where
  size_pred : f.pred.size = f.n
  size_proto : f.proto.size = f.n
  size_ncost : f.ncost.size = f.n
  size_plabel : f.plabel.size = f.n
  size_label : f.label.size = f.n
  size_relevant : f.relevant.size = f.n
  pred_lt : ∀ x p, f.predOf x = some p → p < f.n
  order_lt : ∀ t, t ∈ f.order.toList → t < f.n
end Forest

/-- the conquest order is non-decreasing in cost. -/
def OrderSorted (f : Forest) : Prop :=
  f.order.toList.Pairwise (fun a b => f.costOf a ≤ f.costOf b)

/-- `Anc f c u`: `c` is `u` or a (transitive) predecessor of `u`. -/
inductive Anc (f : Forest) (c : Nat) : Nat → Prop
  | refl : Anc f c c
  | step {u p : Nat} : f.predOf u = some p → Anc f c p → Anc f c u

/-- predecessor links strictly decrease a rank that stays below `n` (for a fitted forest the rank
is the position in the conquest order: C01 `c01_forest`). Hence no cycles and paths of length ≤ n. -/
def Ranked (f : Forest) (rank : Nat → Nat) : Prop :=
  (∀ x p, f.predOf x = some p → rank p < rank x) ∧ (∀ x, x < f.n → rank x < f.n)

end Opf

namespace Opf
/-- array sizes of the per-node fields read and written by training agree with `n`. -/
structure Forest.Sized (f : Forest) : Prop where
  size_pred : f.pred.size = f.n
  size_proto : f.proto.size = f.n
  size_ncost : f.ncost.size = f.n
  size_plabel : f.plabel.size = f.n
  size_label : f.label.size = f.n
end Opf
