/-
L11 — deep-embedded expression language for the bodies of `opfython/math/distance.py`.
`V` = element-wise (numpy vector) expressions, `S` = scalar expressions.  The translator
(`tools/translate.py`) emits one `S` term per distance function into `Gen/Distance.lean`.
This file holds the syntax, the executable `Float` semantics (used by the driver to validate the
translator against the real functions) and syntactic judgements decided by `decide` on the
generated terms.  The real-number semantics lives in `Lemmas/ExprReal.lean` (needs Mathlib).
Core Lean only.
-/
namespace Opf

/-- element-wise expressions over the two argument vectors. `lit m e` is the decimal `m · 10^e`. -/
inductive V where
  | x | y
  | lit (m : Int) (e : Int)
  | add (a b : V) | sub (a b : V) | mul (a b : V) | div (a b : V)
  | sq (a : V)               -- `a ** 2`
  | sqrt (a : V)             -- `a ** 0.5`
  | abs (a : V)              -- `np.fabs`
  | log (a : V)              -- `np.log`
  | min (a b : V) | max (a b : V)   -- `np.minimum`, `np.maximum`
  | neInd (a b : V)          -- 1 where `a != b`, else 0 (argument of `np.count_nonzero`)
  | iteGe0 (c a b : V)       -- `a` where `c >= 0`, else `b` (Hassanat's mask)
deriving Repr, DecidableEq, Inhabited

/-- scalar expressions. -/
inductive S where
  | lit (m : Int) (e : Int)
  | len                      -- `x.shape[0]`
  | sum (v : V)              -- `np.sum`
  | amax (v : V)             -- `np.amax`
  | add (a b : S) | sub (a b : S) | mul (a b : S) | div (a b : S)
  | neg (a : S)
  | sq (a : S) | sqrt (a : S)
  | log (a : S) | exp (a : S)
  | min (a b : S) | max (a b : S)
deriving Repr, DecidableEq, Inhabited

def litF (m e : Int) : Float :=
  let f := Float.ofScientific m.natAbs (e < 0) e.natAbs
  if m < 0 then -f else f

namespace V
/-- value of the element-wise expression at index `i` in binary64. -/
def evalF (x y : Array Float) (i : Nat) : V → Float
  | .x => x.getD i 0
  | .y => y.getD i 0
  | .lit m e => litF m e
  | .add a b => a.evalF x y i + b.evalF x y i
  | .sub a b => a.evalF x y i - b.evalF x y i
  | .mul a b => a.evalF x y i * b.evalF x y i
  | .div a b => a.evalF x y i / b.evalF x y i
  | .sq a => let v := a.evalF x y i; v * v
  | .sqrt a => Float.sqrt (a.evalF x y i)
  | .abs a => Float.abs (a.evalF x y i)
  | .log a => Float.log (a.evalF x y i)
  | .min a b => let u := a.evalF x y i; let v := b.evalF x y i; if u ≤ v then u else v
  | .max a b => let u := a.evalF x y i; let v := b.evalF x y i; if u ≥ v then u else v
  | .neInd a b => if a.evalF x y i != b.evalF x y i then 1 else 0
  | .iteGe0 c a b => if c.evalF x y i ≥ 0 then a.evalF x y i else b.evalF x y i
end V

namespace S
def evalF (x y : Array Float) : S → Float
  | .lit m e => litF m e
  | .len => x.size.toFloat
  | .sum v => (List.range x.size).foldl (fun acc i => acc + v.evalF x y i) 0
  | .amax v => (List.range x.size).foldl
      (fun acc i => let u := v.evalF x y i; if i == 0 then u else if u > acc then u else acc) 0
  | .add a b => a.evalF x y + b.evalF x y
  | .sub a b => a.evalF x y - b.evalF x y
  | .mul a b => a.evalF x y * b.evalF x y
  | .div a b => a.evalF x y / b.evalF x y
  | .neg a => - a.evalF x y
  | .sq a => let v := a.evalF x y; v * v
  | .sqrt a => Float.sqrt (a.evalF x y)
  | .log a => Float.log (a.evalF x y)
  | .exp a => Float.exp (a.evalF x y)
  | .min a b => let u := a.evalF x y; let v := b.evalF x y; if u ≤ v then u else v
  | .max a b => let u := a.evalF x y; let v := b.evalF x y; if u ≥ v then u else v
end S

/-! ### syntactic judgements (decided on the generated terms) -/

namespace V
/-- `SafeNonneg v`: the value of `v` is `≥ 0` for purely structural reasons (squares, absolute
values, square roots, sums/products/quotients/min/max of such, non-negative literals, indicator) —
robust under any rounding that is monotone and fixes 0.  `pos = true` additionally treats the
argument vectors as non-negative (metrics whose domain is the positive orthant). -/
def safeNonneg (pos : Bool) : V → Bool
  | .x | .y => pos
  | .lit m _ => decide (0 ≤ m)
  | .add a b | .mul a b | .div a b | .min a b => a.safeNonneg pos && b.safeNonneg pos
  | .max a b => a.safeNonneg pos || b.safeNonneg pos
  | .sub _ _ => false
  | .sq _ | .abs _ | .neInd _ _ => true
  | .sqrt _ => true           -- `a ** 0.5` is ≥ 0 whenever it is defined; its own argument is checked separately
  | .log _ => false
  | .iteGe0 _ a b => a.safeNonneg pos && b.safeNonneg pos

/-- every `sqrt` inside `v` has a structurally non-negative argument. -/
def sqrtArgsSafe (pos : Bool) : V → Bool
  | .x | .y | .lit _ _ => true
  | .add a b | .sub a b | .mul a b | .div a b | .min a b | .max a b | .neInd a b =>
      a.sqrtArgsSafe pos && b.sqrtArgsSafe pos
  | .sq a | .abs a | .log a => a.sqrtArgsSafe pos
  | .sqrt a => a.safeNonneg pos && a.sqrtArgsSafe pos
  | .iteGe0 c a b => c.sqrtArgsSafe pos && a.sqrtArgsSafe pos && b.sqrtArgsSafe pos

/-- `v` with the two argument vectors exchanged. -/
def swapXY : V → V
  | .x => .y | .y => .x | .lit m e => .lit m e
  | .add a b => .add a.swapXY b.swapXY | .sub a b => .sub a.swapXY b.swapXY
  | .mul a b => .mul a.swapXY b.swapXY | .div a b => .div a.swapXY b.swapXY
  | .sq a => .sq a.swapXY | .sqrt a => .sqrt a.swapXY | .abs a => .abs a.swapXY | .log a => .log a.swapXY
  | .min a b => .min a.swapXY b.swapXY | .max a b => .max a.swapXY b.swapXY
  | .neInd a b => .neInd a.swapXY b.swapXY
  | .iteGe0 c a b => .iteGe0 c.swapXY a.swapXY b.swapXY
end V

namespace S
def safeNonneg (pos : Bool) : S → Bool
  | .lit m _ => decide (0 ≤ m)
  | .len => true
  | .sum v | .amax v => v.safeNonneg pos
  | .add a b | .mul a b | .div a b | .min a b => a.safeNonneg pos && b.safeNonneg pos
  | .max a b => a.safeNonneg pos || b.safeNonneg pos
  | .sub _ _ | .neg _ | .log _ => false
  | .sq _ | .sqrt _ | .exp _ => true

def sqrtArgsSafe (pos : Bool) : S → Bool
  | .lit _ _ | .len => true
  | .sum v | .amax v => v.sqrtArgsSafe pos
  | .add a b | .sub a b | .mul a b | .div a b | .min a b | .max a b =>
      a.sqrtArgsSafe pos && b.sqrtArgsSafe pos
  | .neg a | .sq a | .log a | .exp a => a.sqrtArgsSafe pos
  | .sqrt a => a.safeNonneg pos && a.sqrtArgsSafe pos

def swapXY : S → S
  | .lit m e => .lit m e | .len => .len
  | .sum v => .sum v.swapXY | .amax v => .amax v.swapXY
  | .add a b => .add a.swapXY b.swapXY | .sub a b => .sub a.swapXY b.swapXY
  | .mul a b => .mul a.swapXY b.swapXY | .div a b => .div a.swapXY b.swapXY
  | .neg a => .neg a.swapXY | .sq a => .sq a.swapXY | .sqrt a => .sqrt a.swapXY
  | .log a => .log a.swapXY | .exp a => .exp a.swapXY
  | .min a b => .min a.swapXY b.swapXY | .max a b => .max a.swapXY b.swapXY
end S

end Opf
