/-
Tabulated replay of an observed removal order through the relational clustering semantics
(`runPicksCluF` = `runPicksClu` with states frozen into arrays after every step; equality proved in
`Lemmas/ClusterLawful.lean`).  Core Lean only.
-/
import OpfVerif.Model.ClusterSpec
import OpfVerif.Model.Lawful
namespace Opf.CluInst

def freeze (n : Nat) (s : DState) : DState :=
  let c := (Array.range n).map s.color
  let k := (Array.range n).map s.cost
  let p := (Array.range n).map s.pred
  let r := (Array.range n).map s.root
  let l := (Array.range n).map s.lab
  { color := tabOf c s.color, cost := tabOf k s.cost, pred := tabOf p s.pred, root := tabOf r s.root,
    lab := tabOf l s.lab, order := s.order, next := s.next }

def runPicksCluF (I : CluInst) (s : DState) : List Nat → Option DState
  | [] => some s
  | p :: ps => if I.pickOk s p then runPicksCluF I (freeze I.n (I.fire s p)) ps else none

end Opf.CluInst
