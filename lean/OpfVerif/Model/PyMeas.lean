/-
numpy operations used by the translation of the COUNTING part of `opfython/math/general.py`
(`tools/translate_meas.py`); continues `Model/PyNumpy.lean`.  Core Lean only.  This file is the trusted reading
of numpy for that translation (DESIGN §6): the count tables are float64 arrays that only receive `+= 1` and are read
as ints (exact below 2^53 increments).
-/
import OpfVerif.Model.PyNumpy
namespace Opf.Py

/-- `np.max(a)` of an int vector (`ValueError` on an empty one). -/
def npMax (a : Array Int) : Option Int :=
  match a.toList with
  | [] => none
  | x :: xs => some (xs.foldl max x)

/-- `np.zeros(n)` (`ValueError` on a negative dimension). -/
def zeros1 (n : Int) : Option (Array Int) :=
  if n < 0 then none else some (Array.replicate n.toNat 0)

/-- `np.zeros((r, c))`. -/
def zeros2 (r c : Int) : Option (Array (Array Int)) :=
  if r < 0 ∨ c < 0 then none else some (Array.replicate r.toNat (Array.replicate c.toNat 0))

/-- `np.bincount(a, minlength=m)`: `ValueError` on a negative entry (or a negative `minlength`); the result has length
`max(m, max(a) + 1)` and entry `v` counts the occurrences of `v`. -/
def bincount (a : Array Int) (m : Int) : Option (Array Int) :=
  if m < 0 ∨ a.any (· < 0) then none
  else
    let len := max m.toNat ((a.toList.foldl max (-1)) + 1).toNat
    some (Array.ofFn (n := len) (fun v => ((a.toList.filter (· == (v.val : Int))).length : Int)))

/-- insertion of `x` into a sorted list of (value, multiplicity). -/
def insertCount (x : Int) : List (Int × Int) → List (Int × Int)
  | [] => [(x, 1)]
  | (v, c) :: rest => if x = v then (v, c + 1) :: rest else if x < v then (x, 1) :: (v, c) :: rest else (v, c) :: insertCount x rest

/-- `np.unique(a, return_counts=True)[1]`: multiplicities of the sorted distinct values. -/
def uniqueCounts (a : Array Int) : Array Int :=
  ((a.toList.foldl (fun acc x => insertCount x acc) []).map (·.2)).toArray

/-- `np.unique(a, return_counts=True)[0]`: the sorted distinct values. -/
def uniqueVals (a : Array Int) : Array Int :=
  ((a.toList.foldl (fun acc x => insertCount x acc) []).map (·.1)).toArray

/-- `np.arange(n)`. -/
def arange (n : Int) : Array Int := ((List.range n.toNat).map Int.ofNat).toArray

/-- `for x, y in zip(a, b): body` over the tuple `σ` of tables the body updates (`zip` stops at the shorter one). -/
def forZip {σ : Type} (a b : Array Int) (body : Int → Int → σ → Option σ) (s : σ) : Option σ :=
  (a.toList.zip b.toList).foldlM (fun s p => body p.1 p.2 s) s

/-- `np.sum(np.max(M, axis=0))` of a rectangular int matrix: the sum over columns of the column maximum
(`ValueError` for a matrix with no rows; rows are as long as the first one). -/
def sumColMax (M : Array (Array Int)) : Option Int :=
  match M.toList with
  | [] => none
  | r0 :: rows =>
    some ((List.range r0.size).foldl (fun acc j => acc + rows.foldl (fun m r => max m (r.getD j 0)) (r0.getD j 0)) 0)

end Opf.Py
