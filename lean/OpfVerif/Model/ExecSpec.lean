/- instances of the relational semantics read off the executable models' inputs. Core Lean only. -/
import OpfVerif.Model.ForestSpec
import OpfVerif.Model.CompeteSpec
import OpfVerif.Model.PrimSpec
import OpfVerif.Model.Lawful
namespace Opf

/-- competition instance for the forest left by prototype selection: seeds = flagged prototypes,
seed labels = true labels. -/
def compInstOf (w : Nat → Nat → Int) (top : Int) (f : Forest) : CompInst :=
  { n := f.n, w := w, seed := f.isProto, lam := f.labelOf, top := top }

/-- Prim instance on the first `nLab` nodes of a forest. -/
def primInstOf (w : Nat → Nat → Int) (top : Int) (nLab : Nat) (f : Forest) : PrimInst :=
  { n := nLab, w := w, lam := f.labelOf, top := top }

end Opf
