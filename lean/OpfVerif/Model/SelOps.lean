/-
Object-level semantics for the methods that DRIVE other methods (`KNNSupervisedOPF._learn / fit`,
`UnsupervisedOPF._best_minimum_cut / fit`; generated counterpart: `Gen/SelImp.lean`, translator
`tools/translate_sel.py`, DESIGN §2.1b).

`σ` is the whole state of the model object. Every method the loops call is an ARBITRARY partial state
transformer (a field of `SelOps`): nothing is assumed about what `create_arcs`, `calculate_pdf`, the clusterings,
`predict`, `opf_accuracy`, `_normalized_cut` or the validating setters do — the theorems about the selection
(Props/C16SelRefine.lean) hold for every choice, in particular for the real methods (whose own refinement
theorems are C12Refine, C12PdfRefine, C13Refine, C14Refine, C16Refine).  Core Lean only.
-/
import OpfVerif.Model.PyPrelude
import OpfVerif.Model.Knn
namespace Opf

structure SelOps (σ : Type) where
  /-- `self.subgraph = KNNSubgraph(X_train, Y_train, I_train)` -/
  new_subgraph : σ → Option σ
  pre_computed_distance : σ → Bool
  pre_shape0 : σ → Int
  pre_shape1 : σ → Int
  n_nodes : σ → Int
  min_k : σ → Int
  max_k : σ → Int
  get_best_k : σ → Int
  /-- the validating setters of `KNNSubgraph` / the `trained` attribute -/
  set_best_k : σ → Int → Option σ
  set_density : σ → Int → Option σ
  set_trained : σ → Bool → Option σ
  /-- `create_arcs(k, self.distance_fn, self.pre_computed_distance, self.pre_distances)` and its returned list -/
  create_arcs : σ → Int → Option (σ × Array Int)
  calculate_pdf : σ → Int → Option σ
  destroy_arcs : σ → Option σ
  /-- `KNNSupervisedOPF._clustering(force_prototype)` -/
  knn_clustering : σ → Bool → Option σ
  /-- `UnsupervisedOPF._clustering(k)` -/
  uns_clustering : σ → Int → Option σ
  /-- `self.predict(X_val, I_val)` and the list it returns -/
  predict_val : σ → Option (σ × Array Int)
  /-- `g.opf_accuracy(Y_val, preds)` (encoded float) -/
  opf_accuracy : Array Int → Option Int
  /-- `self._normalized_cut(k)` (encoded float) -/
  normalized_cut : σ → Int → Option Int

namespace Sel
variable {σ : Type}

/-- what `_learn` does for ONE candidate `k`: the state it leaves and the validation accuracy it observed. -/
def knnCandidate (ops : SelOps σ) (s : σ) (k : Int) : Option (σ × Int) := do
  let s ← ops.set_best_k s k
  let (s, _) ← ops.create_arcs s k
  let s ← ops.calculate_pdf s k
  let s ← ops.knn_clustering s false
  let (s, preds) ← ops.predict_val s
  let acc ← ops.opf_accuracy preds
  let s ← ops.destroy_arcs s
  pure (s, acc)

/-- candidates `1, 2, …, m` in that order; the accuracies observed, in that order. -/
def knnTrace (ops : SelOps σ) : Nat → σ → Option (σ × List Int)
  | 0, s => some (s, [])
  | m + 1, s => do
    let (s, accs) ← knnTrace ops m s
    let (s, a) ← knnCandidate ops s ((m : Int) + 1)
    pure (s, accs ++ [a])

/-- the size test of the pre-computed matrix made by `_learn`. -/
def knnGuard (ops : SelOps σ) (s : σ) : Bool :=
  ops.pre_computed_distance s && (decide (ops.pre_shape0 s ≠ ops.n_nodes s) || decide (ops.pre_shape1 s ≠ ops.n_nodes s))

/-- `_learn`, as a specification: build the subgraph, evaluate every candidate, keep `selectMaxAcc`. -/
def knnLearnSpec (ops : SelOps σ) (negOne : Int) (s0 : σ) : Option σ := do
  let s ← ops.new_subgraph s0
  if knnGuard ops s then none
  let (s, accs) ← knnTrace ops (ops.max_k s).toNat s
  let k ← selectMaxAcc negOne accs
  ops.set_best_k s (k : Int)

/-- the final model of `fit`, built from the state `_learn` leaves (its `best_k` is read from that state). -/
def knnBuild (ops : SelOps σ) (s : σ) : Option σ := do
  let (s, _) ← ops.create_arcs s (ops.get_best_k s)
  let s ← ops.calculate_pdf s (ops.get_best_k s)
  let s ← ops.knn_clustering s true
  let s ← ops.destroy_arcs s
  ops.set_trained s true

/-- what `_best_minimum_cut` does for ONE evaluated candidate `k`. -/
def unsCandidate (ops : SelOps σ) (md : Array Int) (s : σ) (k : Int) : Option (σ × Int) := do
  let d ← Py.idx md (k - 1)
  let s ← ops.set_density s d
  let s ← ops.set_best_k s k
  let s ← ops.calculate_pdf s k
  let s ← ops.uns_clustering s k
  let cut ← ops.normalized_cut s k
  pure (s, cut)

/-- candidates `k0, k0+1, …` (`c` of them) with the running minimum `mn`: a candidate is evaluated only while the
running minimum is not exactly `zero`; returns the state and the cuts of the EVALUATED candidates, in order. -/
def unsTrace (ops : SelOps σ) (md : Array Int) (zero : Int) : Nat → Int → Int → σ → Option (σ × List Int)
  | 0, _, _, s => some (s, [])
  | c + 1, k, mn, s =>
    if mn ≠ zero then do
      let (s, cut) ← unsCandidate ops md s k
      let (s, ev) ← unsTrace ops md zero c (k + 1) (if cut < mn then cut else mn) s
      pure (s, cut :: ev)
    else unsTrace ops md zero c (k + 1) mn s

/-- `_best_minimum_cut`, as a specification. The kept `k` is `min_k +` the position `selectMinCut` picks in the list
of evaluated cuts. -/
def unsBmcSpec (ops : SelOps σ) (top zero : Int) (s0 : σ) (min_k max_k : Int) : Option σ := do
  let (s, md) ← ops.create_arcs s0 max_k
  let (s, ev) ← unsTrace ops md zero (max_k + 1 - min_k).toNat min_k top s
  let s ← ops.destroy_arcs s
  let i ← (selectMinCut top zero 0 ev).1
  let k := min_k + (i : Int)
  let s ← ops.set_best_k s k
  let (s, _) ← ops.create_arcs s k
  ops.calculate_pdf s k

/-- unsupervised `fit`. -/
def unsFitSpec (ops : SelOps σ) (top zero : Int) (s0 : σ) : Option σ := do
  let s ← ops.new_subgraph s0
  let s ← unsBmcSpec ops top zero s (ops.min_k s) (ops.max_k s)
  let s ← ops.uns_clustering s (ops.get_best_k s)
  ops.set_trained s true

end Sel
end Opf
