/-
Object-level semantics for `SupervisedOPF.prune` (generated counterpart: `Gen/PruneImp.lean`, translator
`tools/translate_sel.py`, DESIGN §2.1b). `fit`, `predict`, `opf_accuracy`, the list of relevance flags and the node
count are ARBITRARY. Core Lean only.
-/
import OpfVerif.Model.PyPrelude
import OpfVerif.Model.Learn
namespace Opf

namespace Py
/-- `for j, x in enumerate(a): body` over the tuple `σ` of variables the body assigns. -/
def forEnum {α σ : Type} (a : Array α) (body : Int → α → σ → Option σ) (s : σ) : Option σ :=
  ((List.range a.size).zip a.toList).foldlM (fun s p => body (p.1 : Int) p.2 s) s
end Py

structure PruneOps (σ β : Type) where
  fit : σ → Array β → Array Int → Option σ
  predict : σ → Array β → Option (σ × Array Int)
  opf_accuracy : Array Int → Array Int → Option Int
  /-- `[n.relevant for n in self.subgraph.nodes]` -/
  relevants : σ → Array Int
  n_nodes : σ → Int

namespace PruneSpec
variable {σ β : Type}

/-- the rows and labels at the positions whose flag is not `irr` (positions beyond either array raise). -/
def keep (irr : Int) (flags : Array Int) (X : Array β) (Y : Array Int) : Option (Array β × Array Int) :=
  ((List.range flags.size).zip flags.toList).foldlM (fun (acc : Array β × Array Int) p =>
    if p.2 ≠ irr then do
      let x ← X[p.1]?
      let y ← Y[p.1]?
      pure (acc.1.push x, acc.2.push y)
    else pure acc) (#[], #[])

/-- `n` rounds of: keep the relevant samples, fit on them, predict the validation set, measure. -/
def rounds (ops : PruneOps σ β) (irr : Int) (Xv : Array β) (Yv : Array Int) :
    Nat → σ → Array β → Array Int → Option (σ × Array β × Array Int)
  | 0, s, X, Y => some (s, X, Y)
  | n + 1, s, X, Y => do
    let (X, Y) ← keep irr (ops.relevants s) X Y
    let s ← ops.fit s X Y
    let (s, preds) ← ops.predict s Xv
    let _ ← ops.opf_accuracy Yv preds
    rounds ops irr Xv Yv n s X Y

/-- `prune`, as a specification (the final `1 - final_nodes / initial_nodes` raises when the first fit left no node). -/
def pruneSpec (ops : PruneOps σ β) (irr : Int) (s : σ) (Xt : Array β) (Yt : Array Int) (Xv : Array β) (Yv : Array Int)
    (n : Int) : Option (σ × Array β × Array Int) := do
  let s ← ops.fit s Xt Yt
  let (s, _) ← ops.predict s Xv
  let initial := ops.n_nodes s
  let r ← rounds ops irr Xv Yv n.toNat s Xt Yt
  if initial = 0 then none else pure r

end PruneSpec
end Opf
