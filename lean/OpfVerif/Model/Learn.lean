/-
L8 — model of the sample-exchange loop of `SupervisedOPF.learn` (supervised.py:293-314), of its
keep-the-best rule, and of the filter of `prune`.  Samples are abstract values (`β` = the pair
(feature row, label)); the random draws are an explicit input list.  Core Lean only.
-/
namespace Opf

/-- state of the exchange loop: the two sample lists, the count of non-prototypes still allowed
to be swapped, and the unread draws. -/
structure SwapSt (β : Type) where
  train : List β
  val : List β
  nonProto : Nat
  draws : List Nat

/-- `while ctr > 0: j = draw; if not prototype[j]: swap(train[j], val[err]); non_prototypes -= 1; ctr = 0
    else: ctr -= 1` -/
def swapTry {β : Type} [Inhabited β] (isProto : Nat → Bool) (err : Nat) : Nat → SwapSt β → SwapSt β
  | 0, s => s
  | ctr + 1, s =>
    match s.draws with
    | [] => s
    | j :: ds =>
      if !isProto j then
        { train := s.train.set j (s.val.getD err default), val := s.val.set err (s.train.getD j default),
          nonProto := s.nonProto - 1, draws := ds }
      else swapTry isProto err ctr { s with draws := ds }

/-- `for err in errors: ctr = non_prototypes; …` -/
def swapLoop {β : Type} [Inhabited β] (isProto : Nat → Bool) (errors : List Nat) (s : SwapSt β) : SwapSt β :=
  errors.foldl (fun s err => swapTry isProto err s.nonProto s) s

/-- index (0-based) of the iteration whose model is kept: first strict improvement over `start`. -/
def bestIter (start : Int) (accs : List Int) : Option Nat :=
  (accs.foldl (fun (st : Int × Option Nat × Nat) a =>
      if a > st.1 then (a, some st.2.2, st.2.2 + 1) else (st.1, st.2.1, st.2.2 + 1)) (start, none, 0)).2.1

/-- `prune`: keep the samples flagged relevant, rows and labels together. -/
def pruneFilter {β : Type} (relevant : Nat → Bool) (samples : List β) : List β :=
  ((List.range samples.length).zip samples).filterMap (fun p => if relevant p.1 then some p.2 else none)

end Opf

namespace Opf

/-- number of iterations `learn` executes when its successive validation accuracies are `accs`:
after iteration `t` (1-based) it stops iff `|acc_t - acc_{t-1}| < 0.0001` (with `acc_0 = 0`) or `t = n_iterations`. -/
def learnIterations (nIter : Nat) : Float → Nat → List Float → Nat
  | _, t, [] => t
  | prev, t, a :: rest =>
    if Float.abs (a - prev) < 0.0001 || (t + 1 == nIter) then t + 1
    else learnIterations nIter a (t + 1) rest

end Opf
