/-
Relational ("lawful run") semantics of the density clustering of `UnsupervisedOPF._clustering` and
`KNNSupervisedOPF._clustering` after the symmetrisation pass: a step removes ANY queued sample of maximum
cost (the tie-breaking of the real max-heap is not fixed), lifts it to its density if it is a root, and
offers `min (cost p) (dens q)` to every not-yet-removed neighbour `q`.  C13's forest theorems are proved for
every run of this semantics (`Props/C13Rel.lean`); `runPicksClu` is the executable acceptance test applied to
the removal order observed on the real code (tier B).  Core Lean only.
-/
import OpfVerif.Model.Heap
namespace Opf

structure DState where
  color : Nat → Nat
  cost  : Nat → Int
  pred  : Nat → Option Nat
  root  : Nat → Nat
  lab   : Nat → Nat          -- cluster id (unsupervised) / assigned label (KNN-supervised)
  order : List Nat
  next  : Nat                -- next cluster id to hand out (unsupervised)

structure CluInst where
  n      : Nat
  nbrs   : Nat → List Nat    -- neighbours visited from a sample (after symmetrisation; may repeat entries)
  dens   : Nat → Int
  cost0  : Nat → Int         -- initial costs (density − 1 after `calculate_pdf`)
  tlabel : Nat → Nat
  unsup  : Bool
  force  : Bool
  negTop : Int

namespace CluInst

/-- every sample queued with its initial cost, no predecessor, its own root; labels are whatever
they were (`lab0`). -/
def init (I : CluInst) (lab0 : Nat → Nat) : DState :=
  { color := fun x => if x < I.n then GRAY else WHITE,
    cost := I.cost0, pred := fun _ => none, root := fun x => x, lab := lab0, order := [], next := 0 }

/-- cost with which `p` leaves the queue: its density if it is a root, its current cost otherwise. -/
def liftedCost (I : CluInst) (s : DState) (p : Nat) : Int :=
  if s.pred p = none then I.dens p else s.cost p

/-- label `p` carries when it leaves the queue. -/
def liftedLab (I : CluInst) (s : DState) (p : Nat) : Nat :=
  if s.pred p = none then (if I.unsup then s.next else I.tlabel p) else s.lab p

/-- what `p` offers its neighbour `q`. -/
def offer (I : CluInst) (s : DState) (p q : Nat) : Int :=
  if I.force = true ∧ I.tlabel p ≠ I.tlabel q then I.negTop else min (I.liftedCost s p) (I.dens q)

/-- `q` is conquered by `p` at this step. -/
def conquered (I : CluInst) (s : DState) (p q : Nat) : Bool :=
  decide (q ∈ I.nbrs p ∧ q ≠ p ∧ s.color q ≠ BLACK ∧ s.cost q < I.offer s p q)

def fire (I : CluInst) (s : DState) (p : Nat) : DState :=
  { color := fun q => if q = p then BLACK else s.color q,
    cost := fun q => if q = p then I.liftedCost s p else if I.conquered s p q then I.offer s p q else s.cost q,
    pred := fun q => if q ≠ p ∧ I.conquered s p q then some p else s.pred q,
    root := fun q => if q ≠ p ∧ I.conquered s p q then s.root p else s.root q,
    lab := fun q => if q = p then I.liftedLab s p else if I.conquered s p q then I.liftedLab s p else s.lab q,
    order := s.order ++ [p],
    next := if s.pred p = none ∧ I.unsup = true then s.next + 1 else s.next }

/-- lawful step: `p` is queued and no queued sample has a strictly larger cost. -/
def Step (I : CluInst) (s s' : DState) : Prop :=
  ∃ p, p < I.n ∧ s.color p = GRAY ∧ (∀ q, q < I.n → s.color q = GRAY → s.cost q ≤ s.cost p) ∧ s' = I.fire s p

inductive Reach (I : CluInst) (lab0 : Nat → Nat) : DState → Prop
  | init : Reach I lab0 (I.init lab0)
  | step {s s' : DState} : Reach I lab0 s → I.Step s s' → Reach I lab0 s'

def Final (I : CluInst) (s : DState) : Prop := ∀ q, q < I.n → s.color q ≠ GRAY

/-- hypotheses: neighbours are samples other than oneself, initial costs strictly below densities and
above the sentinel. -/
structure Good (I : CluInst) : Prop where
  nbrs_lt : ∀ p, p < I.n → ∀ q, q ∈ I.nbrs p → q < I.n ∧ q ≠ p
  below : ∀ i, i < I.n → I.cost0 i < I.dens i
  sentinel : ∀ i, i < I.n → I.negTop < I.cost0 i

/-- `DChain s r t`: following `pred` from `t` reaches `r`. -/
inductive DChain (s : DState) (r : Nat) : Nat → Prop
  | refl : DChain s r r
  | step {t p : Nat} : s.pred t = some p → DChain s r p → DChain s r t

/-- executable acceptance of an observed removal order. -/
def pickOk (I : CluInst) (s : DState) (p : Nat) : Bool :=
  decide (p < I.n) && decide (s.color p = GRAY) &&
  (List.range I.n).all (fun q => !(decide (s.color q = GRAY)) || decide (s.cost q ≤ s.cost p))

def runPicksClu (I : CluInst) (s : DState) : List Nat → Option DState
  | [] => some s
  | p :: ps => if I.pickOk s p then runPicksClu I (I.fire s p) ps else none

def isFinal (I : CluInst) (s : DState) : Bool :=
  (List.range I.n).all (fun q => !(decide (s.color q = GRAY)))

end CluInst
end Opf
