/-
Executable acceptance test for the relational semantics (tier B of DESIGN §2.3): given the
removal order observed on the REAL code, `runPicks` replays it through `fire`, checking at every
step that the removed node was queued and of minimum cost among the queued ones — i.e. that the
implementation's run is a lawful run, whatever its tie-breaking.  `runPicks_reach` (in
`Lemmas/Lawful.lean`) shows acceptance implies `Reach`, so the C01/C02/C15 theorems apply to the
accepted run; the driver then prints the final abstract state for comparison with the real one.
Core Lean only.
-/
import OpfVerif.Model.CompeteSpec
import OpfVerif.Model.PrimSpec
namespace Opf

namespace CompInst
/-- decidable form of the side conditions of `Step` for the pick `p`. -/
def pickOk (I : CompInst) (s : AState) (p : Nat) : Bool :=
  decide (p < I.n) && decide (s.color p = GRAY) &&
  (List.range I.n).all (fun q => !(decide (s.color q = GRAY)) || decide (s.cost p ≤ s.cost q))

def runPicks (I : CompInst) (s : AState) : List Nat → Option AState
  | [] => some s
  | p :: ps => if I.pickOk s p then runPicks I (I.fire s p) ps else none

def isFinal (I : CompInst) (s : AState) : Bool :=
  (List.range I.n).all (fun q => !(decide (s.color q = GRAY)))
end CompInst

namespace PrimInst
def pickOk (I : PrimInst) (s : PState) (p : Nat) : Bool :=
  decide (p < I.n) && decide (s.color p = GRAY) &&
  (List.range I.n).all (fun q => !(decide (s.color q = GRAY)) || decide (s.cost p ≤ s.cost q))

def runPicks (I : PrimInst) (s : PState) : List Nat → Option PState
  | [] => some s
  | p :: ps => if I.pickOk s p then runPicks I (I.fire s p) ps else none

def isFinal (I : PrimInst) (s : PState) : Bool :=
  (List.range I.n).all (fun q => !(decide (s.color q = GRAY)))
end PrimInst

end Opf

/-! ### evaluation strategy: freeze function-valued states into arrays

`fire` builds closures over the previous state; replaying a long order through nested closures
re-evaluates them exponentially often.  `freeze` tabulates the first `n` values of every field
(and falls back to the closure beyond `n`); it is the identity on states (`freeze_eq`, proved in
`Lemmas/Lawful.lean`), so `runPicksF` below computes exactly `runPicks`. -/
namespace Opf

/-- `tabOf a f`: array lookup with the function itself as fall-back beyond the table. -/
def tabOf {β : Type} (a : Array β) (f : Nat → β) : Nat → β :=
  fun x => if h : x < a.size then a[x] else f x

namespace CompInst
/-- the tables are built when `freeze` is called (it returns a structure, so the `let`s are evaluated
once), the closures only index them. -/
def freeze (n : Nat) (s : AState) : AState :=
  let c := (Array.range n).map s.color
  let k := (Array.range n).map s.cost
  let p := (Array.range n).map s.pred
  let l := (Array.range n).map s.lab
  { color := tabOf c s.color, cost := tabOf k s.cost, pred := tabOf p s.pred, lab := tabOf l s.lab, order := s.order }

def runPicksF (I : CompInst) (s : AState) : List Nat → Option AState
  | [] => some s
  | p :: ps => if I.pickOk s p then runPicksF I (freeze I.n (I.fire s p)) ps else none
end CompInst

namespace PrimInst
def freeze (n : Nat) (s : PState) : PState :=
  let c := (Array.range n).map s.color
  let k := (Array.range n).map s.cost
  let p := (Array.range n).map s.pred
  let l := (Array.range n).map s.proto
  { color := tabOf c s.color, cost := tabOf k s.cost, pred := tabOf p s.pred, proto := tabOf l s.proto, order := s.order }

def runPicksF (I : PrimInst) (s : PState) : List Nat → Option PState
  | [] => some s
  | p :: ps => if I.pickOk s p then runPicksF I (freeze I.n (I.fire s p)) ps else none
end PrimInst

end Opf
