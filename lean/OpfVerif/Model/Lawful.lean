/-
Executable acceptance test for the relational semantics (tier B of DESIGN §2.3): given the
removal order observed on the REAL code, `runPicks` replays it through `fire`, checking at every
step that the removed node was queued and of minimum cost among the queued ones — i.e. that the
implementation's run is a lawful run, whatever its tie-breaking.  `runPicks_reach` (in
`Lemmas/Lawful.lean`) shows acceptance implies `Reach`, so the C01/C02/C15 theorems apply to the
accepted run; the driver then prints the final abstract state for comparison with the real one.
Core Lean only.
-/
import OpfVerif.Model.CompeteSpec
import OpfVerif.Model.PrimSpec
namespace Opf

namespace CompInst
/-- decidable form of the side conditions of `Step` for the pick `p`. -/
def pickOk (I : CompInst) (s : AState) (p : Nat) : Bool :=
  decide (p < I.n) && decide (s.color p = GRAY) &&
  (List.range I.n).all (fun q => !(decide (s.color q = GRAY)) || decide (s.cost p ≤ s.cost q))

def runPicks (I : CompInst) (s : AState) : List Nat → Option AState
  | [] => some s
  | p :: ps => if I.pickOk s p then runPicks I (I.fire s p) ps else none

def isFinal (I : CompInst) (s : AState) : Bool :=
  (List.range I.n).all (fun q => !(decide (s.color q = GRAY)))
end CompInst

namespace PrimInst
def pickOk (I : PrimInst) (s : PState) (p : Nat) : Bool :=
  decide (p < I.n) && decide (s.color p = GRAY) &&
  (List.range I.n).all (fun q => !(decide (s.color q = GRAY)) || decide (s.cost p ≤ s.cost q))

def runPicks (I : PrimInst) (s : PState) : List Nat → Option PState
  | [] => some s
  | p :: ps => if I.pickOk s p then runPicks I (I.fire s p) ps else none

def isFinal (I : PrimInst) (s : PState) : Bool :=
  (List.range I.n).all (fun q => !(decide (s.color q = GRAY)))
end PrimInst

end Opf
