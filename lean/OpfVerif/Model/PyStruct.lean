/-
Trusted reading of the `struct` / binary-file / dict operations used by `opfython/utils/converter.py` and by
`load_json` of `opfython/stream/loader.py`, for the translation `tools/translate_conv.py` → `Gen/ConvImp.lean`
(DESIGN §2.1b).  Core Lean only; continues `Model/PyNumpy.lean`, uses the byte-level helpers of `Model/Stream.lean`.

* a format string is a `List Char`; only `<` followed by `i` (little-endian int32) and `f` (binary32) letters occurs;
* an unpacked value is an `SVal`: a Python int, or a float identified by its binary32 bit pattern (the conversion
  binary32 → Python float (binary64) is exact and injective, so equality of bit patterns is equality of values
  up to `-0.0 == 0.0` and NaN payloads);
* `struct.unpack(fmt, b)` raises `struct.error` unless `len(b) == calcsize(fmt)`;
* `f.read(k)` returns at most `k` bytes and advances the position (`k < 0` reads everything);
* a JSON object is an association list; `d[key]` raises `KeyError` on a missing key.
-/
import OpfVerif.Model.PyNumpy
import OpfVerif.Model.Stream
namespace Opf.PyS

inductive SVal where
  | int (i : Int)
  | f32 (bits : UInt32)
deriving Repr, DecidableEq, Inhabited

/-- the letters of a `<…` format made of `i` and `f` only (anything else is outside the fragment: `none`). -/
def fmtLetters (fmt : List Char) : Option (List Char) :=
  match fmt with
  | '<' :: ls => if ls.all (fun c => c == 'i' || c == 'f') then some ls else none
  | _ => none

/-- `struct.calcsize(fmt)`: four bytes per letter, no padding under `<`. -/
def calcsize (fmt : List Char) : Option Int :=
  (fmtLetters fmt).map (fun ls => 4 * (ls.length : Int))

def unpackLetters : List Char → List UInt8 → Option (List SVal)
  | [], [] => some []
  | [], _ :: _ => none
  | c :: cs, b =>
    match le32 b with
    | none => none
    | some (w, rest) =>
      match unpackLetters cs rest with
      | none => none
      | some vs => some ((if c == 'i' then SVal.int (toInt32 w) else SVal.f32 w) :: vs)

/-- `struct.unpack(fmt, b)` (a tuple). -/
def unpack (fmt : List Char) (b : List UInt8) : Option (Array SVal) :=
  match fmtLetters fmt with
  | none => none
  | some ls => (unpackLetters ls b).map List.toArray

/-- `f.read(k)`: the bytes returned and the rest of the file. -/
def read (f : List UInt8) (k : Int) : List UInt8 × List UInt8 :=
  if k < 0 then (f, []) else (f.take k.toNat, f.drop k.toNat)

/-- the value used as `range(v)` bound: a float raises `TypeError`. -/
def asInt : SVal → Option Int
  | .int i => some i
  | .f32 _ => none

/-- `v - c` for an int constant `c`.  Float arithmetic is outside the fragment (`none`); the refinement theorems show the
branch is never taken, because the operand is always unpacked with an `i` letter. -/
def subInt : SVal → Int → Option SVal
  | .int i, c => some (.int (i - c))
  | .f32 _, _ => none

/-- a JSON value as the converter writes it: a scalar or a list of scalars. -/
inductive JVal where
  | sc (v : SVal)
  | arr (a : Array SVal)
deriving Repr, DecidableEq, Inhabited

abbrev JRec := List (String × JVal)

/-- `d[key]` on a dict. -/
def dget (d : JRec) (key : String) : Option JVal := (d.find? (fun p => p.1 == key)).map (·.2)

/-- a dict entry used as one element of `np.asarray([…])` must be a scalar for the row to be numeric. -/
def scalar : JVal → Option SVal
  | .sc v => some v
  | .arr _ => none

/-- `np.asarray(d["features"])` used as a 1-D vector. -/
def vector : JVal → Option (Array SVal)
  | .arr a => some a
  | .sc _ => none

/-- `for d in <list>: body` over a list that the body does not modify. -/
def forEach {α σ : Type} (l : Array α) (body : α → σ → Option σ) (s : σ) : Option σ :=
  l.toList.foldlM (fun s x => body x s) s

end Opf.PyS
