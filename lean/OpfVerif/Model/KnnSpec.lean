/-
Specification-level vocabulary for the k-NN graph, the density clustering and prediction
(statements of C12, C13, C14, C16).  Core Lean only.
-/
import OpfVerif.Model.Knn
namespace Opf

/-- stable insertion of `a` into a list sorted by distance: after every element whose distance is
`≤` its own (so equal distances keep scan order). -/
def stableInsert (a : Slot) : List Slot → List Slot
  | [] => [a]
  | b :: l => if a.1 < b.1 then a :: b :: l else b :: stableInsert a l

/-- reference: candidates in scan order, stably sorted by distance (ties by scan position). -/
def stableSort (dist : Nat → Int) (cands : List Nat) : List Slot :=
  cands.foldl (fun acc j => stableInsert (dist j, j) acc) []

/-- the `k` nearest candidates in the reference order. -/
def kNearest (k : Nat) (dist : Nat → Int) (cands : List Nat) : List Slot :=
  (stableSort dist cands).take k

namespace Clu
/-- array sizes agree with `n`, adjacency entries are node ids. -/
structure WF (c : Clu) : Prop where
  size_adj : c.adj.size = c.n
  size_nplat : c.nplat.size = c.n
  size_dens : c.dens.size = c.n
  size_cost : c.cost.size = c.n
  size_pred : c.pred.size = c.n
  size_root : c.root.size = c.n
  size_lab : c.lab.size = c.n
  size_tlabel : c.tlabel.size = c.n
  adj_lt : ∀ i, i < c.n → ∀ j, j ∈ c.adjOf i → j < c.n ∧ j ≠ i

/-- the neighbours the competition visits from `p`: the first `nplat[p] + k` entries of the list
(unsupervised) or the whole list (KNN-supervised). -/
def nbrs (c : Clu) (unsup : Bool) (k : Nat) (p : Nat) : List Nat :=
  if unsup then (c.adjOf p).take (c.nplat.getD p 0 + k) else c.adjOf p

/-- `Chain c r t`: following `pred` from `t` reaches `r`. -/
inductive Chain (c : Clu) (r : Nat) : Nat → Prop
  | refl : Chain c r r
  | step {t p : Nat} : c.predOf t = some p → Chain c r p → Chain c r t
end Clu

end Opf
