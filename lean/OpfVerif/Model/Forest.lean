/-
L1–L3 — executable models of
  * `SupervisedOPF._find_prototypes`  (supervised.py:48-94)   → `primRun`
  * `SupervisedOPF.fit` / `SemiSupervisedOPF.fit` second phase   → `competeRun`
  * `SupervisedOPF.predict` and `Subgraph.mark_nodes`             → `predictOne`, `markNodes`
written statement for statement on top of the `Heap` model.  Weights are an arbitrary function
`w : Nat → Nat → Int` of node positions (the harness composes it with `Node.idx` when a
pre-computed matrix is used, or evaluates the metric on features), `top` is the encoding of
`FLOAT_MAX`.
-/
import OpfVerif.Model.Heap
namespace Opf

/-- observable per-node state of a (semi-)supervised subgraph. -/
structure Forest where
  n      : Nat
  pred   : Array (Option Nat)
  proto  : Array Bool
  ncost  : Array Int            -- `Node.cost`
  plabel : Array Nat            -- `Node.predicted_label`
  label  : Array Nat            -- `Node.label`
  order  : Array Nat            -- `Subgraph.idx_nodes`
  relevant : Array Bool
deriving Repr

namespace Forest
def init (lab : Array Nat) : Forest :=
  let n := lab.size
  { n := n, pred := Array.replicate n none, proto := Array.replicate n false,
    ncost := Array.replicate n 0, plabel := Array.replicate n 0, label := lab,
    order := #[], relevant := Array.replicate n false }
@[inline] def predOf (f : Forest) (x : Nat) : Option Nat := f.pred.getD x none
@[inline] def isProto (f : Forest) (x : Nat) : Bool := f.proto.getD x false
@[inline] def costOf (f : Forest) (x : Nat) : Int := f.ncost.getD x 0
@[inline] def plabelOf (f : Forest) (x : Nat) : Nat := f.plabel.getD x 0
@[inline] def labelOf (f : Forest) (x : Nat) : Nat := f.label.getD x 0
end Forest

/-! ### L1: Prim (`_find_prototypes`) -/

structure PrimSt where
  h : Heap
  f : Forest

/-- body of `for q in range(n)` in `_find_prototypes`. -/
def primRelax (w : Nat → Nat → Int) (p : Nat) (s : PrimSt) (q : Nat) : PrimSt :=
  if s.h.colorOf q ≠ BLACK ∧ p ≠ q ∧ w p q < s.h.costOf q then
    { h := s.h.update q (w p q), f := { s.f with pred := s.f.pred.setIfInBounds q (some p) } }
  else s

/-- prototype flagging after a removal. -/
def primFlag (f : Forest) (p : Nat) : Forest :=
  match f.predOf p with
  | none => f
  | some pr =>
    if f.labelOf p ≠ f.labelOf pr then
      { f with proto := (f.proto.setIfInBounds p true).setIfInBounds pr true }
    else f

/-- one iteration of `while not h.is_empty()`; `none` when the heap is empty. -/
def primStep (w : Nat → Nat → Int) (nLab : Nat) (s : PrimSt) : Option PrimSt :=
  match s.h.remove with
  | (_, none) => none
  | (h1, some p) =>
    let f1 : Forest := { s.f with ncost := s.f.ncost.setIfInBounds p (h1.costOf p) }
    some ((List.range nLab).foldl (primRelax w p) { h := h1, f := primFlag f1 p })

def primLoop (w : Nat → Nat → Int) (nLab : Nat) : Nat → PrimSt → PrimSt
  | 0, s => s
  | fuel + 1, s =>
    match primStep w nLab s with
    | none => s
    | some s' => primLoop w nLab fuel s'

/-- `_find_prototypes` on the first `nLab` nodes (all of them for the supervised model). -/
def primRun (w : Nat → Nat → Int) (top : Int) (nLab : Nat) (f : Forest) : PrimSt :=
  let h0 := Heap.init nLab false top
  let f0 : Forest := { f with pred := f.pred.setIfInBounds 0 none }
  primLoop w nLab (nLab + 1) { h := (h0.insert 0).1, f := f0 }

/-! ### L2: competition (`fit`, second phase) -/

structure CompSt where
  h : Heap
  f : Forest

/-- initialisation loop: prototypes get cost 0, own label, are inserted; the others `top`. -/
def compInit (top : Int) (s : CompSt) (i : Nat) : CompSt :=
  if s.f.isProto i then
    { h := ((s.h.setCost i 0).insert i).1,
      f := { s.f with pred := s.f.pred.setIfInBounds i none,
                      plabel := s.f.plabel.setIfInBounds i (s.f.labelOf i) } }
  else { s with h := s.h.setCost i top }

/-- body of `for q in range(n)` of the competition; `semi` adds the true-label overwrite of
`semi_supervised.py:108-110`. -/
def compRelax (w : Nat → Nat → Int) (semi : Bool) (p : Nat) (s : CompSt) (q : Nat) : CompSt :=
  if p ≠ q ∧ s.h.costOf p < s.h.costOf q ∧ max (s.h.costOf p) (w p q) < s.h.costOf q then
    let pl := s.f.plabelOf p
    { h := s.h.update q (max (s.h.costOf p) (w p q)),
      f := { s.f with pred := s.f.pred.setIfInBounds q (some p),
                      plabel := s.f.plabel.setIfInBounds q pl,
                      label := if semi then s.f.label.setIfInBounds q pl else s.f.label } }
  else s

def compStep (w : Nat → Nat → Int) (semi : Bool) (n : Nat) (s : CompSt) : Option CompSt :=
  match s.h.remove with
  | (_, none) => none
  | (h1, some p) =>
    let f1 : Forest := { s.f with order := s.f.order.push p,
                                  ncost := s.f.ncost.setIfInBounds p (h1.costOf p) }
    some ((List.range n).foldl (compRelax w semi p) { h := h1, f := f1 })

def compLoop (w : Nat → Nat → Int) (semi : Bool) (n : Nat) : Nat → CompSt → CompSt
  | 0, s => s
  | fuel + 1, s =>
    match compStep w semi n s with
    | none => s
    | some s' => compLoop w semi n fuel s'

def competeRun (w : Nat → Nat → Int) (top : Int) (semi : Bool) (f : Forest) : CompSt :=
  let n := f.n
  let s0 := (List.range n).foldl (compInit top) { h := Heap.init n false top, f := f }
  compLoop w semi n (n + 1) s0

/-- `SupervisedOPF.fit` (`nLab = lab.size`, `semi = false`) and `SemiSupervisedOPF.fit`
(`lab` = labels of the labeled samples followed by one 0 per unlabeled sample, `semi = true`). -/
def fitRun (w : Nat → Nat → Int) (top : Int) (semi : Bool) (nLab : Nat) (lab : Array Nat) : CompSt :=
  let f0 := Forest.init lab
  let s1 := primRun w top nLab f0
  competeRun w top semi s1.f

/-! ### L3: prediction -/

/-- `Subgraph.mark_nodes(i)`; fuel = number of nodes (a forest path never is longer). -/
def markNodes (f : Forest) : Nat → Nat → Forest
  | 0, _ => f
  | fuel + 1, i =>
    let f1 := { f with relevant := f.relevant.setIfInBounds i true }
    match f.predOf i with
    | none => f1
    | some pr => markNodes f1 fuel pr

structure PredAcc where
  minCost : Int
  conq    : Nat
  label   : Nat
  stop    : Bool

/-- the scan of `predict` over `order[1:]`, with its early exit: once
`min_cost > cost(order[j+1])` fails the loop is left for good. -/
def predictScan (f : Forest) (d : Nat → Int) (acc : PredAcc) (l : Nat) : PredAcc :=
  if acc.stop then acc
  else if acc.minCost > f.costOf l then
    let tmp := max (f.costOf l) (d l)
    if tmp < acc.minCost then { acc with minCost := tmp, conq := l, label := f.plabelOf l } else acc
  else { acc with stop := true }

/-- label and conqueror for one query whose distance to training node `t` is `d t`.
`none` when the conquest order is empty (the real code raises `IndexError`). -/
def predictOne (f : Forest) (d : Nat → Int) : Option PredAcc :=
  match f.order.toList with
  | [] => none
  | k :: rest =>
    let acc0 : PredAcc := { minCost := max (f.costOf k) (d k), conq := k, label := f.plabelOf k, stop := false }
    some (rest.foldl (predictScan f d) acc0)

/-- `predict` over a batch: labels, and the forest with the relevance marks of the pass. -/
def predictBatch (f : Forest) (ds : List (Nat → Int)) : Forest × List (Option Nat) :=
  ds.foldl (fun (acc : Forest × List (Option Nat)) d =>
    match predictOne acc.1 d with
    | none => (acc.1, acc.2 ++ [none])
    | some r => (markNodes acc.1 acc.1.n r.conq, acc.2 ++ [some r.label])) (f, [])

end Opf
