/-
L10 — models of `opfython/math/general.py`: `confusion_matrix`, `opf_accuracy`,
`opf_accuracy_per_label`, `purity`, `normalize`.  Counting parts are over `Nat`; the arithmetic is
written ONCE over the operations it uses and instantiated at `Float` (driver, compared with numpy)
and at `ℚ` (theorems).  `cast : Nat → α` is the conversion of a count.  Core Lean only.
-/
namespace Opf

/-- `n_class = np.max(labels) + 1` -/
def nClass (labels : List Nat) : Nat := labels.foldl max 0 + 1

/-- `n_class = max(np.max(labels), np.max(preds)) + 1` of `opf_accuracy` -/
def nClassAcc (labels preds : List Nat) : Nat := max (labels.foldl max 0) (preds.foldl max 0) + 1

/-- number of positions `i` with `p (labels[i], preds[i])` -/
def countPairs (p : Nat → Nat → Bool) (labels preds : List Nat) : Nat :=
  ((labels.zip preds).filter (fun lp => p lp.1 lp.2)).length

/-- `confusion_matrix`: entry `[a][b]` counts samples of true class `a` predicted `b`. -/
def confusion (labels preds : List Nat) : List (List Nat) :=
  let K := nClass labels
  (List.range K).map (fun a => (List.range K).map (fun b => countPairs (fun l p => l == a && p == b) labels preds))

def classCount (labels : List Nat) (c : Nat) : Nat := (labels.filter (· == c)).length
/-- misclassified samples predicted as `c` (column 0 of `errors`) -/
def falsePos (labels preds : List Nat) (c : Nat) : Nat := countPairs (fun l p => l != p && p == c) labels preds
/-- misclassified samples whose true class is `c` (column 1 of `errors`) -/
def falseNeg (labels preds : List Nat) (c : Nat) : Nat := countPairs (fun l p => l != p && l == c) labels preds

section Arith
variable {α : Type} [Add α] [Sub α] [Mul α] [Div α]

/-- numpy's `x / y` followed by `nansum`: a `0/0` term is dropped. -/
def nanDiv (cast : Nat → α) (zero : α) (num den : Nat) : α :=
  if num = 0 ∧ den = 0 then zero else cast num / cast den

/-- `opf_accuracy`; its error table is sized by the largest label OR prediction. -/
def opfAccuracyG (cast : Nat → α) (zero one : α) (labels preds : List Nat) : α :=
  let K := nClassAcc labels preds
  let N := labels.length
  let errs := (List.range K).map (fun c =>
    nanDiv cast zero (falsePos labels preds c) (N - classCount labels c) +
    nanDiv cast zero (falseNeg labels preds c) (classCount labels c))
  one - errs.foldl (· + ·) zero / cast (2 * K)

/-- `opf_accuracy_per_label` (every class present: `counts` of `np.unique` line up with classes) -/
def perLabelG (cast : Nat → α) (one : α) (labels preds : List Nat) : List α :=
  (List.range (nClass labels)).map (fun c => one - cast (falseNeg labels preds c) / cast (classCount labels c))

/-- `purity`: sum over predicted groups (columns) of the largest class count, over `len(labels)`. -/
def purityG (cast : Nat → α) (zero : α) (labels preds : List Nat) : α :=
  let K := nClass labels
  let m := confusion labels preds
  let colMax := (List.range K).map (fun b => ((List.range K).map (fun a => (m.getD a []).getD b 0)).foldl max 0)
  (colMax.map cast).foldl (· + ·) zero / cast labels.length

/-- `normalize` on one column: `(v - mean) / std` with the population standard deviation. -/
def normalizeColG (cast : Nat → α) (zero : α) (sqrt : α → α) (col : List α) : List α :=
  let n := cast col.length
  let mean := col.foldl (· + ·) zero / n
  let var := (col.map (fun v => (v - mean) * (v - mean))).foldl (· + ·) zero / n
  col.map (fun v => (v - mean) / sqrt var)
end Arith

end Opf
