/-
Semantics of the fragment of Python that `tools/translate_imp.py` translates statement by
statement (DESIGN §2.1b).  Everything generated under `Gen/*Imp.lean` is written against this file
and nothing else.  Core Lean only.

* A Python computation is an `Option`: `none` is "an exception was raised, or the loop/recursion
  does not terminate" (`partial_fixpoint` identifies the two; a theorem `… = some r` therefore
  shows termination AND absence of exceptions).
* `int` is `Int` (unbounded, as in Python).  `float` costs are `Int` through the order-preserving
  encoding of binary64 the harness uses (DESIGN §1.1); only comparisons and stores are applied to
  them by the translated code.
* A `list` is an `Array`; `a[i]` follows Python: `0 ≤ i < len` reads `a[i]`, `-len ≤ i < 0` reads
  `a[len + i]`, anything else raises `IndexError`.
* `int(a / b)` on two ints is truncation toward zero of the exact quotient — exact while the
  operands are below 2^53, which the translated call sites (`dad`) satisfy for any heap that fits
  in memory; recorded in the trusted base.
-/
namespace Opf.Py

/-- resolve a Python index against a length. -/
@[inline] def resolve (n : Nat) (i : Int) : Option Nat :=
  if 0 ≤ i then (if i.toNat < n then some i.toNat else none)
  else (if -(n : Int) ≤ i then some (n - (-i).toNat) else none)

/-- `a[i]` (load). -/
@[inline] def idx {α : Type} (a : Array α) (i : Int) : Option α :=
  match resolve a.size i with
  | some k => a[k]?
  | none => none

/-- `a[i] = v` (store), returning the updated list. -/
@[inline] def setIdx {α : Type} (a : Array α) (i : Int) (v : α) : Option (Array α) :=
  match resolve a.size i with
  | some k => if k < a.size then some (a.setIfInBounds k v) else none
  | none => none

/-- `[v for _ in range(n)]`. -/
@[inline] def replicate {α : Type} (n : Int) (v : α) : Array α := Array.replicate n.toNat v

/-- `int(a / b)` for ints `a`, `b` (`ZeroDivisionError` when `b = 0`). -/
@[inline] def intTrueDiv (a b : Int) : Option Int :=
  if b = 0 then none else some (Int.tdiv a b)

/-- `while cond: body` over the tuple `σ` of variables the body assigns. -/
def whileM {σ : Type} (cond : σ → Option Bool) (body : σ → Option σ) (s : σ) : Option σ := do
  if (← cond s) then whileM cond body (← body s) else pure s
partial_fixpoint

/-- `for v in range(n): body` over the tuple `σ` of variables the body assigns (total: the range is
fixed before the first iteration, as in Python). -/
def forRange {σ : Type} (n : Int) (body : Int → σ → Option σ) (s : σ) : Option σ :=
  (List.range n.toNat).foldlM (fun s (q : Nat) => body (q : Int) s) s

/-- `for v in range(start, stop, -1): body` (`start, start-1, …, stop+1`). -/
def forDown {σ : Type} (start stop : Int) (body : Int → σ → Option σ) (s : σ) : Option σ :=
  (List.range (start - stop).toNat).foldlM (fun s (t : Nat) => body (start - (t : Int)) s) s

/-- float ARITHMETIC on encoded doubles: uninterpreted.  Comparisons, `max`/`min`, negation and stores act on
the encodings directly (order-preserving, odd); `+ - * /`, `exp` and int→float conversion are whatever these
functions are — the refinement theorems hold for every choice, in particular for IEEE-754 binary64 with
numpy's `exp`. -/
structure FOps where
  add : Int → Int → Int
  sub : Int → Int → Int
  mul : Int → Int → Int
  div : Int → Int → Int
  exp : Int → Int
  ofInt : Int → Int

/-- an `int | bool` value used where an int is expected (`False == 0`, `True == 1`). -/
@[inline] def asInt : Sum Int Bool → Int
  | .inl p => p
  | .inr b => if b then 1 else 0

end Opf.Py
