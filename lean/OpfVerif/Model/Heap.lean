/-
L0 — model of `opfython/core/heap.py` (class `Heap`).

Line-for-line: `dad i = (i-1)/2`, strict comparisons in `go_up`/`go_down`, `insert` fails on a
full heap, `remove` fails on an empty one, `update` writes the cost first and then inserts
(WHITE), sifts up (GRAY) or does nothing (BLACK: the real code calls `go_up(pos[p])` with
`pos[p] ∈ {-1, 0}`, whose loop body never runs).

Representation choices (see DESIGN §1.1):
* costs are `Int`: the harness maps every finite IEEE double through the order-preserving
  sign-magnitude encoding, so `<` on encodings coincides with `<` on the doubles;
* `cnt = last + 1`; `p[k]` for `k ≥ cnt` and `pos[x]` for non-queued `x` are never read by the
  real code on the operations modelled here and are not part of the observable state.
Core Lean only (no Mathlib) so the driver starts fast.
-/
namespace Opf

abbrev WHITE : Nat := 0
abbrev GRAY : Nat := 1
abbrev BLACK : Nat := 2

structure Heap where
  size  : Nat
  isMax : Bool
  cost  : Array Int
  color : Array Nat
  p     : Array Nat
  pos   : Array Nat
  cnt   : Nat
deriving Repr

namespace Heap

/-- `Heap(size, policy)`; every cost starts at `top` (= FLOAT_MAX). -/
def init (size : Nat) (isMax : Bool) (top : Int) : Heap :=
  { size := size, isMax := isMax,
    cost := Array.replicate size top, color := Array.replicate size WHITE,
    p := Array.replicate size 0, pos := Array.replicate size 0, cnt := 0 }

@[inline] def costOf (h : Heap) (x : Nat) : Int := h.cost.getD x 0
@[inline] def colorOf (h : Heap) (x : Nat) : Nat := h.color.getD x 0
@[inline] def slot (h : Heap) (k : Nat) : Nat := h.p.getD k 0
@[inline] def posOf (h : Heap) (x : Nat) : Nat := h.pos.getD x 0
@[inline] def key (h : Heap) (k : Nat) : Int := h.costOf (h.slot k)

/-- strict "a goes before b" in the heap's policy. -/
@[inline] def better (isMax : Bool) (a b : Int) : Bool := if isMax then b < a else a < b

def isEmpty (h : Heap) : Bool := h.cnt == 0
def isFull (h : Heap) : Bool := h.cnt == h.size

/-- `p[j], p[i] = p[i], p[j]; pos[p[i]] = i; pos[p[j]] = j` -/
def swap (h : Heap) (i j : Nat) : Heap :=
  let a := h.slot i
  let b := h.slot j
  { h with p := (h.p.setIfInBounds j a).setIfInBounds i b,
           pos := (h.pos.setIfInBounds b i).setIfInBounds a j }

def goUp (h : Heap) (i : Nat) : Heap :=
  if _hi : i = 0 then h
  else if better h.isMax (h.key i) (h.key ((i - 1) / 2)) then goUp (h.swap i ((i - 1) / 2)) ((i - 1) / 2)
  else h
termination_by i
decreasing_by omega

@[simp] theorem swap_cnt (h : Heap) (i j : Nat) : (h.swap i j).cnt = h.cnt := rfl
@[simp] theorem swap_size (h : Heap) (i j : Nat) : (h.swap i j).size = h.size := rfl
@[simp] theorem swap_isMax (h : Heap) (i j : Nat) : (h.swap i j).isMax = h.isMax := rfl
@[simp] theorem swap_cost (h : Heap) (i j : Nat) : (h.swap i j).cost = h.cost := rfl
@[simp] theorem swap_color (h : Heap) (i j : Nat) : (h.swap i j).color = h.color := rfl

/-- the child (or `i` itself) chosen by `go_down` at position `i`. -/
def pick (h : Heap) (i : Nat) : Nat :=
  let l := 2 * i + 1
  let r := 2 * i + 2
  let j := if l < h.cnt ∧ better h.isMax (h.key l) (h.key i) then l else i
  if r < h.cnt ∧ better h.isMax (h.key r) (h.key j) then r else j

theorem pick_cases (h : Heap) (i : Nat) :
    h.pick i = i ∨ (i < h.pick i ∧ h.pick i < h.cnt) := by
  unfold pick
  simp only
  split <;> split <;> omega

def goDown (h : Heap) (i : Nat) : Heap :=
  if _hj : h.pick i = i then h
  else goDown (h.swap (h.pick i) i) (h.pick i)
termination_by h.cnt - i
decreasing_by
  have := pick_cases h i
  simp only [swap_cnt]
  omega

/-- `insert(x)`: returns the new heap and the Boolean the real method returns. -/
def insert (h : Heap) (x : Nat) : Heap × Bool :=
  if h.cnt = h.size then (h, false)
  else
    let h1 : Heap := { h with p := h.p.setIfInBounds h.cnt x,
                              color := h.color.setIfInBounds x GRAY,
                              pos := h.pos.setIfInBounds x h.cnt,
                              cnt := h.cnt + 1 }
    (h1.goUp h.cnt, true)

/-- `remove()`: `none` models the `False` returned on an empty heap. -/
def remove (h : Heap) : Heap × Option Nat :=
  if h.cnt = 0 then (h, none)
  else
    let x := h.slot 0
    let y := h.slot (h.cnt - 1)
    let h1 : Heap := { h with color := h.color.setIfInBounds x BLACK,
                              p := h.p.setIfInBounds 0 y,
                              pos := h.pos.setIfInBounds y 0,
                              cnt := h.cnt - 1 }
    (h1.goDown 0, some x)

/-- `update(x, c)` -/
def update (h : Heap) (x : Nat) (c : Int) : Heap :=
  let h1 : Heap := { h with cost := h.cost.setIfInBounds x c }
  if h1.colorOf x = WHITE then (h1.insert x).1
  else if h1.colorOf x = GRAY then h1.goUp (h1.posOf x)
  else h1

/-- direct write `h.cost[x] = c` used by the models before inserting. -/
def setCost (h : Heap) (x : Nat) (c : Int) : Heap := { h with cost := h.cost.setIfInBounds x c }

end Heap
end Opf
