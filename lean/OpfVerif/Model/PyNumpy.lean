/-
Python / numpy index operations used by the translation of `opfython/stream/splitter.py`
(`tools/translate_np.py`); continues `Model/PyPrelude.lean`.  Core Lean only.
-/
import OpfVerif.Model.PyPrelude
namespace Opf.Py

/-- `a[:h]` (Python slice: a negative bound counts from the end, bounds are clipped). -/
def sliceTo {α : Type} (a : Array α) (h : Int) : Array α :=
  let n : Int := a.size
  let e : Int := if h < 0 then max 0 (n + h) else min h n
  a.extract 0 e.toNat

/-- `a[h:]`. -/
def sliceFrom {α : Type} (a : Array α) (h : Int) : Array α :=
  let n : Int := a.size
  let s : Int := if h < 0 then max 0 (n + h) else min h n
  a.extract s.toNat a.size

/-- fancy indexing `a[I]` / `A[I, :]` with an integer index array (Python indexing per entry). -/
def gather {α : Type} (a : Array α) (I : Array Int) : Option (Array α) :=
  I.mapM (fun i => idx a i)

end Opf.Py
