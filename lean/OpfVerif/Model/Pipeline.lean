/-
L12 — whole-pipeline model of `UnsupervisedOPF.fit` (`_best_minimum_cut` + final `_clustering`), composed
from the component models L4/L5/L7 exactly as the source composes the methods: one `create_arcs(max_k)`,
then for every candidate `k` (while the running minimum cut is not exactly 0) the density bound is
overwritten with the k-th per-rank maximum, `calculate_pdf(k)`, `_clustering(k)` on adjacency lists that
keep the plateau arcs of earlier candidates, `_normalized_cut(k)`; then `destroy_arcs`, `create_arcs(best_k)`
(the bound being whatever the loop left), `calculate_pdf(best_k)` and the final `_clustering(best_k)`.

Floats and their order-preserving integer encodings are converted with `encF`/`decF` (bit-level, exact):
comparison-driven stages run on the encodings (the proved `Int` models), arithmetic stages on `Float`.
`np.exp` is not reproducible across libms, so its results are consumed from a TAPE recorded on the real
run (every value is checked against the argument the model computes).  Core Lean only.
-/
import OpfVerif.Model.Knn
import OpfVerif.Model.Measures
namespace Opf

/-- order-preserving encoding of a binary64 value (sign-magnitude bits; `-0.0 ↦ 0`). -/
def encF (f : Float) : Int :=
  let b := f.toBits.toNat
  if b < 9223372036854775808 then (b : Int) else -((b - 9223372036854775808 : Nat) : Int)

def decF (i : Int) : Float :=
  if 0 ≤ i then Float.ofBits i.toNat.toUInt64 else Float.ofBits ((-i).toNat + 9223372036854775808).toUInt64

/-- tape of recorded `np.exp` calls: (argument, result). -/
abbrev Tape := List (Float × Float)

structure UnsSt where
  n : Nat
  sub : KnnSub                  -- adjacency, radius, n_plateaus, density bound (encoded)
  dens : Array Float            -- Node.density
  cost : Array Float            -- Node.cost
  pred : Array (Option Nat)
  root : Array Nat
  clu : Array Nat               -- cluster_label
  order : Array Nat             -- idx_nodes
  nclusters : Nat
  constant : Float
  minD : Float
  maxD : Float
  tapeOk : Bool                 -- every consumed tape entry had the argument the model computed


def UnsSt.fresh (n : Nat) : UnsSt :=
  { n := n, sub := KnnSub.fresh n, dens := Array.replicate n 0.0, cost := Array.replicate n 0.0,
    pred := Array.replicate n none, root := Array.replicate n 0, clu := Array.replicate n 0, order := #[],
    nclusters := 0, constant := 0.0, minD := 0.0, maxD := 0.0, tapeOk := true }

/-- `calculate_pdf(k)` on the current arcs: consumes `n*k` tape entries. -/
def unsPdf (dist : Nat → Nat → Float) (top : Float) (k : Nat) (s : UnsSt) (tape : Tape) : UnsSt × Tape :=
  let bound := decF s.sub.bound
  let constant := 2.0 * bound / 9.0
  let step := fun (acc : List (List Float) × Tape × Bool) (i : Nat) =>
    let nbrs := (s.sub.adj.getD i []).take k
    let r := nbrs.foldl (fun (a : List Float × Tape × Bool) j =>
      match a.2.1 with
      | [] => (a.1 ++ [0.0], [], false)
      | (arg, val) :: rest => (a.1 ++ [val], rest, a.2.2 && (arg.toBits == (-(dist i j) / constant).toBits))) ([], acc.2.1, acc.2.2)
    (acc.1 ++ [r.1], r.2.1, r.2.2)
  let r := (List.range s.n).foldl step ([], tape, s.tapeOk)
  let o := pdfG (0.0 : Float) 1.0 2.0 9.0 1000.0 top bound k (k + 1).toFloat r.1
  ({ s with dens := o.density.toArray, cost := o.cost.toArray, constant := o.constant, minD := o.minD, maxD := o.maxD,
            tapeOk := r.2.2 }, r.2.1)

/-- `_clustering(k)` (unsupervised variant) on encodings of the current densities and costs. -/
def unsCluster (top negTop : Int) (k : Nat) (s : UnsSt) : UnsSt :=
  let c : Clu := { n := s.n, adj := s.sub.adj, nplat := s.sub.nplat, dens := s.dens.map encF, cost := s.cost.map encF,
                   pred := s.pred, root := s.root, lab := s.clu, tlabel := Array.replicate s.n 0, order := s.order,
                   nclusters := s.nclusters }
  let r := clusterRun true false top negTop k c
  { s with sub := { s.sub with adj := r.adj, nplat := r.nplat }, cost := r.cost.map decF, pred := r.pred, root := r.root,
           clu := r.lab, order := r.order, nclusters := r.nclusters }

def unsCut (dist : Nat → Nat → Float) (k : Nat) (s : UnsSt) : Float :=
  normalizedCutG (0.0 : Float) 1.0 dist s.sub.adj s.sub.nplat k (fun i => s.clu.getD i 0) s.n s.nclusters

structure CutLoop where
  st : UnsSt
  tape : Tape
  minCut : Float
  bestK : Option Nat
  cuts : List Float            -- the cuts actually evaluated, in order

/-- one candidate `k` of `_best_minimum_cut`. -/
def cutCandidate (dist : Nat → Nat → Float) (topF : Float) (top negTop : Int) (maxd : Array Int) (l : CutLoop) (k : Nat) : CutLoop :=
  if l.minCut != 0.0 then
    let s1 : UnsSt := { l.st with sub := { l.st.sub with bound := maxd.getD (k - 1) 0 } }
    let (s2, tape2) := unsPdf dist topF k s1 l.tape
    let s3 := unsCluster top negTop k s2
    let cut := unsCut dist k s3
    if cut < l.minCut then { st := s3, tape := tape2, minCut := cut, bestK := some k, cuts := l.cuts ++ [cut] }
    else { l with st := s3, tape := tape2, cuts := l.cuts ++ [cut] }
  else l

/-- `UnsupervisedOPF.fit`: returns the final state, the evaluated cuts, `best_k` and the unread tape. -/
def unsFit (dist : Nat → Nat → Float) (n minK maxK : Nat) (tape : Tape) : UnsSt × List Float × Option Nat × Tape :=
  let topF : Float := 1.7976931348623157e308
  let top := encF topF
  let negTop := encF (-topF)
  let w := fun i j => encF (dist i j)
  let (g1, maxd) := createArcs w top (encF 0.00001) (encF 1.0) maxK (KnnSub.fresh n)
  let l0 : CutLoop := { st := { UnsSt.fresh n with sub := g1 }, tape := tape, minCut := topF, bestK := none, cuts := [] }
  let l := ((List.range (maxK + 1 - minK)).map (· + minK)).foldl (cutCandidate dist topF top negTop maxd) l0
  match l.bestK with
  | none => (l.st, l.cuts, none, l.tape)
  | some bk =>
    let s1 : UnsSt := { l.st with sub := destroyArcs l.st.sub }
    let (g2, _) := createArcs w top (encF 0.00001) (encF 1.0) bk s1.sub
    let (s2, tape2) := unsPdf dist topF bk { s1 with sub := g2 } l.tape
    let s3 := unsCluster top negTop bk s2
    (s3, l.cuts, some bk, tape2)

end Opf

/-! ### whole-pipeline model of `KNNSupervisedOPF.fit` (`_learn` + final forced clustering) -/
namespace Opf

structure KnnSt where
  n : Nat
  sub : KnnSub
  dens : Array Float
  cost : Array Float
  pred : Array (Option Nat)
  root : Array Nat
  lab : Array Nat               -- predicted_label
  tlabel : Array Nat
  order : Array Nat
  constant : Float
  minD : Float
  maxD : Float
  tapeOk : Bool

def knnPdf (dist : Nat → Nat → Float) (top : Float) (k : Nat) (s : KnnSt) (tape : Tape) : KnnSt × Tape :=
  let bound := decF s.sub.bound
  let constant := 2.0 * bound / 9.0
  let step := fun (acc : List (List Float) × Tape × Bool) (i : Nat) =>
    let nbrs := (s.sub.adj.getD i []).take k
    let r := nbrs.foldl (fun (a : List Float × Tape × Bool) j =>
      match a.2.1 with
      | [] => (a.1 ++ [0.0], [], false)
      | (arg, val) :: rest => (a.1 ++ [val], rest, a.2.2 && (arg.toBits == (-(dist i j) / constant).toBits))) ([], acc.2.1, acc.2.2)
    (acc.1 ++ [r.1], r.2.1, r.2.2)
  let r := (List.range s.n).foldl step ([], tape, s.tapeOk)
  let o := pdfG (0.0 : Float) 1.0 2.0 9.0 1000.0 top bound k (k + 1).toFloat r.1
  ({ s with dens := o.density.toArray, cost := o.cost.toArray, constant := o.constant, minD := o.minD, maxD := o.maxD,
            tapeOk := r.2.2 }, r.2.1)

def knnCluster (top negTop : Int) (force : Bool) (s : KnnSt) : KnnSt :=
  let c : Clu := { n := s.n, adj := s.sub.adj, nplat := s.sub.nplat, dens := s.dens.map encF, cost := s.cost.map encF,
                   pred := s.pred, root := s.root, lab := s.lab, tlabel := s.tlabel, order := s.order, nclusters := 0 }
  let r := clusterRun false force top negTop 0 c
  { s with sub := { s.sub with adj := r.adj, nplat := r.nplat }, cost := r.cost.map decF, pred := r.pred, root := r.root,
           lab := r.lab, order := r.order }

/-- `predict` of the KNN-supervised model for one query (distances `qd j` to training sample `j`). -/
def knnPredictQ (top negTop : Int) (k : Nat) (s : KnnSt) (qd : Nat → Float) (tape : Tape) : Nat × Tape × Bool :=
  let buf := scan k top (fun j => encF (qd j)) (List.range s.n)
  let r := (List.range k).foldl (fun (a : Float × Tape × Bool) kk =>
      let d := decF (buf.getD kk (0, 0)).1
      match a.2.1 with
      | [] => (a.1, [], false)
      | (arg, val) :: rest => (a.1 + val, rest, a.2.2 && (arg.toBits == (-d / s.constant).toBits))) (0.0, tape, true)
  let density := queryDensityG (0.0 : Float) 1.0 1000.0 1e-20 s.minD s.maxD k.toFloat [r.1]
  let vs := validSlots k top buf
  let best := knnArgmax negTop (fun j => encF (s.cost.getD j 0.0)) (encF density) vs
  (match best.1 with | none => 0 | some j => s.lab.getD j 0, r.2.1, r.2.2)

structure LearnLoop where
  st : KnnSt
  tape : Tape
  maxAcc : Float
  bestK : Option Nat
  accs : List Float

def learnCandidate (dist : Nat → Nat → Float) (qdist : Nat → Nat → Float) (nv : Nat) (yv : List Nat)
    (topF : Float) (top negTop : Int) (l : LearnLoop) (k : Nat) : LearnLoop :=
  let w := fun i j => encF (dist i j)
  let (g1, _) := createArcs w top (encF 0.00001) (encF 1.0) k l.st.sub
  let (s2, tape2) := knnPdf dist topF k { l.st with sub := g1 } l.tape
  let s3 := knnCluster top negTop false s2
  let pr := (List.range nv).foldl (fun (a : List Nat × Tape × Bool) q =>
      let r := knnPredictQ top negTop k s3 (qdist q) a.2.1
      (a.1 ++ [r.1], r.2.1, a.2.2 && r.2.2)) ([], tape2, s3.tapeOk)
  let acc := opfAccuracyG (fun c : Nat => c.toFloat) (0.0 : Float) 1.0 yv pr.1
  let s4 : KnnSt := { s3 with sub := destroyArcs s3.sub, tapeOk := pr.2.2 }
  if acc > l.maxAcc then { st := s4, tape := pr.2.1, maxAcc := acc, bestK := some k, accs := l.accs ++ [acc] }
  else { l with st := s4, tape := pr.2.1, accs := l.accs ++ [acc] }

/-- `KNNSupervisedOPF.fit(X_train, Y_train, X_val, Y_val)` -/
def knnFit (dist : Nat → Nat → Float) (qdist : Nat → Nat → Float) (n nv maxK : Nat) (y yv : List Nat) (tape : Tape) :
    KnnSt × List Float × Option Nat × Tape :=
  let topF : Float := 1.7976931348623157e308
  let top := encF topF
  let negTop := encF (-topF)
  let s0 : KnnSt := { n := n, sub := KnnSub.fresh n, dens := Array.replicate n 0.0, cost := Array.replicate n 0.0,
                      pred := Array.replicate n none, root := Array.replicate n 0, lab := Array.replicate n 0,
                      tlabel := y.toArray, order := #[], constant := 0.0, minD := 0.0, maxD := 0.0, tapeOk := true }
  let l := ((List.range maxK).map (· + 1)).foldl (learnCandidate dist qdist nv yv topF top negTop)
            { st := s0, tape := tape, maxAcc := -1.0, bestK := none, accs := [] }
  match l.bestK with
  | none => (l.st, l.accs, none, l.tape)
  | some bk =>
    let w := fun i j => encF (dist i j)
    let (g2, _) := createArcs w top (encF 0.00001) (encF 1.0) bk l.st.sub
    let (s2, tape2) := knnPdf dist topF bk { l.st with sub := g2 } l.tape
    let s3 := knnCluster top negTop true s2
    ({ s3 with sub := destroyArcs s3.sub }, l.accs, some bk, tape2)

end Opf
