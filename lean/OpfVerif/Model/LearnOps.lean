/-
Object-level semantics for `SupervisedOPF.learn` (generated counterpart: `Gen/LearnImp.lean`, translator
`tools/translate_sel.py`, DESIGN §2.1b).  `σ` is the state of the model object, `β` a feature row, `ρ` the state of the
random generator; every method `learn` calls is an ARBITRARY partial function (a field of `LearnOps`).  The
specification below is the reading of the loop the property C17 speaks about: per iteration fit → predict → accuracy →
keep the first strictly best → exchange misclassified validation samples with randomly drawn non-prototype training
samples; stop when the accuracy moved by less than 1e-4 or after `n_iterations`; leave the best classifier in the object.
Core Lean only.
-/
import OpfVerif.Model.PyPrelude
import OpfVerif.Model.Learn
namespace Opf

namespace Py
/-- `for x in a: body` over the tuple `σ` of variables the body assigns. -/
def forEach {α σ : Type} (a : Array α) (body : α → σ → Option σ) (s : σ) : Option σ :=
  a.toList.foldlM (fun s x => body x s) s

/-- `np.argwhere(a != b)` for two integer vectors of the same length (positions, ascending; each entry of the result is
the one-element row `[i]`, read by `err[0]`); a length mismatch raises. -/
def argwhereNe (a b : Array Int) : Option (Array Int) :=
  if a.size ≠ b.size then none
  else some (((List.range a.size).filter (fun i => a.getD i 0 != b.getD i 0)).map Int.ofNat).toArray
end Py

structure LearnOps (σ β ρ : Type) where
  /-- `self.fit(X_train, Y_train)` -/
  fit : σ → Array β → Array Int → Option σ
  /-- `self.predict(X_val)` and the list it returns -/
  predict : σ → Array β → Option (σ × Array Int)
  /-- `g.opf_accuracy(Y_val, preds)` (encoded float) -/
  opf_accuracy : Array Int → Array Int → Option Int
  /-- `[n.status for n in self.subgraph.nodes]` -/
  statuses : σ → Array Int
  /-- `int(r.generate_uniform_random_number(0, n)[0])` -/
  rand : ρ → Int → Int → Option (Int × ρ)
  /-- `np.fabs(a - b)` on encoded floats -/
  fabs_diff : Int → Int → Int
  /-- `self.subgraph = best.subgraph` (first argument: the live object, second: the kept copy) -/
  restore : σ → σ → Option σ

namespace LearnSpec
variable {σ β ρ : Type}

/-- the four data arrays `learn` edits in place. -/
structure Data (β : Type) where
  Xt : Array β
  Yt : Array Int
  Xv : Array β
  Yv : Array Int

/-- `X_train[j], X_val[err] = X_val[err], X_train[j]` and the same for the labels (Python indexing). -/
def exchange (d : Data β) (j err : Int) : Option (Data β) := do
  let a ← Py.idx d.Xv err
  let b ← Py.idx d.Xt j
  let Xt ← Py.setIdx d.Xt j a
  let Xv ← Py.setIdx d.Xv err b
  let c ← Py.idx d.Yv err
  let e ← Py.idx d.Yt j
  let Yt ← Py.setIdx d.Yt j c
  let Yv ← Py.setIdx d.Yv err e
  pure { Xt := Xt, Yt := Yt, Xv := Xv, Yv := Yv }

/-- `while ctr > 0`: draw `j`; a non-prototype is exchanged with validation sample `err` (and the search ends),
a prototype costs one attempt. Returns the generator, the data and the number of non-prototypes still exchangeable. -/
def tryExchange (ops : LearnOps σ β ρ) (proto : Int) (s : σ) (err : Int) :
    Nat → ρ → Data β → Int → Option (ρ × Data β × Int)
  | 0, rng, d, np => some (rng, d, np)
  | ctr + 1, rng, d, np => do
    let (j, rng) ← ops.rand rng 0 (d.Xt.size : Int)
    let st ← Py.idx (ops.statuses s) j
    if st ≠ proto then do
      let d ← exchange d j err
      pure (rng, d, np - 1)
    else tryExchange ops proto s err ctr rng d np

/-- `for err in errors: ctr = non_prototypes; while …`. -/
def exchangeAll (ops : LearnOps σ β ρ) (proto : Int) (s : σ) :
    List Int → ρ → Data β → Int → Option (ρ × Data β × Int)
  | [], rng, d, np => some (rng, d, np)
  | err :: rest, rng, d, np => do
    let (rng, d, np) ← tryExchange ops proto s err np.toNat rng d np
    exchangeAll ops proto s rest rng d np

/-- one iteration up to the exchanges: the classifier after `predict`, its validation accuracy, the generator and data
after the exchanges. -/
def iteration (ops : LearnOps σ β ρ) (proto : Int) (s : σ) (rng : ρ) (d : Data β) : Option (σ × Int × ρ × Data β) := do
  let s ← ops.fit s d.Xt d.Yt
  let (s, preds) ← ops.predict s d.Xv
  let acc ← ops.opf_accuracy d.Yv preds
  let errors ← Py.argwhereNe d.Yv preds
  let np : Int := ((ops.statuses s).toList.filter (· ≠ proto)).length
  let (rng, d, _) ← exchangeAll ops proto s errors.toList rng d np
  pure (s, acc, rng, d)

/-- iterations `t+1, t+2, …` (at most `fuel` of them): returns the classifiers and accuracies of the iterations
executed, the generator and the data at the end. The loop ends after iteration number `n` or as soon as
`|acc - previous| < 1e-4` (`small`). -/
def run (ops : LearnOps σ β ρ) (proto small : Int) (n : Int) :
    Nat → Int → Int → σ → ρ → Data β → Option (List (σ × Int) × ρ × Data β)
  | 0, _, _, _, _, _ => none
  | fuel + 1, t, prev, s, rng, d => do
    let (s, acc, rng, d) ← iteration ops proto s rng d
    if ops.fabs_diff acc prev < small ∨ t + 1 = n then pure ([(s, acc)], rng, d)
    else do
      let (tr, rng, d) ← run ops proto small n fuel (t + 1) acc s rng d
      pure ((s, acc) :: tr, rng, d)

/-- `learn`, as a specification (for `1 ≤ n_iterations`, when the loop is bounded by the iteration count): run, then put
the classifier of the first strictly best iteration (`bestIter` over the accuracies, start value `-1`) back into the
object as it is after the last iteration. -/
def learnSpec (ops : LearnOps σ β ρ) (proto negOne zero small : Int) (s : σ) (rng : ρ) (d : Data β) (n : Int) :
    Option (σ × ρ × Data β) := do
  let (tr, rng, d) ← run ops proto small n n.toNat 0 zero s rng d
  let b ← bestIter negOne (tr.map (·.2))
  let best ← tr[b]?
  let last ← tr.getLast?
  let s ← ops.restore last.1 best.1
  pure (s, rng, d)

end LearnSpec
end Opf
