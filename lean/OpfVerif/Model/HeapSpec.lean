/-
Specification-level vocabulary for the heap model: the well-formedness invariant, the set of
queued identifiers, and histories of operations with the contract of property C05.
Core Lean only.
-/
import OpfVerif.Model.Heap
namespace Opf.Heap

/-- well-formedness of a heap state. -/
structure Inv (h : Heap) : Prop where
  size_cost : h.cost.size = h.size
  size_color : h.color.size = h.size
  size_p : h.p.size = h.size
  size_pos : h.pos.size = h.size
  cnt_le : h.cnt ≤ h.size
  slot_lt : ∀ k, k < h.cnt → h.slot k < h.size
  pos_slot : ∀ k, k < h.cnt → h.posOf (h.slot k) = k
  gray_iff : ∀ x, x < h.size → (h.colorOf x = GRAY ↔ ∃ k, k < h.cnt ∧ h.slot k = x)
  order : ∀ k, 0 < k → k < h.cnt → better h.isMax (h.key k) (h.key ((k - 1) / 2)) = false

/-- `x` is currently queued. -/
def Queued (h : Heap) (x : Nat) : Prop := x < h.size ∧ h.colorOf x = GRAY

/-- operations of a history. `ins x c` is `h.cost[x] = c; h.insert(x)` as every caller in the
library does; `insraw x` is a bare `h.insert(x)`. -/
inductive Op where
  | ins (x : Nat) (c : Int)
  | insraw (x : Nat)
  | rem
  | upd (x : Nat) (c : Int)

/-- result reported by an operation. -/
inductive Out where
  | ok | fail | removed (x : Nat)
deriving DecidableEq, Repr

def step (h : Heap) : Op → Heap × Out
  | .ins x c => let r := (h.setCost x c).insert x; (r.1, if r.2 then .ok else .fail)
  | .insraw x => let r := h.insert x; (r.1, if r.2 then .ok else .fail)
  | .rem => match h.remove with
    | (h', some x) => (h', .removed x)
    | (h', none) => (h', .fail)
  | .upd x c => (h.update x c, .ok)

/-- the contract of the property: identifiers in range; `ins` targets WHITE identifiers; a bare
insert targets a WHITE identifier or a full heap (the failure case); updates never worsen a queued
cost and do not touch BLACK identifiers. -/
def Legal (h : Heap) : Op → Prop
  | .ins x _ => x < h.size ∧ h.colorOf x = WHITE
  | .insraw x => x < h.size ∧ (h.colorOf x = WHITE ∨ h.cnt = h.size)
  | .rem => True
  | .upd x c => x < h.size ∧ h.colorOf x ≠ BLACK ∧
      (h.colorOf x = GRAY → better h.isMax (h.costOf x) c = false)

/-- run a history, collecting the outputs. -/
def run (h : Heap) : List Op → Heap × List Out
  | [] => (h, [])
  | op :: ops => ((run (step h op).1 ops).1, (step h op).2 :: (run (step h op).1 ops).2)

/-- every prefix of the history is within the contract. -/
def LegalRun (h : Heap) : List Op → Prop
  | [] => True
  | op :: ops => Legal h op ∧ LegalRun (step h op).1 ops

/-- the identifiers returned by the removes of an output list, in order. -/
def returned : List Out → List Nat
  | [] => []
  | .removed x :: os => x :: returned os
  | .ok :: os => returned os
  | .fail :: os => returned os

end Opf.Heap
