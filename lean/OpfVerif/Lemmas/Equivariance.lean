/-
Equivariance of the executable models (L0 heap, L1 Prim, L2 competition, L3 prediction) under a
strictly increasing re-scaling `φ : Int → Int` of the costs with `φ 0 = 0`.

Every decision of the models is a strict comparison of two costs (or of a cost with a `max` of two
costs); a strictly increasing `φ` preserves all of them, so running the models on `φ ∘ w`, `φ top`
yields the very same states except that every stored cost is mapped by `φ`.
Core Lean only.
-/
import OpfVerif.Model.Forest
namespace Opf

/-- strictly increasing on `Int`. -/
def StrictMonoInt (φ : Int → Int) : Prop := ∀ a b, a < b → φ a < φ b

namespace StrictMonoInt
variable {φ : Int → Int}

theorem lt_iff (hφ : StrictMonoInt φ) (a b : Int) : φ a < φ b ↔ a < b := by
  constructor
  · intro h
    rcases Int.lt_trichotomy a b with hlt | heq | hgt
    · exact hlt
    · subst heq; omega
    · have := hφ b a hgt; omega
  · exact hφ a b

theorem le_iff (hφ : StrictMonoInt φ) (a b : Int) : φ a ≤ φ b ↔ a ≤ b := by
  have := hφ.lt_iff b a
  omega

theorem injective (hφ : StrictMonoInt φ) {a b : Int} (h : φ a = φ b) : a = b := by
  have h1 := hφ.le_iff a b
  have h2 := hφ.le_iff b a
  omega

theorem map_max (hφ : StrictMonoInt φ) (a b : Int) : max (φ a) (φ b) = φ (max a b) := by
  have h1 := hφ.le_iff a b
  by_cases hab : a ≤ b
  · rw [Int.max_eq_right hab, Int.max_eq_right (h1.2 hab)]
  · have hba : b ≤ a := by omega
    rw [Int.max_eq_left hba, Int.max_eq_left ((hφ.le_iff b a).2 hba)]

theorem decide_lt (hφ : StrictMonoInt φ) (a b : Int) : decide (φ a < φ b) = decide (a < b) :=
  decide_eq_decide.2 (hφ.lt_iff a b)

end StrictMonoInt

/-! ### arrays -/

theorem getD_map_arr {α β : Type} (φ : α → β) (a : Array α) (i : Nat) (d : α) :
    (a.map φ).getD i (φ d) = φ (a.getD i d) := by
  simp only [Array.getD_eq_getD_getElem?, Array.getElem?_map]
  cases a[i]? <;> rfl

theorem map_setIfInBounds_arr {α β : Type} (φ : α → β) (a : Array α) (i : Nat) (v : α) :
    (a.setIfInBounds i v).map φ = (a.map φ).setIfInBounds i (φ v) :=
  Array.map_setIfInBounds

/-! ### L0: the heap -/

namespace Heap

/-- the same heap with every stored cost mapped by `φ`. -/
def mapCost (φ : Int → Int) (h : Heap) : Heap := { h with cost := h.cost.map φ }

variable {φ : Int → Int}

@[simp] theorem mapCost_size (h : Heap) : (h.mapCost φ).size = h.size := rfl
@[simp] theorem mapCost_isMax (h : Heap) : (h.mapCost φ).isMax = h.isMax := rfl
@[simp] theorem mapCost_cost (h : Heap) : (h.mapCost φ).cost = h.cost.map φ := rfl
@[simp] theorem mapCost_color (h : Heap) : (h.mapCost φ).color = h.color := rfl
@[simp] theorem mapCost_p (h : Heap) : (h.mapCost φ).p = h.p := rfl
@[simp] theorem mapCost_pos (h : Heap) : (h.mapCost φ).pos = h.pos := rfl
@[simp] theorem mapCost_cnt (h : Heap) : (h.mapCost φ).cnt = h.cnt := rfl
@[simp] theorem mapCost_colorOf (h : Heap) (x : Nat) : (h.mapCost φ).colorOf x = h.colorOf x := rfl
@[simp] theorem mapCost_slot (h : Heap) (k : Nat) : (h.mapCost φ).slot k = h.slot k := rfl
@[simp] theorem mapCost_posOf (h : Heap) (x : Nat) : (h.mapCost φ).posOf x = h.posOf x := rfl
@[simp] theorem mapCost_isEmpty (h : Heap) : (h.mapCost φ).isEmpty = h.isEmpty := rfl
@[simp] theorem mapCost_isFull (h : Heap) : (h.mapCost φ).isFull = h.isFull := rfl

/-- out-of-range reads return `0 = φ 0`. -/
theorem mapCost_costOf (h0 : φ 0 = 0) (h : Heap) (x : Nat) :
    (h.mapCost φ).costOf x = φ (h.costOf x) := by
  have := getD_map_arr φ h.cost x 0
  rw [h0] at this
  exact this

theorem mapCost_key (h0 : φ 0 = 0) (h : Heap) (k : Nat) :
    (h.mapCost φ).key k = φ (h.key k) := by
  unfold key
  rw [mapCost_costOf h0, mapCost_slot]

theorem better_map (hφ : StrictMonoInt φ) (m : Bool) (a b : Int) :
    better m (φ a) (φ b) = better m a b := by
  unfold better
  cases m
  · simpa using hφ.lt_iff a b
  · simpa using hφ.lt_iff b a

theorem mapCost_init (n : Nat) (m : Bool) (top : Int) :
    (Heap.init n m top).mapCost φ = Heap.init n m (φ top) := by
  simp [mapCost, Heap.init]

theorem mapCost_swap (h : Heap) (i j : Nat) :
    (h.mapCost φ).swap i j = (h.swap i j).mapCost φ := rfl

theorem mapCost_pick (hφ : StrictMonoInt φ) (h0 : φ 0 = 0) (h : Heap) (i : Nat) :
    (h.mapCost φ).pick i = h.pick i := by
  unfold pick
  simp only [mapCost_key h0, mapCost_cnt, mapCost_isMax, better_map hφ]

theorem mapCost_goUp (hφ : StrictMonoInt φ) (h0 : φ 0 = 0) (h : Heap) (i : Nat) :
    (h.mapCost φ).goUp i = (h.goUp i).mapCost φ := by
  fun_induction goUp h i with
  | case1 h => rw [goUp]; simp
  | case2 h i hi hb ih =>
    rw [goUp]
    simp only [hi, ↓reduceDIte, mapCost_key h0, mapCost_isMax, better_map hφ, hb, ↓reduceIte,
      mapCost_swap, ih]
  | case3 h i hi hb =>
    rw [goUp]
    simp only [hi, ↓reduceDIte, mapCost_key h0, mapCost_isMax, better_map hφ, hb]
    rfl

theorem mapCost_goDown (hφ : StrictMonoInt φ) (h0 : φ 0 = 0) (h : Heap) (i : Nat) :
    (h.mapCost φ).goDown i = (h.goDown i).mapCost φ := by
  fun_induction goDown h i with
  | case1 h i hj => rw [goDown]; simp [mapCost_pick hφ h0, hj]
  | case2 h i hj ih =>
    rw [goDown]
    simp only [mapCost_pick hφ h0, hj, ↓reduceDIte, mapCost_swap, ih]

theorem mapCost_insert (hφ : StrictMonoInt φ) (h0 : φ 0 = 0) (h : Heap) (x : Nat) :
    (h.mapCost φ).insert x = ((h.insert x).1.mapCost φ, (h.insert x).2) := by
  unfold insert
  by_cases hc : h.cnt = h.size
  · simp only [mapCost_cnt, mapCost_size, hc, if_pos]
  · simp only [mapCost_cnt, mapCost_size, hc, if_false]
    rw [← mapCost_goUp hφ h0]
    rfl

theorem mapCost_remove (hφ : StrictMonoInt φ) (h0 : φ 0 = 0) (h : Heap) :
    (h.mapCost φ).remove = (h.remove.1.mapCost φ, h.remove.2) := by
  unfold remove
  by_cases hc : h.cnt = 0
  · simp only [mapCost_cnt, hc, if_pos]
  · simp only [mapCost_cnt, hc, if_false]
    rw [← mapCost_goDown hφ h0]
    rfl

theorem mapCost_setCost (h : Heap) (x : Nat) (c : Int) :
    (h.mapCost φ).setCost x (φ c) = (h.setCost x c).mapCost φ := by
  simp [setCost, mapCost]

theorem mapCost_update (hφ : StrictMonoInt φ) (h0 : φ 0 = 0) (h : Heap) (x : Nat) (c : Int) :
    (h.mapCost φ).update x (φ c) = (h.update x c).mapCost φ := by
  have hset : ({ h.mapCost φ with cost := (h.mapCost φ).cost.setIfInBounds x (φ c) } : Heap)
      = ({ h with cost := h.cost.setIfInBounds x c } : Heap).mapCost φ := by
    simp [mapCost]
  unfold update
  simp only [hset, mapCost_colorOf, mapCost_posOf]
  split
  · rw [mapCost_insert hφ h0]
  · split
    · rw [mapCost_goUp hφ h0]
    · rfl

end Heap

/-! ### forests -/

namespace Forest

/-- the same forest with every recorded node cost mapped by `φ`. -/
def mapCost (φ : Int → Int) (f : Forest) : Forest := { f with ncost := f.ncost.map φ }

variable {φ : Int → Int}

@[simp] theorem mapCost_n (f : Forest) : (f.mapCost φ).n = f.n := rfl
@[simp] theorem mapCost_pred (f : Forest) : (f.mapCost φ).pred = f.pred := rfl
@[simp] theorem mapCost_proto (f : Forest) : (f.mapCost φ).proto = f.proto := rfl
@[simp] theorem mapCost_ncost (f : Forest) : (f.mapCost φ).ncost = f.ncost.map φ := rfl
@[simp] theorem mapCost_plabel (f : Forest) : (f.mapCost φ).plabel = f.plabel := rfl
@[simp] theorem mapCost_label (f : Forest) : (f.mapCost φ).label = f.label := rfl
@[simp] theorem mapCost_order (f : Forest) : (f.mapCost φ).order = f.order := rfl
@[simp] theorem mapCost_relevant (f : Forest) : (f.mapCost φ).relevant = f.relevant := rfl
@[simp] theorem mapCost_predOf (f : Forest) (x : Nat) : (f.mapCost φ).predOf x = f.predOf x := rfl
@[simp] theorem mapCost_isProto (f : Forest) (x : Nat) : (f.mapCost φ).isProto x = f.isProto x := rfl
@[simp] theorem mapCost_plabelOf (f : Forest) (x : Nat) : (f.mapCost φ).plabelOf x = f.plabelOf x := rfl
@[simp] theorem mapCost_labelOf (f : Forest) (x : Nat) : (f.mapCost φ).labelOf x = f.labelOf x := rfl

theorem mapCost_costOf (h0 : φ 0 = 0) (f : Forest) (x : Nat) :
    (f.mapCost φ).costOf x = φ (f.costOf x) := by
  have := getD_map_arr φ f.ncost x 0
  rw [h0] at this
  exact this

/-- a fresh forest has all node costs `0 = φ 0`. -/
theorem mapCost_init (h0 : φ 0 = 0) (lab : Array Nat) :
    (Forest.init lab).mapCost φ = Forest.init lab := by
  simp [mapCost, Forest.init, h0]

end Forest

/-! ### L1: Prim -/

def PrimSt.mapCost (φ : Int → Int) (s : PrimSt) : PrimSt :=
  { h := s.h.mapCost φ, f := s.f.mapCost φ }

def CompSt.mapCost (φ : Int → Int) (s : CompSt) : CompSt :=
  { h := s.h.mapCost φ, f := s.f.mapCost φ }

def PredAcc.mapCost (φ : Int → Int) (a : PredAcc) : PredAcc :=
  { a with minCost := φ a.minCost }

section
variable {φ : Int → Int}

@[simp] theorem PrimSt.mapCost_h (s : PrimSt) : (s.mapCost φ).h = s.h.mapCost φ := rfl
@[simp] theorem PrimSt.mapCost_f (s : PrimSt) : (s.mapCost φ).f = s.f.mapCost φ := rfl
@[simp] theorem CompSt.mapCost_h (s : CompSt) : (s.mapCost φ).h = s.h.mapCost φ := rfl
@[simp] theorem CompSt.mapCost_f (s : CompSt) : (s.mapCost φ).f = s.f.mapCost φ := rfl
@[simp] theorem PredAcc.mapCost_minCost (a : PredAcc) : (a.mapCost φ).minCost = φ a.minCost := rfl
@[simp] theorem PredAcc.mapCost_conq (a : PredAcc) : (a.mapCost φ).conq = a.conq := rfl
@[simp] theorem PredAcc.mapCost_label (a : PredAcc) : (a.mapCost φ).label = a.label := rfl
@[simp] theorem PredAcc.mapCost_stop (a : PredAcc) : (a.mapCost φ).stop = a.stop := rfl

/-- generic: a fold whose step commutes with a state map commutes with it. -/
theorem foldl_map_comm {σ α : Type} (m : σ → σ) (g g' : σ → α → σ)
    (hstep : ∀ s a, g' (m s) a = m (g s a)) (l : List α) (s : σ) :
    l.foldl g' (m s) = m (l.foldl g s) := by
  induction l generalizing s with
  | nil => rfl
  | cons a l ih => simp only [List.foldl_cons, hstep, ih]

theorem primRelax_map (hφ : StrictMonoInt φ) (h0 : φ 0 = 0) (w : Nat → Nat → Int) (p : Nat)
    (s : PrimSt) (q : Nat) :
    primRelax (fun p q => φ (w p q)) p (s.mapCost φ) q = (primRelax w p s q).mapCost φ := by
  unfold primRelax
  simp only [PrimSt.mapCost_h, Heap.mapCost_colorOf, Heap.mapCost_costOf h0, hφ.lt_iff,
    PrimSt.mapCost_f, Forest.mapCost_pred]
  by_cases hc : s.h.colorOf q ≠ BLACK ∧ p ≠ q ∧ w p q < s.h.costOf q
  · rw [if_pos hc, if_pos hc]
    simp only [PrimSt.mapCost, Heap.mapCost_update hφ h0]
    rfl
  · rw [if_neg hc, if_neg hc]

theorem primFlag_map (f : Forest) (p : Nat) :
    primFlag (f.mapCost φ) p = (primFlag f p).mapCost φ := by
  unfold primFlag
  have e : (f.mapCost φ).predOf p = f.predOf p := rfl
  rw [e]
  cases f.predOf p with
  | none => rfl
  | some pr =>
    simp only
    by_cases hc : f.labelOf p ≠ f.labelOf pr
    · have hc' : (f.mapCost φ).labelOf p ≠ (f.mapCost φ).labelOf pr := hc
      rw [if_pos hc', if_pos hc]; rfl
    · have hc' : ¬ (f.mapCost φ).labelOf p ≠ (f.mapCost φ).labelOf pr := hc
      rw [if_neg hc', if_neg hc]

theorem primStep_map (hφ : StrictMonoInt φ) (h0 : φ 0 = 0) (w : Nat → Nat → Int) (nLab : Nat)
    (s : PrimSt) :
    primStep (fun p q => φ (w p q)) nLab (s.mapCost φ) = (primStep w nLab s).map (PrimSt.mapCost φ) := by
  unfold primStep
  simp only [PrimSt.mapCost_h, Heap.mapCost_remove hφ h0]
  rcases hr : s.h.remove with ⟨h1, _ | p⟩
  · rfl
  · simp only [Option.map_some, Option.some.injEq]
    have hst : ({ h := h1.mapCost φ,
                  f := primFlag { s.mapCost φ |>.f with
                    ncost := (s.mapCost φ).f.ncost.setIfInBounds p ((h1.mapCost φ).costOf p) } p }
                  : PrimSt)
        = PrimSt.mapCost φ { h := h1, f := primFlag { s.f with
                    ncost := s.f.ncost.setIfInBounds p (h1.costOf p) } p } := by
      simp only [PrimSt.mapCost, ← primFlag_map, Heap.mapCost_costOf h0]
      congr 2
      simp [Forest.mapCost]
    rw [hst]
    exact foldl_map_comm (PrimSt.mapCost φ) _ _ (primRelax_map hφ h0 w p) _ _

theorem primLoop_map (hφ : StrictMonoInt φ) (h0 : φ 0 = 0) (w : Nat → Nat → Int) (nLab fuel : Nat)
    (s : PrimSt) :
    primLoop (fun p q => φ (w p q)) nLab fuel (s.mapCost φ) = (primLoop w nLab fuel s).mapCost φ := by
  induction fuel generalizing s with
  | zero => rfl
  | succ fuel ih =>
    simp only [primLoop, primStep_map hφ h0]
    cases hs : primStep w nLab s with
    | none => rfl
    | some s' => simp only [Option.map_some, ih]

/-- Prim on `φ ∘ w`, `φ top`, started from the mapped forest, ends in the mapped state. -/
theorem primRun_map (hφ : StrictMonoInt φ) (h0 : φ 0 = 0) (w : Nat → Nat → Int) (top : Int)
    (nLab : Nat) (f : Forest) :
    primRun (fun p q => φ (w p q)) (φ top) nLab (f.mapCost φ) = (primRun w top nLab f).mapCost φ := by
  unfold primRun
  simp only
  rw [← primLoop_map hφ h0]
  congr 1
  simp only [PrimSt.mapCost, ← Heap.mapCost_init, Heap.mapCost_insert hφ h0]
  rfl

/-! ### L2: competition -/

theorem compInit_map (hφ : StrictMonoInt φ) (h0 : φ 0 = 0) (top : Int) (s : CompSt) (i : Nat) :
    compInit (φ top) (s.mapCost φ) i = (compInit top s i).mapCost φ := by
  unfold compInit
  by_cases hc : s.f.isProto i = true
  · have hc' : (s.mapCost φ).f.isProto i = true := hc
    have : (s.h.mapCost φ).setCost i 0 = (s.h.setCost i 0).mapCost φ := by
      rw [← Heap.mapCost_setCost, h0]
    rw [if_pos hc', if_pos hc]
    simp only [CompSt.mapCost_h, this, Heap.mapCost_insert hφ h0]
    rfl
  · have hc' : ¬ (s.mapCost φ).f.isProto i = true := hc
    rw [if_neg hc', if_neg hc]
    simp only [CompSt.mapCost_h, Heap.mapCost_setCost]
    rfl

theorem compRelax_map (hφ : StrictMonoInt φ) (h0 : φ 0 = 0) (w : Nat → Nat → Int) (semi : Bool)
    (p : Nat) (s : CompSt) (q : Nat) :
    compRelax (fun p q => φ (w p q)) semi p (s.mapCost φ) q
      = (compRelax w semi p s q).mapCost φ := by
  unfold compRelax
  simp only [CompSt.mapCost_h, Heap.mapCost_costOf h0, hφ.map_max, hφ.lt_iff,
    CompSt.mapCost_f, Forest.mapCost_pred, Forest.mapCost_plabelOf, Forest.mapCost_plabel,
    Forest.mapCost_label]
  by_cases hc : p ≠ q ∧ s.h.costOf p < s.h.costOf q ∧ max (s.h.costOf p) (w p q) < s.h.costOf q
  · rw [if_pos hc, if_pos hc]
    simp only [CompSt.mapCost, Heap.mapCost_update hφ h0]
    rfl
  · rw [if_neg hc, if_neg hc]

theorem compStep_map (hφ : StrictMonoInt φ) (h0 : φ 0 = 0) (w : Nat → Nat → Int) (semi : Bool)
    (n : Nat) (s : CompSt) :
    compStep (fun p q => φ (w p q)) semi n (s.mapCost φ)
      = (compStep w semi n s).map (CompSt.mapCost φ) := by
  unfold compStep
  simp only [CompSt.mapCost_h, Heap.mapCost_remove hφ h0]
  rcases hr : s.h.remove with ⟨h1, _ | p⟩
  · rfl
  · simp only [Option.map_some, Option.some.injEq]
    have hst : ({ h := h1.mapCost φ,
                  f := { s.mapCost φ |>.f with
                    order := (s.mapCost φ).f.order.push p,
                    ncost := (s.mapCost φ).f.ncost.setIfInBounds p ((h1.mapCost φ).costOf p) } }
                  : CompSt)
        = CompSt.mapCost φ { h := h1, f := { s.f with
                    order := s.f.order.push p,
                    ncost := s.f.ncost.setIfInBounds p (h1.costOf p) } } := by
      simp only [CompSt.mapCost, Heap.mapCost_costOf h0]
      congr 1
      simp [Forest.mapCost]
    rw [hst]
    exact foldl_map_comm (CompSt.mapCost φ) _ _ (compRelax_map hφ h0 w semi p) _ _

theorem compLoop_map (hφ : StrictMonoInt φ) (h0 : φ 0 = 0) (w : Nat → Nat → Int) (semi : Bool)
    (n fuel : Nat) (s : CompSt) :
    compLoop (fun p q => φ (w p q)) semi n fuel (s.mapCost φ)
      = (compLoop w semi n fuel s).mapCost φ := by
  induction fuel generalizing s with
  | zero => rfl
  | succ fuel ih =>
    simp only [compLoop, compStep_map hφ h0]
    cases hs : compStep w semi n s with
    | none => rfl
    | some s' => simp only [Option.map_some, ih]

/-- the competition on `φ ∘ w`, `φ top`, started from the mapped forest, ends in the mapped
state (heap and forest). -/
theorem competeRun_map (hφ : StrictMonoInt φ) (h0 : φ 0 = 0) (w : Nat → Nat → Int) (top : Int)
    (semi : Bool) (f : Forest) :
    competeRun (fun p q => φ (w p q)) (φ top) semi (f.mapCost φ)
      = (competeRun w top semi f).mapCost φ := by
  unfold competeRun
  simp only [Forest.mapCost_n]
  rw [← compLoop_map hφ h0]
  congr 1
  have : ({ h := Heap.init f.n false (φ top), f := f.mapCost φ } : CompSt)
      = CompSt.mapCost φ { h := Heap.init f.n false top, f := f } := by
    simp only [CompSt.mapCost, Heap.mapCost_init]
  rw [this]
  exact foldl_map_comm (CompSt.mapCost φ) _ _ (compInit_map hφ h0 top) _ _

/-- `fit` on `φ ∘ w`, `φ top`: the mapped final state. -/
theorem fitRun_map (hφ : StrictMonoInt φ) (h0 : φ 0 = 0) (w : Nat → Nat → Int) (top : Int)
    (semi : Bool) (nLab : Nat) (lab : Array Nat) :
    fitRun (fun p q => φ (w p q)) (φ top) semi nLab lab
      = (fitRun w top semi nLab lab).mapCost φ := by
  unfold fitRun
  simp only
  rw [← competeRun_map hφ h0, ← PrimSt.mapCost_f, ← primRun_map hφ h0, Forest.mapCost_init h0]

/-! ### L3: prediction -/

theorem markNodes_map (f : Forest) (fuel i : Nat) :
    markNodes (f.mapCost φ) fuel i = (markNodes f fuel i).mapCost φ := by
  induction fuel generalizing f i with
  | zero => rfl
  | succ fuel ih =>
    simp only [markNodes, Forest.mapCost_predOf, Forest.mapCost_relevant]
    cases f.predOf i with
    | none => rfl
    | some pr => exact ih { f with relevant := f.relevant.setIfInBounds i true } pr

theorem predictScan_map (hφ : StrictMonoInt φ) (h0 : φ 0 = 0) (f : Forest) (d : Nat → Int)
    (acc : PredAcc) (l : Nat) :
    predictScan (f.mapCost φ) (fun t => φ (d t)) (acc.mapCost φ) l
      = (predictScan f d acc l).mapCost φ := by
  unfold predictScan
  simp only [PredAcc.mapCost_stop, PredAcc.mapCost_minCost, Forest.mapCost_costOf h0, gt_iff_lt,
    hφ.map_max, hφ.lt_iff, Forest.mapCost_plabelOf]
  by_cases hs : acc.stop = true
  · rw [if_pos hs, if_pos hs]
  · rw [if_neg hs, if_neg hs]
    by_cases h1 : f.costOf l < acc.minCost
    · rw [if_pos h1, if_pos h1]
      by_cases h2 : max (f.costOf l) (d l) < acc.minCost
      · rw [if_pos h2, if_pos h2]; rfl
      · rw [if_neg h2, if_neg h2]
    · rw [if_neg h1, if_neg h1]; rfl

theorem predictOne_map (hφ : StrictMonoInt φ) (h0 : φ 0 = 0) (f : Forest) (d : Nat → Int) :
    predictOne (f.mapCost φ) (fun t => φ (d t)) = (predictOne f d).map (PredAcc.mapCost φ) := by
  unfold predictOne
  simp only [Forest.mapCost_order]
  cases f.order.toList with
  | nil => rfl
  | cons k rest =>
    simp only [Option.map_some, Option.some.injEq, Forest.mapCost_costOf h0, hφ.map_max,
      Forest.mapCost_plabelOf]
    exact foldl_map_comm (PredAcc.mapCost φ) _ _ (predictScan_map hφ h0 f d) rest
      { minCost := max (f.costOf k) (d k), conq := k, label := f.plabelOf k, stop := false }

theorem predictBatch_map (hφ : StrictMonoInt φ) (h0 : φ 0 = 0) (f : Forest)
    (ds : List (Nat → Int)) :
    predictBatch (f.mapCost φ) (ds.map (fun d t => φ (d t)))
      = ((predictBatch f ds).1.mapCost φ, (predictBatch f ds).2) := by
  unfold predictBatch
  rw [List.foldl_map]
  have key : ∀ (acc : Forest × List (Option Nat)),
      ds.foldl (fun (acc : Forest × List (Option Nat)) d =>
        match predictOne acc.1 (fun t => φ (d t)) with
        | none => (acc.1, acc.2 ++ [none])
        | some r => (markNodes acc.1 acc.1.n r.conq, acc.2 ++ [some r.label]))
        (acc.1.mapCost φ, acc.2)
      = ((ds.foldl (fun (acc : Forest × List (Option Nat)) d =>
        match predictOne acc.1 d with
        | none => (acc.1, acc.2 ++ [none])
        | some r => (markNodes acc.1 acc.1.n r.conq, acc.2 ++ [some r.label])) acc).1.mapCost φ,
         (ds.foldl (fun (acc : Forest × List (Option Nat)) d =>
        match predictOne acc.1 d with
        | none => (acc.1, acc.2 ++ [none])
        | some r => (markNodes acc.1 acc.1.n r.conq, acc.2 ++ [some r.label])) acc).2) := by
    intro acc
    exact foldl_map_comm (fun (a : Forest × List (Option Nat)) => (a.1.mapCost φ, a.2)) _ _
      (by
        intro a d
        simp only [predictOne_map hφ h0]
        cases predictOne a.1 d with
        | none => rfl
        | some r => simp only [Option.map_some, PredAcc.mapCost_conq, PredAcc.mapCost_label,
            Forest.mapCost_n, markNodes_map]) ds acc
  exact key (f, [])

end

/-! ### independence of the sentinel

The real code never maps `FLOAT_MAX`.  Equivariance applied to the map "identity up to `M`, shift
by `δ ≥ 0` above" shows that, as long as the sentinel lies strictly above every weight, its value
is immaterial: two sentinels give forests that agree on everything except the costs above `M`. -/

/-- identity on `(-∞, M]`, shift by `δ` above. -/
def shiftAbove (M δ : Int) (x : Int) : Int := if x ≤ M then x else x + δ

theorem shiftAbove_strictMono (M : Int) {δ : Int} (hδ : 0 ≤ δ) : StrictMonoInt (shiftAbove M δ) := by
  intro a b h
  unfold shiftAbove
  split <;> split <;> omega

theorem shiftAbove_low {M δ x : Int} (h : x ≤ M) : shiftAbove M δ x = x := by
  unfold shiftAbove; rw [if_pos h]

theorem shiftAbove_high {M δ x : Int} (h : M < x) : shiftAbove M δ x = x + δ := by
  unfold shiftAbove; rw [if_neg (by omega)]

/-- two forests that differ at most in the recorded costs above `M`, and hence predict alike on
queries whose distances are at most `M`. -/
def Forest.AgreeBelow (M : Int) (f g : Forest) : Prop :=
  f.n = g.n ∧ f.pred = g.pred ∧ f.proto = g.proto ∧ f.plabel = g.plabel ∧ f.label = g.label ∧
  f.order = g.order ∧ f.relevant = g.relevant ∧
  (∀ x, (f.costOf x ≤ M ∨ g.costOf x ≤ M) → f.costOf x = g.costOf x) ∧
  (∀ ds : List (Nat → Int), (∀ d ∈ ds, ∀ t, d t ≤ M) →
    (predictBatch f ds).2 = (predictBatch g ds).2 ∧
    (predictBatch f ds).1.relevant = (predictBatch g ds).1.relevant)

theorem Forest.AgreeBelow.symm {M : Int} {f g : Forest} (h : Forest.AgreeBelow M f g) :
    Forest.AgreeBelow M g f := by
  obtain ⟨h1, h2, h3, h4, h5, h6, h7, h8, h9⟩ := h
  refine ⟨h1.symm, h2.symm, h3.symm, h4.symm, h5.symm, h6.symm, h7.symm, ?_, ?_⟩
  · intro x hx; exact (h8 x hx.symm).symm
  · intro ds hds; exact ⟨(h9 ds hds).1.symm, (h9 ds hds).2.symm⟩

theorem Forest.agreeBelow_mapCost {M δ : Int} (hM : 0 ≤ M) (hδ : 0 ≤ δ) (f : Forest) :
    Forest.AgreeBelow M f (f.mapCost (shiftAbove M δ)) := by
  have hψ := shiftAbove_strictMono M hδ
  have h0 : shiftAbove M δ 0 = 0 := shiftAbove_low hM
  refine ⟨rfl, rfl, rfl, rfl, rfl, rfl, rfl, ?_, ?_⟩
  · intro x hx
    rw [Forest.mapCost_costOf h0] at hx ⊢
    rcases hx with hx | hx
    · exact (shiftAbove_low hx).symm
    · by_cases hc : f.costOf x ≤ M
      · exact (shiftAbove_low hc).symm
      · rw [shiftAbove_high (by omega)] at hx; omega
  · intro ds hds
    have hmap : ds.map (fun d t => shiftAbove M δ (d t)) = ds := by
      have : ∀ d ∈ ds, (fun t => shiftAbove M δ (d t)) = d := by
        intro d hd; funext t; exact shiftAbove_low (hds d hd t)
      calc ds.map (fun d t => shiftAbove M δ (d t)) = ds.map id := List.map_congr_left this
        _ = ds := List.map_id ds
    have h := predictBatch_map hψ h0 f ds
    rw [hmap] at h
    rw [h]
    exact ⟨rfl, rfl⟩

/-- `fit` with two sentinels above all the weights: the larger one gives the shifted state. -/
theorem fitRun_top_le (w : Nat → Nat → Int) {M T1 T2 : Int} (hM : 0 ≤ M)
    (hw : ∀ p q, w p q ≤ M) (h1 : M < T1) (h12 : T1 ≤ T2) (semi : Bool) (nLab : Nat)
    (lab : Array Nat) :
    fitRun w T2 semi nLab lab = (fitRun w T1 semi nLab lab).mapCost (shiftAbove M (T2 - T1)) := by
  have hψ := shiftAbove_strictMono M (δ := T2 - T1) (by omega)
  have h0 : shiftAbove M (T2 - T1) 0 = 0 := shiftAbove_low hM
  have h := fitRun_map hψ h0 w T1 semi nLab lab
  have hw' : (fun p q => shiftAbove M (T2 - T1) (w p q)) = w := by
    funext p q; exact shiftAbove_low (hw p q)
  have ht : shiftAbove M (T2 - T1) T1 = T2 := by rw [shiftAbove_high h1]; omega
  rw [hw', ht] at h
  exact h

/-- the value of the sentinel is immaterial as long as it exceeds every weight. -/
theorem fitRun_top_indep (w : Nat → Nat → Int) {M T1 T2 : Int} (hM : 0 ≤ M)
    (hw : ∀ p q, w p q ≤ M) (h1 : M < T1) (h2 : M < T2) (semi : Bool) (nLab : Nat)
    (lab : Array Nat) :
    Forest.AgreeBelow M (fitRun w T1 semi nLab lab).f (fitRun w T2 semi nLab lab).f := by
  rcases Int.le_total T1 T2 with h | h
  · rw [fitRun_top_le w hM hw h1 h semi nLab lab]
    exact Forest.agreeBelow_mapCost hM (by omega) _
  · rw [fitRun_top_le w hM hw h2 h semi nLab lab]
    exact (Forest.agreeBelow_mapCost hM (by omega) _).symm

/-! ### concrete strictly increasing maps and a 4-node instance (non-vacuity material) -/

theorem strictMono_double : StrictMonoInt (fun x => 2 * x) := by
  intro a b h; show 2 * a < 2 * b; omega

private theorem mul_self_nonneg_int (x : Int) : 0 ≤ x * x := by
  rcases Int.le_total 0 x with h | h
  · exact Int.mul_nonneg h h
  · have := Int.mul_nonneg (a := -x) (b := -x) (by omega) (by omega)
    rwa [Int.neg_mul_neg] at this

theorem strictMono_cube : StrictMonoInt (fun x => x ^ 3) := by
  intro a b hab
  show a ^ 3 < b ^ 3
  have h1 : 0 < (b - a) * (b - a) := Int.mul_pos (by omega) (by omega)
  have h2 : 0 ≤ (a + b) * (a + b) := mul_self_nonneg_int _
  have hq : 0 < a * a + a * b + b * b := by grind
  have h3 : 0 < (b - a) * (a * a + a * b + b * b) := Int.mul_pos (by omega) hq
  grind

/-- a non-affine, non-polynomial strictly increasing map: slope 1 below 0, slope 3 above. -/
theorem strictMono_kink : StrictMonoInt (fun x => if x < 0 then x else 3 * x) := by
  intro a b h
  show (if a < 0 then a else 3 * a) < (if b < 0 then b else 3 * b)
  split <;> split <;> omega

/-- weights of a 4-node example (two classes `{0,1}` and `{2,3}`). -/
def exW (p q : Nat) : Int :=
  ((#[#[0, 3, 7, 9], #[3, 0, 5, 8], #[7, 5, 0, 2], #[9, 8, 2, 0]] : Array (Array Int)).getD p
    #[]).getD q 0

def exLab : Array Nat := #[1, 1, 2, 2]

theorem exW_le (p q : Nat) : exW p q ≤ 9 := by
  unfold exW
  match p, q with
  | 0, 0 | 0, 1 | 0, 2 | 0, 3 | 1, 0 | 1, 1 | 1, 2 | 1, 3
  | 2, 0 | 2, 1 | 2, 2 | 2, 3 | 3, 0 | 3, 1 | 3, 2 | 3, 3 => decide
  | 0, _ + 4 | 1, _ + 4 | 2, _ + 4 | 3, _ + 4 => simp
  | _ + 4, _ => simp

/-- distances of one query to the four training nodes. -/
def exD (t : Nat) : Int := (#[4, 6, 6, 3] : Array Int).getD t 0

end Opf
