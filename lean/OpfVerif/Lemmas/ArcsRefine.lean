/-
Refinement between the statement-level translation of `KNNSubgraph.create_arcs` and
`Subgraph.destroy_arcs` (`Gen/ArcsImp.lean`, regenerated from the source on every run by
`tools/translate_fn.py`) and the executable models `createArcs` / `destroyArcs` of
`Model/Knn.lean`, about which `Props/C12Arcs.lean` speaks.

Structure:
* `bubCond`, `bubBody`, `scanBody`, `slotBody`, `nodeBody`, `destroyBody` – the loop bodies of the
  generated text under names; `create_arcs_eq`, `destroy_arcs_eq` are `rfl` against the generated text;
* `BR` – the two parallel arrays `distances` / `neighbours_idx` of the translation against the model's
  array of pairs: distances agree at every slot, indices agree at every slot whose distance is not
  `top` (the translation re-fills `distances` per node but keeps stale `neighbours_idx`; a stale
  index only ever sits under a `top` distance, which both sides skip);
* `bubble_refines` – the inner `while` against `bubble`; `scan_refines` – `for j in range(n)` with
  `if j != i` against `scan` over the filtered range;
* `slotBody_step`, `forDown_refines` – `for l in range(k-1, -1, -1)` against the reversed fold of
  `arcSlot`; `nodeBody_step` – one node; `create_arcs_refines`, `destroy_arcs_refines`.
-/
import OpfVerif.Gen.ArcsImp
import OpfVerif.Model.Knn
import OpfVerif.Lemmas.HeapRefine
set_option linter.unusedVariables false
namespace Opf.ArcsRefine
open Opf Opf.Gen Opf.Gen.ArcsImp

/-- an adjacency list as the real code stores it. -/
def adjInt (l : List Nat) : Array Int := (l.map (fun (x : Nat) => (x : Int))).toArray

/-- abstraction relation: the flattened `KNNSubgraph` `sg` represents `g`. -/
structure RelA (sg : ASG) (g : KnnSub) : Prop where
  n : sg.n_nodes = (g.n : Int)
  bound : sg.density = g.bound
  sz_adj : sg.adjacency.size = g.n
  sz_radius : sg.radius.size = g.n
  sz_nplat : sg.n_plateaus.size = g.n
  gsz_adj : g.adj.size = g.n
  gsz_radius : g.radius.size = g.n
  gsz_nplat : g.nplat.size = g.n
  adj : ∀ x, x < g.n → sg.adjacency[x]? = some (adjInt (g.adj.getD x []))
  radius : ∀ x, x < g.n → sg.radius[x]? = some (g.radius.getD x 0)
  nplat : ∀ x, x < g.n → sg.n_plateaus[x]? = some (g.nplat.getD x 0 : Int)

/-- the arc-weight oracle agrees with the model's weight function on the subgraph's positions. -/
def WAgree (n : Nat) (W : Int → Int → Option Int) (w : Nat → Nat → Int) : Prop :=
  ∀ a b : Nat, a < n → b < n → W (a : Int) (b : Int) = some (w a b)

def bubCond : Array Int × Array Int × Int → Option Bool :=
                (fun (distances, neighbours_idx, cur_k) => (do
                  let t3006 ← (if (decide (cur_k > (0 : Int))) then (do
                      let t3004 ← Py.idx distances cur_k
                      let t3005 ← Py.idx distances (cur_k - (1 : Int))
                      pure (decide (t3004 < t3005))) else pure false)
                  pure t3006))

def bubBody : Array Int × Array Int × Int → Option (Array Int × Array Int × Int) :=
                (fun (distances, neighbours_idx, cur_k) => (do
                  let t3007 ← Py.idx distances (cur_k - (1 : Int))
                  let t3008 := t3007
                  let t3009 ← Py.idx distances cur_k
                  let t3010 := t3009
                  let t3011 ← Py.setIdx distances cur_k t3008
                  let distances := t3011
                  let t3012 ← Py.setIdx distances (cur_k - (1 : Int)) t3010
                  let distances := t3012
                  let t3013 ← Py.idx neighbours_idx (cur_k - (1 : Int))
                  let t3014 := t3013
                  let t3015 ← Py.idx neighbours_idx cur_k
                  let t3016 := t3015
                  let t3017 ← Py.setIdx neighbours_idx cur_k t3014
                  let neighbours_idx := t3017
                  let t3018 ← Py.setIdx neighbours_idx (cur_k - (1 : Int)) t3016
                  let neighbours_idx := t3018
                  let cur_k := (cur_k - (1 : Int))
                  pure (distances, neighbours_idx, cur_k)))

def scanBody (W : Int → Int → Option Int) (k i : Int) :
    Int → Array Int × Array Int → Option (Array Int × Array Int) :=
        (fun j (neighbours_idx, distances) => (do
          let (distances, neighbours_idx) ← (if (decide (j ≠ i)) then (do
              let t3001 ← W i j
              let t3002 ← Py.setIdx distances k t3001
              let distances := t3002
              let t3003 ← Py.setIdx neighbours_idx k j
              let neighbours_idx := t3003
              let cur_k := k
              let (distances, neighbours_idx, cur_k) ← Py.whileM (σ := Array Int × Array Int × Int)
                bubCond bubBody (distances, neighbours_idx, cur_k)
              pure (distances, neighbours_idx)) else (do
              pure (distances, neighbours_idx)))
          pure (neighbours_idx, distances)))

def slotBody (FLOAT_MAX : Int) (distances neighbours_idx : Array Int) (i : Int) :
    Int → ASG × Array Int → Option (ASG × Array Int) :=
        (fun l (sg, max_distances) => (do
          let t3021 ← Py.idx distances l
          let (sg, max_distances) ← (if (decide (t3021 ≠ FLOAT_MAX)) then (do
              let t3022 ← Py.idx distances l
              let sg ← (if (decide (t3022 > sg.density)) then (do
                  let t3023 ← Py.idx distances l
                  let sg := { sg with density := t3023 }
                  pure sg) else (do
                  pure sg))
              let t3024 ← Py.idx distances l
              let t3025 ← Py.idx sg.radius i
              let sg ← (if (decide (t3024 > t3025)) then (do
                  let t3026 ← Py.idx distances l
                  let t3027 ← Py.setIdx sg.radius i t3026
                  let sg := { sg with radius := t3027 }
                  pure sg) else (do
                  pure sg))
              let t3028 ← Py.idx distances l
              let t3029 ← Py.idx max_distances l
              let max_distances ← (if (decide (t3028 > t3029)) then (do
                  let t3030 ← Py.idx distances l
                  let t3031 ← Py.setIdx max_distances l t3030
                  let max_distances := t3031
                  pure max_distances) else (do
                  pure max_distances))
              let t3032 ← Py.idx neighbours_idx l
              let t3033 ← Py.idx sg.adjacency i
              let t3034 ← Py.setIdx sg.adjacency i (#[t3032] ++ t3033)
              let sg := { sg with adjacency := t3034 }
              pure (sg, max_distances)) else (do
              pure (sg, max_distances)))
          pure (sg, max_distances)))

def nodeBody (W : Int → Int → Option Int) (FLOAT_MAX : Int) (k : Int) :
    Int → Array Int × Array Int × ASG × Array Int → Option (Array Int × Array Int × ASG × Array Int) :=
    (fun i (distances, neighbours_idx, sg, max_distances) => (do
      let distances : Array Int := Array.replicate distances.size FLOAT_MAX
      let (neighbours_idx, distances) ← Py.forRange (σ := Array Int × Array Int) sg.n_nodes
        (scanBody W k i) (neighbours_idx, distances)
      let t3019 ← Py.setIdx sg.radius i (0 : Int)
      let sg := { sg with radius := t3019 }
      let _g ← (if (decide ((0 : Int) < (0 : Int))) then none else pure ())
      let t3020 ← Py.setIdx sg.n_plateaus i (0 : Int)
      let sg := { sg with n_plateaus := t3020 }
      let (sg, max_distances) ← Py.forDown (σ := ASG × Array Int) (k - (1 : Int)) (-(1 : Int))
        (slotBody FLOAT_MAX distances neighbours_idx i) (sg, max_distances)
      pure (distances, neighbours_idx, sg, max_distances)))

theorem create_arcs_eq (W : Int → Int → Option Int) (top tiny one : Int) (sg : ASG) (k : Int) :
    create_arcs W top tiny one sg k = (do
      let (distances, neighbours_idx, sg, max_distances) ←
        Py.forRange (σ := Array Int × Array Int × ASG × Array Int) sg.n_nodes (nodeBody W top k)
          (Py.replicate (k + 1) 0, Py.replicate (k + 1) 0, sg, Py.replicate k 0)
      let sg ← (if (decide (sg.density < tiny)) then (do
          let sg := { sg with density := one }
          pure sg) else (do
          pure sg))
      pure (sg, max_distances)) := rfl

def destroyBody : Int → ASG → Option ASG :=
    (fun i sg => (do
      let _g ← (if (decide ((0 : Int) < (0 : Int))) then none else pure ())
      let t3101 ← Py.setIdx sg.n_plateaus i (0 : Int)
      let sg := { sg with n_plateaus := t3101 }
      let t3102 ← Py.setIdx sg.adjacency i (#[] : Array Int)
      let sg := { sg with adjacency := t3102 }
      pure sg))

theorem destroy_arcs_eq (sg : ASG) : destroy_arcs sg = (do
    let sg ← Py.forRange (σ := ASG) sg.n_nodes destroyBody sg
    pure (sg, ())) := rfl

/-! ### arrays -/

theorem getq_getD {α : Type} (a : Array α) (x : Nat) (d : α) (h : x < a.size) :
    a[x]? = some (a.getD x d) := by
  simp [Array.getD_eq_getD_getElem?, h]

theorem getD_repl {α : Type} (n t : Nat) (v d : α) (h : t < n) :
    (Array.replicate n v).getD t d = v := by
  simp [Array.getD_eq_getD_getElem?, h]

/-- exchanging positions `p` and `q` of an array, as the model and the translation both write it. -/
def swp {α : Type} (a : Array α) (p q : Nat) (x : α) : Array α :=
  (a.setIfInBounds p (a.getD q x)).setIfInBounds q (a.getD p x)

theorem swp_size {α : Type} (a : Array α) (p q : Nat) (x : α) : (swp a p q x).size = a.size := by
  simp [swp]

theorem swp_getD {α : Type} (a : Array α) (p q : Nat) (x : α) (hp : p < a.size) (hq : q < a.size)
    (t : Nat) :
    (swp a p q x).getD t x = if t = q then a.getD p x else if t = p then a.getD q x else a.getD t x := by
  unfold swp
  rw [Heap.getD_set, Heap.getD_set, Array.size_setIfInBounds]
  by_cases e1 : t = q
  · rw [if_pos ⟨e1, hq⟩, if_pos e1]
  · rw [if_neg (fun c => e1 c.1), if_neg e1]
    by_cases e2 : t = p
    · rw [if_pos ⟨e2, hp⟩, if_pos e2]
    · rw [if_neg (fun c => e2 c.1), if_neg e2]

/-- the two parallel arrays of the translation against the model's array of pairs.  A slot whose
distance is `top` may hold a stale index (the translation does not reset `neighbours_idx`). -/
structure BR (top : Int) (k : Nat) (d ni : Array Int) (buf : Array Slot) : Prop where
  sd : d.size = k + 1
  sn : ni.size = k + 1
  sb : buf.size = k + 1
  dist : ∀ t, t ≤ k → d.getD t 0 = (buf.getD t (0, 0)).1
  idx : ∀ t, t ≤ k → (buf.getD t (0, 0)).1 = top ∨ ni.getD t 0 = ((buf.getD t (0, 0)).2 : Int)

theorem BR.fresh (top : Int) (k : Nat) (d ni : Array Int) (hd : d.size = k + 1) (hn : ni.size = k + 1) :
    BR top k (Array.replicate d.size top) ni (Array.replicate (k + 1) (top, 0)) := by
  refine ⟨by simp [hd], hn, by simp, ?_, ?_⟩
  · intro t ht
    rw [hd, getD_repl _ _ _ _ (by omega), getD_repl _ _ _ _ (by omega)]
  · intro t ht
    left
    rw [getD_repl _ _ _ _ (by omega)]

theorem BR.swap {top : Int} {k : Nat} {d ni : Array Int} {buf : Array Slot} (h : BR top k d ni buf)
    (p q : Nat) (hp : p ≤ k) (hq : q ≤ k) :
    BR top k (swp d p q 0) (swp ni p q 0) (swp buf p q (0, 0)) := by
  have hd := h.sd; have hn := h.sn; have hb := h.sb
  refine ⟨by rw [swp_size]; exact hd, by rw [swp_size]; exact hn, by rw [swp_size]; exact hb, ?_, ?_⟩
  · intro t ht
    rw [swp_getD _ _ _ _ (by omega) (by omega), swp_getD _ _ _ _ (by omega) (by omega)]
    by_cases e1 : t = q
    · rw [if_pos e1, if_pos e1]; exact h.dist p hp
    · rw [if_neg e1, if_neg e1]
      by_cases e2 : t = p
      · rw [if_pos e2, if_pos e2]; exact h.dist q hq
      · rw [if_neg e2, if_neg e2]; exact h.dist t ht
  · intro t ht
    rw [swp_getD _ _ _ _ (by omega) (by omega), swp_getD _ _ _ _ (by omega) (by omega)]
    by_cases e1 : t = q
    · rw [if_pos e1, if_pos e1]; exact h.idx p hp
    · rw [if_neg e1, if_neg e1]
      by_cases e2 : t = p
      · rw [if_pos e2, if_pos e2]; exact h.idx q hq
      · rw [if_neg e2, if_neg e2]; exact h.idx t ht

theorem BR.write {top : Int} {k : Nat} {d ni : Array Int} {buf : Array Slot} (h : BR top k d ni buf)
    (v : Int) (j : Nat) :
    BR top k (d.setIfInBounds k v) (ni.setIfInBounds k (j : Int)) (buf.setIfInBounds k (v, j)) := by
  have hd := h.sd; have hn := h.sn; have hb := h.sb
  refine ⟨by rw [Array.size_setIfInBounds]; exact hd, by rw [Array.size_setIfInBounds]; exact hn,
    by rw [Array.size_setIfInBounds]; exact hb, ?_, ?_⟩
  · intro t ht
    rw [Heap.getD_set, Heap.getD_set]
    by_cases e : t = k
    · rw [if_pos ⟨e, by omega⟩, if_pos ⟨e, by omega⟩]
    · rw [if_neg (fun c => e c.1), if_neg (fun c => e c.1)]; exact h.dist t ht
  · intro t ht
    rw [Heap.getD_set, Heap.getD_set]
    by_cases e : t = k
    · rw [if_pos ⟨e, by omega⟩, if_pos ⟨e, by omega⟩]; right; rfl
    · rw [if_neg (fun c => e c.1), if_neg (fun c => e c.1)]; exact h.idx t ht

theorem BR.idx_d {top : Int} {k : Nat} {d ni : Array Int} {buf : Array Slot} (h : BR top k d ni buf)
    (t : Nat) (ht : t ≤ k) : Py.idx d (t : Int) = some (buf.getD t (0, 0)).1 := by
  rw [HeapRefine.idx_nat, getq_getD d t 0 (by rw [h.sd]; omega), h.dist t ht]

theorem BR.idx_n {top : Int} {k : Nat} {d ni : Array Int} {buf : Array Slot} (h : BR top k d ni buf)
    (t : Nat) (ht : t ≤ k) (hne : (buf.getD t (0, 0)).1 ≠ top) :
    Py.idx ni (t : Int) = some ((buf.getD t (0, 0)).2 : Int) := by
  rw [HeapRefine.idx_nat, getq_getD ni t 0 (by rw [h.sn]; omega)]
  rcases h.idx t ht with e | e
  · exact absurd e hne
  · rw [e]

/-! ### the inner `while` against `bubble` -/

theorem bubCond_zero (d ni : Array Int) : bubCond (d, ni, ((0 : Nat) : Int)) = some false := by
  simp [bubCond]

theorem bubCond_succ {top : Int} {k : Nat} {d ni : Array Int} {buf : Array Slot} (h : BR top k d ni buf)
    (cur : Nat) (hc : cur + 1 ≤ k) :
    bubCond (d, ni, ((cur + 1 : Nat) : Int)) =
      some (decide ((buf.getD (cur + 1) (0, 0)).1 < (buf.getD cur (0, 0)).1)) := by
  have e1 : ((cur + 1 : Nat) : Int) - 1 = (cur : Int) := by omega
  have e0 : ((cur + 1 : Nat) : Int) > 0 := by omega
  have i1 := h.idx_d (cur + 1) hc
  have i0 := h.idx_d cur (by omega)
  simp only [bubCond, e1, e0, i1, i0, decide_true, if_true, Option.bind_eq_bind, Option.bind_some,
    Option.pure_def]

theorem bubBody_succ {top : Int} {k : Nat} {d ni : Array Int} {buf : Array Slot} (h : BR top k d ni buf)
    (cur : Nat) (hc : cur + 1 ≤ k) :
    bubBody (d, ni, ((cur + 1 : Nat) : Int)) =
      some (swp d (cur + 1) cur 0, swp ni (cur + 1) cur 0, (cur : Int)) := by
  have e1 : ((cur + 1 : Nat) : Int) - 1 = (cur : Int) := by omega
  have hd := h.sd; have hn := h.sn
  have a1 : Py.idx d (cur : Int) = some (d.getD cur 0) := by
    rw [HeapRefine.idx_nat]; exact getq_getD _ _ _ (by omega)
  have a2 : Py.idx d ((cur + 1 : Nat) : Int) = some (d.getD (cur + 1) 0) := by
    rw [HeapRefine.idx_nat]; exact getq_getD _ _ _ (by omega)
  have a3 : Py.setIdx d ((cur + 1 : Nat) : Int) (d.getD cur 0) =
      some (d.setIfInBounds (cur + 1) (d.getD cur 0)) := HeapRefine.setIdx_nat _ _ _ (by omega)
  have a4 : Py.setIdx (d.setIfInBounds (cur + 1) (d.getD cur 0)) (cur : Int) (d.getD (cur + 1) 0) =
      some ((d.setIfInBounds (cur + 1) (d.getD cur 0)).setIfInBounds cur (d.getD (cur + 1) 0)) :=
    HeapRefine.setIdx_nat _ _ _ (by rw [Array.size_setIfInBounds]; omega)
  have b1 : Py.idx ni (cur : Int) = some (ni.getD cur 0) := by
    rw [HeapRefine.idx_nat]; exact getq_getD _ _ _ (by omega)
  have b2 : Py.idx ni ((cur + 1 : Nat) : Int) = some (ni.getD (cur + 1) 0) := by
    rw [HeapRefine.idx_nat]; exact getq_getD _ _ _ (by omega)
  have b3 : Py.setIdx ni ((cur + 1 : Nat) : Int) (ni.getD cur 0) =
      some (ni.setIfInBounds (cur + 1) (ni.getD cur 0)) := HeapRefine.setIdx_nat _ _ _ (by omega)
  have b4 : Py.setIdx (ni.setIfInBounds (cur + 1) (ni.getD cur 0)) (cur : Int) (ni.getD (cur + 1) 0) =
      some ((ni.setIfInBounds (cur + 1) (ni.getD cur 0)).setIfInBounds cur (ni.getD (cur + 1) 0)) :=
    HeapRefine.setIdx_nat _ _ _ (by rw [Array.size_setIfInBounds]; omega)
  simp only [bubBody, e1, a1, a2, a3, a4, b1, b2, b3, b4, Option.bind_eq_bind, Option.bind_some,
    Option.pure_def, swp]

theorem bubble_succ (buf : Array Slot) (cur : Nat) :
    bubble buf (cur + 1) =
      if (buf.getD (cur + 1) (0, 0)).1 < (buf.getD cur (0, 0)).1 then
        bubble (swp buf (cur + 1) cur (0, 0)) cur
      else buf := rfl

theorem bubble_refines (top : Int) (k : Nat) : ∀ (cur : Nat) (d ni : Array Int) (buf : Array Slot),
    cur ≤ k → BR top k d ni buf →
    ∃ d' ni' c', Py.whileM bubCond bubBody (d, ni, (cur : Int)) = some (d', ni', c') ∧
      BR top k d' ni' (bubble buf cur) := by
  intro cur
  induction cur with
  | zero =>
    intro d ni buf _ h
    exact ⟨d, ni, _, HeapRefine.whileM_false _ _ _ (bubCond_zero d ni), h⟩
  | succ cur ih =>
    intro d ni buf hc h
    rw [bubble_succ]
    by_cases hlt : (buf.getD (cur + 1) (0, 0)).1 < (buf.getD cur (0, 0)).1
    · rw [if_pos hlt]
      obtain ⟨d', ni', c', e, r⟩ := ih _ _ _ (by omega) (h.swap (cur + 1) cur hc (by omega))
      refine ⟨d', ni', c', ?_, r⟩
      rw [HeapRefine.whileM_true _ _ _ _ (by rw [bubCond_succ h cur hc, decide_eq_true hlt])
        (bubBody_succ h cur hc)]
      exact e
    · rw [if_neg hlt]
      refine ⟨d, ni, _, HeapRefine.whileM_false _ _ _ (by rw [bubCond_succ h cur hc, decide_eq_false hlt]), h⟩

/-! ### `for j in range(n)` against the scan -/

theorem forRange_nat {σ : Type} (n : Nat) (body : Int → σ → Option σ) (s : σ) :
    Py.forRange (n : Int) body s = (List.range n).foldlM (fun s (q : Nat) => body (q : Int) s) s := by
  unfold Py.forRange
  rw [Int.toNat_natCast]

/-- generic refinement of a `foldlM` over `List.range` by a pure `foldl`. -/
theorem foldlM_range_refines {σ τ : Type} (R : Nat → σ → τ → Prop) (body : Nat → σ → Option σ)
    (step : τ → Nat → τ) (n : Nat)
    (hstep : ∀ k, k < n → ∀ a b, R k a b → ∃ a', body k a = some a' ∧ R (k + 1) a' (step b k)) :
    ∀ k, k ≤ n → ∀ a b, R 0 a b →
      ∃ a', (List.range k).foldlM (fun s q => body q s) a = some a' ∧
        R k a' ((List.range k).foldl step b) := by
  intro k
  induction k with
  | zero => intro _ a b h; exact ⟨a, rfl, h⟩
  | succ k ih =>
    intro hk a b h
    obtain ⟨a1, e1, r1⟩ := ih (by omega) a b h
    obtain ⟨a2, e2, r2⟩ := hstep k (by omega) a1 _ r1
    refine ⟨a2, ?_, ?_⟩
    · rw [List.range_succ, List.foldlM_append, e1]
      simp only [Option.bind_eq_bind, Option.bind_some, List.foldlM_cons, List.foldlM_nil, e2]
      rfl
    · rw [List.range_succ, List.foldl_append]
      exact r2

theorem forRange_refines {σ τ : Type} (R : Nat → σ → τ → Prop) (body : Int → σ → Option σ)
    (step : τ → Nat → τ) (n : Nat)
    (hstep : ∀ k, k < n → ∀ a b, R k a b → ∃ a', body (k : Int) a = some a' ∧ R (k + 1) a' (step b k))
    (a : σ) (b : τ) (h : R 0 a b) :
    ∃ a', Py.forRange (n : Int) body a = some a' ∧ R n a' ((List.range n).foldl step b) := by
  rw [forRange_nat]
  exact foldlM_range_refines R (fun q s => body (q : Int) s) step n hstep n (Nat.le_refl n) a b h

/-- one candidate `j` of node `i`. -/
theorem scanBody_step (W : Int → Int → Option Int) (w : Nat → Nat → Int) (n : Nat)
    (hW : ∀ a b : Nat, a < n → b < n → W (a : Int) (b : Int) = some (w a b))
    (top : Int) (k i j : Nat) (hi : i < n) (hj : j < n)
    (d ni : Array Int) (buf : Array Slot) (h : BR top k d ni buf) :
    ∃ a', scanBody W (k : Int) (i : Int) (j : Int) (ni, d) = some a' ∧
      BR top k a'.2 a'.1 (if j ≠ i then scanInsert k buf (w i j) j else buf) := by
  by_cases e : j = i
  · refine ⟨(ni, d), ?_, ?_⟩
    · subst e
      simp only [scanBody, ne_eq, not_true_eq_false, decide_false, Bool.false_eq_true, if_false,
        Option.bind_eq_bind, Option.bind_some, Option.pure_def]
    · rw [if_neg (fun c => c e)]; exact h
  · have e' : ¬ ((j : Int) = (i : Int)) := by omega
    have eW := hW i j hi hj
    have s1 : Py.setIdx d (k : Int) (w i j) = some (d.setIfInBounds k (w i j)) :=
      HeapRefine.setIdx_nat _ _ _ (by rw [h.sd]; omega)
    have s2 : Py.setIdx ni (k : Int) (j : Int) = some (ni.setIfInBounds k (j : Int)) :=
      HeapRefine.setIdx_nat _ _ _ (by rw [h.sn]; omega)
    obtain ⟨d', ni', c', ew, r⟩ := bubble_refines top k k _ _ _ (Nat.le_refl k) (h.write (w i j) j)
    refine ⟨(ni', d'), ?_, ?_⟩
    · simp only [scanBody, ne_eq, e', not_false_eq_true, decide_true, if_true, eW, s1, s2, ew,
        Option.bind_eq_bind, Option.bind_some, Option.pure_def]
    · rw [if_pos e]; exact r

theorem scan_refines (W : Int → Int → Option Int) (w : Nat → Nat → Int) (n : Nat)
    (hW : ∀ a b : Nat, a < n → b < n → W (a : Int) (b : Int) = some (w a b))
    (top : Int) (k i : Nat) (hi : i < n) (d ni : Array Int) (hd : d.size = k + 1)
    (hn : ni.size = k + 1) :
    ∃ ni' d', Py.forRange (n : Int) (scanBody W (k : Int) (i : Int))
        (ni, Array.replicate d.size top) = some (ni', d') ∧
      BR top k d' ni' (scan k top (w i) ((List.range n).filter (· ≠ i))) := by
  obtain ⟨a', e, r⟩ := forRange_refines
    (fun (_ : Nat) (a : Array Int × Array Int) (b : Array Slot) => BR top k a.2 a.1 b)
    (scanBody W (k : Int) (i : Int))
    (fun buf j => if j ≠ i then scanInsert k buf (w i j) j else buf) n
    (fun j hj a b hab => scanBody_step W w n hW top k i j hi hj a.2 a.1 b hab)
    (ni, Array.replicate d.size top) (Array.replicate (k + 1) (top, 0)) (BR.fresh top k d ni hd hn)
  refine ⟨a'.1, a'.2, e, ?_⟩
  have : scan k top (w i) ((List.range n).filter (· ≠ i)) =
      (List.range n).foldl (fun buf j => if j ≠ i then scanInsert k buf (w i j) j else buf)
        (Array.replicate (k + 1) (top, 0)) := by
    unfold scan
    rw [List.foldl_filter]
    simp only [decide_eq_true_eq]
  rw [this]; exact r

/-! ### stores on both sides of `RelA` -/

theorem getq_set {α : Type} (a : Array α) (i k : Nat) (v : α) (hi : i < a.size) :
    (a.setIfInBounds i v)[k]? = if k = i then some v else a[k]? := by
  rw [Array.getElem?_setIfInBounds]
  by_cases e : i = k
  · subst e; simp [hi]
  · have : ¬ k = i := fun h => e h.symm
    simp [e, this]

theorem size_set {α : Type} (a : Array α) (j : Nat) (v : α) (n : Nat) (h : a.size = n) :
    (a.setIfInBounds j v).size = n := by rw [Array.size_setIfInBounds]; exact h

/-- a store at `i` on both sides keeps a pointwise correspondence of two arrays. -/
theorem upd_field {α β : Type} (a : Array α) (b : Array β) (d : β) (F : β → α) (n i : Nat) (v : β)
    (ha : a.size = n) (hb : b.size = n) (hi : i < n)
    (h : ∀ x, x < n → a[x]? = some (F (b.getD x d))) :
    ∀ x, x < n → (a.setIfInBounds i (F v))[x]? = some (F ((b.setIfInBounds i v).getD x d)) := by
  intro x hx
  rw [getq_set _ _ _ _ (by omega), Heap.getD_set]
  by_cases e : x = i
  · rw [if_pos e, if_pos ⟨e, by omega⟩]
  · rw [if_neg e, if_neg (fun c => e c.1)]; exact h x hx

/-- storing the value already there changes nothing. -/
theorem set_self {α : Type} (a : Array α) (i : Nat) (d : α) : a.setIfInBounds i (a.getD i d) = a := by
  apply Array.ext_getElem?
  intro t
  rw [Array.getElem?_setIfInBounds]
  by_cases e : i = t
  · subst e
    by_cases hi : i < a.size
    · simp [hi, Array.getD_eq_getD_getElem?]
    · simp [hi]
  · simp [e]

theorem adjInt_cons (i : Nat) (l : List Nat) : #[(i : Int)] ++ adjInt l = adjInt (i :: l) := by
  simp [adjInt]

namespace RelA
variable {sg : ASG} {g : KnnSub}

theorem set_bound (r : RelA sg g) (v : Int) :
    RelA { sg with density := v } { g with bound := v } :=
  ⟨r.n, rfl, r.sz_adj, r.sz_radius, r.sz_nplat, r.gsz_adj, r.gsz_radius, r.gsz_nplat, r.adj, r.radius,
    r.nplat⟩

theorem set_radius (r : RelA sg g) {i : Nat} (hi : i < g.n) (v : Int) :
    RelA { sg with radius := sg.radius.setIfInBounds i v }
      { g with radius := g.radius.setIfInBounds i v } :=
  ⟨r.n, r.bound, r.sz_adj, size_set _ _ _ _ r.sz_radius, r.sz_nplat, r.gsz_adj,
    size_set _ _ _ _ r.gsz_radius, r.gsz_nplat, r.adj,
    upd_field sg.radius g.radius 0 (fun (x : Int) => x) g.n i v r.sz_radius r.gsz_radius hi r.radius,
    r.nplat⟩

theorem set_nplat (r : RelA sg g) {i : Nat} (hi : i < g.n) (v : Nat) :
    RelA { sg with n_plateaus := sg.n_plateaus.setIfInBounds i (v : Int) }
      { g with nplat := g.nplat.setIfInBounds i v } :=
  ⟨r.n, r.bound, r.sz_adj, r.sz_radius, size_set _ _ _ _ r.sz_nplat, r.gsz_adj, r.gsz_radius,
    size_set _ _ _ _ r.gsz_nplat, r.adj, r.radius,
    upd_field sg.n_plateaus g.nplat 0 (fun (x : Nat) => (x : Int)) g.n i v r.sz_nplat r.gsz_nplat hi
      r.nplat⟩

theorem set_adj (r : RelA sg g) {i : Nat} (hi : i < g.n) (l : List Nat) :
    RelA { sg with adjacency := sg.adjacency.setIfInBounds i (adjInt l) }
      { g with adj := g.adj.setIfInBounds i l } :=
  ⟨r.n, r.bound, size_set _ _ _ _ r.sz_adj, r.sz_radius, r.sz_nplat, size_set _ _ _ _ r.gsz_adj,
    r.gsz_radius, r.gsz_nplat,
    upd_field sg.adjacency g.adj [] adjInt g.n i l r.sz_adj r.gsz_adj hi r.adj, r.radius, r.nplat⟩

theorem idx_radius (r : RelA sg g) {x : Nat} (hx : x < g.n) :
    Py.idx sg.radius (x : Int) = some (g.radius.getD x 0) := by
  rw [HeapRefine.idx_nat]; exact r.radius x hx

theorem idx_adj (r : RelA sg g) {x : Nat} (hx : x < g.n) :
    Py.idx sg.adjacency (x : Int) = some (adjInt (g.adj.getD x [])) := by
  rw [HeapRefine.idx_nat]; exact r.adj x hx

end RelA

/-! ### one slot of `for l in range(k-1, -1, -1)` -/

theorem RelA.slot {sg : ASG} {g : KnnSub} (r : RelA sg g) {i : Nat} (hi : i < g.n) (bv rv : Int)
    (x : Nat) :
    RelA { sg with density := bv, radius := sg.radius.setIfInBounds i rv,
                   adjacency := sg.adjacency.setIfInBounds i (#[(x : Int)] ++ adjInt (g.adj.getD i [])) }
      { g with bound := bv, radius := g.radius.setIfInBounds i rv,
               adj := g.adj.setIfInBounds i (x :: g.adj.getD i []) } := by
  rw [adjInt_cons]
  exact ((r.set_bound bv).set_radius hi rv).set_adj hi _

theorem arcSlot_neg' (top : Int) (i : Nat) (buf : Array Slot) (a : ArcAcc) (l : Nat)
    (h : (buf.getD l (0, 0)).1 = top) : arcSlot top i buf a l = a := by
  unfold arcSlot
  simp only [ne_eq, h, not_true_eq_false, if_false]

theorem arcSlot_pos' (top : Int) (i : Nat) (buf : Array Slot) (a : ArcAcc) (l : Nat)
    (h : (buf.getD l (0, 0)).1 ≠ top) : arcSlot top i buf a l =
    { g := { a.g with
        bound := if (buf.getD l (0, 0)).1 > a.g.bound then (buf.getD l (0, 0)).1 else a.g.bound,
        radius := a.g.radius.setIfInBounds i
          (if (buf.getD l (0, 0)).1 > a.g.radius.getD i 0 then (buf.getD l (0, 0)).1
           else a.g.radius.getD i 0),
        adj := a.g.adj.setIfInBounds i ((buf.getD l (0, 0)).2 :: a.g.adj.getD i []) },
      maxd := a.maxd.setIfInBounds l
        (if (buf.getD l (0, 0)).1 > a.maxd.getD l 0 then (buf.getD l (0, 0)).1 else a.maxd.getD l 0) } := by
  unfold arcSlot
  simp only [ne_eq, h, not_false_eq_true, if_true]

theorem getD_of_getq {α : Type} (a : Array α) (x : Nat) (d v : α) (h : a[x]? = some v) :
    a.getD x d = v := by
  rw [Array.getD_eq_getD_getElem?, h]; rfl

theorem slotBody_step (top : Int) (k i l : Nat) (d ni : Array Int) (buf : Array Slot)
    (hb : BR top k d ni buf) (hl : l < k) (sg : ASG) (md : Array Int) (a : ArcAcc)
    (r : RelA sg a.g) (hi : i < a.g.n) (hmd : md = a.maxd) (hsz : md.size = k) :
    ∃ a', slotBody top d ni (i : Int) (l : Int) (sg, md) = some a' ∧
      RelA a'.1 (arcSlot top i buf a l).g ∧ a'.2 = (arcSlot top i buf a l).maxd ∧ a'.2.size = k ∧
      (arcSlot top i buf a l).g.n = a.g.n := by
  have e1 := hb.idx_d l (by omega)
  by_cases hs : (buf.getD l (0, 0)).1 = top
  · rw [arcSlot_neg' top i buf a l hs]
    refine ⟨(sg, md), ?_, r, hmd, hsz, rfl⟩
    simp only [slotBody, e1, hs, ne_eq, not_true_eq_false, decide_false, Bool.false_eq_true, if_false,
      Option.bind_eq_bind, Option.bind_some, Option.pure_def]
  · rw [arcSlot_pos' top i buf a l hs]
    subst hmd
    have e2 := hb.idx_n l (by omega) hs
    have e3 := r.idx_radius hi
    have e4 := r.idx_adj hi
    have e5 : Py.idx a.maxd (l : Int) = some (a.maxd.getD l 0) := by
      rw [HeapRefine.idx_nat]; exact getq_getD _ _ _ (by omega)
    have e6 : ∀ v, Py.setIdx sg.radius (i : Int) v = some (sg.radius.setIfInBounds i v) :=
      fun v => HeapRefine.setIdx_nat _ _ _ (by rw [r.sz_radius]; exact hi)
    have e7 : ∀ v, Py.setIdx a.maxd (l : Int) v = some (a.maxd.setIfInBounds l v) :=
      fun v => HeapRefine.setIdx_nat _ _ _ (by omega)
    have e8 : ∀ v, Py.setIdx sg.adjacency (i : Int) v = some (sg.adjacency.setIfInBounds i v) :=
      fun v => HeapRefine.setIdx_nat _ _ _ (by rw [r.sz_adj]; exact hi)
    have eb := r.bound
    have hrd : sg.radius.getD i 0 = a.g.radius.getD i 0 := getD_of_getq _ _ _ _ (r.radius i hi)
    generalize buf.getD l (0, 0) = s at *
    have hrad : (if s.1 > a.g.radius.getD i 0 then sg.radius.setIfInBounds i s.1 else sg.radius) =
        sg.radius.setIfInBounds i (if s.1 > a.g.radius.getD i 0 then s.1 else a.g.radius.getD i 0) := by
      by_cases c : s.1 > a.g.radius.getD i 0
      · rw [if_pos c, if_pos c]
      · rw [if_neg c, if_neg c, ← hrd, set_self]
    have hmx : (if s.1 > a.maxd.getD l 0 then a.maxd.setIfInBounds l s.1 else a.maxd) =
        a.maxd.setIfInBounds l (if s.1 > a.maxd.getD l 0 then s.1 else a.maxd.getD l 0) := by
      by_cases c : s.1 > a.maxd.getD l 0
      · rw [if_pos c, if_pos c]
      · rw [if_neg c, if_neg c, set_self]
    refine ⟨({ sg with
        density := if s.1 > a.g.bound then s.1 else a.g.bound,
        radius := if s.1 > a.g.radius.getD i 0 then sg.radius.setIfInBounds i s.1 else sg.radius,
        adjacency := sg.adjacency.setIfInBounds i (#[(s.2 : Int)] ++ adjInt (a.g.adj.getD i [])) },
      if s.1 > a.maxd.getD l 0 then a.maxd.setIfInBounds l s.1 else a.maxd), ?_, ?_, ?_, ?_, rfl⟩
    · by_cases c1 : s.1 > a.g.bound <;> by_cases c2 : s.1 > a.g.radius.getD i 0 <;>
        by_cases c3 : s.1 > a.maxd.getD l 0 <;>
      simp only [slotBody, e1, e2, e3, e4, e5, e6, e7, e8, eb, hs, c1, c2, c3, ne_eq, not_false_eq_true,
        decide_true, decide_false, Bool.false_eq_true, if_true, if_false, Option.bind_eq_bind,
        Option.bind_some, Option.pure_def]
    · show RelA _ _
      rw [hrad]
      exact r.slot hi _ _ _
    · exact hmx
    · show (if _ then _ else _ : Array Int).size = k
      rw [hmx, Array.size_setIfInBounds]; exact hsz

/-! ### `for l in range(k-1, -1, -1)` -/

theorem foldl_range_rev {τ : Type} (f : τ → Nat → τ) : ∀ (k : Nat) (b : τ),
    (List.range k).foldl (fun b q => f b (k - 1 - q)) b = (List.range k).reverse.foldl f b := by
  intro k
  induction k with
  | zero => intro b; rfl
  | succ k ih =>
    intro b
    rw [List.range_succ, List.reverse_append, List.reverse_cons, List.reverse_nil, List.nil_append,
      List.singleton_append, List.foldl_cons, ← ih, ← List.range_succ, List.range_succ_eq_map,
      List.foldl_cons, List.foldl_map]
    have : (fun (x : τ) (y : Nat) => f x (k + 1 - 1 - Nat.succ y)) = (fun b q => f b (k - 1 - q)) := by
      funext x y
      have : k + 1 - 1 - Nat.succ y = k - 1 - y := by omega
      rw [this]
    rw [this]
    rfl

theorem forDown_refines {σ τ : Type} (R : σ → τ → Prop) (body : Int → σ → Option σ)
    (step : τ → Nat → τ) (k : Nat)
    (hstep : ∀ l, l < k → ∀ a b, R a b → ∃ a', body (l : Int) a = some a' ∧ R a' (step b l))
    (a : σ) (b : τ) (h : R a b) :
    ∃ a', Py.forDown ((k : Int) - 1) (-1) body a = some a' ∧
      R a' ((List.range k).reverse.foldl step b) := by
  have hk : ((k : Int) - 1 - -1).toNat = k := by omega
  unfold Py.forDown
  rw [hk, ← foldl_range_rev]
  exact foldlM_range_refines (fun _ => R) (fun q s => body ((k : Int) - 1 - (q : Int)) s)
    (fun b q => step b (k - 1 - q)) k
    (fun q hq a b hab => by
      have e : (k : Int) - 1 - (q : Int) = ((k - 1 - q : Nat) : Int) := by omega
      show ∃ a', body ((k : Int) - 1 - (q : Int)) a = some a' ∧ _
      rw [e]
      exact hstep (k - 1 - q) (by omega) a b hab)
    k (Nat.le_refl k) a b h

/-! ### one node `i` -/

/-- invariant of `for i in range(n_nodes)`. -/
structure NInv (k n : Nat) (st : Array Int × Array Int × ASG × Array Int) (a : ArcAcc) : Prop where
  sd : st.1.size = k + 1
  sn : st.2.1.size = k + 1
  rel : RelA st.2.2.1 a.g
  md : st.2.2.2 = a.maxd
  msz : st.2.2.2.size = k
  gn : a.g.n = n

theorem arcNode_eq (w : Nat → Nat → Int) (top : Int) (k : Nat) (a : ArcAcc) (i : Nat) :
    arcNode w top k a i =
      ((List.range k).reverse).foldl
        (arcSlot top i (scan k top (w i) ((List.range a.g.n).filter (· ≠ i))))
        { a with g := { a.g with radius := a.g.radius.setIfInBounds i 0,
                                 nplat := a.g.nplat.setIfInBounds i 0 } } := rfl

theorem nodeBody_step (W : Int → Int → Option Int) (w : Nat → Nat → Int) (n : Nat)
    (hW : WAgree n W w) (top : Int) (k i : Nat) (hi : i < n)
    (st : Array Int × Array Int × ASG × Array Int) (a : ArcAcc) (h : NInv k n st a) :
    ∃ st', nodeBody W top (k : Int) (i : Int) st = some st' ∧ NInv k n st' (arcNode w top k a i) := by
  obtain ⟨d, ni, sg, md⟩ := st
  obtain ⟨hd, hn, r, hmd, hsz, gn⟩ := h
  simp only at hd hn r hmd hsz
  subst gn
  have en : sg.n_nodes = (a.g.n : Int) := r.n
  obtain ⟨ni', d', es, hb⟩ := scan_refines W w a.g.n hW top k i hi d ni hd hn
  have e1 : Py.setIdx sg.radius (i : Int) 0 = some (sg.radius.setIfInBounds i 0) :=
    HeapRefine.setIdx_nat _ _ _ (by rw [r.sz_radius]; exact hi)
  have e2 : Py.setIdx sg.n_plateaus (i : Int) 0 = some (sg.n_plateaus.setIfInBounds i 0) :=
    HeapRefine.setIdx_nat _ _ _ (by rw [r.sz_nplat]; exact hi)
  have r1 : RelA { sg with radius := sg.radius.setIfInBounds i 0,
                           n_plateaus := sg.n_plateaus.setIfInBounds i 0 }
      { a.g with radius := a.g.radius.setIfInBounds i 0, nplat := a.g.nplat.setIfInBounds i 0 } :=
    (r.set_radius hi 0).set_nplat hi 0
  rw [arcNode_eq]
  obtain ⟨a', el, rl, ml, sl, nl⟩ := forDown_refines
    (fun (s : ASG × Array Int) (b : ArcAcc) =>
      RelA s.1 b.g ∧ s.2 = b.maxd ∧ s.2.size = k ∧ b.g.n = a.g.n)
    (slotBody top d' ni' (i : Int))
    (arcSlot top i (scan k top (w i) ((List.range a.g.n).filter (· ≠ i)))) k
    (fun l hl s b hsb => by
      obtain ⟨q1, q2, q3, q4⟩ := hsb
      obtain ⟨s', f1, f2, f3, f4, f5⟩ := slotBody_step top k i l d' ni' _ hb hl s.1 s.2 b q1
        (by rw [q4]; exact hi) q2 q3
      exact ⟨s', f1, f2, f3, f4, by rw [f5]; exact q4⟩)
    ({ sg with radius := sg.radius.setIfInBounds i 0,
               n_plateaus := sg.n_plateaus.setIfInBounds i 0 }, md)
    { a with g := { a.g with radius := a.g.radius.setIfInBounds i 0,
                             nplat := a.g.nplat.setIfInBounds i 0 } }
    ⟨r1, hmd, hsz, rfl⟩
  refine ⟨(d', ni', a'.1, a'.2), ?_, ⟨hb.sd, hb.sn, rl, ml, sl, nl⟩⟩
  simp only [en] at el
  simp only [nodeBody, en, es, e1, e2, el, Int.lt_irrefl, decide_false, Bool.false_eq_true, if_false,
    Option.bind_eq_bind, Option.bind_some, Option.pure_def]

/-! ### the whole methods -/

/-- `create_arcs(k)` for every subgraph (fresh or re-used: any prior adjacency, radii, plateaus and
density bound), every `k` and every weight function: the translated code raises nothing, its
loops terminate, it returns the model's `max_distances` and leaves the model's state.
`top` = `FLOAT_MAX`, `tiny` = the literal `0.00001`, `one` = the literal `1` (encoded). -/
theorem create_arcs_refines (W : Int → Int → Option Int) (w : Nat → Nat → Int) (top tiny one : Int)
    (sg : ASG) (g : KnnSub) (k : Nat) (hr : RelA sg g) (hW : WAgree g.n W w) :
    ∃ sg' md, create_arcs W top tiny one sg (k : Int) = some (sg', md) ∧
      RelA sg' (createArcs w top tiny one k g).1 ∧ md = (createArcs w top tiny one k g).2 := by
  have en : sg.n_nodes = (g.n : Int) := hr.n
  have ek1 : ((k : Int) + 1).toNat = k + 1 := by omega
  have h0 : NInv k g.n (Py.replicate ((k : Int) + 1) 0, Py.replicate ((k : Int) + 1) 0, sg,
      Py.replicate (k : Int) 0) { g := g, maxd := Array.replicate k 0 } :=
    ⟨by simp [Py.replicate, ek1], by simp [Py.replicate, ek1], hr, by simp [Py.replicate],
      by simp [Py.replicate], rfl⟩
  obtain ⟨st, e, hI⟩ := forRange_refines (fun _ => NInv k g.n) (nodeBody W top (k : Int))
    (arcNode w top k) g.n (fun i hi st a h => nodeBody_step W w g.n hW top k i hi st a h) _ _ h0
  obtain ⟨d', ni', sg1, md1⟩ := st
  obtain ⟨_, _, r, hmd, _, _⟩ := hI
  simp only at r hmd
  have hc : createArcs w top tiny one k g =
      ({ ((List.range g.n).foldl (arcNode w top k) { g := g, maxd := Array.replicate k 0 }).g with
          bound := if ((List.range g.n).foldl (arcNode w top k)
              { g := g, maxd := Array.replicate k 0 }).g.bound < tiny then one
            else ((List.range g.n).foldl (arcNode w top k)
              { g := g, maxd := Array.replicate k 0 }).g.bound },
        ((List.range g.n).foldl (arcNode w top k) { g := g, maxd := Array.replicate k 0 }).maxd) := rfl
  rw [hc]
  generalize (List.range g.n).foldl (arcNode w top k) { g := g, maxd := Array.replicate k 0 } = A
    at r hmd ⊢
  have eb := r.bound
  refine ⟨{ sg1 with density := if A.g.bound < tiny then one else A.g.bound }, md1, ?_,
    r.set_bound _, hmd⟩
  rw [create_arcs_eq]
  by_cases c : A.g.bound < tiny
  · simp only [en, e, eb, c, decide_true, if_true, Option.bind_eq_bind, Option.bind_some,
      Option.pure_def]
  · simp only [en, e, eb, c, decide_false, Bool.false_eq_true, if_false, Option.bind_eq_bind,
      Option.bind_some, Option.pure_def]
    rw [← eb]

/-- invariant of the loop of `destroy_arcs`. -/
structure DInv (sg0 : ASG) (n q : Nat) (sg : ASG) : Prop where
  nn : sg.n_nodes = sg0.n_nodes
  dens : sg.density = sg0.density
  rad : sg.radius = sg0.radius
  sz_adj : sg.adjacency.size = n
  sz_nplat : sg.n_plateaus.size = n
  adj : ∀ x, x < q → sg.adjacency[x]? = some #[]
  nplat : ∀ x, x < q → sg.n_plateaus[x]? = some 0

theorem destroyBody_step (sg0 : ASG) (n q : Nat) (hq : q < n) (sg : ASG) (h : DInv sg0 n q sg) :
    ∃ sg', destroyBody (q : Int) sg = some sg' ∧ DInv sg0 n (q + 1) sg' := by
  have e1 : Py.setIdx sg.n_plateaus (q : Int) 0 = some (sg.n_plateaus.setIfInBounds q 0) :=
    HeapRefine.setIdx_nat _ _ _ (by rw [h.sz_nplat]; exact hq)
  have e2 : Py.setIdx sg.adjacency (q : Int) #[] = some (sg.adjacency.setIfInBounds q #[]) :=
    HeapRefine.setIdx_nat _ _ _ (by rw [h.sz_adj]; exact hq)
  refine ⟨{ sg with n_plateaus := sg.n_plateaus.setIfInBounds q 0,
                    adjacency := sg.adjacency.setIfInBounds q #[] }, ?_,
    ⟨h.nn, h.dens, h.rad, size_set _ _ _ _ h.sz_adj, size_set _ _ _ _ h.sz_nplat, ?_, ?_⟩⟩
  · simp only [destroyBody, e1, e2, Int.lt_irrefl, decide_false, Bool.false_eq_true, if_false,
      Option.bind_eq_bind, Option.bind_some, Option.pure_def]
  · intro x hx
    show (sg.adjacency.setIfInBounds q #[])[x]? = some #[]
    rw [getq_set _ _ _ _ (by rw [h.sz_adj]; exact hq)]
    by_cases e : x = q
    · rw [if_pos e]
    · rw [if_neg e]; exact h.adj x (by omega)
  · intro x hx
    show (sg.n_plateaus.setIfInBounds q 0)[x]? = some 0
    rw [getq_set _ _ _ _ (by rw [h.sz_nplat]; exact hq)]
    by_cases e : x = q
    · rw [if_pos e]
    · rw [if_neg e]; exact h.nplat x (by omega)

/-- `destroy_arcs()`. -/
theorem destroy_arcs_refines (sg : ASG) (g : KnnSub) (hr : RelA sg g) :
    ∃ sg', destroy_arcs sg = some (sg', ()) ∧ RelA sg' (destroyArcs g) := by
  have en : sg.n_nodes = (g.n : Int) := hr.n
  obtain ⟨sg', e, hI⟩ := forRange_refines (fun q (s : ASG) (_ : Unit) => DInv sg g.n q s) destroyBody
    (fun _ _ => ()) g.n (fun q hq s _ h => destroyBody_step sg g.n q hq s h) sg ()
    ⟨rfl, rfl, rfl, hr.sz_adj, hr.sz_nplat, fun x hx => absurd hx (Nat.not_lt_zero x),
      fun x hx => absurd hx (Nat.not_lt_zero x)⟩
  refine ⟨sg', ?_, ?_⟩
  · rw [destroy_arcs_eq]
    simp only [en, e, Option.bind_eq_bind, Option.bind_some, Option.pure_def]
  · refine ⟨by rw [hI.nn]; exact hr.n, by rw [hI.dens]; exact hr.bound, hI.sz_adj,
      by rw [hI.rad]; exact hr.sz_radius, hI.sz_nplat, by simp [destroyArcs], hr.gsz_radius,
      by simp [destroyArcs], ?_, ?_, ?_⟩
    · intro x hx
      have hx' : x < g.n := hx
      show sg'.adjacency[x]? = some (adjInt ((Array.replicate g.n ([] : List Nat)).getD x []))
      rw [hI.adj x hx', getD_repl _ _ _ _ hx']
      rfl
    · intro x hx
      rw [hI.rad]; exact hr.radius x hx
    · intro x hx
      have hx' : x < g.n := hx
      show sg'.n_plateaus[x]? = some (((Array.replicate g.n (0 : Nat)).getD x 0 : Nat) : Int)
      rw [hI.nplat x hx', getD_repl _ _ _ _ hx']
      rfl

end Opf.ArcsRefine
