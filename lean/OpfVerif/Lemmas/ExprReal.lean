/-
Real-number semantics of the expression language of `Model/Expr.lean` (the meaning of the numpy
expression the source denotes, DESIGN §4 C06 "Remainder": IEEE rounding is not modelled here).
`x y : Fin n → ℝ` are the two argument vectors; for a function wrapped by `avoid_zero_division`
the caller passes `x + ε`, `y + ε` (see `shifted`).
-/
import Mathlib.Analysis.Real.Sqrt
import Mathlib.Analysis.SpecialFunctions.Log.Basic
import Mathlib.Analysis.SpecialFunctions.Exp
import Mathlib.Algebra.BigOperators.Fin
import OpfVerif.Model.Expr
namespace Opf
open scoped BigOperators

/-- the decimal literal `m · 10^e`. -/
noncomputable def litR (m e : Int) : ℝ := (m : ℝ) * (10 : ℝ) ^ e

namespace V
noncomputable def evalR {n : Nat} (x y : Fin n → ℝ) (i : Fin n) : V → ℝ
  | .x => x i
  | .y => y i
  | .lit m e => litR m e
  | .add a b => a.evalR x y i + b.evalR x y i
  | .sub a b => a.evalR x y i - b.evalR x y i
  | .mul a b => a.evalR x y i * b.evalR x y i
  | .div a b => a.evalR x y i / b.evalR x y i
  | .sq a => (a.evalR x y i) ^ 2
  | .sqrt a => Real.sqrt (a.evalR x y i)
  | .abs a => |a.evalR x y i|
  | .log a => Real.log (a.evalR x y i)
  | .min a b => Min.min (a.evalR x y i) (b.evalR x y i)
  | .max a b => Max.max (a.evalR x y i) (b.evalR x y i)
  | .neInd a b => if a.evalR x y i ≠ b.evalR x y i then 1 else 0
  | .iteGe0 c a b => if 0 ≤ c.evalR x y i then a.evalR x y i else b.evalR x y i
end V

namespace S
noncomputable def evalR {n : Nat} (x y : Fin n → ℝ) : S → ℝ
  | .lit m e => litR m e
  | .len => (n : ℝ)
  | .sum v => ∑ i : Fin n, v.evalR x y i
  | .amax v => ⨆ i : Fin n, v.evalR x y i
  | .add a b => a.evalR x y + b.evalR x y
  | .sub a b => a.evalR x y - b.evalR x y
  | .mul a b => a.evalR x y * b.evalR x y
  | .div a b => a.evalR x y / b.evalR x y
  | .neg a => - a.evalR x y
  | .sq a => (a.evalR x y) ^ 2
  | .sqrt a => Real.sqrt (a.evalR x y)
  | .log a => Real.log (a.evalR x y)
  | .exp a => Real.exp (a.evalR x y)
  | .min a b => Min.min (a.evalR x y) (b.evalR x y)
  | .max a b => Max.max (a.evalR x y) (b.evalR x y)
end S

/-- the argument actually passed to a function wrapped by `avoid_zero_division`. -/
noncomputable def shifted {n : Nat} (eps : ℝ) (x : Fin n → ℝ) : Fin n → ℝ := fun i => x i + eps

/-- value of the registered function `name` whose generated body is `body`: arguments shifted by
`ε` when the function is decorated. -/
noncomputable def distR {n : Nat} (decorated : Bool) (eps : ℝ) (body : S) (x y : Fin n → ℝ) : ℝ :=
  if decorated then body.evalR (shifted eps x) (shifted eps y) else body.evalR x y

end Opf
