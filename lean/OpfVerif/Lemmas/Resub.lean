/-
Lemmas for C04 (zero resubstitution error on tie-free data): the link between the two relational
semantics — Prim's algorithm with prototype flagging (`Model/PrimSpec.lean`, theory in
`Lemmas/Prim.lean`) and the competition seeded with the flagged prototypes
(`Model/CompeteSpec.lean`, theory in `Lemmas/Compete.lean`).

Core fact (`ResubSetting.other_class_strict`): for pairwise distinct, positive weights a sample of
another class can never offer `t` a cost as low as the one `t` already gets from its own class.
-/
import OpfVerif.Props.C01
import OpfVerif.Props.C02
import OpfVerif.Props.C01Exec
import OpfVerif.Props.C02Exec
namespace Opf

open PrimInst in
/-- the setting of C04: a finished lawful Prim run `sP` on a tie-free instance `IP` with positive
off-diagonal weights, and a finished lawful competition run `sC` on the instance `IC` that has the
same nodes, weights, labels and `top` and whose seeds are the prototypes flagged by `sP`. -/
structure ResubSetting (IP : PrimInst) (sP : PState) (IC : CompInst)
    (pred0 : Nat → Option Nat) (lab0 : Nat → Nat) (sC : AState) : Prop where
  goodP : IP.Good
  distinct : IP.Distinct
  pos : ∀ p q, p < IP.n → q < IP.n → p ≠ q → 0 < IP.w p q
  reachP : PrimInst.Reach IP sP
  finalP : IP.Final sP
  hn : IC.n = IP.n
  hw : IC.w = IP.w
  htop : IC.top = IP.top
  hlam : IC.lam = IP.lam
  hseed : ∀ x, x < IP.n → IC.seed x = sP.proto x
  goodC : IC.Good
  reachC : CompInst.Reach IC pred0 lab0 sC
  finalC : IC.Final sC

namespace PrimInst

variable {I : PrimInst}

/-- every tree arc on the tree path between `x` and `y` is lighter than `θ` (the hypothesis of
`Tree.conn_of_light`). -/
def Light (I : PrimInst) (s : PState) (θ : Int) (x y : Nat) : Prop :=
  ∀ c pc, s.pred c = some pc → (Anc s c x ∧ ¬ Anc s c y) ∨ (Anc s c y ∧ ¬ Anc s c x) →
    I.w pc c < θ

theorem Light.symm {s : PState} {θ : Int} {x y : Nat} (h : Light I s θ x y) : Light I s θ y x :=
  fun c pc hpc hc => h c pc hpc hc.symm

/-- stepping from `y` to its parent `q` (when `y` is not above `x`): the arc is light and the rest
of the path is light. -/
theorem Light.parent {s : PState} {θ : Int} {x y q : Nat} (h : Light I s θ x y)
    (hq : s.pred y = some q) (hnx : ¬ Anc s y x) : I.w q y < θ ∧ Light I s θ x q := by
  refine ⟨h y q hq (Or.inr ⟨Anc.refl, hnx⟩), ?_⟩
  intro c pc hpc hcase
  apply h c pc hpc
  rcases hcase with ⟨h1, h2⟩ | ⟨h1, h2⟩
  · left
    refine ⟨h1, fun h3 => ?_⟩
    cases h3 with
    | refl => exact hnx h1
    | step hpy h4 => rw [hq] at hpy; cases hpy; exact h2 h4
  · right; exact ⟨Anc.step hq h1, h2⟩

theorem Tree.conn_of_Light {s : PState} (T : I.Tree s) (hg : I.Good) {θ : Int} {x y : Nat}
    (hx : x < I.n) (hy : y < I.n) (h : Light I s θ x y) : Conn I θ x y :=
  T.conn_of_light hg θ _ x y rfl hx hy h

/-- walking along a light tree path whose ends lie in different classes one meets a class
boundary; its near endpoint is a prototype joined to `x` by light arcs only. -/
theorem Tree.proto_of_light {s : PState} (T : I.Tree s) (hg : I.Good) (θ : Int) :
    ∀ m x y, s.order.idxOf x + s.order.idxOf y = m → x < I.n → y < I.n → Light I s θ x y →
      I.lam x ≠ I.lam y → ∃ u, u < I.n ∧ s.proto u = true ∧ Conn I θ x u := by
  intro m
  induction m using Nat.strongRecOn with
  | _ m ih =>
    intro x y hm hx hy hl hlam
    have hxy : x ≠ y := by rintro rfl; exact hlam rfl
    have hne : s.order.idxOf x ≠ s.order.idxOf y := fun e => hxy (T.idx_inj hx e)
    rcases Nat.lt_or_gt_of_ne hne with hlt | hlt
    · -- `y` is the later node: step to its parent `q`
      have hy0 : y ≠ 0 := by rintro rfl; rw [T.idx_zero] at hlt; omega
      obtain ⟨q, hq, hqn, hqlt⟩ := T.par y hy hy0
      have hnx : ¬ Anc s y x := fun h => by have := T.anc_le h; omega
      obtain ⟨_, hl'⟩ := hl.parent hq hnx
      by_cases hxq : I.lam x = I.lam q
      · -- the arc `(q, y)` is a class boundary, `q` is a prototype
        refine ⟨q, hqn, (T.proto q).2 ⟨y, q, hq, ?_, Or.inr rfl⟩, T.conn_of_Light hg hx hqn hl'⟩
        rw [← hxq]; exact Ne.symm hlam
      · exact ih (s.order.idxOf x + s.order.idxOf q) (by omega) x q rfl hx hqn hl' hxq
    · -- `x` is the later node: step to its parent `q`
      have hx0 : x ≠ 0 := by rintro rfl; rw [T.idx_zero] at hlt; omega
      obtain ⟨q, hq, hqn, hqlt⟩ := T.par x hx hx0
      have hny : ¬ Anc s x y := fun h => by have := T.anc_le h; omega
      obtain ⟨hw, hl'⟩ := hl.symm.parent hq hny
      by_cases hxq : I.lam x = I.lam q
      · have hqy : I.lam q ≠ I.lam y := by rw [← hxq]; exact hlam
        obtain ⟨u, hu, hpu, hc⟩ :=
          ih (s.order.idxOf q + s.order.idxOf y) (by omega) q y rfl hqn hy hl'.symm hqy
        refine ⟨u, hu, hpu, Conn.cons hx ?_ hc⟩
        rw [hg.symm x q hx hqn]; exact hw
      · -- the arc `(q, x)` is a class boundary, `x` itself is a prototype
        exact ⟨x, hx, (T.proto x).2 ⟨x, q, hq, hxq, Or.inl rfl⟩, Conn.refl hx⟩

/-- tie-free weights: unless `{u, v}` is itself a tree arc, every tree arc on the tree path between
`u` and `v` is strictly lighter than `w u v`. -/
theorem Tree.light_of_not_arc {s : PState} (T : I.Tree s) (hg : I.Good) (hd : I.Distinct)
    {u v : Nat} (hu : u < I.n) (hv : v < I.n) (hne : u ≠ v) (hnt : ¬ TreeArc s u v) :
    Light I s (I.w u v) u v := by
  intro c pc hpc hcase
  obtain ⟨hcn, hpcn⟩ := T.dom c pc hpc
  have hpcc : pc ≠ c := by
    rintro rfl; have := T.pred_lt hpc; omega
  have hle : I.w pc c ≤ I.w u v := by
    rcases hcase with ⟨h1, h2⟩ | ⟨h1, h2⟩
    · exact T.cycle hg _ c pc u v rfl hu hv hpc h1 h2
    · rw [hg.symm u v hu hv]; exact T.cycle hg _ c pc v u rfl hv hu hpc h1 h2
  have hneq : I.w pc c ≠ I.w u v := by
    intro e
    rcases hd pc c u v hpcn hcn hu hv hpcc hne e with ⟨rfl, rfl⟩ | ⟨rfl, rfl⟩
    · exact hnt (Or.inl hpc)
    · exact hnt (Or.inr hpc)
  omega

/-- for samples of different classes whose arc is not a tree arc, some prototype is connected to
`t` by arcs all strictly lighter than `w s t`. -/
theorem Tree.proto_conn {s : PState} (T : I.Tree s) (hg : I.Good) (hd : I.Distinct)
    {a t : Nat} (ha : a < I.n) (ht : t < I.n) (hlam : I.lam a ≠ I.lam t)
    (hnt : ¬ TreeArc s a t) :
    ∃ u, u < I.n ∧ s.proto u = true ∧ Conn I (I.w a t) u t := by
  have hne : a ≠ t := by rintro rfl; exact hlam rfl
  have hl := (T.light_of_not_arc hg hd ha ht hne hnt).symm
  obtain ⟨u, hu, hpu, hc⟩ := T.proto_of_light hg (I.w a t) _ t a rfl ht ha hl (Ne.symm hlam)
  exact ⟨u, hu, hpu, hc.symm hg⟩

end PrimInst

namespace CompInst

/-- a seed connected to `t` below `θ > 0` (in a Prim instance with the same nodes and weights)
yields a path to `t` of max-arc cost below `θ`. -/
theorem pathCost_of_conn {IP : PrimInst} {IC : CompInst} (hn : IC.n = IP.n) (hw : IC.w = IP.w)
    {θ : Int} (hθ : 0 < θ) {u t : Nat} (hs : IC.seed u = true) (h : PrimInst.Conn IP θ u t) :
    ∃ c, PathCost IC t c ∧ c < θ := by
  induction h with
  | refl hu => exact ⟨0, PathCost.seed (by rw [hn]; exact hu) hs, hθ⟩
  | @arc v x hc hx hlt ih =>
    obtain ⟨c, hpc, hcθ⟩ := ih
    by_cases hxv : x = v
    · subst hxv; exact ⟨c, hpc, hcθ⟩
    · refine ⟨max c (IC.w v x), PathCost.arc hpc (by rw [hn]; exact hx) hxv, ?_⟩
      rw [hw]; omega

end CompInst

namespace ResubSetting

open PrimInst CompInst

variable {IP : PrimInst} {sP : PState} {IC : CompInst} {pred0 : Nat → Option Nat}
  {lab0 : Nat → Nat} {sC : AState}

theorem tree (R : ResubSetting IP sP IC pred0 lab0 sC) : IP.Tree sP :=
  IP.tree_of_final R.goodP R.reachP R.finalP

theorem cinv (R : ResubSetting IP sP IC pred0 lab0 sC) : CInv IC sC :=
  cinv_of_reach IC pred0 lab0 R.goodC R.reachC

theorem cost_nonneg (R : ResubSetting IP sP IC pred0 lab0 sC) (t : Nat) : 0 ≤ sC.cost t :=
  R.cinv.nonneg t

/-- prototypes have cost 0. -/
theorem proto_cost (R : ResubSetting IP sP IC pred0 lab0 sC) {t : Nat} (ht : t < IP.n)
    (hp : sP.proto t = true) : sC.cost t = 0 :=
  (c01_seeds IC pred0 lab0 R.goodC sC R.reachC t (by rw [R.hn]; exact ht)
    (by rw [R.hseed t ht]; exact hp)).1

/-- the core of C04: the best offer a sample `s` of another class can make to `t` is strictly
worse than the cost `t` ends with. -/
theorem other_class_strict (R : ResubSetting IP sP IC pred0 lab0 sC) {s t : Nat}
    (hs : s < IP.n) (ht : t < IP.n) (hlam : IP.lam s ≠ IP.lam t) :
    sC.cost t < max (sC.cost s) (IP.w s t) := by
  have hne : s ≠ t := by rintro rfl; exact hlam rfl
  have hθ : 0 < IP.w s t := R.pos s t hs ht hne
  have T := R.tree
  suffices h : sC.cost t < IP.w s t by omega
  by_cases harc : TreeArc sP s t
  · -- `{s, t}` is a cross-class tree arc: `t` is a prototype
    have hp : sP.proto t = true :=
      (c02_prototypes IP R.goodP sP R.reachP R.finalP t ht).2 ⟨s, hs, harc, hlam⟩
    rw [R.proto_cost ht hp]; exact hθ
  · obtain ⟨u, hu, hpu, hc⟩ := T.proto_conn R.goodP R.distinct hs ht hlam harc
    obtain ⟨c, hpc, hcθ⟩ :=
      pathCost_of_conn R.hn R.hw hθ (by rw [R.hseed u hu]; exact hpu) hc
    have := (c01_cost_optimal IC pred0 lab0 R.goodC sC R.reachC R.finalC t
      (by rw [R.hn]; exact ht)).2 c hpc
    omega

end ResubSetting
/-! ### the executable model `fitRun` is an instance of the setting -/

/-- hypotheses of the executable-level statement: tie-free, positive, symmetric weights below
`top` on the `lab.size` training samples, at least two classes. -/
structure TieFree (w : Nat → Nat → Int) (top : Int) (lab : Array Nat) : Prop where
  symm : ∀ p q, p < lab.size → q < lab.size → w p q = w q p
  lt_top : ∀ p q, p < lab.size → q < lab.size → w p q < top
  pos : ∀ p q, p < lab.size → q < lab.size → p ≠ q → 0 < w p q
  diag : ∀ p, p < lab.size → 0 ≤ w p p
  distinct : ∀ a b c d, a < lab.size → b < lab.size → c < lab.size → d < lab.size → a ≠ b → c ≠ d →
    w a b = w c d → (a = c ∧ b = d) ∨ (a = d ∧ b = c)
  two : ∃ a b, a < lab.size ∧ b < lab.size ∧ lab.getD a 0 ≠ lab.getD b 0

theorem Forest.init_sized (lab : Array Nat) : (Forest.init lab).Sized := by
  constructor <;> simp [Forest.init]

theorem Forest.init_fresh (lab : Array Nat) (x : Nat) :
    (Forest.init lab).predOf x = none ∧ (Forest.init lab).isProto x = false := by
  simp only [Forest.init, Forest.predOf, Forest.isProto, Array.getD_eq_getD_getElem?,
    Array.getElem?_replicate]
  constructor <;> split <;> rfl

/-- `fitRun` on tie-free data is an instance of the setting of C04: both phases replay as finished
lawful runs, the second seeded with the prototypes flagged by the first, and the recorded costs,
labels and conquest order are those of the final abstract competition state. -/
theorem fitRun_resub (w : Nat → Nat → Int) (top : Int) (lab : Array Nat) (H : TieFree w top lab) :
    ∃ IP sP IC pred0 lab0 sC, ResubSetting IP sP IC pred0 lab0 sC ∧ IP.n = lab.size ∧ IP.w = w ∧
      IP.lam = (fun x => lab.getD x 0) ∧
      (fitRun w top false lab.size lab).f.n = lab.size ∧
      (fitRun w top false lab.size lab).f.order.toList = sC.order ∧
      ∀ x, x < lab.size → (fitRun w top false lab.size lab).f.costOf x = sC.cost x ∧
        (fitRun w top false lab.size lab).f.plabelOf x = sC.lab x := by
  have hsz := Forest.init_sized lab
  have hn0 : (Forest.init lab).n = lab.size := rfl
  have hgP : (primInstOf w top lab.size (Forest.init lab)).Good := by
    obtain ⟨a, _, ha, _, _⟩ := H.two
    exact ⟨by show 0 < lab.size; omega, H.symm, H.lt_top⟩
  obtain ⟨picks, sP, hrunP, hfinP, _, hfieldsP, _, hlabel, _, horder, hn1, hsz1⟩ :=
    c02_exec w top lab.size (Forest.init lab) hsz (Nat.le_refl _) (Forest.init_fresh lab) hgP
  have hreachP := PrimInst.runPicks_reach _ _ PrimInst.Reach.init picks sP hrunP
  have hfinalP := PrimInst.isFinal_final _ sP hfinP
  have hlabOf : (primRun w top lab.size (Forest.init lab)).f.labelOf = fun x => lab.getD x 0 := by
    funext x; simp only [Forest.labelOf, hlabel]; rfl
  have hgC : (compInstOf w top (primRun w top lab.size (Forest.init lab)).f).Good := by
    obtain ⟨a, b, ha, hb, hab⟩ := H.two
    have hne : a ≠ b := by rintro rfl; exact hab rfl
    refine ⟨?_, ?_, ?_, ?_⟩
    · show 0 < top
      have := H.pos a b ha hb hne; have := H.lt_top a b ha hb; omega
    · intro p q hp hq
      have hp' : p < lab.size := by simpa [compInstOf, hn1, hn0] using hp
      have hq' : q < lab.size := by simpa [compInstOf, hn1, hn0] using hq
      by_cases hpq : p = q
      · subst hpq; exact H.diag p hp'
      · exact Int.le_of_lt (H.pos p q hp' hq' hpq)
    · intro p q hp hq
      have hp' : p < lab.size := by simpa [compInstOf, hn1, hn0] using hp
      have hq' : q < lab.size := by simpa [compInstOf, hn1, hn0] using hq
      exact H.lt_top p q hp' hq'
    · obtain ⟨p, hp, hpp, _⟩ := PrimInst.c02_every_class _ hgP sP hreachP hfinalP
        ⟨a, b, ha, hb, hab⟩ a ha
      refine ⟨p, by show p < (primRun w top lab.size (Forest.init lab)).f.n; rw [hn1]; exact hp, ?_⟩
      show (primRun w top lab.size (Forest.init lab)).f.isProto p = true
      rw [(hfieldsP p hp).2]; exact hpp
  obtain ⟨sC, hrunC, hfinC, _, hordC, hfieldsC, _, hn2⟩ :=
    c01_exec w top false _ hsz1 (by rw [horder]; rfl) hgC
  have hreachC := CompInst.runPicks_reach _ _ _ _ CompInst.Reach.init _ sC hrunC
  have hfinalC := CompInst.isFinal_final _ sC hfinC
  refine ⟨primInstOf w top lab.size (Forest.init lab), sP,
    compInstOf w top (primRun w top lab.size (Forest.init lab)).f, _, _, sC,
    ⟨hgP, H.distinct, H.pos, hreachP, hfinalP, by simp [compInstOf, primInstOf, hn1, hn0], rfl, rfl,
      ?_, ?_, hgC, hreachC, hfinalC⟩, rfl, rfl, rfl, ?_, hordC, ?_⟩
  · show (primRun w top lab.size (Forest.init lab)).f.labelOf = (Forest.init lab).labelOf
    rw [hlabOf]; rfl
  · intro x hx; exact (hfieldsP x hx).2
  · show (competeRun w top false (primRun w top lab.size (Forest.init lab)).f).f.n = lab.size
    rw [hn2, hn1]; rfl
  · intro x hx
    have := hfieldsC x (by rw [hn1]; exact hx)
    exact ⟨this.1, this.2.2⟩

/-! ### non-vacuity: a concrete tie-free instance with both runs -/

/-- 4 samples, classes `{0, 1}` and `{2, 3}`, pairwise distinct positive distances; the minimum
spanning tree is 0–1, 1–2, 2–3, so the prototypes are 1 and 2. -/
def c04W (a b : Nat) : Int :=
  (([[0, 1, 4, 6], [1, 0, 3, 5], [4, 3, 0, 2], [6, 5, 2, 0]] : List (List Int)).getD a []).getD b 0

def c04IP : PrimInst := { n := 4, w := c04W, lam := fun x => if x < 2 then 0 else 1, top := 10 }
def c04SP : PState := c04IP.fire (c04IP.fire (c04IP.fire (c04IP.fire c04IP.init 0) 1) 2) 3
def c04IC : CompInst := { n := 4, w := c04W, seed := c04SP.proto, lam := c04IP.lam, top := 10 }
def c04SC : AState :=
  c04IC.fire (c04IC.fire (c04IC.fire (c04IC.fire (c04IC.init c04SP.pred (fun _ => 0)) 1) 2) 0) 3

theorem c04_demo_setting : ResubSetting c04IP c04SP c04IC c04SP.pred (fun _ => 0) c04SC where
  goodP := by
    refine ⟨by decide, ?_, ?_⟩
    · have : ∀ p, p < 4 → ∀ q, q < 4 → c04W p q = c04W q p := by decide
      exact fun p q hp hq => this p hp q hq
    · have : ∀ p, p < 4 → ∀ q, q < 4 → c04W p q < 10 := by decide
      exact fun p q hp hq => this p hp q hq
  distinct := by
    have : ∀ a b c d : Fin 4, (a.1 = b.1 ∨ c.1 = d.1 ∨
        c04W a.1 b.1 ≠ c04W c.1 d.1 ∨ (a.1 = c.1 ∧ b.1 = d.1) ∨ (a.1 = d.1 ∧ b.1 = c.1)) := by decide
    intro a b c d ha hb hc hd hab hcd he
    rcases this ⟨a, ha⟩ ⟨b, hb⟩ ⟨c, hc⟩ ⟨d, hd⟩ with h | h | h | h
    · exact absurd h hab
    · exact absurd h hcd
    · exact absurd he h
    · exact h
  pos := by
    have : ∀ p, p < 4 → ∀ q, q < 4 → p ≠ q → 0 < c04W p q := by decide
    exact fun p q hp hq => this p hp q hq
  reachP :=
    PrimInst.runPicks_reach c04IP _ PrimInst.Reach.init [0, 1, 2, 3] c04SP rfl
  finalP := PrimInst.isFinal_final _ _ (by decide)
  hn := rfl
  hw := rfl
  htop := rfl
  hlam := rfl
  hseed := fun _ _ => rfl
  goodC := by
    refine ⟨by decide, ?_, ?_, ⟨1, by decide, by decide⟩⟩
    · have : ∀ p, p < 4 → ∀ q, q < 4 → 0 ≤ c04W p q := by decide
      exact fun p q hp hq => this p hp q hq
    · have : ∀ p, p < 4 → ∀ q, q < 4 → c04W p q < 10 := by decide
      exact fun p q hp hq => this p hp q hq
  reachC :=
    CompInst.runPicks_reach c04IC _ _ _ CompInst.Reach.init [1, 2, 0, 3] c04SC rfl
  finalC := CompInst.isFinal_final _ _ (by decide)

/-- the same data as input of the executable model: the hypotheses of `c04_exec` are satisfiable. -/
theorem c04_demo_tiefree : TieFree c04W 10 #[0, 0, 1, 1] where
  symm := by
    have : ∀ p q : Fin 4, c04W p.1 q.1 = c04W q.1 p.1 := by decide
    exact fun p q hp hq => this ⟨p, hp⟩ ⟨q, hq⟩
  lt_top := by
    have : ∀ p q : Fin 4, c04W p.1 q.1 < 10 := by decide
    exact fun p q hp hq => this ⟨p, hp⟩ ⟨q, hq⟩
  pos := by
    have : ∀ p q : Fin 4, p.1 ≠ q.1 → 0 < c04W p.1 q.1 := by decide
    exact fun p q hp hq => this ⟨p, hp⟩ ⟨q, hq⟩
  diag := by
    have : ∀ p : Fin 4, 0 ≤ c04W p.1 p.1 := by decide
    exact fun p hp => this ⟨p, hp⟩
  distinct := c04_demo_setting.distinct
  two := ⟨0, 2, by decide, by decide, by decide⟩

end Opf
