/-
`FSym fo`: encoded doubles carrying the UNINTERPRETED float operations `fo : Py.FOps`, as an instance
of the operation classes over which the arithmetic models (`pdfG`, `queryDensityG`, `cutSums`,
`normalizedCutG`) are written.  Order and equality are those of the encodings (order-preserving).
-/
import OpfVerif.Model.PyPrelude
import OpfVerif.Model.Knn
namespace Opf

structure FSym (fo : Py.FOps) where
  val : Int
deriving DecidableEq, Repr

namespace FSym
variable {fo : Py.FOps}
instance : Add (FSym fo) := ⟨fun a b => ⟨fo.add a.val b.val⟩⟩
instance : Sub (FSym fo) := ⟨fun a b => ⟨fo.sub a.val b.val⟩⟩
instance : Mul (FSym fo) := ⟨fun a b => ⟨fo.mul a.val b.val⟩⟩
instance : Div (FSym fo) := ⟨fun a b => ⟨fo.div a.val b.val⟩⟩
instance : LT (FSym fo) := ⟨fun a b => a.val < b.val⟩
instance : DecidableRel (α := FSym fo) (· < ·) := fun a b => inferInstanceAs (Decidable (a.val < b.val))
instance : BEq (FSym fo) := ⟨fun a b => a.val == b.val⟩
/-- an int converted to float. -/
def ofInt (fo : Py.FOps) (n : Int) : FSym fo := ⟨fo.ofInt n⟩
end FSym
end Opf
