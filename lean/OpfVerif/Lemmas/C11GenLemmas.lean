-- helper lemmas for Props/C11Gen.lean
import OpfVerif.Props.C03Gen
import OpfVerif.Props.C11Map
namespace Opf.C11GenLemmas
open Opf Opf.Gen Opf.Gen.SupImp Opf.SupRefine Opf.FitCompose Opf.GenCompose

/-- two arrays of the same size `n` that agree (through `[x]?`) below `n` are equal. -/
theorem arr_ext {α : Type} {a b : Array α} {n : Nat} (ha : a.size = n) (hb : b.size = n)
    (h : ∀ x, x < n → a[x]? = b[x]?) : a = b := by
  apply Array.ext_getElem?
  intro x
  by_cases hx : x < n
  · exact h x hx
  · have h1 : a[x]? = none := Array.getElem?_eq_none (by omega)
    have h2 : b[x]? = none := Array.getElem?_eq_none (by omega)
    rw [h1, h2]

variable {sgA sgB : SG} {FA FB : Forest}

theorem status_eq (rA : RelF sgA FA) (rB : RelF sgB FB) (hn : FB.n = FA.n)
    (h : FB.proto = FA.proto) : sgB.status = sgA.status := by
  refine arr_ext (n := FA.n) (hn ▸ rB.sz_status) rA.sz_status (fun x hx => ?_)
  rw [rB.status x (hn ▸ hx), rA.status x hx]
  unfold Forest.isProto; rw [h]

theorem pred_eq (rA : RelF sgA FA) (rB : RelF sgB FB) (hn : FB.n = FA.n)
    (h : FB.pred = FA.pred) : sgB.pred = sgA.pred := by
  refine arr_ext (n := FA.n) (hn ▸ rB.sz_pred) rA.sz_pred (fun x hx => ?_)
  rw [rB.pred x (hn ▸ hx), rA.pred x hx]
  unfold Forest.predOf; rw [h]

theorem plabel_eq (rA : RelF sgA FA) (rB : RelF sgB FB) (hn : FB.n = FA.n)
    (h : FB.plabel = FA.plabel) : sgB.predicted_label = sgA.predicted_label := by
  refine arr_ext (n := FA.n) (hn ▸ rB.sz_plabel) rA.sz_plabel (fun x hx => ?_)
  rw [rB.plabel x (hn ▸ hx), rA.plabel x hx]
  unfold Forest.plabelOf; rw [h]

theorem order_eq (rA : RelF sgA FA) (rB : RelF sgB FB)
    (h : FB.order = FA.order) : sgB.idx_nodes = sgA.idx_nodes := by
  rw [rB.order, rA.order, h]

theorem relevant_eq (rA : RelF sgA FA) (rB : RelF sgB FB) (hn : FB.n = FA.n)
    (h : FB.relevant = FA.relevant) : sgB.relevant = sgA.relevant := by
  refine arr_ext (n := FA.n) (hn ▸ rB.sz_relevant) rA.sz_relevant (fun x hx => ?_)
  rw [rB.relevant x (hn ▸ hx), rA.relevant x hx, h]

theorem mono_le {φ : Int → Int} (hφ : ∀ a b, a < b → φ a < φ b) {a b : Int} (h : a ≤ b) :
    φ a ≤ φ b := by
  rcases Int.lt_or_eq_of_le h with h | h
  · exact Int.le_of_lt (hφ a b h)
  · rw [h]

end Opf.C11GenLemmas
