/-
Refinement of the translated `SemiSupervisedOPF.fit` (`Gen/SemiImp.lean`) to
`fitRun … (semi := true)`; continues `Lemmas/SupRefineFit.lean`.

Structure:
* `set_append`, `getD_append`, `append_replicate_succ` – arrays extended by default entries;
* `ext`, `PI`, `primRelax_ext` … `primRun_ext` – Prim on the labeled prefix of a forest extended by
  default nodes runs in lockstep with Prim on the short forest (no hypothesis on the weights);
* `pushBody`, `relF_push`, `push_loop` – the loop appending one default node per unlabeled sample;
* `relaxBodySemi`, `semi_fit_eq` (`rfl` against the generated text), `relaxBodySemi_step` – the
  relaxation body with the label overwrite, as a `StepOK … (semi := true)`;
* `semi_fit_refines`, `semi_fit_empty`.
-/
import OpfVerif.Gen.SemiImp
import OpfVerif.Lemmas.SupRefineFit
set_option linter.unusedVariables false
namespace Opf.SupRefine
open Opf Opf.Gen Opf.Gen.SupImp

/-! ### arrays extended by default entries -/

theorem set_append {α : Type} (a b : Array α) (i : Nat) (v : α) (h : i < a.size) :
    (a ++ b).setIfInBounds i v = a.setIfInBounds i v ++ b := by
  apply Array.ext_getElem?
  intro j
  rw [Array.getElem?_setIfInBounds, Array.getElem?_append, Array.getElem?_append,
    Array.getElem?_setIfInBounds, Array.size_setIfInBounds, Array.size_append]
  by_cases e : i = j
  · subst e; simp [h]; omega
  · simp [e]

theorem getD_append {α : Type} (a b : Array α) (i : Nat) (d : α) (h : i < a.size) :
    (a ++ b).getD i d = a.getD i d := by
  simp [Array.getD_eq_getD_getElem?, Array.getElem?_append, h]

theorem append_replicate_succ {α : Type} (a : Array α) (k : Nat) (d : α) :
    a ++ Array.replicate (k + 1) d = (a ++ Array.replicate k d).push d := by
  rw [Array.replicate_succ, Array.append_push]


/-! ### prototype selection on a forest extended by unlabeled (default) nodes -/

/-- `f` followed by `k` default nodes (what `SemiSupervisedOPF.fit` appends per unlabeled sample). -/
def ext (k : Nat) (f : Forest) : Forest :=
  { n := f.n + k, pred := f.pred ++ Array.replicate k none,
    proto := f.proto ++ Array.replicate k false, ncost := f.ncost ++ Array.replicate k 0,
    plabel := f.plabel ++ Array.replicate k 0, label := f.label ++ Array.replicate k 0,
    order := f.order, relevant := f.relevant ++ Array.replicate k false }

def extS (k : Nat) (s : PrimSt) : PrimSt := { h := s.h, f := ext k s.f }

theorem ext_sized (k : Nat) (f : Forest) (hs : f.Sized) : (ext k f).Sized := by
  constructor <;>
    simp only [ext, Array.size_append, Array.size_replicate, hs.size_pred, hs.size_proto,
      hs.size_ncost, hs.size_plabel, hs.size_label]

theorem init_ext (labL : Array Nat) (k : Nat) :
    Forest.init (labL ++ Array.replicate k 0) = ext k (Forest.init labL) := by
  simp only [Forest.init, ext, Array.size_append, Array.size_replicate,
    Array.replicate_append_replicate]

/-- invariant of the Prim loop on the labeled nodes: heap invariant, sizes, and every predecessor
recorded so far is a labeled node. -/
structure PI (nL : Nat) (s : PrimSt) : Prop where
  inv : Heap.Inv s.h
  hsize : s.h.size = nL
  hmax : s.h.isMax = false
  sized : s.f.Sized
  fn : s.f.n = nL
  predlt : ∀ x p, s.f.predOf x = some p → p < nL

theorem primRelax_ext (w : Nat → Nat → Int) (nL k p q : Nat) (hp : p < nL) (hq : q < nL)
    (s : PrimSt) (I : PI nL s) :
    primRelax w p (extS k s) q = extS k (primRelax w p s q) ∧ PI nL (primRelax w p s q) := by
  by_cases hc : s.h.colorOf q ≠ BLACK ∧ p ≠ q ∧ w p q < s.h.costOf q
  · have hc' : (extS k s).h.colorOf q ≠ BLACK ∧ p ≠ q ∧ w p q < (extS k s).h.costOf q := hc
    rw [PrimExec.primRelax_pos hc', PrimExec.primRelax_pos hc]
    have hqs : q < s.h.size := by rw [I.hsize]; exact hq
    have hqp : q < s.f.pred.size := by rw [I.sized.size_pred, I.fn]; exact hq
    constructor
    · show ({ h := s.h.update q (w p q),
              f := { ext k s.f with pred := (s.f.pred ++ Array.replicate k none).setIfInBounds q (some p) } } : PrimSt) = _
      rw [set_append _ _ _ _ hqp]
      rfl
    · have hcontract : s.h.colorOf q = GRAY →
          Heap.better s.h.isMax (s.h.costOf q) (w p q) = false := by
        intro _
        rw [I.hmax, CE.better_false, decide_eq_false_iff_not]
        have := hc.2.2; omega
      obtain ⟨u1, _⟩ := Heap.update_spec s.h q (w p q) I.inv hqs hcontract
      have hsame := PrimExec.same_setPred s.f q (some p)
      refine ⟨u1, ?_, ?_, hsame.sized I.sized, hsame.n.trans I.fn, ?_⟩
      · show (s.h.update q (w p q)).size = nL
        rw [Heap.update_size]; exact I.hsize
      · show (s.h.update q (w p q)).isMax = false
        rw [PrimExec.update_isMax]; exact I.hmax
      · intro x r hx
        rw [PrimExec.predOf_setPred] at hx
        split at hx
        · cases hx; exact hp
        · exact I.predlt x r hx
  · have hc' : ¬ ((extS k s).h.colorOf q ≠ BLACK ∧ p ≠ q ∧ w p q < (extS k s).h.costOf q) := hc
    rw [PrimExec.primRelax_neg hc', PrimExec.primRelax_neg hc]
    exact ⟨rfl, I⟩

theorem primRelax_fold_ext (w : Nat → Nat → Int) (nL k p : Nat) (hp : p < nL) :
    ∀ (l : List Nat), (∀ q, q ∈ l → q < nL) → ∀ (s : PrimSt), PI nL s →
      l.foldl (primRelax w p) (extS k s) = extS k (l.foldl (primRelax w p) s) ∧
      PI nL (l.foldl (primRelax w p) s) := by
  intro l
  induction l with
  | nil => intro _ s I; exact ⟨rfl, I⟩
  | cons q l ih =>
    intro hl s I
    obtain ⟨e1, I1⟩ := primRelax_ext w nL k p q hp (hl q List.mem_cons_self) s I
    rw [List.foldl_cons, List.foldl_cons, e1]
    exact ih (fun x hx => hl x (List.mem_cons_of_mem _ hx)) _ I1

theorem primFlag_ext (k p nL : Nat) (f : Forest) (hs : f.Sized) (hn : f.n = nL) (hp : p < nL)
    (hlt : ∀ x r, f.predOf x = some r → r < nL) :
    primFlag (ext k f) p = ext k (primFlag f p) := by
  have hpp : p < f.pred.size := by rw [hs.size_pred, hn]; exact hp
  have hpl : p < f.label.size := by rw [hs.size_label, hn]; exact hp
  have hpred : (ext k f).predOf p = f.predOf p := getD_append _ _ _ _ hpp
  have hlabp : (ext k f).labelOf p = f.labelOf p := getD_append _ _ _ _ hpl
  cases h : f.predOf p with
  | none =>
    rw [PrimExec.primFlag_none h, PrimExec.primFlag_none (hpred.trans h)]
  | some r =>
    have hr : r < nL := hlt p r h
    have hrl : r < f.label.size := by rw [hs.size_label, hn]; exact hr
    have hlabr : (ext k f).labelOf r = f.labelOf r := getD_append _ _ _ _ hrl
    by_cases hl : f.labelOf p ≠ f.labelOf r
    · have hl' : (ext k f).labelOf p ≠ (ext k f).labelOf r := by rw [hlabp, hlabr]; exact hl
      rw [PrimExec.primFlag_some_ne h hl, PrimExec.primFlag_some_ne (hpred.trans h) hl']
      show ({ ext k f with proto := ((f.proto ++ Array.replicate k false).setIfInBounds p true).setIfInBounds r true } : Forest) = _
      rw [set_append _ _ _ _ (by rw [hs.size_proto, hn]; exact hp),
        set_append _ _ _ _ (by rw [Array.size_setIfInBounds, hs.size_proto, hn]; exact hr)]
      rfl
    · have hl' : ¬ (ext k f).labelOf p ≠ (ext k f).labelOf r := by rw [hlabp, hlabr]; exact hl
      rw [PrimExec.primFlag_some_eq h hl, PrimExec.primFlag_some_eq (hpred.trans h) hl']

theorem primStep_ext (w : Nat → Nat → Int) (nL k : Nat) (s : PrimSt) (I : PI nL s) :
    primStep w nL (extS k s) = (primStep w nL s).map (extS k) ∧
    ∀ s', primStep w nL s = some s' → PI nL s' := by
  rcases hrem : s.h.remove with ⟨h1, o⟩
  cases o with
  | none =>
    have e1 : primStep w nL s = none := by unfold primStep; rw [hrem]
    have e2 : primStep w nL (extS k s) = none := by
      unfold primStep; show (match s.h.remove with | (_, none) => none | (h1, some p) => _) = _
      rw [hrem]
    rw [e1, e2]
    exact ⟨rfl, fun s' h => absurd h (by simp)⟩
  | some p =>
    have hne : 0 < s.h.cnt := by
      rcases Nat.eq_zero_or_pos s.h.cnt with h0 | h0
      · rw [Heap.remove_empty s.h h0] at hrem; cases hrem
      · exact h0
    obtain ⟨x, r1, ⟨r2a, _⟩, _, r4, _⟩ := Heap.remove_spec s.h I.inv hne
    rw [hrem] at r1 r4
    have hxp : x = p := by cases r1; rfl
    subst hxp
    have hp : x < nL := by rw [← I.hsize]; exact r2a
    have hrem' : (extS k s).h.remove = (h1, some x) := hrem
    rw [PrimExec.primStep_some hrem, PrimExec.primStep_some hrem']
    have hsame1 := PrimExec.same_setNcost s.f x (h1.costOf x)
    have hlt1 : ∀ y r, ({ s.f with ncost := s.f.ncost.setIfInBounds x (h1.costOf x) } : Forest).predOf y = some r → r < nL :=
      fun y r h => I.predlt y r h
    have hsame2 := hsame1.trans (PrimExec.primFlag_same _ x)
    have I1 : PI nL { h := h1, f := primFlag { s.f with ncost := s.f.ncost.setIfInBounds x (h1.costOf x) } x } := by
      refine ⟨r4, ?_, ?_, hsame2.sized I.sized, hsame2.n.trans I.fn, ?_⟩
      · have := Heap.remove_size s.h; rw [hrem] at this; exact this.trans I.hsize
      · have := PrimExec.remove_isMax s.h; rw [hrem] at this; exact this.trans I.hmax
      · intro y r h
        rw [PrimExec.primFlag_predOf] at h
        exact hlt1 y r h
    have hstart : ({ h := h1, f := primFlag { (extS k s).f with ncost := (extS k s).f.ncost.setIfInBounds x (h1.costOf x) } x } : PrimSt) =
        extS k { h := h1, f := primFlag { s.f with ncost := s.f.ncost.setIfInBounds x (h1.costOf x) } x } := by
      show ({ h := h1, f := primFlag { ext k s.f with ncost := (s.f.ncost ++ Array.replicate k 0).setIfInBounds x (h1.costOf x) } x } : PrimSt) = _
      rw [set_append _ _ _ _ (by rw [I.sized.size_ncost, I.fn]; exact hp)]
      show ({ h := h1, f := primFlag (ext k { s.f with ncost := s.f.ncost.setIfInBounds x (h1.costOf x) }) x } : PrimSt) = _
      rw [primFlag_ext k x nL _ (hsame1.sized I.sized) (hsame1.n.trans I.fn) hp hlt1]
      rfl
    rw [hstart]
    obtain ⟨e, I2⟩ := primRelax_fold_ext w nL k x hp (List.range nL)
      (fun q hq => List.mem_range.1 hq) _ I1
    rw [e]
    refine ⟨rfl, fun s' h => ?_⟩
    cases h
    exact I2

theorem primLoop_ext (w : Nat → Nat → Int) (nL k : Nat) :
    ∀ fuel (s : PrimSt), PI nL s →
      primLoop w nL fuel (extS k s) = extS k (primLoop w nL fuel s) := by
  intro fuel
  induction fuel with
  | zero => intro s _; rfl
  | succ fuel ih =>
    intro s I
    obtain ⟨e, hI⟩ := primStep_ext w nL k s I
    cases h : primStep w nL s with
    | none =>
      rw [h] at e
      simp only [primLoop, h, e, Option.map_none]
    | some s' =>
      rw [h] at e
      simp only [primLoop, h, e, Option.map_some]
      exact ih s' (hI s' h)

theorem primRun_ext (w : Nat → Nat → Int) (top : Int) (k : Nat) (f : Forest) (hs : f.Sized)
    (hpos : 0 < f.n) (hnone : ∀ x, f.predOf x = none) :
    (primRun w top f.n (ext k f)).f = ext k (primRun w top f.n f).f := by
  have h0 : 0 < f.pred.size := by rw [hs.size_pred]; exact hpos
  have hi := Heap.insert_spec (Heap.init f.n false top) 0 (Heap.inv_init _ _ _) hpos
    (Heap.init_colorOf _ _ _ _)
  have I0 : PI f.n { h := ((Heap.init f.n false top).insert 0).1,
                     f := { f with pred := f.pred.setIfInBounds 0 none } } := by
    have hsame := PrimExec.same_setPred f 0 none
    refine ⟨hi.2.1, ?_, ?_, hsame.sized hs, hsame.n, ?_⟩
    · show ((Heap.init f.n false top).insert 0).1.size = f.n
      rw [Heap.insert_size]; rfl
    · show ((Heap.init f.n false top).insert 0).1.isMax = false
      rw [PrimExec.insert_isMax]; rfl
    · intro x r h
      rw [PrimExec.predOf_setPred] at h
      split at h
      · cases h
      · rw [hnone x] at h; cases h
  have hstart : ({ h := ((Heap.init f.n false top).insert 0).1,
                   f := { ext k f with pred := (ext k f).pred.setIfInBounds 0 none } } : PrimSt) =
      extS k { h := ((Heap.init f.n false top).insert 0).1,
               f := { f with pred := f.pred.setIfInBounds 0 none } } := by
    show ({ h := _, f := { ext k f with pred := (f.pred ++ Array.replicate k none).setIfInBounds 0 none } } : PrimSt) = _
    rw [set_append _ _ _ _ h0]
    rfl
  show (primLoop w f.n (f.n + 1) _).f = ext k (primLoop w f.n (f.n + 1) _).f
  rw [hstart, primLoop_ext w f.n k (f.n + 1) _ I0]
  rfl


/-! ### the loop that appends the unlabeled nodes -/

/-- one more default node at the end. -/
def ext1 (f : Forest) : Forest :=
  { n := f.n + 1, pred := f.pred.push none, proto := f.proto.push false,
    ncost := f.ncost.push 0, plabel := f.plabel.push 0, label := f.label.push 0,
    order := f.order, relevant := f.relevant.push false }

theorem ext_succ (k : Nat) (f : Forest) : ext (k + 1) f = ext1 (ext k f) := by
  simp only [ext, ext1, append_replicate_succ, Nat.add_assoc]

theorem fold_ext1 (f : Forest) : ∀ k, (List.range k).foldl (fun b _ => ext1 b) f = ext k f := by
  intro k
  induction k with
  | zero => simp [ext]
  | succ k ih =>
    rw [List.range_succ, List.foldl_append, ih, ext_succ]
    rfl

theorem ext1_sized (f : Forest) (hs : f.Sized) : (ext1 f).Sized := by
  constructor <;>
    simp only [ext1, Array.size_push, hs.size_pred, hs.size_proto,
      hs.size_ncost, hs.size_plabel, hs.size_label]

/-- body of `for i in range(len(X_unlabeled))` of `SemiSupervisedOPF.fit`. -/
def pushBody : Int → SG → Option SG :=
    (fun i sg => (do
      let _g ← (if (decide ((-1 : Int) < (-1 : Int))) then none else pure ())
      let sg := { sg with pred := sg.pred.push (-1 : Int) }
      let _g ← (if (!([(1 : Int), (0 : Int)].contains (0 : Int))) then none else pure ())
      let sg := { sg with relevant := sg.relevant.push (0 : Int) }
      let sg := { sg with cost := sg.cost.push (0 : Int) }
      let _g ← (if (decide ((0 : Int) < (0 : Int))) then none else pure ())
      let sg := { sg with label := sg.label.push (0 : Int) }
      let _g ← (if (!([(0 : Int), (1 : Int)].contains (0 : Int))) then none else pure ())
      let sg := { sg with status := sg.status.push (0 : Int) }
      let _g ← (if (decide ((0 : Int) < (0 : Int))) then none else pure ())
      let sg := { sg with predicted_label := sg.predicted_label.push (0 : Int) }
      let sg := { sg with n_nodes := sg.n_nodes + 1 }
      pure sg))

def pushSG (sg : SG) : SG :=
  { sg with pred := sg.pred.push (-1), relevant := sg.relevant.push 0, cost := sg.cost.push 0,
            label := sg.label.push 0, status := sg.status.push 0,
            predicted_label := sg.predicted_label.push 0, n_nodes := sg.n_nodes + 1 }

theorem pushBody_eq (i : Int) (sg : SG) : pushBody i sg = some (pushSG sg) := rfl

/-- a default entry appended on both sides keeps a pointwise correspondence of two arrays. -/
theorem push_field {α β : Type} (a : Array α) (b : Array β) (d : β) (F : β → α) (n : Nat)
    (ha : a.size = n) (hb : b.size = n)
    (h : ∀ x, x < n → a[x]? = some (F (b.getD x d))) :
    ∀ x, x < n + 1 → (a.push (F d))[x]? = some (F ((b.push d).getD x d)) := by
  intro x hx
  rw [Array.getElem?_push, Array.getD_eq_getD_getElem?, Array.getElem?_push, ha, hb]
  by_cases e : x = n
  · simp [e]
  · rw [if_neg e, if_neg e, h x (by omega), Array.getD_eq_getD_getElem?]

theorem relF_push (sg : SG) (f : Forest) (R : RelF sg f) (S : f.Sized) :
    RelF (pushSG sg) (ext1 f) := by
  refine ⟨?_, ?_, ?_, ?_, ?_, ?_, ?_, ?_, ?_, ?_, ?_, ?_, ?_, ?_, R.order⟩
  · show sg.n_nodes + 1 = ((f.n + 1 : Nat) : Int)
    rw [R.n]; omega
  · show (sg.pred.push _).size = f.n + 1
    rw [Array.size_push, R.sz_pred]
  · show (sg.status.push _).size = f.n + 1
    rw [Array.size_push, R.sz_status]
  · show (sg.cost.push _).size = f.n + 1
    rw [Array.size_push, R.sz_cost]
  · show (sg.predicted_label.push _).size = f.n + 1
    rw [Array.size_push, R.sz_plabel]
  · show (sg.label.push _).size = f.n + 1
    rw [Array.size_push, R.sz_label]
  · show (sg.relevant.push _).size = f.n + 1
    rw [Array.size_push, R.sz_relevant]
  · show (f.relevant.push _).size = f.n + 1
    rw [Array.size_push, R.fsz_relevant]
  · exact push_field sg.pred f.pred none predInt f.n R.sz_pred S.size_pred R.pred
  · exact push_field sg.status f.proto false (fun b => if b = true then (1 : Int) else 0) f.n
      R.sz_status S.size_proto R.status
  · exact push_field sg.cost f.ncost 0 (fun (x : Int) => x) f.n R.sz_cost S.size_ncost R.cost
  · exact push_field sg.predicted_label f.plabel 0 (fun (x : Nat) => (x : Int)) f.n R.sz_plabel
      S.size_plabel R.plabel
  · exact push_field sg.label f.label 0 (fun (x : Nat) => (x : Int)) f.n R.sz_label
      S.size_label R.label
  · exact push_field sg.relevant f.relevant false (fun b => if b = true then (1 : Int) else 0) f.n
      R.sz_relevant R.fsz_relevant R.relevant

theorem push_loop (nU : Nat) (sg : SG) (f : Forest) (R : RelF sg f) (S : f.Sized) :
    ∃ sg', Py.forRange (nU : Int) pushBody sg = some sg' ∧ RelF sg' (ext nU f) := by
  rw [pyForRange_nat]
  obtain ⟨a', e, r, _⟩ := foldlM_range_refines
    (fun (_ : Nat) (a : SG) (b : Forest) => RelF a b ∧ b.Sized)
    (fun i a => pushBody (i : Int) a) (fun b _ => ext1 b) nU
    (fun k _ a b hab => ⟨pushSG a, pushBody_eq _ a, relF_push a b hab.1 hab.2, ext1_sized b hab.2⟩)
    nU (Nat.le_refl _) sg f ⟨R, S⟩
  rw [fold_ext1] at r
  exact ⟨a', e, r⟩


/-! ### the relaxation body of the semi-supervised competition -/

def relaxBodySemi (W : Int → Int → Option Int) (p : Int) :
    Int → SG × HeapImp.Obj → Option (SG × HeapImp.Obj) :=
        (fun q (sg, h) => (do
          let (sg, h) ← (if (decide (p ≠ q)) then (do
              let t1013 ← Py.idx h.cost p
              let t1014 ← Py.idx h.cost q
              let (sg, h) ← (if (decide (t1013 < t1014)) then (do
                  let weight ← W p q
                  let t1015 ← Py.idx h.cost p
                  let current_cost := (max t1015 weight)
                  let t1016 ← Py.idx h.cost q
                  let (sg, h) ← (if (decide (current_cost < t1016)) then (do
                      let _g ← (if (decide (p < (-1 : Int))) then none else pure ())
                      let t1017 ← Py.setIdx sg.pred q p
                      let sg := { sg with pred := t1017 }
                      let t1018 ← Py.idx sg.predicted_label p
                      let _g ← (if (decide (t1018 < (0 : Int))) then none else pure ())
                      let t1019 ← Py.setIdx sg.predicted_label q t1018
                      let sg := { sg with predicted_label := t1019 }
                      let t1020 ← Py.idx sg.predicted_label q
                      let _g ← (if (decide (t1020 < (0 : Int))) then none else pure ())
                      let t1021 ← Py.setIdx sg.label q t1020
                      let sg := { sg with label := t1021 }
                      let (h, t1022) ← HeapImp.Obj.update h q current_cost
                      pure (sg, h)) else (do
                      pure (sg, h)))
                  pure (sg, h)) else (do
                  pure (sg, h)))
              pure (sg, h)) else (do
              pure (sg, h)))
          pure (sg, h)))

theorem semi_fit_eq (W : Int → Int → Option Int) (FLOAT_MAX : Int) (sg0 : SG) (nU : Int) :
    SemiImp.fit W FLOAT_MAX sg0 nU = (do
      let (sg, _) ← find_prototypes W FLOAT_MAX sg0
      let sg ← Py.forRange (σ := SG) nU pushBody sg
      fitTail FLOAT_MAX (relaxBodySemi W) sg) := rfl

theorem relaxBodySemi_step (W : Int → Int → Option Int) (w : Nat → Nat → Int) (n : Nat)
    (hW : WAgree n W w) : StepOK n w true (relaxBodySemi W) := by
  intro p q hp hq sg g s L
  have hpf : p < s.f.n := by rw [L.fn]; exact hp
  have hqf : q < s.f.n := by rw [L.fn]; exact hq
  have hqs : q < s.h.size := by rw [L.hsize]; exact hq
  have ecp := L.cost_get p hp
  have ecq := L.cost_get q hq
  have eW := hW p q hp hq
  by_cases hne : p = q
  · have hc : ¬ (p ≠ q ∧ s.h.costOf p < s.h.costOf q ∧
        max (s.h.costOf p) (w p q) < s.h.costOf q) := fun c => c.1 hne
    rw [CE.compRelax_neg w true p s q hc]
    refine ⟨(sg, g), ?_, L⟩
    subst hne
    simp only [relaxBodySemi, ne_eq, not_true_eq_false, decide_false, Bool.false_eq_true, if_false,
      Option.bind_eq_bind, Option.bind_some, Option.pure_def]
  · have hne' : ¬ ((p : Int) = (q : Int)) := by omega
    by_cases h1 : s.h.costOf p < s.h.costOf q
    · by_cases h2 : max (s.h.costOf p) (w p q) < s.h.costOf q
      · rw [CE.compRelax_pos w true p s q ⟨hne, h1, h2⟩]
        have hqpl : q < sg.predicted_label.size := by rw [L.relf.sz_plabel]; exact hqf
        have e39 : Py.setIdx sg.pred (q : Int) (p : Int) = some (sg.pred.setIfInBounds q (p : Int)) :=
          pySetIdx_nat _ _ _ (by rw [L.relf.sz_pred]; exact hqf)
        have e40 : Py.idx sg.predicted_label (p : Int) = some (s.f.plabelOf p : Int) := by
          rw [pyIdx_nat]; exact L.relf.plabel p hpf
        have e41 : Py.setIdx sg.predicted_label (q : Int) (s.f.plabelOf p : Int) =
            some (sg.predicted_label.setIfInBounds q (s.f.plabelOf p : Int)) :=
          pySetIdx_nat _ _ _ hqpl
        have e42 : Py.idx (sg.predicted_label.setIfInBounds q (s.f.plabelOf p : Int)) (q : Int) =
            some (s.f.plabelOf p : Int) := by
          rw [pyIdx_nat, getElem?_set _ _ _ _ hqpl, if_pos rfl]
        have e43 : Py.setIdx sg.label (q : Int) (s.f.plabelOf p : Int) =
            some (sg.label.setIfInBounds q (s.f.plabelOf p : Int)) :=
          pySetIdx_nat _ _ _ (by rw [L.relf.sz_label]; exact hqf)
        obtain ⟨g', e44, r44⟩ := HeapRefine.update_refines g s.h L.rel L.inv q
          (max (s.h.costOf p) (w p q)) hqs
        have hcontract : s.h.colorOf q = GRAY →
            Heap.better s.h.isMax (s.h.costOf q) (max (s.h.costOf p) (w p q)) = false := by
          intro _
          rw [L.hmax, CE.better_false, decide_eq_false_iff_not]
          omega
        obtain ⟨u1, _, _, _, _⟩ := Heap.update_spec s.h q _ L.inv hqs hcontract
        have hg1 : ¬ ((p : Int) < -1) := by omega
        have hg2 : ¬ ((s.f.plabelOf p : Int) < 0) := by omega
        refine ⟨({ sg with pred := sg.pred.setIfInBounds q (p : Int),
                           predicted_label :=
                             sg.predicted_label.setIfInBounds q (s.f.plabelOf p : Int),
                           label := sg.label.setIfInBounds q (s.f.plabelOf p : Int) }, g'),
          ?_, ?_⟩
        · simp only [relaxBodySemi, ne_eq, hne', not_false_eq_true, decide_true, if_true, ecp, ecq,
            eW, h1, h2, hg1, hg2, e39, e40, e41, e42, e43, e44, decide_false, Bool.false_eq_true,
            if_false, Option.bind_eq_bind, Option.bind_some, Option.pure_def]
        · refine ⟨r44, u1, ?_, ?_, ?_, L.fn, ?_⟩
          · show (s.h.update q _).size = n
            rw [Heap.update_size]; exact L.hsize
          · show (s.h.update q _).isMax = false
            rw [CE.update_isMax]; exact L.hmax
          · have R := L.relf
            refine ⟨R.n, ?_, R.sz_status, R.sz_cost, ?_, ?_, R.sz_relevant,
              R.fsz_relevant, ?_, R.status, R.cost, ?_, ?_, R.relevant, R.order⟩
            · show (sg.pred.setIfInBounds q _).size = s.f.n
              rw [Array.size_setIfInBounds]; exact R.sz_pred
            · show (sg.predicted_label.setIfInBounds q _).size = s.f.n
              rw [Array.size_setIfInBounds]; exact R.sz_plabel
            · show (sg.label.setIfInBounds q _).size = s.f.n
              rw [Array.size_setIfInBounds]; exact R.sz_label
            · exact upd_field sg.pred s.f.pred none predInt s.f.n q (some p) R.sz_pred
                L.sized.size_pred hqf R.pred
            · exact upd_field sg.predicted_label s.f.plabel 0 (fun (x : Nat) => (x : Int)) s.f.n q
                (s.f.plabelOf p) R.sz_plabel L.sized.size_plabel hqf R.plabel
            · exact upd_field sg.label s.f.label 0 (fun (x : Nat) => (x : Int)) s.f.n q
                (s.f.plabelOf p) R.sz_label L.sized.size_label hqf R.label
          · have S := L.sized
            refine ⟨?_, S.size_proto, S.size_ncost, ?_, ?_⟩
            · show (s.f.pred.setIfInBounds q _).size = s.f.n
              rw [Array.size_setIfInBounds]; exact S.size_pred
            · show (s.f.plabel.setIfInBounds q _).size = s.f.n
              rw [Array.size_setIfInBounds]; exact S.size_plabel
            · show (s.f.label.setIfInBounds q _).size = s.f.n
              rw [Array.size_setIfInBounds]; exact S.size_label
      · have hc : ¬ (p ≠ q ∧ s.h.costOf p < s.h.costOf q ∧
            max (s.h.costOf p) (w p q) < s.h.costOf q) := fun c => h2 c.2.2
        rw [CE.compRelax_neg w true p s q hc]
        refine ⟨(sg, g), ?_, L⟩
        simp only [relaxBodySemi, ne_eq, hne', not_false_eq_true, decide_true, if_true, ecp, ecq, eW,
          h1, h2, decide_false, Bool.false_eq_true, if_false,
          Option.bind_eq_bind, Option.bind_some, Option.pure_def]
    · have hc : ¬ (p ≠ q ∧ s.h.costOf p < s.h.costOf q ∧
          max (s.h.costOf p) (w p q) < s.h.costOf q) := fun c => h1 c.2.1
      rw [CE.compRelax_neg w true p s q hc]
      refine ⟨(sg, g), ?_, L⟩
      simp only [relaxBodySemi, ne_eq, hne', not_false_eq_true, decide_true, if_true, ecp, ecq,
        h1, decide_false, Bool.false_eq_true, if_false,
        Option.bind_eq_bind, Option.bind_some, Option.pure_def]

/-- `SemiSupervisedOPF.fit`: `sg0` is the subgraph of the `labL.size` labeled samples, `nU` the
number of unlabeled samples.  The model runs on the label vector "labeled labels, then one 0 per
unlabeled sample", prototypes chosen among the first `labL.size` positions. -/
theorem semi_fit_refines (W : Int → Int → Option Int) (w : Nat → Nat → Int) (top : Int)
    (sg0 : SG) (labL : Array Nat) (nU : Nat) (hr : RelF sg0 (Forest.init labL))
    (hn : 0 < labL.size) (hW : WAgree (labL.size + nU) W w) :
    ∃ sg', SemiImp.fit W top sg0 (nU : Int) = some (sg', ()) ∧ sg'.trained = true ∧
      RelF sg' (fitRun w top true labL.size (labL ++ Array.replicate nU 0)).f := by
  have hs0 := init_sized labL
  have hWL : WAgree labL.size W w := fun a b ha hb => hW a b (by omega) (by omega)
  obtain ⟨sg1, e1, r1⟩ := find_prototypes_refines W w top sg0 (Forest.init labL) hr hs0 hn hWL
  have hsame := primRun_same w top labL.size (Forest.init labL)
  have hnone : ∀ x, (Forest.init labL).predOf x = none := by
    intro x
    simp only [Forest.predOf, Forest.init, Array.getD_eq_getD_getElem?, Array.getElem?_replicate]
    split <;> rfl
  have hfr : fitRun w top true labL.size (labL ++ Array.replicate nU 0) =
      competeRun w top true (ext nU (primRun w top labL.size (Forest.init labL)).f) := by
    show competeRun w top true
      (primRun w top labL.size (Forest.init (labL ++ Array.replicate nU 0))).f = _
    rw [init_ext]
    exact congrArg _ (primRun_ext w top nU (Forest.init labL) hs0 hn hnone)
  rw [hfr]
  have r1' : RelF sg1 (primRun w top labL.size (Forest.init labL)).f := r1
  generalize (primRun w top labL.size (Forest.init labL)).f = f1 at hsame r1' ⊢
  have hn1 : f1.n = labL.size := hsame.n
  have hs1 : f1.Sized := hsame.sized hs0
  obtain ⟨sg2, e2, r2⟩ := push_loop nU sg1 f1 r1' hs1
  have hn2 : (ext nU f1).n = labL.size + nU := by show f1.n + nU = _; rw [hn1]
  obtain ⟨sg', e3, t3, r3⟩ := fitTail_refines (relaxBodySemi W) w top true sg2 (ext nU f1) r2
    (ext_sized nU f1 hs1) (by rw [hn2]; omega)
    (relaxBodySemi_step W w (ext nU f1).n (by rw [hn2]; exact hW))
  refine ⟨sg', ?_, t3, r3⟩
  rw [semi_fit_eq]
  simp only [e1, e2, Option.bind_eq_bind, Option.bind_some]
  exact e3

/-- no labeled sample: `Heap(0)` raises in `_find_prototypes`. -/
theorem semi_fit_empty (W : Int → Int → Option Int) (top : Int) (sg0 : SG) (nU : Int)
    (h0 : sg0.n_nodes = 0) : SemiImp.fit W top sg0 nU = none := by
  rw [semi_fit_eq, find_prototypes_empty W top sg0 h0]; rfl

end Opf.SupRefine
