-- helper lemmas for Props/C17LearnAny.lean
import OpfVerif.Lemmas.LearnRefine
set_option linter.unusedVariables false
namespace Opf.LearnAny
open Opf Opf.Gen Opf.LearnSpec Opf.LearnRefine
variable {σ β ρ : Type}

/-! ## specification returns ⇒ the loop returns the same (induction on the budget) -/

theorem loop_of_runAcc (ops : LearnOps σ β ρ) (proto small n : Int) :
    ∀ (fuel : Nat) (t prev : Int) (s : σ) (rng : ρ) (d : Data β) (mx : Int) (bo : Option σ) (bt : Option Int)
      (r : σ × ρ × Data β), bt.isSome = bo.isSome →
      runAcc ops proto small n fuel t prev s rng d mx bo = some r →
      (Py.whileM outerCond (outerBody ops proto small n)
          (s, rng, mx, d.Xt, d.Xv, d.Yt, d.Yv, prev, t, bo, bt, true)).bind (fun r => some (proj r)) =
        some (flat' r) := by
  intro fuel
  induction fuel with
  | zero => intro t prev s rng d mx bo bt r hbt h; simp [runAcc] at h
  | succ fuel ih =>
    intro t prev s rng d mx bo bt r hbt h
    rw [outer_step _ _ _ _ _ _ _ _ _ _ _ _ hbt]
    rw [runAcc] at h
    cases h1 : iteration ops proto s rng d with
    | none => rw [h1] at h; cases h
    | some r1 =>
      rw [h1] at h
      simp only [Option.bind_some] at h ⊢
      by_cases hstop : ops.fabs_diff r1.2.1 prev < small ∨ t + 1 = n
      · simp only [hstop, if_true] at h ⊢
        cases h2 : (if r1.2.1 > mx then some r1.1 else bo) with
        | none => rw [h2] at h; cases h
        | some b =>
          rw [h2] at h
          simp only [Option.bind_some] at h ⊢
          cases h3 : ops.restore r1.1 b with
          | none => rw [h3] at h; cases h
          | some s' =>
            rw [h3] at h
            simp only [Option.bind_some, Option.some.injEq] at h ⊢
            rw [h]
      · simp only [hstop, if_false] at h ⊢
        exact ih (t + 1) r1.2.1 r1.1 r1.2.2.1 r1.2.2.2 _ _ _ r
          (by by_cases hgt : r1.2.1 > mx <;> simp [hgt, hbt]) h

/-! ## the loop returns ⇒ the specification returns the same for some budget (least-fixed-point induction) -/

/-- what a returned loop state tells about the state the loop was started in. -/
def Post (ops : LearnOps σ β ρ) (proto small n : Int) (st res : OutSt σ β ρ) : Prop :=
  ∀ (s : σ) (rng : ρ) (mx : Int) (d : Data β) (prev t : Int) (bo : Option σ) (bt : Option Int) (go : Bool),
    st = (s, rng, mx, d.Xt, d.Xv, d.Yt, d.Yv, prev, t, bo, bt, go) →
    (go = false → res = st) ∧
    (go = true → bt.isSome = bo.isSome →
      ∃ fuel r, runAcc ops proto small n fuel t prev s rng d mx bo = some r ∧ proj res = flat' r)

theorem loop_post (ops : LearnOps σ β ρ) (proto small n : Int) :
    ∀ (st res : OutSt σ β ρ), Py.whileM outerCond (outerBody ops proto small n) st = some res →
      Post ops proto small n st res := by
  apply Py.whileM.partial_correctness
  intro f ihf st res hres s rng mx d prev t bo bt go hst
  subst hst
  cases go with
  | false =>
    refine ⟨fun _ => ?_, fun h => (by cases h)⟩
    have hc : outerCond (s, rng, mx, d.Xt, d.Xv, d.Yt, d.Yv, prev, t, bo, bt, false) = some false := rfl
    simp only [hc, Option.bind_eq_bind, Option.bind_some, Bool.false_eq_true, if_false, Option.pure_def,
      Option.some.injEq] at hres
    exact hres.symm
  | true =>
    refine ⟨fun h => (by cases h), fun _ hbt => ?_⟩
    have hc : outerCond (s, rng, mx, d.Xt, d.Xv, d.Yt, d.Yv, prev, t, bo, bt, true) = some true := rfl
    simp only [hc, Option.bind_eq_bind, Option.bind_some, if_true] at hres
    rw [outerBody_eq] at hres
    cases h1 : iteration ops proto s rng d with
    | none => rw [h1] at hres; cases hres
    | some r1 =>
      rw [h1] at hres
      simp only [Option.bind_some] at hres
      by_cases hstop : ops.fabs_diff r1.2.1 prev < small ∨ t + 1 = n
      · simp only [hstop, if_true] at hres
        cases h2 : (if r1.2.1 > mx then some r1.1 else bo) with
        | none => rw [h2] at hres; cases hres
        | some b =>
          rw [h2] at hres
          simp only [Option.bind_some] at hres
          cases h3 : ops.restore r1.1 b with
          | none => rw [h3] at hres; cases hres
          | some s' =>
            rw [h3] at hres
            simp only [Option.bind_some] at hres
            cases h4 : (if r1.2.1 > mx then some t else bt) with
            | none => rw [h4] at hres; cases hres
            | some tt =>
              rw [h4] at hres
              simp only [Option.bind_some] at hres
              have hp := (ihf _ _ hres) s' r1.2.2.1 (if r1.2.1 > mx then r1.2.1 else mx) r1.2.2.2 r1.2.1 (t + 1)
                (some b) (some tt) false rfl
              have hres' := hp.1 rfl
              refine ⟨1, (s', r1.2.2.1, r1.2.2.2), ?_, ?_⟩
              · simp only [runAcc, h1, Option.bind_some, hstop, if_true, h2, h3]
              · rw [hres']; rfl
      · simp only [hstop, if_false] at hres
        have hp := (ihf _ _ hres) r1.1 r1.2.2.1 (if r1.2.1 > mx then r1.2.1 else mx) r1.2.2.2 r1.2.1 (t + 1)
          (if r1.2.1 > mx then some r1.1 else bo) (if r1.2.1 > mx then some t else bt) true rfl
        obtain ⟨fuel, r, hr, hpr⟩ := hp.2 rfl (by by_cases hgt : r1.2.1 > mx <;> simp [hgt, hbt])
        refine ⟨fuel + 1, r, ?_, hpr⟩
        simp only [runAcc, h1, Option.bind_some, hstop, if_false]
        exact hr

/-! ## `learnSpecFuel` unfolded (stated on its body: the definition lives in the Props file) -/

theorem specFuel_eq (ops : LearnOps σ β ρ) (negOne : Int) (x : Option (List (σ × Int) × ρ × Data β)) :
    (x.bind fun r =>
      (bestIter negOne (r.1.map (·.2))).bind fun b =>
        r.1[b]?.bind fun best =>
          r.1.getLast?.bind fun last =>
            (ops.restore last.1 best.1).bind fun s => some (s, r.2.1, r.2.2)) =
      x.bind (finishAcc ops negOne none) := by
  cases x with
  | none => rfl
  | some r =>
    obtain ⟨tr, rng', d'⟩ := r
    simp only [Option.bind_some, finishAcc, pick_eq]
    cases bestIter negOne (tr.map (·.2)) with
    | none => rfl
    | some b =>
      simp only [Option.bind_some]
      cases tr[b]? with
      | none => rfl
      | some best => rfl

/-- what a successful `finishAcc` after `run` consists of. -/
theorem finish_some (ops : LearnOps σ β ρ) (negOne : Int) (x : Option (List (σ × Int) × ρ × Data β))
    (s' : σ) (rng' : ρ) (d' : Data β)
    (h : (x.bind fun r =>
      (bestIter negOne (r.1.map (·.2))).bind fun b =>
        r.1[b]?.bind fun best =>
          r.1.getLast?.bind fun last =>
            (ops.restore last.1 best.1).bind fun s => some (s, r.2.1, r.2.2)) = some (s', rng', d')) :
    ∃ tr b best last, x = some (tr, rng', d') ∧
      bestIter negOne (tr.map (·.2)) = some b ∧ tr[b]? = some best ∧ tr.getLast? = some last ∧
      ops.restore last.1 best.1 = some s' := by
  cases x with
  | none => cases h
  | some r =>
    obtain ⟨tr, rng1, d1⟩ := r
    simp only [Option.bind_some] at h
    cases h2 : bestIter negOne (tr.map (·.2)) with
    | none => simp [h2] at h
    | some b =>
      simp only [h2, Option.bind_some] at h
      cases h3 : tr[b]? with
      | none => simp [h3] at h
      | some best =>
        simp only [h3, Option.bind_some] at h
        cases h4 : tr.getLast? with
        | none => simp [h4] at h
        | some last =>
          simp only [h4, Option.bind_some] at h
          cases h5 : ops.restore last.1 best.1 with
          | none => simp [h5] at h
          | some s2 =>
            simp only [h5, Option.bind_some, Option.some.injEq, Prod.mk.injEq] at h
            obtain ⟨rfl, rfl, rfl⟩ := h
            exact ⟨tr, b, best, last, rfl, h2, h3, h4, h5⟩

end Opf.LearnAny
