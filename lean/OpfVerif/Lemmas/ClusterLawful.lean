import OpfVerif.Model.ClusterLawful
import OpfVerif.Lemmas.Lawful
namespace Opf.CluInst

theorem freeze_eq (n : Nat) (s : DState) : freeze n s = s := by
  cases s; simp [freeze, tabOf_map_range]

theorem runPicksCluF_eq (I : CluInst) (s : DState) (ps : List Nat) : I.runPicksCluF s ps = I.runPicksClu s ps := by
  induction ps generalizing s with
  | nil => rfl
  | cons p ps ih => simp only [runPicksCluF, runPicksClu, freeze_eq, ih]

end Opf.CluInst
