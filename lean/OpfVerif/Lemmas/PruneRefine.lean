-- helper lemmas for Props/C17PruneRefine.lean
import OpfVerif.Gen.PruneImp
import OpfVerif.Props.C17
set_option linter.unusedVariables false
namespace Opf.PruneRefine
open Opf Opf.Gen Opf.PruneSpec
variable {σ β : Type}

/-! ## named copies of the generated loop bodies -/

abbrev St (σ β : Type) := σ × Unit × Array β × Array Int

def enumBody (IRRELEVANT : Int) (X_train : Array β) (Y_train : Array Int) :
    Int → Int → St σ β → Option (St σ β) :=
  fun j n (s, rng, X_temp, Y_temp) => do
          let (s, rng, X_temp, Y_temp) ← (if decide (n ≠ IRRELEVANT) then (do
              let t1 ← Py.idx X_train j
              let X_temp := X_temp.push t1
              let t2 ← Py.idx Y_train j
              let Y_temp := Y_temp.push t2
              pure (s, rng, X_temp, Y_temp)) else pure (s, rng, X_temp, Y_temp))
          pure (s, rng, X_temp, Y_temp)

def roundBody (ops : PruneOps σ β) (IRRELEVANT : Int) (X_val : Array β) (Y_val : Array Int) :
    Int → St σ β → Option (St σ β) :=
  fun t (s, rng, X_train, Y_train) => do
      let X_temp : Array β := #[]
      let Y_temp : Array Int := #[]
      let (s, rng, X_temp, Y_temp) ← Py.forEnum (ops.relevants s) (enumBody IRRELEVANT X_train Y_train) (s, rng, X_temp, Y_temp)
      let X_train := X_temp
      let Y_train := Y_temp
      let s ← ops.fit s X_train Y_train
      let (s, preds_v) ← ops.predict s X_val
      let preds := preds_v
      let acc_v ← ops.opf_accuracy Y_val preds
      let acc := acc_v
      pure (s, rng, X_train, Y_train)

theorem prune_eq (ops : PruneOps σ β) (irr : Int) (s : σ) (Xt : Array β) (Yt : Array Int) (Xv : Array β)
    (Yv : Array Int) (n : Int) :
    PruneImp.prune ops irr s () Xt Yt Xv Yv n = (do
      let s ← ops.fit s Xt Yt
      let (s, _) ← ops.predict s Xv
      let initial_nodes := (ops.n_nodes s)
      let (s, rng, X_train, Y_train) ← Py.forRange n (roundBody ops irr Xv Yv) (s, (), Xt, Yt)
      let _z : Unit ← (if initial_nodes = 0 then none else pure ())
      pure (s, X_train, Y_train)) := by
  rfl

/-! ## the `enumerate` loop is `keep` -/

def keepStep (irr : Int) (X : Array β) (Y : Array Int) (acc : Array β × Array Int) (p : Nat × Int) :
    Option (Array β × Array Int) :=
  if p.2 ≠ irr then do
    let x ← X[p.1]?
    let y ← Y[p.1]?
    pure (acc.1.push x, acc.2.push y)
  else pure acc

theorem keep_eq_fold (irr : Int) (flags : Array Int) (X : Array β) (Y : Array Int) :
    keep irr flags X Y = ((List.range flags.size).zip flags.toList).foldlM (keepStep irr X Y) (#[], #[]) := rfl

theorem idx_nat {α : Type} (a : Array α) (k : Nat) : Py.idx a (k : Int) = a[k]? := by
  unfold Py.idx Py.resolve
  by_cases h : k < a.size
  · simp [h]
  · simp [h]

def pack (s : σ) (r : Array β × Array Int) : St σ β := (s, (), r.1, r.2)

theorem enumBody_step (irr : Int) (X : Array β) (Y : Array Int) (s : σ) (acc : Array β × Array Int)
    (p : Nat × Int) :
    enumBody irr X Y (p.1 : Int) p.2 (pack s acc) = (keepStep irr X Y acc p).map (pack s) := by
  obtain ⟨A, B⟩ := acc
  obtain ⟨i, f⟩ := p
  simp only [enumBody, keepStep, pack, idx_nat]
  by_cases hf : f = irr
  · simp [hf]; rfl
  · simp only [ne_eq, hf, not_false_eq_true, decide_true, if_true]
    cases hx : X[i]? with
    | none => simp
    | some x =>
      cases hy : Y[i]? with
      | none => simp
      | some y => simp; rfl

theorem enum_fold (irr : Int) (X : Array β) (Y : Array Int) (s : σ) (l : List (Nat × Int)) :
    ∀ acc : Array β × Array Int,
      l.foldlM (fun st p => enumBody irr X Y (p.1 : Int) p.2 st) (pack s acc) =
        (l.foldlM (keepStep irr X Y) acc).map (pack s) := by
  induction l with
  | nil => intro acc; simp
  | cons p l ih =>
    intro acc
    rw [List.foldlM_cons, List.foldlM_cons, enumBody_step]
    cases h : keepStep irr X Y acc p with
    | none => simp
    | some acc' => simp [ih acc']

theorem forEnum_eq_keep (irr : Int) (flags : Array Int) (X : Array β) (Y : Array Int) (s : σ) :
    Py.forEnum flags (enumBody irr X Y) (s, (), (#[] : Array β), (#[] : Array Int)) =
      (keep irr flags X Y).map (pack s) := by
  unfold Py.forEnum
  rw [keep_eq_fold]
  exact enum_fold irr X Y s _ (#[], #[])

/-! ## the rounds -/

def pack3 (r : σ × Array β × Array Int) : St σ β := (r.1, (), r.2.1, r.2.2)

def roundSpec (ops : PruneOps σ β) (irr : Int) (Xv : Array β) (Yv : Array Int) (r : σ × Array β × Array Int) :
    Option (σ × Array β × Array Int) := do
  let (X, Y) ← keep irr (ops.relevants r.1) r.2.1 r.2.2
  let s ← ops.fit r.1 X Y
  let (s, preds) ← ops.predict s Xv
  let _ ← ops.opf_accuracy Yv preds
  pure (s, X, Y)

theorem roundBody_eq (ops : PruneOps σ β) (irr : Int) (Xv : Array β) (Yv : Array Int) (t : Int)
    (r : σ × Array β × Array Int) :
    roundBody ops irr Xv Yv t (pack3 r) = (roundSpec ops irr Xv Yv r).map pack3 := by
  obtain ⟨s, X, Y⟩ := r
  simp only [roundBody, roundSpec, pack3, forEnum_eq_keep]
  cases hk : keep irr (ops.relevants s) X Y with
  | none => simp
  | some XY =>
    obtain ⟨X', Y'⟩ := XY
    simp only [pack, Option.map_some, Option.bind_eq_bind, Option.bind_some]
    cases hf : ops.fit s X' Y' with
    | none => simp
    | some s1 =>
      simp only [Option.bind_some]
      cases hp : ops.predict s1 Xv with
      | none => simp
      | some sp =>
        obtain ⟨s2, preds⟩ := sp
        simp only [Option.bind_some]
        cases ha : ops.opf_accuracy Yv preds with
        | none => simp
        | some a => simp; rfl

theorem rounds_succ (ops : PruneOps σ β) (irr : Int) (Xv : Array β) (Yv : Array Int) (n : Nat)
    (r : σ × Array β × Array Int) :
    rounds ops irr Xv Yv (n + 1) r.1 r.2.1 r.2.2 =
      (roundSpec ops irr Xv Yv r).bind (fun r' => rounds ops irr Xv Yv n r'.1 r'.2.1 r'.2.2) := by
  obtain ⟨s, X, Y⟩ := r
  simp only [rounds, roundSpec]
  cases hk : keep irr (ops.relevants s) X Y with
  | none => simp
  | some XY =>
    obtain ⟨X', Y'⟩ := XY
    simp only [Option.bind_eq_bind, Option.bind_some]
    cases hf : ops.fit s X' Y' with
    | none => simp
    | some s1 =>
      simp only [Option.bind_some]
      cases hp : ops.predict s1 Xv with
      | none => simp
      | some sp =>
        obtain ⟨s2, preds⟩ := sp
        simp only [Option.bind_some]
        cases ha : ops.opf_accuracy Yv preds with
        | none => simp
        | some a => simp

/-- a `foldlM` whose body ignores the element only depends on the length. -/
theorem foldlM_const {α τ : Type} (g : τ → Option τ) (l : List α) (l' : List Nat) (h : l.length = l'.length) :
    ∀ s : τ, l.foldlM (fun s _ => g s) s = l'.foldlM (fun s _ => g s) s := by
  induction l generalizing l' with
  | nil =>
    intro s
    cases l' with
    | nil => rfl
    | cons _ _ => simp at h
  | cons a l ih =>
    intro s
    cases l' with
    | nil => simp at h
    | cons b l' =>
      simp only [List.foldlM_cons]
      cases g s with
      | none => rfl
      | some s' => exact ih l' (by simpa using h) s'

theorem forRange_rounds (ops : PruneOps σ β) (irr : Int) (Xv : Array β) (Yv : Array Int) (n : Nat) :
    ∀ r : σ × Array β × Array Int,
      (List.range n).foldlM (fun st (q : Nat) => roundBody ops irr Xv Yv (q : Int) st) (pack3 r) =
        (rounds ops irr Xv Yv n r.1 r.2.1 r.2.2).map pack3 := by
  induction n with
  | zero => intro r; simp [rounds, pack3]
  | succ n ih =>
    intro r
    rw [List.range_succ_eq_map, List.foldlM_cons, roundBody_eq, rounds_succ]
    cases hr : roundSpec ops irr Xv Yv r with
    | none => simp
    | some r' =>
      simp only [Option.map_some, Option.bind_eq_bind, Option.bind_some, List.foldlM_map]
      have := ih r'
      rw [← this]
      -- the body ignores the counter
      have hb : ∀ (q : Nat) (st : St σ β),
          roundBody ops irr Xv Yv (q : Int) st = roundBody ops irr Xv Yv 0 st := fun _ _ => rfl
      simp only [hb]

theorem prune_refines' (ops : PruneOps σ β) (irr : Int) (s : σ) (Xt : Array β) (Yt : Array Int) (Xv : Array β)
    (Yv : Array Int) (n : Int) :
    PruneImp.prune ops irr s () Xt Yt Xv Yv n = pruneSpec ops irr s Xt Yt Xv Yv n := by
  rw [prune_eq]
  unfold pruneSpec
  cases hf : ops.fit s Xt Yt with
  | none => simp
  | some s1 =>
    simp only [Option.bind_eq_bind, Option.bind_some]
    cases hp : ops.predict s1 Xv with
    | none => simp
    | some sp =>
      obtain ⟨s2, preds⟩ := sp
      simp only [Option.bind_some]
      have h := forRange_rounds ops irr Xv Yv n.toNat (s2, Xt, Yt)
      have h' : Py.forRange n (roundBody ops irr Xv Yv) (s2, (), Xt, Yt) =
          (rounds ops irr Xv Yv n.toNat s2 Xt Yt).map pack3 := h
      rw [h']
      cases hr : rounds ops irr Xv Yv n.toNat s2 Xt Yt with
      | none => simp
      | some r =>
        obtain ⟨s3, X3, Y3⟩ := r
        by_cases h0 : ops.n_nodes s2 = 0
        · simp [h0, pack3]
        · simp [h0, pack3]

/-! ## one round keeps the flagged pairs -/

theorem zip_push {A : Array β} {B : Array Int} (h : A.size = B.size) (x : β) (y : Int) :
    (A.push x).toList.zip (B.push y).toList = A.toList.zip B.toList ++ [(x, y)] := by
  rw [Array.toList_push, Array.toList_push, List.zip_append (by simpa using h)]
  rfl

/-- the fold of `keepStep` over any list of (position, flag) pairs. -/
theorem keep_fold_spec (irr : Int) (X : Array β) (Y : Array Int) (l : List (Nat × Int)) :
    ∀ (A : Array β) (B : Array Int) (A' : Array β) (B' : Array Int), A.size = B.size →
      l.foldlM (keepStep irr X Y) (A, B) = some (A', B') →
      A'.size = B'.size ∧
        A'.toList.zip B'.toList = A.toList.zip B.toList ++
          (l.filter (fun p => p.2 != irr)).filterMap (fun p => (X.toList.zip Y.toList)[p.1]?) ∧
        ∀ p ∈ l, p.2 ≠ irr → p.1 < X.size ∧ p.1 < Y.size := by
  induction l with
  | nil =>
    intro A B A' B' hs h
    simp at h
    obtain ⟨rfl, rfl⟩ := h
    simp [hs]
  | cons p l ih =>
    intro A B A' B' hs h
    rw [List.foldlM_cons] at h
    by_cases hf : p.2 = irr
    · have hstep : keepStep irr X Y (A, B) p = some (A, B) := by simp [keepStep, hf]
      rw [hstep] at h
      simp only [Option.bind_eq_bind, Option.bind_some] at h
      obtain ⟨h1, h2, h3⟩ := ih A B A' B' hs h
      refine ⟨h1, ?_, ?_⟩
      · rw [h2]; simp [hf]
      · intro q hq hne
        rcases List.mem_cons.1 hq with rfl | hq
        · exact absurd hf hne
        · exact h3 q hq hne
    · cases hx : X[p.1]? with
      | none => simp [keepStep, hf, hx] at h
      | some x =>
        cases hy : Y[p.1]? with
        | none => simp [keepStep, hf, hx, hy] at h
        | some y =>
          have hstep : keepStep irr X Y (A, B) p = some (A.push x, B.push y) := by
            simp [keepStep, hf, hx, hy]
          rw [hstep] at h
          simp only [Option.bind_eq_bind, Option.bind_some] at h
          obtain ⟨h1, h2, h3⟩ := ih (A.push x) (B.push y) A' B' (by simp [hs]) h
          have hget : (X.toList.zip Y.toList)[p.1]? = some (x, y) := by
            rw [List.getElem?_zip_eq_some]
            simp [hx, hy]
          have hlt : p.1 < X.size ∧ p.1 < Y.size := by
            constructor
            · rcases Nat.lt_or_ge p.1 X.size with h | h
              · exact h
              · rw [Array.getElem?_eq_none h] at hx; cases hx
            · rcases Nat.lt_or_ge p.1 Y.size with h | h
              · exact h
              · rw [Array.getElem?_eq_none h] at hy; cases hy
          refine ⟨h1, ?_, ?_⟩
          · rw [h2, zip_push hs]
            have hb : (p.2 != irr) = true := by simpa using hf
            simp [hb, hget]
          · intro q hq hne
            rcases List.mem_cons.1 hq with rfl | hq
            · exact hlt
            · exact h3 q hq hne

theorem zip_range_flags (irr : Int) (flags : Array Int) :
    (List.range flags.size).zip flags.toList = (List.range flags.size).map (fun i => (i, flags.getD i irr)) := by
  apply List.ext_getElem
  · simp
  · intro i h1 h2
    have hi : i < flags.size := by simpa using h2
    simp [hi]

theorem filter_range_extend (rel : Nat → Bool) (n m : Nat) (hnm : n ≤ m)
    (h : ∀ i, n ≤ i → i < m → rel i = false) :
    (List.range m).filter rel = (List.range n).filter rel := by
  obtain ⟨d, rfl⟩ := Nat.exists_eq_add_of_le hnm
  rw [List.range_eq_range', List.range_eq_range', ← List.range'_append_1 (s := 0) (m := n) (n := d),
    List.filter_append]
  have : (List.range' (0 + n) d).filter rel = [] := by
    rw [List.filter_eq_nil_iff]
    intro i hi
    have := List.mem_range'_1.1 hi
    rw [h i (by omega) (by omega)]
    simp
  rw [this, List.append_nil]

theorem keep_spec (irr : Int) (flags : Array Int) (X X' : Array β) (Y Y' : Array Int)
    (hsz : X.size = Y.size) (h : keep irr flags X Y = some (X', Y')) :
    X'.size = Y'.size ∧
      X'.toList.zip Y'.toList =
        pruneFilter (fun j => flags.getD j irr != irr) (X.toList.zip Y.toList) := by
  rw [keep_eq_fold] at h
  obtain ⟨h1, h2, h3⟩ := keep_fold_spec irr X Y _ #[] #[] X' Y' rfl h
  refine ⟨h1, ?_⟩
  rw [h2, c17_prune_exact, zip_range_flags irr]
  simp only [List.zip_nil_left, List.nil_append, List.filter_map, List.filterMap_map]
  have hlen : (X.toList.zip Y.toList).length = X.size := by simp [hsz]
  rw [hlen]
  have hfun : ((fun p : Nat × Int => p.2 != irr) ∘ fun i => (i, flags.getD i irr)) =
      (fun j => flags.getD j irr != irr) := rfl
  have hfun2 : ((fun p : Nat × Int => (X.toList.zip Y.toList)[p.1]?) ∘ fun i => (i, flags.getD i irr)) =
      (fun i => (X.toList.zip Y.toList)[i]?) := rfl
  rw [hfun, hfun2]
  congr 1
  rcases Nat.le_total flags.size X.size with hle | hle
  · symm
    apply filter_range_extend _ _ _ hle
    intro i hi _
    simp [Array.getD, show ¬ i < flags.size by omega]
  · apply filter_range_extend _ _ _ hle
    intro i hi hi2
    by_cases hrel : flags.getD i irr = irr
    · simp [hrel]
    · exfalso
      have hmem : (i, flags.getD i irr) ∈ (List.range flags.size).zip flags.toList := by
        rw [zip_range_flags irr]
        exact List.mem_map.2 ⟨i, List.mem_range.2 hi2, rfl⟩
      have := (h3 _ hmem hrel).1
      simp only at this
      omega

theorem keep_sub (irr : Int) (flags : Array Int) (X X' : Array β) (Y Y' : Array Int)
    (hsz : X.size = Y.size) (h : keep irr flags X Y = some (X', Y')) :
    X'.size = Y'.size ∧ (X'.toList.zip Y'.toList).Sublist (X.toList.zip Y.toList) := by
  obtain ⟨h1, h2⟩ := keep_spec irr flags X X' Y Y' hsz h
  exact ⟨h1, h2 ▸ (c17_prune_sub _ _).1⟩

/-! ## all the rounds only discard -/

theorem rounds_sublist (ops : PruneOps σ β) (irr : Int) (Xv : Array β) (Yv : Array Int) (n : Nat) :
    ∀ (s s' : σ) (X X' : Array β) (Y Y' : Array Int), X.size = Y.size →
      rounds ops irr Xv Yv n s X Y = some (s', X', Y') →
      X'.size = Y'.size ∧ (X'.toList.zip Y'.toList).Sublist (X.toList.zip Y.toList) := by
  induction n with
  | zero =>
    intro s s' X X' Y Y' hsz h
    simp only [rounds, Option.some.injEq, Prod.mk.injEq] at h
    obtain ⟨_, rfl, rfl⟩ := h
    exact ⟨hsz, List.Sublist.refl _⟩
  | succ n ih =>
    intro s s' X X' Y Y' hsz h
    have h' := rounds_succ ops irr Xv Yv n (s, X, Y)
    simp only at h'
    rw [h'] at h
    cases hr : roundSpec ops irr Xv Yv (s, X, Y) with
    | none => rw [hr] at h; simp at h
    | some r =>
      obtain ⟨s1, X1, Y1⟩ := r
      rw [hr] at h
      simp only [Option.bind_some] at h
      -- what the round kept
      have hk : keep irr (ops.relevants s) X Y = some (X1, Y1) := by
        simp only [roundSpec] at hr
        cases hk : keep irr (ops.relevants s) X Y with
        | none => rw [hk] at hr; simp at hr
        | some XY =>
          obtain ⟨Xa, Ya⟩ := XY
          rw [hk] at hr
          simp only [Option.bind_eq_bind, Option.bind_some] at hr
          cases hf : ops.fit s Xa Ya with
          | none => rw [hf] at hr; simp at hr
          | some sa =>
            rw [hf] at hr
            simp only [Option.bind_some] at hr
            cases hp : ops.predict sa Xv with
            | none => rw [hp] at hr; simp at hr
            | some sp =>
              obtain ⟨sb, preds⟩ := sp
              rw [hp] at hr
              simp only [Option.bind_some] at hr
              cases ha : ops.opf_accuracy Yv preds with
              | none => rw [ha] at hr; simp at hr
              | some a =>
                rw [ha] at hr
                simp only [Option.bind_some, Option.pure_def, Option.some.injEq, Prod.mk.injEq] at hr
                obtain ⟨_, rfl, rfl⟩ := hr
                rfl
      obtain ⟨hs1, hsub1⟩ := keep_sub irr _ X X1 Y Y1 hsz hk
      obtain ⟨hs2, hsub2⟩ := ih s1 s' X1 X' Y1 Y' hs1 h
      exact ⟨hs2, hsub2.trans hsub1⟩

theorem prune_sublist (ops : PruneOps σ β) (irr : Int) (s s' : σ) (Xt Xt' : Array β) (Yt Yt' : Array Int)
    (Xv : Array β) (Yv : Array Int) (n : Int) (hsz : Xt.size = Yt.size)
    (h : pruneSpec ops irr s Xt Yt Xv Yv n = some (s', Xt', Yt')) :
    Xt'.size = Yt'.size ∧ (Xt'.toList.zip Yt'.toList).Sublist (Xt.toList.zip Yt.toList) := by
  unfold pruneSpec at h
  cases hf : ops.fit s Xt Yt with
  | none => rw [hf] at h; simp at h
  | some s1 =>
    rw [hf] at h
    simp only [Option.bind_eq_bind, Option.bind_some] at h
    cases hp : ops.predict s1 Xv with
    | none => rw [hp] at h; simp at h
    | some sp =>
      obtain ⟨s2, preds⟩ := sp
      rw [hp] at h
      simp only [Option.bind_some] at h
      cases hr : rounds ops irr Xv Yv n.toNat s2 Xt Yt with
      | none => rw [hr] at h; simp at h
      | some r =>
        obtain ⟨s3, X3, Y3⟩ := r
        rw [hr] at h
        simp only [Option.bind_some] at h
        by_cases h0 : ops.n_nodes s2 = 0
        · simp [h0] at h
        · simp only [h0, if_false, Option.pure_def, Option.some.injEq, Prod.mk.injEq] at h
          obtain ⟨_, rfl, rfl⟩ := h
          exact rounds_sublist ops irr Xv Yv n.toNat s2 s3 Xt _ Yt _ hsz hr

end Opf.PruneRefine
