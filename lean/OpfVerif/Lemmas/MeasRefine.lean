-- helper lemmas for Props/C20Refine.lean
import OpfVerif.Gen.MeasImp
import OpfVerif.Model.Measures
namespace Opf.MeasRefine
open Opf Opf.Gen

/-- a vector of class identifiers as numpy sees it (`C20Refine.natArr`). -/
def castArr (l : List Nat) : Array Int := (l.map Int.ofNat).toArray

/-- the array `[g 0, …, g (n-1)]`. -/
def mkArr {α : Type} (n : Nat) (g : Nat → α) : Array α := ((List.range n).map g).toArray

/-! ### Python indexing on natural indices -/

theorem idx_nat {α : Type} (a : Array α) (k : Nat) : Py.idx a (k : Int) = a[k]? := by
  unfold Py.idx Py.resolve
  by_cases h : k < a.size
  · simp [h]
  · simp [h]

theorem setIdx_nat {α : Type} (a : Array α) (k : Nat) (v : α) (hk : k < a.size) :
    Py.setIdx a (k : Int) v = some (a.setIfInBounds k v) := by
  unfold Py.setIdx Py.resolve
  simp [hk]

@[simp] theorem mkArr_size {α : Type} (n : Nat) (g : Nat → α) : (mkArr n g).size = n := by
  simp [mkArr]

theorem mkArr_getElem? {α : Type} (n : Nat) (g : Nat → α) (k : Nat) (hk : k < n) :
    (mkArr n g)[k]? = some (g k) := by
  simp [mkArr, hk]

theorem mkArr_congr {α : Type} (n : Nat) (g g' : Nat → α) (h : ∀ i, i < n → g i = g' i) :
    mkArr n g = mkArr n g' := by
  unfold mkArr
  congr 1
  apply List.map_congr_left
  intro a ha
  exact h a (List.mem_range.mp ha)

theorem mkArr_set {α : Type} (n : Nat) (g : Nat → α) (k : Nat) (v : α) :
    (mkArr n g).setIfInBounds k v = mkArr n (fun j => if j = k then v else g j) := by
  apply Array.ext
  · simp
  · intro i h1 h2
    simp at h1 h2
    simp [mkArr]
    by_cases h : k = i
    · simp [h]
    · have : ¬ i = k := fun e => h e.symm
      simp [h, this]

theorem idx_mkArr {α : Type} (n : Nat) (g : Nat → α) (k : Nat) (hk : k < n) :
    Py.idx (mkArr n g) (k : Int) = some (g k) := by
  rw [idx_nat, mkArr_getElem? n g k hk]

theorem idx_mkArr_none {α : Type} (n : Nat) (g : Nat → α) (k : Nat) (hk : n ≤ k) :
    Py.idx (mkArr n g) (k : Int) = none := by
  rw [idx_nat]
  simp [mkArr]
  omega

theorem setIdx_mkArr {α : Type} (n : Nat) (g : Nat → α) (k : Nat) (v : α) (hk : k < n) :
    Py.setIdx (mkArr n g) (k : Int) v = some (mkArr n (fun j => if j = k then v else g j)) := by
  rw [setIdx_nat _ _ _ (by simpa using hk), mkArr_set]

theorem replicate_eq_mkArr {α : Type} (n : Nat) (v : α) : Array.replicate n v = mkArr n (fun _ => v) := by
  apply Array.ext
  · simp
  · intro i h1 h2
    simp [mkArr]

theorem ofFn_eq_mkArr {α : Type} (n : Nat) (g : Nat → α) :
    Array.ofFn (n := n) (fun v => g v.val) = mkArr n g := by
  apply Array.ext
  · simp
  · intro i h1 h2
    simp [mkArr]

/-! ### maxima -/

theorem foldl_max_cast (l : List Nat) (a : Nat) :
    (l.map Int.ofNat).foldl max (a : Int) = ((l.foldl max a : Nat) : Int) := by
  induction l generalizing a with
  | nil => rfl
  | cons x xs ih =>
    simp only [List.map_cons, List.foldl_cons]
    have : max (a : Int) (Int.ofNat x) = ((max a x : Nat) : Int) := by
      simp only [Int.ofNat_eq_natCast]; omega
    rw [this, ih]

theorem le_foldl_max (l : List Nat) (a : Nat) :
    a ≤ l.foldl max a ∧ ∀ x ∈ l, x ≤ l.foldl max a := by
  induction l generalizing a with
  | nil => simp
  | cons x xs ih =>
    simp only [List.foldl_cons, List.mem_cons]
    have h := ih (max a x)
    refine ⟨by omega, ?_⟩
    intro y hy
    rcases hy with rfl | hy
    · omega
    · exact h.2 y hy

theorem npMax_cast (l : List Nat) (hne : l ≠ []) :
    Py.npMax (castArr l) = some ((l.foldl max 0 : Nat) : Int) := by
  cases l with
  | nil => exact absurd rfl hne
  | cons x xs =>
    unfold Py.npMax castArr
    simp only [List.map_cons, List.foldl_cons]
    have : (Int.ofNat x) = ((max 0 x : Nat) : Int) := by simp
    rw [this, foldl_max_cast]

theorem npMax_nil : Py.npMax (castArr []) = none := rfl

theorem zeros2_nat (r c : Nat) :
    Py.zeros2 (r : Int) (c : Int) = some (mkArr r (fun _ => mkArr c (fun _ => (0 : Int)))) := by
  unfold Py.zeros2
  have : ¬ ((r : Int) < 0 ∨ (c : Int) < 0) := by omega
  simp only [this, if_false, Int.toNat_natCast, replicate_eq_mkArr]

theorem zeros1_nat (r : Nat) :
    Py.zeros1 (r : Int) = some (mkArr r (fun _ => (0 : Int))) := by
  unfold Py.zeros1
  have : ¬ ((r : Int) < 0) := by omega
  simp only [this, if_false, Int.toNat_natCast, replicate_eq_mkArr]


/-! ### the confusion-matrix loop -/

/-- a `K × C` table with entries `f a b`. -/
def tab (K C : Nat) (f : Nat → Nat → Int) : Array (Array Int) := mkArr K (fun a => mkArr C (f a))

theorem tab_congr (K C : Nat) (f f' : Nat → Nat → Int) (h : ∀ i j, i < K → j < C → f i j = f' i j) :
    tab K C f = tab K C f' := by
  unfold tab
  apply mkArr_congr
  intro i hi
  apply mkArr_congr
  intro j hj
  exact h i j hi hj

/-- body of the `confusion_matrix` loop, as generated. -/
def confBody (label pred : Int) (c_matrix : Array (Array Int)) : Option (Array (Array Int)) :=
  (Py.idx c_matrix label).bind fun t3 =>
    (Py.idx t3 pred).bind fun t4 => (Py.setIdx t3 pred (t4 + 1)).bind fun t3 => Py.setIdx c_matrix label t3

theorem confBody_step (K C : Nat) (f : Nat → Nat → Int) (a b : Nat) (ha : a < K) (hb : b < C) :
    confBody (a : Int) (b : Int) (tab K C f) =
      some (tab K C (fun i j => f i j + if i = a ∧ j = b then 1 else 0)) := by
  unfold confBody tab
  rw [idx_mkArr K _ a ha]
  simp only [Option.bind_some]
  rw [idx_mkArr C _ b hb]
  simp only [Option.bind_some]
  rw [setIdx_mkArr C _ b _ hb]
  simp only [Option.bind_some]
  rw [setIdx_mkArr K _ a _ ha]
  congr 1
  apply mkArr_congr
  intro i hi
  by_cases hia : i = a
  · subst hia
    simp only [if_true, true_and]
    apply mkArr_congr
    intro j hj
    by_cases hjb : j = b
    · subst hjb; simp
    · simp [hjb]
  · simp only [hia, if_false, false_and]
    apply mkArr_congr
    intro j hj
    simp

theorem confBody_none (K C : Nat) (f : Nat → Nat → Int) (a b : Nat) (ha : a < K) (hb : C ≤ b) :
    confBody (a : Int) (b : Int) (tab K C f) = none := by
  unfold confBody tab
  rw [idx_mkArr K _ a ha]
  simp only [Option.bind_some]
  rw [idx_mkArr_none C _ b hb]
  rfl

/-- pairs of naturals as numpy ints. -/
def castPairs (ps : List (Nat × Nat)) : List (Int × Int) := ps.map (fun p => (Int.ofNat p.1, Int.ofNat p.2))

theorem zip_cast (l p : List Nat) :
    (castArr l).toList.zip (castArr p).toList = castPairs (l.zip p) := by
  unfold castArr castPairs
  simp only [List.zip_map]
  simp [Prod.map]

theorem conf_fold (K C : Nat) (ps : List (Nat × Nat)) (h : ∀ p ∈ ps, p.1 < K ∧ p.2 < C) (f : Nat → Nat → Int) :
    (castPairs ps).foldlM (fun s p => confBody p.1 p.2 s) (tab K C f) =
      some (tab K C (fun i j => f i j + ((ps.filter (fun p => p.1 == i && p.2 == j)).length : Int))) := by
  induction ps generalizing f with
  | nil => simp [castPairs]
  | cons p ps ih =>
    have hp := h p (List.mem_cons_self)
    have ht : ∀ q ∈ ps, q.1 < K ∧ q.2 < C := fun q hq => h q (List.mem_cons_of_mem _ hq)
    unfold castPairs at ih ⊢
    simp only [List.map_cons, List.foldlM_cons, Int.ofNat_eq_natCast]
    rw [confBody_step K C f p.1 p.2 hp.1 hp.2]
    simp only [Option.bind_eq_bind, Option.bind_some]
    simp only [Int.ofNat_eq_natCast] at ih
    rw [ih ht]
    congr 1
    apply tab_congr
    intro i j _ _
    simp only [List.filter_cons]
    by_cases hc : p.1 = i ∧ p.2 = j
    · obtain ⟨h1, h2⟩ := hc
      subst h1; subst h2
      simp; omega
    · have : ¬ (i = p.1 ∧ j = p.2) := fun e => hc ⟨e.1.symm, e.2.symm⟩
      have h2 : (p.1 == i && p.2 == j) = false := by
        simp only [Bool.and_eq_false_iff, beq_eq_false_iff_ne]
        by_cases h1 : p.1 = i
        · right; intro h3; exact hc ⟨h1, h3⟩
        · left; exact h1
      simp [this, h2]

theorem conf_fold_none (K C : Nat) (ps : List (Nat × Nat)) (h : ∀ p ∈ ps, p.1 < K) (hex : ∃ p ∈ ps, C ≤ p.2)
    (f : Nat → Nat → Int) :
    (castPairs ps).foldlM (fun s p => confBody p.1 p.2 s) (tab K C f) = none := by
  induction ps generalizing f with
  | nil => obtain ⟨p, hp, _⟩ := hex; cases hp
  | cons p ps ih =>
    have hp := h p (List.mem_cons_self)
    have ht : ∀ q ∈ ps, q.1 < K := fun q hq => h q (List.mem_cons_of_mem _ hq)
    unfold castPairs at ih ⊢
    simp only [List.map_cons, List.foldlM_cons, Int.ofNat_eq_natCast]
    simp only [Int.ofNat_eq_natCast] at ih
    by_cases hb : p.2 < C
    · rw [confBody_step K C f p.1 p.2 hp hb]
      simp only [Option.bind_eq_bind, Option.bind_some]
      apply ih ht
      obtain ⟨q, hq, hqC⟩ := hex
      rcases List.mem_cons.mp hq with rfl | hq
      · omega
      · exact ⟨q, hq, hqC⟩
    · rw [confBody_none K C f p.1 p.2 hp (by omega)]
      rfl


theorem cast_succ (m : Nat) : ((m : Int) + 1) = ((m + 1 : Nat) : Int) := by omega

theorem confusion_eq (labels preds : List Nat) (hne : labels ≠ []) :
    MeasImp.confusion_matrix (castArr labels) (castArr preds) =
      (castPairs (labels.zip preds)).foldlM (fun s p => confBody p.1 p.2 s)
        (tab (nClass labels) (nClass labels) (fun _ _ => 0)) := by
  unfold MeasImp.confusion_matrix
  simp only [npMax_cast _ hne, Option.bind_eq_bind, Option.bind_some, cast_succ, zeros2_nat]
  unfold Py.forZip
  rw [zip_cast]
  rfl

theorem lt_nClass (labels : List Nat) (x : Nat) (h : x ∈ labels) : x < nClass labels := by
  unfold nClass
  have := (le_foldl_max labels 0).2 x h
  omega

theorem confusion_refines (labels preds : List Nat) (_hl : labels.length = preds.length) (hne : labels ≠ [])
    (hp : ∀ p ∈ preds, p < nClass labels) :
    MeasImp.confusion_matrix (castArr labels) (castArr preds) =
      some ((confusion labels preds).map castArr).toArray := by
  rw [confusion_eq labels preds hne, conf_fold]
  · congr 1
    unfold confusion countPairs tab mkArr castArr
    simp
  · intro p hp'
    have := List.of_mem_zip hp'
    exact ⟨lt_nClass _ _ this.1, hp _ this.2⟩

theorem confusion_raises_empty (preds : List Nat) : MeasImp.confusion_matrix (castArr []) (castArr preds) = none := rfl

theorem mem_zip_of_mem_right (l q : List Nat) (hl : l.length = q.length) (p : Nat) (hp : p ∈ q) :
    ∃ a, (a, p) ∈ l.zip q := by
  obtain ⟨i, hi, rfl⟩ := List.mem_iff_getElem.mp hp
  refine ⟨l[i]'(by omega), ?_⟩
  apply List.mem_iff_getElem.mpr
  refine ⟨i, by simp; omega, ?_⟩
  simp

theorem confusion_raises_beyond (labels preds : List Nat) (hl : labels.length = preds.length)
    (hp : ∃ p ∈ preds, nClass labels ≤ p) :
    MeasImp.confusion_matrix (castArr labels) (castArr preds) = none := by
  have hne : labels ≠ [] := by
    intro h
    subst h
    obtain ⟨p, hp, _⟩ := hp
    cases preds with
    | nil => cases hp
    | cons _ _ => simp at hl
  rw [confusion_eq labels preds hne]
  apply conf_fold_none
  · intro p hp'
    exact lt_nClass _ _ (List.of_mem_zip hp').1
  · obtain ⟨p, hp1, hp2⟩ := hp
    obtain ⟨a, ha⟩ := mem_zip_of_mem_right labels preds hl p hp1
    exact ⟨(a, p), ha, hp2⟩


/-! ### bincount -/

theorem nClassAcc_cast (labels preds : List Nat) :
    max ((labels.foldl max 0 : Nat) : Int) ((preds.foldl max 0 : Nat) : Int) + 1 = ((nClassAcc labels preds : Nat) : Int) := by
  unfold nClassAcc; omega

/-! ### the `opf_accuracy` loop -/

theorem idx_mkArr_zero {α : Type} (n : Nat) (g : Nat → α) (hn : 0 < n) : Py.idx (mkArr n g) 0 = some (g 0) :=
  idx_mkArr n g 0 hn
theorem idx_mkArr_one {α : Type} (n : Nat) (g : Nat → α) (hn : 1 < n) : Py.idx (mkArr n g) 1 = some (g 1) :=
  idx_mkArr n g 1 hn
theorem setIdx_mkArr_zero {α : Type} (n : Nat) (g : Nat → α) (v : α) (hn : 0 < n) :
    Py.setIdx (mkArr n g) 0 v = some (mkArr n (fun j => if j = 0 then v else g j)) :=
  setIdx_mkArr n g 0 v hn
theorem setIdx_mkArr_one {α : Type} (n : Nat) (g : Nat → α) (v : α) (hn : 1 < n) :
    Py.setIdx (mkArr n g) 1 v = some (mkArr n (fun j => if j = 1 then v else g j)) :=
  setIdx_mkArr n g 1 v hn

/-- body of the `opf_accuracy` loop, as generated. -/
def accBody (label pred : Int) (errors : Array (Array Int)) : Option (Array (Array Int)) :=
  if decide (label ≠ pred) = true then
    (Py.idx errors pred).bind fun t9 =>
      (Py.idx t9 0).bind fun t10 =>
        (Py.setIdx t9 0 (t10 + 1)).bind fun t9 =>
          (Py.setIdx errors pred t9).bind fun errors =>
            (Py.idx errors label).bind fun t11 =>
              (Py.idx t11 1).bind fun t12 =>
                (Py.setIdx t11 1 (t12 + 1)).bind fun t11 => Py.setIdx errors label t11
  else pure errors

theorem accBody_eq (K : Nat) (f : Nat → Nat → Int) (a : Nat) :
    accBody (a : Int) (a : Int) (tab K 2 f) = some (tab K 2 f) := by
  unfold accBody
  simp

theorem accBody_ne (K : Nat) (f : Nat → Nat → Int) (a b : Nat) (ha : a < K) (hb : b < K) (hab : a ≠ b) :
    accBody (a : Int) (b : Int) (tab K 2 f) =
      some (tab K 2 (fun i j => f i j + (if i = b ∧ j = 0 then 1 else 0) + (if i = a ∧ j = 1 then 1 else 0))) := by
  unfold accBody tab
  have hne : ((a : Int) ≠ (b : Int)) := by omega
  simp only [hne, ne_eq, not_false_eq_true, decide_true, if_true]
  rw [idx_mkArr K _ b hb]
  simp only [Option.bind_some]
  rw [idx_mkArr_zero 2 _ (by omega)]
  simp only [Option.bind_some]
  rw [setIdx_mkArr_zero 2 _ _ (by omega)]
  simp only [Option.bind_some]
  rw [setIdx_mkArr K _ b _ hb]
  simp only [Option.bind_some]
  rw [idx_mkArr K _ a ha]
  simp only [Option.bind_some, hab, if_false]
  rw [idx_mkArr_one 2 _ (by omega)]
  simp only [Option.bind_some]
  rw [setIdx_mkArr_one 2 _ _ (by omega)]
  simp only [Option.bind_some]
  rw [setIdx_mkArr K _ a _ ha]
  congr 1
  apply mkArr_congr
  intro i hi
  by_cases hia : i = a
  · subst hia
    simp only [if_true, true_and, hab, false_and, if_false]
    apply mkArr_congr
    intro j hj
    by_cases hj1 : j = 1
    · subst hj1; simp
    · simp [hj1]
  · simp only [hia, if_false, false_and]
    by_cases hib : i = b
    · subst hib
      simp only [if_true, true_and]
      apply mkArr_congr
      intro j hj
      by_cases hj0 : j = 0
      · subst hj0; simp
      · simp [hj0]
    · simp only [hib, if_false, false_and]
      apply mkArr_congr
      intro j hj
      simp

theorem filter_cons_length {α : Type} (q : α → Bool) (p : α) (ps : List α) :
    (((p :: ps).filter q).length : Int) = (if q p then 1 else 0) + ((ps.filter q).length : Int) := by
  simp only [List.filter_cons]
  by_cases h : q p
  · simp [h]; omega
  · simp [h]

theorem acc_fold (K : Nat) (ps : List (Nat × Nat)) (h : ∀ p ∈ ps, p.1 < K ∧ p.2 < K) (f : Nat → Nat → Int) :
    (castPairs ps).foldlM (fun s p => accBody p.1 p.2 s) (tab K 2 f) =
      some (tab K 2 (fun i j => f i j +
        (if j = 0 then ((ps.filter (fun p => p.1 != p.2 && p.2 == i)).length : Int)
         else ((ps.filter (fun p => p.1 != p.2 && p.1 == i)).length : Int)))) := by
  induction ps generalizing f with
  | nil => simp [castPairs]
  | cons p ps ih =>
    have hp := h p (List.mem_cons_self)
    have ht : ∀ q ∈ ps, q.1 < K ∧ q.2 < K := fun q hq => h q (List.mem_cons_of_mem _ hq)
    unfold castPairs at ih ⊢
    simp only [List.map_cons, List.foldlM_cons, Int.ofNat_eq_natCast]
    simp only [Int.ofNat_eq_natCast] at ih
    by_cases hab : p.1 = p.2
    · rw [hab, accBody_eq K f p.2]
      simp only [Option.bind_eq_bind, Option.bind_some]
      rw [ih ht]
      congr 1
      apply tab_congr
      intro i j _ _
      simp only [filter_cons_length, hab]
      simp
    · rw [accBody_ne K f p.1 p.2 hp.1 hp.2 hab]
      simp only [Option.bind_eq_bind, Option.bind_some]
      rw [ih ht]
      congr 1
      apply tab_congr
      intro i j _ hj
      simp only [filter_cons_length]
      have h1 : (p.1 != p.2) = true := by simpa using hab
      by_cases hj0 : j = 0
      · subst hj0
        by_cases hib : i = p.2
        · subst hib; simp [h1]; omega
        · have : ¬ p.2 = i := fun e => hib e.symm
          simp [hib, this]
      · have hj1 : j = 1 := by omega
        subst hj1
        by_cases hia : i = p.1
        · subst hia; simp [h1]; omega
        · have : ¬ p.1 = i := fun e => hia e.symm
          simp [hia, this]

theorem filter_cast_length (l : List Nat) (v : Nat) :
    ((l.map Int.ofNat).filter (· == (v : Int))).length = classCount l v := by
  unfold classCount
  induction l with
  | nil => rfl
  | cons x xs ih =>
    simp only [List.map_cons, List.filter_cons]
    by_cases h : x = v
    · subst h; simp [ih]
    · have : ¬ ((x : Int) = (v : Int)) := by omega
      simp only [Int.ofNat_eq_natCast, beq_iff_eq, this, h, if_false]
      simpa using ih

theorem foldl_max_neg_one (l : List Nat) (hne : l ≠ []) :
    (l.map Int.ofNat).foldl max (-1) = ((l.foldl max 0 : Nat) : Int) := by
  cases l with
  | nil => exact absurd rfl hne
  | cons x xs =>
    simp only [List.map_cons, List.foldl_cons]
    have : max (-1) (Int.ofNat x) = ((max 0 x : Nat) : Int) := by
      simp only [Int.ofNat_eq_natCast]; omega
    rw [this, foldl_max_cast]

theorem bincount_cast (labels : List Nat) (hne : labels ≠ []) (K : Nat) (hK : labels.foldl max 0 + 1 ≤ K) :
    Py.bincount (castArr labels) (K : Int) = some (mkArr K (fun c => ((classCount labels c : Nat) : Int))) := by
  unfold Py.bincount
  have h1 : ¬ ((K : Int) < 0 ∨ (castArr labels).any (· < 0) = true) := by
    intro h
    rcases h with h | h
    · omega
    · simp [castArr] at h
      obtain ⟨x, _, hx⟩ := h
      omega
  simp only [h1, if_false]
  have h2 : (castArr labels).toList = labels.map Int.ofNat := by simp [castArr]
  rw [h2, foldl_max_neg_one labels hne]
  have h3 : max (K : Int).toNat (((labels.foldl max 0 : Nat) : Int) + 1).toNat = K := by omega
  simp only [filter_cast_length]
  rw [h3]
  rw [ofFn_eq_mkArr K (fun c => ((classCount labels c : Nat) : Int))]

theorem lt_nClassAcc (labels preds : List Nat) (p : Nat × Nat) (h : p ∈ labels.zip preds) :
    p.1 < nClassAcc labels preds ∧ p.2 < nClassAcc labels preds := by
  have h' := List.of_mem_zip h
  have h1 := (le_foldl_max labels 0).2 p.1 h'.1
  have h2 := (le_foldl_max preds 0).2 p.2 h'.2
  unfold nClassAcc
  omega

theorem accuracy_counts_refines (labels preds : List Nat) (hl : labels.length = preds.length) (hne : labels ≠ []) :
    MeasImp.opf_accuracy (castArr labels) (castArr preds) =
      some (castArr ((List.range (nClassAcc labels preds)).map (classCount labels)),
            ((List.range (nClassAcc labels preds)).map (fun c => castArr [falsePos labels preds c, falseNeg labels preds c])).toArray,
            (nClassAcc labels preds : Int)) := by
  have hne' : preds ≠ [] := by
    intro h; subst h; cases labels with
    | nil => exact hne rfl
    | cons _ _ => simp at hl
  unfold MeasImp.opf_accuracy
  simp only [npMax_cast _ hne, npMax_cast _ hne', Option.bind_eq_bind, Option.bind_some, nClassAcc_cast]
  rw [show (2 : Int) = ((2 : Nat) : Int) from rfl, zeros2_nat]
  simp only [Option.bind_some]
  unfold Py.forZip
  rw [zip_cast]
  rw [bincount_cast labels hne (nClassAcc labels preds) (by unfold nClassAcc; omega)]
  simp only [Option.bind_some]
  have := acc_fold (nClassAcc labels preds) (labels.zip preds) (lt_nClassAcc labels preds) (fun _ _ => 0)
  unfold accBody tab at this
  rw [this]
  simp only [Option.bind_some, pure]
  congr 2
  · simp [mkArr, castArr]
  · congr 1
    unfold mkArr castArr falsePos falseNeg countPairs
    simp [List.range_succ]


/-! ### the `opf_accuracy_per_label` loop -/

/-- body of the `opf_accuracy_per_label` loop, as generated. -/
def plBody (label pred : Int) (errors : Array Int) : Option (Array Int) :=
  if decide (label ≠ pred) = true then
    (Py.idx errors label).bind fun t15 => Py.setIdx errors label (t15 + 1)
  else pure errors

theorem plBody_step (K : Nat) (e : Nat → Int) (a b : Nat) (ha : a < K) :
    plBody (a : Int) (b : Int) (mkArr K e) =
      some (mkArr K (fun i => e i + if a ≠ b ∧ i = a then 1 else 0)) := by
  unfold plBody
  by_cases hab : a = b
  · subst hab; simp
  · have hne : ((a : Int) ≠ (b : Int)) := by omega
    simp only [hne, ne_eq, not_false_eq_true, decide_true, if_true]
    rw [idx_mkArr K _ a ha]
    simp only [Option.bind_some]
    rw [setIdx_mkArr K _ a _ ha]
    congr 1
    apply mkArr_congr
    intro i _
    by_cases hia : i = a
    · subst hia; simp [hab]
    · simp [hia]

theorem pl_fold (K : Nat) (ps : List (Nat × Nat)) (h : ∀ p ∈ ps, p.1 < K) (e : Nat → Int) :
    (castPairs ps).foldlM (fun s p => plBody p.1 p.2 s) (mkArr K e) =
      some (mkArr K (fun i => e i + ((ps.filter (fun p => p.1 != p.2 && p.1 == i)).length : Int))) := by
  induction ps generalizing e with
  | nil => simp [castPairs]
  | cons p ps ih =>
    have hp := h p (List.mem_cons_self)
    have ht : ∀ q ∈ ps, q.1 < K := fun q hq => h q (List.mem_cons_of_mem _ hq)
    unfold castPairs at ih ⊢
    simp only [List.map_cons, List.foldlM_cons, Int.ofNat_eq_natCast]
    simp only [Int.ofNat_eq_natCast] at ih
    rw [plBody_step K e p.1 p.2 hp]
    simp only [Option.bind_eq_bind, Option.bind_some]
    rw [ih ht]
    congr 1
    apply mkArr_congr
    intro i _
    simp only [filter_cons_length]
    by_cases hab : p.1 = p.2
    · simp [hab]
    · have h1 : (p.1 != p.2) = true := by simpa using hab
      by_cases hia : i = p.1
      · subst hia; simp [h1, hab]; omega
      · have : ¬ p.1 = i := fun e => hia e.symm
        simp [hia, this]

theorem per_label_counts_refines (labels preds : List Nat) (hne : labels ≠ []) :
    MeasImp.opf_accuracy_per_label (castArr labels) (castArr preds) =
      some (Py.uniqueCounts (castArr labels), castArr ((List.range (nClass labels)).map (falseNeg labels preds))) := by
  unfold MeasImp.opf_accuracy_per_label
  simp only [npMax_cast _ hne, Option.bind_eq_bind, Option.bind_some, cast_succ, zeros1_nat]
  unfold Py.forZip
  rw [zip_cast]
  have := pl_fold (nClass labels) (labels.zip preds)
    (fun p hp => lt_nClass _ _ (List.of_mem_zip hp).1) (fun _ => 0)
  unfold plBody nClass at this
  rw [this]
  simp only [Option.bind_some, pure]
  congr 2
  unfold mkArr castArr falseNeg countPairs nClass
  simp

/-! ### class sizes add up -/

theorem filter_lt_succ (l : List Nat) (K : Nat) :
    (l.filter (· < K + 1)).length = (l.filter (· < K)).length + (l.filter (· == K)).length := by
  induction l with
  | nil => rfl
  | cons x xs ih =>
    simp only [List.filter_cons]
    by_cases h1 : x < K
    · have h2 : x < K + 1 := by omega
      have h3 : ¬ x = K := by omega
      simp [h1, h2, h3]; omega
    · by_cases h3 : x = K
      · subst h3; simp; omega
      · have h2 : ¬ x < K + 1 := by omega
        simp [h1, h2, h3]; simpa using ih

theorem sum_counts_lt (l : List Nat) (K : Nat) :
    ((List.range K).map (classCount l)).foldl (· + ·) 0 = (l.filter (· < K)).length := by
  induction K with
  | zero =>
    have : l.filter (fun _ => false) = [] := by induction l <;> simp_all
    simp [this]
  | succ K ih =>
    rw [List.range_succ, List.map_append, List.foldl_append, ih, filter_lt_succ]
    simp [classCount]

theorem counts_sum (labels preds : List Nat) :
    ((List.range (nClassAcc labels preds)).map (classCount labels)).foldl (· + ·) 0 = labels.length := by
  rw [sum_counts_lt]
  congr 1
  apply List.filter_eq_self.mpr
  intro a ha
  have := (le_foldl_max labels 0).2 a ha
  unfold nClassAcc
  simp; omega

/-! ### `np.unique(…, return_counts=True)` -/

/-- the association list of the classes `s ≤ c < s + n` with a non-zero multiplicity `cnt c`. -/
def Fs (s n : Nat) (cnt : Nat → Nat) : List (Int × Int) :=
  ((List.range' s n).filter (fun c => cnt c != 0)).map (fun (c : Nat) => ((c : Int), ((cnt c : Nat) : Int)))

theorem Fs_congr (s n : Nat) (cnt cnt' : Nat → Nat) (h : ∀ c, s ≤ c → c < s + n → cnt c = cnt' c) :
    Fs s n cnt = Fs s n cnt' := by
  unfold Fs
  have h1 : (List.range' s n).filter (fun c => cnt c != 0) = (List.range' s n).filter (fun c => cnt' c != 0) := by
    apply List.filter_congr
    intro c hc
    have := List.mem_range'_1.mp hc
    rw [h c this.1 this.2]
  rw [h1]
  apply List.map_congr_left
  intro c hc
  have := List.mem_range'_1.mp (List.mem_filter.mp hc).1
  rw [h c this.1 this.2]

theorem Fs_keys (s n : Nat) (cnt : Nat → Nat) (p : Int × Int) (hp : p ∈ Fs s n cnt) : (s : Int) ≤ p.1 := by
  unfold Fs at hp
  obtain ⟨c, hc, rfl⟩ := List.mem_map.mp hp
  have := List.mem_range'_1.mp (List.mem_filter.mp hc).1
  simp only; omega

theorem insertCount_lt (x : Int) (L : List (Int × Int)) (h : ∀ p ∈ L, x < p.1) :
    Py.insertCount x L = (x, 1) :: L := by
  cases L with
  | nil => rfl
  | cons p rest =>
    obtain ⟨v, c⟩ := p
    have := h (v, c) (List.mem_cons_self)
    simp only at this
    unfold Py.insertCount
    have h1 : ¬ x = v := by omega
    simp [h1, this]

theorem Fs_succ (s n : Nat) (cnt : Nat → Nat) :
    Fs s (n + 1) cnt =
      if cnt s != 0 then ((s : Int), ((cnt s : Nat) : Int)) :: Fs (s + 1) n cnt else Fs (s + 1) n cnt := by
  unfold Fs
  rw [List.range'_succ, List.filter_cons]
  by_cases h : (cnt s != 0) = true
  · simp only [h, if_true, List.map_cons]
  · simp only [h]; simp

theorem insertCount_Fs (n s x : Nat) (cnt : Nat → Nat) (h1 : s ≤ x) (h2 : x < s + n) :
    Py.insertCount (x : Int) (Fs s n cnt) = Fs s n (fun c => cnt c + if c = x then 1 else 0) := by
  induction n generalizing s with
  | zero => omega
  | succ n ih =>
    rw [Fs_succ, Fs_succ]
    by_cases hsx : s = x
    · subst hsx
      have hc : Fs (s + 1) n (fun c => cnt c + if c = s then 1 else 0) = Fs (s + 1) n cnt := by
        apply Fs_congr
        intro c hc _
        have : ¬ c = s := by omega
        simp [this]
      rw [hc]
      have h3 : ((cnt s + if s = s then 1 else 0) != 0) = true := by simp
      simp only [if_true]
      by_cases h0 : cnt s = 0
      · simp only [h0, bne_self_eq_false, Bool.false_eq_true, if_false]
        rw [insertCount_lt]
        · simp
        · intro p hp
          have := Fs_keys _ _ _ p hp
          omega
      · have : (cnt s != 0) = true := by simpa using h0
        simp only [this, if_true]
        unfold Py.insertCount
        simp
    · have hcs : (cnt s + if s = x then 1 else 0) = cnt s := by simp [hsx]
      rw [hcs]
      by_cases h0 : (cnt s != 0) = true
      · simp only [h0, if_true]
        rw [Py.insertCount]
        have h3 : ¬ ((x : Int) = (s : Int)) := by omega
        have h4 : ¬ ((x : Int) < (s : Int)) := by omega
        simp only [h3, h4, if_false]
        rw [ih (s + 1) (by omega) (by omega)]
      · simp only [h0]
        exact ih (s + 1) (by omega) (by omega)

theorem insertCount_fold (K : Nat) (l : List Nat) (h : ∀ x ∈ l, x < K) (cnt : Nat → Nat) :
    (l.map Int.ofNat).foldl (fun acc x => Py.insertCount x acc) (Fs 0 K cnt) =
      Fs 0 K (fun c => cnt c + classCount l c) := by
  induction l generalizing cnt with
  | nil => simp [classCount]
  | cons x xs ih =>
    simp only [List.map_cons, List.foldl_cons, Int.ofNat_eq_natCast]
    rw [insertCount_Fs K 0 x cnt (by omega) (by have := h x (List.mem_cons_self); omega)]
    rw [ih (fun y hy => h y (List.mem_cons_of_mem _ hy))]
    apply Fs_congr
    intro c _ _
    unfold classCount
    simp only [List.filter_cons]
    by_cases hcx : c = x
    · subst hcx; simp; omega
    · have : ¬ x = c := fun e => hcx e.symm
      simp [hcx, this]

theorem uniqueCounts_all_present (labels : List Nat) (hall : ∀ c, c < nClass labels → c ∈ labels) :
    Py.uniqueCounts (castArr labels) = castArr ((List.range (nClass labels)).map (classCount labels)) := by
  unfold Py.uniqueCounts
  have h2 : (castArr labels).toList = labels.map Int.ofNat := by simp [castArr]
  have h0 : ([] : List (Int × Int)) = Fs 0 (nClass labels) (fun _ => 0) := by
    unfold Fs; simp
  rw [h2, h0, insertCount_fold (nClass labels) labels (fun x hx => lt_nClass _ _ hx)]
  unfold Fs castArr
  congr 1
  have h3 : (List.range' 0 (nClass labels)).filter (fun c => (0 + classCount labels c) != 0) =
      List.range' 0 (nClass labels) := by
    apply List.filter_eq_self.mpr
    intro c hc
    have hc' := hall c (by have := List.mem_range'_1.mp hc; omega)
    have : 0 < classCount labels c := by
      unfold classCount
      apply List.length_pos_iff.mpr
      intro he
      have : c ∈ labels.filter (· == c) := List.mem_filter.mpr ⟨hc', by simp⟩
      rw [he] at this
      cases this
    simp; omega
  rw [h3]
  simp [List.range_eq_range']

/-! ### `np.sum(np.max(M, axis=0))` -/

theorem mkArr_getD {α : Type} (n : Nat) (g : Nat → α) (j : Nat) (d : α) (hj : j < n) :
    (mkArr n g).getD j d = g j := by
  simp [mkArr, Array.getD, hj]

theorem sum_cast (l : List Nat) (G : Nat → Int) (g : Nat → Nat) (acc : Nat) (h : ∀ j ∈ l, G j = ((g j : Nat) : Int)) :
    l.foldl (fun acc j => acc + G j) (acc : Int) = (((l.map g).foldl (· + ·) acc : Nat) : Int) := by
  induction l generalizing acc with
  | nil => rfl
  | cons x xs ih =>
    simp only [List.foldl_cons, List.map_cons]
    rw [h x (List.mem_cons_self)]
    have : (acc : Int) + ((g x : Nat) : Int) = ((acc + g x : Nat) : Int) := by omega
    rw [this, ih _ (fun j hj => h j (List.mem_cons_of_mem _ hj))]

theorem max_cast_fold (l : List Nat) (h : Nat → Nat) (init : Nat) :
    l.foldl (fun mx a => max mx ((h a : Nat) : Int)) (init : Int) = (((l.map h).foldl max init : Nat) : Int) := by
  induction l generalizing init with
  | nil => rfl
  | cons x xs ih =>
    simp only [List.foldl_cons, List.map_cons]
    have : max (init : Int) ((h x : Nat) : Int) = ((max init (h x) : Nat) : Int) := by omega
    rw [this, ih]

theorem sumColMax_tab (m : Nat) (f : Nat → Nat → Nat) :
    Py.sumColMax (tab (m + 1) (m + 1) (fun a b => ((f a b : Nat) : Int))) =
      some ((((List.range (m + 1)).map (fun b => ((List.range (m + 1)).map (fun a => f a b)).foldl max 0)).foldl
        (· + ·) 0 : Nat) : Int) := by
  have hM : (tab (m + 1) (m + 1) (fun a b => ((f a b : Nat) : Int))).toList =
      mkArr (m + 1) (fun b => ((f 0 b : Nat) : Int)) ::
        (List.range m).map (fun a => mkArr (m + 1) (fun b => ((f (a + 1) b : Nat) : Int))) := by
    simp [tab, mkArr, List.range_succ_eq_map]
  unfold Py.sumColMax
  rw [hM]
  simp only [mkArr_size]
  congr 1
  have := sum_cast (List.range (m + 1))
    (fun j => ((List.range m).map (fun a => mkArr (m + 1) (fun b => ((f (a + 1) b : Nat) : Int)))).foldl
        (fun mx r => max mx (r.getD j 0)) ((mkArr (m + 1) (fun b => ((f 0 b : Nat) : Int))).getD j 0))
    (fun b => ((List.range (m + 1)).map (fun a => f a b)).foldl max 0) 0 ?_
  · simpa using this
  · intro j hj
    have hj' : j < m + 1 := List.mem_range.mp hj
    simp only [List.foldl_map, mkArr_getD _ _ _ _ hj']
    rw [max_cast_fold (List.range m) (fun a => f (a + 1) j) (f 0 j)]
    congr 1
    rw [List.range_succ_eq_map]
    simp [List.foldl_map]

theorem confusion_getD (labels preds : List Nat) (a b : Nat) (ha : a < nClass labels) (hb : b < nClass labels) :
    ((confusion labels preds).getD a []).getD b 0 = countPairs (fun l p => l == a && p == b) labels preds := by
  unfold confusion
  simp [List.getD, ha, hb]

theorem purity_counts_refines (labels preds : List Nat) (hl : labels.length = preds.length) (hne : labels ≠ [])
    (hp : ∀ p ∈ preds, p < nClass labels) :
    MeasImp.purity (castArr labels) (castArr preds) =
      some (((((List.range (nClass labels)).map (fun b => ((List.range (nClass labels)).map
              (fun a => ((confusion labels preds).getD a []).getD b 0)).foldl max 0)).foldl (· + ·) 0 : Nat) : Int),
            (labels.length : Int)) := by
  unfold MeasImp.purity
  rw [confusion_refines labels preds hl hne hp]
  have hT : ((confusion labels preds).map castArr).toArray =
      tab (nClass labels) (nClass labels)
        (fun a b => ((countPairs (fun l p => l == a && p == b) labels preds : Nat) : Int)) := by
    unfold confusion tab mkArr castArr
    simp
  rw [hT]
  simp only [Option.bind_eq_bind, Option.bind_some]
  have hs := sumColMax_tab (labels.foldl max 0) (fun a b => countPairs (fun l p => l == a && p == b) labels preds)
  unfold nClass at *
  rw [hs]
  simp only [Option.bind_some, pure]
  congr 3
  · congr 1
    apply List.map_congr_left
    intro b hb
    congr 1
    apply List.map_congr_left
    intro a ha
    rw [confusion_getD _ _ _ _ (List.mem_range.mp ha) (List.mem_range.mp hb)]
  · simp [castArr]

end Opf.MeasRefine
