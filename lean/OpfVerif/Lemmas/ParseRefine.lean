/-
Helper lemmas for `Props/C18ParseRefine.lean` (the translated `parse_loader` against `parseCols` / `parseAccept` of
`Model/Stream.lean`).
-/
import OpfVerif.Gen.ParseImp
import OpfVerif.Props.C18
namespace Opf.ParseRefine
open Opf Opf.Gen

/-- the label column as the model sees it. -/
def labelCol (data : Array (Array Int)) : List Int := data.toList.map (fun r => r.getD 1 0)

/-! ### `insertCount`: keys stay strictly increasing, members are the old keys plus the new value -/

theorem mem_insertCount_keys (x v : Int) (l : List (Int × Int)) :
    v ∈ (Py.insertCount x l).map (·.1) ↔ (v = x ∨ v ∈ l.map (·.1)) := by
  induction l with
  | nil => simp [Py.insertCount]
  | cons p rest ih =>
    obtain ⟨w, c⟩ := p
    unfold Py.insertCount
    split
    · rename_i hxw
      subst hxw
      simp only [List.map_cons, List.mem_cons]
      constructor
      · rintro (h | h)
        · exact Or.inl h
        · exact Or.inr (Or.inr h)
      · rintro (h | h | h)
        · exact Or.inl h
        · exact Or.inl h
        · exact Or.inr h
    · split
      · simp only [List.map_cons, List.mem_cons]
      · simp only [List.map_cons, List.mem_cons, ih]
        constructor
        · rintro (h | h | h)
          · exact Or.inr (Or.inl h)
          · exact Or.inl h
          · exact Or.inr (Or.inr h)
        · rintro (h | h | h)
          · exact Or.inr (Or.inl h)
          · exact Or.inl h
          · exact Or.inr (Or.inr h)

theorem insertCount_keys_sorted (x : Int) (l : List (Int × Int))
    (hs : (l.map (·.1)).Pairwise (· < ·)) : ((Py.insertCount x l).map (·.1)).Pairwise (· < ·) := by
  induction l with
  | nil => simp [Py.insertCount]
  | cons p rest ih =>
    obtain ⟨w, c⟩ := p
    simp only [List.map_cons, List.pairwise_cons] at hs
    obtain ⟨hw, hrest⟩ := hs
    unfold Py.insertCount
    split
    · simp only [List.map_cons, List.pairwise_cons]
      exact ⟨hw, hrest⟩
    · rename_i hne
      split
      · rename_i hlt
        simp only [List.map_cons, List.pairwise_cons, List.mem_cons]
        refine ⟨?_, hw, hrest⟩
        rintro a (rfl | ha)
        · exact hlt
        · exact Int.lt_trans hlt (hw a ha)
      · rename_i hnlt
        simp only [List.map_cons, List.pairwise_cons]
        refine ⟨?_, ih hrest⟩
        intro a ha
        rw [mem_insertCount_keys] at ha
        rcases ha with rfl | ha
        · omega
        · exact hw a ha

theorem foldl_insertCount_keys (l : List Int) : ∀ acc : List (Int × Int),
    (acc.map (·.1)).Pairwise (· < ·) →
    ((l.foldl (fun acc x => Py.insertCount x acc) acc).map (·.1)).Pairwise (· < ·) ∧
    ∀ v, v ∈ (l.foldl (fun acc x => Py.insertCount x acc) acc).map (·.1) ↔
      (v ∈ acc.map (·.1) ∨ v ∈ l) := by
  induction l with
  | nil => intro acc h; simp [h]
  | cons a l ih =>
    intro acc h
    rw [List.foldl_cons]
    obtain ⟨h1, h2⟩ := ih (Py.insertCount a acc) (insertCount_keys_sorted a acc h)
    refine ⟨h1, fun v => ?_⟩
    rw [h2 v, mem_insertCount_keys, List.mem_cons]
    constructor
    · rintro ((h | h) | h)
      · exact Or.inr (Or.inl h)
      · exact Or.inl h
      · exact Or.inr (Or.inr h)
    · rintro (h | h | h)
      · exact Or.inl (Or.inr h)
      · exact Or.inl (Or.inl h)
      · exact Or.inr h

/-- `np.unique` of the translation is `uniqueSorted` of the model. -/
theorem uniqueVals_toList (Y : Array Int) : (Py.uniqueVals Y).toList = uniqueSorted Y.toList := by
  obtain ⟨h1, h2⟩ := foldl_insertCount_keys Y.toList [] (by simp)
  refine List.Pairwise.eq_of_mem_iff (r := (· < · : Int → Int → Prop)) h1 (uniqueSorted_sorted _) (fun v => ?_)
  show v ∈ (Y.toList.foldl (fun acc x => Py.insertCount x acc) []).map (·.1) ↔ _
  rw [h2 v, mem_uniqueSorted]
  simp

/-- the guard of the translation is `parseAccept`. -/
theorem guard_iff (Y : Array Int) :
    Py.uniqueVals Y = Py.arange ((Py.uniqueVals Y).size : Int) ↔ parseAccept Y.toList = true := by
  rw [parseAccept_iff_eq, ← uniqueVals_toList]
  constructor
  · intro h
    have := congrArg Array.toList h
    simpa [Py.arange] using this
  · intro h
    apply Array.ext'
    simpa [Py.arange] using h

theorem idx_one (r : Array Int) (h : 2 ≤ r.size) : Py.idx r (1 : Int) = some (r.getD 1 0) := by
  have h1 : 1 < r.size := by omega
  simp [Py.idx, Py.resolve, h1, Array.getD_eq_getD_getElem?]

theorem idx_one_short (r : Array Int) (h : r.size < 2) : Py.idx r (1 : Int) = none := by
  have h1 : ¬ 1 < r.size := by omega
  simp [Py.idx, Py.resolve, h1]

theorem sliceFrom_two (r : Array Int) (h : 2 ≤ r.size) : Py.sliceFrom r (2 : Int) = r.extract 2 r.size := by
  have : min (2 : Int) (r.size : Int) = 2 := by omega
  simp [Py.sliceFrom, this]

theorem list_mapM_idx (l : List (Array Int)) (h : ∀ row ∈ l, 2 ≤ row.size) :
    l.mapM (fun row => Py.idx row (1 : Int)) = some (l.map (fun r => r.getD 1 0)) := by
  induction l with
  | nil => rfl
  | cons a l ih =>
    rw [List.mapM_cons, idx_one a (h a List.mem_cons_self),
      ih (fun row hr => h row (List.mem_cons_of_mem _ hr))]
    rfl

theorem list_mapM_idx_short (l : List (Array Int)) (h : ∃ row ∈ l, row.size < 2) :
    l.mapM (fun row => Py.idx row (1 : Int)) = none := by
  induction l with
  | nil => obtain ⟨r, hr, _⟩ := h; cases hr
  | cons a l ih =>
    rw [List.mapM_cons]
    by_cases ha : a.size < 2
    · rw [idx_one_short a ha]; rfl
    · obtain ⟨r, hr, hlt⟩ := h
      rcases List.mem_cons.1 hr with rfl | hr
      · exact absurd hlt ha
      · rw [ih ⟨r, hr, hlt⟩]
        cases Py.idx a (1 : Int) <;> rfl

theorem parse_loader_refines (data : Array (Array Int)) (h : ∀ row ∈ data, 2 ≤ row.size) :
    ParseImp.parse_loader data =
      if parseAccept (labelCol data) then
        some (data.map (fun r => r.extract 2 r.size), (labelCol data).toArray)
      else none := by
  have hm : data.mapM (fun row => Py.idx row (1 : Int)) = some (labelCol data).toArray := by
    rw [Array.mapM_eq_mapM_toList, list_mapM_idx _ (fun row hr => h row (Array.mem_toList_iff.1 hr))]
    rfl
  have hX : data.map (fun row => Py.sliceFrom row (2 : Int)) = data.map (fun r => r.extract 2 r.size) :=
    Array.map_congr_left (fun r hr => sliceFrom_two r (h r hr))
  unfold ParseImp.parse_loader
  rw [hm, hX]
  have hd : decide (Py.uniqueVals (labelCol data).toArray =
      Py.arange ((Py.uniqueVals (labelCol data).toArray).size : Int)) = parseAccept (labelCol data) := by
    rw [Bool.eq_iff_iff, decide_eq_true_iff, guard_iff]
  simp only [Option.pure_def, Option.bind_eq_bind, Option.bind_some, hd]
  cases parseAccept (labelCol data) <;> rfl

theorem parse_loader_short_row (data : Array (Array Int)) (h : ∃ row ∈ data, row.size < 2) :
    ParseImp.parse_loader data = none := by
  have hm : data.mapM (fun row => Py.idx row (1 : Int)) = none := by
    obtain ⟨r, hr, hlt⟩ := h
    rw [Array.mapM_eq_mapM_toList, list_mapM_idx_short _ ⟨r, Array.mem_toList_iff.2 hr, hlt⟩]
    rfl
  unfold ParseImp.parse_loader
  rw [hm]
  rfl


end Opf.ParseRefine
