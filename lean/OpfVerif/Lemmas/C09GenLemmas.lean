-- helper lemmas for Props/C09Gen.lean
import OpfVerif.Props.C03Gen
import OpfVerif.Props.C09
namespace Opf.C09GenLemmas
open Opf Opf.Gen Opf.Gen.SupImp Opf.SupRefine Opf.FitCompose Opf.GenCompose

/-! ### `predict` never assigns `trained` -/

/-- an invariant of the body that holds at the start holds of whatever a `while` loop returns. -/
theorem whileM_inv {σ : Type} (P : σ → Prop) (c : σ → Option Bool) (b : σ → Option σ)
    (hb : ∀ s s', P s → b s = some s' → P s') :
    ∀ s r, Py.whileM c b s = some r → P s → P r := by
  apply Py.whileM.partial_correctness
  intro f ih s r h hP
  cases hc : c s with
  | none => rw [hc] at h; cases h
  | some t =>
    rw [hc] at h
    cases t with
    | false =>
      simp only [Option.bind_eq_bind, Option.bind_some, Bool.false_eq_true, if_false,
        Option.pure_def, Option.some.injEq] at h
      rw [← h]; exact hP
    | true =>
      simp only [Option.bind_eq_bind, Option.bind_some, if_true] at h
      cases hbs : b s with
      | none => rw [hbs] at h; cases h
      | some s' =>
        rw [hbs] at h
        exact ih s' r h (hb s s' hP hbs)

/-- the same for a monadic fold over a list. -/
theorem foldlM_inv {σ α : Type} (P : σ → Prop) (b : σ → α → Option σ)
    (hb : ∀ s a s', P s → b s a = some s' → P s') :
    ∀ (L : List α) s r, L.foldlM b s = some r → P s → P r := by
  intro L
  induction L with
  | nil =>
    intro s r h hP
    simp only [List.foldlM_nil, Option.pure_def, Option.some.injEq] at h
    rw [← h]; exact hP
  | cons a L ih =>
    intro s r h hP
    rw [List.foldlM_cons] at h
    cases hbs : b s a with
    | none => rw [hbs] at h; cases h
    | some s' =>
      rw [hbs] at h
      exact ih s' r h (hb s a s' hP hbs)

/-- `Subgraph.mark_nodes` only stores into `relevant`. -/
theorem mark_nodes_trained (sg sg' : SG) (i : Int) (h : mark_nodes sg i = some (sg', ())) :
    sg'.trained = sg.trained := by
  unfold mark_nodes at h
  simp only [Option.bind_eq_bind] at h
  cases hl : Py.whileM (σ := SG × Int)
    (fun (sg, i) => (do
      let t1 ← Py.idx sg.pred i
      pure (decide (t1 ≠ (-1 : Int)))))
    (fun (sg, i) => (do
      let _g ← (if (!([(1 : Int), (0 : Int)].contains (1 : Int))) then none else pure ())
      let t2 ← Py.setIdx sg.relevant i (1 : Int)
      let sg := { sg with relevant := t2 }
      let t3 ← Py.idx sg.pred i
      let i := t3
      pure (sg, i)))
    (sg, i) with
  | none => simp only [Option.bind_eq_bind] at hl; rw [hl] at h; cases h
  | some r =>
    simp only [Option.bind_eq_bind] at hl
    rw [hl] at h
    have hr : r.1.trained = sg.trained := by
      refine whileM_inv (fun s : SG × Int => s.1.trained = sg.trained) _ _ ?_ _ _ hl rfl
      intro s s' hP hs
      obtain ⟨a, j⟩ := s
      cases h1 : (if (!([(1 : Int), (0 : Int)].contains (1 : Int))) then none else pure ()
          : Option Unit) with
      | none => rw [h1] at hs; cases hs
      | some u =>
        rw [h1] at hs
        cases h2 : Py.setIdx a.relevant j (1 : Int) with
        | none => rw [h2] at hs; cases hs
        | some t2 =>
          rw [h2] at hs
          simp only [Option.bind_some] at hs
          cases h3 : Py.idx a.pred j with
          | none => rw [h3] at hs; cases hs
          | some t3 =>
            rw [h3] at hs
            simp only [Option.bind_some, Option.pure_def, Option.some.injEq] at hs
            rw [← hs]; exact hP
    obtain ⟨a, j⟩ := r
    simp only [Option.bind_some] at h
    cases h1 : (if (!([(1 : Int), (0 : Int)].contains (1 : Int))) then none else pure ()
        : Option Unit) with
    | none => rw [h1] at h; cases h
    | some u =>
      rw [h1] at h
      cases h2 : Py.setIdx a.relevant j (1 : Int) with
      | none => rw [h2] at h; cases h
      | some t2 =>
        rw [h2] at h
        simp only [Option.bind_some, Option.pure_def, Option.some.injEq, Prod.mk.injEq] at h
        rw [← h.1]; exact hr

/-- one query of `predict` leaves `trained` alone. -/
theorem qBody_trained (WQ : Int → Int → Option Int) (i : Int) (s s' : SG × SG)
    (h : qBody WQ i s = some s') : s'.2.trained = s.2.trained := by
  obtain ⟨psg, sg⟩ := s
  simp only [qBody, Option.bind_eq_bind] at h
  cases h1 : Py.idx sg.idx_nodes (0 : Int) with
  | none => rw [h1] at h; cases h
  | some k =>
    rw [h1] at h
    simp only [Option.bind_some] at h
    cases h2 : WQ k i with
    | none => rw [h2] at h; cases h
    | some wt =>
      rw [h2] at h
      simp only [Option.bind_some] at h
      cases h3 : Py.idx sg.cost k with
      | none => rw [h3] at h; cases h
      | some c =>
        rw [h3] at h
        simp only [Option.bind_some] at h
        cases h4 : Py.idx sg.predicted_label k with
        | none => rw [h4] at h; cases h
        | some pl =>
          rw [h4] at h
          simp only [Option.bind_some] at h
          cases h5 : Py.whileM (scanCond sg) (scanBody WQ sg i) (wt, max c wt, k, pl, 0, k) with
          | none => rw [h5] at h; cases h
          | some st =>
            rw [h5] at h
            obtain ⟨w', mc, cq, cl, j', k'⟩ := st
            simp only [Option.bind_some] at h
            by_cases h6 : cl < 0
            · simp only [h6, decide_true, if_true] at h; cases h
            · simp only [h6, decide_false, Bool.false_eq_true, if_false, Option.pure_def,
                Option.bind_some] at h
              cases h7 : Py.setIdx psg.predicted_label i cl with
              | none => rw [h7] at h; cases h
              | some t =>
                rw [h7] at h
                simp only [Option.bind_some] at h
                by_cases h8 : cq > -1
                · simp only [h8, decide_true, if_true] at h
                  cases h9 : mark_nodes sg cq with
                  | none => rw [h9] at h; cases h
                  | some r =>
                    rw [h9] at h
                    obtain ⟨sg', u⟩ := r
                    simp only [Option.bind_some, Option.some.injEq] at h
                    rw [← h]
                    exact mark_nodes_trained sg sg' cq h9
                · simp only [h8, decide_false, Bool.false_eq_true, if_false, Option.bind_some,
                    Option.some.injEq] at h
                  rw [← h]

/-- **Frame for `trained`.** `predict` returns the classifier with the flag it was given. -/
theorem predict_trained (WQ : Int → Int → Option Int) (sg psg0 sg' : SG) (preds : Array Int)
    (h : predict WQ sg psg0 = some (sg', preds)) : sg'.trained = sg.trained := by
  rw [predict_eq] at h
  cases ht : sg.trained with
  | false => rw [ht] at h; cases h
  | true =>
    rw [ht] at h
    simp only [Bool.not_true, Bool.false_eq_true, if_false] at h
    cases hf : Py.forRange (σ := SG × SG) psg0.n_nodes (qBody WQ) (psg0, sg) with
    | none => rw [hf] at h; cases h
    | some r =>
      rw [hf] at h
      simp only [Option.bind_some, Option.some.injEq, Prod.mk.injEq] at h
      rw [← h.1, ← ht]
      unfold Py.forRange at hf
      exact foldlM_inv (fun s : SG × SG => s.2.trained = sg.trained)
        (fun s (q : Nat) => qBody WQ (q : Int) s)
        (fun s a s' hP hs => (qBody_trained WQ _ s s' hs).trans hP) _ _ _ hf rfl

/-! ### `predict` on a classifier that differs from a prediction-ready one by relevance marks only -/

/-- `predict` on a trained subgraph representing a forest `g` that agrees with the prediction-ready
forest `f` on everything but `relevant`: the labels returned are those of `predictOne f`. -/
theorem predict_on_agree (WQ : Int → Int → Option Int) (sg : SG) (g f : Forest) (hr : RelF sg g)
    (ha : AgreeBut g f) (hs : f.Sized) (ht : sg.trained = true) (hn : 0 < f.n)
    (hos : f.order.size = f.n) (hol : ∀ x, x ∈ f.order.toList → x < f.n)
    (hc : ∀ i, i < f.n → ChainOk f (f.n - 1) i)
    (psg0 : SG) (ds : List (Nat → Int)) (hq : QuerySG psg0 ds.length) (hW : WQAgree f.n WQ ds) :
    ∃ sg' preds, predict WQ sg psg0 = some (sg', preds) ∧
      RelF sg' (predictBatch g ds).1 ∧
      preds = labelsInt (ds.map (fun d => (predictOne f d).map (·.label))) := by
  obtain ⟨e1, e2, e3, e4, e5, e6, e7⟩ := ha
  have gs : g.Sized := by
    constructor
    · rw [e2, e1]; exact hs.size_pred
    · rw [e3, e1]; exact hs.size_proto
    · rw [e4, e1]; exact hs.size_ncost
    · rw [e5, e1]; exact hs.size_plabel
    · rw [e6, e1]; exact hs.size_label
  obtain ⟨sg', preds, hp, r', hpreds, _⟩ := c03_gen_predict WQ sg g hr gs ht (by omega)
    (by rw [e7, e1]; exact hos) (by rw [e7, e1]; exact hol)
    (by intro x hx; rw [e1] at hx ⊢; exact chainOk_congr g f e1 e2 _ _ (hc x hx))
    psg0 ds hq (by rw [e1]; exact hW)
  refine ⟨sg', preds, hp, r', ?_⟩
  rw [hpreds, predictBatch_labels]
  have : (fun d => (predictOne g d).map (·.label)) = (fun d => (predictOne f d).map (·.label)) := by
    funext d; rw [predictOne_congr g f d e7 e4 e5]
  rw [this]

theorem agreeBut_refl (f : Forest) : AgreeBut f f := ⟨rfl, rfl, rfl, rfl, rfl, rfl, rfl⟩

/-- the labels of a one-query batch, read off the labels of a batch containing the query. -/
theorem labelsInt_single (φ : (Nat → Int) → Option Nat) (ds : List (Nat → Int)) (i : Nat)
    (hi : i < ds.length) :
    labelsInt ([ds[i]].map φ) = #[(labelsInt (ds.map φ)).getD i 0] := by
  unfold labelsInt
  rw [Array.getD_eq_getD_getElem?]
  simp [hi]

end Opf.C09GenLemmas
