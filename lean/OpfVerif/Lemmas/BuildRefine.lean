-- helper lemmas for Props/C01Build.lean
import OpfVerif.Gen.BuildImp
import OpfVerif.Props.C01Gen
namespace Opf.BuildRefine
open Opf Opf.Gen Opf.Gen.SupImp Opf.GenCompose

theorem idx_nat {α : Type} (a : Array α) (k : Nat) : Py.idx a (k : Int) = a[k]? := by
  unfold Py.idx Py.resolve
  by_cases hk : k < a.size
  · simp [hk]
  · simp [hk]

/-- the body of the loop of `build`, verbatim. -/
def body (Y : Array Int) (I : Option (Array Int)) (i : Int) (sg : SG) : Option SG := (do
      let label ← Py.idx Y i
      let sg ← (match I with
        | some I => (do
            let t1 ← Py.idx I i
            let _g ← (if (decide (t1 < (0 : Int))) then none else pure ())
            let _g ← (if (decide ((-1 : Int) < (-1 : Int))) then none else pure ())
            let sg := { sg with pred := sg.pred.push (-1 : Int) }
            let _g ← (if (!([(1 : Int), (0 : Int)].contains (0 : Int))) then none else pure ())
            let sg := { sg with relevant := sg.relevant.push (0 : Int) }
            let sg := { sg with cost := sg.cost.push (0 : Int) }
            let _g ← (if (decide (label < (0 : Int))) then none else pure ())
            let sg := { sg with label := sg.label.push label }
            let _g ← (if (!([(0 : Int), (1 : Int)].contains (0 : Int))) then none else pure ())
            let sg := { sg with status := sg.status.push (0 : Int) }
            let _g ← (if (decide ((0 : Int) < (0 : Int))) then none else pure ())
            let sg := { sg with predicted_label := sg.predicted_label.push (0 : Int) }
            let sg := { sg with n_nodes := sg.n_nodes + 1 }
            pure sg)
        | none => (do
            let _g ← (if (decide (i < (0 : Int))) then none else pure ())
            let _g ← (if (decide ((-1 : Int) < (-1 : Int))) then none else pure ())
            let sg := { sg with pred := sg.pred.push (-1 : Int) }
            let _g ← (if (!([(1 : Int), (0 : Int)].contains (0 : Int))) then none else pure ())
            let sg := { sg with relevant := sg.relevant.push (0 : Int) }
            let sg := { sg with cost := sg.cost.push (0 : Int) }
            let _g ← (if (decide (label < (0 : Int))) then none else pure ())
            let sg := { sg with label := sg.label.push label }
            let _g ← (if (!([(0 : Int), (1 : Int)].contains (0 : Int))) then none else pure ())
            let sg := { sg with status := sg.status.push (0 : Int) }
            let _g ← (if (decide ((0 : Int) < (0 : Int))) then none else pure ())
            let sg := { sg with predicted_label := sg.predicted_label.push (0 : Int) }
            let sg := { sg with n_nodes := sg.n_nodes + 1 }
            pure sg))
      pure sg)

/-- the empty subgraph the loop starts from. -/
def sg0 : SG :=
  { n_nodes := 0, trained := false, idx_nodes := #[], pred := #[], relevant := #[], cost := #[], label := #[],
    status := #[], predicted_label := #[] }

theorem build_eq (Y : Array Int) (I : Option (Array Int)) :
    BuildImp.build Y I = (do
      let sg ← (List.range Y.size).foldlM (fun s (q : Nat) => body Y I (q : Int) s) sg0
      let _g ← (if sg.n_nodes = 0 then none else pure ())
      pure sg) := rfl

/-- one more node with label `y`. -/
def pushSG (sg : SG) (y : Int) : SG :=
  { sg with pred := sg.pred.push (-1), relevant := sg.relevant.push 0, cost := sg.cost.push 0,
            label := sg.label.push y, status := sg.status.push 0,
            predicted_label := sg.predicted_label.push 0, n_nodes := sg.n_nodes + 1 }

theorem body_none_ok (Y : Array Int) (k : Nat) (y : Int) (hy : Y[k]? = some y) (h0 : 0 ≤ y) (sg : SG) :
    body Y none (k : Int) sg = some (pushSG sg y) := by
  have h1 : ¬ y < 0 := by omega
  have h2 : ¬ ((k : Int) < 0) := by omega
  simp [body, idx_nat, hy, h1, h2, pushSG]

theorem body_some_ok (Y J : Array Int) (k : Nat) (y t : Int) (hy : Y[k]? = some y) (h0 : 0 ≤ y)
    (ht : J[k]? = some t) (ht0 : 0 ≤ t) (sg : SG) :
    body Y (some J) (k : Int) sg = some (pushSG sg y) := by
  have h1 : ¬ y < 0 := by omega
  have h2 : ¬ t < 0 := by omega
  simp [body, idx_nat, hy, ht, h1, h2, pushSG]

theorem body_neg (Y : Array Int) (I : Option (Array Int)) (k : Nat) (y : Int) (hy : Y[k]? = some y)
    (h0 : y < 0) (sg : SG) : body Y I (k : Int) sg = none := by
  cases I with
  | none => simp [body, idx_nat, hy, h0]
  | some J =>
    cases hj : J[k]? with
    | none => simp [body, idx_nat, hy, hj]
    | some t =>
      by_cases ht : t < 0
      · simp [body, idx_nat, hy, hj, ht]
      · simp [body, idx_nat, hy, hj, ht, h0]

/-- the state after `m` iterations. -/
def stateAt (lab : Array Nat) (m : Nat) : SG :=
  { n_nodes := (m : Int), trained := false, idx_nodes := #[],
    pred := Array.replicate m (-1), relevant := Array.replicate m 0,
    cost := Array.replicate m 0, label := (lab.extract 0 m).map (fun (x : Nat) => (x : Int)),
    status := Array.replicate m 0, predicted_label := Array.replicate m 0 }

theorem stateAt_zero (lab : Array Nat) : stateAt lab 0 = sg0 := by
  simp [stateAt, sg0]

theorem stateAt_size (lab : Array Nat) : stateAt lab lab.size = initSG lab := by
  unfold stateAt initSG
  rw [Array.extract_eq_self_of_le (Nat.le_refl _)]

theorem stateAt_succ (lab : Array Nat) (m : Nat) (hm : m < lab.size) :
    pushSG (stateAt lab m) (lab[m] : Int) = stateAt lab (m + 1) := by
  unfold stateAt pushSG
  rw [Array.extract_succ_right (Nat.succ_pos m) hm, Array.map_push]
  simp only [Array.replicate_succ, Int.natCast_succ]

theorem fold_ok (lab : Array Nat) (I : Option (Array Int))
    (hstep : ∀ k (hk : k < lab.size) (sg : SG),
      body (lab.map (fun (x : Nat) => (x : Int))) I (k : Int) sg = some (pushSG sg (lab[k] : Int))) :
    ∀ m, m ≤ lab.size →
      (List.range m).foldlM (fun s (q : Nat) => body (lab.map (fun (x : Nat) => (x : Int))) I (q : Int) s) sg0
        = some (stateAt lab m) := by
  intro m
  induction m with
  | zero => intro _; simp [stateAt_zero]
  | succ m ih =>
    intro hm
    rw [List.range_succ, List.foldlM_append, ih (by omega)]
    simp [hstep m (by omega), stateAt_succ lab m (by omega)]

/-- a fold in `Option` fails as soon as the body fails, for every state, on one element. -/
theorem foldlM_none {σ α : Type} (f : σ → α → Option σ) (l : List α) (a : α) (ha : a ∈ l)
    (hf : ∀ s, f s a = none) : ∀ s, l.foldlM f s = none := by
  induction l with
  | nil => simp at ha
  | cons b l ih =>
    intro s
    rw [List.foldlM_cons]
    rcases List.mem_cons.1 ha with rfl | h
    · simp [hf]
    · cases f s b with
      | none => rfl
      | some s' => simpa using ih h s'

end Opf.BuildRefine
