/-
Refinement between the statement-level translation of `KNNSupervisedOPF._clustering` and
`UnsupervisedOPF._clustering` (`Gen/ClusImp.lean`, regenerated from the source on every run by
`tools/translate_fn.py`) and the executable model `clusterRun` of `Model/Knn.lean`, about which
`Props/C13.lean` / `C13Rel.lean` / `C04.lean` speak.
-/
import OpfVerif.Gen.ClusImp
import OpfVerif.Lemmas.HeapRefine
import OpfVerif.Lemmas.Cluster
import OpfVerif.Lemmas.ClusRefineKnn
import OpfVerif.Lemmas.ClusRefineUns
namespace Opf.ClusRefine
open Opf Opf.Gen Opf.Gen.ClusImp

/-- `Node.pred` as the real code stores it (`NIL = -1`). -/
def predInt : Option Nat → Int
  | none => -1
  | some p => (p : Int)

/-- an adjacency list as the real code stores it. -/
def adjInt (l : List Nat) : Array Int := (l.map (fun (x : Nat) => (x : Int))).toArray

/-- abstraction relation: the flattened `KNNSubgraph` `sg` represents the clustering state `c`.
`unsup` selects which label field the model's `lab` stands for (`cluster_label` for the
unsupervised model, `predicted_label` for the KNN-supervised one). -/
structure RelK (unsup : Bool) (sg : KSG) (c : Clu) : Prop where
  n : sg.n_nodes = (c.n : Int)
  nclusters : sg.n_clusters = (c.nclusters : Int)
  sz_adj : sg.adjacency.size = c.n
  sz_density : sg.density.size = c.n
  sz_cost : sg.cost.size = c.n
  sz_pred : sg.pred.size = c.n
  sz_root : sg.root.size = c.n
  sz_label : sg.label.size = c.n
  sz_plabel : sg.predicted_label.size = c.n
  sz_nplat : sg.n_plateaus.size = c.n
  sz_clabel : sg.cluster_label.size = c.n
  adj : ∀ x, x < c.n → sg.adjacency[x]? = some (adjInt (c.adjOf x))
  density : ∀ x, x < c.n → sg.density[x]? = some (c.densOf x)
  cost : ∀ x, x < c.n → sg.cost[x]? = some (c.costOf x)
  pred : ∀ x, x < c.n → sg.pred[x]? = some (predInt (c.predOf x))
  root : ∀ x, x < c.n → sg.root[x]? = some (c.rootOf x : Int)
  label : ∀ x, x < c.n → sg.label[x]? = some (c.tlabelOf x : Int)
  nplat : ∀ x, x < c.n → sg.n_plateaus[x]? = some (c.nplat.getD x 0 : Int)
  lab_knn : unsup = false → ∀ x, x < c.n → sg.predicted_label[x]? = some (c.labOf x : Int)
  lab_uns : unsup = true → ∀ x, x < c.n → sg.cluster_label[x]? = some (c.labOf x : Int)
  order : sg.idx_nodes = c.order.map (fun (x : Nat) => (x : Int))

/-- `RelK` and the copy `ClusRefineAux.KRel` the helper files are written against coincide. -/
theorem RelK.toAux {u : Bool} {sg : KSG} {c : Clu} (r : RelK u sg c) : ClusRefineAux.KRel u sg c :=
  ⟨r.n, r.nclusters, r.sz_adj, r.sz_density, r.sz_cost, r.sz_pred, r.sz_root, r.sz_label, r.sz_plabel,
    r.sz_nplat, r.sz_clabel, r.adj, r.density, r.cost, r.pred, r.root, r.label, r.nplat, r.lab_knn,
    r.lab_uns, r.order⟩

theorem RelK.ofAux {u : Bool} {sg : KSG} {c : Clu} (r : ClusRefineAux.KRel u sg c) : RelK u sg c :=
  ⟨r.n, r.nclusters, r.sz_adj, r.sz_density, r.sz_cost, r.sz_pred, r.sz_root, r.sz_label, r.sz_plabel,
    r.sz_nplat, r.sz_clabel, r.adj, r.density, r.cost, r.pred, r.root, r.label, r.nplat, r.lab_knn,
    r.lab_uns, r.order⟩

/-- `KNNSupervisedOPF._clustering(force_prototype)`: for every well-formed clustering input the
translated code raises nothing, its `while` loops (CPython list iteration included) terminate, and
it leaves exactly the model's state. `-top` is `-FLOAT_MAX`. -/
theorem knn_clustering_refines (top : Int) (sg : KSG) (c : Clu) (force : Bool)
    (hr : RelK false sg c) (hwf : c.WF) (hn : 0 < c.n) :
    ∃ sg', knn_clustering top sg force = some (sg', ()) ∧
      RelK false sg' (clusterRun false force top (-top) 0 c) := by
  obtain ⟨sg', e, r⟩ := ClusRefineAux.knn_refines top sg c force 0 hr.toAux hwf hn
  exact ⟨sg', e, RelK.ofAux r⟩

/-- `UnsupervisedOPF._clustering(k)`; every adjacency list holds at least the `n_plateaus + k`
entries the code reads by position (else the real code raises `IndexError`). -/
theorem uns_clustering_refines (top : Int) (sg : KSG) (c : Clu) (k : Nat)
    (hr : RelK true sg c) (hwf : c.WF) (hn : 0 < c.n)
    (hlong : ∀ i, i < c.n → c.nplat.getD i 0 + k ≤ (c.adjOf i).length) :
    ∃ sg', uns_clustering top sg (k : Int) = some (sg', ()) ∧
      RelK true sg' (clusterRun true false top (-top) k c) := by
  obtain ⟨sg', e, r⟩ := ClusRefineAux.uns_refines top sg c k hr.toAux hwf hn hlong
  exact ⟨sg', e, RelK.ofAux r⟩

end Opf.ClusRefine
