/-
Lemmas for C11 (determinacy / independence of the sample order on tie-free data).

* `IsRenaming n σ τ`: `σ`, `τ` are mutually inverse bijections of `{0..n-1}`.
* `PrimInst.rename`, `CompInst.rename`: the instance with the samples listed in the order
  `σ 0, σ 1, …`; `PrimInst.Renames σ I I'`, `CompInst.Renames σ I I'`: `I'` agrees with `I.rename σ`
  on the samples `< n` (the only part of an instance the theorems consult; `I.rename σ` itself is
  the canonical example, `renames_rename`).
* the order-free characterisations are equivariant: `Conn`, `MstArc` (`Renames.conn_iff`,
  `Renames.mstArc_iff`), `PathCost` (`Renames.pathCost_iff`); `Good` and `Distinct` are preserved.
* consequences for finished lawful runs: tree arcs, prototypes (`Renames.proto_eq`), costs
  (`Renames.cost_eq`).
* tie-free data (`ResubSetting`): every positive final cost is the weight of exactly one arc, the
  bottleneck arc, which lies on the predecessor chain of the node (`ResubSetting.bottleneck`); equal
  positive costs imply equal true labels (`ResubSetting.same_cost_same_label`).
-/
import OpfVerif.Props.C04
namespace Opf

/-- `σ` and `τ` are mutually inverse bijections of `{0, …, n-1}`. -/
structure IsRenaming (n : Nat) (σ τ : Nat → Nat) : Prop where
  left : ∀ x, x < n → σ x < n ∧ τ (σ x) = x
  right : ∀ y, y < n → τ y < n ∧ σ (τ y) = y

namespace IsRenaming
variable {n : Nat} {σ τ : Nat → Nat}

theorem symm (h : IsRenaming n σ τ) : IsRenaming n τ σ := ⟨h.right, h.left⟩
theorem lt (h : IsRenaming n σ τ) {x : Nat} (hx : x < n) : σ x < n := (h.left x hx).1
theorem inv_lt (h : IsRenaming n σ τ) {y : Nat} (hy : y < n) : τ y < n := (h.right y hy).1
theorem left_inv (h : IsRenaming n σ τ) {x : Nat} (hx : x < n) : τ (σ x) = x := (h.left x hx).2
theorem right_inv (h : IsRenaming n σ τ) {y : Nat} (hy : y < n) : σ (τ y) = y := (h.right y hy).2

theorem inj (h : IsRenaming n σ τ) {x y : Nat} (hx : x < n) (hy : y < n) (e : σ x = σ y) :
    x = y := by
  rw [← h.left_inv hx, ← h.left_inv hy, e]

theorem ne (h : IsRenaming n σ τ) {x y : Nat} (hx : x < n) (hy : y < n) (hne : x ≠ y) :
    σ x ≠ σ y := fun e => hne (h.inj hx hy e)

theorem refl (n : Nat) : IsRenaming n id id := ⟨fun _ hx => ⟨hx, rfl⟩, fun _ hy => ⟨hy, rfl⟩⟩

end IsRenaming

/-! ### prototype selection -/

namespace PrimInst

/-- the same training set with the samples listed in the order `σ 0, σ 1, …` -/
def rename (I : PrimInst) (σ : Nat → Nat) : PrimInst :=
  { n := I.n, w := fun a b => I.w (σ a) (σ b), lam := fun a => I.lam (σ a), top := I.top }

/-- `I'` is `I` with the samples renamed by `σ`, as far as the samples `< n` are concerned. -/
structure Renames (σ : Nat → Nat) (I I' : PrimInst) : Prop where
  hn : I'.n = I.n
  hw : ∀ a b, a < I.n → b < I.n → I'.w a b = I.w (σ a) (σ b)
  hlam : ∀ a, a < I.n → I'.lam a = I.lam (σ a)

theorem renames_rename (I : PrimInst) (σ : Nat → Nat) : Renames σ I (I.rename σ) :=
  ⟨rfl, fun _ _ _ _ => rfl, fun _ _ => rfl⟩

/-- connectivity below a threshold is transported along any weight-preserving map of the nodes. -/
theorem Conn.map {I J : PrimInst} {f : Nat → Nat} (hf : ∀ x, x < I.n → f x < J.n)
    (hw : ∀ a b, a < I.n → b < I.n → I.w a b = J.w (f a) (f b)) {θ : Int} {u v : Nat}
    (h : Conn I θ u v) : Conn J θ (f u) (f v) := by
  induction h with
  | refl hu => exact Conn.refl (hf _ hu)
  | arc hc hx hlt ih =>
    refine Conn.arc ih (hf _ hx) ?_
    rw [← hw _ _ hc.right_lt hx]; exact hlt

namespace Renames
variable {I I' : PrimInst} {σ τ : Nat → Nat}

theorem symm (hσ : IsRenaming I.n σ τ) (h : Renames σ I I') : Renames τ I' I where
  hn := h.hn.symm
  hw := by
    intro a b ha hb
    rw [h.hn] at ha hb
    rw [h.hw _ _ (hσ.inv_lt ha) (hσ.inv_lt hb), hσ.right_inv ha, hσ.right_inv hb]
  hlam := by
    intro a ha
    rw [h.hn] at ha
    rw [h.hlam _ (hσ.inv_lt ha), hσ.right_inv ha]

/-- `Conn` is equivariant. -/
theorem conn_iff (hσ : IsRenaming I.n σ τ) (h : Renames σ I I') {θ : Int} {u v : Nat}
    (hu : u < I.n) (hv : v < I.n) : Conn I' θ u v ↔ Conn I θ (σ u) (σ v) := by
  constructor
  · intro hc
    exact Conn.map (fun x hx => hσ.lt (h.hn ▸ hx))
      (fun a b ha hb => h.hw a b (h.hn ▸ ha) (h.hn ▸ hb)) hc
  · intro hc
    have h' := h.symm hσ
    have := Conn.map (J := I') (f := τ) (fun x hx => by rw [h.hn]; exact hσ.inv_lt hx)
      (fun a b ha hb => h'.hw a b (by rw [h.hn]; exact ha) (by rw [h.hn]; exact hb)) hc
    rw [hσ.left_inv hu, hσ.left_inv hv] at this
    exact this

/-- the order-free description of the minimum spanning tree is equivariant. -/
theorem mstArc_iff (hσ : IsRenaming I.n σ τ) (h : Renames σ I I') {u v : Nat}
    (hu : u < I.n) (hv : v < I.n) : MstArc I' u v ↔ MstArc I (σ u) (σ v) := by
  unfold MstArc
  rw [h.hw u v hu hv, h.conn_iff hσ hu hv, h.hn]
  constructor
  · rintro ⟨_, _, hne, hc⟩; exact ⟨hσ.lt hu, hσ.lt hv, hσ.ne hu hv hne, hc⟩
  · rintro ⟨_, _, hne, hc⟩; exact ⟨hu, hv, fun e => hne (by rw [e]), hc⟩

theorem good (h : Renames σ I I') (hσ : IsRenaming I.n σ τ) (htop : I'.top = I.top)
    (hg : I.Good) : I'.Good where
  n_pos := by rw [h.hn]; exact hg.n_pos
  symm := by
    intro p q hp hq
    rw [h.hn] at hp hq
    rw [h.hw p q hp hq, h.hw q p hq hp]; exact hg.symm _ _ (hσ.lt hp) (hσ.lt hq)
  w_lt_top := by
    intro p q hp hq
    rw [h.hn] at hp hq
    rw [h.hw p q hp hq, htop]; exact hg.w_lt_top _ _ (hσ.lt hp) (hσ.lt hq)

theorem distinct (h : Renames σ I I') (hσ : IsRenaming I.n σ τ) (hd : I.Distinct) :
    I'.Distinct := by
  intro a b c d ha hb hc hd' hab hcd he
  rw [h.hn] at ha hb hc hd'
  rw [h.hw a b ha hb, h.hw c d hc hd'] at he
  rcases hd _ _ _ _ (hσ.lt ha) (hσ.lt hb) (hσ.lt hc) (hσ.lt hd') (hσ.ne ha hb hab)
    (hσ.ne hc hd' hcd) he with ⟨h1, h2⟩ | ⟨h1, h2⟩
  · exact Or.inl ⟨hσ.inj ha hc h1, hσ.inj hb hd' h2⟩
  · exact Or.inr ⟨hσ.inj ha hd' h1, hσ.inj hb hc h2⟩

theorem pos (h : Renames σ I I') (hσ : IsRenaming I.n σ τ)
    (hpos : ∀ p q, p < I.n → q < I.n → p ≠ q → 0 < I.w p q) :
    ∀ p q, p < I'.n → q < I'.n → p ≠ q → 0 < I'.w p q := by
  intro p q hp hq hpq
  rw [h.hn] at hp hq
  rw [h.hw p q hp hq]; exact hpos _ _ (hσ.lt hp) (hσ.lt hq) (hσ.ne hp hq hpq)

/-- tie-free weights: the tree of any finished lawful run on the renamed instance is the renamed
tree of any finished lawful run on the original instance. -/
theorem treeArc_iff (hσ : IsRenaming I.n σ τ) (h : Renames σ I I') (hg : I.Good) (hd : I.Distinct)
    (hg' : I'.Good) (hd' : I'.Distinct) {s s' : PState} (hr : Reach I s) (hf : I.Final s)
    (hr' : Reach I' s') (hf' : I'.Final s') {u v : Nat} (hu : u < I.n) (hv : v < I.n) :
    TreeArc s' u v ↔ TreeArc s (σ u) (σ v) := by
  rw [c02_tree_eq_mst I' hg' hd' s' hr' hf' u v (by rw [h.hn]; exact hu) (by rw [h.hn]; exact hv),
    c02_tree_eq_mst I hg hd s hr hf _ _ (hσ.lt hu) (hσ.lt hv), h.mstArc_iff hσ hu hv]

/-- … and the same SAMPLES are flagged as prototypes. -/
theorem proto_eq (hσ : IsRenaming I.n σ τ) (h : Renames σ I I') (hg : I.Good) (hd : I.Distinct)
    (hg' : I'.Good) (hd' : I'.Distinct) {s s' : PState} (hr : Reach I s) (hf : I.Final s)
    (hr' : Reach I' s') (hf' : I'.Final s') {v : Nat} (hv : v < I.n) :
    s'.proto v = s.proto (σ v) := by
  rw [Bool.eq_iff_iff, c02_prototypes I' hg' s' hr' hf' v (by rw [h.hn]; exact hv),
    c02_prototypes I hg s hr hf (σ v) (hσ.lt hv)]
  constructor
  · rintro ⟨u, hu, ht, hl⟩
    rw [h.hn] at hu
    refine ⟨σ u, hσ.lt hu, (h.treeArc_iff hσ hg hd hg' hd' hr hf hr' hf' hu hv).1 ht, ?_⟩
    rw [← h.hlam u hu, ← h.hlam v hv]; exact hl
  · rintro ⟨u, hu, ht, hl⟩
    have hτu := hσ.inv_lt hu
    refine ⟨τ u, by rw [h.hn]; exact hτu, ?_, ?_⟩
    · apply (h.treeArc_iff hσ hg hd hg' hd' hr hf hr' hf' hτu hv).2
      rw [hσ.right_inv hu]; exact ht
    · rw [h.hlam _ hτu, h.hlam v hv, hσ.right_inv hu]; exact hl

end Renames
end PrimInst

/-! ### competition -/

namespace CompInst

def rename (I : CompInst) (σ : Nat → Nat) : CompInst :=
  { n := I.n, w := fun a b => I.w (σ a) (σ b), seed := fun a => I.seed (σ a),
    lam := fun a => I.lam (σ a), top := I.top }

/-- `I'` is `I` with the nodes renamed by `σ`, as far as the nodes `< n` are concerned. -/
structure Renames (σ : Nat → Nat) (I I' : CompInst) : Prop where
  hn : I'.n = I.n
  hw : ∀ a b, a < I.n → b < I.n → I'.w a b = I.w (σ a) (σ b)
  hseed : ∀ a, a < I.n → I'.seed a = I.seed (σ a)

theorem renames_rename (I : CompInst) (σ : Nat → Nat) : Renames σ I (I.rename σ) :=
  ⟨rfl, fun _ _ _ _ => rfl, fun _ _ => rfl⟩

/-- path costs are transported along any injective map of the nodes that preserves weights and
seeds. -/
theorem PathCost.map {I J : CompInst} {f : Nat → Nat} (hf : ∀ x, x < I.n → f x < J.n)
    (hinj : ∀ x y, x < I.n → y < I.n → f x = f y → x = y)
    (hw : ∀ a b, a < I.n → b < I.n → I.w a b = J.w (f a) (f b))
    (hseed : ∀ a, a < I.n → I.seed a = J.seed (f a)) {t : Nat} {c : Int}
    (h : PathCost I t c) : PathCost J (f t) c := by
  induction h with
  | seed hs1 hs2 => exact PathCost.seed (hf _ hs1) (by rw [← hseed _ hs1]; exact hs2)
  | @arc p q c hpc hq hqp ih =>
    have hp := pathCost_lt I hpc
    rw [hw p q hp hq]
    exact PathCost.arc ih (hf _ hq) (fun e => hqp (hinj q p hq hp e))

namespace Renames
variable {I I' : CompInst} {σ τ : Nat → Nat}

theorem symm (hσ : IsRenaming I.n σ τ) (h : Renames σ I I') : Renames τ I' I where
  hn := h.hn.symm
  hw := by
    intro a b ha hb
    rw [h.hn] at ha hb
    rw [h.hw _ _ (hσ.inv_lt ha) (hσ.inv_lt hb), hσ.right_inv ha, hσ.right_inv hb]
  hseed := by
    intro a ha
    rw [h.hn] at ha
    rw [h.hseed _ (hσ.inv_lt ha), hσ.right_inv ha]

theorem pathCost_of (hσ : IsRenaming I.n σ τ) (h : Renames σ I I') {t : Nat} {c : Int}
    (hp : PathCost I' t c) : PathCost I (σ t) c :=
  PathCost.map (fun _ hx => hσ.lt (h.hn ▸ hx))
    (fun _ _ hx hy e => hσ.inj (h.hn ▸ hx) (h.hn ▸ hy) e)
    (fun a b ha hb => h.hw a b (h.hn ▸ ha) (h.hn ▸ hb))
    (fun a ha => h.hseed a (h.hn ▸ ha)) hp

/-- the set of path costs (hence its minimum, the optimum-path cost) is equivariant. -/
theorem pathCost_iff (hσ : IsRenaming I.n σ τ) (h : Renames σ I I') {t : Nat} (ht : t < I.n)
    {c : Int} : PathCost I' t c ↔ PathCost I (σ t) c := by
  refine ⟨h.pathCost_of hσ, fun hp => ?_⟩
  have hσ' : IsRenaming I'.n τ σ := by rw [h.hn]; exact hσ.symm
  have := (h.symm hσ).pathCost_of hσ' hp
  rw [hσ.left_inv ht] at this
  exact this

theorem good (h : Renames σ I I') (hσ : IsRenaming I.n σ τ) (htop : I'.top = I.top)
    (hg : I.Good) : I'.Good where
  top_pos := by rw [htop]; exact hg.top_pos
  w_nonneg := by
    intro p q hp hq
    rw [h.hn] at hp hq
    rw [h.hw p q hp hq]; exact hg.w_nonneg _ _ (hσ.lt hp) (hσ.lt hq)
  w_lt_top := by
    intro p q hp hq
    rw [h.hn] at hp hq
    rw [h.hw p q hp hq, htop]; exact hg.w_lt_top _ _ (hσ.lt hp) (hσ.lt hq)
  has_seed := by
    obtain ⟨s, hs, hseed⟩ := hg.has_seed
    refine ⟨τ s, by rw [h.hn]; exact hσ.inv_lt hs, ?_⟩
    rw [h.hseed _ (hσ.inv_lt hs), hσ.right_inv hs]; exact hseed

/-- the final costs of any finished lawful run on the renamed instance are the renamed final
costs of any finished lawful run on the original one. -/
theorem cost_eq (hσ : IsRenaming I.n σ τ) (h : Renames σ I I') (hg : I.Good) (hg' : I'.Good)
    {pred0 pred0' : Nat → Option Nat} {lab0 lab0' : Nat → Nat} {s s' : AState}
    (hr : Reach I pred0 lab0 s) (hf : I.Final s) (hr' : Reach I' pred0' lab0' s')
    (hf' : I'.Final s') {t : Nat} (ht : t < I.n) : s'.cost t = s.cost (σ t) := by
  have o := c01_cost_optimal I pred0 lab0 hg s hr hf (σ t) (hσ.lt ht)
  have o' := c01_cost_optimal I' pred0' lab0' hg' s' hr' hf' t (by rw [h.hn]; exact ht)
  exact Int.le_antisymm (o'.2 _ ((h.pathCost_iff hσ ht).2 o.1)) (o.2 _ ((h.pathCost_iff hσ ht).1 o'.1))

end Renames
end CompInst

/-! ### the two phases together, tie-free data -/

namespace ResubSetting

open PrimInst CompInst

variable {IP IP' : PrimInst} {sP sP' : PState} {IC IC' : CompInst}
  {pred0 pred0' : Nat → Option Nat} {lab0 lab0' : Nat → Nat} {sC sC' : AState} {σ τ : Nat → Nat}

/-- the competition instances of two settings over renamed training sets are renamed too: the
seeds are the prototypes, and those are the same samples. -/
theorem renames (hσ : IsRenaming IP.n σ τ) (h : PrimInst.Renames σ IP IP')
    (R : ResubSetting IP sP IC pred0 lab0 sC) (R' : ResubSetting IP' sP' IC' pred0' lab0' sC') :
    CompInst.Renames σ IC IC' where
  hn := by rw [R'.hn, h.hn, R.hn]
  hw := by
    intro a b ha hb
    rw [R.hn] at ha hb
    rw [R'.hw, R.hw]; exact h.hw a b ha hb
  hseed := by
    intro a ha
    rw [R.hn] at ha
    rw [R'.hseed a (by rw [h.hn]; exact ha), R.hseed _ (hσ.lt ha)]
    exact h.proto_eq hσ R.goodP R.distinct R'.goodP R'.distinct R.reachP R.finalP R'.reachP
      R'.finalP ha

/-- the bottleneck arc: a node of positive final cost `θ` has, on its predecessor chain, a node `b`
(of the same class) conquered by `p` through the arc of weight `θ`, where `p` itself is cheaper. -/
theorem bottleneck (R : ResubSetting IP sP IC pred0 lab0 sC) :
    ∀ m t, sC.order.idxOf t = m → t < IP.n → 0 < sC.cost t →
      ∃ b p, b < IP.n ∧ p < IP.n ∧ p ≠ b ∧ sC.pred b = some p ∧ sC.cost b = sC.cost t ∧
        IP.w p b = sC.cost t ∧ sC.cost p < sC.cost t ∧ IP.lam b = IP.lam t := by
  intro m
  induction m using Nat.strongRecOn with
  | _ m ih =>
    intro t hm ht hpos
    have htC : t < IC.n := by rw [R.hn]; exact ht
    cases hseed : IC.seed t with
    | true =>
      have := (c01_seeds IC pred0 lab0 R.goodC sC R.reachC t htC hseed).1
      omega
    | false =>
      obtain ⟨p, hp, hpn, hpt, hcost, _, hlt⟩ :=
        c01_link IC pred0 lab0 R.goodC sC R.reachC R.finalC t htC hseed
      rw [R.hw] at hcost
      have hpP : p < IP.n := by rw [← R.hn]; exact hpn
      have hlamp : IP.lam p = IP.lam t := c04_no_cross_arc R t ht p hp
      by_cases hc : sC.cost p < sC.cost t
      · exact ⟨t, p, ht, hpP, hpt, hp, rfl, by omega, hc, rfl⟩
      · have he : sC.cost p = sC.cost t := by omega
        obtain ⟨b, q, hb, hq, hqb, hpred, hcb, hwq, hcq, hlb⟩ :=
          ih (sC.order.idxOf p) (by omega) p rfl hpP (by omega)
        exact ⟨b, q, hb, hq, hqb, hpred, by rw [hcb, he], by rw [hwq, he], by rw [← he]; exact hcq,
          by rw [hlb, hlamp]⟩

/-- a final cost is `0` or the weight of an arc between two different training samples. -/
theorem cost_weight (R : ResubSetting IP sP IC pred0 lab0 sC) {t : Nat} (ht : t < IP.n)
    (hpos : 0 < sC.cost t) : ∃ p q, p < IP.n ∧ q < IP.n ∧ p ≠ q ∧ IP.w p q = sC.cost t := by
  obtain ⟨b, p, hb, hp, hpb, _, _, hw, _, _⟩ := R.bottleneck _ t rfl ht hpos
  exact ⟨p, b, hp, hb, hpb, hw⟩

/-- equal positive costs are the weight of the same bottleneck arc; both predecessor chains run
through its far endpoint, and classes are constant along predecessor chains. -/
theorem same_cost_same_label (R : ResubSetting IP sP IC pred0 lab0 sC) {s t : Nat}
    (hs : s < IP.n) (ht : t < IP.n) (he : sC.cost s = sC.cost t) (hpos : 0 < sC.cost s) :
    IP.lam s = IP.lam t := by
  obtain ⟨b, p, hb, hp, hpb, _, hcb, hwb, hcp, hlb⟩ := R.bottleneck _ s rfl hs hpos
  obtain ⟨b', p', hb', hp', hpb', _, hcb', hwb', hcp', hlb'⟩ :=
    R.bottleneck _ t rfl ht (by omega)
  have hw : IP.w p b = IP.w p' b' := by rw [hwb, hwb', he]
  rcases R.distinct p b p' b' hp hb hp' hb' hpb hpb' hw with ⟨h1, h2⟩ | ⟨h1, h2⟩
  · rw [← hlb, h2, hlb']
  · rw [h1] at hcp; omega

end ResubSetting
end Opf
