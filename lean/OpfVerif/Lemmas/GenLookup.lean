/-
Resolution of a distance identifier to the real-valued function it denotes, following the
generated tables: `Gen.registry` (the `DISTANCES` dict) ↦ function name ↦ decorator stack
(`Gen.functions`) and body (`Gen.bodies`), with `avoid_zero_division`'s shift taken from
`Gen.decoratorShifts` / `Gen.decoratorEps`.
-/
import OpfVerif.Lemmas.ExprReal
import OpfVerif.Gen.Distance
import OpfVerif.Gen.Decorator
import OpfVerif.Gen.Registry
namespace Opf

/-- function name registered under identifier `id`. -/
def metricFn (id : String) : Option String := Gen.registry.lookup id

/-- is the function wrapped by `avoid_zero_division`? -/
def fnDecorated (f : String) : Bool :=
  match Gen.functions.find? (fun e => e.1 == f) with
  | some (_, d, _) => d
  | none => false

/-- generated body of the function. -/
def fnBody (f : String) : Option S := Gen.bodies.lookup f

/-- `EPSILON` as a real number (from `Gen.decoratorEps`, i.e. utils/constants.py). -/
noncomputable def epsR : ℝ := litR Gen.decoratorEps.1 Gen.decoratorEps.2

/-- does the wrapper shift parameter `i` (0 = x, 1 = y)? -/
def shiftsParam (i : Nat) : Bool := Gen.decoratorShifts.any (fun s => s.1 == i)

/-- the real number denoted by `DISTANCES[id](x, y)`; `none` for an unknown identifier. -/
noncomputable def metricR {n : Nat} (id : String) (x y : Fin n → ℝ) : Option ℝ :=
  match metricFn id with
  | none => none
  | some f =>
    match fnBody f with
    | none => none
    | some b =>
      if fnDecorated f then
        some (b.evalR (if shiftsParam 0 then shifted epsR x else x) (if shiftsParam 1 then shifted epsR y else y))
      else some (b.evalR x y)

end Opf
