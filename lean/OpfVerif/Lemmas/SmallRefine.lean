/-
Refinement of two small translated methods:
* `UnsupervisedOPF.propagate_labels` (`Gen/ClusImp.lean`) ↔ `propagateLabels` (`Model/Knn.lean`);
* `KNNSubgraph.eliminate_maxima_height` (`Gen/PdfImp.lean`) ↔ the polymorphic `elimG` at `FSym fo`.
-/
import OpfVerif.Lemmas.ClusRefine
import OpfVerif.Lemmas.PdfRefine
namespace Opf.SmallRefine
open Opf Opf.Gen Opf.ArcsRefine Opf.HeapRefine

/-- `propagate_labels()`: every node's predicted label becomes the TRUE label of its root (its own
when it is a root); roots recorded in the subgraph are node positions. Raises nothing; everything
but `predicted_label` is left as it is. -/
theorem propagate_labels_refines (sg : ClusImp.KSG) (c : Clu) (unsup : Bool)
    (hr : ClusRefine.RelK unsup sg c) (hroot : ∀ i, i < c.n → c.rootOf i < c.n) :
    ∃ sg', ClusImp.propagate_labels sg = some (sg', ()) ∧
      sg'.predicted_label = (propagateLabels c).map (fun (x : Nat) => (x : Int)) ∧
      sg' = { sg with predicted_label := sg'.predicted_label } := by
  let P : Nat → Nat := fun i => if c.rootOf i = i then c.tlabelOf i else c.tlabelOf (c.rootOf i)
  have key := forRange_refines (σ := ClusImp.KSG) (τ := Unit)
    (fun k s _ => s.predicted_label.size = c.n ∧
      (∀ x, x < c.n → s.predicted_label[x]? = if x < k then some (P x : Int) else sg.predicted_label[x]?) ∧
      s = { sg with predicted_label := s.predicted_label })
    (fun i sg => (do
      let t2501 ← Py.idx sg.root i
      let root := t2501
      let sg ← (if (decide (root = i)) then (do
          let t2502 ← Py.idx sg.label i
          let _g ← (if (decide (t2502 < (0 : Int))) then none else pure ())
          let t2503 ← Py.setIdx sg.predicted_label i t2502
          let sg := { sg with predicted_label := t2503 }
          pure sg) else (do
          let t2504 ← Py.idx sg.label root
          let _g ← (if (decide (t2504 < (0 : Int))) then none else pure ())
          let t2505 ← Py.setIdx sg.predicted_label i t2504
          let sg := { sg with predicted_label := t2505 }
          pure sg))
      pure sg))
    (fun _ _ => ()) c.n
    (by
      rintro k hk s _ ⟨hs, hv, he⟩
      have hroot' : s.root = sg.root := by rw [he]
      have hlabel : s.label = sg.label := by rw [he]
      have e1 : Py.idx s.root (k : Int) = some (c.rootOf k : Int) := by
        rw [idx_nat, hroot']; exact hr.root k hk
      have e2 : ∀ v, Py.setIdx s.predicted_label (k : Int) v = some (s.predicted_label.setIfInBounds k v) :=
        fun v => setIdx_nat _ _ _ (by omega)
      have e3 : ∀ x : Nat, x < c.n → Py.idx s.label (x : Int) = some (c.tlabelOf x : Int) := by
        intro x hx; rw [idx_nat, hlabel]; exact hr.label x hx
      have hneg : ∀ x : Nat, ¬ ((x : Int) < 0) := fun x => by omega
      refine ⟨{ s with predicted_label := s.predicted_label.setIfInBounds k (P k : Int) }, ?_, ?_, ?_, ?_⟩
      · simp only [e1, Option.bind_eq_bind, Option.bind_some]
        by_cases hk' : c.rootOf k = k
        · simp only [decide_true, if_true, e3 k hk, e2, Option.bind_some, hneg, decide_false,
            Bool.false_eq_true, if_false, Option.pure_def, P, hk']
        · have : ¬ ((c.rootOf k : Int) = (k : Int)) := by omega
          simp only [this, decide_false, Bool.false_eq_true, if_false, e3 _ (hroot k hk), e2,
            Option.bind_some, hneg, Option.pure_def, P, hk']
      · simp [hs]
      · intro x hx
        show (s.predicted_label.setIfInBounds k (P k : Int))[x]? = _
        rw [getq_set _ _ _ _ (by omega), hv x hx]
        by_cases hxk : x = k
        · subst hxk; simp
        · simp only [hxk, if_false]
          by_cases hlt : x < k
          · simp [hlt, Nat.lt_succ_of_lt hlt]
          · have : ¬ x < k + 1 := by omega
            simp [hlt, this]
      · rw [he])
    sg () ⟨hr.sz_plabel, by intro x hx; simp, rfl⟩
  obtain ⟨s', e, hs, hv, he⟩ := key
  refine ⟨s', ?_, ?_, he⟩
  · unfold ClusImp.propagate_labels
    simp only [hr.n]
    rw [e]; rfl
  · apply Array.ext_getElem?
    intro x
    by_cases hx : x < c.n
    · rw [hv x hx]; simp [hx, propagateLabels, P]
    · simp [hx, hs, propagateLabels]
/-- `elimG` at `FSym fo` for a positive height is the `max` the code computes. -/
theorem elim_val (fo : Py.FOps) (height d c : Int) (h : height > 0) :
    (elimG (α := FSym fo) ⟨0⟩ ⟨height⟩ ⟨d⟩ ⟨c⟩).val = max (fo.sub d height) 0 := by
  unfold elimG
  have h1 : ((⟨0⟩ : FSym fo) < ⟨height⟩) := h
  rw [if_pos h1]
  show (if (⟨0⟩ : FSym fo) < (⟨fo.sub d height⟩ : FSym fo) then (⟨fo.sub d height⟩ : FSym fo) else ⟨0⟩).val = _
  by_cases h2 : 0 < fo.sub d height
  · have : ((⟨0⟩ : FSym fo) < (⟨fo.sub d height⟩ : FSym fo)) := h2
    rw [if_pos this]; show fo.sub d height = _; omega
  · have : ¬ ((⟨0⟩ : FSym fo) < (⟨fo.sub d height⟩ : FSym fo)) := h2
    rw [if_neg this]; show (0:Int) = _; omega

/-- `elimG` at `FSym fo` for a non-positive height keeps the cost. -/
theorem elim_val_neg (fo : Py.FOps) (height d c : Int) (h : ¬ height > 0) :
    (elimG (α := FSym fo) ⟨0⟩ ⟨height⟩ ⟨d⟩ ⟨c⟩).val = c := by
  unfold elimG
  have h1 : ¬ ((⟨0⟩ : FSym fo) < ⟨height⟩) := h
  rw [if_neg h1]

/-- `eliminate_maxima_height(h)`: for `h > 0` every node's cost becomes `max(density - h, 0)`, for
`h ≤ 0` nothing changes — the polymorphic `elimG` with the UNINTERPRETED float subtraction. -/
theorem eliminate_maxima_height_refines (fo : Py.FOps) (sg : PdfImp.PSG) (n : Nat) (height : Int)
    (hn : sg.n_nodes = (n : Int)) (hd : sg.density.size = n) (hc : sg.cost.size = n) :
    ∃ sg', PdfImp.eliminate_maxima_height fo sg height = some (sg', ()) ∧
      sg'.cost = (Array.range n).map (fun i =>
        (elimG (α := FSym fo) ⟨0⟩ ⟨height⟩ ⟨sg.density.getD i 0⟩ ⟨sg.cost.getD i 0⟩).val) ∧
      sg' = { sg with cost := sg'.cost } := by
  by_cases h : height > 0
  · let f : Nat → Int := fun x => max (fo.sub (sg.density.getD x 0) height) 0
    have key := forRange_refines (σ := PdfImp.PSG) (τ := Unit)
      (fun k s _ => s.cost.size = n ∧ (∀ x, x < n → s.cost[x]? = if x < k then some (f x) else sg.cost[x]?) ∧
        s = { sg with cost := s.cost })
      (fun i sg => (do
          let t4101 ← Py.idx sg.density i
          let t4102 ← Py.setIdx sg.cost i (max (fo.sub t4101 height) (0 : Int))
          let sg := { sg with cost := t4102 }
          pure sg))
      (fun _ _ => ()) n
      (by
        rintro k hk s _ ⟨hs, hv, he⟩
        have hdens : s.density = sg.density := by rw [he]
        have e1 : Py.idx s.density (k : Int) = some (sg.density.getD k 0) := by
          rw [idx_nat, hdens]
          simp [Array.getD_eq_getD_getElem?, hd, hk]
        have e2 : ∀ v, Py.setIdx s.cost (k : Int) v = some (s.cost.setIfInBounds k v) :=
          fun v => setIdx_nat _ _ _ (by omega)
        refine ⟨{ s with cost := s.cost.setIfInBounds k (f k) }, ?_, ?_, ?_, ?_⟩
        · simp only [e1, e2, bind, Option.bind, pure, f]
        · simp [hs]
        · intro x hx
          show (s.cost.setIfInBounds k (f k))[x]? = _
          rw [getq_set _ _ _ _ (by omega), hv x hx]
          by_cases hxk : x = k
          · subst hxk; simp
          · simp only [hxk, if_false]
            by_cases hlt : x < k
            · simp [hlt, Nat.lt_succ_of_lt hlt]
            · have : ¬ x < k + 1 := by omega
              simp [hlt, this]
        · rw [he])
      sg () ⟨hc, by intro x hx; simp, rfl⟩
    obtain ⟨s', e, hs, hv, he⟩ := key
    refine ⟨s', ?_, ?_, he⟩
    · unfold PdfImp.eliminate_maxima_height
      simp only [h, decide_true, if_true, hn]
      rw [e]; rfl
    · apply Array.ext_getElem?
      intro x
      by_cases hx : x < n
      · rw [hv x hx]; simp [hx, elim_val fo height _ _ h, f]
      · simp [hx, hs]
  · refine ⟨sg, ?_, ?_, rfl⟩
    · unfold PdfImp.eliminate_maxima_height
      simp [h, bind, pure]
    · apply Array.ext_getElem?
      intro x
      by_cases hx : x < n
      · simp [hx, elim_val_neg fo height _ _ h, Array.getD_eq_getD_getElem?, hc]
      · simp [hx, hc]
end Opf.SmallRefine
