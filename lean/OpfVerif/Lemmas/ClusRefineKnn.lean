/-
The competition loop of the translated `KNNSupervisedOPF._clustering` against `cluLoop`
(`unsup = false`), and the whole method against `clusterRun`.
-/
import OpfVerif.Lemmas.ClusRefineSym
import OpfVerif.Lemmas.ClusRefineInit
set_option linter.unusedVariables false
set_option linter.unusedSimpArgs false
namespace Opf.ClusRefineAux
open Opf Opf.Gen Opf.Gen.ClusImp

/-! ### the generated loop bodies under names -/

def loopCond : HeapImp.Obj × KSG → Option Bool :=
    (fun (h, sg) => (do
      let t2019 ← HeapImp.Obj.is_empty h
      pure (!t2019)))

def relaxCond (t2028 : Int) : KSG × HeapImp.Obj × Int → Option Bool :=
        (fun (sg, h, t2029) => (do
          let t2042 ← Py.idx sg.adjacency t2028
          pure (decide (t2029 < (t2042.size : Int)))))

/-- `current_cost` after the `force_prototype` adjustment. -/
def curBlock (FLOAT_MAX : Int) (force_prototype : Bool) (sg : KSG) (p q current_cost : Int) :
    Option Int :=
              (if force_prototype then (do
                  let t2033 ← Py.idx sg.label p
                  let t2034 ← Py.idx sg.label q
                  let current_cost ← (if (decide (t2033 ≠ t2034)) then (do
                      let current_cost := (-FLOAT_MAX)
                      pure current_cost) else (do
                      pure current_cost))
                  pure current_cost) else (do
                  pure current_cost))

/-- the relaxation of one neighbour `q`, with the rest of the iteration as a continuation `K`
(so that `knn_eq` stays `rfl` against the generated text). -/
def relaxCoreK {β : Type} (FLOAT_MAX : Int) (force_prototype : Bool) (p q : Int)
    (K : KSG × HeapImp.Obj → Option β) : KSG × HeapImp.Obj → Option β :=
        (fun (sg, h) => (do
          let t2030 ← Py.idx h.color q
          let (sg, h) ← (if (decide (t2030 ≠ (2 : Int))) then (do
              let t2031 ← Py.idx h.cost p
              let t2032 ← Py.idx sg.density q
              let current_cost := (min t2031 t2032)
              let current_cost ← curBlock FLOAT_MAX force_prototype sg p q current_cost
              let t2035 ← Py.idx h.cost q
              let (sg, h) ← (if (decide (current_cost > t2035)) then (do
                  let _g ← (if (decide (p < (-1 : Int))) then none else pure ())
                  let t2036 ← Py.setIdx sg.pred q p
                  let sg := { sg with pred := t2036 }
                  let t2037 ← Py.idx sg.root p
                  let _g ← (if (decide (t2037 < (0 : Int))) then none else pure ())
                  let t2038 ← Py.setIdx sg.root q t2037
                  let sg := { sg with root := t2038 }
                  let t2039 ← Py.idx sg.predicted_label p
                  let _g ← (if (decide (t2039 < (0 : Int))) then none else pure ())
                  let t2040 ← Py.setIdx sg.predicted_label q t2039
                  let sg := { sg with predicted_label := t2040 }
                  let (h, t2041) ← HeapImp.Obj.update h q current_cost
                  pure (sg, h)) else (do
                  pure (sg, h)))
              pure (sg, h)) else (do
              pure (sg, h)))
          K (sg, h)))

def relaxBody (FLOAT_MAX : Int) (force_prototype : Bool) (p t2028 : Int) :
    KSG × HeapImp.Obj × Int → Option (KSG × HeapImp.Obj × Int) :=
        (fun (sg, h, t2029) => (do
          let t2043 ← Py.idx sg.adjacency t2028
          let q ← Py.idx t2043 t2029
          let t2029 := t2029 + 1
          let q := q
          relaxCoreK FLOAT_MAX force_prototype p q (fun (sg, h) => pure (sg, h, t2029)) (sg, h)))

def loopBody (FLOAT_MAX : Int) (force_prototype : Bool) : HeapImp.Obj × KSG → Option (HeapImp.Obj × KSG) :=
    (fun (h, sg) => (do
      let (h, t2020) ← HeapImp.Obj.remove h
      let p := (Py.asInt t2020)
      let sg := { sg with idx_nodes := sg.idx_nodes.push p }
      let t2021 ← Py.idx sg.pred p
      let (h, sg) ← (if (decide (t2021 = (-1 : Int))) then (do
          let t2022 ← Py.idx sg.density p
          let t2023 ← Py.setIdx h.cost p t2022
          let h := { h with cost := t2023 }
          let t2024 ← Py.idx sg.label p
          let _g ← (if (decide (t2024 < (0 : Int))) then none else pure ())
          let t2025 ← Py.setIdx sg.predicted_label p t2024
          let sg := { sg with predicted_label := t2025 }
          pure (h, sg)) else (do
          pure (h, sg)))
      let t2026 ← Py.idx h.cost p
      let t2027 ← Py.setIdx sg.cost p t2026
      let sg := { sg with cost := t2027 }
      let t2028 := p
      let (sg, h, t2029) ← Py.whileM (σ := KSG × HeapImp.Obj × Int) (relaxCond t2028)
        (relaxBody FLOAT_MAX force_prototype p t2028) (sg, h, (0 : Int))
      pure (h, sg)))

theorem knn_eq (top : Int) (sg0 : KSG) (force : Bool) :
    knn_clustering top sg0 force = (do
      let sg ← Py.forRange (σ := KSG) sg0.n_nodes symOuter sg0
      let h ← HeapImp.Obj.init sg.n_nodes "max" top
      let (h, sg) ← Py.forRange (σ := HeapImp.Obj × KSG) sg.n_nodes initBody (h, sg)
      let (h, sg) ← Py.whileM (σ := HeapImp.Obj × KSG) loopCond (loopBody top force) (h, sg)
      pure (sg, ())) := rfl

/-! ### the relaxation of one neighbour -/

theorem curBlock_eval {u : Bool} (top : Int) (force : Bool) (sg : KSG) (c : Clu) (r : KRel u sg c)
    (p q : Nat) (hp : p < c.n) (hq : q < c.n) (cc : Int) :
    curBlock top force sg (p : Int) (q : Int) cc =
      some (if force = true ∧ c.tlabelOf p ≠ c.tlabelOf q then -top else cc) := by
  cases force with
  | false => simp [curBlock]
  | true =>
    by_cases h : c.tlabelOf p = c.tlabelOf q
    · simp [curBlock, r.idx_label hp, r.idx_label hq, h]
    · have h' : ¬ ((c.tlabelOf p : Int) = (c.tlabelOf q : Int)) := by omega
      simp [curBlock, r.idx_label hp, r.idx_label hq, h, h']

theorem relaxCoreK_step (top : Int) (force : Bool) (n p q : Nat) (hp : p < n) (hq : q < n)
    (sg : KSG) (g : HeapImp.Obj) (s : CluSt) (L : LInv false n sg g s) :
    ∃ a' : KSG × HeapImp.Obj,
      (∀ {β : Type} (K : KSG × HeapImp.Obj → Option β),
        relaxCoreK top force (p : Int) (q : Int) K (sg, g) = K a') ∧
      LInv false n a'.1 a'.2 (cluRelax force (-top) p s q) ∧
      (∀ x, s.h.colorOf x = BLACK → (cluRelax force (-top) p s q).h.colorOf x = BLACK) ∧
      (cluRelax force (-top) p s q).c.adj = s.c.adj := by
  have hpc : p < s.c.n := by rw [L.cn]; exact hp
  have hqc : q < s.c.n := by rw [L.cn]; exact hq
  have hqs : q < s.h.size := by rw [L.hsize]; exact hq
  have ecol := L.idx_hcolor hq
  have ecp := L.idx_hcost hp
  have ecq := L.idx_hcost hq
  have edq := L.relk.idx_density hqc
  have ecur := curBlock_eval top force sg s.c L.relk p q hpc hqc (min (s.h.costOf p) (s.c.densOf q))
  have hcurOf : (if force = true ∧ s.c.tlabelOf p ≠ s.c.tlabelOf q then -top
      else min (s.h.costOf p) (s.c.densOf q)) = Cluster.curOf force (-top) p s q := rfl
  rw [hcurOf] at ecur
  rw [Cluster.cluRelax_eq]
  by_cases hb : s.h.colorOf q = BLACK
  · rw [if_neg (not_not.2 hb)]
    refine ⟨(sg, g), ?_, L, fun x hx => hx, rfl⟩
    intro β K
    have hb' : ((s.h.colorOf q : Nat) : Int) = 2 := by rw [hb]; rfl
    simp only [relaxCoreK, ecol, hb', Option.bind_eq_bind, Option.bind_some, Option.pure_def, ne_eq,
      not_true_eq_false, decide_false, if_false, Bool.false_eq_true]
  · rw [if_pos hb]
    have hb' : ¬ (((s.h.colorOf q : Nat) : Int) = 2) := by
      intro h; apply hb; show s.h.colorOf q = 2; omega
    by_cases hgt : Cluster.curOf force (-top) p s q > s.h.costOf q
    · rw [if_pos hgt]
      have e36 : Py.setIdx sg.pred (q : Int) (p : Int) = some (sg.pred.setIfInBounds q (p : Int)) :=
        setIdx_nat _ _ _ (by rw [L.relk.sz_pred]; exact hqc)
      have e37 := L.relk.idx_root hpc
      have e38 : Py.setIdx sg.root (q : Int) (s.c.rootOf p : Int) =
          some (sg.root.setIfInBounds q (s.c.rootOf p : Int)) :=
        setIdx_nat _ _ _ (by rw [L.relk.sz_root]; exact hqc)
      have e39 := L.relk.idx_plabel hpc
      have e40 : Py.setIdx sg.predicted_label (q : Int) (s.c.labOf p : Int) =
          some (sg.predicted_label.setIfInBounds q (s.c.labOf p : Int)) :=
        setIdx_nat _ _ _ (by rw [L.relk.sz_plabel]; exact hqc)
      obtain ⟨g', e41, r41⟩ := HeapRefine.update_refines_wf L.rel L.wf q
        (Cluster.curOf force (-top) p s q) hqs
      obtain ⟨u1, u2⟩ := update_wf L.wf (x := q) (Cluster.curOf force (-top) p s q) hqs
      have hg1 : ¬ ((p : Int) < -1) := by omega
      have hg2 : ¬ ((s.c.rootOf p : Int) < 0) := by omega
      have hg3 : ¬ ((s.c.labOf p : Int) < 0) := by omega
      refine ⟨({ sg with pred := sg.pred.setIfInBounds q (p : Int),
                         root := sg.root.setIfInBounds q (s.c.rootOf p : Int),
                         predicted_label := sg.predicted_label.setIfInBounds q (s.c.labOf p : Int) },
                g'), ?_, ?_, u2, rfl⟩
      · intro β K
        simp only [relaxCoreK, ecol, hb', ecp, ecq, edq, ecur, hgt, hg1, hg2, hg3, e36, e37, e38, e39,
          e40, e41, Option.bind_eq_bind, Option.bind_some, Option.pure_def, ne_eq,
          not_false_eq_true, decide_true, decide_false, if_true, if_false, Bool.false_eq_true]
      · refine ⟨r41, u1, ?_, ?_, ?_, L.cn⟩
        · show (s.h.update q _).size = n
          rw [Heap.update_size]; exact L.hsize
        · exact ((L.relk.set_pred L.cwf.size_pred hqc (some p)).set_root
            (wf_set_pred L.cwf q (some p)).size_root hqc (s.c.rootOf p)).set_plabel
            (wf_set_root (wf_set_pred L.cwf q (some p)) q (s.c.rootOf p)).size_lab hqc (s.c.labOf p)
        · exact wf_set_lab (wf_set_root (wf_set_pred L.cwf q (some p)) q (s.c.rootOf p)) q
            (s.c.labOf p)
    · rw [if_neg hgt]
      refine ⟨(sg, g), ?_, L, fun x hx => hx, rfl⟩
      intro β K
      simp only [relaxCoreK, ecol, hb', ecp, ecq, edq, ecur, hgt, Option.bind_eq_bind,
        Option.bind_some, Option.pure_def, ne_eq, not_false_eq_true, decide_true, decide_false,
        if_true, if_false, Bool.false_eq_true]

/-! ### the list of `p` -/

theorem relax_loop (top : Int) (force : Bool) (n p : Nat) (hp : p < n)
    (sg : KSG) (g : HeapImp.Obj) (s : CluSt) (L : LInv false n sg g s) :
    ∃ a' : KSG × HeapImp.Obj × Int,
      Py.whileM (relaxCond (p : Int)) (relaxBody top force (p : Int) (p : Int)) (sg, g, (0 : Int)) =
        some a' ∧
      LInv false n a'.1 a'.2.1 ((s.c.adjOf p).foldl (cluRelax force (-top) p) s) ∧
      (∀ x, s.h.colorOf x = BLACK →
        ((s.c.adjOf p).foldl (cluRelax force (-top) p) s).h.colorOf x = BLACK) := by
  have hpc : p < s.c.n := by rw [L.cn]; exact hp
  obtain ⟨a', e, _, r2, _, r4⟩ := whileM_list_refines
    (fun (it : Nat) (a : KSG × HeapImp.Obj × Int) (b : CluSt) =>
      a.2.2 = (it : Int) ∧ LInv false n a.1 a.2.1 b ∧ b.c.adj = s.c.adj ∧
      (∀ x, s.h.colorOf x = BLACK → b.h.colorOf x = BLACK)) (s.c.adjOf p)
    (relaxCond (p : Int)) (relaxBody top force (p : Int) (p : Int)) (cluRelax force (-top) p)
    (by
      rintro it ⟨sg1, g1, t⟩ b ⟨h1, h2, h3, h4⟩
      simp only at h1 h2
      subst h1
      have hadj : b.c.adjOf p = s.c.adjOf p := by unfold Clu.adjOf; rw [h3]
      have e1 := h2.relk.idx_adj (x := p) (by rw [h2.cn]; exact hp)
      simp only [relaxCond, e1, hadj, Option.bind_eq_bind, Option.bind_some, Option.pure_def,
        aInt_size, Int.ofNat_lt])
    (by
      rintro it ⟨sg1, g1, t⟩ b hlt ⟨h1, h2, h3, h4⟩
      simp only at h1 h2
      subst h1
      have hadj : b.c.adjOf p = s.c.adjOf p := by unfold Clu.adjOf; rw [h3]
      have e1 := h2.relk.idx_adj (x := p) (by rw [h2.cn]; exact hp)
      rw [hadj] at e1
      have e2 := idx_aInt (s.c.adjOf p) it hlt
      have hq : (s.c.adjOf p)[it] < n := by
        rw [← L.cn]; exact (L.cwf.adj_lt p hpc _ (List.getElem_mem hlt)).1
      obtain ⟨a1, k1, k2, k3, k4⟩ := relaxCoreK_step top force n p _ hp hq sg1 g1 b h2
      refine ⟨(a1.1, a1.2, ((it + 1 : Nat) : Int)), ?_, rfl, k2, k4.trans h3,
        fun x hx => k3 x (h4 x hx)⟩
      have hcast : ((it : Int) + 1) = ((it + 1 : Nat) : Int) := by omega
      simp only [relaxBody, e1, e2, k1, hcast, Option.bind_eq_bind, Option.bind_some,
        Option.pure_def])
    (s.c.adjOf p).length 0 (by omega) (sg, g, (0 : Int)) s ⟨rfl, L, rfl, fun _ hx => hx⟩
  rw [List.drop_zero] at r2 r4
  exact ⟨a', e, r2, r4⟩

/-! ### one iteration of the `while` loop -/

theorem pInt_eq (v : Option Nat) : pInt v = -1 ↔ v = none := by
  cases v with
  | none => simp [pInt]
  | some p =>
    constructor
    · intro h; simp only [pInt] at h; omega
    · intro h; cases h

theorem loopBody_step (top : Int) (force : Bool) (k n : Nat) (sg : KSG) (g : HeapImp.Obj)
    (s : CluSt) (L : LInv false n sg g s) (hne : 0 < s.h.cnt) :
    ∃ g' sg' s', loopBody top force (g, sg) = some (g', sg') ∧
      cluStep false force (-top) k s = some s' ∧ LInv false n sg' g' s' ∧ nb n s'.h < nb n s.h := by
  obtain ⟨r1, r2, r3, r4, r5, r6⟩ := remove_wf L.wf hne
  obtain ⟨g1, e1, rr1⟩ := HeapRefine.remove_refines_wf L.rel L.wf
  generalize hp' : s.h.slot 0 = p at r1 r2 r3 r5 r6
  rw [r1] at e1
  have hrem : s.h.remove = ((s.h.remove).1, some p) := by rw [← r1]
  generalize s.h.remove.1 = h1 at hrem r4 r5 r6 rr1
  have hp : p < n := by rw [← L.hsize]; exact r2
  have hpc : p < s.c.n := by rw [L.cn]; exact hp
  have hsz1 : h1.size = n := by
    have := Heap.remove_size s.h; rw [hrem] at this; rw [this]; exact L.hsize
  have hps1 : p < h1.size := by rw [hsz1]; exact hp
  have e21 := L.relk.idx_pred hpc
  have L1 : LInv false n { sg with idx_nodes := sg.idx_nodes.push (p : Int) } g1
      { h := h1, c := { s.c with order := s.c.order.push p }, l := s.l } :=
    ⟨rr1, r4, hsz1, L.relk.push_order p, wf_push_order L.cwf p, L.cn⟩
  have hnb0 : s.h.colorOf p ≠ BLACK := by rw [r3]; decide
  have hmono1 : ∀ x, s.h.colorOf x = BLACK → h1.colorOf x = BLACK := by
    intro x hx
    by_cases e : x = p
    · rw [e]; exact r5
    · rw [r6 x e]; exact hx
  by_cases hroot : s.c.predOf p = none
  · -- a root
    have e21' : decide (pInt (s.c.predOf p) = -1) = true := by
      rw [decide_eq_true_eq, pInt_eq]; exact hroot
    have e22 := L.relk.idx_density hpc
    have e23 := HeapRefine.setIdx_cost rr1 r4 hps1 (s.c.densOf p)
    have e24 := L.relk.idx_label hpc
    have hg : ¬ ((s.c.tlabelOf p : Int) < 0) := by omega
    have e25 : Py.setIdx sg.predicted_label (p : Int) (s.c.tlabelOf p : Int) =
        some (sg.predicted_label.setIfInBounds p (s.c.tlabelOf p : Int)) :=
      setIdx_nat _ _ _ (by rw [L.relk.sz_plabel]; exact hpc)
    have rr2 := HeapRefine.rel_setCost rr1 p (s.c.densOf p)
    have w2 := Heap.WF_setCost r4 p (s.c.densOf p)
    have e26 : Py.idx (g1.cost.setIfInBounds p (s.c.densOf p)) (p : Int) =
        some ((h1.setCost p (s.c.densOf p)).costOf p) :=
      rr2.idx_cost w2 (x := p) hps1
    have e27 : Py.setIdx sg.cost (p : Int) ((h1.setCost p (s.c.densOf p)).costOf p) =
        some (sg.cost.setIfInBounds p ((h1.setCost p (s.c.densOf p)).costOf p)) :=
      setIdx_nat _ _ _ (by rw [L.relk.sz_cost]; exact hpc)
    have L2 : LInv false n
        { sg with idx_nodes := sg.idx_nodes.push (p : Int),
                  predicted_label := sg.predicted_label.setIfInBounds p (s.c.tlabelOf p : Int),
                  cost := sg.cost.setIfInBounds p ((h1.setCost p (s.c.densOf p)).costOf p) }
        { g1 with cost := g1.cost.setIfInBounds p (s.c.densOf p) }
        (Cluster.popRoot false s h1 p) := by
      refine ⟨rr2, w2, hsz1, ?_, ?_, L.cn⟩
      · exact ((L1.relk.set_plabel L1.cwf.size_lab hpc (s.c.tlabelOf p)).set_cost
          (wf_set_lab L1.cwf p (s.c.tlabelOf p)).size_cost hpc _)
      · exact wf_set_cost (wf_set_lab L1.cwf p (s.c.tlabelOf p)) p _
    obtain ⟨a', e28, L3, hbl⟩ := relax_loop top force n p hp _ _ _ L2
    refine ⟨a'.2.1, a'.1, _, ?_, Cluster.cluStep_root hrem hroot, L3, ?_⟩
    · simp only [loopBody, e1, asInt_retOf, e21, e21', e22, e23, e24, hg, e25, e26, e27, e28,
        Option.bind_eq_bind, Option.bind_some, Option.pure_def, if_true, decide_false, if_false,
        Bool.false_eq_true]
    · exact nb_lt n _ _ p hp hnb0 (hbl p r5) (fun x hx => hbl x (hmono1 x hx))
  · -- a conquered node
    obtain ⟨p', hp'⟩ := Option.ne_none_iff_exists'.1 hroot
    have e21' : decide (pInt (s.c.predOf p) = -1) = false := by
      rw [decide_eq_false_iff_not, pInt_eq]; exact hroot
    have e26 : Py.idx g1.cost (p : Int) = some (h1.costOf p) := rr1.idx_cost r4 (x := p) hps1
    have e27 : Py.setIdx sg.cost (p : Int) (h1.costOf p) =
        some (sg.cost.setIfInBounds p (h1.costOf p)) :=
      setIdx_nat _ _ _ (by rw [L.relk.sz_cost]; exact hpc)
    have L2 : LInv false n
        { sg with idx_nodes := sg.idx_nodes.push (p : Int),
                  cost := sg.cost.setIfInBounds p (h1.costOf p) }
        g1 (Cluster.popLink s h1 p) := by
      refine ⟨rr1, r4, hsz1, ?_, ?_, L.cn⟩
      · exact L1.relk.set_cost L1.cwf.size_cost hpc _
      · exact wf_set_cost L1.cwf p _
    obtain ⟨a', e28, L3, hbl⟩ := relax_loop top force n p hp _ _ _ L2
    refine ⟨a'.2.1, a'.1, _, ?_, Cluster.cluStep_link hrem hp', L3, ?_⟩
    · simp only [loopBody, e1, asInt_retOf, e21, e21', e26, e27, e28,
        Option.bind_eq_bind, Option.bind_some, Option.pure_def, if_true, decide_false, if_false,
        Bool.false_eq_true]
    · exact nb_lt n _ _ p hp hnb0 (hbl p r5) (fun x hx => hbl x (hmono1 x hx))

/-! ### the `while` loop, the method -/

theorem loopCond_eq (g : HeapImp.Obj) (sg : KSG) :
    loopCond (g, sg) = some (!decide (g.last = -1)) := by
  unfold loopCond HeapImp.Obj.is_empty
  by_cases h : g.last = -1 <;> simp [h]

theorem while_refines (top : Int) (force : Bool) (k n : Nat) :
    ∀ fuel sg g s, LInv false n sg g s → nb n s.h < fuel →
      ∃ g' sg', Py.whileM loopCond (loopBody top force) (g, sg) = some (g', sg') ∧
        KRel false sg' (cluLoop false force (-top) k fuel s).c := by
  intro fuel
  induction fuel with
  | zero => intro sg g s _ h; omega
  | succ fuel ih =>
    intro sg g s L hnb
    have hlast := L.rel.last
    by_cases he : s.h.cnt = 0
    · have hc : loopCond (g, sg) = some false := by
        rw [loopCond_eq]
        have : g.last = -1 := by rw [hlast, he]; rfl
        simp [this]
      refine ⟨g, sg, HeapRefine.whileM_false _ _ _ hc, ?_⟩
      rw [Cluster.cluLoop_none fuel (Cluster.cluStep_none he)]; exact L.relk
    · obtain ⟨g1, sg1, s1, e1, e2, L1, hlt⟩ := loopBody_step top force k n sg g s L (by omega)
      have hc : loopCond (g, sg) = some true := by
        rw [loopCond_eq]
        have : ¬ g.last = -1 := by rw [hlast]; omega
        simp [this]
      obtain ⟨g', sg', e3, r3⟩ := ih sg1 g1 s1 L1 (by omega)
      refine ⟨g', sg', ?_, ?_⟩
      · rw [HeapRefine.whileM_true _ _ _ _ hc e1]; exact e3
      · rw [Cluster.cluLoop_some fuel e2]; exact r3

/-- `KNNSupervisedOPF._clustering`, in terms of `KRel`. -/
theorem knn_refines (top : Int) (sg : KSG) (c : Clu) (force : Bool) (k : Nat)
    (hr : KRel false sg c) (hwf : c.WF) (hn : 0 < c.n) :
    ∃ sg', knn_clustering top sg force = some (sg', ()) ∧
      KRel false sg' (clusterRun false force top (-top) k c) := by
  obtain ⟨sg1, e1, r1⟩ := symKnn_refines sg c hr hwf
  have s1 := Cluster.symKnn_inv hwf
  have w1 : (symKnn c).WF := s1.wf hwf
  have hn1 : 0 < (symKnn c).n := by rw [s1.frame.n]; exact hn
  obtain ⟨g0, a2, e0, e2, L2, _⟩ := init_refines false top sg1 (symKnn c) r1 w1 hn1
  obtain ⟨g3, sg3, e3, r3⟩ := while_refines top force k (symKnn c).n ((symKnn c).n + 1) a2.2 a2.1 _
    L2 (Nat.lt_succ_of_le (nb_le _ _))
  refine ⟨sg3, ?_, r3⟩
  rw [knn_eq]
  simp only [e1, e0, e2, e3, Option.bind_eq_bind, Option.bind_some, Option.pure_def]

end Opf.ClusRefineAux
