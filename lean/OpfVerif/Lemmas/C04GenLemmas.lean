-- helper lemmas for Props/C04Gen.lean
import OpfVerif.Props.C03Gen
import OpfVerif.Props.C04
namespace Opf.C04GenLemmas
open Opf Opf.Gen Opf.Gen.SupImp Opf.SupRefine Opf.FitCompose Opf.GenCompose

/-- tie-free data satisfy the input hypotheses of the fit theorems. -/
theorem fitHyp_of_tieFree (w : Nat → Nat → Int) (top : Int) (lab : Array Nat) (H : TieFree w top lab) :
    FitHyp w top lab.size lab := by
  obtain ⟨a, b, ha, hb, hab⟩ := H.two
  have hne : a ≠ b := fun h => hab (by rw [h])
  refine ⟨by omega, Nat.le_refl _, H.symm, ?_, H.lt_top, ?_, ⟨a, b, ha, hb, hab⟩⟩
  · intro p q hp hq
    by_cases hpq : p = q
    · subst hpq; exact H.diag p hp
    · exact Int.le_of_lt (H.pos p q hp hq hpq)
  · have h1 := H.pos a b ha hb hne
    have h2 := H.lt_top a b ha hb
    omega

/-- an integer array that reads `lab[x]` at every position of `lab` is `lab` cast entrywise. -/
theorem eq_map_cast (a : Array Int) (lab : Array Nat) (hsz : a.size = lab.size)
    (h : ∀ x (hx : x < lab.size), a[x]? = some (lab[x] : Int)) :
    a = lab.map (fun (x : Nat) => (x : Int)) := by
  apply Array.ext_getElem?
  intro x
  by_cases hx : x < lab.size
  · rw [h x hx]; simp [hx]
  · rw [Array.getElem?_eq_none (by omega), Array.getElem?_eq_none (by simp; omega)]

/-- `fit` (supervised) leaves the true labels as it found them. -/
theorem fitRun_label (w : Nat → Nat → Int) (top : Int) (lab : Array Nat)
    (H : FitHyp w top lab.size lab) : (fitRun w top false lab.size lab).f.label = lab := by
  rw [fitRun_eq, c15_supervised_label]
  exact (prim_lawful H).choose_spec.2.2.2.2.2.1

/-- the labels returned for the training rows used as queries. -/
theorem labelsInt_train (f : Forest) (w : Nat → Nat → Int) (lab : Array Nat)
    (h : ∀ t (ht : t < lab.size),
      (predictOne f (fun s => if s = t then 0 else w s t)).map (·.label) = some lab[t]) :
    labelsInt (predictBatch f ((List.range lab.size).map (fun t s => if s = t then 0 else w s t))).2
      = lab.map (fun (x : Nat) => (x : Int)) := by
  apply eq_map_cast
  · rw [labelsInt_size, predictBatch_labels]; simp
  · intro x hx
    rw [predictBatch_labels]
    simp only [labelsInt, List.map_map, List.getElem?_toArray, List.getElem?_map,
      List.getElem?_range hx, Option.map_some, Function.comp]
    rw [h x hx]

end Opf.C04GenLemmas
