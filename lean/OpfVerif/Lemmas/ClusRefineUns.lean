/-
The competition loop of the translated `UnsupervisedOPF._clustering` against `cluLoop`
(`unsup = true`), and the whole method against `clusterRun`.
-/
import OpfVerif.Lemmas.ClusRefineSymU
import OpfVerif.Lemmas.ClusRefineInit
set_option linter.unusedVariables false
set_option linter.unusedSimpArgs false
namespace Opf.ClusRefineAux
open Opf Opf.Gen Opf.Gen.ClusImp

/-! ### the generated loop bodies under names -/

def loopCondU : HeapImp.Obj × KSG × Int → Option Bool :=
    (fun (h, sg, l) => (do
      let t2060 ← HeapImp.Obj.is_empty h
      pure (!t2060)))

/-- the relaxation of one neighbour `q`, with the rest of the iteration as a continuation `K`. -/
def relaxCoreUK {β : Type} (p q : Int) (K : KSG × HeapImp.Obj → Option β) :
    KSG × HeapImp.Obj → Option β :=
        (fun (sg, h) => (do
          let t2071 ← Py.idx h.color q
          let (sg, h) ← (if (decide (t2071 ≠ (2 : Int))) then (do
              let t2072 ← Py.idx h.cost p
              let t2073 ← Py.idx sg.density q
              let current_cost := (min t2072 t2073)
              let t2074 ← Py.idx h.cost q
              let (sg, h) ← (if (decide (current_cost > t2074)) then (do
                  let _g ← (if (decide (p < (-1 : Int))) then none else pure ())
                  let t2075 ← Py.setIdx sg.pred q p
                  let sg := { sg with pred := t2075 }
                  let t2076 ← Py.idx sg.root p
                  let _g ← (if (decide (t2076 < (0 : Int))) then none else pure ())
                  let t2077 ← Py.setIdx sg.root q t2076
                  let sg := { sg with root := t2077 }
                  let t2078 ← Py.idx sg.cluster_label p
                  let _g ← (if (decide (t2078 < (0 : Int))) then none else pure ())
                  let t2079 ← Py.setIdx sg.cluster_label q t2078
                  let sg := { sg with cluster_label := t2079 }
                  let (h, t2080) ← HeapImp.Obj.update h q current_cost
                  pure (sg, h)) else (do
                  pure (sg, h)))
              pure (sg, h)) else (do
              pure (sg, h)))
          K (sg, h)))

def relaxBodyU (p : Int) : Int → KSG × HeapImp.Obj → Option (KSG × HeapImp.Obj) :=
        (fun k (sg, h) => (do
          let t2069 ← Py.idx sg.adjacency p
          let t2070 ← Py.idx t2069 k
          let q := t2070
          relaxCoreUK p q (fun (sg, h) => pure (sg, h)) (sg, h)))

def loopBodyU (n_neighbours : Int) : HeapImp.Obj × KSG × Int → Option (HeapImp.Obj × KSG × Int) :=
    (fun (h, sg, l) => (do
      let (h, t2061) ← HeapImp.Obj.remove h
      let p := (Py.asInt t2061)
      let sg := { sg with idx_nodes := sg.idx_nodes.push p }
      let t2062 ← Py.idx sg.pred p
      let (h, sg, l) ← (if (decide (t2062 = (-1 : Int))) then (do
          let t2063 ← Py.idx sg.density p
          let t2064 ← Py.setIdx h.cost p t2063
          let h := { h with cost := t2064 }
          let _g ← (if (decide (l < (0 : Int))) then none else pure ())
          let t2065 ← Py.setIdx sg.cluster_label p l
          let sg := { sg with cluster_label := t2065 }
          let l := (l + (1 : Int))
          pure (h, sg, l)) else (do
          pure (h, sg, l)))
      let t2066 ← Py.idx h.cost p
      let t2067 ← Py.setIdx sg.cost p t2066
      let sg := { sg with cost := t2067 }
      let t2068 ← Py.idx sg.n_plateaus p
      let n_adjacents := (t2068 + n_neighbours)
      let (sg, h) ← Py.forRange (σ := KSG × HeapImp.Obj) n_adjacents (relaxBodyU p) (sg, h)
      pure (h, sg, l)))

theorem uns_eq (top : Int) (sg0 : KSG) (n_neighbours : Int) :
    uns_clustering top sg0 n_neighbours = (do
      let sg ← Py.forRange (σ := KSG) sg0.n_nodes (unsOuter n_neighbours) sg0
      let h ← HeapImp.Obj.init sg.n_nodes "max" top
      let (h, sg) ← Py.forRange (σ := HeapImp.Obj × KSG) sg.n_nodes initBody (h, sg)
      let l := (0 : Int)
      let (h, sg, l) ← Py.whileM (σ := HeapImp.Obj × KSG × Int) loopCondU (loopBodyU n_neighbours)
        (h, sg, l)
      let _g ← (if (decide (l < (0 : Int))) then none else pure ())
      let sg := { sg with n_clusters := l }
      pure (sg, ())) := rfl

/-! ### the relaxation of one neighbour -/

theorem curOf_false (negTop : Int) (p : Nat) (s : CluSt) (q : Nat) :
    Cluster.curOf false negTop p s q = min (s.h.costOf p) (s.c.densOf q) := by
  simp [Cluster.curOf]

theorem relaxCoreUK_step (top : Int) (n p q : Nat) (hp : p < n) (hq : q < n)
    (sg : KSG) (g : HeapImp.Obj) (s : CluSt) (L : LInv true n sg g s) :
    ∃ a' : KSG × HeapImp.Obj,
      (∀ {β : Type} (K : KSG × HeapImp.Obj → Option β),
        relaxCoreUK (p : Int) (q : Int) K (sg, g) = K a') ∧
      LInv true n a'.1 a'.2 (cluRelax false (-top) p s q) ∧
      (∀ x, s.h.colorOf x = BLACK → (cluRelax false (-top) p s q).h.colorOf x = BLACK) ∧
      (cluRelax false (-top) p s q).c.adj = s.c.adj ∧
      (cluRelax false (-top) p s q).c.nplat = s.c.nplat ∧
      (cluRelax false (-top) p s q).l = s.l := by
  have hpc : p < s.c.n := by rw [L.cn]; exact hp
  have hqc : q < s.c.n := by rw [L.cn]; exact hq
  have hqs : q < s.h.size := by rw [L.hsize]; exact hq
  have ecol := L.idx_hcolor hq
  have ecp := L.idx_hcost hp
  have ecq := L.idx_hcost hq
  have edq := L.relk.idx_density hqc
  rw [Cluster.cluRelax_eq, curOf_false]
  by_cases hb : s.h.colorOf q = BLACK
  · rw [if_neg (not_not.2 hb)]
    refine ⟨(sg, g), ?_, L, fun x hx => hx, rfl, rfl, rfl⟩
    intro β K
    have hb' : ((s.h.colorOf q : Nat) : Int) = 2 := by rw [hb]; rfl
    simp only [relaxCoreUK, ecol, hb', Option.bind_eq_bind, Option.bind_some, Option.pure_def, ne_eq,
      not_true_eq_false, decide_false, if_false, Bool.false_eq_true]
  · rw [if_pos hb]
    have hb' : ¬ (((s.h.colorOf q : Nat) : Int) = 2) := by
      intro h; apply hb; show s.h.colorOf q = 2; omega
    by_cases hgt : min (s.h.costOf p) (s.c.densOf q) > s.h.costOf q
    · rw [if_pos hgt]
      have e36 : Py.setIdx sg.pred (q : Int) (p : Int) = some (sg.pred.setIfInBounds q (p : Int)) :=
        setIdx_nat _ _ _ (by rw [L.relk.sz_pred]; exact hqc)
      have e37 := L.relk.idx_root hpc
      have e38 : Py.setIdx sg.root (q : Int) (s.c.rootOf p : Int) =
          some (sg.root.setIfInBounds q (s.c.rootOf p : Int)) :=
        setIdx_nat _ _ _ (by rw [L.relk.sz_root]; exact hqc)
      have e39 := L.relk.idx_clabel hpc
      have e40 : Py.setIdx sg.cluster_label (q : Int) (s.c.labOf p : Int) =
          some (sg.cluster_label.setIfInBounds q (s.c.labOf p : Int)) :=
        setIdx_nat _ _ _ (by rw [L.relk.sz_clabel]; exact hqc)
      obtain ⟨g', e41, r41⟩ := HeapRefine.update_refines_wf L.rel L.wf q
        (min (s.h.costOf p) (s.c.densOf q)) hqs
      obtain ⟨u1, u2⟩ := update_wf L.wf (x := q) (min (s.h.costOf p) (s.c.densOf q)) hqs
      have hg1 : ¬ ((p : Int) < -1) := by omega
      have hg2 : ¬ ((s.c.rootOf p : Int) < 0) := by omega
      have hg3 : ¬ ((s.c.labOf p : Int) < 0) := by omega
      refine ⟨({ sg with pred := sg.pred.setIfInBounds q (p : Int),
                         root := sg.root.setIfInBounds q (s.c.rootOf p : Int),
                         cluster_label := sg.cluster_label.setIfInBounds q (s.c.labOf p : Int) },
                g'), ?_, ?_, u2, rfl, rfl, rfl⟩
      · intro β K
        simp only [relaxCoreUK, ecol, hb', ecp, ecq, edq, hgt, hg1, hg2, hg3, e36, e37, e38, e39,
          e40, e41, Option.bind_eq_bind, Option.bind_some, Option.pure_def, ne_eq,
          not_false_eq_true, decide_true, decide_false, if_true, if_false, Bool.false_eq_true]
      · refine ⟨r41, u1, ?_, ?_, ?_, L.cn⟩
        · show (s.h.update q _).size = n
          rw [Heap.update_size]; exact L.hsize
        · exact ((L.relk.set_pred L.cwf.size_pred hqc (some p)).set_root
            (wf_set_pred L.cwf q (some p)).size_root hqc (s.c.rootOf p)).set_clabel
            (wf_set_root (wf_set_pred L.cwf q (some p)) q (s.c.rootOf p)).size_lab hqc (s.c.labOf p)
        · exact wf_set_lab (wf_set_root (wf_set_pred L.cwf q (some p)) q (s.c.rootOf p)) q
            (s.c.labOf p)
    · rw [if_neg hgt]
      refine ⟨(sg, g), ?_, L, fun x hx => hx, rfl, rfl, rfl⟩
      intro β K
      simp only [relaxCoreUK, ecol, hb', ecp, ecq, edq, hgt, Option.bind_eq_bind,
        Option.bind_some, Option.pure_def, ne_eq, not_false_eq_true, decide_true, decide_false,
        if_true, if_false, Bool.false_eq_true]

/-! ### the first `n_plateaus[p] + k` entries of the list of `p` -/

theorem foldl_take_range {τ : Type} (f : τ → Nat → τ) (L : List Nat) (m : Nat) (hm : m ≤ L.length)
    (s : τ) : (List.range m).foldl (fun b kk => f b (L.getD kk 0)) s = (L.take m).foldl f s := by
  induction m with
  | zero => simp
  | succ m ih =>
    have hlt : m < L.length := by omega
    rw [List.range_succ, List.foldl_append, ih (by omega), List.take_add_one, List.foldl_append,
      List.getElem?_eq_getElem hlt]
    show f _ (L.getD m 0) = f _ L[m]
    rw [getD_eq_getElem L m hlt]

theorem relax_fold (top : Int) (n p m : Nat) (hp : p < n)
    (sg : KSG) (g : HeapImp.Obj) (s : CluSt) (L : LInv true n sg g s)
    (hm : m ≤ (s.c.adjOf p).length) :
    ∃ a' : KSG × HeapImp.Obj,
      Py.forRange (σ := KSG × HeapImp.Obj) (m : Int) (relaxBodyU (p : Int)) (sg, g) = some a' ∧
      LInv true n a'.1 a'.2 (((s.c.adjOf p).take m).foldl (cluRelax false (-top) p) s) ∧
      (∀ x, s.h.colorOf x = BLACK →
        (((s.c.adjOf p).take m).foldl (cluRelax false (-top) p) s).h.colorOf x = BLACK) ∧
      (((s.c.adjOf p).take m).foldl (cluRelax false (-top) p) s).c.adj = s.c.adj ∧
      (((s.c.adjOf p).take m).foldl (cluRelax false (-top) p) s).c.nplat = s.c.nplat ∧
      (((s.c.adjOf p).take m).foldl (cluRelax false (-top) p) s).l = s.l := by
  have hpc : p < s.c.n := by rw [L.cn]; exact hp
  rw [← foldl_take_range (cluRelax false (-top) p) (s.c.adjOf p) m hm s]
  exact forRange_refines
    (fun (_ : Nat) (a : KSG × HeapImp.Obj) (b : CluSt) =>
      LInv true n a.1 a.2 b ∧ (∀ x, s.h.colorOf x = BLACK → b.h.colorOf x = BLACK) ∧
      b.c.adj = s.c.adj ∧ b.c.nplat = s.c.nplat ∧ b.l = s.l)
    (relaxBodyU (p : Int)) (fun b kk => cluRelax false (-top) p b ((s.c.adjOf p).getD kk 0)) m
    (by
      rintro kk hkk ⟨sg1, g1⟩ b ⟨h2, h4, h3, h5, h6⟩
      simp only at h2
      have hlt : kk < (s.c.adjOf p).length := by omega
      have hadj : b.c.adjOf p = s.c.adjOf p := by unfold Clu.adjOf; rw [h3]
      have e1 := h2.relk.idx_adj (x := p) (by rw [h2.cn]; exact hp)
      rw [hadj] at e1
      have e2 := idx_aInt (s.c.adjOf p) kk hlt
      have hq : (s.c.adjOf p)[kk] < n := by
        rw [← L.cn]; exact (L.cwf.adj_lt p hpc _ (List.getElem_mem hlt)).1
      rw [getD_eq_getElem _ _ hlt]
      obtain ⟨a1, k1, k2, k3, k4, k5, k6⟩ := relaxCoreUK_step top n p _ hp hq sg1 g1 b h2
      refine ⟨a1, ?_, k2, fun x hx => k3 x (h4 x hx), k4.trans h3, k5.trans h5, k6.trans h6⟩
      simp only [relaxBodyU, e1, e2, k1, Option.bind_eq_bind, Option.bind_some, Option.pure_def])
    (sg, g) s ⟨L, fun _ hx => hx, rfl, rfl, rfl⟩

/-! ### one iteration of the `while` loop -/

theorem pInt_eq' (v : Option Nat) : pInt v = -1 ↔ v = none := by
  cases v with
  | none => simp [pInt]
  | some p =>
    constructor
    · intro h; simp only [pInt] at h; omega
    · intro h; cases h

theorem loopBodyU_step (top : Int) (k n : Nat) (sg : KSG) (g : HeapImp.Obj)
    (s : CluSt) (L : LInv true n sg g s) (pl : PL k s.c) (hne : 0 < s.h.cnt) :
    ∃ g' sg' s', loopBodyU (k : Int) (g, sg, (s.l : Int)) = some (g', sg', (s'.l : Int)) ∧
      cluStep true false (-top) k s = some s' ∧ LInv true n sg' g' s' ∧ PL k s'.c ∧
      nb n s'.h < nb n s.h := by
  obtain ⟨r1, r2, r3, r4, r5, r6⟩ := remove_wf L.wf hne
  obtain ⟨g1, e1, rr1⟩ := HeapRefine.remove_refines_wf L.rel L.wf
  generalize hp' : s.h.slot 0 = p at r1 r2 r3 r5 r6
  rw [r1] at e1
  have hrem : s.h.remove = ((s.h.remove).1, some p) := by rw [← r1]
  generalize s.h.remove.1 = h1 at hrem r4 r5 r6 rr1
  have hp : p < n := by rw [← L.hsize]; exact r2
  have hpc : p < s.c.n := by rw [L.cn]; exact hp
  have hsz1 : h1.size = n := by
    have := Heap.remove_size s.h; rw [hrem] at this; rw [this]; exact L.hsize
  have hps1 : p < h1.size := by rw [hsz1]; exact hp
  have e21 := L.relk.idx_pred hpc
  have L1 : LInv true n { sg with idx_nodes := sg.idx_nodes.push (p : Int) } g1
      { h := h1, c := { s.c with order := s.c.order.push p }, l := s.l } :=
    ⟨rr1, r4, hsz1, L.relk.push_order p, wf_push_order L.cwf p, L.cn⟩
  have hnb0 : s.h.colorOf p ≠ BLACK := by rw [r3]; decide
  have hmono1 : ∀ x, s.h.colorOf x = BLACK → h1.colorOf x = BLACK := by
    intro x hx
    by_cases e : x = p
    · rw [e]; exact r5
    · rw [r6 x e]; exact hx
  have e68 := L.relk.idx_nplat hpc
  have hm : s.c.nplat.getD p 0 + k ≤ (s.c.adjOf p).length := pl p hpc
  have hcast : ((s.c.nplat.getD p 0 : Nat) : Int) + (k : Int) = ((s.c.nplat.getD p 0 + k : Nat) : Int) := by
    omega
  have hpl : ∀ c' : Clu, c'.adj = s.c.adj → c'.nplat = s.c.nplat → c'.n = s.c.n → PL k c' := by
    intro c' h1 h2 h3 x hx
    unfold Clu.adjOf
    rw [h1, h2]
    exact pl x (by rw [← h3]; exact hx)
  by_cases hroot : s.c.predOf p = none
  · -- a root
    have e21' : decide (pInt (s.c.predOf p) = -1) = true := by
      rw [decide_eq_true_eq, pInt_eq']; exact hroot
    have e22 := L.relk.idx_density hpc
    have e23 := HeapRefine.setIdx_cost rr1 r4 hps1 (s.c.densOf p)
    have hg : ¬ ((s.l : Int) < 0) := by omega
    have e25 : Py.setIdx sg.cluster_label (p : Int) (s.l : Int) =
        some (sg.cluster_label.setIfInBounds p (s.l : Int)) :=
      setIdx_nat _ _ _ (by rw [L.relk.sz_clabel]; exact hpc)
    have rr2 := HeapRefine.rel_setCost rr1 p (s.c.densOf p)
    have w2 := Heap.WF_setCost r4 p (s.c.densOf p)
    have e26 : Py.idx (g1.cost.setIfInBounds p (s.c.densOf p)) (p : Int) =
        some ((h1.setCost p (s.c.densOf p)).costOf p) :=
      rr2.idx_cost w2 (x := p) hps1
    have e27 : Py.setIdx sg.cost (p : Int) ((h1.setCost p (s.c.densOf p)).costOf p) =
        some (sg.cost.setIfInBounds p ((h1.setCost p (s.c.densOf p)).costOf p)) :=
      setIdx_nat _ _ _ (by rw [L.relk.sz_cost]; exact hpc)
    have hl1 : ((s.l : Nat) : Int) + 1 = ((s.l + 1 : Nat) : Int) := by omega
    have L2 : LInv true n
        { sg with idx_nodes := sg.idx_nodes.push (p : Int),
                  cluster_label := sg.cluster_label.setIfInBounds p (s.l : Int),
                  cost := sg.cost.setIfInBounds p ((h1.setCost p (s.c.densOf p)).costOf p) }
        { g1 with cost := g1.cost.setIfInBounds p (s.c.densOf p) }
        (Cluster.popRoot true s h1 p) := by
      refine ⟨rr2, w2, hsz1, ?_, ?_, L.cn⟩
      · exact ((L1.relk.set_clabel L1.cwf.size_lab hpc s.l).set_cost
          (wf_set_lab L1.cwf p s.l).size_cost hpc _)
      · exact wf_set_cost (wf_set_lab L1.cwf p s.l) p _
    obtain ⟨a', e28, L3, hbl, ha, hnp, hl⟩ := relax_fold top n p (s.c.nplat.getD p 0 + k) hp _ _ _ L2 hm
    have hl' : ((s.c.nbrs true k p).foldl (cluRelax false (-top) p) (Cluster.popRoot true s h1 p)).l =
        s.l + 1 := hl
    refine ⟨a'.2, a'.1, _, ?_, Cluster.cluStep_root hrem hroot, L3,
      hpl _ ha hnp (L3.cn.trans L.cn.symm), ?_⟩
    · simp only [loopBodyU, e1, asInt_retOf, e21, e21', e22, e23, hg, e25, e26, e27, e68, hcast, e28,
        hl1, Option.bind_eq_bind, Option.bind_some, Option.pure_def, if_true, decide_false, if_false,
        Bool.false_eq_true]
      rw [hl']
    · exact nb_lt n _ _ p hp hnb0 (hbl p r5) (fun x hx => hbl x (hmono1 x hx))
  · -- a conquered node
    obtain ⟨p', hp'⟩ := Option.ne_none_iff_exists'.1 hroot
    have e21' : decide (pInt (s.c.predOf p) = -1) = false := by
      rw [decide_eq_false_iff_not, pInt_eq']; exact hroot
    have e26 : Py.idx g1.cost (p : Int) = some (h1.costOf p) := rr1.idx_cost r4 (x := p) hps1
    have e27 : Py.setIdx sg.cost (p : Int) (h1.costOf p) =
        some (sg.cost.setIfInBounds p (h1.costOf p)) :=
      setIdx_nat _ _ _ (by rw [L.relk.sz_cost]; exact hpc)
    have L2 : LInv true n
        { sg with idx_nodes := sg.idx_nodes.push (p : Int),
                  cost := sg.cost.setIfInBounds p (h1.costOf p) }
        g1 (Cluster.popLink s h1 p) := by
      refine ⟨rr1, r4, hsz1, ?_, ?_, L.cn⟩
      · exact L1.relk.set_cost L1.cwf.size_cost hpc _
      · exact wf_set_cost L1.cwf p _
    obtain ⟨a', e28, L3, hbl, ha, hnp, hl⟩ := relax_fold top n p (s.c.nplat.getD p 0 + k) hp _ _ _ L2 hm
    have hl' : ((s.c.nbrs true k p).foldl (cluRelax false (-top) p) (Cluster.popLink s h1 p)).l =
        s.l := hl
    refine ⟨a'.2, a'.1, _, ?_, Cluster.cluStep_link hrem hp', L3,
      hpl _ ha hnp (L3.cn.trans L.cn.symm), ?_⟩
    · simp only [loopBodyU, e1, asInt_retOf, e21, e21', e26, e27, e68, hcast, e28,
        Option.bind_eq_bind, Option.bind_some, Option.pure_def, if_true, decide_false, if_false,
        Bool.false_eq_true]
      rw [hl']
    · exact nb_lt n _ _ p hp hnb0 (hbl p r5) (fun x hx => hbl x (hmono1 x hx))

/-! ### the `while` loop, the method -/

theorem loopCondU_eq (g : HeapImp.Obj) (sg : KSG) (l : Int) :
    loopCondU (g, sg, l) = some (!decide (g.last = -1)) := by
  unfold loopCondU HeapImp.Obj.is_empty
  by_cases h : g.last = -1 <;> simp [h]

theorem whileU_refines (top : Int) (k n : Nat) :
    ∀ fuel sg g s, LInv true n sg g s → PL k s.c → nb n s.h < fuel →
      ∃ g' sg', Py.whileM loopCondU (loopBodyU (k : Int)) (g, sg, (s.l : Int)) =
          some (g', sg', ((cluLoop true false (-top) k fuel s).l : Int)) ∧
        KRel true sg' (cluLoop true false (-top) k fuel s).c := by
  intro fuel
  induction fuel with
  | zero => intro sg g s _ _ h; omega
  | succ fuel ih =>
    intro sg g s L pl hnb
    have hlast := L.rel.last
    by_cases he : s.h.cnt = 0
    · have hc : loopCondU (g, sg, (s.l : Int)) = some false := by
        rw [loopCondU_eq]
        have : g.last = -1 := by rw [hlast, he]; rfl
        simp [this]
      rw [Cluster.cluLoop_none fuel (Cluster.cluStep_none he)]
      exact ⟨g, sg, HeapRefine.whileM_false _ _ _ hc, L.relk⟩
    · obtain ⟨g1, sg1, s1, e1, e2, L1, pl1, hlt⟩ := loopBodyU_step top k n sg g s L pl (by omega)
      have hc : loopCondU (g, sg, (s.l : Int)) = some true := by
        rw [loopCondU_eq]
        have : ¬ g.last = -1 := by rw [hlast]; omega
        simp [this]
      obtain ⟨g', sg', e3, r3⟩ := ih sg1 g1 s1 L1 pl1 (by omega)
      rw [Cluster.cluLoop_some fuel e2]
      refine ⟨g', sg', ?_, r3⟩
      rw [HeapRefine.whileM_true _ _ _ _ hc e1]; exact e3

theorem cluInit_fold_fix (L : List Nat) (s : CluSt) :
    (L.foldl cluInit s).c.adj = s.c.adj ∧ (L.foldl cluInit s).c.nplat = s.c.nplat ∧
      (L.foldl cluInit s).c.n = s.c.n := by
  induction L generalizing s with
  | nil => exact ⟨rfl, rfl, rfl⟩
  | cons a L ih =>
    rw [List.foldl_cons]
    obtain ⟨h1, h2, h3⟩ := ih (cluInit s a)
    exact ⟨h1, h2, h3⟩

/-- `UnsupervisedOPF._clustering`, in terms of `KRel`. -/
theorem uns_refines (top : Int) (sg : KSG) (c : Clu) (k : Nat)
    (hr : KRel true sg c) (hwf : c.WF) (hn : 0 < c.n)
    (hlong : ∀ i, i < c.n → c.nplat.getD i 0 + k ≤ (c.adjOf i).length) :
    ∃ sg', uns_clustering top sg (k : Int) = some (sg', ()) ∧
      KRel true sg' (clusterRun true false top (-top) k c) := by
  obtain ⟨sg1, e1, r1, s1, pl1⟩ := symUns_refines k sg c hr hwf hlong
  have w1 : (symUns k c).WF := s1.wf hwf
  have hn1 : 0 < (symUns k c).n := by rw [s1.frame.n]; exact hn
  obtain ⟨g0, a2, e0, e2, L2, hl2⟩ := init_refines true top sg1 (symUns k c) r1 w1 hn1
  have pl2 : PL k ((List.range (symUns k c).n).foldl cluInit
      { h := Heap.init (symUns k c).n true top, c := symUns k c, l := 0 }).c := by
    obtain ⟨h1, h2, h3⟩ := cluInit_fold_fix (List.range (symUns k c).n)
      { h := Heap.init (symUns k c).n true top, c := symUns k c, l := 0 }
    intro x hx
    unfold Clu.adjOf
    rw [h1, h2]
    exact pl1 x (by rw [← h3]; exact hx)
  obtain ⟨g3, sg3, e3, r3⟩ := whileU_refines top k (symUns k c).n ((symUns k c).n + 1) a2.2 a2.1 _
    L2 pl2 (Nat.lt_succ_of_le (nb_le _ _))
  rw [hl2] at e3
  have hrun : clusterRun true false top (-top) k c =
      { (cluLoop true false (-top) k ((symUns k c).n + 1) ((List.range (symUns k c).n).foldl cluInit
          { h := Heap.init (symUns k c).n true top, c := symUns k c, l := 0 })).c with
        nclusters := (cluLoop true false (-top) k ((symUns k c).n + 1)
          ((List.range (symUns k c).n).foldl cluInit
            { h := Heap.init (symUns k c).n true top, c := symUns k c, l := 0 })).l } := rfl
  rw [hrun]
  generalize cluLoop true false (-top) k ((symUns k c).n + 1) ((List.range (symUns k c).n).foldl cluInit
          { h := Heap.init (symUns k c).n true top, c := symUns k c, l := 0 }) = S1 at e3 r3
  refine ⟨{ sg3 with n_clusters := (S1.l : Int) }, ?_, r3.set_nclusters S1.l⟩
  have hg : ¬ ((S1.l : Int) < 0) := by omega
  have e3' : Py.whileM loopCondU (loopBodyU (k : Int)) (a2.1, a2.2, (0 : Int)) = _ := e3
  rw [uns_eq]
  simp only [e1, e0, e2, e3', hg, Option.bind_eq_bind, Option.bind_some, Option.pure_def,
    decide_false, if_false, Bool.false_eq_true]

end Opf.ClusRefineAux
