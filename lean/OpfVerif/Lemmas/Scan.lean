/-
Helper lemmas for C12 (k-nearest scan, `create_arcs`) and C14 (`queryNeighbours`, `knnArgmax`).
Core Lean only.
-/
import OpfVerif.Model.KnnSpec
namespace Opf

/-- induction from the right. -/
theorem list_snoc_induction {α : Type} {p : List α → Prop} (nil : p [])
    (snoc : ∀ l a, p l → p (l ++ [a])) : ∀ l, p l := by
  have h : ∀ l : List α, p l.reverse := by
    intro l
    induction l with
    | nil => exact nil
    | cons a l ih => rw [List.reverse_cons]; exact snoc _ _ ih
  intro l
  have := h l.reverse
  rwa [List.reverse_reverse] at this

/-! ### `stableInsert` / `stableSort` on lists -/

/-- ascending (non-strict) by distance. -/
abbrev SortedD (l : List Slot) : Prop := l.Pairwise (fun a b => a.1 ≤ b.1)

theorem length_stableInsert (a : Slot) (l : List Slot) : (stableInsert a l).length = l.length + 1 := by
  induction l with
  | nil => rfl
  | cons b l ih =>
    simp only [stableInsert]
    split
    · simp
    · simp [ih]

theorem mem_stableInsert {a s : Slot} {l : List Slot} : s ∈ stableInsert a l ↔ s = a ∨ s ∈ l := by
  induction l with
  | nil => simp [stableInsert]
  | cons b l ih =>
    simp only [stableInsert]
    split
    · simp
    · simp only [List.mem_cons, ih]
      constructor
      · rintro (h | h | h) <;> simp [h]
      · rintro (h | h | h) <;> simp [h]

theorem perm_stableInsert (a : Slot) (l : List Slot) : (stableInsert a l).Perm (a :: l) := by
  induction l with
  | nil => exact List.Perm.refl _
  | cons b l ih =>
    simp only [stableInsert]
    split
    · exact List.Perm.refl _
    · exact ((List.Perm.cons b ih).trans (List.Perm.swap a b l))

theorem sorted_stableInsert (a : Slot) (l : List Slot) (h : SortedD l) : SortedD (stableInsert a l) := by
  induction l with
  | nil => simp [stableInsert, SortedD]
  | cons b l ih =>
    have hb := (List.pairwise_cons.mp h)
    simp only [stableInsert]
    split
    · rename_i hab
      refine List.pairwise_cons.mpr ⟨?_, h⟩
      intro c hc
      rcases List.mem_cons.mp hc with rfl | hc
      · omega
      · have := hb.1 c hc; omega
    · rename_i hab
      refine List.pairwise_cons.mpr ⟨?_, ih hb.2⟩
      intro c hc
      rcases mem_stableInsert.mp hc with rfl | hc
      · omega
      · exact hb.1 c hc

/-- `a` goes in front of a strictly larger last element. -/
theorem stableInsert_concat_lt (a b : Slot) (l : List Slot) (h : a.1 < b.1) :
    stableInsert a (l ++ [b]) = stableInsert a l ++ [b] := by
  induction l with
  | nil => simp [stableInsert, h]
  | cons c l ih =>
    simp only [List.cons_append, stableInsert]
    split
    · rfl
    · rw [ih]; rfl

/-- `a` goes last when nothing is strictly larger. -/
theorem stableInsert_all_le (a : Slot) (l : List Slot) (h : ∀ c ∈ l, c.1 ≤ a.1) :
    stableInsert a l = l ++ [a] := by
  induction l with
  | nil => rfl
  | cons c l ih =>
    have hc := h c (List.mem_cons_self)
    simp only [stableInsert, List.cons_append]
    rw [if_neg (by omega), ih (fun d hd => h d (List.mem_cons_of_mem _ hd))]

/-- a strictly larger tail does not interfere. -/
theorem stableInsert_append_gt (a : Slot) (l p : List Slot) (h : ∀ c ∈ p, a.1 < c.1) :
    stableInsert a (l ++ p) = stableInsert a l ++ p := by
  induction l with
  | nil =>
    cases p with
    | nil => rfl
    | cons c p => simp [stableInsert, h c (List.mem_cons_self)]
  | cons c l ih =>
    simp only [List.cons_append, stableInsert]
    split
    · rfl
    · rw [ih]; rfl

theorem take_cons_take (k : Nat) (b : Slot) (m : List Slot) :
    (b :: m.take k).take k = (b :: m).take k := by
  cases k with
  | zero => rfl
  | succ k => simp [List.take_take]

/-- the first `k` of an insertion only depend on the first `k` of the list. -/
theorem take_stableInsert_take (a : Slot) (k : Nat) (m : List Slot) :
    (stableInsert a (m.take k)).take k = (stableInsert a m).take k := by
  induction m generalizing k with
  | nil => simp
  | cons b m ih =>
    cases k with
    | zero => simp
    | succ k =>
      simp only [List.take_succ_cons, stableInsert]
      split
      · simp only [List.take_succ_cons, take_cons_take]
      · simp only [List.take_succ_cons, ih]

/-! ### stableSort -/

theorem stableSort_concat (dist : Nat → Int) (pre : List Nat) (j : Nat) :
    stableSort dist (pre ++ [j]) = stableInsert (dist j, j) (stableSort dist pre) := by
  simp [stableSort, List.foldl_append]

theorem stableSort_nil (dist : Nat → Int) : stableSort dist [] = [] := rfl

theorem stableSort_perm (dist : Nat → Int) (cands : List Nat) :
    (stableSort dist cands).Perm (cands.map (fun j => (dist j, j))) := by
  induction cands using list_snoc_induction with
  | nil => exact List.Perm.refl _
  | snoc pre j ih =>
    rw [stableSort_concat, List.map_append]
    refine (perm_stableInsert _ _).trans ?_
    refine (List.Perm.cons _ ih).trans ?_
    exact (List.perm_append_comm (l₁ := [(dist j, j)]))

/-! ### `bubble` on a buffer given as a list -/

theorem getD_mid0 (L R : List Slot) (b a : Slot) (d : Slot) :
    (L ++ b :: a :: R).toArray.getD L.length d = b := by
  simp [Array.getD_eq_getD_getElem?]

theorem getD_mid1 (L R : List Slot) (b a : Slot) (d : Slot) :
    (L ++ b :: a :: R).toArray.getD (L.length + 1) d = a := by
  simp [Array.getD_eq_getD_getElem?]

theorem swap_mid (L R : List Slot) (b a : Slot) :
    ((L ++ b :: a :: R).toArray.setIfInBounds (L.length + 1) b).setIfInBounds L.length a
      = (L ++ a :: b :: R).toArray := by
  simp [List.setIfInBounds_toArray]

/-- bubbling the element at position `|L|` into the sorted prefix `L` is a stable insertion. -/
theorem bubble_list (L : List Slot) : ∀ (R : List Slot) (a : Slot), SortedD L →
    bubble (L ++ a :: R).toArray L.length = (stableInsert a L ++ R).toArray := by
  induction L using list_snoc_induction with
  | nil => intro R a _; rfl
  | snoc L' b ih =>
    intro R a hs
    have hs' := List.pairwise_append.mp hs
    rw [List.append_assoc, List.singleton_append, List.length_append, List.length_singleton]
    unfold bubble
    rw [getD_mid1, getD_mid0]
    split
    · rename_i hab
      rw [swap_mid, ih (b :: R) a hs'.1, stableInsert_concat_lt a b L' hab]
      simp
    · rename_i hab
      rw [stableInsert_all_le]
      · simp
      · intro c hc
        rcases List.mem_append.mp hc with hc | hc
        · have := hs'.2.2 c hc b (by simp); omega
        · simp at hc; subst hc; omega

/-! ### the scan invariant -/

theorem list_split_last (k : Nat) (l : List Slot) (h : l.length = k + 1) :
    ∃ x, l = l.take k ++ [x] := by
  have h1 : (l.drop k).length = 1 := by simp [h]
  obtain ⟨x, hx⟩ := List.length_eq_one_iff.mp h1
  exact ⟨x, by rw [← hx, List.take_append_drop]⟩

theorem scanInsert_list (k : Nat) (buf : Array Slot) (d : Int) (j : Nat) (hsz : buf.size = k + 1)
    (hs : SortedD (buf.toList.take k)) :
    scanInsert k buf d j = (stableInsert (d, j) (buf.toList.take k)).toArray := by
  obtain ⟨l⟩ := buf
  simp only [List.size_toArray] at hsz
  obtain ⟨x, hx⟩ := list_split_last k l hsz
  have hlen : (l.take k).length = k := by simp [hsz]
  simp only at hs ⊢
  generalize l.take k = L at *
  subst hx
  unfold scanInsert
  have h1 : (L ++ [x]).toArray.setIfInBounds k (d, j) = (L ++ (d, j) :: []).toArray := by
    simp [List.setIfInBounds_toArray, ← hlen]
  rw [h1]
  have := bubble_list L [] (d, j) hs
  rw [hlen] at this
  simpa using this

/-- reference content of the first `k` slots after scanning `pre`. -/
def refSlots (k : Nat) (top : Int) (dist : Nat → Int) (pre : List Nat) : List Slot :=
  (stableSort dist pre ++ List.replicate k (top, 0)).take k

theorem mem_stableSort {dist : Nat → Int} {cands : List Nat} {s : Slot} :
    s ∈ stableSort dist cands ↔ s.2 ∈ cands ∧ s.1 = dist s.2 := by
  rw [(stableSort_perm dist cands).mem_iff, List.mem_map]
  constructor
  · rintro ⟨j, hj, rfl⟩; exact ⟨hj, rfl⟩
  · rintro ⟨h1, h2⟩; exact ⟨s.2, h1, by rw [← h2]⟩

theorem sorted_stableSort (dist : Nat → Int) (cands : List Nat) : SortedD (stableSort dist cands) := by
  induction cands using list_snoc_induction with
  | nil => exact List.Pairwise.nil
  | snoc pre j ih => rw [stableSort_concat]; exact sorted_stableInsert _ _ ih

theorem length_stableSort (dist : Nat → Int) (cands : List Nat) :
    (stableSort dist cands).length = cands.length := by
  rw [(stableSort_perm dist cands).length_eq, List.length_map]

theorem sorted_padded (k : Nat) (top : Int) (dist : Nat → Int) (pre : List Nat)
    (hlt : ∀ j, j ∈ pre → dist j < top) :
    SortedD (stableSort dist pre ++ List.replicate k (top, 0)) := by
  refine List.pairwise_append.mpr ⟨sorted_stableSort _ _, ?_, ?_⟩
  · refine List.pairwise_replicate.mpr ?_
    simp
  · intro a ha b hb
    have := mem_stableSort.mp ha
    have hb' := (List.mem_replicate.mp hb).2
    have := hlt _ this.1
    subst hb'
    simp only
    omega

theorem sorted_refSlots (k : Nat) (top : Int) (dist : Nat → Int) (pre : List Nat)
    (hlt : ∀ j, j ∈ pre → dist j < top) : SortedD (refSlots k top dist pre) :=
  List.Pairwise.sublist (List.take_sublist _ _) (sorted_padded k top dist pre hlt)

theorem length_refSlots (k : Nat) (top : Int) (dist : Nat → Int) (pre : List Nat) :
    (refSlots k top dist pre).length = k := by
  simp [refSlots]

/-- one insertion step on the reference content. -/
theorem refSlots_concat (k : Nat) (top : Int) (dist : Nat → Int) (pre : List Nat) (j : Nat)
    (hj : dist j < top) :
    (stableInsert (dist j, j) (refSlots k top dist pre)).take k = refSlots k top dist (pre ++ [j]) := by
  unfold refSlots
  rw [take_stableInsert_take, stableSort_concat, stableInsert_append_gt]
  intro c hc
  rw [(List.mem_replicate.mp hc).2]
  exact hj

/-- **scan invariant**: buffer of size `k+1` whose first `k` slots are the reference content. -/
theorem scan_inv (k : Nat) (top : Int) (dist : Nat → Int) (cands : List Nat)
    (hlt : ∀ j, j ∈ cands → dist j < top) :
    (scan k top dist cands).size = k + 1 ∧
      (scan k top dist cands).toList.take k = refSlots k top dist cands := by
  induction cands using list_snoc_induction with
  | nil =>
    simp [scan, refSlots, stableSort_nil, List.take_replicate]
  | snoc pre j ih =>
    have ih := ih (fun j hj => hlt j (List.mem_append_left _ hj))
    have hpre : ∀ j, j ∈ pre → dist j < top := fun j hj => hlt j (List.mem_append_left _ hj)
    have hj := hlt j (by simp)
    have hstep : scan k top dist (pre ++ [j]) = scanInsert k (scan k top dist pre) (dist j) j := by
      simp [scan, List.foldl_append]
    rw [hstep, scanInsert_list k _ _ _ ih.1 (by rw [ih.2]; exact sorted_refSlots k top dist pre hpre)]
    rw [ih.2]
    refine ⟨?_, ?_⟩
    · simp [length_stableInsert, length_refSlots]
    · exact refSlots_concat k top dist pre j hj

theorem stableSort_ne_top {top : Int} {dist : Nat → Int} {cands : List Nat}
    (hlt : ∀ j, j ∈ cands → dist j < top) {s : Slot} (hs : s ∈ stableSort dist cands) : s.1 ≠ top := by
  have h := mem_stableSort.mp hs
  have := hlt _ h.1
  omega

theorem filter_refSlots (k : Nat) (top : Int) (dist : Nat → Int) (cands : List Nat)
    (hlt : ∀ j, j ∈ cands → dist j < top) :
    (refSlots k top dist cands).filter (fun s => s.1 ≠ top) = kNearest k dist cands := by
  unfold refSlots kNearest
  rw [List.take_append, List.filter_append]
  have h1 : ((stableSort dist cands).take k).filter (fun s => s.1 ≠ top) = (stableSort dist cands).take k := by
    refine List.filter_eq_self.mpr ?_
    intro s hs
    simpa using stableSort_ne_top hlt (List.mem_of_mem_take hs)
  have h2 : ((List.replicate k ((top, 0) : Slot)).take (k - (stableSort dist cands).length)).filter
      (fun s => s.1 ≠ top) = [] := by
    refine List.filter_eq_nil_iff.mpr ?_
    intro s hs
    have := (List.mem_replicate.mp (List.mem_of_mem_take hs)).2
    simp [this]
  rw [h1, h2, List.append_nil]

/-- **C12 core**: the valid slots of the scan are the `k` nearest candidates in reference order. -/
theorem validSlots_scan (k : Nat) (top : Int) (dist : Nat → Int) (cands : List Nat)
    (hlt : ∀ j, j ∈ cands → dist j < top) :
    validSlots k top (scan k top dist cands) = kNearest k dist cands := by
  unfold validSlots
  rw [(scan_inv k top dist cands hlt).2, filter_refSlots k top dist cands hlt]

theorem length_kNearest (k : Nat) (dist : Nat → Int) (cands : List Nat) :
    (kNearest k dist cands).length = min k cands.length := by
  simp [kNearest, length_stableSort]

theorem scan_getD (k : Nat) (top : Int) (dist : Nat → Int) (cands : List Nat)
    (hlt : ∀ j, j ∈ cands → dist j < top) (l : Nat) (hl : l < k) (d : Slot) :
    (scan k top dist cands).getD l d = (refSlots k top dist cands).getD l d := by
  rw [← (scan_inv k top dist cands hlt).2]
  simp [Array.getD_eq_getD_getElem?, List.getD_eq_getElem?_getD, hl]

/-- slots below the number of neighbours hold the neighbours, and are valid. -/
theorem scan_slot_lt (k : Nat) (top : Int) (dist : Nat → Int) (cands : List Nat)
    (hlt : ∀ j, j ∈ cands → dist j < top) (l : Nat) (hl : l < (kNearest k dist cands).length) (d : Slot) :
    (scan k top dist cands).getD l d = (kNearest k dist cands).getD l d ∧
      ((scan k top dist cands).getD l d).1 ≠ top := by
  have hl' := hl
  rw [length_kNearest, ← length_stableSort dist] at hl'
  have hk : l < k := by omega
  have hS : l < (stableSort dist cands).length := by omega
  have h1 : (scan k top dist cands).getD l d = (stableSort dist cands)[l] := by
    rw [scan_getD k top dist cands hlt l hk]
    simp [refSlots, List.getD_eq_getElem?_getD, hk, List.getElem_append_left hS]
  have h2 : (kNearest k dist cands).getD l d = (stableSort dist cands)[l] := by
    simp [kNearest, List.getD_eq_getElem?_getD, hk, hS]
  rw [h1, h2]
  exact ⟨rfl, stableSort_ne_top hlt (List.getElem_mem hS)⟩

/-- the remaining slots (below `k`) still hold the sentinel distance. -/
theorem scan_slot_ge (k : Nat) (top : Int) (dist : Nat → Int) (cands : List Nat)
    (hlt : ∀ j, j ∈ cands → dist j < top) (l : Nat) (hk : l < k)
    (hl : (kNearest k dist cands).length ≤ l) (d : Slot) :
    ((scan k top dist cands).getD l d).1 = top := by
  rw [length_kNearest, ← length_stableSort dist] at hl
  have hS : (stableSort dist cands).length ≤ l := by omega
  rw [scan_getD k top dist cands hlt l hk]
  simp only [refSlots, List.getD_eq_getElem?_getD, List.getElem?_take, hk, if_true,
    List.getElem?_append_right hS]
  rw [List.getElem?_replicate, if_pos (by omega)]
  rfl

/-! ### consequences for `kNearest` -/

theorem mem_kNearest {k : Nat} {dist : Nat → Int} {cands : List Nat} {s : Slot}
    (hs : s ∈ kNearest k dist cands) : s.2 ∈ cands ∧ s.1 = dist s.2 :=
  mem_stableSort.mp (List.mem_of_mem_take hs)

theorem sorted_kNearest (k : Nat) (dist : Nat → Int) (cands : List Nat) :
    ((kNearest k dist cands).map (·.1)).Pairwise (· ≤ ·) := by
  rw [List.pairwise_map]
  exact List.Pairwise.sublist (List.take_sublist _ _) (sorted_stableSort dist cands)

theorem nodup_kNearest (k : Nat) (dist : Nat → Int) (cands : List Nat) (hnd : cands.Nodup) :
    ((kNearest k dist cands).map (·.2)).Nodup := by
  have hp : ((stableSort dist cands).map (·.2)).Perm cands := by
    have := (stableSort_perm dist cands).map (·.2)
    simpa [List.map_map, Function.comp_def] using this
  have hS : ((stableSort dist cands).map (·.2)).Nodup := hp.nodup_iff.mpr hnd
  exact List.Nodup.sublist (List.Sublist.map _ (List.take_sublist _ _)) hS

theorem kNearest_smallest (k : Nat) (dist : Nat → Int) (cands : List Nat) (j : Nat) (hj : j ∈ cands)
    (hnot : j ∉ (kNearest k dist cands).map (·.2)) :
    ∀ s ∈ kNearest k dist cands, s.1 ≤ dist j := by
  intro s hs
  have hmem : (dist j, j) ∈ stableSort dist cands := mem_stableSort.mpr ⟨hj, rfl⟩
  rw [← List.take_append_drop k (stableSort dist cands)] at hmem
  have hsorted := sorted_stableSort dist cands
  rw [← List.take_append_drop k (stableSort dist cands)] at hsorted
  rcases List.mem_append.mp hmem with h | h
  · exact absurd (List.mem_map.mpr ⟨(dist j, j), h, rfl⟩) hnot
  · exact (List.pairwise_append.mp hsorted).2.2 s hs _ h

/-! ### running maxima -/

theorem ite_gt_max (x r : Int) : (if x > r then x else r) = max r x := by
  split <;> omega

theorem foldl_max_comm (l : List Int) : ∀ (a x : Int), l.foldl max (max a x) = max (l.foldl max a) x := by
  induction l with
  | nil => intro a x; rfl
  | cons y l ih =>
    intro a x
    simp only [List.foldl_cons]
    have : max (max a x) y = max (max a y) x := by omega
    rw [this, ih]

theorem foldl_max_ge (l : List Int) : ∀ a : Int, a ≤ l.foldl max a := by
  induction l with
  | nil => intro a; exact Int.le_refl a
  | cons y l ih =>
    intro a
    have := ih (max a y)
    simp only [List.foldl_cons]
    omega

theorem foldl_max_concat (l : List Int) (a x : Int) : (l ++ [x]).foldl max a = max (l.foldl max a) x := by
  simp [List.foldl_append]

theorem foldl_max_mem_le (l : List Int) : ∀ a : Int, ∀ x ∈ l, x ≤ l.foldl max a := by
  induction l with
  | nil => intro a x hx; cases hx
  | cons y l ih =>
    intro a x hx
    simp only [List.foldl_cons]
    rcases List.mem_cons.mp hx with rfl | hx
    · have := foldl_max_ge l (max a x); omega
    · exact ih _ x hx

theorem foldl_max_attained (l : List Int) : ∀ a : Int, l.foldl max a = a ∨ l.foldl max a ∈ l := by
  induction l with
  | nil => intro a; exact Or.inl rfl
  | cons y l ih =>
    intro a
    simp only [List.foldl_cons]
    rcases ih (max a y) with h | h
    · rw [h]
      by_cases hy : a ≤ y
      · right; rw [Int.max_eq_right hy]; exact List.mem_cons_self
      · left; omega
    · right; exact List.mem_cons_of_mem _ h

/-! ### array reads -/

theorem getD_set_eq {α : Type} (xs : Array α) (i : Nat) (v d : α) (h : i < xs.size) :
    (xs.setIfInBounds i v).getD i d = v := by
  simp [Array.getD_eq_getD_getElem?, h]

theorem getD_set_ne {α : Type} (xs : Array α) (i j : Nat) (v d : α) (h : i ≠ j) :
    (xs.setIfInBounds i v).getD j d = xs.getD j d := by
  simp [Array.getD_eq_getD_getElem?, h]

/-! ### `arcSlot` -/

/-- valid slots among the first `m`. -/
def slotsUpTo (top : Int) (buf : Array Slot) (m : Nat) : List Slot :=
  (buf.toList.take m).filter (fun s => s.1 ≠ top)

theorem slotsUpTo_eq_validSlots (top : Int) (buf : Array Slot) (k : Nat) :
    slotsUpTo top buf k = validSlots k top buf := rfl

theorem slotsUpTo_zero (top : Int) (buf : Array Slot) : slotsUpTo top buf 0 = [] := by
  simp [slotsUpTo]

theorem slotsUpTo_succ_pos (top : Int) (buf : Array Slot) (m : Nat) (hm : m < buf.size)
    (h : (buf.getD m (0, 0)).1 ≠ top) :
    slotsUpTo top buf (m + 1) = slotsUpTo top buf m ++ [buf.getD m (0, 0)] := by
  have hg : buf.getD m (0, 0) = buf[m] := by simp [Array.getD_eq_getD_getElem?, hm]
  rw [hg] at h ⊢
  simp [slotsUpTo, List.take_add_one, hm, List.filter_append, h]

theorem slotsUpTo_succ_neg (top : Int) (buf : Array Slot) (m : Nat) (hm : m < buf.size)
    (h : ¬ (buf.getD m (0, 0)).1 ≠ top) :
    slotsUpTo top buf (m + 1) = slotsUpTo top buf m := by
  have hg : buf.getD m (0, 0) = buf[m] := by simp [Array.getD_eq_getD_getElem?, hm]
  rw [hg] at h
  simp only [ne_eq, Decidable.not_not] at h
  simp [slotsUpTo, List.take_add_one, hm, List.filter_append, h]

theorem arcSlot_neg (top : Int) (i : Nat) (buf : Array Slot) (a : ArcAcc) (l : Nat)
    (h : ¬ (buf.getD l (0, 0)).1 ≠ top) : arcSlot top i buf a l = a := by
  unfold arcSlot
  simp only []
  rw [if_neg h]

/-- effect of one valid slot. -/
structure ArcStep (i : Nat) (s : Slot) (l : Nat) (a a' : ArcAcc) : Prop where
  n : a'.g.n = a.g.n
  nplat : a'.g.nplat = a.g.nplat
  adj_size : a'.g.adj.size = a.g.adj.size
  radius_size : a'.g.radius.size = a.g.radius.size
  maxd_size : a'.maxd.size = a.maxd.size
  adj_i : a'.g.adj.getD i [] = s.2 :: a.g.adj.getD i []
  adj_ne : ∀ i', i' ≠ i → a'.g.adj.getD i' [] = a.g.adj.getD i' []
  radius_i : a'.g.radius.getD i 0 = max (a.g.radius.getD i 0) s.1
  radius_ne : ∀ i', i' ≠ i → a'.g.radius.getD i' 0 = a.g.radius.getD i' 0
  bound : a'.g.bound = max a.g.bound s.1
  maxd_l : l < a.maxd.size → a'.maxd.getD l 0 = max (a.maxd.getD l 0) s.1
  maxd_ne : ∀ l', l' ≠ l → a'.maxd.getD l' 0 = a.maxd.getD l' 0

theorem arcSlot_pos (top : Int) (i : Nat) (buf : Array Slot) (a : ArcAcc) (l : Nat)
    (h : (buf.getD l (0, 0)).1 ≠ top) (hi1 : i < a.g.adj.size) (hi2 : i < a.g.radius.size) :
    ArcStep i (buf.getD l (0, 0)) l a (arcSlot top i buf a l) := by
  unfold arcSlot
  simp only [ite_gt_max]
  rw [if_pos h]
  constructor
  · rfl
  · rfl
  · simp
  · simp
  · simp
  · exact getD_set_eq _ _ _ _ hi1
  · intro i' hi'; exact getD_set_ne _ _ _ _ _ (Ne.symm hi')
  · exact getD_set_eq _ _ _ _ hi2
  · intro i' hi'; exact getD_set_ne _ _ _ _ _ (Ne.symm hi')
  · rfl
  · intro hl; exact getD_set_eq _ _ _ _ hl
  · intro l' hl'; exact getD_set_ne _ _ _ _ _ (Ne.symm hl')

/-- effect of the slot loop `for l in range(m-1, -1, -1)` of node `i`. -/
structure ArcFold (top : Int) (i : Nat) (buf : Array Slot) (m : Nat) (a r : ArcAcc) : Prop where
  n : r.g.n = a.g.n
  nplat : r.g.nplat = a.g.nplat
  adj_size : r.g.adj.size = a.g.adj.size
  radius_size : r.g.radius.size = a.g.radius.size
  maxd_size : r.maxd.size = a.maxd.size
  adj_i : r.g.adj.getD i [] = (slotsUpTo top buf m).map (·.2) ++ a.g.adj.getD i []
  adj_ne : ∀ i', i' ≠ i → r.g.adj.getD i' [] = a.g.adj.getD i' []
  radius_i : r.g.radius.getD i 0 = ((slotsUpTo top buf m).map (·.1)).foldl max (a.g.radius.getD i 0)
  radius_ne : ∀ i', i' ≠ i → r.g.radius.getD i' 0 = a.g.radius.getD i' 0
  bound : r.g.bound = ((slotsUpTo top buf m).map (·.1)).foldl max a.g.bound
  maxd : ∀ l, l < a.maxd.size → r.maxd.getD l 0 =
    if l < m ∧ (buf.getD l (0, 0)).1 ≠ top then max (a.maxd.getD l 0) (buf.getD l (0, 0)).1
    else a.maxd.getD l 0

theorem arcFold (top : Int) (i : Nat) (buf : Array Slot) (m : Nat) (hm : m ≤ buf.size) :
    ∀ a : ArcAcc, i < a.g.adj.size → i < a.g.radius.size →
      ArcFold top i buf m a ((List.range m).reverse.foldl (arcSlot top i buf) a) := by
  induction m with
  | zero =>
    intro a _ _
    simp only [List.range_zero, List.reverse_nil, List.foldl_nil]
    constructor <;> simp [slotsUpTo_zero]
  | succ m ih =>
    intro a hi1 hi2
    have hm' : m < buf.size := by omega
    rw [List.range_succ, List.reverse_append, List.reverse_singleton, List.singleton_append,
      List.foldl_cons]
    by_cases h : (buf.getD m (0, 0)).1 ≠ top
    · have st := arcSlot_pos top i buf a m h hi1 hi2
      generalize arcSlot top i buf a m = a' at st
      have r := ih (by omega) a' (by rw [st.adj_size]; exact hi1) (by rw [st.radius_size]; exact hi2)
      generalize (List.range m).reverse.foldl (arcSlot top i buf) a' = res at r
      have hsl := slotsUpTo_succ_pos top buf m hm' h
      constructor
      · rw [r.n, st.n]
      · rw [r.nplat, st.nplat]
      · rw [r.adj_size, st.adj_size]
      · rw [r.radius_size, st.radius_size]
      · rw [r.maxd_size, st.maxd_size]
      · rw [hsl, r.adj_i, st.adj_i]; simp
      · intro i' hi'; rw [r.adj_ne i' hi', st.adj_ne i' hi']
      · rw [hsl, r.radius_i, st.radius_i, foldl_max_comm, List.map_append, List.map_singleton,
          foldl_max_concat]
      · intro i' hi'; rw [r.radius_ne i' hi', st.radius_ne i' hi']
      · rw [hsl, r.bound, st.bound, foldl_max_comm, List.map_append, List.map_singleton, foldl_max_concat]
      · intro l hl
        rw [r.maxd l (by rw [st.maxd_size]; exact hl)]
        by_cases hlm : l = m
        · subst hlm
          rw [if_neg (by omega), if_pos ⟨by omega, h⟩, st.maxd_l hl]
        · rw [st.maxd_ne l hlm]
          by_cases hc : l < m ∧ (buf.getD l (0, 0)).1 ≠ top
          · rw [if_pos hc, if_pos ⟨by omega, hc.2⟩]
          · rw [if_neg hc, if_neg (by intro hc'; exact hc ⟨by omega, hc'.2⟩)]
    · rw [arcSlot_neg top i buf a m h]
      have hsl := slotsUpTo_succ_neg top buf m hm' h
      have r := ih (by omega) a hi1 hi2
      generalize (List.range m).reverse.foldl (arcSlot top i buf) a = res at r
      refine ⟨r.n, r.nplat, r.adj_size, r.radius_size, r.maxd_size, by rw [hsl]; exact r.adj_i,
        r.adj_ne, by rw [hsl]; exact r.radius_i, r.radius_ne, by rw [hsl]; exact r.bound, ?_⟩
      intro l hl
      rw [r.maxd l hl]
      by_cases hc : l < m ∧ (buf.getD l (0, 0)).1 ≠ top
      · rw [if_pos hc, if_pos ⟨by omega, hc.2⟩]
      · rw [if_neg hc, if_neg]
        intro hc'
        by_cases hlm : l = m
        · subst hlm; exact h hc'.2
        · exact hc ⟨by omega, hc'.2⟩

/-! ### `arcNode` -/

/-- the `k` nearest other samples of node `i` among `0..n-1`, in reference order. -/
def nnOf (w : Nat → Nat → Int) (k n i : Nat) : List Slot :=
  kNearest k (w i) ((List.range n).filter (· ≠ i))

theorem getD_map_fst (V : List Slot) (l : Nat) (hl : l < V.length) :
    (V.map (·.1)).getD l 0 = (V.getD l (0, 0)).1 := by
  simp [List.getD_eq_getElem?_getD, hl]

theorem getD_map_fst_ge (V : List Slot) (l : Nat) (hl : V.length ≤ l) :
    (V.map (·.1)).getD l 0 = 0 := by
  simp [List.getD_eq_getElem?_getD, hl]

/-- effect of processing node `i`. -/
structure ArcNode (w : Nat → Nat → Int) (k i : Nat) (a r : ArcAcc) : Prop where
  n : r.g.n = a.g.n
  adj_size : r.g.adj.size = a.g.adj.size
  radius_size : r.g.radius.size = a.g.radius.size
  nplat_size : r.g.nplat.size = a.g.nplat.size
  maxd_size : r.maxd.size = a.maxd.size
  adj_i : r.g.adj.getD i [] = (nnOf w k a.g.n i).map (·.2) ++ a.g.adj.getD i []
  adj_ne : ∀ i', i' ≠ i → r.g.adj.getD i' [] = a.g.adj.getD i' []
  radius_i : r.g.radius.getD i 0 = ((nnOf w k a.g.n i).map (·.1)).foldl max 0
  radius_ne : ∀ i', i' ≠ i → r.g.radius.getD i' 0 = a.g.radius.getD i' 0
  nplat_i : r.g.nplat.getD i 0 = 0
  nplat_ne : ∀ i', i' ≠ i → r.g.nplat.getD i' 0 = a.g.nplat.getD i' 0
  bound : r.g.bound = ((nnOf w k a.g.n i).map (·.1)).foldl max a.g.bound
  maxd : ∀ l, l < k → r.maxd.getD l 0 =
    if l < (nnOf w k a.g.n i).length then max (a.maxd.getD l 0) (((nnOf w k a.g.n i).map (·.1)).getD l 0)
    else a.maxd.getD l 0

theorem arcNode_spec (w : Nat → Nat → Int) (top : Int) (k : Nat) (hw : ∀ i j, w i j < top)
    (a : ArcAcc) (i : Nat) (h1 : i < a.g.adj.size) (h2 : i < a.g.radius.size)
    (h3 : i < a.g.nplat.size) (h4 : a.maxd.size = k) :
    ArcNode w k i a (arcNode w top k a i) := by
  unfold arcNode
  simp only []
  have hinv := scan_inv k top (w i) ((List.range a.g.n).filter (· ≠ i)) (fun j _ => hw i j)
  have hV : slotsUpTo top (scan k top (w i) ((List.range a.g.n).filter (· ≠ i))) k = nnOf w k a.g.n i :=
    validSlots_scan k top (w i) _ (fun j _ => hw i j)
  have hlt := scan_slot_lt k top (w i) ((List.range a.g.n).filter (· ≠ i)) (fun j _ => hw i j)
  have hge := scan_slot_ge k top (w i) ((List.range a.g.n).filter (· ≠ i)) (fun j _ => hw i j)
  have r := arcFold top i (scan k top (w i) ((List.range a.g.n).filter (· ≠ i))) k (by omega)
    { a with g := { a.g with radius := a.g.radius.setIfInBounds i 0, nplat := a.g.nplat.setIfInBounds i 0 } }
    h1 (by simpa using h2)
  generalize List.foldl _ _ (List.range k).reverse = res at r
  rw [show kNearest k (w i) ((List.range a.g.n).filter (· ≠ i)) = nnOf w k a.g.n i from rfl] at hlt hge
  generalize hVn : nnOf w k a.g.n i = V at *
  generalize scan k top (w i) ((List.range a.g.n).filter (· ≠ i)) = buf at *
  constructor
  · exact r.n
  · exact r.adj_size
  · rw [r.radius_size]; simp
  · rw [r.nplat]; simp
  · exact r.maxd_size
  · rw [hVn, ← hV]; exact r.adj_i
  · exact r.adj_ne
  · rw [hVn, ← hV, r.radius_i]; simp only []; rw [getD_set_eq _ _ _ _ h2]
  · intro i' hi'; rw [r.radius_ne i' hi']; exact getD_set_ne _ _ _ _ _ (Ne.symm hi')
  · rw [r.nplat]; exact getD_set_eq _ _ _ _ h3
  · intro i' hi'; rw [r.nplat]; exact getD_set_ne _ _ _ _ _ (Ne.symm hi')
  · rw [hVn, ← hV]; exact r.bound
  · intro l hl
    rw [hVn, r.maxd l (by simpa [h4] using hl)]
    simp only []
    by_cases hlV : l < V.length
    · have := hlt l hlV (0, 0)
      rw [if_pos ⟨hl, this.2⟩, if_pos hlV, this.1, getD_map_fst V l hlV]
    · have := hge l hl (by omega) (0, 0)
      rw [if_neg (by intro hc; exact hc.2 this), if_neg hlV]

/-! ### `createArcs` -/

/-- state after the nodes `0..m-1` have been processed, starting from subgraph `g`. -/
structure ArcsInv (w : Nat → Nat → Int) (k : Nat) (g : KnnSub) (m : Nat) (a : ArcAcc) : Prop where
  n : a.g.n = g.n
  adj_size : a.g.adj.size = g.adj.size
  radius_size : a.g.radius.size = g.radius.size
  nplat_size : a.g.nplat.size = g.nplat.size
  maxd_size : a.maxd.size = k
  adj : ∀ i, a.g.adj.getD i [] =
    if i < m then (nnOf w k g.n i).map (·.2) ++ g.adj.getD i [] else g.adj.getD i []
  radius : ∀ i, a.g.radius.getD i 0 =
    if i < m then ((nnOf w k g.n i).map (·.1)).foldl max 0 else g.radius.getD i 0
  nplat : ∀ i, a.g.nplat.getD i 0 = if i < m then 0 else g.nplat.getD i 0
  bound : a.g.bound = ((List.range m).flatMap (fun i => (nnOf w k g.n i).map (·.1))).foldl max g.bound
  maxd : ∀ l, l < k → a.maxd.getD l 0 =
    ((List.range m).map (fun i => ((nnOf w k g.n i).map (·.1)).getD l 0)).foldl max 0

theorem arcs_inv (w : Nat → Nat → Int) (top : Int) (k : Nat) (hw : ∀ i j, w i j < top) (g : KnnSub)
    (h1 : g.adj.size = g.n) (h2 : g.radius.size = g.n) (h3 : g.nplat.size = g.n) :
    ∀ m, m ≤ g.n →
      ArcsInv w k g m ((List.range m).foldl (arcNode w top k) { g := g, maxd := Array.replicate k 0 }) := by
  intro m
  induction m with
  | zero =>
    intro _
    simp only [List.range_zero, List.foldl_nil]
    constructor <;> simp [Array.getD_eq_getD_getElem?]
    intro l hl; simp [hl]
  | succ m ih =>
    intro hm
    have ih := ih (by omega)
    rw [List.range_succ, List.foldl_append, List.foldl_cons, List.foldl_nil]
    generalize (List.range m).foldl (arcNode w top k) { g := g, maxd := Array.replicate k 0 } = a at ih
    have st := arcNode_spec w top k hw a m (by rw [ih.adj_size]; omega) (by rw [ih.radius_size]; omega)
      (by rw [ih.nplat_size]; omega) ih.maxd_size
    generalize arcNode w top k a m = r at st
    have hn := ih.n
    constructor
    · rw [st.n, ih.n]
    · rw [st.adj_size, ih.adj_size]
    · rw [st.radius_size, ih.radius_size]
    · rw [st.nplat_size, ih.nplat_size]
    · rw [st.maxd_size, ih.maxd_size]
    · intro i
      by_cases him : i = m
      · subst him
        rw [st.adj_i, ih.adj, if_neg (by omega), if_pos (by omega), hn]
      · rw [st.adj_ne i him, ih.adj]
        by_cases hlt : i < m
        · rw [if_pos hlt, if_pos (by omega)]
        · rw [if_neg hlt, if_neg (by omega)]
    · intro i
      by_cases him : i = m
      · subst him
        rw [st.radius_i, if_pos (by omega), hn]
      · rw [st.radius_ne i him, ih.radius]
        by_cases hlt : i < m
        · rw [if_pos hlt, if_pos (by omega)]
        · rw [if_neg hlt, if_neg (by omega)]
    · intro i
      by_cases him : i = m
      · subst him
        rw [st.nplat_i, if_pos (by omega)]
      · rw [st.nplat_ne i him, ih.nplat]
        by_cases hlt : i < m
        · rw [if_pos hlt, if_pos (by omega)]
        · rw [if_neg hlt, if_neg (by omega)]
    · rw [st.bound, ih.bound, hn, List.range_succ, List.flatMap_append, List.foldl_append]
      simp
    · intro l hl
      rw [st.maxd l hl, ih.maxd l hl, hn, List.range_succ, List.map_append, List.map_singleton, foldl_max_concat]
      split
      · rfl
      · rename_i hlen
        rw [getD_map_fst_ge _ _ (by omega)]
        have := foldl_max_ge ((List.range m).map (fun i => ((nnOf w k g.n i).map (·.1)).getD l 0)) 0
        omega

/-! ### `knnArgmax` -/

/-- the fold of `knnArgmax` from an arbitrary accumulator: either nothing beats the accumulator,
or the result is the FIRST slot attaining the maximum value, which beats the accumulator. -/
theorem knnArgmax_fold (cost : Nat → Int) (density : Int) :
    ∀ (slots : List Slot) (acc : Option Nat × Int),
      (slots.foldl (fun (acc : Option Nat × Int) s =>
          let t := min (cost s.2) density
          if t > acc.2 then (some s.2, t) else acc) acc = acc ∧
        ∀ t ∈ slots, min (cost t.2) density ≤ acc.2) ∨
      (∃ pre s post, slots = pre ++ s :: post ∧
        slots.foldl (fun (acc : Option Nat × Int) s =>
          let t := min (cost s.2) density
          if t > acc.2 then (some s.2, t) else acc) acc = (some s.2, min (cost s.2) density) ∧
        acc.2 < min (cost s.2) density ∧
        (∀ t ∈ slots, min (cost t.2) density ≤ min (cost s.2) density) ∧
        (∀ t ∈ pre, min (cost t.2) density < min (cost s.2) density)) := by
  intro slots
  induction slots with
  | nil => intro acc; left; exact ⟨rfl, fun t ht => by cases ht⟩
  | cons x rest ih =>
    intro acc
    simp only [List.foldl_cons]
    by_cases hx : min (cost x.2) density > acc.2
    · rw [if_pos hx]
      rcases ih (some x.2, min (cost x.2) density) with ⟨h1, h2⟩ | ⟨pre, s, post, h1, h2, h3, h4, h5⟩
      · right
        refine ⟨[], x, rest, rfl, h1, hx, ?_, fun t ht => by cases ht⟩
        intro t ht
        rcases List.mem_cons.mp ht with rfl | ht
        · exact Int.le_refl _
        · exact h2 t ht
      · right
        refine ⟨x :: pre, s, post, by rw [h1]; rfl, h2, ?_, ?_, ?_⟩
        · simp only at h3; omega
        · intro t ht
          rcases List.mem_cons.mp ht with rfl | ht
          · simp only at h3; omega
          · exact h4 t ht
        · intro t ht
          rcases List.mem_cons.mp ht with rfl | ht
          · exact h3
          · exact h5 t ht
    · rw [if_neg hx]
      rcases ih acc with ⟨h1, h2⟩ | ⟨pre, s, post, h1, h2, h3, h4, h5⟩
      · left
        refine ⟨h1, ?_⟩
        intro t ht
        rcases List.mem_cons.mp ht with rfl | ht
        · omega
        · exact h2 t ht
      · right
        refine ⟨x :: pre, s, post, by rw [h1]; rfl, h2, h3, ?_, ?_⟩
        · intro t ht
          rcases List.mem_cons.mp ht with rfl | ht
          · omega
          · exact h4 t ht
        · intro t ht
          rcases List.mem_cons.mp ht with rfl | ht
          · omega
          · exact h5 t ht

end Opf
