/-
Helper lemmas for C12 (k-nearest scan, `create_arcs`) and C14 (`queryNeighbours`, `knnArgmax`).
Core Lean only.
-/
import OpfVerif.Model.KnnSpec
namespace Opf

/-- induction from the right. -/
theorem list_snoc_induction {α : Type} {p : List α → Prop} (nil : p [])
    (snoc : ∀ l a, p l → p (l ++ [a])) : ∀ l, p l := by
  have h : ∀ l : List α, p l.reverse := by
    intro l
    induction l with
    | nil => exact nil
    | cons a l ih => rw [List.reverse_cons]; exact snoc _ _ ih
  intro l
  have := h l.reverse
  rwa [List.reverse_reverse] at this

/-! ### `stableInsert` / `stableSort` on lists -/

/-- ascending (non-strict) by distance. -/
abbrev SortedD (l : List Slot) : Prop := l.Pairwise (fun a b => a.1 ≤ b.1)

theorem length_stableInsert (a : Slot) (l : List Slot) : (stableInsert a l).length = l.length + 1 := by
  induction l with
  | nil => rfl
  | cons b l ih =>
    simp only [stableInsert]
    split
    · simp
    · simp [ih]

theorem mem_stableInsert {a s : Slot} {l : List Slot} : s ∈ stableInsert a l ↔ s = a ∨ s ∈ l := by
  induction l with
  | nil => simp [stableInsert]
  | cons b l ih =>
    simp only [stableInsert]
    split
    · simp
    · simp only [List.mem_cons, ih]
      constructor
      · rintro (h | h | h) <;> simp [h]
      · rintro (h | h | h) <;> simp [h]

theorem perm_stableInsert (a : Slot) (l : List Slot) : (stableInsert a l).Perm (a :: l) := by
  induction l with
  | nil => exact List.Perm.refl _
  | cons b l ih =>
    simp only [stableInsert]
    split
    · exact List.Perm.refl _
    · exact ((List.Perm.cons b ih).trans (List.Perm.swap a b l))

theorem sorted_stableInsert (a : Slot) (l : List Slot) (h : SortedD l) : SortedD (stableInsert a l) := by
  induction l with
  | nil => simp [stableInsert, SortedD]
  | cons b l ih =>
    have hb := (List.pairwise_cons.mp h)
    simp only [stableInsert]
    split
    · rename_i hab
      refine List.pairwise_cons.mpr ⟨?_, h⟩
      intro c hc
      rcases List.mem_cons.mp hc with rfl | hc
      · omega
      · have := hb.1 c hc; omega
    · rename_i hab
      refine List.pairwise_cons.mpr ⟨?_, ih hb.2⟩
      intro c hc
      rcases mem_stableInsert.mp hc with rfl | hc
      · omega
      · exact hb.1 c hc

/-- `a` goes in front of a strictly larger last element. -/
theorem stableInsert_concat_lt (a b : Slot) (l : List Slot) (h : a.1 < b.1) :
    stableInsert a (l ++ [b]) = stableInsert a l ++ [b] := by
  induction l with
  | nil => simp [stableInsert, h]
  | cons c l ih =>
    simp only [List.cons_append, stableInsert]
    split
    · rfl
    · rw [ih]; rfl

/-- `a` goes last when nothing is strictly larger. -/
theorem stableInsert_all_le (a : Slot) (l : List Slot) (h : ∀ c ∈ l, c.1 ≤ a.1) :
    stableInsert a l = l ++ [a] := by
  induction l with
  | nil => rfl
  | cons c l ih =>
    have hc := h c (List.mem_cons_self)
    simp only [stableInsert, List.cons_append]
    rw [if_neg (by omega), ih (fun d hd => h d (List.mem_cons_of_mem _ hd))]

/-- a strictly larger tail does not interfere. -/
theorem stableInsert_append_gt (a : Slot) (l p : List Slot) (h : ∀ c ∈ p, a.1 < c.1) :
    stableInsert a (l ++ p) = stableInsert a l ++ p := by
  induction l with
  | nil =>
    cases p with
    | nil => rfl
    | cons c p => simp [stableInsert, h c (List.mem_cons_self)]
  | cons c l ih =>
    simp only [List.cons_append, stableInsert]
    split
    · rfl
    · rw [ih]; rfl

theorem take_cons_take (k : Nat) (b : Slot) (m : List Slot) :
    (b :: m.take k).take k = (b :: m).take k := by
  cases k with
  | zero => rfl
  | succ k => simp [List.take_take]

/-- the first `k` of an insertion only depend on the first `k` of the list. -/
theorem take_stableInsert_take (a : Slot) (k : Nat) (m : List Slot) :
    (stableInsert a (m.take k)).take k = (stableInsert a m).take k := by
  induction m generalizing k with
  | nil => simp
  | cons b m ih =>
    cases k with
    | zero => simp
    | succ k =>
      simp only [List.take_succ_cons, stableInsert]
      split
      · simp only [List.take_succ_cons, take_cons_take]
      · simp only [List.take_succ_cons, ih]

/-! ### stableSort -/

theorem stableSort_concat (dist : Nat → Int) (pre : List Nat) (j : Nat) :
    stableSort dist (pre ++ [j]) = stableInsert (dist j, j) (stableSort dist pre) := by
  simp [stableSort, List.foldl_append]

theorem stableSort_nil (dist : Nat → Int) : stableSort dist [] = [] := rfl

theorem stableSort_perm (dist : Nat → Int) (cands : List Nat) :
    (stableSort dist cands).Perm (cands.map (fun j => (dist j, j))) := by
  induction cands using list_snoc_induction with
  | nil => exact List.Perm.refl _
  | snoc pre j ih =>
    rw [stableSort_concat, List.map_append]
    refine (perm_stableInsert _ _).trans ?_
    refine (List.Perm.cons _ ih).trans ?_
    exact (List.perm_append_comm (l₁ := [(dist j, j)]))

/-! ### `bubble` on a buffer given as a list -/

theorem getD_mid0 (L R : List Slot) (b a : Slot) (d : Slot) :
    (L ++ b :: a :: R).toArray.getD L.length d = b := by
  simp [Array.getD_eq_getD_getElem?]

theorem getD_mid1 (L R : List Slot) (b a : Slot) (d : Slot) :
    (L ++ b :: a :: R).toArray.getD (L.length + 1) d = a := by
  simp [Array.getD_eq_getD_getElem?]

theorem swap_mid (L R : List Slot) (b a : Slot) :
    ((L ++ b :: a :: R).toArray.setIfInBounds (L.length + 1) b).setIfInBounds L.length a
      = (L ++ a :: b :: R).toArray := by
  simp [List.setIfInBounds_toArray]

/-- bubbling the element at position `|L|` into the sorted prefix `L` is a stable insertion. -/
theorem bubble_list (L : List Slot) : ∀ (R : List Slot) (a : Slot), SortedD L →
    bubble (L ++ a :: R).toArray L.length = (stableInsert a L ++ R).toArray := by
  induction L using list_snoc_induction with
  | nil => intro R a _; rfl
  | snoc L' b ih =>
    intro R a hs
    have hs' := List.pairwise_append.mp hs
    rw [List.append_assoc, List.singleton_append, List.length_append, List.length_singleton]
    unfold bubble
    rw [getD_mid1, getD_mid0]
    split
    · rename_i hab
      rw [swap_mid, ih (b :: R) a hs'.1, stableInsert_concat_lt a b L' hab]
      simp
    · rename_i hab
      rw [stableInsert_all_le]
      · simp
      · intro c hc
        rcases List.mem_append.mp hc with hc | hc
        · have := hs'.2.2 c hc b (by simp); omega
        · simp at hc; subst hc; omega

/-! ### the scan invariant -/

theorem list_split_last (k : Nat) (l : List Slot) (h : l.length = k + 1) :
    ∃ x, l = l.take k ++ [x] := by
  have h1 : (l.drop k).length = 1 := by simp [h]
  obtain ⟨x, hx⟩ := List.length_eq_one_iff.mp h1
  exact ⟨x, by rw [← hx, List.take_append_drop]⟩

theorem scanInsert_list (k : Nat) (buf : Array Slot) (d : Int) (j : Nat) (hsz : buf.size = k + 1)
    (hs : SortedD (buf.toList.take k)) :
    scanInsert k buf d j = (stableInsert (d, j) (buf.toList.take k)).toArray := by
  obtain ⟨l⟩ := buf
  simp only [List.size_toArray] at hsz
  obtain ⟨x, hx⟩ := list_split_last k l hsz
  have hlen : (l.take k).length = k := by simp [hsz]
  simp only at hs ⊢
  generalize l.take k = L at *
  subst hx
  unfold scanInsert
  have h1 : (L ++ [x]).toArray.setIfInBounds k (d, j) = (L ++ (d, j) :: []).toArray := by
    simp [List.setIfInBounds_toArray, ← hlen]
  rw [h1]
  have := bubble_list L [] (d, j) hs
  rw [hlen] at this
  simpa using this

/-- reference content of the first `k` slots after scanning `pre`. -/
def refSlots (k : Nat) (top : Int) (dist : Nat → Int) (pre : List Nat) : List Slot :=
  (stableSort dist pre ++ List.replicate k (top, 0)).take k

theorem mem_stableSort {dist : Nat → Int} {cands : List Nat} {s : Slot} :
    s ∈ stableSort dist cands ↔ s.2 ∈ cands ∧ s.1 = dist s.2 := by
  rw [(stableSort_perm dist cands).mem_iff, List.mem_map]
  constructor
  · rintro ⟨j, hj, rfl⟩; exact ⟨hj, rfl⟩
  · rintro ⟨h1, h2⟩; exact ⟨s.2, h1, by rw [← h2]⟩

theorem sorted_stableSort (dist : Nat → Int) (cands : List Nat) : SortedD (stableSort dist cands) := by
  induction cands using list_snoc_induction with
  | nil => exact List.Pairwise.nil
  | snoc pre j ih => rw [stableSort_concat]; exact sorted_stableInsert _ _ ih

theorem length_stableSort (dist : Nat → Int) (cands : List Nat) :
    (stableSort dist cands).length = cands.length := by
  rw [(stableSort_perm dist cands).length_eq, List.length_map]

theorem sorted_padded (k : Nat) (top : Int) (dist : Nat → Int) (pre : List Nat)
    (hlt : ∀ j, j ∈ pre → dist j < top) :
    SortedD (stableSort dist pre ++ List.replicate k (top, 0)) := by
  refine List.pairwise_append.mpr ⟨sorted_stableSort _ _, ?_, ?_⟩
  · refine List.pairwise_replicate.mpr ?_
    simp
  · intro a ha b hb
    have := mem_stableSort.mp ha
    have hb' := (List.mem_replicate.mp hb).2
    have := hlt _ this.1
    subst hb'
    simp only
    omega

theorem sorted_refSlots (k : Nat) (top : Int) (dist : Nat → Int) (pre : List Nat)
    (hlt : ∀ j, j ∈ pre → dist j < top) : SortedD (refSlots k top dist pre) :=
  List.Pairwise.sublist (List.take_sublist _ _) (sorted_padded k top dist pre hlt)

theorem length_refSlots (k : Nat) (top : Int) (dist : Nat → Int) (pre : List Nat) :
    (refSlots k top dist pre).length = k := by
  simp [refSlots]

/-- one insertion step on the reference content. -/
theorem refSlots_concat (k : Nat) (top : Int) (dist : Nat → Int) (pre : List Nat) (j : Nat)
    (hj : dist j < top) :
    (stableInsert (dist j, j) (refSlots k top dist pre)).take k = refSlots k top dist (pre ++ [j]) := by
  unfold refSlots
  rw [take_stableInsert_take, stableSort_concat, stableInsert_append_gt]
  intro c hc
  rw [(List.mem_replicate.mp hc).2]
  exact hj

/-- **scan invariant**: buffer of size `k+1` whose first `k` slots are the reference content. -/
theorem scan_inv (k : Nat) (top : Int) (dist : Nat → Int) (cands : List Nat)
    (hlt : ∀ j, j ∈ cands → dist j < top) :
    (scan k top dist cands).size = k + 1 ∧
      (scan k top dist cands).toList.take k = refSlots k top dist cands := by
  induction cands using list_snoc_induction with
  | nil =>
    simp [scan, refSlots, stableSort_nil, List.take_replicate]
  | snoc pre j ih =>
    have ih := ih (fun j hj => hlt j (List.mem_append_left _ hj))
    have hpre : ∀ j, j ∈ pre → dist j < top := fun j hj => hlt j (List.mem_append_left _ hj)
    have hj := hlt j (by simp)
    have hstep : scan k top dist (pre ++ [j]) = scanInsert k (scan k top dist pre) (dist j) j := by
      simp [scan, List.foldl_append]
    rw [hstep, scanInsert_list k _ _ _ ih.1 (by rw [ih.2]; exact sorted_refSlots k top dist pre hpre)]
    rw [ih.2]
    refine ⟨?_, ?_⟩
    · simp [length_stableInsert, length_refSlots]
    · exact refSlots_concat k top dist pre j hj

theorem stableSort_ne_top {top : Int} {dist : Nat → Int} {cands : List Nat}
    (hlt : ∀ j, j ∈ cands → dist j < top) {s : Slot} (hs : s ∈ stableSort dist cands) : s.1 ≠ top := by
  have h := mem_stableSort.mp hs
  have := hlt _ h.1
  omega

theorem filter_refSlots (k : Nat) (top : Int) (dist : Nat → Int) (cands : List Nat)
    (hlt : ∀ j, j ∈ cands → dist j < top) :
    (refSlots k top dist cands).filter (fun s => s.1 ≠ top) = kNearest k dist cands := by
  unfold refSlots kNearest
  rw [List.take_append, List.filter_append]
  have h1 : ((stableSort dist cands).take k).filter (fun s => s.1 ≠ top) = (stableSort dist cands).take k := by
    refine List.filter_eq_self.mpr ?_
    intro s hs
    simpa using stableSort_ne_top hlt (List.mem_of_mem_take hs)
  have h2 : ((List.replicate k ((top, 0) : Slot)).take (k - (stableSort dist cands).length)).filter
      (fun s => s.1 ≠ top) = [] := by
    refine List.filter_eq_nil_iff.mpr ?_
    intro s hs
    have := (List.mem_replicate.mp (List.mem_of_mem_take hs)).2
    simp [this]
  rw [h1, h2, List.append_nil]

/-- **C12 core**: the valid slots of the scan are the `k` nearest candidates in reference order. -/
theorem validSlots_scan (k : Nat) (top : Int) (dist : Nat → Int) (cands : List Nat)
    (hlt : ∀ j, j ∈ cands → dist j < top) :
    validSlots k top (scan k top dist cands) = kNearest k dist cands := by
  unfold validSlots
  rw [(scan_inv k top dist cands hlt).2, filter_refSlots k top dist cands hlt]

theorem length_kNearest (k : Nat) (dist : Nat → Int) (cands : List Nat) :
    (kNearest k dist cands).length = min k cands.length := by
  simp [kNearest, length_stableSort]

theorem scan_getD (k : Nat) (top : Int) (dist : Nat → Int) (cands : List Nat)
    (hlt : ∀ j, j ∈ cands → dist j < top) (l : Nat) (hl : l < k) (d : Slot) :
    (scan k top dist cands).getD l d = (refSlots k top dist cands).getD l d := by
  rw [← (scan_inv k top dist cands hlt).2]
  simp [Array.getD_eq_getD_getElem?, List.getD_eq_getElem?_getD, hl]

/-- slots below the number of neighbours hold the neighbours, and are valid. -/
theorem scan_slot_lt (k : Nat) (top : Int) (dist : Nat → Int) (cands : List Nat)
    (hlt : ∀ j, j ∈ cands → dist j < top) (l : Nat) (hl : l < (kNearest k dist cands).length) (d : Slot) :
    (scan k top dist cands).getD l d = (kNearest k dist cands).getD l d ∧
      ((scan k top dist cands).getD l d).1 ≠ top := by
  have hl' := hl
  rw [length_kNearest, ← length_stableSort dist] at hl'
  have hk : l < k := by omega
  have hS : l < (stableSort dist cands).length := by omega
  have h1 : (scan k top dist cands).getD l d = (stableSort dist cands)[l] := by
    rw [scan_getD k top dist cands hlt l hk]
    simp [refSlots, List.getD_eq_getElem?_getD, hk, List.getElem_append_left hS]
  have h2 : (kNearest k dist cands).getD l d = (stableSort dist cands)[l] := by
    simp [kNearest, List.getD_eq_getElem?_getD, hk, hS]
  rw [h1, h2]
  exact ⟨rfl, stableSort_ne_top hlt (List.getElem_mem hS)⟩

/-- the remaining slots (below `k`) still hold the sentinel distance. -/
theorem scan_slot_ge (k : Nat) (top : Int) (dist : Nat → Int) (cands : List Nat)
    (hlt : ∀ j, j ∈ cands → dist j < top) (l : Nat) (hk : l < k)
    (hl : (kNearest k dist cands).length ≤ l) (d : Slot) :
    ((scan k top dist cands).getD l d).1 = top := by
  rw [length_kNearest, ← length_stableSort dist] at hl
  have hS : (stableSort dist cands).length ≤ l := by omega
  rw [scan_getD k top dist cands hlt l hk]
  simp only [refSlots, List.getD_eq_getElem?_getD, List.getElem?_take, hk, if_true,
    List.getElem?_append_right hS]
  rw [List.getElem?_replicate, if_pos (by omega)]
  rfl

end Opf
