/-
Refinement of the translated `UnsupervisedOPF._normalized_cut` (`Gen/CutImp.lean`) to the
polymorphic model `normalizedCutG` (`Model/Knn.lean`) instantiated with the UNINTERPRETED float
operations: for every choice of `+`, `/` and int→float conversion (IEEE binary64 in particular).
-/
import OpfVerif.Gen.CutImp
import OpfVerif.Lemmas.FSym
import OpfVerif.Lemmas.ArcsRefine
set_option linter.unusedVariables false
namespace Opf.CutRefine
open Opf Opf.Gen Opf.Gen.CutImp

def adjInt (l : List Nat) : Array Int := (l.map (fun (x : Nat) => (x : Int))).toArray

/-- the flattened subgraph represents adjacency `adj`, plateau counts `nplat`, cluster labels `clu`
on `n` nodes with `nclusters` clusters. -/
structure RelC (sg : CSG) (n nclusters : Nat) (adj : Array (List Nat)) (nplat : Array Nat) (clu : Nat → Nat) : Prop where
  n_eq : sg.n_nodes = (n : Int)
  ncl_eq : sg.n_clusters = (nclusters : Int)
  sz_adj : sg.adjacency.size = n
  sz_nplat : sg.n_plateaus.size = n
  sz_clu : sg.cluster_label.size = n
  adj_eq : ∀ x, x < n → sg.adjacency[x]? = some (adjInt (adj.getD x []))
  nplat_eq : ∀ x, x < n → sg.n_plateaus[x]? = some (nplat.getD x 0 : Int)
  clu_eq : ∀ x, x < n → sg.cluster_label[x]? = some (clu x : Int)

/-! ### the loop bodies of the generated text, under names -/

def innerBody (W : Int → Int → Option Int) (fo : Py.FOps) (sg : CSG) (i : Int) :
    Int → Array Int × Array Int → Option (Array Int × Array Int) :=
        (fun k (internal_cluster, external_cluster) => (do
          let t4202 ← Py.idx sg.adjacency i
          let t4203 ← Py.idx t4202 k
          let j := t4203
          let distance ← W i j
          let (internal_cluster, external_cluster) ← (if (decide (distance > (0 : Int))) then (do
              let t4204 ← Py.idx sg.cluster_label i
              let t4205 ← Py.idx sg.cluster_label j
              let (internal_cluster, external_cluster) ← (if (decide (t4204 = t4205)) then (do
                  let t4206 ← Py.idx sg.cluster_label i
                  let t4207 ← Py.idx internal_cluster t4206
                  let t4208 ← Py.idx sg.cluster_label i
                  let t4209 ← Py.setIdx internal_cluster t4208 (fo.add t4207 (fo.div (fo.ofInt (1 : Int)) distance))
                  let internal_cluster := t4209
                  pure (internal_cluster, external_cluster)) else (do
                  let t4210 ← Py.idx sg.cluster_label i
                  let t4211 ← Py.idx external_cluster t4210
                  let t4212 ← Py.idx sg.cluster_label i
                  let t4213 ← Py.setIdx external_cluster t4212 (fo.add t4211 (fo.div (fo.ofInt (1 : Int)) distance))
                  let external_cluster := t4213
                  pure (internal_cluster, external_cluster)))
              pure (internal_cluster, external_cluster)) else (do
              pure (internal_cluster, external_cluster)))
          pure (internal_cluster, external_cluster)))

def outerBody (W : Int → Int → Option Int) (fo : Py.FOps) (sg : CSG) (n_neighbours : Int) :
    Int → Array Int × Array Int → Option (Array Int × Array Int) :=
    (fun i (internal_cluster, external_cluster) => (do
      let t4201 ← Py.idx sg.n_plateaus i
      let n_adjacents := (t4201 + n_neighbours)
      let (internal_cluster, external_cluster) ← Py.forRange (σ := Array Int × Array Int) n_adjacents
        (innerBody W fo sg i) (internal_cluster, external_cluster)
      pure (internal_cluster, external_cluster)))

def cutBody (fo : Py.FOps) (internal_cluster external_cluster : Array Int) : Int → Int → Option Int :=
    (fun l cut => (do
      let t4214 ← Py.idx internal_cluster l
      let t4215 ← Py.idx external_cluster l
      let cut ← (if (decide ((fo.add t4214 t4215) > (0 : Int))) then (do
          let t4216 ← Py.idx external_cluster l
          let t4217 ← Py.idx internal_cluster l
          let t4218 ← Py.idx external_cluster l
          let cut := (fo.add cut (fo.div t4216 (fo.add t4217 t4218)))
          pure cut) else (do
          pure cut))
      pure cut))

theorem normalized_cut_eq (W : Int → Int → Option Int) (fo : Py.FOps) (sg : CSG) (k : Int) :
    normalized_cut W fo sg k = (do
      let (internal_cluster, external_cluster) ← Py.forRange (σ := Array Int × Array Int) sg.n_nodes
        (outerBody W fo sg k) (Py.replicate sg.n_clusters (0 : Int), Py.replicate sg.n_clusters (0 : Int))
      let cut ← Py.forRange (σ := Int) sg.n_clusters (cutBody fo internal_cluster external_cluster) (0 : Int)
      pure (sg, cut)) := rfl

/-! ### `FSym` -/

theorem add_val {fo : Py.FOps} (a b : FSym fo) : (a + b).val = fo.add a.val b.val := rfl
theorem div_val {fo : Py.FOps} (a b : FSym fo) : (a / b).val = fo.div a.val b.val := rfl
theorem ofInt_val (fo : Py.FOps) (z : Int) : (FSym.ofInt fo z).val = fo.ofInt z := rfl
theorem lt_iff {fo : Py.FOps} (a b : FSym fo) : a < b ↔ a.val < b.val := Iff.rfl

/-! ### the model, step by step -/

/-- one visited arc `(i, j)` in `cutSums`. -/
def mstep (fo : Py.FOps) (w : Nat → Nat → Int) (clu : Nat → Nat) (i : Nat)
    (acc : Array (FSym fo) × Array (FSym fo)) (j : Nat) : Array (FSym fo) × Array (FSym fo) :=
  if (⟨0⟩ : FSym fo) < (⟨w i j⟩ : FSym fo) then
    if clu i = clu j then
      (acc.1.setIfInBounds (clu i) (acc.1.getD (clu i) ⟨0⟩ + FSym.ofInt fo 1 / ⟨w i j⟩), acc.2)
    else (acc.1, acc.2.setIfInBounds (clu i) (acc.2.getD (clu i) ⟨0⟩ + FSym.ofInt fo 1 / ⟨w i j⟩))
  else acc

/-- one node `i` in `cutSums`. -/
def mnode (fo : Py.FOps) (w : Nat → Nat → Int) (adj : Array (List Nat)) (nplat : Array Nat) (k : Nat)
    (clu : Nat → Nat) (acc : Array (FSym fo) × Array (FSym fo)) (i : Nat) :
    Array (FSym fo) × Array (FSym fo) :=
  ((adj.getD i []).take (nplat.getD i 0 + k)).foldl (mstep fo w clu i) acc

theorem cutSums_eq (fo : Py.FOps) (w : Nat → Nat → Int) (adj : Array (List Nat)) (nplat : Array Nat)
    (k : Nat) (clu : Nat → Nat) (n nclusters : Nat) :
    cutSums (α := FSym fo) ⟨0⟩ (FSym.ofInt fo 1) (fun a b => ⟨w a b⟩) adj nplat k clu n nclusters =
      (List.range n).foldl (mnode fo w adj nplat k clu)
        (Array.replicate nclusters ⟨0⟩, Array.replicate nclusters ⟨0⟩) := rfl

/-- one cluster `l` of the final sum. -/
def mcut (fo : Py.FOps) (s : Array (FSym fo) × Array (FSym fo)) (cut : FSym fo) (l : Nat) : FSym fo :=
  if (⟨0⟩ : FSym fo) < s.1.getD l ⟨0⟩ + s.2.getD l ⟨0⟩ then
    cut + s.2.getD l ⟨0⟩ / (s.1.getD l ⟨0⟩ + s.2.getD l ⟨0⟩) else cut

theorem normalizedCutG_eq (fo : Py.FOps) (w : Nat → Nat → Int) (adj : Array (List Nat)) (nplat : Array Nat)
    (k : Nat) (clu : Nat → Nat) (n nclusters : Nat) :
    normalizedCutG (α := FSym fo) ⟨0⟩ (FSym.ofInt fo 1) (fun a b => ⟨w a b⟩) adj nplat k clu n nclusters =
      (List.range nclusters).foldl
        (mcut fo (cutSums (α := FSym fo) ⟨0⟩ (FSym.ofInt fo 1) (fun a b => ⟨w a b⟩) adj nplat k clu n nclusters))
        ⟨0⟩ := rfl

/-! ### the two local arrays against the model's pair -/

structure SR (fo : Py.FOps) (nc : Nat) (st : Array Int × Array Int)
    (m : Array (FSym fo) × Array (FSym fo)) : Prop where
  s1 : m.1.size = nc
  s2 : m.2.size = nc
  e1 : st.1 = m.1.map (·.val)
  e2 : st.2 = m.2.map (·.val)

theorem idx_map {fo : Py.FOps} (A : Array (FSym fo)) (c : Nat) (hc : c < A.size) :
    Py.idx (A.map (·.val)) (c : Int) = some (A.getD c ⟨0⟩).val := by
  rw [HeapRefine.idx_nat, Array.getElem?_map, ArcsRefine.getq_getD A c ⟨0⟩ hc]
  rfl

theorem setIdx_map {fo : Py.FOps} (A : Array (FSym fo)) (c : Nat) (hc : c < A.size) (v : FSym fo) :
    Py.setIdx (A.map (·.val)) (c : Int) v.val = some ((A.setIfInBounds c v).map (·.val)) := by
  rw [HeapRefine.setIdx_nat _ _ _ (by rw [Array.size_map]; exact hc), Array.map_setIfInBounds]

theorem adjInt_get (l : List Nat) (k : Nat) (hk : k < l.length) :
    Py.idx (adjInt l) (k : Int) = some (l[k] : Int) := by
  rw [HeapRefine.idx_nat]
  simp [adjInt, hk]

namespace RelC
variable {sg : CSG} {n nclusters : Nat} {adj : Array (List Nat)} {nplat : Array Nat} {clu : Nat → Nat}

theorem idx_adj (r : RelC sg n nclusters adj nplat clu) {x : Nat} (hx : x < n) :
    Py.idx sg.adjacency (x : Int) = some (adjInt (adj.getD x [])) := by
  rw [HeapRefine.idx_nat]; exact r.adj_eq x hx

theorem idx_nplat (r : RelC sg n nclusters adj nplat clu) {x : Nat} (hx : x < n) :
    Py.idx sg.n_plateaus (x : Int) = some (nplat.getD x 0 : Int) := by
  rw [HeapRefine.idx_nat]; exact r.nplat_eq x hx

theorem idx_clu (r : RelC sg n nclusters adj nplat clu) {x : Nat} (hx : x < n) :
    Py.idx sg.cluster_label (x : Int) = some (clu x : Int) := by
  rw [HeapRefine.idx_nat]; exact r.clu_eq x hx
end RelC

/-! ### one visited arc -/

theorem innerBody_step (fo : Py.FOps) (W : Int → Int → Option Int) (w : Nat → Nat → Int)
    (sg : CSG) (n nclusters : Nat) (adj : Array (List Nat)) (nplat : Array Nat) (clu : Nat → Nat)
    (hr : RelC sg n nclusters adj nplat clu)
    (hW : ∀ a b : Nat, a < n → b < n → W (a : Int) (b : Int) = some (w a b))
    (i kk : Nat) (hi : i < n) (hkk : kk < (adj.getD i []).length) (hj : (adj.getD i [])[kk] < n)
    (hc : clu i < nclusters)
    (st : Array Int × Array Int) (m : Array (FSym fo) × Array (FSym fo)) (h : SR fo nclusters st m) :
    ∃ st', innerBody W fo sg (i : Int) (kk : Int) st = some st' ∧
      SR fo nclusters st' (mstep fo w clu i m ((adj.getD i [])[kk])) := by
  obtain ⟨ic, ec⟩ := st
  obtain ⟨A, B⟩ := m
  obtain ⟨s1, s2, e1, e2⟩ := h
  simp only at s1 s2 e1 e2
  subst e1 e2
  generalize hjj : (adj.getD i [])[kk] = j at hj
  have a1 := hr.idx_adj hi
  have a2 : Py.idx (adjInt (adj.getD i [])) (kk : Int) = some (j : Int) := by
    rw [adjInt_get _ _ hkk, hjj]
  have a3 := hW i j hi hj
  have a4 := hr.idx_clu hi
  have a5 := hr.idx_clu hj
  have a6 := idx_map A (clu i) (by omega)
  have a7 := idx_map B (clu i) (by omega)
  have a8 := fun v => setIdx_map A (clu i) (by omega) v
  have a9 := fun v => setIdx_map B (clu i) (by omega) v
  unfold mstep
  by_cases c1 : (0 : Int) < w i j
  · have c1' : (⟨0⟩ : FSym fo) < (⟨w i j⟩ : FSym fo) := c1
    rw [if_pos c1']
    by_cases c2 : clu i = clu j
    · rw [if_pos c2]
      have c2' : decide (((clu i : Nat) : Int) = ((clu j : Nat) : Int)) = true := decide_eq_true (by omega)
      have v : fo.add (A.getD (clu i) ⟨0⟩).val (fo.div (fo.ofInt 1) (w i j)) =
          (A.getD (clu i) ⟨0⟩ + FSym.ofInt fo 1 / ⟨w i j⟩).val := rfl
      refine ⟨((A.setIfInBounds (clu i) (A.getD (clu i) ⟨0⟩ + FSym.ofInt fo 1 / ⟨w i j⟩)).map (·.val),
        B.map (·.val)), ?_, ⟨by simp only [Array.size_setIfInBounds]; exact s1, s2, rfl, rfl⟩⟩
      simp only [innerBody, a1, a2, a3, a4, a5, a6, v, a8, gt_iff_lt, c1, c2', decide_true, if_true,
        Option.bind_eq_bind, Option.bind_some, Option.pure_def]
    · rw [if_neg c2]
      have c2' : decide (((clu i : Nat) : Int) = ((clu j : Nat) : Int)) = false := decide_eq_false (by omega)
      have v : fo.add (B.getD (clu i) ⟨0⟩).val (fo.div (fo.ofInt 1) (w i j)) =
          (B.getD (clu i) ⟨0⟩ + FSym.ofInt fo 1 / ⟨w i j⟩).val := rfl
      refine ⟨(A.map (·.val),
        (B.setIfInBounds (clu i) (B.getD (clu i) ⟨0⟩ + FSym.ofInt fo 1 / ⟨w i j⟩)).map (·.val)), ?_,
        ⟨s1, by simp only [Array.size_setIfInBounds]; exact s2, rfl, rfl⟩⟩
      simp only [innerBody, a1, a2, a3, a4, a5, a7, v, a9, gt_iff_lt, c1, c2', decide_true,
        Bool.false_eq_true, if_true, if_false, Option.bind_eq_bind, Option.bind_some, Option.pure_def]
  · have c1' : ¬ (⟨0⟩ : FSym fo) < (⟨w i j⟩ : FSym fo) := c1
    rw [if_neg c1']
    refine ⟨(A.map (·.val), B.map (·.val)), ?_, ⟨s1, s2, rfl, rfl⟩⟩
    simp only [innerBody, a1, a2, a3, gt_iff_lt, c1, decide_false, Bool.false_eq_true, if_false,
      Option.bind_eq_bind, Option.bind_some, Option.pure_def]

/-! ### one node -/

theorem getD_eq_getElem (L : List Nat) (l : Nat) (h : l < L.length) : L.getD l 0 = L[l] := by
  rw [List.getD_eq_getElem?_getD, List.getElem?_eq_getElem h]; rfl

theorem foldl_take_range {τ : Type} (f : τ → Nat → τ) (L : List Nat) (m : Nat) (hm : m ≤ L.length)
    (s : τ) : (List.range m).foldl (fun b kk => f b (L.getD kk 0)) s = (L.take m).foldl f s := by
  induction m with
  | zero => simp
  | succ m ih =>
    have hlt : m < L.length := by omega
    rw [List.range_succ, List.foldl_append, ih (by omega), List.take_add_one, List.foldl_append,
      List.getElem?_eq_getElem hlt]
    show f _ (L.getD m 0) = f _ L[m]
    rw [getD_eq_getElem L m hlt]

theorem outerBody_step (fo : Py.FOps) (W : Int → Int → Option Int) (w : Nat → Nat → Int)
    (sg : CSG) (n nclusters k : Nat) (adj : Array (List Nat)) (nplat : Array Nat) (clu : Nat → Nat)
    (hr : RelC sg n nclusters adj nplat clu)
    (hW : ∀ a b : Nat, a < n → b < n → W (a : Int) (b : Int) = some (w a b))
    (hlong : ∀ i, i < n → nplat.getD i 0 + k ≤ (adj.getD i []).length)
    (hadj : ∀ i, i < n → ∀ j, j ∈ adj.getD i [] → j < n)
    (hclu : ∀ i, i < n → clu i < nclusters)
    (i : Nat) (hi : i < n)
    (st : Array Int × Array Int) (m : Array (FSym fo) × Array (FSym fo)) (h : SR fo nclusters st m) :
    ∃ st', outerBody W fo sg (k : Int) (i : Int) st = some st' ∧
      SR fo nclusters st' (mnode fo w adj nplat k clu m i) := by
  have a1 := hr.idx_nplat hi
  have ek : ((nplat.getD i 0 : Nat) : Int) + (k : Int) = ((nplat.getD i 0 + k : Nat) : Int) := by omega
  unfold mnode
  rw [← foldl_take_range (mstep fo w clu i) (adj.getD i []) _ (hlong i hi) m]
  obtain ⟨st', e, r⟩ := ArcsRefine.forRange_refines
    (fun (_ : Nat) (a : Array Int × Array Int) (b : Array (FSym fo) × Array (FSym fo)) =>
      SR fo nclusters a b)
    (innerBody W fo sg (i : Int)) (fun b kk => mstep fo w clu i b ((adj.getD i []).getD kk 0))
    (nplat.getD i 0 + k)
    (fun kk hkk a b hab => by
      have hlt : kk < (adj.getD i []).length := by have := hlong i hi; omega
      rw [getD_eq_getElem _ _ hlt]
      exact innerBody_step fo W w sg n nclusters adj nplat clu hr hW i kk hi hlt
        (hadj i hi _ (List.getElem_mem hlt)) (hclu i hi) a b hab)
    st m h
  refine ⟨st', ?_, r⟩
  obtain ⟨ic, ec⟩ := st
  simp only [outerBody, a1, ek, e, Option.bind_eq_bind, Option.bind_some, Option.pure_def]

/-! ### the final sum -/

theorem cutBody_step (fo : Py.FOps) (nc : Nat) (A B : Array (FSym fo)) (hA : A.size = nc)
    (hB : B.size = nc) (l : Nat) (hl : l < nc) (c : FSym fo) :
    cutBody fo (A.map (·.val)) (B.map (·.val)) (l : Int) c.val = some (mcut fo (A, B) c l).val := by
  have a1 := idx_map A l (by omega)
  have a2 := idx_map B l (by omega)
  unfold mcut
  by_cases c1 : (0 : Int) < fo.add (A.getD l ⟨0⟩).val (B.getD l ⟨0⟩).val
  · have c1' : (⟨0⟩ : FSym fo) < A.getD l ⟨0⟩ + B.getD l ⟨0⟩ := c1
    rw [if_pos c1']
    simp only [cutBody, a1, a2, gt_iff_lt, c1, decide_true, if_true, Option.bind_eq_bind,
      Option.bind_some, Option.pure_def]
    rfl
  · have c1' : ¬ (⟨0⟩ : FSym fo) < A.getD l ⟨0⟩ + B.getD l ⟨0⟩ := c1
    rw [if_neg c1']
    simp only [cutBody, a1, a2, gt_iff_lt, c1, decide_false, Bool.false_eq_true, if_false,
      Option.bind_eq_bind, Option.bind_some, Option.pure_def]

/-- `_normalized_cut(k)`: every adjacency list holds the `n_plateaus + k` entries that are read by
position, entries are node positions, cluster labels are `< n_clusters` (what `_clustering` leaves).
The translated code raises nothing and returns the model's value, the subgraph unchanged. -/
theorem normalized_cut_refines (fo : Py.FOps) (W : Int → Int → Option Int) (w : Nat → Nat → Int)
    (sg : CSG) (n nclusters k : Nat) (adj : Array (List Nat)) (nplat : Array Nat) (clu : Nat → Nat)
    (hr : RelC sg n nclusters adj nplat clu)
    (hW : ∀ a b : Nat, a < n → b < n → W (a : Int) (b : Int) = some (w a b))
    (hlong : ∀ i, i < n → nplat.getD i 0 + k ≤ (adj.getD i []).length)
    (hadj : ∀ i, i < n → ∀ j, j ∈ adj.getD i [] → j < n)
    (hclu : ∀ i, i < n → clu i < nclusters) :
    normalized_cut W fo sg (k : Int) = some (sg,
      (normalizedCutG (α := FSym fo) ⟨0⟩ (FSym.ofInt fo 1) (fun a b => ⟨w a b⟩) adj nplat k clu n nclusters).val) := by
  have en := hr.n_eq
  have ec := hr.ncl_eq
  have h0 : SR fo nclusters (Py.replicate (nclusters : Int) (0 : Int), Py.replicate (nclusters : Int) (0 : Int))
      (Array.replicate nclusters (⟨0⟩ : FSym fo), Array.replicate nclusters (⟨0⟩ : FSym fo)) :=
    ⟨by simp, by simp, by simp [Py.replicate], by simp [Py.replicate]⟩
  obtain ⟨st, e, r⟩ := ArcsRefine.forRange_refines
    (fun (_ : Nat) (a : Array Int × Array Int) (b : Array (FSym fo) × Array (FSym fo)) =>
      SR fo nclusters a b)
    (outerBody W fo sg (k : Int)) (mnode fo w adj nplat k clu) n
    (fun i hi a b hab => outerBody_step fo W w sg n nclusters k adj nplat clu hr hW hlong hadj hclu i hi
      a b hab) _ _ h0
  rw [← cutSums_eq] at r
  rw [normalizedCutG_eq]
  generalize cutSums (α := FSym fo) ⟨0⟩ (FSym.ofInt fo 1) (fun a b => ⟨w a b⟩) adj nplat k clu n nclusters
    = S at r ⊢
  obtain ⟨ic, ec'⟩ := st
  obtain ⟨A, B⟩ := S
  obtain ⟨s1, s2, e1, e2⟩ := r
  simp only at s1 s2 e1 e2
  subst e1 e2
  obtain ⟨cut, e', r'⟩ := ArcsRefine.forRange_refines
    (fun (_ : Nat) (a : Int) (b : FSym fo) => a = b.val)
    (cutBody fo (A.map (·.val)) (B.map (·.val))) (mcut fo (A, B)) nclusters
    (fun l hl a b hab => by
      subst hab
      exact ⟨_, cutBody_step fo nclusters A B s1 s2 l hl b, rfl⟩)
    (0 : Int) (⟨0⟩ : FSym fo) rfl
  rw [normalized_cut_eq]
  simp only [en, ec, e, e', r', Option.bind_eq_bind, Option.bind_some, Option.pure_def]

end Opf.CutRefine
