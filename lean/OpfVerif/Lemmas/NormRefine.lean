/-
Helper lemmas for `Props/C20NormRefine.lean`.
-/
import OpfVerif.Gen.NormImp
import OpfVerif.Props.C20
namespace Opf.NormRefine
open Opf Opf.Gen Opf.Measures

/-- arithmetic mean, as `normalizeColG` computes it. -/
noncomputable def meanR (col : List ℝ) : ℝ := col.foldl (· + ·) 0 / (col.length : ℝ)

/-- population standard deviation, as `normalizeColG` computes it. -/
noncomputable def stdR (col : List ℝ) : ℝ :=
  Real.sqrt ((col.map (fun v => (v - meanR col) * (v - meanR col))).foldl (· + ·) 0 / (col.length : ℝ))

theorem ncols_eq {α : Type} (array : Array (Array α)) (c : Nat) (hne : array.size ≠ 0)
    (hrect : ∀ r ∈ array, r.size = c) : Py.ncols array = some c := by
  have hrect' : ∀ r ∈ array.toList, r.size = c := fun r hr => hrect r (Array.mem_def.mpr hr)
  unfold Py.ncols
  split
  · next hl => exfalso; apply hne; rw [← Array.length_toList, hl]; rfl
  · next r rs hl =>
    rw [hl] at hrect'
    have h0 : r.size = c := hrect' r (by simp)
    have : rs.all (fun x => x.size == r.size) = true := by
      rw [List.all_eq_true]; intro x hx
      simp [hrect' x (by simp [hx]), h0]
    rw [if_pos this, h0]

theorem getD_range_map {α : Type} (g : Nat → α) (c j : Nat) (d : α) (hj : j < c) :
    ((Array.range c).map g).getD j d = g j := by
  simp [Array.getD, hj]

theorem all_size {α : Type} (a : Array (Array α)) (c : Nat) (h : ∀ r ∈ a, r.size = c) :
    a.all (fun r => r.size == c) = true := by
  rw [Array.all_eq_true']
  intro r hr
  simp [h r hr]

theorem normalize_refines {α : Type} [Inhabited α] [Sub α] [Div α] (MEAN STD : List α → α)
    (array : Array (Array α)) (c : Nat) (hne : array.size ≠ 0) (hrect : ∀ r ∈ array, r.size = c) :
    NormImp.normalize MEAN STD array =
      some (array.map (fun r => (Array.range c).map (fun j =>
        (r.getD j default - MEAN (Py.col array j)) / STD (Py.col array j)))) := by
  have hn := ncols_eq array c hne hrect
  unfold NormImp.normalize Py.axis0
  rw [hn]
  simp only [Option.map_some, Option.bind_eq_bind, Option.bind_some, Option.pure_def]
  unfold Py.bcast
  simp only [Array.size_map, Array.size_range]
  rw [if_pos (all_size array c hrect)]
  simp only [Option.bind_some]
  rw [if_pos]
  · simp only [Option.bind_some]
    congr 1
    rw [Array.map_map, Array.map_inj_left]
    intro r hr
    have hs := hrect r hr
    simp only [Function.comp, Array.size_map, Array.size_range, hs]
    apply Array.ext
    · simp
    · intro i h1 h2
      have hi : i < c := by simpa using h1
      simp only [Array.getElem_map, Array.getElem_range]
      rw [getD_range_map _ c i _ hi, getD_range_map _ c i _ hi, getD_range_map _ c i _ hi]
  · apply all_size
    intro r hr
    rw [Array.mem_map] at hr
    obtain ⟨r0, hr0, rfl⟩ := hr
    simp [hrect r0 hr0]

theorem normalize_column {α : Type} [Inhabited α] [Sub α] [Div α] (MEAN STD : List α → α)
    (array out : Array (Array α)) (c j : Nat) (hne : array.size ≠ 0) (hrect : ∀ r ∈ array, r.size = c) (hj : j < c)
    (h : NormImp.normalize MEAN STD array = some out) :
    Py.col out j = (Py.col array j).map (fun v => (v - MEAN (Py.col array j)) / STD (Py.col array j)) := by
  rw [normalize_refines MEAN STD array c hne hrect] at h
  injection h with h
  subst h
  unfold Py.col
  simp only [Array.toList_map, List.map_map]
  apply List.map_congr_left
  intro r _
  simp only [Function.comp]
  exact getD_range_map _ c j _ hj

theorem normalize_ragged {α : Type} [Inhabited α] [Sub α] [Div α] (MEAN STD : List α → α)
    (array : Array (Array α)) (h : Py.ncols array = none) : NormImp.normalize MEAN STD array = none := by
  unfold NormImp.normalize Py.axis0
  rw [h]
  rfl

theorem normalize_real (array out : Array (Array ℝ)) (c j : Nat) (hne : array.size ≠ 0)
    (hrect : ∀ r ∈ array, r.size = c) (hj : j < c)
    (h : NormImp.normalize meanR stdR array = some out) :
    Py.col out j = normalizeColG (fun k : Nat => (k : ℝ)) 0 Real.sqrt (Py.col array j) := by
  rw [normalize_column meanR stdR array out c j hne hrect hj h]
  rfl

end Opf.NormRefine
