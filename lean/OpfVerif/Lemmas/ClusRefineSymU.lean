/-
Plateau symmetrisation of the translated `UnsupervisedOPF._clustering` against `symUns`.
Positions read are in range because every list holds at least `n_plateaus + k` entries (`PL`), which
the pass maintains (an insertion at the head of `adjacency[j]` comes with `n_plateaus[j] += 1`).
-/
import OpfVerif.Lemmas.ClusRefineBase
set_option linter.unusedVariables false
set_option linter.unusedSimpArgs false
namespace Opf.ClusRefineAux
open Opf Opf.Gen Opf.Gen.ClusImp

def unsScanBody (i j : Int) : Int → Bool × KSG → Option (Bool × KSG) :=
                (fun l (insert, sg) => (do
                  let t2048 ← Py.idx sg.adjacency j
                  let t2049 ← Py.idx t2048 l
                  let adj := t2049
                  let insert ← (if (decide (i = adj)) then (do
                      let insert := false
                      pure insert) else (do
                      pure insert))
                  let sg ← (if insert then (do
                      let t2050 ← Py.idx sg.adjacency j
                      let t2051 ← Py.setIdx sg.adjacency j (#[i] ++ t2050)
                      let sg := { sg with adjacency := t2051 }
                      let t2052 ← Py.idx sg.n_plateaus j
                      let _g ← (if (decide ((t2052 + (1 : Int)) < (0 : Int))) then none else pure ())
                      let t2053 ← Py.setIdx sg.n_plateaus j (t2052 + (1 : Int))
                      let sg := { sg with n_plateaus := t2053 }
                      pure sg) else (do
                      pure sg))
                  pure (insert, sg)))

def unsPosBody (n_neighbours i : Int) : Int → KSG → Option KSG :=
        (fun k sg => (do
          let t2044 ← Py.idx sg.adjacency i
          let t2045 ← Py.idx t2044 k
          let j := t2045
          let t2046 ← Py.idx sg.density i
          let t2047 ← Py.idx sg.density j
          let sg ← (if (decide (t2046 = t2047)) then (do
              let insert := true
              let (insert, sg) ← Py.forRange (σ := Bool × KSG) n_neighbours (unsScanBody i j)
                (insert, sg)
              pure sg) else (do
              pure sg))
          pure sg))

def unsOuter (n_neighbours : Int) : Int → KSG → Option KSG :=
    (fun i sg => (do
      let sg ← Py.forRange (σ := KSG) n_neighbours (unsPosBody n_neighbours i) sg
      pure sg))

/-- every list holds the `n_plateaus + k` entries the code reads by position. -/
def PL (k : Nat) (d : Clu) : Prop := ∀ x, x < d.n → d.nplat.getD x 0 + k ≤ (d.adjOf x).length

theorem getD_eq_getElem (L : List Nat) (l : Nat) (h : l < L.length) : L.getD l 0 = L[l] := by
  rw [List.getD_eq_getElem?_getD, List.getElem?_eq_getElem h]; rfl

/-! ### the innermost scan -/

theorem unsScan_step (k : Nat) (c0 : Clu) (w : c0.WF) (i j : Nat) (hi : i < c0.n) (hjn : j < c0.n)
    (hji : j ≠ i)
    (harc : i ∈ c0.adjOf j ∨ (j ∈ c0.adjOf i ∧ c0.densOf j = c0.densOf i))
    (l : Nat) (hl : l < k) (sg : KSG) (st : Clu × Bool) (r : KRel true sg st.1)
    (s : Cluster.SInv c0 st.1) (pl : PL k st.1) :
    ∃ a', unsScanBody (i : Int) (j : Int) (l : Int) (st.2, sg) = some a' ∧
      a'.1 = (Cluster.unsStep i j st l).2 ∧ KRel true a'.2 (Cluster.unsStep i j st l).1 ∧
      Cluster.SInv c0 (Cluster.unsStep i j st l).1 ∧ PL k (Cluster.unsStep i j st l).1 := by
  obtain ⟨d, ins⟩ := st
  simp only at r s pl
  have wd : d.WF := s.wf w
  have hn : d.n = c0.n := s.frame.n
  have hjd : j < d.n := by rw [hn]; exact hjn
  have hlen : l < (d.adjOf j).length := by have := pl j hjd; omega
  have s' := Cluster.unsStep_inv hi hji harc (d, ins) l s
  have e1 := r.idx_adj hjd
  have e2 := idx_aInt (d.adjOf j) l hlen
  have hget := getD_eq_getElem (d.adjOf j) l hlen
  have e3 : Py.setIdx sg.adjacency (j : Int) (aInt (i :: d.adjOf j)) =
      some (sg.adjacency.setIfInBounds j (aInt (i :: d.adjOf j))) :=
    setIdx_nat _ _ _ (by rw [r.sz_adj]; exact hjd)
  have e4 := r.idx_nplat hjd
  have hc : ((d.nplat.getD j 0 : Nat) : Int) + 1 = ((d.nplat.getD j 0 + 1 : Nat) : Int) := by omega
  have hg : ¬ (((d.nplat.getD j 0 + 1 : Nat) : Int) < 0) := by omega
  have e5 : Py.setIdx sg.n_plateaus (j : Int) ((d.nplat.getD j 0 + 1 : Nat) : Int) =
      some (sg.n_plateaus.setIfInBounds j ((d.nplat.getD j 0 + 1 : Nat) : Int)) :=
    setIdx_nat _ _ _ (by rw [r.sz_nplat]; exact hjd)
  unfold Cluster.unsStep at s' ⊢
  simp only [hget] at s' ⊢
  by_cases hins : (ins && !(i == (d.adjOf j)[l])) = true
  · rw [if_pos hins] at s' ⊢
    rw [Bool.and_eq_true, Bool.not_eq_true', beq_eq_false_iff_ne] at hins
    obtain ⟨hins1, hins2⟩ := hins
    have hne : ¬ ((i : Int) = ((d.adjOf j)[l] : Int)) := by omega
    refine ⟨(true, { sg with adjacency := sg.adjacency.setIfInBounds j (aInt (i :: d.adjOf j)),
                              n_plateaus := sg.n_plateaus.setIfInBounds j
                                ((d.nplat.getD j 0 + 1 : Nat) : Int) }), ?_, ?_, ?_, s', ?_⟩
    · simp only [unsScanBody, e1, e2, e3, e4, e5, hc, hg, hne, hins1, aInt_cons, Option.bind_eq_bind,
        Option.bind_some, Option.pure_def, decide_false, if_false, if_true, Bool.false_eq_true]
    · simp [hins1, hins2]
    · exact (r.set_adj wd.size_adj hjd (i :: d.adjOf j)).set_nplat wd.size_nplat hjd _
    · intro x hx
      change x < d.n at hx
      show (d.nplat.setIfInBounds j (d.nplat.getD j 0 + 1)).getD x 0 + k ≤
        ((d.adj.setIfInBounds j (i :: d.adjOf j)).getD x []).length
      rw [Heap.getD_set, Heap.getD_set]
      by_cases e : x = j
      · rw [if_pos ⟨e, by rw [wd.size_nplat]; exact hjd⟩, if_pos ⟨e, by rw [wd.size_adj]; exact hjd⟩,
          List.length_cons]
        have := pl j hjd; omega
      · rw [if_neg (fun a => e a.1), if_neg (fun a => e a.1)]
        exact pl x hx
  · rw [if_neg hins] at s' ⊢
    refine ⟨((ins && !(i == (d.adjOf j)[l])), sg), ?_, rfl, r, s', pl⟩
    rw [Bool.not_eq_true] at hins
    by_cases e : i = (d.adjOf j)[l]
    · have e' : (i : Int) = ((d.adjOf j)[l] : Int) := by omega
      simp only [unsScanBody, e1, e2, e', Option.bind_eq_bind, Option.bind_some, Option.pure_def,
        decide_true, if_true, Bool.false_eq_true, if_false]
      simp [e]
    · have e' : ¬ ((i : Int) = ((d.adjOf j)[l] : Int)) := by omega
      have hins0 : ins = false := by simpa [e] using hins
      subst hins0
      simp only [unsScanBody, e1, e2, e', Option.bind_eq_bind, Option.bind_some, Option.pure_def,
        decide_false, if_true, Bool.false_eq_true, if_false, Bool.false_and]

theorem unsScan_refines (k : Nat) (c0 : Clu) (w : c0.WF) (i j : Nat) (hi : i < c0.n)
    (hjn : j < c0.n) (hji : j ≠ i)
    (harc : i ∈ c0.adjOf j ∨ (j ∈ c0.adjOf i ∧ c0.densOf j = c0.densOf i))
    (sg : KSG) (d : Clu) (r : KRel true sg d) (s : Cluster.SInv c0 d) (pl : PL k d) :
    ∃ a', Py.forRange (σ := Bool × KSG) (k : Int) (unsScanBody (i : Int) (j : Int)) (true, sg) =
        some a' ∧
      KRel true a'.2 ((List.range k).foldl (Cluster.unsStep i j) (d, true)).1 ∧
      Cluster.SInv c0 ((List.range k).foldl (Cluster.unsStep i j) (d, true)).1 ∧
      PL k ((List.range k).foldl (Cluster.unsStep i j) (d, true)).1 := by
  obtain ⟨a', e, _, r2, r3, r4⟩ := forRange_refines
    (fun (_ : Nat) (a : Bool × KSG) (b : Clu × Bool) =>
      a.1 = b.2 ∧ KRel true a.2 b.1 ∧ Cluster.SInv c0 b.1 ∧ PL k b.1)
    (unsScanBody (i : Int) (j : Int)) (Cluster.unsStep i j) k
    (by
      rintro l hl ⟨ins, sg1⟩ b ⟨h1, h2, h3, h4⟩
      simp only at h1 h2
      subst h1
      obtain ⟨a1, k1, k2, k3, k4, k5⟩ := unsScan_step k c0 w i j hi hjn hji harc l hl sg1 b h2 h3 h4
      exact ⟨a1, k1, k2, k3, k4, k5⟩)
    (true, sg) (d, true) ⟨rfl, r, s, pl⟩
  exact ⟨a', e, r2, r3, r4⟩

/-! ### one position of the list of `i`, the list, all nodes -/

theorem unsPos_step (k : Nat) (c0 : Clu) (w : c0.WF) (i : Nat) (hi : i < c0.n) (pos : Nat)
    (hpos : pos < k) (sg : KSG) (d : Clu) (r : KRel true sg d) (s : Cluster.SInv c0 d)
    (pl : PL k d) :
    ∃ sg', unsPosBody (k : Int) (i : Int) (pos : Int) sg = some sg' ∧
      KRel true sg' (symUnsInner k d i pos) ∧ Cluster.SInv c0 (symUnsInner k d i pos) ∧
      PL k (symUnsInner k d i pos) := by
  have wd : d.WF := s.wf w
  have hn : d.n = c0.n := s.frame.n
  have hid : i < d.n := by rw [hn]; exact hi
  have hlen : pos < (d.adjOf i).length := by have := pl i hid; omega
  have hget := getD_eq_getElem (d.adjOf i) pos hlen
  have hmem : (d.adjOf i)[pos] ∈ d.adjOf i := List.getElem_mem hlen
  obtain ⟨hjn, hji⟩ := wd.adj_lt i hid _ hmem
  have e1 := r.idx_adj hid
  have e2 := idx_aInt (d.adjOf i) pos hlen
  have e3 := r.idx_density hid
  have e4 := r.idx_density hjn
  rw [Cluster.symUnsInner_eq]
  simp only [hget]
  generalize (d.adjOf i)[pos] = j at hjn hji hmem e2 e4
  by_cases hd : d.densOf i = d.densOf j
  · rw [if_pos hd]
    have hd0 : c0.densOf i = c0.densOf j := by rw [← s.frame.densOf, ← s.frame.densOf]; exact hd
    obtain ⟨_, harc⟩ := s.entry hi hmem hd0
    obtain ⟨a', e5, r5, s5, p5⟩ := unsScan_refines k c0 w i j hi (by rw [← hn]; exact hjn) hji harc
      sg d r s pl
    refine ⟨a'.2, ?_, r5, s5, p5⟩
    simp only [unsPosBody, e1, e2, e3, e4, e5, hd, Option.bind_eq_bind, Option.bind_some,
      Option.pure_def, decide_true, if_true]
  · rw [if_neg hd]
    refine ⟨sg, ?_, r, s, pl⟩
    simp only [unsPosBody, e1, e2, e3, e4, hd, Option.bind_eq_bind, Option.bind_some,
      Option.pure_def, decide_false, if_false, Bool.false_eq_true]

theorem unsOuter_step (k : Nat) (c0 : Clu) (w : c0.WF) (i : Nat) (hi : i < c0.n) (sg : KSG)
    (d : Clu) (r : KRel true sg d) (s : Cluster.SInv c0 d) (pl : PL k d) :
    ∃ sg', unsOuter (k : Int) (i : Int) sg = some sg' ∧
      KRel true sg' ((List.range k).foldl (fun c pos => symUnsInner k c i pos) d) ∧
      Cluster.SInv c0 ((List.range k).foldl (fun c pos => symUnsInner k c i pos) d) ∧
      PL k ((List.range k).foldl (fun c pos => symUnsInner k c i pos) d) := by
  obtain ⟨a', e, r2, r3, r4⟩ := forRange_refines
    (fun (_ : Nat) (a : KSG) (b : Clu) => KRel true a b ∧ Cluster.SInv c0 b ∧ PL k b)
    (unsPosBody (k : Int) (i : Int)) (fun c pos => symUnsInner k c i pos) k
    (fun pos hpos a b hab => unsPos_step k c0 w i hi pos hpos a b hab.1 hab.2.1 hab.2.2)
    sg d ⟨r, s, pl⟩
  refine ⟨a', ?_, r2, r3, r4⟩
  simp only [unsOuter, e, Option.bind_eq_bind, Option.bind_some, Option.pure_def]

/-- the symmetrisation pass of `UnsupervisedOPF._clustering`. -/
theorem symUns_refines (k : Nat) (sg : KSG) (c : Clu) (r : KRel true sg c) (w : c.WF)
    (hlong : ∀ i, i < c.n → c.nplat.getD i 0 + k ≤ (c.adjOf i).length) :
    ∃ sg', Py.forRange (σ := KSG) sg.n_nodes (unsOuter (k : Int)) sg = some sg' ∧
      KRel true sg' (symUns k c) ∧ Cluster.SInv c (symUns k c) ∧ PL k (symUns k c) := by
  rw [r.n]
  exact forRange_refines
    (fun (_ : Nat) (a : KSG) (b : Clu) => KRel true a b ∧ Cluster.SInv c b ∧ PL k b)
    (unsOuter (k : Int))
    (fun c i => (List.range k).foldl (fun c pos => symUnsInner k c i pos) c) c.n
    (fun i hi a b hab => unsOuter_step k c w i hi a b hab.1 hab.2.1 hab.2.2)
    sg c ⟨r, Cluster.SInv.refl w, hlong⟩

end Opf.ClusRefineAux
