/-
Plateau symmetrisation of the translated `KNNSupervisedOPF._clustering` against `symKnn`.
The loop bodies of the generated text are copied under names (`ClusRefineKnn.knn_eq` is `rfl` against
the generated function).
-/
import OpfVerif.Lemmas.ClusRefineBase
set_option linter.unusedVariables false
set_option linter.unusedSimpArgs false
namespace Opf.ClusRefineAux
open Opf Opf.Gen Opf.Gen.ClusImp

def scanCond (sg : KSG) (t2005 : Int) : Bool × Int → Option Bool :=
                (fun (insert, t2006) => (do
                  let t2007 ← Py.idx sg.adjacency t2005
                  pure (decide (t2006 < (t2007.size : Int)))))

def scanBody (sg : KSG) (i t2005 : Int) : Bool × Int → Option (Bool × Int) :=
                (fun (insert, t2006) => (do
                  let t2008 ← Py.idx sg.adjacency t2005
                  let l ← Py.idx t2008 t2006
                  let t2006 := t2006 + 1
                  let l := l
                  let insert ← (if (decide (i = l)) then (do
                      let insert := false
                      pure insert) else (do
                      pure insert))
                  pure (insert, t2006)))

def symCond (t2001 : Int) : KSG × Int → Option Bool :=
        (fun (sg, t2002) => (do
          let t2011 ← Py.idx sg.adjacency t2001
          pure (decide (t2002 < (t2011.size : Int)))))

def symBody (i t2001 : Int) : KSG × Int → Option (KSG × Int) :=
        (fun (sg, t2002) => (do
          let t2012 ← Py.idx sg.adjacency t2001
          let j ← Py.idx t2012 t2002
          let t2002 := t2002 + 1
          let j := j
          let t2003 ← Py.idx sg.density i
          let t2004 ← Py.idx sg.density j
          let sg ← (if (decide (t2003 = t2004)) then (do
              let insert := true
              let t2005 := j
              let (insert, t2006) ← Py.whileM (σ := Bool × Int) (scanCond sg t2005) (scanBody sg i t2005)
                (insert, (0 : Int))
              let sg ← (if insert then (do
                  let t2009 ← Py.idx sg.adjacency j
                  let t2010 ← Py.setIdx sg.adjacency j (#[i] ++ t2009)
                  let sg := { sg with adjacency := t2010 }
                  pure sg) else (do
                  pure sg))
              pure sg) else (do
              pure sg))
          pure (sg, t2002)))

def symOuter : Int → KSG → Option KSG :=
    (fun i sg => (do
      let t2001 := i
      let (sg, t2002) ← Py.whileM (σ := KSG × Int) (symCond t2001) (symBody i t2001) (sg, (0 : Int))
      pure sg))

/-! ### the innermost scan: `insert = all(l != i for l in adjacency[j])` -/

theorem foldl_and (i : Nat) (L : List Nat) (b : Bool) :
    L.foldl (fun b l => b && decide (l ≠ i)) b = (b && L.all (fun l => decide (l ≠ i))) := by
  induction L generalizing b with
  | nil => simp
  | cons a L ih => rw [List.foldl_cons, ih, List.all_cons, Bool.and_assoc]

theorem scan_refines (sg : KSG) (i j : Nat) (L : List Nat)
    (hadj : Py.idx sg.adjacency (j : Int) = some (aInt L)) :
    Py.whileM (scanCond sg (j : Int)) (scanBody sg (i : Int) (j : Int)) (true, (0 : Int)) =
      some (L.all (fun l => decide (l ≠ i)), (L.length : Int)) := by
  obtain ⟨a', e, r⟩ := whileM_list_refines
    (fun (it : Nat) (a : Bool × Int) (b : Bool) => a = (b, (it : Int))) L
    (scanCond sg (j : Int)) (scanBody sg (i : Int) (j : Int)) (fun b l => b && decide (l ≠ i))
    (by
      intro it a b h
      subst h
      simp only [scanCond, hadj, Option.bind_eq_bind, Option.bind_some, Option.pure_def, aInt_size,
        Int.ofNat_lt])
    (by
      intro it a b hlt h
      subst h
      refine ⟨_, ?_, rfl⟩
      simp only [scanBody, hadj, idx_aInt L it hlt, Option.bind_eq_bind, Option.bind_some,
        Option.pure_def]
      by_cases e : i = L[it]
      · have e' : L[it] = i := e.symm
        simp [e']
      · have e1 : ¬ ((i : Int) = (L[it] : Int)) := by omega
        have e2 : ¬ (L[it] = i) := fun h => e h.symm
        simp [e1, e2])
    L.length 0 (by omega) (true, (0 : Int)) true rfl
  rw [e, r, List.drop_zero, foldl_and, Bool.true_and]

/-! ### one entry `j` of the list of `i` -/

theorem symKnnInner_adjOf_self (d : Clu) (i j : Nat) (hji : j ≠ i) :
    (symKnnInner d i j).adjOf i = d.adjOf i := by
  rw [Cluster.symKnnInner_eq]
  split
  · split
    · rw [Cluster.insArc_adjOf, if_neg (fun a => hji a.1.symm)]
    · rfl
  · rfl

theorem symBody_step {u : Bool} (c0 d : Clu) (w : c0.WF) (s : Cluster.SInv c0 d) (sg : KSG)
    (r : KRel u sg d) (i : Nat) (hi : i < c0.n) (it : Nat) (hit : it < (d.adjOf i).length) :
    ∃ sg', symBody (i : Int) (i : Int) (sg, (it : Int)) = some (sg', ((it + 1 : Nat) : Int)) ∧
      KRel u sg' (symKnnInner d i (d.adjOf i)[it]) ∧
      Cluster.SInv c0 (symKnnInner d i (d.adjOf i)[it]) ∧
      (symKnnInner d i (d.adjOf i)[it]).adjOf i = d.adjOf i := by
  have wd : d.WF := s.wf w
  have hn : d.n = c0.n := s.frame.n
  have hid : i < d.n := by rw [hn]; exact hi
  have hmem : (d.adjOf i)[it] ∈ d.adjOf i := List.getElem_mem hit
  obtain ⟨hjn, hji⟩ := wd.adj_lt i hid _ hmem
  generalize hj : (d.adjOf i)[it] = j at hjn hji hmem
  have s' : Cluster.SInv c0 (symKnnInner d i j) := Cluster.symKnnInner_inv s hi (s.entries hi j hmem)
  have e1 := r.idx_adj hid
  have e2 : Py.idx (aInt (d.adjOf i)) (it : Int) = some (j : Int) := by rw [idx_aInt _ _ hit, hj]
  have e3 := r.idx_density hid
  have e4 := r.idx_density hjn
  have hcast : ((it : Int) + 1) = ((it + 1 : Nat) : Int) := by omega
  have e5 := scan_refines sg i j (d.adjOf j) (r.idx_adj hjn)
  have e6 := r.idx_adj hjn
  have e7 : Py.setIdx sg.adjacency (j : Int) (aInt (i :: d.adjOf j)) =
      some (sg.adjacency.setIfInBounds j (aInt (i :: d.adjOf j))) :=
    setIdx_nat _ _ _ (by rw [r.sz_adj]; exact hjn)
  have hadj := symKnnInner_adjOf_self d i j hji
  rw [Cluster.symKnnInner_eq] at s' hadj ⊢
  by_cases hd : d.densOf i = d.densOf j
  · rw [if_pos hd] at s' hadj ⊢
    by_cases ha : (d.adjOf j).all (fun l => decide (l ≠ i)) = true
    · rw [if_pos ha] at s' hadj ⊢
      refine ⟨_, ?_, r.set_adj wd.size_adj hjn (i :: d.adjOf j), s', hadj⟩
      simp only [symBody, e1, e2, e3, e4, e5, e6, e7, hd, ha, aInt_cons, hcast, Option.bind_eq_bind,
        Option.bind_some, Option.pure_def, decide_true, if_true, if_pos]
    · rw [if_neg ha] at s' hadj ⊢
      refine ⟨sg, ?_, r, s', hadj⟩
      simp only [symBody, e1, e2, e3, e4, e5, e6, e7, hd, ha, aInt_cons, hcast, Option.bind_eq_bind,
        Option.bind_some, Option.pure_def, decide_true, if_true, if_false, Bool.false_eq_true]
  · rw [if_neg hd] at s' hadj ⊢
    refine ⟨sg, ?_, r, s', hadj⟩
    simp only [symBody, e1, e2, e3, e4, hd, hcast, Option.bind_eq_bind,
      Option.bind_some, Option.pure_def, decide_false, if_false, Bool.false_eq_true]

/-! ### the list of `i`, all nodes -/

theorem symCond_eq {u : Bool} (sg : KSG) (d : Clu) (r : KRel u sg d) (i : Nat) (hi : i < d.n)
    (it : Nat) :
    symCond (i : Int) (sg, (it : Int)) = some (decide (it < (d.adjOf i).length)) := by
  simp only [symCond, r.idx_adj hi, Option.bind_eq_bind, Option.bind_some, Option.pure_def,
    aInt_size, Int.ofNat_lt]

theorem symOuter_step {u : Bool} (c0 d : Clu) (w : c0.WF) (s : Cluster.SInv c0 d) (sg : KSG)
    (r : KRel u sg d) (i : Nat) (hi : i < c0.n) :
    ∃ sg', symOuter (i : Int) sg = some sg' ∧
      KRel u sg' ((d.adjOf i).foldl (fun d j => symKnnInner d i j) d) ∧
      Cluster.SInv c0 ((d.adjOf i).foldl (fun d j => symKnnInner d i j) d) := by
  obtain ⟨a', e, r1, r2, r3, _⟩ := whileM_list_refines
    (fun (it : Nat) (a : KSG × Int) (b : Clu) =>
      a.2 = (it : Int) ∧ KRel u a.1 b ∧ Cluster.SInv c0 b ∧ b.adjOf i = d.adjOf i) (d.adjOf i)
    (symCond (i : Int)) (symBody (i : Int) (i : Int)) (fun d j => symKnnInner d i j)
    (by
      rintro it ⟨sg1, t⟩ b ⟨h1, h2, h3, h4⟩
      simp only at h1 h2
      subst h1
      rw [symCond_eq sg1 b h2 i (by rw [h3.frame.n]; exact hi), h4])
    (by
      rintro it ⟨sg1, t⟩ b hlt ⟨h1, h2, h3, h4⟩
      simp only at h1 h2
      subst h1
      obtain ⟨sg2, e2, r2, s2, a2⟩ := symBody_step c0 b w h3 sg1 h2 i hi it (by rw [h4]; exact hlt)
      simp only [h4] at e2 r2 s2 a2
      exact ⟨_, e2, rfl, r2, s2, a2⟩)
    (d.adjOf i).length 0 (by omega) (sg, (0 : Int)) d ⟨rfl, r, s, rfl⟩
  rw [List.drop_zero] at r2 r3
  refine ⟨a'.1, ?_, r2, r3⟩
  simp only [symOuter, e, Option.bind_eq_bind, Option.bind_some, Option.pure_def]

/-- the symmetrisation pass of `KNNSupervisedOPF._clustering`. -/
theorem symKnn_refines {u : Bool} (sg : KSG) (c : Clu) (r : KRel u sg c) (w : c.WF) :
    ∃ sg', Py.forRange (σ := KSG) sg.n_nodes symOuter sg = some sg' ∧ KRel u sg' (symKnn c) := by
  rw [r.n]
  obtain ⟨sg', e, r', _⟩ := forRange_refines
    (fun (_ : Nat) (a : KSG) (b : Clu) => KRel u a b ∧ Cluster.SInv c b) symOuter
    (fun d i => (d.adjOf i).foldl (fun d j => symKnnInner d i j) d) c.n
    (fun k hk a b hab => symOuter_step c b w hab.2 a hab.1 k hk)
    sg c ⟨r, Cluster.SInv.refl w⟩
  exact ⟨sg', e, r'⟩

end Opf.ClusRefineAux
