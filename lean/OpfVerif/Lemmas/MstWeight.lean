/-
A purely combinatorial lower bound used for the minimum-total-weight statement of C02
(`Props/C02Weight.lean`).

Setting: nodes `0..n`, a list `E` of exactly `n` weighted arcs `(a, b, x)` (arc `{a,b}` carrying the
weight `x`) that connects all of `0..n` — i.e. a spanning tree given as "connected with `n` arcs on
`n+1` nodes".  A sequence of thresholds `c 1 .. c n` is attached to the nested cuts
`S_k = {0..k-1} | {k..n}`, and every arc is assumed to be at least as heavy as the threshold of each
cut it crosses (`{a,b}` crosses `S_k` iff `min a b < k ≤ max a b`).  Then

    c 1 + … + c n ≤ total weight of E.

Proof: induction on `n`.  Node `n+1` has a neighbour; let `m` be its LARGEST neighbour below `n+1`.
The arc `{m, n+1}` crosses `S_{n+1}`, so it pays for `c (n+1)`.  Remove it and contract `n+1` into `m`:
every other arc `{a, n+1}` becomes `{a, m}` with `a ≤ m`, which crosses only cuts that `{a, n+1}`
crossed, so the hypothesis is preserved with the SAME weights; connectivity is preserved by any
contraction; the arc count drops by one.  No acyclicity argument is needed.
-/
import Mathlib.Logic.Relation
import Mathlib.Data.List.Perm.Basic
import Mathlib.Data.List.Range
import Mathlib.Algebra.BigOperators.Group.List.Basic

namespace Opf.MstWeight

/-- a weighted undirected arc `(a, b, x)`. -/
abbrev WEdge := Nat × Nat × Int

/-- `u` and `v` are joined by an arc of `E` (either orientation). -/
def WAdj (E : List WEdge) (u v : Nat) : Prop := ∃ x, (u, v, x) ∈ E ∨ (v, u, x) ∈ E

/-- `v` is connected to node `0` through arcs of `E`. -/
def WReach (E : List WEdge) (v : Nat) : Prop := Relation.ReflTransGen (WAdj E) 0 v

/-- total weight of an arc list. -/
def wsum (E : List WEdge) : Int := (E.map (fun e => e.2.2)).sum

/-- `c 1 + … + c n`. -/
def csum (c : Nat → Int) (n : Nat) : Int := ((List.range n).map (fun k => c (k + 1))).sum

theorem csum_succ (c : Nat → Int) (n : Nat) : csum c (n + 1) = csum c n + c (n + 1) := by
  simp [csum, List.range_succ, List.sum_append]

/-- the last step into `b` of a path from `a ≠ b` can be taken from a node different from `b`. -/
theorem last_proper_step {α : Type} {r : α → α → Prop} {a b : α}
    (h : Relation.ReflTransGen r a b) (hne : a ≠ b) : ∃ c, c ≠ b ∧ r c b := by
  induction h with
  | refl => exact absurd rfl hne
  | @tail b' b _ hr ih =>
    by_cases hb : b' = b
    · subst hb; exact ih hne
    · exact ⟨b', hb, hr⟩

/-- paths are preserved by any map that sends arcs to paths. -/
theorem rtg_lift {α β : Type} {r : α → α → Prop} {p : β → β → Prop} (f : α → β)
    (h : ∀ a b, r a b → Relation.ReflTransGen p (f a) (f b)) {a b : α}
    (hab : Relation.ReflTransGen r a b) : Relation.ReflTransGen p (f a) (f b) := by
  induction hab with
  | refl => exact .refl
  | tail _ hr ih => exact ih.trans (h _ _ hr)

/-- a bounded non-empty set of naturals has a largest element. -/
theorem exists_max (Q : Nat → Prop) : ∀ N, (∃ a, a ≤ N ∧ Q a) →
    ∃ m, m ≤ N ∧ Q m ∧ ∀ a, a ≤ N → Q a → a ≤ m := by
  intro N
  induction N with
  | zero =>
    rintro ⟨a, ha, hq⟩
    have : a = 0 := by omega
    subst this
    exact ⟨0, Nat.le_refl _, hq, fun a ha _ => ha⟩
  | succ N ih =>
    rintro ⟨a, ha, hq⟩
    by_cases hN : Q (N + 1)
    · exact ⟨N + 1, Nat.le_refl _, hN, fun a ha _ => ha⟩
    · have ha' : a ≤ N := by
        rcases Nat.lt_or_ge a (N + 1) with h | h
        · omega
        · have : a = N + 1 := by omega
          subst this; exact absurd hq hN
      obtain ⟨m, hm, hqm, hmax⟩ := ih ⟨a, ha', hq⟩
      refine ⟨m, by omega, hqm, fun b hb hqb => ?_⟩
      rcases Nat.lt_or_ge b (N + 1) with h | h
      · exact hmax b (by omega) hqb
      · have : b = N + 1 := by omega
        subst this; exact absurd hqb hN

/-- contraction of node `t` into node `m`. -/
def ctr (t m : Nat) (v : Nat) : Nat := if v = t then m else v

def ctrE (t m : Nat) (e : WEdge) : WEdge := (ctr t m e.1, ctr t m e.2.1, e.2.2)

theorem wsum_map_ctrE (t m : Nat) (E : List WEdge) : wsum (E.map (ctrE t m)) = wsum E := by
  simp [wsum, List.map_map, Function.comp_def, ctrE]

/-- **Nested-cut bound.**  `n` weighted arcs connecting the nodes `0..n`, each at least as heavy as
the threshold `c k` of every cut `{0..k-1} | {k..n}` it crosses, weigh at least `c 1 + … + c n`. -/
theorem nested_cut_bound (c : Nat → Int) : ∀ (n : Nat) (E : List WEdge),
    E.length = n →
    (∀ e ∈ E, e.1 ≤ n ∧ e.2.1 ≤ n) →
    (∀ e ∈ E, ∀ k, min e.1 e.2.1 < k → k ≤ max e.1 e.2.1 → c k ≤ e.2.2) →
    (∀ v, v ≤ n → WReach E v) →
    csum c n ≤ wsum E := by
  intro n
  induction n with
  | zero =>
    intro E hlen _ _ _
    have : E = [] := List.length_eq_zero_iff.1 hlen
    subst this
    simp [csum, wsum]
  | succ n ih =>
    intro E hlen hend hcut hconn
    -- node `n+1` has a neighbour below it
    have hreach : WReach E (n + 1) := hconn (n + 1) (Nat.le_refl _)
    obtain ⟨b, hbne, hbadj⟩ := last_proper_step hreach (by omega)
    have hb_le : b ≤ n := by
      obtain ⟨x, hx | hx⟩ := hbadj
      · have := (hend _ hx).1; simp at this; omega
      · have := (hend _ hx).2; simp at this; omega
    -- the largest one
    obtain ⟨m, hm_le, hm_adj, hm_max⟩ :=
      exists_max (fun a => WAdj E a (n + 1)) n ⟨b, hb_le, hbadj⟩
    -- an arc `e0` joining `m` and `n+1`
    obtain ⟨x0, hx0⟩ := hm_adj
    obtain ⟨e0, he0, he0_ends, he0_w⟩ : ∃ e0 : WEdge, e0 ∈ E ∧
        ((e0.1 = m ∧ e0.2.1 = n + 1) ∨ (e0.1 = n + 1 ∧ e0.2.1 = m)) ∧ e0.2.2 = x0 := by
      rcases hx0 with h | h
      · exact ⟨_, h, Or.inl ⟨rfl, rfl⟩, rfl⟩
      · exact ⟨_, h, Or.inr ⟨rfl, rfl⟩, rfl⟩
    have hc0 : c (n + 1) ≤ e0.2.2 := by
      apply hcut e0 he0 (n + 1)
      · rcases he0_ends with ⟨h1, h2⟩ | ⟨h1, h2⟩ <;> rw [h1, h2] <;> omega
      · rcases he0_ends with ⟨h1, h2⟩ | ⟨h1, h2⟩ <;> rw [h1, h2] <;> omega
    have hperm : E.Perm (e0 :: E.erase e0) := List.perm_cons_erase he0
    have hsplit : ∀ e, e ∈ E → e = e0 ∨ e ∈ E.erase e0 := by
      intro e he
      have := hperm.mem_iff.1 he
      simpa using this
    -- the contracted arc list
    let E' : List WEdge := (E.erase e0).map (ctrE (n + 1) m)
    have hlen' : E'.length = n := by
      simp only [E', List.length_map, List.length_erase_of_mem he0, hlen]; rfl
    have hctr_le : ∀ a, a ≤ n + 1 → ctr (n + 1) m a ≤ n := by
      intro a ha; unfold ctr; split <;> omega
    have hend' : ∀ e ∈ E', e.1 ≤ n ∧ e.2.1 ≤ n := by
      intro e he
      obtain ⟨e1, he1, rfl⟩ := List.mem_map.1 he
      have := hend e1 (List.mem_of_mem_erase he1)
      exact ⟨hctr_le _ this.1, hctr_le _ this.2⟩
    have hcut' : ∀ e ∈ E', ∀ k, min e.1 e.2.1 < k → k ≤ max e.1 e.2.1 → c k ≤ e.2.2 := by
      intro e he k hk1 hk2
      obtain ⟨e1, he1, rfl⟩ := List.mem_map.1 he
      have he1E : e1 ∈ E := List.mem_of_mem_erase he1
      have hends := hend e1 he1E
      -- neighbours of `n+1` are at most `m`
      have hnb1 : e1.1 = n + 1 → e1.2.1 ≤ n → e1.2.1 ≤ m := fun h1 h2 =>
        hm_max _ h2 ⟨e1.2.2, Or.inr (by rw [← h1]; exact he1E)⟩
      have hnb2 : e1.2.1 = n + 1 → e1.1 ≤ n → e1.1 ≤ m := fun h1 h2 =>
        hm_max _ h2 ⟨e1.2.2, Or.inl (by rw [← h1]; exact he1E)⟩
      have hk : min e1.1 e1.2.1 < k ∧ k ≤ max e1.1 e1.2.1 := by
        simp only [ctrE, ctr] at hk1 hk2
        by_cases h1 : e1.1 = n + 1 <;> by_cases h2 : e1.2.1 = n + 1
        · simp only [h1, h2, ↓reduceIte] at hk1 hk2; omega
        · have := hnb1 h1 (by omega)
          simp only [h1, h2, ↓reduceIte] at hk1 hk2; omega
        · have := hnb2 h2 (by omega)
          simp only [h1, h2, ↓reduceIte] at hk1 hk2; omega
        · simp only [h1, h2, ↓reduceIte] at hk1 hk2; omega
      exact hcut e1 he1E k hk.1 hk.2
    have hconn' : ∀ v, v ≤ n → WReach E' v := by
      intro v hv
      have hstep : ∀ a b, WAdj E a b →
          Relation.ReflTransGen (WAdj E') (ctr (n + 1) m a) (ctr (n + 1) m b) := by
        intro a b hab
        -- symmetric helper: an arc `(a, b, x)` of `E`, in this orientation
        have key : ∀ a b x, (a, b, x) ∈ E →
            ctr (n + 1) m a = ctr (n + 1) m b ∨
            (ctr (n + 1) m a, ctr (n + 1) m b, x) ∈ E' := by
          intro a b x hx
          rcases hsplit _ hx with h | h
          · left
            rcases he0_ends with ⟨h1, h2⟩ | ⟨h1, h2⟩
            · rw [← h] at h1 h2; simp only at h1 h2
              subst h1 h2; simp [ctr]
            · rw [← h] at h1 h2; simp only at h1 h2
              subst h1 h2; simp [ctr]
          · right
            exact List.mem_map.2 ⟨_, h, rfl⟩
        obtain ⟨x, hx | hx⟩ := hab
        · rcases key a b x hx with h | h
          · rw [h]
          · exact Relation.ReflTransGen.single ⟨x, Or.inl h⟩
        · rcases key b a x hx with h | h
          · rw [h]
          · exact Relation.ReflTransGen.single ⟨x, Or.inr h⟩
      have h := rtg_lift (ctr (n + 1) m) hstep (hconn v (by omega))
      have h0 : ctr (n + 1) m 0 = 0 := by simp [ctr]
      have hv' : ctr (n + 1) m v = v := by unfold ctr; rw [if_neg (by omega)]
      rw [h0, hv'] at h
      exact h
    have hIH := ih E' hlen' hend' hcut' hconn'
    have hw : wsum E = e0.2.2 + wsum E' := by
      have h1 : wsum E = wsum (e0 :: E.erase e0) := by
        unfold wsum; exact (hperm.map _).sum_eq
      rw [h1, wsum_map_ctrE]
      simp [wsum]
    rw [csum_succ, hw]
    omega

end Opf.MstWeight
