/-
Definedness of the expression language of `Model/Expr.lean` in the real-number model.

`Lemmas/ExprReal.lean` interprets the numpy expressions with Lean's TOTAL operations
(`x / 0 = 0`, `Real.log` of a non-positive number and `Real.sqrt` of a negative number are junk
values).  `V.Defined` / `S.Defined` is the side condition under which none of these conventions is
ever used: every denominator met during the evaluation is non-zero, every argument of a logarithm
is positive and every radicand is non-negative.  When `e.Defined u v` holds, the number
`e.evalR u v` IS the mathematical value of the expression (the genuine partial operations are all
applied inside their domains), in particular it is a finite real number obtained without any
division by zero / `log` of a non-positive / `sqrt` of a negative.

`Prop`-valued structural recursion, no decidability needed.  For `iteGe0 c a b` (numpy's masked
assignment, Hassanat) only the SELECTED branch has to be defined.
-/
import OpfVerif.Lemmas.ExprReal
namespace Opf

namespace V
/-- the evaluation of the element-wise expression at index `i` never leaves the domain of the
genuine (partial) division, logarithm and square root. -/
def Defined {n : Nat} (x y : Fin n → ℝ) (i : Fin n) : V → Prop
  | .x => True
  | .y => True
  | .lit _ _ => True
  | .add a b => a.Defined x y i ∧ b.Defined x y i
  | .sub a b => a.Defined x y i ∧ b.Defined x y i
  | .mul a b => a.Defined x y i ∧ b.Defined x y i
  | .div a b => a.Defined x y i ∧ b.Defined x y i ∧ b.evalR x y i ≠ 0
  | .sq a => a.Defined x y i
  | .sqrt a => a.Defined x y i ∧ 0 ≤ a.evalR x y i
  | .abs a => a.Defined x y i
  | .log a => a.Defined x y i ∧ 0 < a.evalR x y i
  | .min a b => a.Defined x y i ∧ b.Defined x y i
  | .max a b => a.Defined x y i ∧ b.Defined x y i
  | .neInd a b => a.Defined x y i ∧ b.Defined x y i
  | .iteGe0 c a b => c.Defined x y i ∧
      (0 ≤ c.evalR x y i → a.Defined x y i) ∧ (¬ 0 ≤ c.evalR x y i → b.Defined x y i)
end V

namespace S
/-- the evaluation of the scalar expression never leaves the domain of the genuine (partial)
division, logarithm and square root. -/
def Defined {n : Nat} (x y : Fin n → ℝ) : S → Prop
  | .lit _ _ => True
  | .len => True
  | .sum v => ∀ i : Fin n, v.Defined x y i
  | .amax v => ∀ i : Fin n, v.Defined x y i
  | .add a b => a.Defined x y ∧ b.Defined x y
  | .sub a b => a.Defined x y ∧ b.Defined x y
  | .mul a b => a.Defined x y ∧ b.Defined x y
  | .div a b => a.Defined x y ∧ b.Defined x y ∧ b.evalR x y ≠ 0
  | .neg a => a.Defined x y
  | .sq a => a.Defined x y
  | .sqrt a => a.Defined x y ∧ 0 ≤ a.evalR x y
  | .log a => a.Defined x y ∧ 0 < a.evalR x y
  | .exp a => a.Defined x y
  | .min a b => a.Defined x y ∧ b.Defined x y
  | .max a b => a.Defined x y ∧ b.Defined x y
end S

/-- the selected-branch clause of `iteGe0`, in `if` form. -/
theorem V.defined_iteGe0_iff {n : Nat} (x y : Fin n → ℝ) (i : Fin n) (c a b : V) :
    (V.iteGe0 c a b).Defined x y i ↔
      c.Defined x y i ∧ (if 0 ≤ c.evalR x y i then a.Defined x y i else b.Defined x y i) := by
  simp only [V.Defined]
  by_cases h : 0 ≤ c.evalR x y i <;> simp [h]

end Opf
