/-
Helper lemmas for `Props/C18Chain.lean`: the rows a translated converter decodes, seen as the integer matrix `parse_loader`
receives (`encS`, `asMatrix`), have the label in column 1 and the float32 bit patterns in columns 2… .
-/
import OpfVerif.Props.C18ConvRefine
import OpfVerif.Props.C18ParseRefine
namespace Opf.C18Chain
open Opf Opf.Gen Opf.ConvRefine Opf.ParseRefine

/-- a decoded value as the number `parse_loader` sees (feature columns are opaque to it). -/
def encS : PyS.SVal → Int
  | .int i => i
  | .f32 b => (b.toNat : Int)

/-- the matrix a loader hands to `parse_loader` for the rows a converter wrote. -/
def asMatrix (rows : Array (Array PyS.SVal)) : Array (Array Int) := rows.map (fun r => r.map encS)

/-- one row, encoded: identifier, label, then the bit patterns. -/
theorem rowOf_map_encS (s : OpfSample) :
    (rowOf s).map encS = #[s.id, s.label] ++ (s.feats.map (fun b => (b.toNat : Int))).toArray := by
  apply Array.toList_inj.mp
  simp [rowOf, encS, Function.comp_def]

theorem rowOf_map_encS_size (s : OpfSample) : 2 ≤ ((rowOf s).map encS).size := by
  rw [rowOf_map_encS]; simp

theorem rowOf_map_encS_label (s : OpfSample) : ((rowOf s).map encS).getD 1 0 = s.label := by
  rw [rowOf_map_encS]; simp [Array.getD]

theorem rowOf_map_encS_feats (s : OpfSample) :
    ((rowOf s).map encS).extract 2 ((rowOf s).map encS).size =
      (s.feats.map (fun b => (b.toNat : Int))).toArray := by
  rw [rowOf_map_encS]
  apply Array.toList_inj.mp
  simp
  exact List.take_of_length_le (by simp)

theorem asMatrix_rows (ss : List OpfSample) :
    asMatrix (ss.map rowOf).toArray = (ss.map (fun s => (rowOf s).map encS)).toArray := by
  simp [asMatrix, Function.comp_def]

theorem asMatrix_rows_size (ss : List OpfSample) : ∀ row ∈ asMatrix (ss.map rowOf).toArray, 2 ≤ row.size := by
  intro row hrow
  rw [asMatrix_rows] at hrow
  simp only [List.mem_toArray, List.mem_map] at hrow
  obtain ⟨s, _, rfl⟩ := hrow
  exact rowOf_map_encS_size s

theorem labelCol_asMatrix (ss : List OpfSample) :
    labelCol (asMatrix (ss.map rowOf).toArray) = ss.map (·.label) := by
  rw [asMatrix_rows]
  simp only [labelCol, List.map_map]
  apply List.map_congr_left
  intro s _
  exact rowOf_map_encS_label s

theorem feats_asMatrix (ss : List OpfSample) :
    (asMatrix (ss.map rowOf).toArray).map (fun r => r.extract 2 r.size) =
      (ss.map (fun s => (s.feats.map (fun b => (b.toNat : Int))).toArray)).toArray := by
  rw [asMatrix_rows]
  simp only [List.map_toArray, List.map_map]
  congr 1
  apply List.map_congr_left
  intro s _
  exact rowOf_map_encS_feats s

/-- `parse_loader` on the rows of a list of samples. -/
theorem parse_rows (ss : List OpfSample) :
    ParseImp.parse_loader (asMatrix (ss.map rowOf).toArray) =
      if parseAccept (ss.map (·.label)) then
        some ((ss.map (fun s => (s.feats.map (fun b => (b.toNat : Int))).toArray)).toArray, (ss.map (·.label)).toArray)
      else none := by
  rw [c18_gen_parse _ (asMatrix_rows_size ss), labelCol_asMatrix, feats_asMatrix]

theorem parse_rows_accept (ss : List OpfSample)
    (hK : ∃ K : Nat, ∀ v : Int, v ∈ ss.map (·.label) ↔ (0 ≤ v ∧ v < K)) :
    ParseImp.parse_loader (asMatrix (ss.map rowOf).toArray) =
      some ((ss.map (fun s => (s.feats.map (fun b => (b.toNat : Int))).toArray)).toArray, (ss.map (·.label)).toArray) := by
  rw [parse_rows, if_pos ((c18_parse_accepts_iff _).mpr hK)]

theorem parse_rows_reject (ss : List OpfSample)
    (hK : ¬ ∃ K : Nat, ∀ v : Int, v ∈ ss.map (·.label) ↔ (0 ≤ v ∧ v < K)) :
    ParseImp.parse_loader (asMatrix (ss.map rowOf).toArray) = none := by
  rw [parse_rows, if_neg (fun h => hK ((c18_parse_accepts_iff _).mp h))]

end Opf.C18Chain
