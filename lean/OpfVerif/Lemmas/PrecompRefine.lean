/-
`pre_compute_distance` (`Gen/PrecompImp.lean`, regenerated from `opfython/math/general.py` on every run
by `tools/translate_np.py`): the matrix handed to `np.savetxt` holds the metric on EVERY ORDERED pair
of rows — row `i`, column `j` is `d(data[i], data[j])`, nothing mirrored, nothing skipped, the diagonal
included — and the delimiter is the comma for `.csv` files (what `load_csv` expects; defect F4).
-/
import OpfVerif.Gen.PrecompImp
namespace Opf.PrecompRefine
open Opf Opf.Gen Opf.Gen.PrecompImp

theorem idx_nat {α : Type} (a : Array α) (k : Nat) : Py.idx a (k : Int) = a[k]? := by
  unfold Py.idx Py.resolve
  by_cases h : k < a.size
  · simp [h]
  · simp [h]

theorem setIdx_nat {α : Type} (a : Array α) (k : Nat) (v : α) (hk : k < a.size) :
    Py.setIdx a (k : Int) v = some (a.setIfInBounds k v) := by
  unfold Py.setIdx Py.resolve
  simp [hk]

/-- invariant rule for `for k in range(n)`. -/
theorem forRange_inv {σ : Type} (P : Nat → σ → Prop) (body : Int → σ → Option σ) (n : Nat)
    (hstep : ∀ k, k < n → ∀ a, P k a → ∃ a', body (k : Int) a = some a' ∧ P (k + 1) a')
    (a : σ) (h : P 0 a) : ∃ a', Py.forRange (n : Int) body a = some a' ∧ P n a' := by
  unfold Py.forRange
  rw [Int.toNat_natCast]
  have key : ∀ k, k ≤ n → ∃ a', (List.range k).foldlM (fun s (q : Nat) => body (q : Int) s) a = some a' ∧ P k a' := by
    intro k
    induction k with
    | zero => intro _; exact ⟨a, rfl, h⟩
    | succ k ih =>
      intro hk
      obtain ⟨a1, e1, r1⟩ := ih (by omega)
      obtain ⟨a2, e2, r2⟩ := hstep k (by omega) a1 r1
      refine ⟨a2, ?_, r2⟩
      rw [List.range_succ, List.foldlM_append, e1]
      simp only [Option.bind_eq_bind, Option.bind_some, List.foldlM_cons, List.foldlM_nil, e2]
      rfl
  exact key n (Nat.le_refl n)

/-- rows `< i` complete, and columns `< j` of row `i`. -/
def Inv (w : Nat → Nat → Int) (n i j : Nat) (M : Array (Array Int)) : Prop :=
  M.size = n ∧ ∀ a, a < n → ∃ row, M[a]? = some row ∧ row.size = n ∧
    (a < i → ∀ b, b < n → row[b]? = some (w a b)) ∧ (a = i → ∀ b, b < j → row[b]? = some (w a b))

theorem inner_step (W : Int → Int → Option Int) (w : Nat → Nat → Int) (n : Nat)
    (hW : ∀ a b : Nat, a < n → b < n → W (a : Int) (b : Int) = some (w a b))
    (i j : Nat) (hi : i < n) (hj : j < n) (M : Array (Array Int)) (h : Inv w n i j M) :
    ∃ M', (do
        let t1 ← W (i : Int) (j : Int)
        let t2 ← Py.idx M (i : Int)
        let t3 ← Py.setIdx t2 (j : Int) t1
        let t4 ← Py.setIdx M (i : Int) t3
        pure t4) = some M' ∧ Inv w n i (j + 1) M' := by
  obtain ⟨hs, hr⟩ := h
  obtain ⟨row, e1, e2, e3, e4⟩ := hr i hi
  refine ⟨M.setIfInBounds i (row.setIfInBounds j (w i j)), ?_, ?_⟩
  · rw [hW i j hi hj, idx_nat, e1]
    simp only [Option.bind_eq_bind, Option.bind_some]
    rw [setIdx_nat _ _ _ (by omega)]
    simp only [Option.bind_some]
    rw [setIdx_nat _ _ _ (by omega)]
  · refine ⟨by simp [hs], ?_⟩
    intro a ha
    by_cases e : a = i
    · subst e
      refine ⟨row.setIfInBounds j (w a j), by simp [hs, ha], by simp [e2], fun c => absurd c (by omega), ?_⟩
      intro _ b hb
      by_cases eb : b = j
      · subst eb; simp [e2, hj]
      · rw [Array.getElem?_setIfInBounds_ne (by omega)]
        exact e4 rfl b (by omega)
    · obtain ⟨r, f1, f2, f3, f4⟩ := hr a ha
      refine ⟨r, ?_, f2, f3, fun c => absurd c e⟩
      rw [Array.getElem?_setIfInBounds_ne (by omega)]; exact f1

theorem pre_compute_refines (W : Int → Int → Option Int) (w : Nat → Nat → Int) (n : Nat)
    (hW : ∀ a b : Nat, a < n → b < n → W (a : Int) (b : Int) = some (w a b)) :
    ∃ M, pre_compute_distance W (n : Int) = some M ∧ M.size = n ∧
      ∀ i, i < n → ∃ row, M[i]? = some row ∧ row.size = n ∧ ∀ j, j < n → row[j]? = some (w i j) := by
  have h0 : Inv w n 0 0 (Py.replicate (n : Int) (Py.replicate (n : Int) (0 : Int))) := by
    refine ⟨by simp [Py.replicate], ?_⟩
    intro a ha
    refine ⟨Py.replicate (n : Int) (0 : Int), by simp [Py.replicate, ha], by simp [Py.replicate],
      fun c => absurd c (by omega), fun _ b hb => absurd hb (by omega)⟩
  obtain ⟨M, eM, hM⟩ := forRange_inv (fun i M => Inv w n i 0 M)
    (fun i distances => Py.forRange (σ := Array (Array Int)) (n : Int)
      (fun j distances => (do
        let t1 ← W i j
        let t2 ← Py.idx distances i
        let t3 ← Py.setIdx t2 j t1
        let t4 ← Py.setIdx distances i t3
        pure t4))
      distances) n
    (by
      intro i hi M hM
      obtain ⟨M', e', h'⟩ := forRange_inv (fun j M => Inv w n i j M)
        (fun j distances => (do
          let t1 ← W (i : Int) j
          let t2 ← Py.idx distances (i : Int)
          let t3 ← Py.setIdx t2 j t1
          let t4 ← Py.setIdx distances (i : Int) t3
          pure t4)) n
        (fun j hj M hM => inner_step W w n hW i j hi hj M hM) M hM
      refine ⟨M', e', h'.1, ?_⟩
      intro a ha
      obtain ⟨r, f1, f2, f3, f4⟩ := h'.2 a ha
      refine ⟨r, f1, f2, ?_, fun _ b hb => absurd hb (by omega)⟩
      intro ha' b hb
      by_cases e : a = i
      · exact f4 e b hb
      · exact f3 (by omega) b hb)
    _ h0
  refine ⟨M, ?_, hM.1, ?_⟩
  · unfold pre_compute_distance
    dsimp only
    rw [eM]
  · intro i hi
    obtain ⟨r, f1, f2, f3, _⟩ := hM.2 i hi
    exact ⟨r, f1, f2, f3 hi⟩

/-- the delimiter handed to `np.savetxt`: a comma exactly when the output file is a `.csv`. -/
theorem delimiter_expr : delimiterExpr = "',' if output.split('.')[-1] == 'csv' else ' '" := rfl

end Opf.PrecompRefine
