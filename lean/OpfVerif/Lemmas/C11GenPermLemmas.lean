-- helper lemmas for Props/C11GenPerm.lean
import OpfVerif.Props.C04Gen
import OpfVerif.Props.C11Perm
namespace Opf.C11GenPermLemmas
end Opf.C11GenPermLemmas
