/-
Helper lemmas for C20 (evaluation measures, `OpfVerif/Model/Measures.lean`): the domain hypothesis
`Dom`, `foldl max`, counting over `labels.zip preds`, `foldl (·+·) 0` = `Finset.sum`, fibre sums of
`countP`, and the "largest of `f 0 … f (K-1)`" lemmas used by purity.  Everything lives in
`Opf.Measures` to keep the short names out of `Opf`.
-/
import OpfVerif.Model.Measures
import Mathlib.Algebra.Order.Field.Rat
import Mathlib.Algebra.BigOperators.Group.Finset.Basic
import Mathlib.Algebra.Order.BigOperators.Group.Finset
import Mathlib.Algebra.BigOperators.Group.List.Basic
import Mathlib.Algebra.BigOperators.Ring.Finset
import Mathlib.Tactic.Linarith
import Mathlib.Tactic.Positivity
import Mathlib.Tactic.FieldSimp
import Mathlib.Tactic.Ring
import Mathlib.Tactic.NormNum
namespace Opf
namespace Measures

/-- Domain of the measures: equally long label/prediction lists over the classes `0 … K-1`, every
class occurring among the true labels. -/
structure Dom (K : Nat) (labels preds : List Nat) : Prop where
  len : labels.length = preds.length
  pos : 1 ≤ K
  lab_lt : ∀ l ∈ labels, l < K
  lab_all : ∀ c, c < K → c ∈ labels
  pred_lt : ∀ p ∈ preds, p < K

theorem foldl_max_le_acc (l : List Nat) (a m : Nat) (ha : a ≤ m) (h : ∀ x ∈ l, x ≤ m) :
    l.foldl max a ≤ m := by
  induction l generalizing a with
  | nil => simpa
  | cons x xs ih =>
    simp only [List.foldl_cons]
    exact ih _ (max_le ha (h x (by simp))) (fun y hy => h y (by simp [hy]))

theorem acc_le_foldl_max (l : List Nat) (a : Nat) : a ≤ l.foldl max a := by
  induction l generalizing a with
  | nil => simp
  | cons x xs ih => exact le_trans (le_max_left a x) (ih _)

theorem le_foldl_max (l : List Nat) (a x : Nat) (hx : x ∈ l) : x ≤ l.foldl max a := by
  induction l generalizing a with
  | nil => simp at hx
  | cons y ys ih =>
    simp only [List.foldl_cons]
    rcases List.mem_cons.1 hx with rfl | h
    · exact le_trans (le_max_right a x) (acc_le_foldl_max _ _)
    · exact ih _ h

theorem foldl_max_dom {K : Nat} {l : List Nat} (hK : 1 ≤ K) (hlt : ∀ x ∈ l, x < K)
    (hall : ∀ c, c < K → c ∈ l) : l.foldl max 0 = K - 1 := by
  apply le_antisymm
  · exact foldl_max_le_acc l 0 _ (Nat.zero_le _) (fun x hx => by have := hlt x hx; omega)
  · exact le_foldl_max l 0 _ (hall _ (by omega))

/-! ## counting over `labels.zip preds` -/

theorem countPairs_eq_countP (p : Nat → Nat → Bool) (labels preds : List Nat) :
    countPairs p labels preds = (labels.zip preds).countP (fun lp => p lp.1 lp.2) := by
  unfold countPairs; rw [List.countP_eq_length_filter]

theorem classCount_eq_countP (labels : List Nat) (c : Nat) :
    classCount labels c = labels.countP (· == c) := by
  unfold classCount; rw [List.countP_eq_length_filter]

theorem classCount_eq_zip {labels preds : List Nat} (h : labels.length = preds.length) (c : Nat) :
    classCount labels c = (labels.zip preds).countP (fun lp => lp.1 == c) := by
  rw [classCount_eq_countP]
  conv_lhs => rw [← List.map_fst_zip (l₁ := labels) (l₂ := preds) (le_of_eq h)]
  rw [List.countP_map]; rfl

theorem classCount_le (labels : List Nat) (c : Nat) : classCount labels c ≤ labels.length := by
  unfold classCount; exact List.length_filter_le _ _

theorem falseNeg_le {labels preds : List Nat} (h : labels.length = preds.length) (c : Nat) :
    falseNeg labels preds c ≤ classCount labels c := by
  rw [classCount_eq_zip h, falseNeg, countPairs_eq_countP]
  apply List.countP_mono_left
  intro x _ hx; simp at hx ⊢; exact hx.2

theorem compl_count {labels preds : List Nat} (h : labels.length = preds.length) (c : Nat) :
    labels.length - classCount labels c = (labels.zip preds).countP (fun lp => lp.1 != c) := by
  have h1 := List.length_eq_countP_add_countP (fun lp : Nat × Nat => lp.1 == c) (l := labels.zip preds)
  rw [← classCount_eq_zip h, List.length_zip, ← h, Nat.min_self] at h1
  have : (labels.zip preds).countP (fun lp => lp.1 != c)
      = (labels.zip preds).countP (fun a => decide ¬(a.1 == c) = true) := by
    apply List.countP_congr
    intro x _; simp
  omega

theorem falsePos_le {labels preds : List Nat} (h : labels.length = preds.length) (c : Nat) :
    falsePos labels preds c ≤ labels.length - classCount labels c := by
  rw [compl_count h, falsePos, countPairs_eq_countP]
  apply List.countP_mono_left
  intro x _ hx; simp at hx ⊢; rcases hx with ⟨h1, h2⟩; rw [← h2]; exact h1

theorem classCount_pos {labels : List Nat} {c : Nat} (h : c ∈ labels) : 0 < classCount labels c := by
  rw [classCount_eq_countP]; exact List.countP_pos_iff.2 ⟨c, h, by simp⟩

theorem classCount_lt {labels : List Nat} {c d : Nat} (h : d ∈ labels) (hne : d ≠ c) :
    classCount labels c < labels.length := by
  rw [classCount_eq_countP]
  rcases Nat.lt_or_ge (labels.countP (· == c)) labels.length with h1 | h1
  · exact h1
  · have := List.countP_eq_length.1 (le_antisymm List.countP_le_length h1) d h
    simp at this; exact absurd this hne

/-! sums -/
theorem foldl_add_eq_sum (l : List ℚ) : l.foldl (· + ·) 0 = l.sum := by
  rw [List.sum_eq_foldl]

theorem sum_map_range (f : Nat → ℚ) (K : Nat) :
    ((List.range K).map f).sum = ∑ c ∈ Finset.range K, f c := by
  induction K with
  | zero => simp
  | succ n ih => rw [List.range_succ, List.map_append, List.sum_append, ih, Finset.sum_range_succ]; simp

theorem nanDiv_rat (num den : Nat) :
    nanDiv (fun k : Nat => (k : ℚ)) 0 num den = (num : ℚ) / (den : ℚ) := by
  unfold nanDiv
  split
  · next h => rw [h.1, h.2]; simp
  · rfl

theorem mem_zip_self {l : List Nat} {x : Nat × Nat} (h : x ∈ l.zip l) : x.1 = x.2 := by
  induction l with
  | nil => simp at h
  | cons a as ih =>
    simp only [List.zip_cons_cons, List.mem_cons] at h
    rcases h with rfl | h
    · rfl
    · exact ih h

theorem eq_of_zip_diag {labels preds : List Nat} (hl : labels.length = preds.length)
    (h : ∀ x ∈ labels.zip preds, x.1 = x.2) : preds = labels := by
  induction labels generalizing preds with
  | nil => cases preds with
    | nil => rfl
    | cons _ _ => simp at hl
  | cons a as ih => cases preds with
    | nil => simp at hl
    | cons b bs =>
      simp only [List.zip_cons_cons, List.mem_cons, forall_eq_or_imp] at h
      simp only [List.length_cons, Nat.add_right_cancel_iff] at hl
      have h1 : a = b := h.1
      rw [ih hl h.2, h1]

theorem nat_sum_map_range (f : Nat → Nat) (K : Nat) :
    ((List.range K).map f).sum = ∑ c ∈ Finset.range K, f c := by
  induction K with
  | zero => simp
  | succ n ih => rw [List.range_succ, List.map_append, List.sum_append, ih, Finset.sum_range_succ]; simp

theorem sum_countP_fiber {α : Type} (K : Nat) (f : α → Nat) (q : α → Bool) (z : List α)
    (hf : ∀ x ∈ z, f x < K) :
    ∑ a ∈ Finset.range K, z.countP (fun x => f x == a && q x) = z.countP q := by
  induction z with
  | nil => simp
  | cons x xs ih =>
    have hx : f x < K := hf x (by simp)
    simp only [List.countP_cons, Finset.sum_add_distrib]
    rw [ih (fun y hy => hf y (by simp [hy]))]
    congr 1
    rw [Finset.sum_eq_single (f x)]
    · simp
    · intro b _ hb; simp [Ne.symm hb]
    · intro hn; exact absurd (Finset.mem_range.2 hx) hn

theorem countP_split {α : Type} (p q r : α → Bool) (z : List α)
    (h : ∀ x ∈ z, p x = (q x || r x) ∧ (q x && r x) = false) :
    z.countP p = z.countP q + z.countP r := by
  induction z with
  | nil => simp
  | cons x xs ih =>
    have hx := h x (by simp)
    rw [List.countP_cons, List.countP_cons, List.countP_cons, ih (fun y hy => h y (by simp [hy]))]
    rcases hq : q x <;> rcases hr : r x <;> simp_all <;> omega

/-! ## largest of `f 0 … f (K-1)` -/

/-- `max` of `f 0, …, f (K-1)` the way `purityG` computes it -/
def maxOver (f : Nat → Nat) (K : Nat) : Nat := ((List.range K).map f).foldl max 0

theorem foldl_max_attained (l : List Nat) (a : Nat) : l.foldl max a = a ∨ l.foldl max a ∈ l := by
  induction l generalizing a with
  | nil => simp
  | cons x xs ih =>
    simp only [List.foldl_cons, List.mem_cons]
    rcases ih (max a x) with h | h
    · rw [h]
      rcases le_total a x with hax | hax
      · right; left; exact max_eq_right hax
      · left; exact max_eq_left hax
    · right; right; exact h

theorem le_maxOver (f : Nat → Nat) {K a : Nat} (ha : a < K) : f a ≤ maxOver f K :=
  le_foldl_max _ 0 _ (List.mem_map.2 ⟨a, List.mem_range.2 ha, rfl⟩)

theorem maxOver_attained (f : Nat → Nat) (K : Nat) :
    maxOver f K = 0 ∨ ∃ a, a < K ∧ maxOver f K = f a := by
  rcases foldl_max_attained ((List.range K).map f) 0 with h | h
  · left; exact h
  · right
    obtain ⟨a, ha, hfa⟩ := List.mem_map.1 h
    exact ⟨a, List.mem_range.1 ha, hfa.symm⟩

theorem maxOver_le_sum (f : Nat → Nat) (K : Nat) : maxOver f K ≤ ∑ a ∈ Finset.range K, f a := by
  rcases maxOver_attained f K with h | ⟨a, ha, h⟩
  · rw [h]; exact Nat.zero_le _
  · rw [h]; exact Finset.single_le_sum (f := f) (fun _ _ => Nat.zero_le _) (Finset.mem_range.2 ha)

theorem maxOver_eq_sum_iff (f : Nat → Nat) (K : Nat) :
    maxOver f K = ∑ a ∈ Finset.range K, f a ↔
      ∀ a, a < K → ∀ a', a' < K → 0 < f a → 0 < f a' → a = a' := by
  constructor
  · intro he
    rcases maxOver_attained f K with h | ⟨a0, ha0, h⟩
    · rw [h] at he
      have hz := (Finset.sum_eq_zero_iff.1 he.symm)
      intro a ha _ _ hpos _
      have := hz a (Finset.mem_range.2 ha); omega
    · have hsplit := Finset.add_sum_erase (Finset.range K) f (Finset.mem_range.2 ha0)
      have hz : ∑ x ∈ (Finset.range K).erase a0, f x = 0 := by omega
      rw [Finset.sum_eq_zero_iff] at hz
      have key : ∀ a, a < K → 0 < f a → a = a0 := by
        intro a ha hpos
        by_contra hne
        have := hz a (Finset.mem_erase.2 ⟨hne, Finset.mem_range.2 ha⟩); omega
      intro a ha a' ha' hp hp'
      rw [key a ha hp, key a' ha' hp']
  · intro hu
    apply le_antisymm (maxOver_le_sum f K)
    by_cases hall : ∀ a, a < K → f a = 0
    · rw [Finset.sum_eq_zero (fun a ha => hall a (Finset.mem_range.1 ha))]; exact Nat.zero_le _
    · obtain ⟨a1, hall⟩ := not_forall.1 hall
      obtain ⟨ha1, hne⟩ := Classical.not_imp.1 hall
      have hp1 : 0 < f a1 := Nat.pos_of_ne_zero hne
      rw [Finset.sum_eq_single_of_mem a1 (Finset.mem_range.2 ha1)]
      · exact le_maxOver f ha1
      · intro b hb hba
        by_contra hb0
        exact hba (hu b (Finset.mem_range.1 hb) a1 ha1 (Nat.pos_of_ne_zero hb0) hp1)

/-! ## sums of affine images (normalize) -/

theorem sum_map_sub_div {α : Type} [Field α] (m s : α) (col : List α) :
    (col.map (fun v => (v - m) / s)).sum = (col.sum - (col.length : α) * m) / s := by
  induction col with
  | nil => simp
  | cons x xs ih =>
    simp only [List.map_cons, List.sum_cons, List.length_cons, ih]; push_cast; ring

theorem sum_map_sq_div {α : Type} [Field α] (m s : α) (col : List α) :
    (col.map (fun v => ((v - m) / s) ^ 2)).sum = (col.map (fun v => (v - m) ^ 2)).sum / s ^ 2 := by
  induction col with
  | nil => simp
  | cons x xs ih =>
    simp only [List.map_cons, List.sum_cons, ih]; ring

end Measures
end Opf
