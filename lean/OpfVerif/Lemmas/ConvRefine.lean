/-
Helper lemmas for `Props/C18ConvRefine.lean` (the translated converters and `load_json` against the decoder of
`Model/Stream.lean`).
-/
import OpfVerif.Gen.ConvImp
import OpfVerif.Props.C18
namespace Opf.ConvRefine
open Opf Opf.Gen

/-- the decoder as Python runs it: the header is unpacked with `i` letters (signed); `range` of a negative number is empty. -/
def decodeOpfS (b : List UInt8) : Option (List OpfSample) :=
  match readWords 3 b with
  | some ([n, _, d], rest) => readSamples (toInt32 d).toNat (toInt32 n).toNat rest
  | _ => none

/-- one decoded sample as the tuple `opf2txt` / `opf2csv` append. -/
def rowOf (s : OpfSample) : Array PyS.SVal :=
  #[PyS.SVal.int s.id, PyS.SVal.int s.label] ++ (s.feats.map PyS.SVal.f32).toArray

/-- one decoded sample as the dict `opf2json` appends. -/
def recOf (s : OpfSample) : PyS.JRec :=
  [("id", PyS.JVal.sc (PyS.SVal.int s.id)), ("label", PyS.JVal.sc (PyS.SVal.int s.label)),
   ("features", PyS.JVal.arr (s.feats.map PyS.SVal.f32).toArray)]

/-! ### byte-level facts -/

theorem le32_take (b : List UInt8) (m : Nat) :
    le32 (b.take (4 + m)) = (le32 b).map (fun p => (p.1, p.2.take m)) := by
  rcases b with _ | ⟨b0, _ | ⟨b1, _ | ⟨b2, _ | ⟨b3, r⟩⟩⟩⟩ <;>
    simp [le32, show 4 + m = m + 1 + 1 + 1 + 1 by omega, List.take_succ_cons]

theorem le32_drop (b : List UInt8) (w : UInt32) (rest : List UInt8) (h : le32 b = some (w, rest)) :
    rest = b.drop 4 := by
  rcases b with _ | ⟨b0, _ | ⟨b1, _ | ⟨b2, _ | ⟨b3, r⟩⟩⟩⟩ <;> simp [le32] at h ⊢
  exact h.2.symm

theorem readWords_spec : ∀ (k : Nat) (b : List UInt8) (ws : List UInt32) (rest : List UInt8),
    readWords k b = some (ws, rest) → ws.length = k ∧ rest = b.drop (4 * k) := by
  intro k
  induction k with
  | zero => intro b ws rest h; simp [readWords] at h; simp [h.1.symm, h.2.symm]
  | succ k ih =>
    intro b ws rest h
    unfold readWords at h
    cases h1 : le32 b with
    | none => simp [h1] at h
    | some p =>
      obtain ⟨w, r⟩ := p
      cases h2 : readWords k r with
      | none => simp [h1, h2] at h
      | some q =>
        obtain ⟨ws', r'⟩ := q
        simp [h1, h2] at h
        obtain ⟨ih1, ih2⟩ := ih r ws' r' h2
        have := le32_drop b w r h1
        subst this
        refine ⟨by rw [← h.1]; simp [ih1], ?_⟩
        rw [← h.2, ih2, List.drop_drop]; congr 1; omega

def conv (c : Char) (w : UInt32) : PyS.SVal := if c == 'i' then PyS.SVal.int (toInt32 w) else PyS.SVal.f32 w

theorem unpackLetters_take : ∀ (ls : List Char) (b : List UInt8),
    PyS.unpackLetters ls (b.take (4 * ls.length)) =
      (readWords ls.length b).map (fun p => List.zipWith conv ls p.1) := by
  intro ls
  induction ls with
  | nil => intro b; simp [PyS.unpackLetters, readWords]
  | cons c cs ih =>
    intro b
    rw [List.length_cons, show 4 * (cs.length + 1) = 4 + 4 * cs.length by omega]
    unfold PyS.unpackLetters readWords
    rw [le32_take]
    cases h1 : le32 b with
    | none => simp
    | some p =>
      obtain ⟨w, r⟩ := p
      simp only [Option.map_some]
      rw [ih r]
      cases h2 : readWords cs.length r with
      | none => simp
      | some q => obtain ⟨ws', r'⟩ := q; simp [conv]
def fmtBody : Int → List Char → Option (List Char) := fun _ file_format => do
      let file_format := file_format ++ "f".toList
      pure file_format

def recBody {β : Type} (mk : PyS.SVal → PyS.SVal → Array PyS.SVal → β) (file_format : List Char) (data_size : Int) :
    Int → List UInt8 × Array β → Option (List UInt8 × Array β) := fun _ (f, samples) => do
      let (r9, f) := PyS.read f data_size
      let t10 ← PyS.unpack file_format r9
      let data := t10
      let t11 ← Py.idx data (0 : Int)
      let t12 ← Py.idx data (1 : Int)
      let t13 ← PyS.subInt t12 (1 : Int)
      let samples := samples.push (mk t11 t13 (Py.sliceFrom data (2 : Int)))
      pure (f, samples)

def convGen {β : Type} (mk : PyS.SVal → PyS.SVal → Array PyS.SVal → β) (FILE : List UInt8) : Option (Array β) := do
  let header_format := "<iii".toList
  let t1 ← PyS.calcsize header_format
  let header_size := t1
  let f := FILE
  let (r2, f) := PyS.read f header_size
  let t3 ← PyS.unpack header_format r2
  let header_data := t3
  let t4 ← Py.idx header_data (0 : Int)
  let n_samples := t4
  let t5 ← Py.idx header_data (2 : Int)
  let n_features := t5
  let file_format := "<ii".toList
  let n6 ← PyS.asInt n_features
  let file_format ← Py.forRange n6 fmtBody file_format
  let t7 ← PyS.calcsize file_format
  let data_size := t7
  let samples : Array β := #[]
  let n8 ← PyS.asInt n_samples
  let (_, samples) ← Py.forRange n8 (recBody mk file_format data_size) (f, samples)
  pure samples

def mkRow (a b : PyS.SVal) (c : Array PyS.SVal) : Array PyS.SVal := #[a, b] ++ c
def mkRec (a b : PyS.SVal) (c : Array PyS.SVal) : PyS.JRec :=
  [("id", PyS.JVal.sc a), ("label", PyS.JVal.sc b), ("features", PyS.JVal.arr c)]

theorem opf2txt_eq : ConvImp.opf2txt = convGen mkRow := rfl
theorem opf2csv_eq : ConvImp.opf2csv = convGen mkRow := rfl
theorem opf2json_eq : ConvImp.opf2json = convGen mkRec := rfl

def fmtOf (d : Nat) : List Char := '<' :: 'i' :: 'i' :: List.replicate d 'f'

theorem fmt_fold (l : List Nat) : ∀ s : List Char,
    l.foldlM (fun s (q : Nat) => fmtBody (q : Int) s) s = some (s ++ List.replicate l.length 'f') := by
  induction l with
  | nil => intro s; simp
  | cons a l ih =>
    intro s
    rw [List.foldlM_cons]
    show (some (s ++ "f".toList)).bind _ = _
    rw [Option.bind_some, ih]
    simp [List.replicate_succ]

theorem fmt_loop (n : Int) : Py.forRange n fmtBody "<ii".toList = some (fmtOf n.toNat) := by
  unfold Py.forRange
  rw [fmt_fold]
  simp [fmtOf]

theorem fmtLetters_fmtOf (d : Nat) : PyS.fmtLetters (fmtOf d) = some ('i' :: 'i' :: List.replicate d 'f') := by
  simp [PyS.fmtLetters, fmtOf]

theorem calcsize_fmtOf (d : Nat) : PyS.calcsize (fmtOf d) = some (((4 * (2 + d) : Nat) : Int)) := by
  simp [PyS.calcsize, fmtLetters_fmtOf]; omega

theorem read_nat (f : List UInt8) (k : Nat) : PyS.read f (k : Int) = (f.take k, f.drop k) := by
  simp [PyS.read]

theorem zipWith_conv_f (d : Nat) : ∀ (fs : List UInt32), fs.length = d →
    List.zipWith conv (List.replicate d 'f') fs = fs.map PyS.SVal.f32 := by
  induction d with
  | zero => intro fs h; simp at h; simp [h]
  | succ d ih =>
    intro fs h
    cases fs with
    | nil => simp at h
    | cons x xs =>
      simp [List.replicate_succ, conv, ih xs (by simpa using h)]

/-- the model of one record as the converters see it -/
def sampleOf (i l : UInt32) (fs : List UInt32) : OpfSample := { id := toInt32 i, label := toInt32 l - 1, feats := fs }

def mkS {β : Type} (mk : PyS.SVal → PyS.SVal → Array PyS.SVal → β) (s : OpfSample) : β :=
  mk (PyS.SVal.int s.id) (PyS.SVal.int s.label) (s.feats.map PyS.SVal.f32).toArray

theorem idx0 {α : Type} (a b : α) (r : List α) : Py.idx (a :: b :: r).toArray (0 : Int) = some a := by
  simp [Py.idx, Py.resolve]
theorem idx1 {α : Type} (a b : α) (r : List α) : Py.idx (a :: b :: r).toArray (1 : Int) = some b := by
  simp [Py.idx, Py.resolve]
theorem idx2 {α : Type} (a b c : α) (r : List α) : Py.idx (a :: b :: c :: r).toArray (2 : Int) = some c := by
  simp [Py.idx, Py.resolve]
theorem slice2 {α : Type} (a b : α) (r : List α) : Py.sliceFrom (a :: b :: r).toArray (2 : Int) = r.toArray := by
  have e : (min (2 : Int) ((r.length : Int) + 1 + 1)).toNat = 2 := by omega
  simp [Py.sliceFrom, e]

theorem unpack_fmtOf (d : Nat) (f : List UInt8) :
    PyS.unpack (fmtOf d) (f.take (4 * (2 + d))) =
      match readWords (2 + d) f with
      | some (i :: l :: fs, _) =>
          some (PyS.SVal.int (toInt32 i) :: PyS.SVal.int (toInt32 l) :: fs.map PyS.SVal.f32).toArray
      | _ => none := by
  unfold PyS.unpack
  rw [fmtLetters_fmtOf]
  have hl : ('i' :: 'i' :: List.replicate d 'f').length = 2 + d := by simp; omega
  have := unpackLetters_take ('i' :: 'i' :: List.replicate d 'f') f
  rw [hl] at this
  simp only [this]
  cases h : readWords (2 + d) f with
  | none => simp
  | some p =>
    obtain ⟨ws, rest⟩ := p
    obtain ⟨hlen, _⟩ := readWords_spec _ _ _ _ h
    rcases ws with _ | ⟨i, _ | ⟨l, fs⟩⟩
    · simp at hlen; omega
    · simp at hlen; omega
    · have hfs : fs.length = d := by simp at hlen; omega
      simp [conv, zipWith_conv_f d fs hfs]

theorem recBody_step {β : Type} (mk : PyS.SVal → PyS.SVal → Array PyS.SVal → β) (d : Nat) (q : Int)
    (f : List UInt8) (acc : Array β) :
    recBody mk (fmtOf d) (((4 * (2 + d) : Nat) : Int)) q (f, acc) =
      match readWords (2 + d) f with
      | some (i :: l :: fs, rest) => some (rest, acc.push (mkS mk (sampleOf i l fs)))
      | _ => none := by
  unfold recBody
  simp only [read_nat, unpack_fmtOf]
  cases h : readWords (2 + d) f with
  | none => rfl
  | some p =>
    obtain ⟨ws, rest⟩ := p
    obtain ⟨hlen, hrest⟩ := readWords_spec _ _ _ _ h
    rcases ws with _ | ⟨i, _ | ⟨l, fs⟩⟩
    · rfl
    · rfl
    · simp only [bind, Option.bind_some, idx0, idx1, slice2, PyS.subInt, pure, hrest, mkS, sampleOf]

theorem rec_fold {β : Type} (mk : PyS.SVal → PyS.SVal → Array PyS.SVal → β) (d : Nat) (l : List Nat) :
    ∀ (f : List UInt8) (acc : Array β),
    (l.foldlM (fun s (q : Nat) => recBody mk (fmtOf d) (((4 * (2 + d) : Nat) : Int)) (q : Int) s) (f, acc)).map Prod.snd =
      (readSamples d l.length f).map (fun ss => acc ++ (ss.map (mkS mk)).toArray) := by
  induction l with
  | nil => intro f acc; simp [readSamples]
  | cons a l ih =>
    intro f acc
    rw [List.foldlM_cons, recBody_step, List.length_cons, readSamples]
    cases h : readWords (2 + d) f with
    | none => rfl
    | some p =>
      obtain ⟨ws, rest⟩ := p
      rcases ws with _ | ⟨i, _ | ⟨l, fs⟩⟩
      · rfl
      · rfl
      · simp only [Option.bind_some, bind]
        rw [ih]
        cases readSamples d _ rest with
        | none => rfl
        | some ss => simp [sampleOf]

theorem unpack_hdr (b : List UInt8) :
    PyS.unpack "<iii".toList (b.take 12) =
      (readWords 3 b).map (fun p => (p.1.map (fun w => PyS.SVal.int (toInt32 w))).toArray) := by
  unfold PyS.unpack
  have h : PyS.fmtLetters "<iii".toList = some ['i', 'i', 'i'] := by decide
  rw [h]
  have := unpackLetters_take ['i', 'i', 'i'] b
  simp only [List.length_cons, List.length_nil] at this
  simp only [this]
  cases h : readWords 3 b with
  | none => simp
  | some p =>
    obtain ⟨ws, rest⟩ := p
    obtain ⟨hlen, _⟩ := readWords_spec _ _ _ _ h
    rcases ws with _ | ⟨n, _ | ⟨c, _ | ⟨d, _ | ⟨e, r⟩⟩⟩⟩ <;> simp at hlen
    simp [conv]

theorem bind_snd {α β : Type} (x : Option (α × β)) :
    (x.bind fun p => match p with | (_, s) => some s) = x.map Prod.snd := by
  cases x <;> rfl

theorem convGen_refines {β : Type} (mk : PyS.SVal → PyS.SVal → Array PyS.SVal → β) (b : List UInt8) :
    convGen mk b = (decodeOpfS b).map (fun ss => (ss.map (mkS mk)).toArray) := by
  unfold convGen decodeOpfS
  have hc : PyS.calcsize "<iii".toList = some ((12 : Nat) : Int) := by decide
  simp only [hc, bind, Option.bind_some, read_nat, unpack_hdr]
  cases h : readWords 3 b with
  | none => rfl
  | some p =>
    obtain ⟨ws, rest⟩ := p
    obtain ⟨hlen, hrest⟩ := readWords_spec _ _ _ _ h
    rcases ws with _ | ⟨n, _ | ⟨c, _ | ⟨d, _ | ⟨e, r⟩⟩⟩⟩ <;> simp at hlen
    simp only [Option.map_some, Option.bind_some, List.map_cons, List.map_nil, idx0, idx2, PyS.asInt,
      fmt_loop, calcsize_fmtOf]
    have hb : ∀ x : Option (List UInt8 × Array β), (x.bind fun a => pure a.2) = x.map Prod.snd := by
      intro x; cases x <;> rfl
    rw [hb, Py.forRange, rec_fold, List.length_range, hrest]
    simp


theorem mkS_mkRow (s : OpfSample) : mkS mkRow s = rowOf s := rfl
theorem mkS_mkRec (s : OpfSample) : mkS mkRec s = recOf s := rfl

/-- the body of the loop of `load_json`, named. -/
def ljBody : PyS.JRec → Array (Array PyS.SVal) → Option (Array (Array PyS.SVal)) := fun d json => do
      let t1 ← PyS.dget d "id"
      let t2 ← PyS.scalar t1
      let t3 ← PyS.dget d "label"
      let t4 ← PyS.scalar t3
      let meta_ := #[t2, t4]
      let t5 ← PyS.dget d "features"
      let t6 ← PyS.vector t5
      let features := t6
      let json := json.push (meta_ ++ features)
      pure json

theorem load_json_eq (DATA : Array PyS.JRec) : ConvImp.load_json DATA = PyS.forEach DATA ljBody #[] := by
  show (PyS.forEach DATA ljBody #[]).bind (fun j => some j) = _
  cases PyS.forEach DATA ljBody #[] <;> rfl

theorem ljBody_recOf (s : OpfSample) (acc : Array (Array PyS.SVal)) :
    ljBody (recOf s) acc = some (acc.push (rowOf s)) := by
  have hid : PyS.dget (recOf s) "id" = some (PyS.JVal.sc (PyS.SVal.int s.id)) := by
    simp [PyS.dget, recOf]
  have hlab : PyS.dget (recOf s) "label" = some (PyS.JVal.sc (PyS.SVal.int s.label)) := by
    simp [PyS.dget, recOf]
  have hf : PyS.dget (recOf s) "features" = some (PyS.JVal.arr (s.feats.map PyS.SVal.f32).toArray) := by
    simp [PyS.dget, recOf]
  unfold ljBody
  simp only [hid, hlab, hf, bind, Option.bind_some, PyS.scalar, PyS.vector, pure, rowOf]

theorem load_json_fold (ss : List OpfSample) : ∀ acc : Array (Array PyS.SVal),
    (ss.map recOf).foldlM (fun s x => ljBody x s) acc = some (acc ++ (ss.map rowOf).toArray) := by
  induction ss with
  | nil => intro acc; simp
  | cons s ss ih =>
    intro acc
    rw [List.map_cons, List.foldlM_cons, ljBody_recOf, Option.bind_eq_bind, Option.bind_some, ih]
    simp

theorem readWords3_enc (n c d : UInt32) (rest : List UInt8) :
    readWords 3 (enc32 n ++ enc32 c ++ enc32 d ++ rest) = some ([n, c, d], rest) := by
  have hh := readWords_enc' 3 [n, c, d] rest rfl
  simpa only [List.flatMap_cons, List.flatMap_nil, List.append_nil, List.append_assoc] using hh

theorem toInt32_ofNat (k : Nat) (hk : k < 2^31) : (toInt32 (UInt32.ofNat k)).toNat = (UInt32.ofNat k).toNat := by
  have h1 : (UInt32.ofNat k).toNat = k := by rw [UInt32.toNat_ofNat']; omega
  unfold toInt32
  rw [h1, if_pos (by omega)]
  simp

theorem opf2txt_refines (b : List UInt8) :
    ConvImp.opf2txt b = (decodeOpfS b).map (fun ss => (ss.map rowOf).toArray) := by
  rw [opf2txt_eq, convGen_refines]; rfl

theorem opf2csv_refines (b : List UInt8) :
    ConvImp.opf2csv b = (decodeOpfS b).map (fun ss => (ss.map rowOf).toArray) := by
  rw [opf2csv_eq, convGen_refines]; rfl

theorem opf2json_refines (b : List UInt8) :
    ConvImp.opf2json b = (decodeOpfS b).map (fun ss => (ss.map recOf).toArray) := by
  rw [opf2json_eq, convGen_refines]; rfl

theorem load_json_recOf (ss : List OpfSample) :
    ConvImp.load_json (ss.map recOf).toArray = some (ss.map rowOf).toArray := by
  rw [load_json_eq, PyS.forEach, load_json_fold]
  simp

theorem three_formats_agree (b : List UInt8) :
    ConvImp.opf2csv b = ConvImp.opf2txt b ∧
    (ConvImp.opf2json b).bind ConvImp.load_json = ConvImp.opf2txt b := by
  refine ⟨by rw [opf2csv_refines, opf2txt_refines], ?_⟩
  rw [opf2json_refines, opf2txt_refines]
  cases decodeOpfS b with
  | none => rfl
  | some ss => simp [load_json_recOf]

theorem decodeOpfS_encode (nClasses d : Nat) (ss : List OpfSample) (hlen : ss.length < 2^31) (hdd : d < 2^31) :
    decodeOpfS (encodeOpf nClasses d ss) = decodeOpf (encodeOpf nClasses d ss) := by
  unfold decodeOpfS decodeOpf encodeOpf
  rw [readWords3_enc]
  simp only
  rw [toInt32_ofNat _ hdd, toInt32_ofNat _ hlen]

theorem conv_roundtrip (nClasses d : Nat) (ss : List OpfSample)
    (hd : ∀ s ∈ ss, s.feats.length = d) (hlen : ss.length < 2^31) (hdd : d < 2^31)
    (hid : ∀ s ∈ ss, -2^31 ≤ s.id ∧ s.id < 2^31)
    (hlab : ∀ s ∈ ss, -2^31 ≤ s.label + 1 ∧ s.label + 1 < 2^31) :
    ConvImp.opf2txt (encodeOpf nClasses d ss) = some (ss.map rowOf).toArray ∧
    ConvImp.opf2csv (encodeOpf nClasses d ss) = some (ss.map rowOf).toArray ∧
    (ConvImp.opf2json (encodeOpf nClasses d ss)).bind ConvImp.load_json = some (ss.map rowOf).toArray := by
  have hdec : decodeOpfS (encodeOpf nClasses d ss) = some ss := by
    rw [decodeOpfS_encode nClasses d ss hlen hdd, c18_decode_encode nClasses d ss hd hlen hdd hid hlab]
  refine ⟨?_, ?_, ?_⟩
  · rw [opf2txt_refines, hdec]; rfl
  · rw [opf2csv_refines, hdec]; rfl
  · rw [opf2json_refines, hdec]; simp [load_json_recOf]

theorem negative_count (n c d : UInt32) (rest : List UInt8) (hn : toInt32 n ≤ 0) :
    ConvImp.opf2txt (enc32 n ++ enc32 c ++ enc32 d ++ rest) = some #[] := by
  rw [opf2txt_refines]
  unfold decodeOpfS
  rw [readWords3_enc]
  simp only
  have : (toInt32 n).toNat = 0 := by omega
  rw [this]
  rfl

end Opf.ConvRefine
