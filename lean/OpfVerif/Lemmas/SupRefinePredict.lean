/-
Refinement of the translated `SupervisedOPF.predict` (`Gen/SupImp.lean`) to `predictBatch`
(`Model/Forest.lean`); continues `Lemmas/SupRefine.lean`.
-/
import OpfVerif.Gen.PredImp
import OpfVerif.Lemmas.SupRefine
import OpfVerif.Lemmas.Predict
set_option linter.unusedVariables false
namespace Opf.SupRefine
open Opf Opf.Gen Opf.Gen.SupImp

/-- the query-side weight oracle agrees with the model's per-query distance functions. -/
def WQAgree (n : Nat) (WQ : Int → Int → Option Int) (ds : List (Nat → Int)) : Prop :=
  ∀ (i : Nat) (hi : i < ds.length) (l : Nat), l < n → WQ (l : Int) (i : Int) = some (ds[i] l)

/-- the labels `predict` returns, as the real code returns them. -/
def labelsInt (l : List (Option Nat)) : Array Int :=
  (l.map (fun o => match o with | some x => (x : Int) | none => 0)).toArray

/-- a prediction subgraph for `m` queries (what `Subgraph(X_val, I=I_val)` builds). -/
structure QuerySG (psg : SG) (m : Nat) : Prop where
  n : psg.n_nodes = (m : Int)
  sz : psg.predicted_label.size = m

/-! ### evaluation lemmas -/

theorem idx_nat {α : Type} (a : Array α) (k : Nat) : Py.idx a (k : Int) = a[k]? := by
  unfold Py.idx Py.resolve
  have h0 : (0 : Int) ≤ (k : Int) := by omega
  rw [if_pos h0, Int.toNat_natCast]
  by_cases h : k < a.size
  · rw [if_pos h]
  · rw [if_neg h]
    simp only []
    rw [Array.getElem?_eq_none (by omega)]

theorem setIdx_nat {α : Type} (a : Array α) (k : Nat) (v : α) (h : k < a.size) :
    Py.setIdx a (k : Int) v = some (a.setIfInBounds k v) := by
  unfold Py.setIdx Py.resolve
  have h0 : (0 : Int) ≤ (k : Int) := by omega
  rw [if_pos h0, Int.toNat_natCast, if_pos h]
  simp only []
  rw [if_pos h]

/-! ### the pieces of `predict`

`scanCond`, `scanBody`, `qBody` are verbatim copies of the lambdas inside the generated `predict`
(`Gen/SupImp.lean`); `predict_eq` checks by `rfl` that `predict` is exactly their composition, so a
regenerated `predict` with different text makes `predict_eq` fail rather than the proofs drift. -/

/-- the tuple of variables the inner `while` of `predict` assigns:
`(weight, min_cost, conqueror, current_label, j, k)`. -/
abbrev St := Int × Int × Int × Int × Int × Int

def scanCond (sg : SG) : St → Option Bool :=
        (fun (weight, min_cost, conqueror, current_label, j, k) => (do
          let t48 ← (if (decide (j < (sg.n_nodes - (1 : Int)))) then (do
              let t46 ← Py.idx sg.idx_nodes (j + (1 : Int))
              let t47 ← Py.idx sg.cost t46
              pure (decide (min_cost > t47))) else pure false)
          pure t48))

def scanBody (WQ : Int → Int → Option Int) (sg : SG) (i : Int) : St → Option St :=
        (fun (weight, min_cost, conqueror, current_label, j, k) => (do
          let t49 ← Py.idx sg.idx_nodes (j + (1 : Int))
          let l := t49
          let weight ← WQ l i
          let t50 ← Py.idx sg.cost l
          let temp_min_cost := (max t50 weight)
          let (min_cost, conqueror, current_label) ← (if (decide (temp_min_cost < min_cost)) then (do
              let min_cost := temp_min_cost
              let conqueror := l
              let t51 ← Py.idx sg.predicted_label l
              let current_label := t51
              pure (min_cost, conqueror, current_label)) else (do
              pure (min_cost, conqueror, current_label)))
          let j := (j + (1 : Int))
          let k := l
          pure (weight, min_cost, conqueror, current_label, j, k)))

/-- reading `idx_nodes`. -/
theorem idx_order (sg : SG) (f : Forest) (hr : RelF sg f) (j : Nat) (hj : j < f.order.size) :
    Py.idx sg.idx_nodes (j : Int) = some ((f.order[j] : Nat) : Int) := by
  rw [idx_nat, hr.order]
  simp [hj]

theorem idx_cost (sg : SG) (f : Forest) (hr : RelF sg f) (x : Nat) (hx : x < f.n) :
    Py.idx sg.cost (x : Int) = some (f.costOf x) := by
  rw [idx_nat]; exact hr.cost x hx

theorem idx_plabel (sg : SG) (f : Forest) (hr : RelF sg f) (x : Nat) (hx : x < f.n) :
    Py.idx sg.predicted_label (x : Int) = some ((f.plabelOf x : Nat) : Int) := by
  rw [idx_nat]; exact hr.plabel x hx

theorem scanCond_last (sg : SG) (f : Forest) (hr : RelF sg f) (w mc cq cl k : Int) (j : Nat)
    (hj : f.n ≤ j + 1) : scanCond sg (w, mc, cq, cl, (j : Int), k) = some false := by
  have h : ¬ ((j : Int) < sg.n_nodes - 1) := by rw [hr.n]; omega
  simp only [scanCond, decide_eq_true_eq, if_neg h]
  rfl


theorem order_get (f : Forest) (hos : f.order.size = f.n)
    (hol : ∀ x, x ∈ f.order.toList → x < f.n) (j : Nat) (hj : j < f.n) :
    ∃ l, f.order[j]? = some l ∧ l < f.n ∧
      f.order.toList.drop j = l :: f.order.toList.drop (j + 1) := by
  have hj' : j < f.order.size := by omega
  refine ⟨f.order[j], Array.getElem?_eq_getElem hj', hol _ (by simp), ?_⟩
  rw [List.drop_eq_getElem_cons (by rw [Array.length_toList]; omega), Array.getElem_toList]

theorem idx_order' (sg : SG) (f : Forest) (hr : RelF sg f) (j l : Nat)
    (hl : f.order[j]? = some l) : Py.idx sg.idx_nodes (j : Int) = some (l : Int) := by
  rw [idx_nat, hr.order]
  simp [hl]

theorem scanCond_next (sg : SG) (f : Forest) (hr : RelF sg f)
    (w mc cq cl k : Int) (j l : Nat)
    (hj : j + 1 < f.n) (hl : f.order[j + 1]? = some l) (hln : l < f.n) :
    scanCond sg (w, mc, cq, cl, (j : Int), k) = some (decide (mc > f.costOf l)) := by
  have h : ((j : Int) < sg.n_nodes - 1) := by rw [hr.n]; omega
  have e : (j : Int) + 1 = ((j + 1 : Nat) : Int) := by omega
  simp only [scanCond, decide_eq_true_eq, if_pos h]
  rw [e, idx_order' sg f hr (j + 1) l hl]
  simp only [bind, Option.bind, pure]
  rw [idx_cost sg f hr _ hln]

theorem scanBody_next (WQ : Int → Int → Option Int) (sg : SG) (f : Forest) (hr : RelF sg f)
    (i : Int) (d : Nat → Int)
    (hW : ∀ l : Nat, l < f.n → WQ (l : Int) i = some (d l))
    (w mc cq cl k : Int) (j l : Nat) (hl : f.order[j + 1]? = some l) (hln : l < f.n) :
    scanBody WQ sg i (w, mc, cq, cl, (j : Int), k) =
      some (d l,
        (if max (f.costOf l) (d l) < mc then max (f.costOf l) (d l) else mc),
        (if max (f.costOf l) (d l) < mc then (l : Int) else cq),
        (if max (f.costOf l) (d l) < mc then ((f.plabelOf l : Nat) : Int) else cl),
        ((j + 1 : Nat) : Int), (l : Int)) := by
  have e : (j : Int) + 1 = ((j + 1 : Nat) : Int) := by omega
  simp only [scanBody]
  rw [e, idx_order' sg f hr (j + 1) l hl]
  simp only [bind, Option.bind, pure]
  rw [hW _ hln]
  simp only []
  rw [idx_cost sg f hr _ hln]
  simp only [decide_eq_true_eq]
  by_cases hlt : max (f.costOf l) (d l) < mc
  · simp only [if_pos hlt]
    rw [idx_plabel sg f hr _ hln]
  · simp only [if_neg hlt]

theorem scan_loop (WQ : Int → Int → Option Int) (sg : SG) (f : Forest) (hr : RelF sg f)
    (hos : f.order.size = f.n)
    (hol : ∀ x, x ∈ f.order.toList → x < f.n) (i : Int) (d : Nat → Int)
    (hW : ∀ l : Nat, l < f.n → WQ (l : Int) i = some (d l)) :
    ∀ (fuel j : Nat) (acc : PredAcc) (w k : Int), acc.stop = false → j < f.n →
      f.n - 1 - j = fuel →
      ∃ w' j' k', Py.whileM (scanCond sg) (scanBody WQ sg i)
          (w, acc.minCost, (acc.conq : Int), (acc.label : Int), (j : Int), k) =
        some (w', ((f.order.toList.drop (j + 1)).foldl (predictScan f d) acc).minCost,
          (((f.order.toList.drop (j + 1)).foldl (predictScan f d) acc).conq : Int),
          (((f.order.toList.drop (j + 1)).foldl (predictScan f d) acc).label : Int), j', k') := by
  intro fuel
  induction fuel with
  | zero =>
    intro j acc w k hst hj hf
    refine ⟨w, j, k, ?_⟩
    rw [Py.whileM.eq_1, scanCond_last sg f hr _ _ _ _ _ j (by omega)]
    have : f.order.toList.drop (j + 1) = [] := by
      apply List.drop_eq_nil_of_le
      rw [Array.length_toList]; omega
    rw [this]
    rfl
  | succ fuel ih =>
    intro j acc w k hst hj hf
    have hj1 : j + 1 < f.n := by omega
    obtain ⟨l, hl, hln, hdrop⟩ := order_get f hos hol (j + 1) hj1
    rw [Py.whileM.eq_1, scanCond_next sg f hr _ _ _ _ _ j l hj1 hl hln, hdrop, List.foldl_cons]
    by_cases hgt : acc.minCost > f.costOf l
    · have hscan : predictScan f d acc l =
          (if max (f.costOf l) (d l) < acc.minCost
            then { acc with minCost := max (f.costOf l) (d l), conq := l, label := f.plabelOf l }
            else acc) := by
        unfold predictScan
        rw [hst]
        simp only [Bool.false_eq_true, if_false, if_pos hgt]
      simp only [bind, Option.bind, pure, decide_eq_true hgt, if_true]
      rw [scanBody_next WQ sg f hr i d hW _ _ _ _ _ j l hl hln]
      simp only []
      rw [hscan]
      by_cases hlt : max (f.costOf l) (d l) < acc.minCost
      · simp only [if_pos hlt]
        exact ih (j + 1)
          { acc with minCost := max (f.costOf l) (d l), conq := l, label := f.plabelOf l }
          _ _ hst (by omega) (by omega)
      · simp only [if_neg hlt]
        exact ih (j + 1) acc _ _ hst (by omega) (by omega)
    · have hscan : predictScan f d acc l = { acc with stop := true } := by
        unfold predictScan
        rw [hst]
        simp only [Bool.false_eq_true, if_false, if_neg hgt]
      rw [hscan, scan_stop f d _ _ rfl]
      simp only [bind, Option.bind, pure, decide_eq_false hgt]
      exact ⟨w, j, k, rfl⟩

def qBody (WQ : Int → Int → Option Int) : Int → SG × SG → Option (SG × SG) :=
    (fun i (pred_subgraph, sg) => (do
      let j := (0 : Int)
      let t43 ← Py.idx sg.idx_nodes j
      let k := t43
      let conqueror := k
      let weight ← WQ k i
      let t44 ← Py.idx sg.cost k
      let min_cost := (max t44 weight)
      let t45 ← Py.idx sg.predicted_label k
      let current_label := t45
      let (weight, min_cost, conqueror, current_label, j, k) ← Py.whileM (σ := Int × Int × Int × Int × Int × Int)
        (scanCond sg) (scanBody WQ sg i)
        (weight, min_cost, conqueror, current_label, j, k)
      let _g ← (if (decide (current_label < (0 : Int))) then none else pure ())
      let t52 ← Py.setIdx pred_subgraph.predicted_label i current_label
      let pred_subgraph := { pred_subgraph with predicted_label := t52 }
      let sg ← (if (decide (conqueror > (-(1 : Int)))) then (do
          let (sg, _) ← mark_nodes sg conqueror
          pure sg) else (do
          pure sg))
      pure (pred_subgraph, sg)))

theorem predict_eq (WQ : Int → Int → Option Int) (sg psg0 : SG) :
    predict WQ sg psg0 =
      (if (!sg.trained) then none else
        (Py.forRange (σ := SG × SG) psg0.n_nodes (qBody WQ) (psg0, sg)).bind
          (fun r => some (r.2, r.1.predicted_label))) := by
  unfold predict
  cases sg.trained <;> rfl

theorem qBody_spec (WQ : Int → Int → Option Int) (sg : SG) (g : Forest) (hr : RelF sg g)
    (hs : g.Sized) (hn : 0 < g.n) (hos : g.order.size = g.n)
    (hol : ∀ x, x ∈ g.order.toList → x < g.n)
    (hc : ∀ i, i < g.n → ChainOk g (g.n - 1) i)
    (psg : SG) (i : Nat) (hi : i < psg.predicted_label.size) (d : Nat → Int)
    (hW : ∀ l : Nat, l < g.n → WQ (l : Int) (i : Int) = some (d l)) :
    ∃ r sg', predictOne g d = some r ∧
      qBody WQ (i : Int) (psg, sg) =
        some ({ psg with predicted_label :=
                  psg.predicted_label.setIfInBounds i ((r.label : Nat) : Int) }, sg') ∧
      RelF sg' (markNodes g g.n r.conq) := by
  obtain ⟨k0, hk0, hk0n, hdrop0⟩ := order_get g hos hol 0 hn
  rw [List.drop_zero] at hdrop0
  obtain ⟨w', j', k', hloop⟩ := scan_loop WQ sg g hr hos hol (i : Int) d hW (g.n - 1) 0
    { minCost := max (g.costOf k0) (d k0), conq := k0, label := g.plabelOf k0, stop := false }
    (d k0) (k0 : Int) rfl hn (by omega)
  generalize hrest : g.order.toList.drop (0 + 1) = rest at hdrop0 hloop
  have hone : predictOne g d = some (rest.foldl (predictScan g d)
      { minCost := max (g.costOf k0) (d k0), conq := k0, label := g.plabelOf k0, stop := false }) := by
    unfold predictOne
    rw [hdrop0]
  generalize hR : rest.foldl (predictScan g d)
      { minCost := max (g.costOf k0) (d k0), conq := k0, label := g.plabelOf k0, stop := false } = R
    at hone hloop
  have hloop' : Py.whileM (scanCond sg) (scanBody WQ sg (i : Int))
      (d k0, max (g.costOf k0) (d k0), (k0 : Int), ((g.plabelOf k0 : Nat) : Int), (0 : Int),
        (k0 : Int)) = some (w', R.minCost, (R.conq : Int), (R.label : Int), j', k') := hloop
  have hcq : R.conq < g.n := hol _ (predictOne_conq_mem g d R hone).1
  obtain ⟨sg', hmark, hrel⟩ := mark_nodes_refines sg g hr hs (g.n - 1) R.conq hcq (hc _ hcq)
  have hnn : g.n - 1 + 1 = g.n := by omega
  rw [hnn] at hrel
  refine ⟨R, sg', hone, ?_, hrel⟩
  have h0 : Py.idx sg.idx_nodes (0 : Int) = some (k0 : Int) := idx_order' sg g hr 0 k0 hk0
  simp only [qBody]
  rw [h0]
  simp only [bind, Option.bind, pure]
  rw [hW _ hk0n]
  simp only []
  rw [idx_cost sg g hr _ hk0n]
  simp only []
  rw [idx_plabel sg g hr _ hk0n]
  simp only []
  rw [hloop']
  simp only []
  have h1 : ¬ (((R.label : Nat) : Int) < 0) := by omega
  have h2 : ((R.conq : Nat) : Int) > -1 := by omega
  simp only [decide_eq_true_eq, if_neg h1, if_pos h2]
  rw [setIdx_nat _ _ _ hi]
  simp only []
  rw [hmark]

theorem chainOk_congr (g f : Forest) (hn : g.n = f.n) (hp : g.pred = f.pred) :
    ∀ k i, ChainOk f k i → ChainOk g k i := by
  have hpo : ∀ x, g.predOf x = f.predOf x := by
    intro x; unfold Forest.predOf; rw [hp]
  intro k
  induction k with
  | zero => intro i h; unfold ChainOk at h ⊢; rw [hpo]; exact h
  | succ k ih =>
    intro i h
    unfold ChainOk at h ⊢
    rw [hpo]
    cases hfp : f.predOf i with
    | none => trivial
    | some p =>
      rw [hfp] at h
      exact ⟨by rw [hn]; exact h.1, ih p h.2⟩

theorem labelsInt_snoc (L : List (Option Nat)) (x : Nat) :
    labelsInt (L ++ [some x]) = (labelsInt L).push (x : Int) := by
  simp [labelsInt]

theorem labelsInt_size (L : List (Option Nat)) : (labelsInt L).size = L.length := by
  simp [labelsInt]

theorem batch_snoc (f : Forest) (ds : List (Nat → Int)) (i : Nat) (hi : i < ds.length) :
    predictBatch f (ds.take (i + 1)) = batchStep (predictBatch f (ds.take i)) ds[i] := by
  rw [List.take_succ_eq_append_getElem hi, predictBatch_eq, List.foldl_append, List.foldl_cons,
    List.foldl_nil, ← predictBatch_eq]

theorem fold_inv (WQ : Int → Int → Option Int) (sg0 : SG) (f : Forest) (hr : RelF sg0 f)
    (hs : f.Sized) (hn : 0 < f.n)
    (hos : f.order.size = f.n) (hol : ∀ x, x ∈ f.order.toList → x < f.n)
    (hc : ∀ i, i < f.n → ChainOk f (f.n - 1) i)
    (psg0 : SG) (ds : List (Nat → Int)) (hsz : psg0.predicted_label.size = ds.length)
    (hW : WQAgree f.n WQ ds) :
    ∀ i, i ≤ ds.length → ∃ psg sg,
      (List.range i).foldlM (fun s (q : Nat) => qBody WQ (q : Int) s) (psg0, sg0) = some (psg, sg) ∧
      RelF sg (predictBatch f (ds.take i)).1 ∧
      psg.predicted_label.size = ds.length ∧
      (predictBatch f (ds.take i)).2.length = i ∧
      (∀ k, k < i → psg.predicted_label[k]? = (labelsInt (predictBatch f (ds.take i)).2)[k]?) ∧
      (∀ o, o ∈ (predictBatch f (ds.take i)).2 → o ≠ none) := by
  intro i
  induction i with
  | zero =>
    intro _
    refine ⟨psg0, sg0, rfl, hr, hsz, rfl, ?_, ?_⟩
    · intro k hk; omega
    · intro o ho
      simp [predictBatch] at ho
  | succ i ih =>
    intro hi
    obtain ⟨psg, sg, hfold, hrel, hpsz, hlen, hlab, hnone⟩ := ih (by omega)
    have hi' : i < ds.length := by omega
    obtain ⟨e1, e2, e3, e4, e5, e6, e7⟩ := predictBatch_fields f (ds.take i)
    rw [batch_snoc f ds i hi']
    generalize predictBatch f (ds.take i) = P at hrel hlen hlab hnone e1 e2 e3 e4 e5 e6 e7
    obtain ⟨g, L⟩ := P
    simp only at hrel hlen hlab hnone e1 e2 e3 e4 e5 e6 e7
    have gs : g.Sized := by
      constructor
      · rw [e2, e1]; exact hs.size_pred
      · rw [e3, e1]; exact hs.size_proto
      · rw [e4, e1]; exact hs.size_ncost
      · rw [e5, e1]; exact hs.size_plabel
      · rw [e6, e1]; exact hs.size_label
    obtain ⟨r, sg', hone, hq, hrel'⟩ := qBody_spec WQ sg g hrel gs (by omega)
      (by rw [e7, e1]; exact hos) (by rw [e7, e1]; exact hol)
      (by intro x hx; rw [e1] at hx ⊢; exact chainOk_congr g f e1 e2 _ _ (hc x hx))
      psg i (by omega) ds[i] (by intro l hl; rw [e1] at hl; exact hW i hi' l hl)
    refine ⟨{ psg with predicted_label :=
      psg.predicted_label.setIfInBounds i ((r.label : Nat) : Int) }, sg', ?_, ?_, ?_, ?_, ?_, ?_⟩
    · rw [List.range_succ, List.foldlM_append, hfold]
      simp only [bind, Option.bind, List.foldlM_cons, List.foldlM_nil, pure]
      rw [hq]
    · simp only [batchStep, hone]
      exact hrel'
    · simp only [Array.size_setIfInBounds]; exact hpsz
    · simp only [batchStep, hone, List.length_append, List.length_singleton, hlen]
    · intro k hk
      simp only [batchStep, hone]
      rw [labelsInt_snoc, Array.getElem?_setIfInBounds, Array.getElem?_push, labelsInt_size, hlen]
      by_cases hki : i = k
      · subst hki
        rw [if_pos rfl, if_pos (by omega), if_pos rfl]
      · rw [if_neg hki, if_neg (fun h => hki h.symm)]
        exact hlab k (by omega)
    · intro o ho
      simp only [batchStep, hone, List.mem_append, List.mem_singleton] at ho
      rcases ho with ho | rfl
      · exact hnone o ho
      · simp

/-- `predict` on a trained classifier whose conquest order lists nodes of the forest, one entry per
node, and whose predecessor chains reach a root (all true of what `fit` leaves, by C01): the
translated code raises nothing, terminates, returns the model's labels and leaves the model's
relevance marks. -/
theorem predict_refines (WQ : Int → Int → Option Int) (sg : SG) (f : Forest) (hr : RelF sg f)
    (hs : f.Sized) (ht : sg.trained = true) (hn : 0 < f.n)
    (hos : f.order.size = f.n) (hol : ∀ x, x ∈ f.order.toList → x < f.n)
    (hc : ∀ i, i < f.n → ChainOk f (f.n - 1) i)
    (psg0 : SG) (ds : List (Nat → Int)) (hq : QuerySG psg0 ds.length) (hW : WQAgree f.n WQ ds) :
    ∃ sg' preds, predict WQ sg psg0 = some (sg', preds) ∧
      RelF sg' (predictBatch f ds).1 ∧ preds = labelsInt (predictBatch f ds).2 ∧
      (∀ o, o ∈ (predictBatch f ds).2 → o ≠ none) := by
  obtain ⟨psg, sg', hfold, hrel, hpsz, hlen, hlab, hnone⟩ :=
    fold_inv WQ sg f hr hs hn hos hol hc psg0 ds hq.sz hW ds.length (Nat.le_refl _)
  rw [List.take_length] at hrel hlen hlab hnone
  refine ⟨sg', psg.predicted_label, ?_, hrel, ?_, hnone⟩
  · rw [predict_eq, ht]
    simp only [Bool.not_true, Bool.false_eq_true, if_false]
    unfold Py.forRange
    rw [hq.n, Int.toNat_natCast, hfold]
    rfl
  · apply Array.ext_getElem?
    intro k
    by_cases hk : k < ds.length
    · exact hlab k hk
    · rw [Array.getElem?_eq_none (by omega), Array.getElem?_eq_none (by rw [labelsInt_size]; omega)]

/-- an untrained classifier: `predict` raises (`BuildError`). -/
theorem predict_untrained (WQ : Int → Int → Option Int) (sg psg0 : SG) (ht : sg.trained = false) :
    predict WQ sg psg0 = none := by
  rw [predict_eq, ht]
  rfl


end Opf.SupRefine
