import OpfVerif.Model.HeapSpec
import Mathlib.Data.Finset.Card

/-
Helper lemmas for property C05 (`OpfVerif/Props/C05.lean`): the indexed binary heap model
`Opf.Heap` keeps its invariant `Inv` under every legal operation and behaves as a priority queue.

Layout: comparison facts; array reads behind the accessors (`slot`, `posOf`, `colorOf`, `costOf`,
`key`); `WF` (= `Inv` without the order) and `Ord`; `swap`; `goUp` (`AlmostUp`), `goDown`
(`pick_spec`, `AlmostDown`); counting (pigeonhole on the slots); `insert`, `remove`, `setCost`,
`update`; `init`, emptiness/fullness; histories (`step`, `run`); decidability instances.
-/
namespace Opf.Heap

/-! ### the comparison -/

theorem better_irrefl (m : Bool) (a : Int) : better m a a = false := by
  unfold better; cases m <;> simp

theorem nb_trans {m : Bool} {a b c : Int} (h1 : better m a b = false) (h2 : better m b c = false) :
    better m a c = false := by
  unfold better at *; cases m <;> simp at * <;> omega

theorem nb_of_better {m : Bool} {a b : Int} (h1 : better m a b = true) : better m b a = false := by
  unfold better at *; cases m <;> simp at * <;> omega

theorem better_trans {m : Bool} {a b c : Int} (h1 : better m a b = true) (h2 : better m b c = true) :
    better m a c = true := by
  unfold better at *; cases m <;> simp at * <;> omega

theorem nb_total {m : Bool} {a b : Int} (h1 : ¬ better m a b = true) : better m a b = false := by
  simpa using h1

/-! ### array reads behind the accessors -/

theorem getD_set {α} (a : Array α) (i k : Nat) (v d : α) :
    (a.setIfInBounds i v).getD k d = if k = i ∧ i < a.size then v else a.getD k d := by
  simp only [Array.getD_eq_getD_getElem?, Array.getElem?_setIfInBounds]
  by_cases e : i = k
  · subst e
    by_cases l : i < a.size
    · simp [l]
    · simp [l]
  · have : ¬ k = i := fun h => e h.symm
    simp [e, this]

theorem getD_ge {α} (a : Array α) (k : Nat) (d : α) (hk : a.size ≤ k) : a.getD k d = d := by
  simp [Array.getD_eq_getD_getElem?, hk]

theorem swap_slot (h : Heap) (i j k : Nat) (hi : i < h.p.size) (hj : j < h.p.size) :
    (h.swap i j).slot k = if k = i then h.slot j else if k = j then h.slot i else h.slot k := by
  unfold swap slot
  simp only [getD_set, Array.size_setIfInBounds]
  by_cases e1 : k = i
  · simp [-Array.getD_eq_getD_getElem?, e1, hi]
  · by_cases e2 : k = j
    · subst e2; simp [-Array.getD_eq_getD_getElem?, e1, hj]
    · simp [-Array.getD_eq_getD_getElem?, e1, e2]

theorem swap_posOf (h : Heap) (i j x : Nat) (hi : h.slot i < h.pos.size) (hj : h.slot j < h.pos.size) :
    (h.swap i j).posOf x = if x = h.slot i then j else if x = h.slot j then i else h.posOf x := by
  unfold swap posOf
  simp only [getD_set, Array.size_setIfInBounds]
  by_cases e1 : x = h.slot i
  · simp [-Array.getD_eq_getD_getElem?, e1, hi]
  · by_cases e2 : x = h.slot j
    · subst e2; simp [-Array.getD_eq_getD_getElem?, e1, hj]
    · simp [-Array.getD_eq_getD_getElem?, e1, e2]

@[simp] theorem swap_costOf (h : Heap) (i j x : Nat) : (h.swap i j).costOf x = h.costOf x := rfl
@[simp] theorem swap_colorOf (h : Heap) (i j x : Nat) : (h.swap i j).colorOf x = h.colorOf x := rfl
@[simp] theorem swap_p_size (h : Heap) (i j : Nat) : (h.swap i j).p.size = h.p.size := by
  simp [swap]
@[simp] theorem swap_pos_size (h : Heap) (i j : Nat) : (h.swap i j).pos.size = h.pos.size := by
  simp [swap]

/-! ### well-formedness without the order, and the order -/

structure WF (h : Heap) : Prop where
  size_cost : h.cost.size = h.size
  size_color : h.color.size = h.size
  size_p : h.p.size = h.size
  size_pos : h.pos.size = h.size
  cnt_le : h.cnt ≤ h.size
  slot_lt : ∀ k, k < h.cnt → h.slot k < h.size
  pos_slot : ∀ k, k < h.cnt → h.posOf (h.slot k) = k
  gray_iff : ∀ x, x < h.size → (h.colorOf x = GRAY ↔ ∃ k, k < h.cnt ∧ h.slot k = x)

def Ord (h : Heap) : Prop :=
  ∀ k, 0 < k → k < h.cnt → better h.isMax (h.key k) (h.key ((k - 1) / 2)) = false

theorem inv_iff (h : Heap) : Inv h ↔ WF h ∧ Ord h :=
  ⟨fun ⟨a, b, c, d, e, f, g, i, j⟩ => ⟨⟨a, b, c, d, e, f, g, i⟩, j⟩,
   fun ⟨⟨a, b, c, d, e, f, g, i⟩, j⟩ => ⟨a, b, c, d, e, f, g, i, j⟩⟩

theorem WF.slot_inj {h : Heap} (w : WF h) {k l : Nat} (hk : k < h.cnt) (hl : l < h.cnt)
    (e : h.slot k = h.slot l) : k = l := by
  have := w.pos_slot k hk
  rw [e, w.pos_slot l hl] at this
  exact this.symm

theorem WF.lt_p {h : Heap} (w : WF h) {k : Nat} (hk : k < h.cnt) : k < h.p.size := by
  have := w.cnt_le; have := w.size_p; omega

theorem WF.slot_lt_pos {h : Heap} (w : WF h) {k : Nat} (hk : k < h.cnt) : h.slot k < h.pos.size := by
  have := w.slot_lt k hk; have := w.size_pos; omega

/-- the transposition of two indices. -/
def tr (i j k : Nat) : Nat := if k = i then j else if k = j then i else k

theorem tr_tr (i j k : Nat) : tr i j (tr i j k) = k := by
  unfold tr
  by_cases e1 : k = i
  · subst e1
    by_cases e2 : j = k
    · subst e2; simp
    · simp [e2]
  · by_cases e2 : k = j
    · subst e2; simp
    · simp [e1, e2]

theorem tr_lt {i j k n : Nat} (hi : i < n) (hj : j < n) (hk : k < n) : tr i j k < n := by
  unfold tr; split
  · exact hj
  · split
    · exact hi
    · exact hk

theorem swap_slot_tr (h : Heap) (i j k : Nat) (hi : i < h.p.size) (hj : j < h.p.size) :
    (h.swap i j).slot k = h.slot (tr i j k) := by
  rw [swap_slot h i j k hi hj]; unfold tr
  split
  · rfl
  · split <;> rfl

theorem WF_swap {h : Heap} (w : WF h) {i j : Nat} (hi : i < h.cnt) (hj : j < h.cnt) :
    WF (h.swap i j) := by
  have hip := w.lt_p hi
  have hjp := w.lt_p hj
  have hsi := w.slot_lt_pos hi
  have hsj := w.slot_lt_pos hj
  refine ⟨?_, ?_, ?_, ?_, w.cnt_le, ?_, ?_, ?_⟩
  · rw [swap_cost, swap_size]; exact w.size_cost
  · rw [swap_color, swap_size]; exact w.size_color
  · rw [swap_p_size, swap_size]; exact w.size_p
  · rw [swap_pos_size, swap_size]; exact w.size_pos
  · intro k hk
    rw [swap_slot_tr h i j k hip hjp]
    exact w.slot_lt _ (tr_lt hi hj hk)
  · intro k hk
    rw [swap_cnt] at hk
    rw [swap_slot h i j k hip hjp, swap_posOf h i j _ hsi hsj]
    by_cases e1 : k = i
    · subst e1
      rw [if_pos rfl]
      by_cases e : h.slot j = h.slot k
      · rw [if_pos e]; exact w.slot_inj hj hk e
      · rw [if_neg e, if_pos rfl]
    · rw [if_neg e1]
      by_cases e2 : k = j
      · subst e2
        rw [if_pos rfl, if_pos rfl]
      · rw [if_neg e2]
        have n1 : ¬ h.slot k = h.slot i := fun e => e1 (w.slot_inj hk hi e)
        have n2 : ¬ h.slot k = h.slot j := fun e => e2 (w.slot_inj hk hj e)
        rw [if_neg n1, if_neg n2]
        exact w.pos_slot k hk
  · intro x hx
    rw [swap_colorOf, w.gray_iff x hx]
    constructor
    · rintro ⟨k, hk, e⟩
      refine ⟨tr i j k, tr_lt hi hj hk, ?_⟩
      rw [swap_slot_tr h i j _ hip hjp, tr_tr]; exact e
    · rintro ⟨k, hk, e⟩
      rw [swap_slot_tr h i j _ hip hjp] at e
      exact ⟨tr i j k, tr_lt hi hj hk, e⟩

theorem key_swap {h : Heap} (w : WF h) {i j : Nat} (hi : i < h.cnt) (hj : j < h.cnt) (k : Nat) :
    (h.swap i j).key k = if k = i then h.key j else if k = j then h.key i else h.key k := by
  unfold key
  rw [swap_slot h i j k (w.lt_p hi) (w.lt_p hj)]
  simp only [swap_costOf]
  split
  · rfl
  · split <;> rfl

/-! ### `goUp` -/

@[simp] theorem goUp_cnt (h : Heap) (i : Nat) : (goUp h i).cnt = h.cnt := by
  fun_induction goUp h i <;> simp_all
@[simp] theorem goUp_size (h : Heap) (i : Nat) : (goUp h i).size = h.size := by
  fun_induction goUp h i <;> simp_all
@[simp] theorem goUp_isMax (h : Heap) (i : Nat) : (goUp h i).isMax = h.isMax := by
  fun_induction goUp h i <;> simp_all
@[simp] theorem goUp_cost (h : Heap) (i : Nat) : (goUp h i).cost = h.cost := by
  fun_induction goUp h i <;> simp_all
@[simp] theorem goUp_color (h : Heap) (i : Nat) : (goUp h i).color = h.color := by
  fun_induction goUp h i <;> simp_all

theorem WF_goUp {h : Heap} {i : Nat} (w : WF h) (hi : i < h.cnt) : WF (goUp h i) := by
  fun_induction goUp h i with
  | case1 h => exact w
  | case2 h i hi0 hb ih => exact ih (WF_swap w hi (by omega)) (by rw [swap_cnt]; omega)
  | case3 h i hi0 hb => exact w

def AlmostUp (h : Heap) (i : Nat) : Prop :=
  (∀ k, 0 < k → k < h.cnt → k ≠ i → better h.isMax (h.key k) (h.key ((k - 1) / 2)) = false) ∧
  (∀ c, 0 < i → c < h.cnt → 0 < c → (c - 1) / 2 = i →
    better h.isMax (h.key c) (h.key ((i - 1) / 2)) = false)

theorem Ord_goUp {h : Heap} {i : Nat} (w : WF h) (hi : i < h.cnt) (a : AlmostUp h i) :
    Ord (goUp h i) := by
  fun_induction goUp h i with
  | case1 h =>
    intro k hk hks
    exact a.1 k hk hks (by omega)
  | case2 h i hi0 hb ih =>
    have hj : (i - 1) / 2 < h.cnt := by omega
    apply ih (WF_swap w hi hj) (by rw [swap_cnt]; omega)
    obtain ⟨h1, h2⟩ := a
    have hji := nb_of_better hb
    constructor
    · intro k hk hks hne
      rw [swap_cnt] at hks
      rw [swap_isMax, key_swap w hi hj, key_swap w hi hj]
      by_cases e1 : k = i
      · subst e1
        rw [if_pos rfl]
        have : ¬ (k - 1) / 2 = k := by omega
        rw [if_neg this, if_pos rfl]
        exact hji
      · rw [if_neg e1, if_neg hne]
        by_cases e2 : (k - 1) / 2 = i
        · rw [if_pos e2]
          exact h2 k (by omega) hks hk e2
        · rw [if_neg e2]
          have := h1 k hk hks e1
          by_cases e5 : (k - 1) / 2 = (i - 1) / 2
          · rw [if_pos e5]; rw [e5] at this; exact nb_trans this hji
          · rw [if_neg e5]; exact this
    · intro c hj0 hcs hc hce
      rw [swap_cnt] at hcs
      rw [swap_isMax, key_swap w hi hj, key_swap w hi hj]
      have hjj := h1 ((i - 1) / 2) hj0 hj (by omega)
      have e3 : ¬ (((i - 1) / 2 - 1) / 2 = (i - 1) / 2) := by omega
      have e4 : ¬ (((i - 1) / 2 - 1) / 2 = i) := by omega
      rw [if_neg e4, if_neg e3]
      by_cases e1 : c = i
      · subst e1
        rw [if_pos rfl]; exact hjj
      · have := h1 c hc hcs e1
        have e2 : ¬ (c = (i - 1) / 2) := by omega
        rw [if_neg e1, if_neg e2]
        rw [hce] at this
        exact nb_trans this hjj
  | case3 h i hi0 hb =>
    intro k hk hks
    by_cases e : k = i
    · subst e; exact nb_total hb
    · exact a.1 k hk hks e

/-! ### `goDown` -/

theorem pick_spec (h : Heap) (i : Nat) :
    (∀ c, 0 < c → c < h.cnt → (c - 1) / 2 = i →
      better h.isMax (h.key c) (h.key (h.pick i)) = false) ∧
    (h.pick i ≠ i → (h.pick i - 1) / 2 = i ∧ 0 < h.pick i ∧ h.pick i < h.cnt ∧
      better h.isMax (h.key (h.pick i)) (h.key i) = true) := by
  have hc : ∀ c, 0 < c → (c - 1) / 2 = i → c = 2 * i + 1 ∨ c = 2 * i + 2 := by omega
  unfold pick
  simp only
  generalize h.isMax = m
  by_cases A : 2 * i + 1 < h.cnt ∧ better m (h.key (2 * i + 1)) (h.key i) = true
  · rw [if_pos A]
    by_cases B : 2 * i + 2 < h.cnt ∧ better m (h.key (2 * i + 2)) (h.key (2 * i + 1)) = true
    · rw [if_pos B]
      refine ⟨fun c c0 hcc hp => ?_, fun _ => ⟨by omega, by omega, B.1, better_trans B.2 A.2⟩⟩
      rcases hc c c0 hp with rfl | rfl
      · exact nb_of_better B.2
      · exact better_irrefl _ _
    · rw [if_neg B]
      refine ⟨fun c c0 hcc hp => ?_, fun _ => ⟨by omega, by omega, A.1, A.2⟩⟩
      rcases hc c c0 hp with rfl | rfl
      · exact better_irrefl _ _
      · exact nb_total (fun hb => B ⟨hcc, hb⟩)
  · rw [if_neg A]
    by_cases B : 2 * i + 2 < h.cnt ∧ better m (h.key (2 * i + 2)) (h.key i) = true
    · rw [if_pos B]
      refine ⟨fun c c0 hcc hp => ?_, fun _ => ⟨by omega, by omega, B.1, B.2⟩⟩
      rcases hc c c0 hp with rfl | rfl
      · exact nb_trans (nb_total (fun hb => A ⟨hcc, hb⟩)) (nb_of_better B.2)
      · exact better_irrefl _ _
    · rw [if_neg B]
      refine ⟨fun c c0 hcc hp => ?_, fun hne => absurd rfl hne⟩
      rcases hc c c0 hp with rfl | rfl
      · exact nb_total (fun hb => A ⟨hcc, hb⟩)
      · exact nb_total (fun hb => B ⟨hcc, hb⟩)

@[simp] theorem goDown_cnt (h : Heap) (i : Nat) : (goDown h i).cnt = h.cnt := by
  fun_induction goDown h i <;> simp_all
@[simp] theorem goDown_size (h : Heap) (i : Nat) : (goDown h i).size = h.size := by
  fun_induction goDown h i <;> simp_all
@[simp] theorem goDown_isMax (h : Heap) (i : Nat) : (goDown h i).isMax = h.isMax := by
  fun_induction goDown h i <;> simp_all
@[simp] theorem goDown_cost (h : Heap) (i : Nat) : (goDown h i).cost = h.cost := by
  fun_induction goDown h i <;> simp_all
@[simp] theorem goDown_color (h : Heap) (i : Nat) : (goDown h i).color = h.color := by
  fun_induction goDown h i <;> simp_all

theorem WF_goDown {h : Heap} {i : Nat} (w : WF h) : WF (goDown h i) := by
  fun_induction goDown h i with
  | case1 h i hp => exact w
  | case2 h i hp ih =>
    have := (pick_spec h i).2 hp
    exact ih (WF_swap w this.2.2.1 (by omega))

def AlmostDown (h : Heap) (i : Nat) : Prop :=
  (∀ k, 0 < k → k < h.cnt → (k - 1) / 2 ≠ i →
    better h.isMax (h.key k) (h.key ((k - 1) / 2)) = false) ∧
  (∀ c, 0 < i → c < h.cnt → 0 < c → (c - 1) / 2 = i →
    better h.isMax (h.key c) (h.key ((i - 1) / 2)) = false)

theorem Ord_goDown {h : Heap} {i : Nat} (w : WF h) (a : AlmostDown h i) : Ord (goDown h i) := by
  fun_induction goDown h i with
  | case1 h i hp =>
    intro k hk hks
    by_cases e : (k - 1) / 2 = i
    · have := (pick_spec h i).1 k hk hks e
      rw [hp] at this; rw [e]; exact this
    · exact a.1 k hk hks e
  | case2 h i hp ih =>
    obtain ⟨hpar, hj0, hj, hb⟩ := (pick_spec h i).2 hp
    have hsib := (pick_spec h i).1
    generalize h.pick i = j at *
    have hi : i < h.cnt := by omega
    apply ih (WF_swap w hj hi)
    obtain ⟨h1, h2⟩ := a
    have hij := nb_of_better hb
    constructor
    · intro k hk hks hne
      rw [swap_cnt] at hks
      rw [swap_isMax, key_swap w hj hi, key_swap w hj hi]
      by_cases e1 : k = j
      · subst e1
        rw [if_pos rfl]
        have n1 : ¬ (k - 1) / 2 = k := by omega
        rw [if_neg n1, if_pos hpar]
        exact hij
      · rw [if_neg e1, if_neg hne]
        by_cases e2 : k = i
        · subst e2
          rw [if_pos rfl]
          have n1 : ¬ (k - 1) / 2 = k := by omega
          rw [if_neg n1]
          exact h2 j hk hj hj0 hpar
        · rw [if_neg e2]
          by_cases e3 : (k - 1) / 2 = i
          · rw [if_pos e3]
            exact hsib k hk hks e3
          · rw [if_neg e3]
            exact h1 k hk hks e3
    · intro c _ hcs hc hce
      rw [swap_cnt] at hcs
      rw [swap_isMax, key_swap w hj hi, key_swap w hj hi]
      have n1 : ¬ c = j := by omega
      have n2 : ¬ c = i := by omega
      have n3 : ¬ (j - 1) / 2 = j := by omega
      rw [if_neg n1, if_neg n2, if_neg n3, if_pos hpar]
      have := h1 c hc hcs (by omega)
      rw [hce] at this
      exact this

@[simp] theorem goUp_costOf (h : Heap) (i x : Nat) : (goUp h i).costOf x = h.costOf x := by
  unfold costOf; rw [goUp_cost]
@[simp] theorem goUp_colorOf (h : Heap) (i x : Nat) : (goUp h i).colorOf x = h.colorOf x := by
  unfold colorOf; rw [goUp_color]
@[simp] theorem goDown_costOf (h : Heap) (i x : Nat) : (goDown h i).costOf x = h.costOf x := by
  unfold costOf; rw [goDown_cost]
@[simp] theorem goDown_colorOf (h : Heap) (i x : Nat) : (goDown h i).colorOf x = h.colorOf x := by
  unfold colorOf; rw [goDown_color]

/-! ### counting -/

theorem WF.surj_of_full {h : Heap} (w : WF h) (hf : h.cnt = h.size) (x : Nat) (hx : x < h.size) :
    ∃ k, k < h.cnt ∧ h.slot k = x := by
  have hsub : (Finset.range h.cnt).image h.slot ⊆ Finset.range h.size := by
    intro y hy
    rw [Finset.mem_image] at hy
    obtain ⟨k, hk, rfl⟩ := hy
    exact Finset.mem_range.2 (w.slot_lt k (Finset.mem_range.1 hk))
  have hinj : Set.InjOn h.slot (Finset.range h.cnt : Finset Nat) := by
    intro a ha b hb e
    exact w.slot_inj (Finset.mem_range.1 (Finset.mem_coe.1 ha)) (Finset.mem_range.1 (Finset.mem_coe.1 hb)) e
  have hcard : ((Finset.range h.cnt).image h.slot).card = h.cnt := by
    rw [Finset.card_image_of_injOn hinj, Finset.card_range]
  have heq := Finset.eq_of_subset_of_card_le hsub (by rw [hcard, Finset.card_range, hf])
  have hx' : x ∈ Finset.range h.size := Finset.mem_range.2 hx
  rw [← heq, Finset.mem_image] at hx'
  obtain ⟨k, hk, e⟩ := hx'
  exact ⟨k, Finset.mem_range.1 hk, e⟩

theorem WF.full_of_all {h : Heap} (w : WF h)
    (hall : ∀ x, x < h.size → ∃ k, k < h.cnt ∧ h.slot k = x) : h.cnt = h.size := by
  have hmaps : Set.MapsTo h.posOf (Finset.range h.size : Finset Nat) (Finset.range h.cnt : Finset Nat) := by
    intro x hx
    obtain ⟨k, hk, e⟩ := hall x (Finset.mem_range.1 (Finset.mem_coe.1 hx))
    rw [← e, Finset.mem_coe, Finset.mem_range, w.pos_slot k hk]
    exact hk
  have hinj : Set.InjOn h.posOf (Finset.range h.size : Finset Nat) := by
    intro x hx y hy e
    obtain ⟨k, hk, ek⟩ := hall x (Finset.mem_range.1 (Finset.mem_coe.1 hx))
    obtain ⟨l, hl, el⟩ := hall y (Finset.mem_range.1 (Finset.mem_coe.1 hy))
    rw [← ek, ← el, w.pos_slot k hk, w.pos_slot l hl] at e
    rw [← ek, ← el, e]
  have := Finset.card_le_card_of_injOn h.posOf hmaps hinj
  rw [Finset.card_range, Finset.card_range] at this
  have := w.cnt_le
  omega

/-! ### `insert` -/

def insPre (h : Heap) (x : Nat) : Heap :=
  { h with p := h.p.setIfInBounds h.cnt x, color := h.color.setIfInBounds x GRAY,
           pos := h.pos.setIfInBounds x h.cnt, cnt := h.cnt + 1 }

theorem insert_eq (h : Heap) (x : Nat) :
    h.insert x = if h.cnt = h.size then (h, false) else ((insPre h x).goUp h.cnt, true) := rfl

theorem insert_full (h : Heap) (x : Nat) (hfull : h.cnt = h.size) : h.insert x = (h, false) := by
  rw [insert_eq, if_pos hfull]

theorem insPre_slot (h : Heap) (x k : Nat) :
    (insPre h x).slot k = if k = h.cnt ∧ h.cnt < h.p.size then x else h.slot k := by
  unfold insPre slot; exact getD_set _ _ _ _ _
theorem insPre_colorOf (h : Heap) (x y : Nat) :
    (insPre h x).colorOf y = if y = x ∧ x < h.color.size then GRAY else h.colorOf y := by
  unfold insPre colorOf; exact getD_set _ _ _ _ _
theorem insPre_posOf (h : Heap) (x y : Nat) :
    (insPre h x).posOf y = if y = x ∧ x < h.pos.size then h.cnt else h.posOf y := by
  unfold insPre posOf; exact getD_set _ _ _ _ _
@[simp] theorem insPre_costOf (h : Heap) (x y : Nat) : (insPre h x).costOf y = h.costOf y := rfl
@[simp] theorem insPre_cnt (h : Heap) (x : Nat) : (insPre h x).cnt = h.cnt + 1 := rfl
@[simp] theorem insPre_size (h : Heap) (x : Nat) : (insPre h x).size = h.size := rfl
@[simp] theorem insPre_isMax (h : Heap) (x : Nat) : (insPre h x).isMax = h.isMax := rfl

theorem WF.not_gray_slot {h : Heap} (w : WF h) {x k : Nat} (hx : x < h.size)
    (hg : h.colorOf x ≠ GRAY) (hk : k < h.cnt) : h.slot k ≠ x :=
  fun e => hg ((w.gray_iff x hx).2 ⟨k, hk, e⟩)

theorem WF_insPre {h : Heap} (w : WF h) {x : Nat} (hx : x < h.size) (hg : h.colorOf x ≠ GRAY)
    (hnf : h.cnt < h.size) : WF (insPre h x) := by
  have hcp : h.cnt < h.p.size := by rw [w.size_p]; exact hnf
  have hxc : x < h.color.size := by rw [w.size_color]; exact hx
  have hxp : x < h.pos.size := by rw [w.size_pos]; exact hx
  refine ⟨?_, ?_, ?_, ?_, ?_, ?_, ?_, ?_⟩
  · exact w.size_cost
  · show (h.color.setIfInBounds x GRAY).size = h.size
    rw [Array.size_setIfInBounds]; exact w.size_color
  · show (h.p.setIfInBounds h.cnt x).size = h.size
    rw [Array.size_setIfInBounds]; exact w.size_p
  · show (h.pos.setIfInBounds x h.cnt).size = h.size
    rw [Array.size_setIfInBounds]; exact w.size_pos
  · show h.cnt + 1 ≤ h.size
    omega
  · intro k hk
    rw [insPre_slot, insPre_size]
    split
    · exact hx
    · rename_i hn
      exact w.slot_lt k (by rw [insPre_cnt] at hk; omega)
  · intro k hk
    rw [insPre_cnt] at hk
    rw [insPre_slot, insPre_posOf]
    by_cases e : k = h.cnt
    · have p1 : k = h.cnt ∧ h.cnt < h.p.size := ⟨e, hcp⟩
      rw [if_pos p1, if_pos ⟨rfl, hxp⟩]; exact e.symm
    · have hk' : k < h.cnt := by omega
      have n1 : ¬ (k = h.cnt ∧ h.cnt < h.p.size) := fun a => e a.1
      rw [if_neg n1]
      have n2 : ¬ (h.slot k = x ∧ x < h.pos.size) := fun a => w.not_gray_slot hx hg hk' a.1
      rw [if_neg n2]
      exact w.pos_slot k hk'
  · intro y hy
    rw [insPre_colorOf]
    by_cases e : y = x
    · subst e
      rw [if_pos ⟨rfl, hxc⟩]
      refine ⟨fun _ => ⟨h.cnt, by rw [insPre_cnt]; omega, ?_⟩, fun _ => rfl⟩
      rw [insPre_slot, if_pos ⟨rfl, hcp⟩]
    · have n1 : ¬ (y = x ∧ x < h.color.size) := fun a => e a.1
      rw [if_neg n1, w.gray_iff y hy]
      constructor
      · rintro ⟨k, hk, ek⟩
        refine ⟨k, by rw [insPre_cnt]; omega, ?_⟩
        have n2 : ¬ (k = h.cnt ∧ h.cnt < h.p.size) := fun a => by omega
        rw [insPre_slot, if_neg n2]; exact ek
      · rintro ⟨k, hk, ek⟩
        rw [insPre_cnt] at hk
        rw [insPre_slot] at ek
        by_cases e2 : k = h.cnt
        · rw [if_pos ⟨e2, hcp⟩] at ek; exact absurd ek.symm e
        · have n2 : ¬ (k = h.cnt ∧ h.cnt < h.p.size) := fun a => e2 a.1
          rw [if_neg n2] at ek
          exact ⟨k, by omega, ek⟩

theorem insPre_key (h : Heap) (x k : Nat) (hk : k ≠ h.cnt) : (insPre h x).key k = h.key k := by
  unfold key
  have n2 : ¬ (k = h.cnt ∧ h.cnt < h.p.size) := fun a => hk a.1
  rw [insPre_slot, if_neg n2, insPre_costOf]

theorem AlmostUp_insPre {h : Heap} (o : Ord h) (x : Nat) : AlmostUp (insPre h x) h.cnt := by
  constructor
  · intro k hk hks hne
    rw [insPre_cnt] at hks
    rw [insPre_isMax, insPre_key h x k hne, insPre_key h x _ (by omega)]
    exact o k hk (by omega)
  · intro c _ hcs hc hce
    rw [insPre_cnt] at hcs
    omega

theorem insert_spec (h : Heap) (x : Nat) (hinv : Inv h) (hx : x < h.size) (hw : h.colorOf x = WHITE) :
    (h.insert x).2 = true ∧ Inv (h.insert x).1 ∧
    (h.insert x).1.colorOf x = GRAY ∧
    (∀ y, y ≠ x → (h.insert x).1.colorOf y = h.colorOf y) ∧
    (∀ y, (h.insert x).1.costOf y = h.costOf y) ∧
    (h.insert x).1.cnt = h.cnt + 1 := by
  obtain ⟨w, o⟩ := (inv_iff h).1 hinv
  have hg : h.colorOf x ≠ GRAY := by rw [hw]; decide
  have hnf : h.cnt ≠ h.size := by
    intro hf
    obtain ⟨k, hk, e⟩ := w.surj_of_full hf x hx
    exact w.not_gray_slot hx hg hk e
  have hlt : h.cnt < h.size := by have := w.cnt_le; omega
  have wpre := WF_insPre w hx hg hlt
  have hxc : x < h.color.size := by rw [w.size_color]; exact hx
  rw [insert_eq, if_neg hnf]
  refine ⟨rfl, (inv_iff _).2 ⟨WF_goUp wpre (by rw [insPre_cnt]; omega),
    Ord_goUp wpre (by rw [insPre_cnt]; omega) (AlmostUp_insPre o x)⟩, ?_, ?_, ?_, ?_⟩
  · show ((insPre h x).goUp h.cnt).colorOf x = GRAY
    rw [goUp_colorOf, insPre_colorOf, if_pos ⟨rfl, hxc⟩]
  · intro y hy
    show ((insPre h x).goUp h.cnt).colorOf y = h.colorOf y
    have n1 : ¬ (y = x ∧ x < h.color.size) := fun a => hy a.1
    rw [goUp_colorOf, insPre_colorOf, if_neg n1]
  · intro y
    show ((insPre h x).goUp h.cnt).costOf y = h.costOf y
    rw [goUp_costOf, insPre_costOf]
  · show ((insPre h x).goUp h.cnt).cnt = h.cnt + 1
    rw [goUp_cnt, insPre_cnt]

/-! ### `remove` -/

def remPre (h : Heap) : Heap :=
  { h with color := h.color.setIfInBounds (h.slot 0) BLACK,
           p := h.p.setIfInBounds 0 (h.slot (h.cnt - 1)),
           pos := h.pos.setIfInBounds (h.slot (h.cnt - 1)) 0,
           cnt := h.cnt - 1 }

theorem remove_eq (h : Heap) :
    h.remove = if h.cnt = 0 then (h, none) else ((remPre h).goDown 0, some (h.slot 0)) := rfl

theorem remove_empty (h : Heap) (hempty : h.cnt = 0) : h.remove = (h, none) := by
  rw [remove_eq, if_pos hempty]

theorem remPre_slot (h : Heap) (k : Nat) :
    (remPre h).slot k = if k = 0 ∧ 0 < h.p.size then h.slot (h.cnt - 1) else h.slot k := by
  unfold remPre slot; exact getD_set _ _ _ _ _
theorem remPre_colorOf (h : Heap) (y : Nat) :
    (remPre h).colorOf y = if y = h.slot 0 ∧ h.slot 0 < h.color.size then BLACK else h.colorOf y := by
  unfold remPre colorOf; exact getD_set _ _ _ _ _
theorem remPre_posOf (h : Heap) (y : Nat) :
    (remPre h).posOf y =
      if y = h.slot (h.cnt - 1) ∧ h.slot (h.cnt - 1) < h.pos.size then 0 else h.posOf y := by
  unfold remPre posOf; exact getD_set _ _ _ _ _
@[simp] theorem remPre_costOf (h : Heap) (y : Nat) : (remPre h).costOf y = h.costOf y := rfl
@[simp] theorem remPre_cnt (h : Heap) : (remPre h).cnt = h.cnt - 1 := rfl
@[simp] theorem remPre_size (h : Heap) : (remPre h).size = h.size := rfl
@[simp] theorem remPre_isMax (h : Heap) : (remPre h).isMax = h.isMax := rfl

theorem WF_remPre {h : Heap} (w : WF h) (hne : 0 < h.cnt) : WF (remPre h) := by
  have hn : h.cnt - 1 < h.cnt := by omega
  have h0p : 0 < h.p.size := w.lt_p hne
  have hsn : h.slot (h.cnt - 1) < h.pos.size := w.slot_lt_pos hn
  have hs0 : h.slot 0 < h.color.size := by rw [w.size_color]; exact w.slot_lt 0 hne
  refine ⟨?_, ?_, ?_, ?_, ?_, ?_, ?_, ?_⟩
  · exact w.size_cost
  · show (h.color.setIfInBounds (h.slot 0) BLACK).size = h.size
    rw [Array.size_setIfInBounds]; exact w.size_color
  · show (h.p.setIfInBounds 0 (h.slot (h.cnt - 1))).size = h.size
    rw [Array.size_setIfInBounds]; exact w.size_p
  · show (h.pos.setIfInBounds (h.slot (h.cnt - 1)) 0).size = h.size
    rw [Array.size_setIfInBounds]; exact w.size_pos
  · show h.cnt - 1 ≤ h.size
    have := w.cnt_le; omega
  · intro k hk
    rw [remPre_cnt] at hk
    rw [remPre_slot, remPre_size]
    split
    · exact w.slot_lt _ hn
    · exact w.slot_lt k (by omega)
  · intro k hk
    rw [remPre_cnt] at hk
    rw [remPre_slot, remPre_posOf]
    by_cases e : k = 0
    · have p1 : k = 0 ∧ 0 < h.p.size := ⟨e, h0p⟩
      rw [if_pos p1, if_pos ⟨rfl, hsn⟩]; exact e.symm
    · have n1 : ¬ (k = 0 ∧ 0 < h.p.size) := fun a => e a.1
      have hk' : k < h.cnt := by omega
      have n2 : ¬ (h.slot k = h.slot (h.cnt - 1) ∧ h.slot (h.cnt - 1) < h.pos.size) := fun a => by
        have := w.slot_inj hk' hn a.1; omega
      rw [if_neg n1, if_neg n2]
      exact w.pos_slot k hk'
  · intro y hy
    rw [remPre_colorOf]
    by_cases e : y = h.slot 0
    · rw [if_pos ⟨e, hs0⟩]
      refine ⟨fun a => absurd a (by decide), ?_⟩
      rintro ⟨k, hk, ek⟩
      exfalso
      rw [remPre_cnt] at hk
      rw [remPre_slot, e] at ek
      by_cases e0 : k = 0
      · rw [if_pos ⟨e0, h0p⟩] at ek
        have := w.slot_inj hn hne ek; omega
      · have n1 : ¬ (k = 0 ∧ 0 < h.p.size) := fun a => e0 a.1
        rw [if_neg n1] at ek
        have := w.slot_inj (show k < h.cnt by omega) hne ek; omega
    · have n0 : ¬ (y = h.slot 0 ∧ h.slot 0 < h.color.size) := fun a => e a.1
      rw [if_neg n0, w.gray_iff y hy]
      constructor
      · rintro ⟨k, hk, ek⟩
        have k0 : k ≠ 0 := fun k0 => e (by rw [← ek, k0])
        by_cases e2 : k = h.cnt - 1
        · refine ⟨0, by rw [remPre_cnt]; omega, ?_⟩
          rw [remPre_slot, if_pos ⟨rfl, h0p⟩, ← e2]; exact ek
        · refine ⟨k, by rw [remPre_cnt]; omega, ?_⟩
          have n1 : ¬ (k = 0 ∧ 0 < h.p.size) := fun a => k0 a.1
          rw [remPre_slot, if_neg n1]; exact ek
      · rintro ⟨k, hk, ek⟩
        rw [remPre_cnt] at hk
        rw [remPre_slot] at ek
        by_cases e0 : k = 0
        · rw [if_pos ⟨e0, h0p⟩] at ek
          exact ⟨h.cnt - 1, hn, ek⟩
        · have n1 : ¬ (k = 0 ∧ 0 < h.p.size) := fun a => e0 a.1
          rw [if_neg n1] at ek
          exact ⟨k, by omega, ek⟩

theorem remPre_key (h : Heap) (k : Nat) (hk : k ≠ 0) : (remPre h).key k = h.key k := by
  unfold key
  have n2 : ¬ (k = 0 ∧ 0 < h.p.size) := fun a => hk a.1
  rw [remPre_slot, if_neg n2, remPre_costOf]

theorem AlmostDown_remPre {h : Heap} (o : Ord h) : AlmostDown (remPre h) 0 := by
  constructor
  · intro k hk hks hne
    rw [remPre_cnt] at hks
    rw [remPre_isMax, remPre_key h k (by omega), remPre_key h _ hne]
    exact o k hk (by omega)
  · intro c h0
    omega

theorem root_extremal {h : Heap} (o : Ord h) (k : Nat) (hk : k < h.cnt) :
    better h.isMax (h.key k) (h.key 0) = false := by
  induction k using Nat.strongRecOn with
  | ind k ih =>
    by_cases e : k = 0
    · subst e; exact better_irrefl _ _
    · exact nb_trans (o k (by omega) hk) (ih ((k - 1) / 2) (by omega) (by omega))

theorem remove_spec (h : Heap) (hinv : Inv h) (hne : 0 < h.cnt) :
    ∃ x, (h.remove).2 = some x ∧ Queued h x ∧
      (∀ y, Queued h y → better h.isMax (h.costOf y) (h.costOf x) = false) ∧
      Inv (h.remove).1 ∧
      (h.remove).1.colorOf x = BLACK ∧
      (∀ y, y ≠ x → (h.remove).1.colorOf y = h.colorOf y) ∧
      (∀ y, (h.remove).1.costOf y = h.costOf y) ∧
      (h.remove).1.cnt = h.cnt - 1 := by
  obtain ⟨w, o⟩ := (inv_iff h).1 hinv
  have hs0 : h.slot 0 < h.color.size := by rw [w.size_color]; exact w.slot_lt 0 hne
  have wpre := WF_remPre w hne
  rw [remove_eq, if_neg (by omega)]
  refine ⟨h.slot 0, rfl, ⟨w.slot_lt 0 hne, (w.gray_iff _ (w.slot_lt 0 hne)).2 ⟨0, hne, rfl⟩⟩, ?_,
    (inv_iff _).2 ⟨WF_goDown wpre, Ord_goDown wpre (AlmostDown_remPre o)⟩, ?_, ?_, ?_, ?_⟩
  · rintro y ⟨hy, hg⟩
    obtain ⟨k, hk, e⟩ := (w.gray_iff y hy).1 hg
    subst e
    exact root_extremal o k hk
  · show ((remPre h).goDown 0).colorOf (h.slot 0) = BLACK
    rw [goDown_colorOf, remPre_colorOf, if_pos ⟨rfl, hs0⟩]
  · intro y hy
    show ((remPre h).goDown 0).colorOf y = h.colorOf y
    have n1 : ¬ (y = h.slot 0 ∧ h.slot 0 < h.color.size) := fun a => hy a.1
    rw [goDown_colorOf, remPre_colorOf, if_neg n1]
  · intro y
    show ((remPre h).goDown 0).costOf y = h.costOf y
    rw [goDown_costOf, remPre_costOf]
  · show ((remPre h).goDown 0).cnt = h.cnt - 1
    rw [goDown_cnt, remPre_cnt]

/-! ### `setCost` and `update` -/

theorem setCost_costOf (h : Heap) (x : Nat) (c : Int) (y : Nat) :
    (h.setCost x c).costOf y = if y = x ∧ x < h.cost.size then c else h.costOf y := by
  unfold setCost costOf; exact getD_set _ _ _ _ _
@[simp] theorem setCost_colorOf (h : Heap) (x : Nat) (c : Int) (y : Nat) :
    (h.setCost x c).colorOf y = h.colorOf y := rfl
@[simp] theorem setCost_slot (h : Heap) (x : Nat) (c : Int) (k : Nat) :
    (h.setCost x c).slot k = h.slot k := rfl
@[simp] theorem setCost_posOf (h : Heap) (x : Nat) (c : Int) (y : Nat) :
    (h.setCost x c).posOf y = h.posOf y := rfl
@[simp] theorem setCost_cnt (h : Heap) (x : Nat) (c : Int) : (h.setCost x c).cnt = h.cnt := rfl
@[simp] theorem setCost_size (h : Heap) (x : Nat) (c : Int) : (h.setCost x c).size = h.size := rfl
@[simp] theorem setCost_isMax (h : Heap) (x : Nat) (c : Int) : (h.setCost x c).isMax = h.isMax := rfl

theorem WF_setCost {h : Heap} (w : WF h) (x : Nat) (c : Int) : WF (h.setCost x c) := by
  refine ⟨?_, w.size_color, w.size_p, w.size_pos, w.cnt_le, w.slot_lt, w.pos_slot, w.gray_iff⟩
  show (h.cost.setIfInBounds x c).size = h.size
  rw [Array.size_setIfInBounds]; exact w.size_cost

theorem setCost_key_ne (h : Heap) (x : Nat) (c : Int) (k : Nat) (hk : h.slot k ≠ x) :
    (h.setCost x c).key k = h.key k := by
  unfold key
  have n : ¬ (h.slot k = x ∧ x < h.cost.size) := fun a => hk a.1
  rw [setCost_slot, setCost_costOf, if_neg n]

theorem Ord_setCost {h : Heap} (w : WF h) (o : Ord h) {x : Nat} (c : Int) (hx : x < h.size)
    (hg : h.colorOf x ≠ GRAY) : Ord (h.setCost x c) := by
  intro k hk hks
  rw [setCost_cnt] at hks
  rw [setCost_isMax, setCost_key_ne h x c k (w.not_gray_slot hx hg hks),
    setCost_key_ne h x c _ (w.not_gray_slot hx hg (by omega))]
  exact o k hk hks

theorem Inv_setCost {h : Heap} (hinv : Inv h) {x : Nat} (c : Int) (hx : x < h.size)
    (hg : h.colorOf x ≠ GRAY) : Inv (h.setCost x c) := by
  obtain ⟨w, o⟩ := (inv_iff h).1 hinv
  exact (inv_iff _).2 ⟨WF_setCost w x c, Ord_setCost w o c hx hg⟩

theorem AlmostUp_setCost {h : Heap} (w : WF h) (o : Ord h) {k : Nat} (hk : k < h.cnt) (c : Int)
    (hc : better h.isMax (h.key k) c = false) : AlmostUp (h.setCost (h.slot k) c) k := by
  have hkc : h.slot k < h.cost.size := by rw [w.size_cost]; exact w.slot_lt k hk
  have hkey : (h.setCost (h.slot k) c).key k = c := by
    unfold key; rw [setCost_slot, setCost_costOf, if_pos ⟨rfl, hkc⟩]
  have hne : ∀ m, m < h.cnt → m ≠ k → (h.setCost (h.slot k) c).key m = h.key m := fun m hm e =>
    setCost_key_ne h _ c m (fun a => e (w.slot_inj hm hk a))
  constructor
  · intro m hm hms hmk
    rw [setCost_cnt] at hms
    rw [setCost_isMax, hne m hms hmk]
    by_cases e : (m - 1) / 2 = k
    · rw [e, hkey]
      have := o m hm hms
      rw [e] at this
      exact nb_trans this hc
    · rw [hne _ (by omega) e]
      exact o m hm hms
  · intro m hk0 hms hm hmk
    rw [setCost_cnt] at hms
    rw [setCost_isMax, hne m hms (by omega), hne _ (by omega) (by omega)]
    have h1 := o m hm hms
    rw [hmk] at h1
    exact nb_trans h1 (o k hk0 hk)

theorem update_eq (h : Heap) (x : Nat) (c : Int) :
    h.update x c =
      if h.colorOf x = WHITE then ((h.setCost x c).insert x).1
      else if h.colorOf x = GRAY then (h.setCost x c).goUp (h.posOf x)
      else h.setCost x c := rfl

theorem update_spec (h : Heap) (x : Nat) (c : Int) (hinv : Inv h) (hx : x < h.size)
    (hcontract : h.colorOf x = GRAY → better h.isMax (h.costOf x) c = false) :
    Inv (h.update x c) ∧ (h.update x c).costOf x = c ∧
    (∀ y, y ≠ x → (h.update x c).costOf y = h.costOf y) ∧
    (h.update x c).colorOf x = (if h.colorOf x = WHITE then GRAY else h.colorOf x) ∧
    (∀ y, y ≠ x → (h.update x c).colorOf y = h.colorOf y) := by
  obtain ⟨w, o⟩ := (inv_iff h).1 hinv
  have hxc : x < h.cost.size := by rw [w.size_cost]; exact hx
  have c1 : (h.setCost x c).costOf x = c := by rw [setCost_costOf, if_pos ⟨rfl, hxc⟩]
  have c2 : ∀ y, y ≠ x → (h.setCost x c).costOf y = h.costOf y := fun y hy => by
    have n : ¬ (y = x ∧ x < h.cost.size) := fun a => hy a.1
    rw [setCost_costOf, if_neg n]
  rw [update_eq]
  by_cases hW : h.colorOf x = WHITE
  · rw [if_pos hW, if_pos hW]
    have hg : h.colorOf x ≠ GRAY := by rw [hW]; decide
    obtain ⟨_, i1, i2, i3, i4, _⟩ := insert_spec (h.setCost x c) x (Inv_setCost hinv c hx hg) hx hW
    exact ⟨i1, by rw [i4, c1], fun y hy => by rw [i4, c2 y hy], i2, fun y hy => i3 y hy⟩
  · rw [if_neg hW, if_neg hW]
    by_cases hG : h.colorOf x = GRAY
    · rw [if_pos hG]
      obtain ⟨k, hk, e⟩ := (w.gray_iff x hx).1 hG
      have hp : h.posOf x = k := by rw [← e]; exact w.pos_slot k hk
      have hc := hcontract hG
      rw [hp]
      subst e
      have w' := WF_setCost w (h.slot k) c
      refine ⟨(inv_iff _).2 ⟨WF_goUp w' hk, Ord_goUp w' hk (AlmostUp_setCost w o hk c hc)⟩, ?_, ?_, ?_, ?_⟩
      · rw [goUp_costOf, c1]
      · intro y hy; rw [goUp_costOf, c2 y hy]
      · rw [goUp_colorOf, setCost_colorOf]
      · intro y _; rw [goUp_colorOf, setCost_colorOf]
    · rw [if_neg hG]
      exact ⟨Inv_setCost hinv c hx hG, c1, c2, rfl, fun y _ => rfl⟩

/-! ### `init`, emptiness and fullness -/

theorem init_colorOf (size : Nat) (isMax : Bool) (top : Int) (x : Nat) :
    (init size isMax top).colorOf x = WHITE := by
  unfold init colorOf
  simp only [Array.getD_eq_getD_getElem?, Array.getElem?_replicate]
  split <;> rfl

theorem inv_init (size : Nat) (isMax : Bool) (top : Int) : Inv (init size isMax top) := by
  refine ⟨Array.size_replicate, Array.size_replicate, Array.size_replicate, Array.size_replicate,
    Nat.zero_le _, fun k hk => absurd hk (Nat.not_lt_zero _), fun k hk => absurd hk (Nat.not_lt_zero _),
    fun x _ => ?_, fun k _ hk => absurd hk (Nat.not_lt_zero _)⟩
  rw [init_colorOf]
  exact ⟨fun a => absurd a (by decide), fun ⟨k, hk, _⟩ => absurd hk (Nat.not_lt_zero _)⟩

theorem truthful (h : Heap) (hinv : Inv h) :
    (h.isEmpty = true ↔ ∀ x, ¬ Queued h x) ∧
    (h.isFull = true ↔ ∀ x, x < h.size → Queued h x) := by
  obtain ⟨w, _⟩ := (inv_iff h).1 hinv
  constructor
  · unfold isEmpty
    rw [beq_iff_eq]
    constructor
    · rintro h0 x ⟨hx, hg⟩
      obtain ⟨k, hk, _⟩ := (w.gray_iff x hx).1 hg
      omega
    · intro hall
      by_cases h0 : h.cnt = 0
      · exact h0
      · have h0' : 0 < h.cnt := by omega
        exact absurd ⟨w.slot_lt 0 h0', (w.gray_iff _ (w.slot_lt 0 h0')).2 ⟨0, h0', rfl⟩⟩ (hall (h.slot 0))
  · unfold isFull
    rw [beq_iff_eq]
    constructor
    · intro hf x hx
      exact ⟨hx, (w.gray_iff x hx).2 (w.surj_of_full hf x hx)⟩
    · intro hall
      exact w.full_of_all (fun x hx => (w.gray_iff x hx).1 (hall x hx).2)

/-! ### histories -/

theorem insert_size (h : Heap) (x : Nat) : (h.insert x).1.size = h.size := by
  rw [insert_eq]; split
  · rfl
  · show ((insPre h x).goUp h.cnt).size = h.size
    rw [goUp_size, insPre_size]

theorem remove_size (h : Heap) : (h.remove).1.size = h.size := by
  rw [remove_eq]; split
  · rfl
  · show ((remPre h).goDown 0).size = h.size
    rw [goDown_size, remPre_size]

theorem update_size (h : Heap) (x : Nat) (c : Int) : (h.update x c).size = h.size := by
  rw [update_eq]; split
  · rw [insert_size, setCost_size]
  · split
    · rw [goUp_size, setCost_size]
    · rfl

theorem step_ins (h : Heap) (x : Nat) (c : Int) :
    step h (.ins x c) = (((h.setCost x c).insert x).1,
      if ((h.setCost x c).insert x).2 then Out.ok else Out.fail) := rfl
theorem step_insraw (h : Heap) (x : Nat) :
    step h (.insraw x) = ((h.insert x).1, if (h.insert x).2 then Out.ok else Out.fail) := rfl
theorem step_upd (h : Heap) (x : Nat) (c : Int) : step h (.upd x c) = (h.update x c, Out.ok) := rfl
theorem step_rem (h : Heap) :
    step h .rem = ((h.remove).1, match (h.remove).2 with | some x => Out.removed x | none => Out.fail) := by
  show (match h.remove with | (h', some x) => (h', Out.removed x) | (h', none) => (h', Out.fail)) = _
  generalize h.remove = r
  obtain ⟨h', _ | x⟩ := r <;> rfl

theorem step_size (h : Heap) (op : Op) : (step h op).1.size = h.size := by
  cases op with
  | ins x c => rw [step_ins]; show ((h.setCost x c).insert x).1.size = h.size; rw [insert_size, setCost_size]
  | insraw x => rw [step_insraw]; exact insert_size h x
  | rem => rw [step_rem]; exact remove_size h
  | upd x c => rw [step_upd]; exact update_size h x c

theorem step_inv (h : Heap) (op : Op) (hinv : Inv h) (hl : Legal h op) : Inv (step h op).1 := by
  cases op with
  | ins x c =>
    obtain ⟨hx, hw⟩ := hl
    rw [step_ins]
    exact (insert_spec _ x (Inv_setCost hinv c hx (by rw [hw]; decide)) hx hw).2.1
  | insraw x =>
    obtain ⟨hx, hw | hf⟩ := hl
    · rw [step_insraw]; exact (insert_spec h x hinv hx hw).2.1
    · rw [step_insraw, insert_full h x hf]; exact hinv
  | rem =>
    rw [step_rem]
    by_cases h0 : h.cnt = 0
    · rw [remove_empty h h0]; exact hinv
    · obtain ⟨x, _, _, _, i, _⟩ := remove_spec h hinv (by omega)
      exact i
  | upd x c =>
    obtain ⟨hx, _, hc⟩ := hl
    rw [step_upd]
    exact (update_spec h x c hinv hx hc).1

theorem run_inv (h : Heap) (ops : List Op) (hinv : Inv h) (hl : LegalRun h ops) :
    Inv (run h ops).1 := by
  induction ops generalizing h with
  | nil => exact hinv
  | cons op ops ih => exact ih _ (step_inv h op hinv hl.1) hl.2

/-- what one legal operation does to the colours: either nothing is returned and every colour is
kept or moves WHITE → GRAY, or exactly one GRAY identifier is returned and turns BLACK. -/
theorem step_colors (h : Heap) (op : Op) (hinv : Inv h) (hl : Legal h op) :
    (returned [(step h op).2] = [] ∧
      ∀ y, (step h op).1.colorOf y = h.colorOf y ∨
        (h.colorOf y = WHITE ∧ (step h op).1.colorOf y = GRAY)) ∨
    (∃ x, returned [(step h op).2] = [x] ∧ x < h.size ∧ h.colorOf x = GRAY ∧
      (step h op).1.colorOf x = BLACK ∧ ∀ y, y ≠ x → (step h op).1.colorOf y = h.colorOf y) := by
  cases op with
  | ins x c =>
    obtain ⟨hx, hw⟩ := hl
    obtain ⟨i0, _, i2, i3, _⟩ :=
      insert_spec _ x (Inv_setCost hinv c hx (by rw [hw]; decide)) hx hw
    left
    rw [step_ins]
    refine ⟨by simp only [i0]; rfl, fun y => ?_⟩
    by_cases e : y = x
    · subst e; exact Or.inr ⟨hw, i2⟩
    · exact Or.inl (i3 y e)
  | insraw x =>
    obtain ⟨hx, hw | hf⟩ := hl
    · obtain ⟨i0, _, i2, i3, _⟩ := insert_spec h x hinv hx hw
      left
      rw [step_insraw]
      refine ⟨by simp only [i0]; rfl, fun y => ?_⟩
      by_cases e : y = x
      · subst e; exact Or.inr ⟨hw, i2⟩
      · exact Or.inl (i3 y e)
    · left
      rw [step_insraw, insert_full h x hf]
      exact ⟨rfl, fun y => Or.inl rfl⟩
  | rem =>
    rw [step_rem]
    by_cases h0 : h.cnt = 0
    · left
      rw [remove_empty h h0]
      exact ⟨rfl, fun y => Or.inl rfl⟩
    · obtain ⟨x, e, ⟨hx, hg⟩, _, _, hb, hoth, _⟩ := remove_spec h hinv (by omega)
      right
      refine ⟨x, by simp only [e]; rfl, hx, hg, hb, hoth⟩
  | upd x c =>
    obtain ⟨hx, _, hc⟩ := hl
    obtain ⟨_, _, _, u1, u2⟩ := update_spec h x c hinv hx hc
    left
    rw [step_upd]
    refine ⟨rfl, fun y => ?_⟩
    by_cases e : y = x
    · subst e
      by_cases hw : h.colorOf y = WHITE
      · rw [if_pos hw] at u1; exact Or.inr ⟨hw, u1⟩
      · rw [if_neg hw] at u1; exact Or.inl u1
    · exact Or.inl (u2 y e)

theorem returned_cons (o : Out) (os : List Out) : returned (o :: os) = returned [o] ++ returned os := by
  cases o <;> rfl

theorem run_colors (h : Heap) (ops : List Op) (hinv : Inv h) (hl : LegalRun h ops) :
    (run h ops).1.size = h.size ∧ (returned (run h ops).2).Nodup ∧
    (∀ x, x ∈ returned (run h ops).2 ↔
      (x < h.size ∧ h.colorOf x ≠ BLACK ∧ (run h ops).1.colorOf x = BLACK)) ∧
    (∀ x, h.colorOf x = BLACK → (run h ops).1.colorOf x = BLACK) ∧
    ((∀ y, h.colorOf y ≤ 2) → ∀ y, (run h ops).1.colorOf y ≤ 2) := by
  induction ops generalizing h with
  | nil =>
    refine ⟨rfl, List.nodup_nil, fun x => ?_, fun x a => a, fun a => a⟩
    exact ⟨fun a => absurd a List.not_mem_nil, fun ⟨_, a, b⟩ => absurd b a⟩
  | cons op ops ih =>
    obtain ⟨hl1, hl2⟩ := hl
    obtain ⟨s1, nd, mem, mono, le2⟩ := ih (step h op).1 (step_inv h op hinv hl1) hl2
    have hs := step_size h op
    show (run (step h op).1 ops).1.size = h.size ∧
      (returned ((step h op).2 :: (run (step h op).1 ops).2)).Nodup ∧
      (∀ x, x ∈ returned ((step h op).2 :: (run (step h op).1 ops).2) ↔
        (x < h.size ∧ h.colorOf x ≠ BLACK ∧ (run (step h op).1 ops).1.colorOf x = BLACK)) ∧
      (∀ x, h.colorOf x = BLACK → (run (step h op).1 ops).1.colorOf x = BLACK) ∧
      ((∀ y, h.colorOf y ≤ 2) → ∀ y, (run (step h op).1 ops).1.colorOf y ≤ 2)
    rw [returned_cons]
    generalize (run (step h op).1 ops) = r at *
    rw [hs] at s1 mem
    rcases step_colors h op hinv hl1 with ⟨hr, hcol⟩ | ⟨x0, hr, hx0, hg0, hb0, hoth⟩
    · rw [hr, List.nil_append]
      have hbl : ∀ y, (step h op).1.colorOf y = BLACK ↔ h.colorOf y = BLACK := fun y => by
        rcases hcol y with e | ⟨e1, e2⟩
        · rw [e]
        · rw [e1, e2]; decide
      refine ⟨s1, nd, fun x => ?_, fun x a => mono x ((hbl x).2 a), fun a => le2 (fun y => ?_)⟩
      · rw [mem x]
        exact ⟨fun a => ⟨a.1, fun b => a.2.1 ((hbl x).2 b), a.2.2⟩,
          fun a => ⟨a.1, fun b => a.2.1 ((hbl x).1 b), a.2.2⟩⟩
      · rcases hcol y with e | ⟨_, e2⟩
        · rw [e]; exact a y
        · rw [e2]; decide
    · rw [hr]
      have hx0r : x0 ∉ returned r.2 := fun a => ((mem x0).1 a).2.1 hb0
      refine ⟨s1, List.nodup_cons.2 ⟨hx0r, nd⟩, fun x => ?_, fun x a => ?_, fun a => le2 (fun y => ?_)⟩
      · show x ∈ x0 :: returned r.2 ↔ _
        rw [List.mem_cons, mem x]
        by_cases e : x = x0
        · subst e
          have : h.colorOf x ≠ BLACK := by rw [hg0]; decide
          exact ⟨fun _ => ⟨hx0, this, mono x hb0⟩, fun _ => Or.inl rfl⟩
        · rw [hoth x e]
          exact ⟨fun a => a.resolve_left e, fun a => Or.inr a⟩
      · by_cases e : x = x0
        · subst e; exact mono x hb0
        · exact mono x (by rw [hoth x e]; exact a)
      · by_cases e : y = x0
        · subst e; exact Nat.le_of_eq hb0
        · rw [hoth y e]; exact a y

theorem run_exactly_once (size : Nat) (isMax : Bool) (top : Int) (ops : List Op)
    (hl : LegalRun (init size isMax top) ops) :
    let r := run (init size isMax top) ops
    (returned r.2).Nodup ∧
    (∀ x, x ∈ returned r.2 ↔ (x < size ∧ r.1.colorOf x = BLACK)) ∧
    (r.1.isEmpty = true → ∀ x, x < size → r.1.colorOf x ≠ WHITE → x ∈ returned r.2) := by
  intro r
  have hinv := inv_init size isMax top
  obtain ⟨s1, nd, mem, _, le2⟩ := run_colors _ ops hinv hl
  have hfin := run_inv _ ops hinv hl
  have hw : ∀ x, (init size isMax top).colorOf x ≠ BLACK := fun x => by
    rw [init_colorOf]; decide
  have mem' : ∀ x, x ∈ returned r.2 ↔ (x < size ∧ r.1.colorOf x = BLACK) := fun x => by
    rw [show (x ∈ returned r.2) = (x ∈ returned (run (init size isMax top) ops).2) from rfl, mem x]
    exact ⟨fun a => ⟨a.1, a.2.2⟩, fun a => ⟨a.1, hw x, a.2⟩⟩
  refine ⟨nd, mem', fun hempty x hx hnw => ?_⟩
  rw [mem' x]
  refine ⟨hx, ?_⟩
  have hle := le2 (fun y => by rw [init_colorOf]; decide) x
  have hxs : x < r.1.size := by rw [show r.1.size = size from s1]; exact hx
  have hng : r.1.colorOf x ≠ GRAY := fun a => by
    obtain ⟨k, hk, _⟩ := (hfin.gray_iff x hxs).1 a
    have h0 : r.1.cnt = 0 := by simpa [isEmpty] using hempty
    have hk' : k < r.1.cnt := hk
    omega
  change r.1.colorOf x ≤ 2 at hle
  change r.1.colorOf x ≠ 0 at hnw
  change r.1.colorOf x ≠ 1 at hng
  change r.1.colorOf x = 2
  omega

theorem fail_unaffected (h : Heap) (op : Op) (hinv : Inv h) (hl : Legal h op)
    (hfail : (step h op).2 = .fail) (rest : List Op) :
    (step h op).1 = h ∧ run (step h op).1 rest = run h rest := by
  have key : (step h op).1 = h := by
    cases op with
    | ins x c =>
      obtain ⟨hx, hw⟩ := hl
      have i0 := (insert_spec _ x (Inv_setCost hinv c hx (by rw [hw]; decide)) hx hw).1
      rw [step_ins] at hfail
      simp [i0] at hfail
    | insraw x =>
      rw [step_insraw] at hfail ⊢
      rw [insert_eq] at hfail ⊢
      by_cases hf : h.cnt = h.size
      · rw [if_pos hf]
      · rw [if_neg hf] at hfail
        simp at hfail
    | rem =>
      rw [step_rem] at hfail ⊢
      rw [remove_eq] at hfail ⊢
      by_cases h0 : h.cnt = 0
      · rw [if_pos h0]
      · rw [if_neg h0] at hfail
        simp at hfail
    | upd x c =>
      rw [step_upd] at hfail
      simp at hfail
  exact ⟨key, by rw [key]⟩

/-! ### decidability of the contract (for closed examples) -/

instance instDecidableLegal (h : Heap) (op : Op) : Decidable (Legal h op) := by
  cases op <;> unfold Legal <;> infer_instance

instance instDecidableLegalRun : (h : Heap) → (ops : List Op) → Decidable (LegalRun h ops)
  | _, [] => isTrue trivial
  | h, op :: ops => @instDecidableAnd _ _ _ (instDecidableLegalRun (step h op).1 ops)

end Opf.Heap
