/-
Lemmas about the L3 model (`predictScan`, `predictOne`, `markNodes`, `predictBatch`) used by the
statements of C03 (and the relevance-marking claims).  Core Lean only.
-/
import OpfVerif.Model.ForestSpec
namespace Opf

/-! ### one step of the scan -/

/-- the three possible outcomes of one scan step: (1) stopped (before or now), nothing changes
but the flag; (2) strict improvement, `l` becomes the conqueror; (3) examined, no improvement. -/
theorem predictScan_cases (f : Forest) (d : Nat → Int) (acc : PredAcc) (l : Nat) :
    ((predictScan f d acc l).stop = true ∧ (predictScan f d acc l).minCost = acc.minCost ∧
      (predictScan f d acc l).conq = acc.conq ∧ (predictScan f d acc l).label = acc.label ∧
      (acc.stop = true ∨ acc.minCost ≤ f.costOf l)) ∨
    ((predictScan f d acc l).stop = false ∧ acc.stop = false ∧ f.costOf l < acc.minCost ∧
      (predictScan f d acc l).minCost = max (f.costOf l) (d l) ∧
      max (f.costOf l) (d l) < acc.minCost ∧ (predictScan f d acc l).conq = l ∧
      (predictScan f d acc l).label = f.plabelOf l) ∨
    (predictScan f d acc l = acc ∧ acc.stop = false ∧ f.costOf l < acc.minCost ∧
      acc.minCost ≤ max (f.costOf l) (d l)) := by
  unfold predictScan
  by_cases h1 : acc.stop = true
  · left
    rw [if_pos h1]
    exact ⟨h1, rfl, rfl, rfl, Or.inl h1⟩
  · have h1' : acc.stop = false := by cases h : acc.stop <;> simp_all
    rw [if_neg h1]
    by_cases h2 : acc.minCost > f.costOf l
    · rw [if_pos h2]
      by_cases h3 : max (f.costOf l) (d l) < acc.minCost
      · right; left
        simp only [if_pos h3]
        refine ⟨h1', h1', h2, ?_, h3, ?_, ?_⟩ <;> trivial
      · right; right
        simp only [if_neg h3]
        refine ⟨?_, h1', h2, by omega⟩
        trivial
    · left
      rw [if_neg h2]
      exact ⟨rfl, rfl, rfl, rfl, Or.inr (by omega)⟩

/-- once stopped, the rest of the scan is the identity. -/
theorem scan_stop (f : Forest) (d : Nat → Int) (rest : List Nat) (acc : PredAcc)
    (h : acc.stop = true) : rest.foldl (predictScan f d) acc = acc := by
  induction rest with
  | nil => rfl
  | cons l rest ih =>
    have : predictScan f d acc l = acc := by unfold predictScan; rw [if_pos h]
    rw [List.foldl_cons, this]; exact ih

/-- the scan never increases the running minimum; the result is either the initial candidate or
a strictly better node of the scanned list, with consistent value and label. No sortedness. -/
theorem scan_conq (f : Forest) (d : Nat → Int) (rest : List Nat) (acc : PredAcc) :
    (rest.foldl (predictScan f d) acc).minCost ≤ acc.minCost ∧
    (((rest.foldl (predictScan f d) acc).conq = acc.conq ∧
      (rest.foldl (predictScan f d) acc).minCost = acc.minCost ∧
      (rest.foldl (predictScan f d) acc).label = acc.label) ∨
     ((rest.foldl (predictScan f d) acc).conq ∈ rest ∧
      (rest.foldl (predictScan f d) acc).minCost =
        max (f.costOf (rest.foldl (predictScan f d) acc).conq)
            (d (rest.foldl (predictScan f d) acc).conq) ∧
      (rest.foldl (predictScan f d) acc).label =
        f.plabelOf (rest.foldl (predictScan f d) acc).conq ∧
      (rest.foldl (predictScan f d) acc).minCost < acc.minCost)) := by
  induction rest generalizing acc with
  | nil => exact ⟨Int.le_refl _, Or.inl ⟨rfl, rfl, rfl⟩⟩
  | cons l rest ih =>
    rw [List.foldl_cons]
    have ih' := ih (predictScan f d acc l)
    generalize rest.foldl (predictScan f d) (predictScan f d acc l) = r at ih'
    obtain ⟨hle, hor⟩ := ih'
    rcases predictScan_cases f d acc l with ⟨_, hm, hc, hl, _⟩ | ⟨_, _, _, hm, hlt, hc, hl⟩ |
      ⟨heq, _, _, _⟩
    · rw [hm] at hle
      refine ⟨hle, ?_⟩
      rcases hor with ⟨a, b, c⟩ | ⟨a, b, c, e⟩
      · exact Or.inl ⟨a.trans hc, b.trans hm, c.trans hl⟩
      · exact Or.inr ⟨List.mem_cons_of_mem _ a, b, c, by omega⟩
    · rw [hm] at hle
      refine ⟨by omega, Or.inr ?_⟩
      rcases hor with ⟨a, b, c⟩ | ⟨a, b, c, e⟩
      · rw [hc] at a; rw [hm] at b; rw [hl] at c
        refine ⟨by rw [a]; exact List.mem_cons_self, ?_, ?_, by omega⟩
        · rw [a]; exact b
        · rw [a]; exact c
      · exact ⟨List.mem_cons_of_mem _ a, b, c, by omega⟩
    · rw [heq] at hle hor
      refine ⟨hle, ?_⟩
      rcases hor with h | ⟨a, b, c, e⟩
      · exact Or.inl h
      · exact Or.inr ⟨List.mem_cons_of_mem _ a, b, c, e⟩

/-- on a cost-sorted list the early exit loses nothing: the result is a lower bound of
`max (cost t) (d t)` over the whole scanned list. -/
theorem scan_min (f : Forest) (d : Nat → Int) (rest : List Nat)
    (hs : rest.Pairwise (fun a b => f.costOf a ≤ f.costOf b)) (acc : PredAcc)
    (hstop : acc.stop = true → ∀ t, t ∈ rest → acc.minCost ≤ f.costOf t) :
    ∀ t, t ∈ rest → (rest.foldl (predictScan f d) acc).minCost ≤ max (f.costOf t) (d t) := by
  induction rest generalizing acc with
  | nil => intro t ht; cases ht
  | cons l rest ih =>
    rw [List.pairwise_cons] at hs
    obtain ⟨hl, hs'⟩ := hs
    rw [List.foldl_cons]
    have hle := (scan_conq f d rest (predictScan f d acc l)).1
    have ih' := ih hs' (predictScan f d acc l)
    generalize rest.foldl (predictScan f d) (predictScan f d acc l) = r at ih' hle
    rcases predictScan_cases f d acc l with ⟨_, hm, _, _, hor⟩ | ⟨hst, _, _, hm, hlt, _, _⟩ |
      ⟨heq, hst, _, hge⟩
    · -- stopped: `acc.minCost ≤ cost l ≤ cost t` for all remaining `t`
      have hbound : acc.minCost ≤ f.costOf l := by
        rcases hor with h | h
        · exact hstop h l List.mem_cons_self
        · exact h
      rw [hm] at hle
      intro t ht
      rcases List.mem_cons.1 ht with rfl | ht
      · omega
      · have := hl t ht; omega
    · rw [hm] at hle
      have ih'' := ih' (by intro h; rw [hst] at h; cases h)
      intro t ht
      rcases List.mem_cons.1 ht with rfl | ht
      · exact hle
      · exact ih'' t ht
    · rw [heq] at hle ih'
      have ih'' := ih' (by intro h; rw [hst] at h; cases h)
      intro t ht
      rcases List.mem_cons.1 ht with rfl | ht
      · omega
      · exact ih'' t ht

/-- strictness: if the result sits at a position of a duplicate-free list (and is not the initial
candidate), it strictly beats the initial candidate and every node scanned before it. -/
theorem scan_first (f : Forest) (d : Nat → Int) (rest : List Nat) (hnd : rest.Nodup)
    (acc : PredAcc) (hk : acc.conq ∉ rest) (pre post : List Nat)
    (hsplit : rest = pre ++ (rest.foldl (predictScan f d) acc).conq :: post) :
    (rest.foldl (predictScan f d) acc).minCost < acc.minCost ∧
    ∀ t, t ∈ pre → (rest.foldl (predictScan f d) acc).minCost < max (f.costOf t) (d t) := by
  induction rest generalizing acc pre with
  | nil => cases pre <;> cases hsplit
  | cons l rest ih =>
    rw [List.nodup_cons] at hnd
    obtain ⟨hl, hnd'⟩ := hnd
    have hkl : acc.conq ≠ l := fun h => hk (h ▸ List.mem_cons_self)
    have hkr : acc.conq ∉ rest := fun h => hk (List.mem_cons_of_mem _ h)
    rw [List.foldl_cons] at hsplit ⊢
    have hc := scan_conq f d rest (predictScan f d acc l)
    have hstop := scan_stop f d rest (predictScan f d acc l)
    have ih' := ih hnd' (predictScan f d acc l)
    generalize rest.foldl (predictScan f d) (predictScan f d acc l) = r at ih' hc hstop hsplit
    obtain ⟨hle, hor⟩ := hc
    have hrmem : r.conq ∈ l :: rest := by
      rw [hsplit]; exact List.mem_append_right _ List.mem_cons_self
    cases pre with
    | nil =>
      simp only [List.nil_append, List.cons.injEq] at hsplit
      obtain ⟨hlr, _⟩ := hsplit
      refine ⟨?_, fun t ht => by cases ht⟩
      rcases hor with ⟨a, b, _⟩ | ⟨a, _, _, _⟩
      · rcases predictScan_cases f d acc l with ⟨_, _, hc', _, _⟩ | ⟨_, _, _, hm, hlt, _, _⟩ |
          ⟨heq, _, _, _⟩
        · exact absurd (hlr.trans (a.trans hc')).symm hkl
        · omega
        · rw [heq] at a; exact absurd (hlr.trans a).symm hkl
      · exact absurd (hlr ▸ a) hl
    | cons p pre =>
      simp only [List.cons_append, List.cons.injEq] at hsplit
      obtain ⟨hlp, hrest⟩ := hsplit
      subst hlp
      rcases predictScan_cases f d acc l with ⟨hst, _, hc', _, _⟩ | ⟨_, _, _, hm, hlt, hc', _⟩ |
        ⟨heq, _, _, hge⟩
      · -- stopped: the result is the initial candidate, which is not in the list
        rw [hstop hst, hc'] at hrmem
        exact absurd hrmem hk
      · have ih'' := ih' (by rw [hc']; exact hl) pre hrest
        refine ⟨by omega, ?_⟩
        intro t ht
        rcases List.mem_cons.1 ht with rfl | ht
        · omega
        · exact ih''.2 t ht
      · rw [heq] at ih'
        have ih'' := ih' hkr pre hrest
        refine ⟨ih''.1, ?_⟩
        intro t ht
        rcases List.mem_cons.1 ht with rfl | ht
        · omega
        · exact ih''.2 t ht

/-! ### `predictOne` -/

theorem predictOne_none_iff (f : Forest) (d : Nat → Int) :
    predictOne f d = none ↔ f.order.toList = [] := by
  unfold predictOne
  cases f.order.toList with
  | nil => exact ⟨fun _ => rfl, fun _ => rfl⟩
  | cons k rest => exact ⟨fun h => (by cases h), fun h => (by cases h)⟩

/-- unfolding of a successful `predictOne`. -/
theorem predictOne_some (f : Forest) (d : Nat → Int) (r : PredAcc) (hr : predictOne f d = some r) :
    ∃ k rest, f.order.toList = k :: rest ∧
      r = rest.foldl (predictScan f d)
        { minCost := max (f.costOf k) (d k), conq := k, label := f.plabelOf k, stop := false } := by
  unfold predictOne at hr
  cases h : f.order.toList with
  | nil => rw [h] at hr; cases hr
  | cons k rest =>
    rw [h] at hr
    exact ⟨k, rest, rfl, (Option.some.inj hr).symm⟩

/-- the conqueror is a node of the conquest order, its value and label are consistent
(no sortedness needed). -/
theorem predictOne_conq_mem (f : Forest) (d : Nat → Int) (r : PredAcc)
    (hr : predictOne f d = some r) :
    r.conq ∈ f.order.toList ∧ r.minCost = max (f.costOf r.conq) (d r.conq) ∧
      r.label = f.plabelOf r.conq := by
  obtain ⟨k, rest, hk, rfl⟩ := predictOne_some f d r hr
  rw [hk]
  rcases (scan_conq f d rest
    { minCost := max (f.costOf k) (d k), conq := k, label := f.plabelOf k, stop := false }).2 with
    ⟨a, b, c⟩ | ⟨a, b, c, _⟩
  · simp only at a b c
    refine ⟨by rw [a]; exact List.mem_cons_self, ?_, ?_⟩
    · rw [b, a]
    · rw [c, a]
  · exact ⟨List.mem_cons_of_mem _ a, b, c⟩

theorem predictOne_min (f : Forest) (d : Nat → Int) (hs : OrderSorted f) (r : PredAcc)
    (hr : predictOne f d = some r) :
    (∀ t, t ∈ f.order.toList → r.minCost ≤ max (f.costOf t) (d t)) ∧
    (r.conq ∈ f.order.toList ∧ r.minCost = max (f.costOf r.conq) (d r.conq) ∧
      r.label = f.plabelOf r.conq) := by
  refine ⟨?_, predictOne_conq_mem f d r hr⟩
  obtain ⟨k, rest, hk, rfl⟩ := predictOne_some f d r hr
  unfold OrderSorted at hs
  rw [hk] at hs ⊢
  rw [List.pairwise_cons] at hs
  intro t ht
  rcases List.mem_cons.1 ht with rfl | ht
  · exact (scan_conq f d rest _).1
  · exact scan_min f d rest hs.2 _ (by intro h; cases h) t ht

theorem predictOne_exhaustive (f : Forest) (d : Nat → Int) (hs : OrderSorted f)
    (hall : ∀ t, t < f.n → t ∈ f.order.toList) (r : PredAcc) (hr : predictOne f d = some r) :
    ∃ t, t ∈ f.order.toList ∧ r.label = f.plabelOf t ∧
      ∀ s, s < f.n → max (f.costOf t) (d t) ≤ max (f.costOf s) (d s) := by
  obtain ⟨hmin, hmem, hval, hlab⟩ := predictOne_min f d hs r hr
  refine ⟨r.conq, hmem, hlab, ?_⟩
  intro s hsn
  rw [← hval]
  exact hmin s (hall s hsn)

theorem predictOne_first (f : Forest) (d : Nat → Int) (_hs : OrderSorted f) (r : PredAcc)
    (hr : predictOne f d = some r) (pre post : List Nat)
    (hsplit : f.order.toList = pre ++ r.conq :: post) (hnd : f.order.toList.Nodup) :
    ∀ t, t ∈ pre → r.minCost < max (f.costOf t) (d t) := by
  obtain ⟨k, rest, hk, rfl⟩ := predictOne_some f d r hr
  rw [hk] at hsplit hnd
  rw [List.nodup_cons] at hnd
  cases pre with
  | nil => intro t ht; cases ht
  | cons p pre =>
    simp only [List.cons_append, List.cons.injEq] at hsplit
    obtain ⟨hkp, hrest⟩ := hsplit
    subst hkp
    have h := scan_first f d rest hnd.2
      { minCost := max (f.costOf k) (d k), conq := k, label := f.plabelOf k, stop := false }
      hnd.1 pre post hrest
    intro t ht
    rcases List.mem_cons.1 ht with rfl | ht
    · exact h.1
    · exact h.2 t ht

/-- `predictOne` reads only `order`, `ncost`, `plabel`. -/
theorem predictOne_congr (g f : Forest) (d : Nat → Int) (ho : g.order = f.order)
    (hc : g.ncost = f.ncost) (hp : g.plabel = f.plabel) : predictOne g d = predictOne f d := by
  have hscan : predictScan g d = predictScan f d := by
    funext acc l
    unfold predictScan Forest.costOf Forest.plabelOf
    rw [hc, hp]
  unfold predictOne
  rw [hscan, ho]
  unfold Forest.costOf Forest.plabelOf
  rw [hc, hp]

/-! ### ancestors -/

theorem Anc_congr (g f : Forest) (hp : ∀ x, g.predOf x = f.predOf x) (c u : Nat)
    (h : Anc g c u) : Anc f c u := by
  induction h with
  | refl => exact Anc.refl
  | step hpu _ ih => exact Anc.step ((hp _).symm.trans hpu) ih

theorem Anc_congr_iff (g f : Forest) (hp : ∀ x, g.predOf x = f.predOf x) (c u : Nat) :
    Anc g c u ↔ Anc f c u :=
  ⟨Anc_congr g f hp c u, Anc_congr f g (fun x => (hp x).symm) c u⟩

theorem Anc_iff (f : Forest) (c u : Nat) :
    Anc f c u ↔ (c = u ∨ ∃ p, f.predOf u = some p ∧ Anc f c p) := by
  constructor
  · intro h
    cases h with
    | refl => exact Or.inl rfl
    | step hp h' => exact Or.inr ⟨_, hp, h'⟩
  · rintro (rfl | ⟨p, hp, h'⟩)
    · exact Anc.refl
    · exact Anc.step hp h'

/-! ### `markNodes` -/

theorem markNodes_fields (f : Forest) (fuel i : Nat) :
    (markNodes f fuel i).n = f.n ∧ (markNodes f fuel i).pred = f.pred ∧
    (markNodes f fuel i).proto = f.proto ∧ (markNodes f fuel i).ncost = f.ncost ∧
    (markNodes f fuel i).plabel = f.plabel ∧ (markNodes f fuel i).label = f.label ∧
    (markNodes f fuel i).order = f.order ∧
    (markNodes f fuel i).relevant.size = f.relevant.size := by
  induction fuel generalizing f i with
  | zero => exact ⟨rfl, rfl, rfl, rfl, rfl, rfl, rfl, rfl⟩
  | succ fuel ih =>
    unfold markNodes
    cases f.predOf i with
    | none => exact ⟨rfl, rfl, rfl, rfl, rfl, rfl, rfl, Array.size_setIfInBounds⟩
    | some pr =>
      have h := ih { f with relevant := f.relevant.setIfInBounds i true } pr
      simp only [Array.size_setIfInBounds] at h
      exact h

/-- reading a relevance flag after setting one. -/
theorem relevantOf_set (f : Forest) (i t : Nat) (hi : i < f.relevant.size) :
    Forest.relevantOf { f with relevant := f.relevant.setIfInBounds i true } t = true ↔
      (f.relevantOf t = true ∨ t = i) := by
  unfold Forest.relevantOf
  simp only [Array.getD_eq_getD_getElem?, Array.getElem?_setIfInBounds]
  by_cases h : i = t
  · subst h
    rw [if_pos rfl, if_pos hi]
    simp
  · rw [if_neg h]
    constructor
    · exact Or.inl
    · rintro (h' | h')
      · exact h'
      · exact absurd h'.symm h

theorem markNodes_relevant_aux (rank : Nat → Nat) (fuel : Nat) (f : Forest)
    (hsz : f.relevant.size = f.n) (hpl : ∀ x p, f.predOf x = some p → p < f.n)
    (hrk : ∀ x p, f.predOf x = some p → rank p < rank x)
    (i : Nat) (hi : i < f.n) (hfuel : rank i < fuel) (t : Nat) :
    (markNodes f fuel i).relevantOf t = true ↔ (f.relevantOf t = true ∨ Anc f t i) := by
  induction fuel generalizing f i with
  | zero => omega
  | succ fuel ih =>
    have hset := relevantOf_set f i t (by omega)
    unfold markNodes
    cases hp : f.predOf i with
    | none =>
      simp only
      rw [hset, Anc_iff f t i, hp]
      constructor
      · rintro (h | h)
        · exact Or.inl h
        · exact Or.inr (Or.inl h)
      · rintro (h | h | ⟨p, h, _⟩)
        · exact Or.inl h
        · exact Or.inr h
        · cases h
    | some pr =>
      simp only
      have h1 := ih { f with relevant := f.relevant.setIfInBounds i true }
        (by simp only [Array.size_setIfInBounds]; exact hsz) hpl hrk pr (hpl i pr hp)
        (by have := hrk i pr hp; omega)
      rw [h1, hset, Anc_iff f t i, hp,
        Anc_congr_iff { f with relevant := f.relevant.setIfInBounds i true } f (fun _ => rfl)]
      constructor
      · rintro ((h | h) | h)
        · exact Or.inl h
        · exact Or.inr (Or.inl h)
        · exact Or.inr (Or.inr ⟨pr, rfl, h⟩)
      · rintro (h | h | ⟨p, h, h'⟩)
        · exact Or.inl (Or.inl h)
        · exact Or.inl (Or.inr h)
        · cases h; exact Or.inr h'

theorem markNodes_relevant (f : Forest) (rank : Nat → Nat) (hwf : f.WF) (hr : Ranked f rank)
    (i : Nat) (hi : i < f.n) (t : Nat) (_ht : t < f.n) :
    (markNodes f f.n i).relevantOf t = true ↔ (f.relevantOf t = true ∨ Anc f t i) :=
  markNodes_relevant_aux rank f.n f hwf.size_relevant hwf.pred_lt hr.1 i hi (hr.2 i hi) t

/-! ### `predictBatch` -/

/-- `g` agrees with `f` on every field except `relevant`. -/
def AgreeBut (g f : Forest) : Prop :=
  g.n = f.n ∧ g.pred = f.pred ∧ g.proto = f.proto ∧ g.ncost = f.ncost ∧ g.plabel = f.plabel ∧
    g.label = f.label ∧ g.order = f.order

/-- one step of the batch fold. -/
def batchStep (acc : Forest × List (Option Nat)) (d : Nat → Int) : Forest × List (Option Nat) :=
  match predictOne acc.1 d with
  | none => (acc.1, acc.2 ++ [none])
  | some r => (markNodes acc.1 acc.1.n r.conq, acc.2 ++ [some r.label])

theorem predictBatch_eq (f : Forest) (ds : List (Nat → Int)) :
    predictBatch f ds = ds.foldl batchStep (f, []) := rfl

theorem batchStep_spec (f g : Forest) (acc : List (Option Nat)) (d : Nat → Int)
    (hg : AgreeBut g f) :
    AgreeBut (batchStep (g, acc) d).1 f ∧
    (batchStep (g, acc) d).2 = acc ++ [(predictOne f d).map (·.label)] ∧
    (batchStep (g, acc) d).1.relevant.size = g.relevant.size ∧
    (batchStep (g, acc) d).1 =
      (match predictOne f d with
       | none => g
       | some r => markNodes g g.n r.conq) := by
  obtain ⟨h1, h2, h3, h4, h5, h6, h7⟩ := hg
  have hc := predictOne_congr g f d h7 h4 h5
  unfold batchStep
  simp only [hc]
  cases predictOne f d with
  | none => exact ⟨⟨h1, h2, h3, h4, h5, h6, h7⟩, rfl, rfl, rfl⟩
  | some r =>
    obtain ⟨m1, m2, m3, m4, m5, m6, m7, m8⟩ := markNodes_fields g g.n r.conq
    exact ⟨⟨m1.trans h1, m2.trans h2, m3.trans h3, m4.trans h4, m5.trans h5, m6.trans h6,
      m7.trans h7⟩, rfl, m8, rfl⟩

theorem batchFold_fields (f : Forest) (ds : List (Nat → Int)) (g : Forest)
    (acc : List (Option Nat)) (hg : AgreeBut g f) :
    AgreeBut (ds.foldl batchStep (g, acc)).1 f ∧
    (ds.foldl batchStep (g, acc)).2 = acc ++ ds.map (fun d => (predictOne f d).map (·.label)) := by
  induction ds generalizing g acc with
  | nil => exact ⟨hg, by simp⟩
  | cons d ds ih =>
    rw [List.foldl_cons]
    obtain ⟨s1, s2, _, _⟩ := batchStep_spec f g acc d hg
    have h := ih (batchStep (g, acc) d).1 (batchStep (g, acc) d).2 s1
    refine ⟨h.1, ?_⟩
    rw [h.2, s2, List.map_cons, List.append_assoc]
    rfl

theorem predictBatch_labels (f : Forest) (ds : List (Nat → Int)) :
    (predictBatch f ds).2 = ds.map (fun d => (predictOne f d).map (·.label)) := by
  rw [predictBatch_eq]
  have h := (batchFold_fields f ds f [] ⟨rfl, rfl, rfl, rfl, rfl, rfl, rfl⟩).2
  rw [h, List.nil_append]

theorem predictBatch_fields (f : Forest) (ds : List (Nat → Int)) :
    let g := (predictBatch f ds).1
    g.n = f.n ∧ g.pred = f.pred ∧ g.proto = f.proto ∧ g.ncost = f.ncost ∧ g.plabel = f.plabel ∧
      g.label = f.label ∧ g.order = f.order := by
  rw [predictBatch_eq]
  exact (batchFold_fields f ds f [] ⟨rfl, rfl, rfl, rfl, rfl, rfl, rfl⟩).1

theorem batchFold_relevant (f : Forest) (rank : Nat → Nat) (hwf : f.WF) (hr : Ranked f rank)
    (ds : List (Nat → Int)) (g : Forest) (acc : List (Option Nat)) (hg : AgreeBut g f)
    (hsz : g.relevant.size = f.n) (t : Nat) :
    (ds.foldl batchStep (g, acc)).1.relevantOf t = true ↔
      (g.relevantOf t = true ∨ ∃ d, d ∈ ds ∧ ∃ r, predictOne f d = some r ∧ Anc f t r.conq) := by
  induction ds generalizing g acc with
  | nil =>
    simp only [List.foldl_nil, List.not_mem_nil, false_and, exists_false, or_false]
  | cons d ds ih =>
    rw [List.foldl_cons]
    obtain ⟨s1, _, s3, s4⟩ := batchStep_spec f g acc d hg
    have h := ih (batchStep (g, acc) d).1 (batchStep (g, acc) d).2 s1 (s3.trans hsz)
    rw [h, s4]
    have hpred : ∀ x, g.predOf x = f.predOf x := by
      intro x; unfold Forest.predOf; rw [hg.2.1]
    cases hp : predictOne f d with
    | none =>
      simp only
      constructor
      · rintro (h' | ⟨d', hd', r, hr', ha⟩)
        · exact Or.inl h'
        · exact Or.inr ⟨d', List.mem_cons_of_mem _ hd', r, hr', ha⟩
      · rintro (h' | ⟨d', hd', r, hr', ha⟩)
        · exact Or.inl h'
        · rcases List.mem_cons.1 hd' with rfl | hd'
          · rw [hp] at hr'; cases hr'
          · exact Or.inr ⟨d', hd', r, hr', ha⟩
    | some r0 =>
      simp only
      have hlt : r0.conq < g.n := by
        rw [hg.1]; exact hwf.order_lt _ (predictOne_conq_mem f d r0 hp).1
      have hm := markNodes_relevant_aux rank g.n g (hsz.trans hg.1.symm)
        (fun x p hx => by rw [hg.1]; exact hwf.pred_lt x p ((hpred x).symm.trans hx))
        (fun x p hx => hr.1 x p ((hpred x).symm.trans hx))
        r0.conq hlt (by rw [hg.1] at hlt ⊢; exact hr.2 _ hlt) t
      rw [hm, Anc_congr_iff g f hpred]
      constructor
      · rintro ((h' | h') | ⟨d', hd', r, hr', ha⟩)
        · exact Or.inl h'
        · exact Or.inr ⟨d, List.mem_cons_self, r0, hp, h'⟩
        · exact Or.inr ⟨d', List.mem_cons_of_mem _ hd', r, hr', ha⟩
      · rintro (h' | ⟨d', hd', r, hr', ha⟩)
        · exact Or.inl (Or.inl h')
        · rcases List.mem_cons.1 hd' with rfl | hd'
          · rw [hp] at hr'; cases hr'; exact Or.inl (Or.inr ha)
          · exact Or.inr ⟨d', hd', r, hr', ha⟩

theorem predictBatch_relevant (f : Forest) (rank : Nat → Nat) (hwf : f.WF) (hr : Ranked f rank)
    (ds : List (Nat → Int)) (t : Nat) (_ht : t < f.n) :
    (predictBatch f ds).1.relevantOf t = true ↔
      (f.relevantOf t = true ∨ ∃ d, d ∈ ds ∧ ∃ r, predictOne f d = some r ∧ Anc f t r.conq) := by
  rw [predictBatch_eq]
  exact batchFold_relevant f rank hwf hr ds f [] ⟨rfl, rfl, rfl, rfl, rfl, rfl, rfl⟩
    hwf.size_relevant t

/-! ### decidability of the sortedness predicate (for closed examples) -/

instance (f : Forest) : Decidable (OrderSorted f) :=
  inferInstanceAs (Decidable (f.order.toList.Pairwise (fun a b => f.costOf a ≤ f.costOf b)))

end Opf
