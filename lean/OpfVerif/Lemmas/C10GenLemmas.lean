-- helper lemmas for Props/C10Gen.lean
import OpfVerif.Props.C03Gen
namespace Opf.C10GenLemmas
open Opf Opf.Gen Opf.Gen.SupImp Opf.SupRefine Opf.FitCompose Opf.GenCompose

/-- two arrays of the same size `n` that agree (through `[x]?`) below `n` are equal. -/
theorem arr_ext {α : Type} {a b : Array α} {n : Nat} (ha : a.size = n) (hb : b.size = n)
    (h : ∀ x, x < n → a[x]? = b[x]?) : a = b := by
  apply Array.ext_getElem?
  intro x
  by_cases hx : x < n
  · exact h x hx
  · have h1 : a[x]? = none := Array.getElem?_eq_none (by omega)
    have h2 : b[x]? = none := Array.getElem?_eq_none (by omega)
    rw [h1, h2]

variable {sgA sgB : SG} {F : Forest}

/-! two subgraphs representing the SAME model forest have the same arrays. -/

theorem status_eq (rA : RelF sgA F) (rB : RelF sgB F) : sgB.status = sgA.status :=
  arr_ext rB.sz_status rA.sz_status (fun x hx => by rw [rB.status x hx, rA.status x hx])

theorem pred_eq (rA : RelF sgA F) (rB : RelF sgB F) : sgB.pred = sgA.pred :=
  arr_ext rB.sz_pred rA.sz_pred (fun x hx => by rw [rB.pred x hx, rA.pred x hx])

theorem cost_eq (rA : RelF sgA F) (rB : RelF sgB F) : sgB.cost = sgA.cost :=
  arr_ext rB.sz_cost rA.sz_cost (fun x hx => by rw [rB.cost x hx, rA.cost x hx])

theorem plabel_eq (rA : RelF sgA F) (rB : RelF sgB F) :
    sgB.predicted_label = sgA.predicted_label :=
  arr_ext rB.sz_plabel rA.sz_plabel (fun x hx => by rw [rB.plabel x hx, rA.plabel x hx])

theorem label_eq (rA : RelF sgA F) (rB : RelF sgB F) : sgB.label = sgA.label :=
  arr_ext rB.sz_label rA.sz_label (fun x hx => by rw [rB.label x hx, rA.label x hx])

theorem relevant_eq (rA : RelF sgA F) (rB : RelF sgB F) : sgB.relevant = sgA.relevant :=
  arr_ext rB.sz_relevant rA.sz_relevant (fun x hx => by rw [rB.relevant x hx, rA.relevant x hx])

theorem order_eq (rA : RelF sgA F) (rB : RelF sgB F) : sgB.idx_nodes = sgA.idx_nodes := by
  rw [rB.order, rA.order]

end Opf.C10GenLemmas
