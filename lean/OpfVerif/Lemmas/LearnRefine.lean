-- helper lemmas for Props/C17LearnRefine.lean
import OpfVerif.Gen.LearnImp
import OpfVerif.Props.C17
set_option linter.unusedVariables false
namespace Opf.LearnRefine
open Opf Opf.Gen Opf.LearnSpec
variable {σ β ρ : Type}

/-! ## named copies of the generated loop bodies -/

abbrev InSt (σ β ρ : Type) := σ × ρ × Array β × Array β × Array Int × Array Int × Int × Int
abbrev ErrSt (σ β ρ : Type) := σ × ρ × Array β × Array β × Array Int × Array Int × Int
abbrev OutSt (σ β ρ : Type) :=
  σ × ρ × Int × Array β × Array β × Array Int × Array Int × Int × Int × Option σ × Option Int × Bool

def innerCond : InSt σ β ρ → Option Bool :=
  fun (s, rng, X_train, X_val, Y_train, Y_val, non_prototypes, ctr) => pure (decide (ctr > (0 : Int)))

def innerBody (ops : LearnOps σ β ρ) (PROTOTYPE : Int) (err : Int) : InSt σ β ρ → Option (InSt σ β ρ) :=
  fun (s, rng, X_train, X_val, Y_train, Y_val, non_prototypes, ctr) => do
              let (j_v, rng) ← ops.rand rng (0 : Int) (X_train.size : Int)
              let j := j_v
              let t1 ← Py.idx (ops.statuses s) j
              let (s, rng, X_train, X_val, Y_train, Y_val, non_prototypes, ctr) ← (if decide (t1 ≠ PROTOTYPE) then (do
                  let t2 ← Py.idx X_val err
                  let t3 ← Py.idx X_train j
                  let X_train ← Py.setIdx X_train j t2
                  let X_val ← Py.setIdx X_val err t3
                  let t4 ← Py.idx Y_val err
                  let t5 ← Py.idx Y_train j
                  let Y_train ← Py.setIdx Y_train j t4
                  let Y_val ← Py.setIdx Y_val err t5
                  let non_prototypes := non_prototypes - (1 : Int)
                  let ctr := (0 : Int)
                  pure (s, rng, X_train, X_val, Y_train, Y_val, non_prototypes, ctr)) else (do
                  let ctr := ctr - (1 : Int)
                  pure (s, rng, X_train, X_val, Y_train, Y_val, non_prototypes, ctr)))
              pure (s, rng, X_train, X_val, Y_train, Y_val, non_prototypes, ctr)

def errBody (ops : LearnOps σ β ρ) (PROTOTYPE : Int) : Int → ErrSt σ β ρ → Option (ErrSt σ β ρ) :=
  fun err (s, rng, X_train, X_val, Y_train, Y_val, non_prototypes) => do
          let ctr := non_prototypes
          let (s, rng, X_train, X_val, Y_train, Y_val, non_prototypes, ctr) ← Py.whileM innerCond (innerBody ops PROTOTYPE err) (s, rng, X_train, X_val, Y_train, Y_val, non_prototypes, ctr)
          pure (s, rng, X_train, X_val, Y_train, Y_val, non_prototypes)

def countBody (PROTOTYPE : Int) : Int → σ × ρ × Int → Option (σ × ρ × Int) :=
  fun n (s, rng, non_prototypes) => do
          let (s, rng, non_prototypes) ← (if decide (n ≠ PROTOTYPE) then (do
              let non_prototypes := non_prototypes + (1 : Int)
              pure (s, rng, non_prototypes)) else (do
              pure (s, rng, non_prototypes)))
          pure (s, rng, non_prototypes)

def outerCond : OutSt σ β ρ → Option Bool :=
  fun (s, rng, max_acc, X_train, X_val, Y_train, Y_val, previous_acc, t, best_opf, best_t, go) => pure (go)

def outerBody (ops : LearnOps σ β ρ) (PROTOTYPE FC_0_0001 n_iterations : Int) : OutSt σ β ρ → Option (OutSt σ β ρ) :=
  fun (s, rng, max_acc, X_train, X_val, Y_train, Y_val, previous_acc, t, best_opf, best_t, go) => do
      let s ← ops.fit s X_train Y_train
      let (s, preds_v) ← ops.predict s X_val
      let preds := preds_v
      let acc_v ← ops.opf_accuracy Y_val preds
      let acc := acc_v
      let (s, rng, max_acc, best_opf, best_t) ← (if decide (acc > max_acc) then (do
          let max_acc := acc
          let best_opf : Option σ := some s
          let best_t : Option Int := some t
          pure (s, rng, max_acc, best_opf, best_t)) else (do
          pure (s, rng, max_acc, best_opf, best_t)))
      let errors_v ← Py.argwhereNe Y_val preds
      let errors := errors_v
      let non_prototypes := (0 : Int)
      let (s, rng, non_prototypes) ← Py.forEach (ops.statuses s) (countBody PROTOTYPE) (s, rng, non_prototypes)
      let (s, rng, X_train, X_val, Y_train, Y_val, non_prototypes) ← Py.forEach errors (errBody ops PROTOTYPE) (s, rng, X_train, X_val, Y_train, Y_val, non_prototypes)
      let delta := ops.fabs_diff acc previous_acc
      let previous_acc := acc
      let t := t + (1 : Int)
      let (s, rng, go) ← (if (decide (delta < FC_0_0001) || decide (t = n_iterations)) then (do
          let t6 ← best_opf
          let s ← ops.restore s t6
          let t7 ← best_t
          let go := false
          pure (s, rng, go)) else (do
          pure (s, rng, go)))
      pure (s, rng, max_acc, X_train, X_val, Y_train, Y_val, previous_acc, t, best_opf, best_t, go)

def proj : OutSt σ β ρ → σ × ρ × Array β × Array Int × Array β × Array Int :=
  fun (s, rng, max_acc, X_train, X_val, Y_train, Y_val, previous_acc, t, best_opf, best_t, go) =>
    (s, rng, X_train, Y_train, X_val, Y_val)

theorem learn_eq (ops : LearnOps σ β ρ) (proto negOne zero small : Int) (s : σ) (rng : ρ)
    (Xt : Array β) (Yt : Array Int) (Xv : Array β) (Yv : Array Int) (n : Int) :
    LearnImp.learn ops proto negOne zero small s rng Xt Yt Xv Yv n =
      (Py.whileM outerCond (outerBody ops proto small n)
        (s, rng, negOne, Xt, Xv, Yt, Yv, zero, (0 : Int), (none : Option σ), (none : Option Int), true)).bind
        (fun r => some (proj r)) := by
  rfl


/-! ## generic facts -/

theorem whileM_true {τ : Type} (c : τ → Option Bool) (b : τ → Option τ) (s s' : τ)
    (hc : c s = some true) (hb : b s = some s') : Py.whileM c b s = Py.whileM c b s' := by
  rw [Py.whileM.eq_1]; simp [hc, hb]

theorem whileM_none {τ : Type} (c : τ → Option Bool) (b : τ → Option τ) (s : τ)
    (hc : c s = some true) (hb : b s = none) : Py.whileM c b s = none := by
  rw [Py.whileM.eq_1]; simp [hc, hb]

theorem whileM_false {τ : Type} (c : τ → Option Bool) (b : τ → Option τ) (s : τ)
    (hc : c s = some false) : Py.whileM c b s = some s := by
  rw [Py.whileM.eq_1]; simp [hc]

/-! ## the inner `while ctr > 0` -/

def packIn (s : σ) (ctr : Int) (r : ρ × Data β × Int) : InSt σ β ρ :=
  (s, r.1, r.2.1.Xt, r.2.1.Xv, r.2.1.Yt, r.2.1.Yv, r.2.2, ctr)

theorem innerBody_eq (ops : LearnOps σ β ρ) (proto err : Int) (s : σ) (rng : ρ) (Xt Xv : Array β)
    (Yt Yv : Array Int) (np ctr : Int) :
    innerBody ops proto err (s, rng, Xt, Xv, Yt, Yv, np, ctr) =
      (ops.rand rng 0 (Xt.size : Int)).bind (fun jr =>
        (Py.idx (ops.statuses s) jr.1).bind (fun st =>
          if st ≠ proto then
            (exchange { Xt := Xt, Yt := Yt, Xv := Xv, Yv := Yv } jr.1 err).bind (fun d =>
              some (packIn s 0 (jr.2, d, np - 1)))
          else some (s, jr.2, Xt, Xv, Yt, Yv, np, ctr - 1))) := by
  simp only [innerBody, exchange, packIn]
  cases h1 : ops.rand rng 0 (Xt.size : Int) with
  | none => rfl
  | some jr =>
    obtain ⟨j, rng'⟩ := jr
    simp only [Option.bind_eq_bind, Option.bind_some, Option.pure_def]
    cases h2 : Py.idx (ops.statuses s) j with
    | none => rfl
    | some st =>
      simp only [Option.bind_some]
      by_cases hp : st ≠ proto
      · simp only [hp, decide_true, if_true, ne_eq, not_false_eq_true]
        simp only [Option.bind_assoc, Option.bind_some]
      · simp only [hp, decide_false, if_false, Bool.false_eq_true]
        rfl


theorem innerCond_eq (s : σ) (rng : ρ) (Xt Xv : Array β) (Yt Yv : Array Int) (np ctr : Int) :
    innerCond (s, rng, Xt, Xv, Yt, Yv, np, ctr) = some (decide (ctr > 0)) := rfl

theorem inner_refines (ops : LearnOps σ β ρ) (proto err : Int) (s : σ) :
    ∀ (k : Nat) (ctr : Int) (rng : ρ) (Xt Xv : Array β) (Yt Yv : Array Int) (np : Int), ctr.toNat = k →
      Py.whileM innerCond (innerBody ops proto err) (s, rng, Xt, Xv, Yt, Yv, np, ctr) =
        (tryExchange ops proto s err k rng { Xt := Xt, Yt := Yt, Xv := Xv, Yv := Yv } np).bind
          (fun r => some (packIn s (min ctr 0) r)) := by
  intro k
  induction k with
  | zero =>
    intro ctr rng Xt Xv Yt Yv np hk
    have hle : ctr ≤ 0 := by omega
    rw [whileM_false _ _ _ (by rw [innerCond_eq]; simp; omega)]
    simp only [tryExchange, Option.bind_some, packIn]
    rw [Int.min_eq_left hle]
  | succ k ih =>
    intro ctr rng Xt Xv Yt Yv np hk
    have hpos : ctr > 0 := by omega
    have hc : innerCond (s, rng, Xt, Xv, Yt, Yv, np, ctr) = some true := by
      rw [innerCond_eq]; simp; omega
    have hmin : min ctr 0 = 0 := Int.min_eq_right (by omega)
    simp only [tryExchange, Option.bind_eq_bind, Option.pure_def]
    cases h1 : ops.rand rng 0 (Xt.size : Int) with
    | none =>
      rw [whileM_none _ _ _ hc (by rw [innerBody_eq, h1]; rfl)]; rfl
    | some jr =>
      obtain ⟨j, rng'⟩ := jr
      simp only [Option.bind_some]
      cases h2 : Py.idx (ops.statuses s) j with
      | none =>
        rw [whileM_none _ _ _ hc (by rw [innerBody_eq, h1]; simp [h2])]; rfl
      | some st =>
        simp only [Option.bind_some]
        by_cases hp : st ≠ proto
        · simp only [hp, if_true, ne_eq, not_false_eq_true]
          cases h3 : exchange { Xt := Xt, Yt := Yt, Xv := Xv, Yv := Yv } j err with
          | none =>
            rw [whileM_none _ _ _ hc (by rw [innerBody_eq, h1]; simp [h2, hp, h3])]; rfl
          | some d =>
            rw [whileM_true _ _ _ (packIn s 0 (rng', d, np - 1)) hc
              (by rw [innerBody_eq, h1]; simp [h2, hp, h3])]
            rw [whileM_false _ _ _ (by simp [packIn, innerCond_eq])]
            simp [hmin]
        · simp only [hp, if_false]
          rw [whileM_true _ _ _ (s, rng', Xt, Xv, Yt, Yv, np, ctr - 1) hc
              (by rw [innerBody_eq, h1]; simp [h2, hp])]
          rw [ih (ctr - 1) rng' Xt Xv Yt Yv np (by omega)]
          have : min (ctr - 1) 0 = 0 := Int.min_eq_right (by omega)
          rw [this, hmin]


/-! ## the counting loop and the loop over the errors -/

theorem countBody_eq (proto n : Int) (s : σ) (rng : ρ) (np : Int) :
    countBody proto n (s, rng, np) = some (s, rng, if n ≠ proto then np + 1 else np) := by
  by_cases h : n ≠ proto
  · simp only [countBody, h, decide_true, if_true, ne_eq, not_false_eq_true]; rfl
  · simp only [countBody, h, decide_false, if_false, Bool.false_eq_true]; rfl

theorem count_fold (proto : Int) (s : σ) (rng : ρ) : ∀ (l : List Int) (np : Int),
    l.foldlM (fun st x => countBody proto x st) (s, rng, np) =
      some (s, rng, np + ((l.filter (· ≠ proto)).length : Int)) := by
  intro l
  induction l with
  | nil => intro np; simp
  | cons a l ih =>
    intro np
    rw [List.foldlM_cons, countBody_eq]
    simp only [Option.bind_eq_bind, Option.bind_some]
    rw [ih]
    by_cases h : a ≠ proto
    · simp [h]; omega
    · simp [h]

theorem count_refines (proto : Int) (s : σ) (rng : ρ) (a : Array Int) :
    Py.forEach a (countBody proto) (s, rng, (0 : Int)) =
      some (s, rng, ((a.toList.filter (· ≠ proto)).length : Int)) := by
  unfold Py.forEach
  rw [count_fold]; simp

def packErr (s : σ) (r : ρ × Data β × Int) : ErrSt σ β ρ :=
  (s, r.1, r.2.1.Xt, r.2.1.Xv, r.2.1.Yt, r.2.1.Yv, r.2.2)

theorem errBody_eq (ops : LearnOps σ β ρ) (proto err : Int) (s : σ) (rng : ρ) (d : Data β) (np : Int) :
    errBody ops proto err (packErr s (rng, d, np)) =
      (tryExchange ops proto s err np.toNat rng d np).bind (fun r => some (packErr s r)) := by
  simp only [errBody, packErr]
  rw [inner_refines ops proto err s np.toNat np rng d.Xt d.Xv d.Yt d.Yv np rfl]
  cases tryExchange ops proto s err np.toNat rng d np with
  | none => rfl
  | some r => rfl

theorem err_fold (ops : LearnOps σ β ρ) (proto : Int) (s : σ) : ∀ (l : List Int) (rng : ρ) (d : Data β) (np : Int),
    l.foldlM (fun st x => errBody ops proto x st) (packErr s (rng, d, np)) =
      (exchangeAll ops proto s l rng d np).bind (fun r => some (packErr s r)) := by
  intro l
  induction l with
  | nil => intro rng d np; simp [exchangeAll]
  | cons a l ih =>
    intro rng d np
    rw [List.foldlM_cons, errBody_eq]
    simp only [exchangeAll, Option.bind_eq_bind]
    cases tryExchange ops proto s a np.toNat rng d np with
    | none => rfl
    | some r =>
      obtain ⟨rng', d', np'⟩ := r
      simp only [Option.bind_some]
      rw [ih]


theorem err_refines (ops : LearnOps σ β ρ) (proto : Int) (s : σ) (errors : Array Int) (rng : ρ) (d : Data β)
    (np : Int) :
    Py.forEach errors (errBody ops proto) (s, rng, d.Xt, d.Xv, d.Yt, d.Yv, np) =
      (exchangeAll ops proto s errors.toList rng d np).bind (fun r => some (packErr s r)) :=
  err_fold ops proto s errors.toList rng d np

/-! ## one outer iteration -/

theorem outerBody_eq (ops : LearnOps σ β ρ) (proto small n : Int) (s : σ) (rng : ρ) (mx : Int) (d : Data β)
    (prev t : Int) (bo : Option σ) (bt : Option Int) (go : Bool) :
    outerBody ops proto small n (s, rng, mx, d.Xt, d.Xv, d.Yt, d.Yv, prev, t, bo, bt, go) =
      (iteration ops proto s rng d).bind (fun r =>
        if ops.fabs_diff r.2.1 prev < small ∨ t + 1 = n then
          (if r.2.1 > mx then some r.1 else bo).bind (fun b =>
            (ops.restore r.1 b).bind (fun s' =>
              (if r.2.1 > mx then some t else bt).bind (fun _ =>
                some (s', r.2.2.1, (if r.2.1 > mx then r.2.1 else mx), r.2.2.2.Xt, r.2.2.2.Xv, r.2.2.2.Yt,
                  r.2.2.2.Yv, r.2.1, t + 1, (if r.2.1 > mx then some r.1 else bo),
                  (if r.2.1 > mx then some t else bt), false))))
        else
          some (r.1, r.2.2.1, (if r.2.1 > mx then r.2.1 else mx), r.2.2.2.Xt, r.2.2.2.Xv, r.2.2.2.Yt,
            r.2.2.2.Yv, r.2.1, t + 1, (if r.2.1 > mx then some r.1 else bo),
            (if r.2.1 > mx then some t else bt), go)) := by
  simp only [outerBody, iteration, Option.bind_eq_bind, Option.pure_def]
  cases h1 : ops.fit s d.Xt d.Yt with
  | none => rfl
  | some s1 =>
    simp only [Option.bind_some]
    cases h2 : ops.predict s1 d.Xv with
    | none => rfl
    | some sp =>
      obtain ⟨s2, preds⟩ := sp
      simp only [Option.bind_some]
      cases h3 : ops.opf_accuracy d.Yv preds with
      | none => rfl
      | some acc =>
        simp only [Option.bind_some]
        have key : ∀ (mx' : Int) (bo' : Option σ) (bt' : Option Int),
            (if acc > mx then acc else mx) = mx' → (if acc > mx then some s2 else bo) = bo' →
            (if acc > mx then some t else bt) = bt' →
            ((Py.argwhereNe d.Yv preds).bind fun errors_v =>
              (Py.forEach (ops.statuses s2) (countBody proto) (s2, rng, 0)).bind fun __x_1 =>
                (Py.forEach errors_v (errBody ops proto)
                    (__x_1.fst, __x_1.2.fst, d.Xt, d.Xv, d.Yt, d.Yv, __x_1.2.snd)).bind fun __x_2 =>
                  (if (decide (ops.fabs_diff acc prev < small) || decide (t + 1 = n)) = true then
                        bo'.bind fun t6 =>
                          (ops.restore __x_2.fst t6).bind fun s => bt'.bind fun t7 => some (s, __x_2.2.fst, false)
                      else some (__x_2.fst, __x_2.2.fst, go)).bind fun __x_3 =>
                    some (__x_3.fst, __x_3.2.fst, mx', __x_2.2.2.fst, __x_2.2.2.2.fst, __x_2.2.2.2.2.fst,
                        __x_2.2.2.2.2.2.fst, acc, t + 1, bo', bt', __x_3.2.snd)) =
            ((Py.argwhereNe d.Yv preds).bind fun errors =>
                (exchangeAll ops proto s2 errors.toList rng d
                      ↑(List.filter (fun x => decide (x ≠ proto)) (ops.statuses s2).toList).length).bind
                  fun __x => some (s2, acc, __x.fst, __x.2.fst)).bind fun r =>
              if ops.fabs_diff r.snd.fst prev < small ∨ t + 1 = n then
                (if r.snd.fst > mx then some r.fst else bo).bind fun b =>
                  (ops.restore r.fst b).bind fun s' =>
                    (if r.snd.fst > mx then some t else bt).bind fun x =>
                      some (s', r.snd.snd.fst, (if r.snd.fst > mx then r.snd.fst else mx), r.snd.snd.snd.Xt,
                          r.snd.snd.snd.Xv, r.snd.snd.snd.Yt, r.snd.snd.snd.Yv, r.snd.fst, t + 1,
                          (if r.snd.fst > mx then some r.fst else bo), (if r.snd.fst > mx then some t else bt), false)
              else
                some (r.fst, r.snd.snd.fst, (if r.snd.fst > mx then r.snd.fst else mx), r.snd.snd.snd.Xt,
                    r.snd.snd.snd.Xv, r.snd.snd.snd.Yt, r.snd.snd.snd.Yv, r.snd.fst, t + 1,
                    (if r.snd.fst > mx then some r.fst else bo), (if r.snd.fst > mx then some t else bt), go) := by
          intro mx' bo' bt' hm hbo hbt
          cases h4 : Py.argwhereNe d.Yv preds with
          | none => rfl
          | some errors =>
            simp only [Option.bind_some]
            rw [count_refines]
            simp only [Option.bind_some]
            rw [err_refines]
            cases h5 : exchangeAll ops proto s2 errors.toList rng d
                ↑(List.filter (fun x => decide (x ≠ proto)) (ops.statuses s2).toList).length with
            | none => rfl
            | some r =>
              obtain ⟨rng', d', np'⟩ := r
              simp only [Option.bind_some, packErr, hm, hbo, hbt]
              by_cases hstop : ops.fabs_diff acc prev < small ∨ t + 1 = n
              · have hb : (decide (ops.fabs_diff acc prev < small) || decide (t + 1 = n)) = true := by
                  simpa using hstop
                simp only [hb, hstop, if_true]
                cases bo' with
                | none => rfl
                | some b =>
                  simp only [Option.bind_some]
                  cases ops.restore s2 b with
                  | none => rfl
                  | some s' =>
                    simp only [Option.bind_some]
                    cases bt' with
                    | none => rfl
                    | some _ => rfl
              · have hb : (decide (ops.fabs_diff acc prev < small) || decide (t + 1 = n)) = false := by
                  simpa using hstop
                simp only [hb, hstop, if_false, Bool.false_eq_true, Option.bind_some]
        by_cases hgt : acc > mx
        · simp only [hgt, decide_true, if_true, Option.bind_some]
          exact key acc (some s2) (some t) (if_pos hgt) (if_pos hgt) (if_pos hgt)
        · simp only [hgt, decide_false, if_false, Bool.false_eq_true, Option.bind_some]
          exact key mx bo bt (if_neg hgt) (if_neg hgt) (if_neg hgt)


/-! ## the outer loop against an accumulator form of the specification -/

def flat' (r : σ × ρ × Data β) : σ × ρ × Array β × Array Int × Array β × Array Int :=
  (r.1, r.2.1, r.2.2.Xt, r.2.2.Yt, r.2.2.Xv, r.2.2.Yv)

/-- the specification with the running maximum and the kept classifier carried along. -/
def runAcc (ops : LearnOps σ β ρ) (proto small n : Int) :
    Nat → Int → Int → σ → ρ → Data β → Int → Option σ → Option (σ × ρ × Data β)
  | 0, _, _, _, _, _, _, _ => none
  | fuel + 1, t, prev, s, rng, d, mx, bo =>
    (iteration ops proto s rng d).bind fun r =>
      if ops.fabs_diff r.2.1 prev < small ∨ t + 1 = n then
        (if r.2.1 > mx then some r.1 else bo).bind fun b =>
          (ops.restore r.1 b).bind fun s' => some (s', r.2.2.1, r.2.2.2)
      else runAcc ops proto small n fuel (t + 1) r.2.1 r.1 r.2.2.1 r.2.2.2
        (if r.2.1 > mx then r.2.1 else mx) (if r.2.1 > mx then some r.1 else bo)

theorem outer_step (ops : LearnOps σ β ρ) (proto small n : Int) (s : σ) (rng : ρ) (mx : Int) (d : Data β)
    (prev t : Int) (bo : Option σ) (bt : Option Int) (hbt : bt.isSome = bo.isSome) :
    (Py.whileM outerCond (outerBody ops proto small n)
        (s, rng, mx, d.Xt, d.Xv, d.Yt, d.Yv, prev, t, bo, bt, true)).bind (fun r => some (proj r)) =
      (iteration ops proto s rng d).bind (fun r =>
        if ops.fabs_diff r.2.1 prev < small ∨ t + 1 = n then
          (if r.2.1 > mx then some r.1 else bo).bind fun b =>
            (ops.restore r.1 b).bind fun s' => some (flat' (s', r.2.2.1, r.2.2.2))
        else
          (Py.whileM outerCond (outerBody ops proto small n)
            (r.1, r.2.2.1, (if r.2.1 > mx then r.2.1 else mx), r.2.2.2.Xt, r.2.2.2.Xv, r.2.2.2.Yt,
              r.2.2.2.Yv, r.2.1, t + 1, (if r.2.1 > mx then some r.1 else bo),
              (if r.2.1 > mx then some t else bt), true)).bind (fun r => some (proj r))) := by
  have hc : outerCond (s, rng, mx, d.Xt, d.Xv, d.Yt, d.Yv, prev, t, bo, bt, true) = some true := rfl
  have hb := outerBody_eq ops proto small n s rng mx d prev t bo bt true
  cases h1 : iteration ops proto s rng d with
  | none =>
    rw [h1] at hb
    rw [whileM_none _ _ _ hc hb]; rfl
  | some r =>
    rw [h1] at hb
    simp only [Option.bind_some] at hb ⊢
    by_cases hstop : ops.fabs_diff r.2.1 prev < small ∨ t + 1 = n
    · simp only [hstop, if_true] at hb ⊢
      have hbt' : (if r.2.1 > mx then some t else bt).isSome =
          (if r.2.1 > mx then some r.1 else bo).isSome := by
        by_cases hgt : r.2.1 > mx <;> simp [hgt, hbt]
      cases h2 : (if r.2.1 > mx then some r.1 else bo) with
      | none =>
        rw [h2] at hb
        rw [whileM_none _ _ _ hc hb]; rfl
      | some b =>
        rw [h2] at hb hbt'
        simp only [Option.bind_some] at hb ⊢
        cases h3 : ops.restore r.1 b with
        | none =>
          rw [h3] at hb
          rw [whileM_none _ _ _ hc hb]; rfl
        | some s' =>
          rw [h3] at hb
          obtain ⟨tt, htt⟩ := Option.isSome_iff_exists.1 hbt'
          rw [htt] at hb
          simp only [Option.bind_some] at hb ⊢
          rw [whileM_true _ _ _ _ hc hb, whileM_false outerCond _ _ rfl]
          rfl
    · simp only [hstop, if_false] at hb ⊢
      rw [whileM_true _ _ _ _ hc hb]

theorem outer_refines (ops : LearnOps σ β ρ) (proto small n : Int) :
    ∀ (fuel : Nat) (t prev : Int) (s : σ) (rng : ρ) (d : Data β) (mx : Int) (bo : Option σ) (bt : Option Int),
      (fuel : Int) + 1 = n - t → bt.isSome = bo.isSome →
      (Py.whileM outerCond (outerBody ops proto small n)
          (s, rng, mx, d.Xt, d.Xv, d.Yt, d.Yv, prev, t, bo, bt, true)).bind (fun r => some (proj r)) =
        (runAcc ops proto small n (fuel + 1) t prev s rng d mx bo).bind (fun r => some (flat' r)) := by
  intro fuel
  induction fuel with
  | zero =>
    intro t prev s rng d mx bo bt hf hbt
    rw [outer_step _ _ _ _ _ _ _ _ _ _ _ _ hbt]
    simp only [runAcc]
    cases h1 : iteration ops proto s rng d with
    | none => rfl
    | some r =>
      have hstop : ops.fabs_diff r.2.1 prev < small ∨ t + 1 = n := Or.inr (by omega)
      simp only [Option.bind_some, hstop, if_true]
      cases (if r.2.1 > mx then some r.1 else bo) with
      | none => rfl
      | some b =>
        simp only [Option.bind_some]
        cases ops.restore r.1 b <;> rfl
  | succ fuel ih =>
    intro t prev s rng d mx bo bt hf hbt
    rw [outer_step _ _ _ _ _ _ _ _ _ _ _ _ hbt]
    rw [runAcc]
    cases h1 : iteration ops proto s rng d with
    | none => rfl
    | some r =>
      simp only [Option.bind_some]
      by_cases hstop : ops.fabs_diff r.2.1 prev < small ∨ t + 1 = n
      · simp only [hstop, if_true]
        cases (if r.2.1 > mx then some r.1 else bo) with
        | none => rfl
        | some b =>
          simp only [Option.bind_some]
          cases ops.restore r.1 b <;> rfl
      · simp only [hstop, if_false]
        exact ih (t + 1) r.2.1 r.1 r.2.2.1 r.2.2.2 _ _ _ (by push_cast at hf ⊢; omega)
          (by by_cases hgt : r.2.1 > mx <;> simp [hgt, hbt])


/-! ## the accumulator form against `run` + `bestIter` -/

def pickStep (st : Int × Option σ) (x : σ × Int) : Int × Option σ :=
  (if x.2 > st.1 then x.2 else st.1, if x.2 > st.1 then some x.1 else st.2)

def finishAcc (ops : LearnOps σ β ρ) (mx : Int) (bo : Option σ) (r : List (σ × Int) × ρ × Data β) :
    Option (σ × ρ × Data β) :=
  (r.1.foldl pickStep (mx, bo)).2.bind fun best =>
    r.1.getLast?.bind fun last => (ops.restore last.1 best).bind fun s => some (s, r.2.1, r.2.2)

theorem run_length (ops : LearnOps σ β ρ) (proto small n : Int) :
    ∀ (fuel : Nat) (t prev : Int) (s : σ) (rng : ρ) (d : Data β) tr rng' d',
      run ops proto small n fuel t prev s rng d = some (tr, rng', d') → 1 ≤ tr.length ∧ tr.length ≤ fuel := by
  intro fuel
  induction fuel with
  | zero => intro t prev s rng d tr rng' d' h; simp [run] at h
  | succ fuel ih =>
    intro t prev s rng d tr rng' d' h
    simp only [run, Option.bind_eq_bind, Option.pure_def] at h
    cases h1 : iteration ops proto s rng d with
    | none => simp [h1] at h
    | some r =>
      obtain ⟨s1, acc, rng1, d1⟩ := r
      simp only [h1, Option.bind_some] at h
      by_cases hstop : ops.fabs_diff acc prev < small ∨ t + 1 = n
      · simp only [hstop, if_true, Option.some.injEq, Prod.mk.injEq] at h
        rw [← h.1]; simp
      · simp only [hstop, if_false] at h
        cases h2 : run ops proto small n fuel (t + 1) acc s1 rng1 d1 with
        | none => simp [h2] at h
        | some r2 =>
          obtain ⟨tr2, rng2, d2⟩ := r2
          simp only [h2, Option.bind_some, Option.some.injEq, Prod.mk.injEq] at h
          have := ih _ _ _ _ _ _ _ _ h2
          rw [← h.1]; simp; omega

theorem runAcc_eq (ops : LearnOps σ β ρ) (proto small n : Int) :
    ∀ (fuel : Nat) (t prev : Int) (s : σ) (rng : ρ) (d : Data β) (mx : Int) (bo : Option σ),
      runAcc ops proto small n fuel t prev s rng d mx bo =
        (run ops proto small n fuel t prev s rng d).bind (finishAcc ops mx bo) := by
  intro fuel
  induction fuel with
  | zero => intro t prev s rng d mx bo; rfl
  | succ fuel ih =>
    intro t prev s rng d mx bo
    simp only [run, runAcc, Option.bind_eq_bind, Option.pure_def]
    cases h1 : iteration ops proto s rng d with
    | none => rfl
    | some r =>
      obtain ⟨s1, acc, rng1, d1⟩ := r
      simp only [Option.bind_some]
      by_cases hstop : ops.fabs_diff acc prev < small ∨ t + 1 = n
      · simp only [hstop, if_true, Option.bind_some, finishAcc, List.foldl_cons, List.foldl_nil, pickStep,
          List.getLast?_singleton]
      · simp only [hstop, if_false]
        rw [ih]
        cases h2 : run ops proto small n fuel (t + 1) acc s1 rng1 d1 with
        | none => rfl
        | some r2 =>
          obtain ⟨tr2, rng2, d2⟩ := r2
          have hlen := (run_length ops proto small n _ _ _ _ _ _ _ _ _ h2).1
          obtain ⟨y, tr3, rfl⟩ : ∃ y tr3, tr2 = y :: tr3 := by
            cases tr2 with
            | nil => simp at hlen
            | cons y tr3 => exact ⟨y, tr3, rfl⟩
          simp only [Option.bind_some, finishAcc, List.foldl_cons, List.getLast?_cons_cons, pickStep]


theorem pick_fold : ∀ (l pre : List (σ × Int)) (m : Int) (bo : Option σ) (bi : Option Nat) (i : Nat),
    i = pre.length → bo = bi.bind (fun b => pre[b]?.map (·.1)) → (∀ b, bi = some b → b < pre.length) →
    (l.foldl pickStep (m, bo)).2 =
      ((l.map (·.2)).foldl bestStep (m, bi, i)).2.1.bind (fun b => (pre ++ l)[b]?.map (·.1)) := by
  intro l
  induction l with
  | nil => intro pre m bo bi i hi hbo hlt; simpa using hbo
  | cons x l ih =>
    intro pre m bo bi i hi hbo hlt
    rw [List.map_cons, List.foldl_cons, List.foldl_cons]
    have happ : pre ++ x :: l = (pre ++ [x]) ++ l := by simp
    rw [happ]
    by_cases hgt : x.2 > m
    · have h1 : pickStep (m, bo) x = (x.2, some x.1) := by simp [pickStep, hgt]
      have h2 : bestStep (m, bi, i) x.2 = (x.2, some i, i + 1) := by simp [bestStep, hgt]
      rw [h1, h2]
      apply ih (pre ++ [x]) x.2 (some x.1) (some i) (i + 1) (by simp [hi])
      · subst hi; simp
      · intro b hb; cases hb; subst hi; simp
    · have h1 : pickStep (m, bo) x = (m, bo) := by simp [pickStep, hgt]
      have h2 : bestStep (m, bi, i) x.2 = (m, bi, i + 1) := by simp [bestStep, hgt]
      rw [h1, h2]
      apply ih (pre ++ [x]) m bo bi (i + 1) (by simp [hi])
      · rw [hbo]
        cases bi with
        | none => rfl
        | some b =>
          have := hlt b rfl
          simp only [Option.bind_some]
          rw [List.getElem?_append_left this]
      · intro b hb; have := hlt b hb; simp; omega

theorem pick_eq (negOne : Int) (tr : List (σ × Int)) :
    (tr.foldl pickStep (negOne, none)).2 =
      (bestIter negOne (tr.map (·.2))).bind (fun b => tr[b]?.map (·.1)) := by
  have := pick_fold tr [] negOne (none : Option σ) none 0 rfl rfl (by intro b hb; cases hb)
  rw [this, bestIter_eq]; simp

theorem learnSpec_eq (ops : LearnOps σ β ρ) (proto negOne zero small : Int) (s : σ) (rng : ρ) (d : Data β)
    (n : Int) :
    learnSpec ops proto negOne zero small s rng d n =
      (run ops proto small n n.toNat 0 zero s rng d).bind (finishAcc ops negOne none) := by
  simp only [learnSpec, Option.bind_eq_bind, Option.pure_def]
  cases run ops proto small n n.toNat 0 zero s rng d with
  | none => rfl
  | some r =>
    obtain ⟨tr, rng', d'⟩ := r
    simp only [Option.bind_some, finishAcc, pick_eq]
    cases bestIter negOne (tr.map (·.2)) with
    | none => rfl
    | some b =>
      simp only [Option.bind_some]
      cases tr[b]? with
      | none => rfl
      | some best => rfl

/-- the translated `learn` computes the specification. -/
theorem learn_refines' (ops : LearnOps σ β ρ) (proto negOne zero small : Int) (s : σ) (rng : ρ)
    (Xt : Array β) (Yt : Array Int) (Xv : Array β) (Yv : Array Int) (n : Int) (hn : 1 ≤ n) :
    LearnImp.learn ops proto negOne zero small s rng Xt Yt Xv Yv n =
      (learnSpec ops proto negOne zero small s rng { Xt := Xt, Yt := Yt, Xv := Xv, Yv := Yv } n).bind
        (fun r => some (flat' r)) := by
  obtain ⟨k, hk⟩ : ∃ k, n.toNat = k + 1 := ⟨n.toNat - 1, by omega⟩
  rw [learn_eq, learnSpec_eq, hk, ← runAcc_eq]
  exact outer_refines ops proto small n k 0 zero s rng { Xt := Xt, Yt := Yt, Xv := Xv, Yv := Yv } negOne none none
    (by omega) rfl


/-! ## conservation -/

def pairs' (d : Data β) : List (β × Int) := d.Xt.toList.zip d.Yt.toList ++ d.Xv.toList.zip d.Yv.toList

theorem zip_set {α γ : Type} : ∀ (l : List α) (m : List γ) (i : Nat) (a : α) (b : γ),
    (l.set i a).zip (m.set i b) = (l.zip m).set i (a, b) := by
  intro l
  induction l with
  | nil => intro m i a b; simp
  | cons x l ih =>
    intro m i a b
    cases m with
    | nil => simp
    | cons y m =>
      cases i with
      | zero => simp
      | succ i => simp [ih]

theorem idx_some {α : Type} (a : Array α) (i : Int) (v : α) (h : Py.idx a i = some v) :
    ∃ k, Py.resolve a.size i = some k ∧ k < a.size ∧ a.toList[k]? = some v := by
  unfold Py.idx at h
  cases hr : Py.resolve a.size i with
  | none => simp [hr] at h
  | some k =>
    simp only [hr] at h
    refine ⟨k, rfl, ?_, by simpa using h⟩
    rcases Nat.lt_or_ge k a.size with hlt | hge
    · exact hlt
    · rw [Array.getElem?_eq_none hge] at h; cases h

theorem setIdx_some {α : Type} (a a' : Array α) (i : Int) (v : α) (h : Py.setIdx a i v = some a') :
    ∃ k, Py.resolve a.size i = some k ∧ k < a.size ∧ a' = a.setIfInBounds k v := by
  unfold Py.setIdx at h
  cases hr : Py.resolve a.size i with
  | none => simp [hr] at h
  | some k =>
    simp only [hr] at h
    by_cases hk : k < a.size
    · simp only [hk, if_true, Option.some.injEq] at h
      exact ⟨k, rfl, hk, h.symm⟩
    · simp [hk] at h

theorem exchange_conserves' (d d' : Data β) (j err : Int) (h : exchange d j err = some d')
    (hst : d.Xt.size = d.Yt.size) (hsv : d.Xv.size = d.Yv.size) :
    d'.Xt.size = d.Xt.size ∧ d'.Yt.size = d.Yt.size ∧ d'.Xv.size = d.Xv.size ∧ d'.Yv.size = d.Yv.size ∧
      (pairs' d').Perm (pairs' d) := by
  obtain ⟨Xt, Yt, Xv, Yv⟩ := d
  simp only at hst hsv
  simp only [exchange, Option.bind_eq_bind, Option.pure_def] at h
  cases h1 : Py.idx Xv err with
  | none => simp [h1] at h
  | some a =>
  simp only [h1, Option.bind_some] at h
  cases h2 : Py.idx Xt j with
  | none => simp [h2] at h
  | some b =>
  simp only [h2, Option.bind_some] at h
  cases h3 : Py.setIdx Xt j a with
  | none => simp [h3] at h
  | some Xt' =>
  simp only [h3, Option.bind_some] at h
  cases h4 : Py.setIdx Xv err b with
  | none => simp [h4] at h
  | some Xv' =>
  simp only [h4, Option.bind_some] at h
  cases h5 : Py.idx Yv err with
  | none => simp [h5] at h
  | some c =>
  simp only [h5, Option.bind_some] at h
  cases h6 : Py.idx Yt j with
  | none => simp [h6] at h
  | some e =>
  simp only [h6, Option.bind_some] at h
  cases h7 : Py.setIdx Yt j c with
  | none => simp [h7] at h
  | some Yt' =>
  simp only [h7, Option.bind_some] at h
  cases h8 : Py.setIdx Yv err e with
  | none => simp [h8] at h
  | some Yv' =>
  simp only [h8, Option.bind_some, Option.some.injEq] at h
  subst h
  obtain ⟨en, hen, henlt, ha⟩ := idx_some _ _ _ h1
  obtain ⟨jn, hjn, hjnlt, hb⟩ := idx_some _ _ _ h2
  obtain ⟨k3, hk3, _, rfl⟩ := setIdx_some _ _ _ _ h3
  obtain ⟨k4, hk4, _, rfl⟩ := setIdx_some _ _ _ _ h4
  obtain ⟨k5, hk5, _, hc⟩ := idx_some _ _ _ h5
  obtain ⟨k6, hk6, _, he⟩ := idx_some _ _ _ h6
  obtain ⟨k7, hk7, _, rfl⟩ := setIdx_some _ _ _ _ h7
  obtain ⟨k8, hk8, _, rfl⟩ := setIdx_some _ _ _ _ h8
  rw [hjn] at hk3; cases hk3
  rw [hen] at hk4; cases hk4
  rw [← hsv, hen] at hk5 hk8; cases hk5; cases hk8
  rw [← hst, hjn] at hk6 hk7; cases hk6; cases hk7
  refine ⟨by simp, by simp, by simp, by simp, ?_⟩
  simp only [pairs', Array.toList_setIfInBounds, zip_set]
  have hT : (Xt.toList.zip Yt.toList)[jn]? = some (b, e) := by
    rw [List.getElem?_zip_eq_some]; exact ⟨hb, he⟩
  have hV : (Xv.toList.zip Yv.toList)[en]? = some (a, c) := by
    rw [List.getElem?_zip_eq_some]; exact ⟨ha, hc⟩
  have hjl : jn < (Xt.toList.zip Yt.toList).length := by
    simp [List.length_zip]; omega
  have hel : en < (Xv.toList.zip Yv.toList).length := by
    simp [List.length_zip]; omega
  have : Inhabited (β × Int) := ⟨(a, c)⟩
  have := swap_perm (Xt.toList.zip Yt.toList) (Xv.toList.zip Yv.toList) jn en hjl hel
  rw [List.getD_eq_getElem?_getD, List.getD_eq_getElem?_getD, hT, hV] at this
  exact this


def Cons (d d' : Data β) : Prop :=
  d'.Xt.size = d.Xt.size ∧ d'.Yt.size = d.Yt.size ∧ d'.Xv.size = d.Xv.size ∧ d'.Yv.size = d.Yv.size ∧
    (pairs' d').Perm (pairs' d)

def Matched (d : Data β) : Prop := d.Xt.size = d.Yt.size ∧ d.Xv.size = d.Yv.size

theorem Cons.refl (d : Data β) : Cons d d := ⟨rfl, rfl, rfl, rfl, List.Perm.refl _⟩

theorem Cons.trans {a b c : Data β} (h1 : Cons a b) (h2 : Cons b c) : Cons a c :=
  ⟨h2.1.trans h1.1, h2.2.1.trans h1.2.1, h2.2.2.1.trans h1.2.2.1, h2.2.2.2.1.trans h1.2.2.2.1,
    h2.2.2.2.2.trans h1.2.2.2.2⟩

theorem Cons.matched {a b : Data β} (h : Cons a b) (hm : Matched a) : Matched b := by
  obtain ⟨h1, h2, h3, h4, _⟩ := h
  exact ⟨by rw [h1, h2]; exact hm.1, by rw [h3, h4]; exact hm.2⟩

theorem tryExchange_cons (ops : LearnOps σ β ρ) (proto : Int) (s : σ) (err : Int) :
    ∀ (k : Nat) (rng : ρ) (d : Data β) (np : Int) rng' d' np', Matched d →
      tryExchange ops proto s err k rng d np = some (rng', d', np') → Cons d d' := by
  intro k
  induction k with
  | zero =>
    intro rng d np rng' d' np' hm h
    simp only [tryExchange, Option.some.injEq, Prod.mk.injEq] at h
    rw [← h.2.1]; exact Cons.refl d
  | succ k ih =>
    intro rng d np rng' d' np' hm h
    simp only [tryExchange, Option.bind_eq_bind, Option.pure_def] at h
    cases h1 : ops.rand rng 0 (d.Xt.size : Int) with
    | none => simp [h1] at h
    | some jr =>
      obtain ⟨j, rng1⟩ := jr
      simp only [h1, Option.bind_some] at h
      cases h2 : Py.idx (ops.statuses s) j with
      | none => simp [h2] at h
      | some st =>
        simp only [h2, Option.bind_some] at h
        by_cases hp : st ≠ proto
        · simp only [hp, if_true, ne_eq, not_false_eq_true] at h
          cases h3 : exchange d j err with
          | none => simp [h3] at h
          | some d1 =>
            simp only [h3, Option.bind_some, Option.some.injEq, Prod.mk.injEq] at h
            rw [← h.2.1]
            exact exchange_conserves' d d1 j err h3 hm.1 hm.2
        · simp only [hp, if_false] at h
          exact ih _ _ _ _ _ _ hm h

theorem exchangeAll_cons (ops : LearnOps σ β ρ) (proto : Int) (s : σ) :
    ∀ (l : List Int) (rng : ρ) (d : Data β) (np : Int) rng' d' np', Matched d →
      exchangeAll ops proto s l rng d np = some (rng', d', np') → Cons d d' := by
  intro l
  induction l with
  | nil =>
    intro rng d np rng' d' np' hm h
    simp only [exchangeAll, Option.some.injEq, Prod.mk.injEq] at h
    rw [← h.2.1]; exact Cons.refl d
  | cons e l ih =>
    intro rng d np rng' d' np' hm h
    simp only [exchangeAll, Option.bind_eq_bind] at h
    cases h1 : tryExchange ops proto s e np.toNat rng d np with
    | none => simp [h1] at h
    | some r =>
      obtain ⟨rng1, d1, np1⟩ := r
      simp only [h1, Option.bind_some] at h
      have c1 := tryExchange_cons ops proto s e _ _ _ _ _ _ _ hm h1
      exact c1.trans (ih _ _ _ _ _ _ (c1.matched hm) h)

theorem iteration_cons (ops : LearnOps σ β ρ) (proto : Int) (s : σ) (rng : ρ) (d : Data β) s' acc rng' d'
    (hm : Matched d) (h : iteration ops proto s rng d = some (s', acc, rng', d')) : Cons d d' := by
  simp only [iteration, Option.bind_eq_bind, Option.pure_def] at h
  cases h1 : ops.fit s d.Xt d.Yt with
  | none => simp [h1] at h
  | some s1 =>
    simp only [h1, Option.bind_some] at h
    cases h2 : ops.predict s1 d.Xv with
    | none => simp [h2] at h
    | some sp =>
      obtain ⟨s2, preds⟩ := sp
      simp only [h2, Option.bind_some] at h
      cases h3 : ops.opf_accuracy d.Yv preds with
      | none => simp [h3] at h
      | some a =>
        simp only [h3, Option.bind_some] at h
        cases h4 : Py.argwhereNe d.Yv preds with
        | none => simp [h4] at h
        | some errors =>
          simp only [h4, Option.bind_some] at h
          cases h5 : exchangeAll ops proto s2 errors.toList rng d
              ↑(List.filter (fun x => decide (x ≠ proto)) (ops.statuses s2).toList).length with
          | none => rw [h5] at h; simp at h
          | some r =>
            obtain ⟨rng1, d1, np1⟩ := r
            simp only [h5, Option.bind_some, Option.some.injEq, Prod.mk.injEq] at h
            rw [← h.2.2.2]
            exact exchangeAll_cons ops proto s2 _ _ _ _ _ _ _ hm h5

theorem run_cons (ops : LearnOps σ β ρ) (proto small n : Int) :
    ∀ (fuel : Nat) (t prev : Int) (s : σ) (rng : ρ) (d : Data β) tr rng' d', Matched d →
      run ops proto small n fuel t prev s rng d = some (tr, rng', d') → Cons d d' := by
  intro fuel
  induction fuel with
  | zero => intro t prev s rng d tr rng' d' hm h; simp [run] at h
  | succ fuel ih =>
    intro t prev s rng d tr rng' d' hm h
    simp only [run, Option.bind_eq_bind, Option.pure_def] at h
    cases h1 : iteration ops proto s rng d with
    | none => simp [h1] at h
    | some r =>
      obtain ⟨s1, acc, rng1, d1⟩ := r
      simp only [h1, Option.bind_some] at h
      have c1 := iteration_cons ops proto s rng d _ _ _ _ hm h1
      by_cases hstop : ops.fabs_diff acc prev < small ∨ t + 1 = n
      · simp only [hstop, if_true, Option.some.injEq, Prod.mk.injEq] at h
        rw [← h.2.2]; exact c1
      · simp only [hstop, if_false] at h
        cases h2 : run ops proto small n fuel (t + 1) acc s1 rng1 d1 with
        | none => simp [h2] at h
        | some r2 =>
          obtain ⟨tr2, rng2, d2⟩ := r2
          simp only [h2, Option.bind_some, Option.some.injEq, Prod.mk.injEq] at h
          rw [← h.2.2]
          exact c1.trans (ih _ _ _ _ _ _ _ _ (c1.matched hm) h2)

/-- what a successful `learnSpec` consists of. -/
theorem learnSpec_some (ops : LearnOps σ β ρ) (proto negOne zero small : Int) (s : σ) (rng : ρ) (d : Data β)
    (n : Int) (s' : σ) (rng' : ρ) (d' : Data β)
    (h : learnSpec ops proto negOne zero small s rng d n = some (s', rng', d')) :
    ∃ tr b best last, run ops proto small n n.toNat 0 zero s rng d = some (tr, rng', d') ∧
      bestIter negOne (tr.map (·.2)) = some b ∧ tr[b]? = some best ∧ tr.getLast? = some last ∧
      ops.restore last.1 best.1 = some s' := by
  simp only [learnSpec, Option.bind_eq_bind, Option.pure_def] at h
  cases h1 : run ops proto small n n.toNat 0 zero s rng d with
  | none => simp [h1] at h
  | some r =>
    obtain ⟨tr, rng1, d1⟩ := r
    simp only [h1, Option.bind_some] at h
    cases h2 : bestIter negOne (tr.map (·.2)) with
    | none => simp [h2] at h
    | some b =>
      simp only [h2, Option.bind_some] at h
      cases h3 : tr[b]? with
      | none => simp [h3] at h
      | some best =>
        simp only [h3, Option.bind_some] at h
        cases h4 : tr.getLast? with
        | none => simp [h4] at h
        | some last =>
          simp only [h4, Option.bind_some] at h
          cases h5 : ops.restore last.1 best.1 with
          | none => simp [h5] at h
          | some s2 =>
            simp only [h5, Option.bind_some, Option.some.injEq, Prod.mk.injEq] at h
            obtain ⟨rfl, rfl, rfl⟩ := h
            exact ⟨tr, b, best, last, rfl, h2, h3, h4, h5⟩


theorem best_facts (negOne : Int) (tr : List (σ × Int)) (b : Nat) (best : σ × Int)
    (hb : bestIter negOne (tr.map (·.2)) = some b) (hbest : tr[b]? = some best) :
    negOne < best.2 ∧ (∀ x ∈ tr, x.2 ≤ best.2) ∧ (∀ j, j < b → ∀ x, tr[j]? = some x → x.2 < best.2) := by
  obtain ⟨hlt, hneg, hub, hfirst⟩ := c17_best_kept_gen negOne (tr.map (·.2)) b hb
  have hget : ∀ (j : Nat) (x : σ × Int), tr[j]? = some x → (tr.map (·.2))[j]! = x.2 := by
    intro j x hx
    simp [List.getElem!_eq_getElem?_getD, List.getElem?_map, hx]
  rw [hget b best hbest] at hneg
  refine ⟨hneg, ?_, ?_⟩
  · intro x hx
    obtain ⟨j, hj, rfl⟩ := List.getElem_of_mem hx
    have := hub j (by simpa using hj)
    rw [hget b best hbest, hget j _ (List.getElem?_eq_getElem hj)] at this
    exact this
  · intro j hj x hx
    have := hfirst j hj
    rw [hget b best hbest, hget j x hx] at this
    exact this

end Opf.LearnRefine
