/-
Generic part of the refinement of the translated `_clustering` methods (`Gen/ClusImp.lean`) to
`clusterRun`; used by `Lemmas/ClusRefine.lean` through `ClusRefineSym.lean` / `ClusRefineSymU.lean`
(symmetrisation passes), `ClusRefineInit.lean` (invariant, heap initialisation) and
`ClusRefineKnn.lean` / `ClusRefineUns.lean` (competition loops, whole methods).

* evaluation of the Python prelude on natural indices (`forRange_nat`, …);
* `foldlM_range_refines` – a translated `for … in range(n)` against a `List.foldl` of the model;
* `whileM_list_refines` – a translated `for x in <list>` (CPython list iterator: a `while` over an
  index compared with the current length) against a `List.foldl` over the list;
* counting lemmas for the termination argument;
* the order-free heap facts (`Heap.WF` only) the clustering loop needs;
* `KRel`, a copy of `ClusRefine.RelK` (which has to live in `ClusRefine.lean`), with its readers.
-/
import OpfVerif.Gen.ClusImp
import OpfVerif.Lemmas.HeapRefine
import OpfVerif.Lemmas.Cluster
set_option linter.unusedVariables false
namespace Opf.ClusRefineAux
open Opf Opf.Gen Opf.Gen.ClusImp

export Opf.HeapRefine (idx_nat setIdx_nat)

/-! ### the prelude -/

theorem forRange_nat {σ : Type} (n : Nat) (body : Int → σ → Option σ) (s : σ) :
    Py.forRange (n : Int) body s = (List.range n).foldlM (fun s (q : Nat) => body (q : Int) s) s := by
  unfold Py.forRange
  rw [Int.toNat_natCast]

/-- generic refinement of a `foldlM` over `List.range` by a pure `foldl`. -/
theorem foldlM_range_refines {σ τ : Type} (R : Nat → σ → τ → Prop) (body : Nat → σ → Option σ)
    (step : τ → Nat → τ) (n : Nat)
    (hstep : ∀ k, k < n → ∀ a b, R k a b → ∃ a', body k a = some a' ∧ R (k + 1) a' (step b k)) :
    ∀ k, k ≤ n → ∀ a b, R 0 a b →
      ∃ a', (List.range k).foldlM (fun s q => body q s) a = some a' ∧
        R k a' ((List.range k).foldl step b) := by
  intro k
  induction k with
  | zero => intro _ a b h; exact ⟨a, rfl, h⟩
  | succ k ih =>
    intro hk a b h
    obtain ⟨a1, e1, r1⟩ := ih (by omega) a b h
    obtain ⟨a2, e2, r2⟩ := hstep k (by omega) a1 _ r1
    refine ⟨a2, ?_, ?_⟩
    · rw [List.range_succ, List.foldlM_append, e1]
      simp only [Option.bind_eq_bind, Option.bind_some, List.foldlM_cons, List.foldlM_nil, e2]
      rfl
    · rw [List.range_succ, List.foldl_append]
      exact r2

/-- a `for` loop of the translation against a `foldl` of the model. -/
theorem forRange_refines {σ τ : Type} (R : Nat → σ → τ → Prop) (body : Int → σ → Option σ)
    (step : τ → Nat → τ) (n : Nat)
    (hstep : ∀ k, k < n → ∀ a b, R k a b → ∃ a', body (k : Int) a = some a' ∧ R (k + 1) a' (step b k))
    (a : σ) (b : τ) (h : R 0 a b) :
    ∃ a', Py.forRange (n : Int) body a = some a' ∧ R n a' ((List.range n).foldl step b) := by
  rw [forRange_nat]
  exact foldlM_range_refines R (fun q s => body (q : Int) s) step n hstep n (Nat.le_refl n) a b h

/-- CPython's list iteration: a `while` whose state carries the iterator index (inside `R`),
against a `foldl` over the suffix of the (unchanged) list. -/
theorem whileM_list_refines {σ τ : Type} (R : Nat → σ → τ → Prop) (L : List Nat)
    (cond : σ → Option Bool) (body : σ → Option σ) (step : τ → Nat → τ)
    (hcond : ∀ it a b, R it a b → cond a = some (decide (it < L.length)))
    (hbody : ∀ it a b (h : it < L.length), R it a b →
      ∃ a', body a = some a' ∧ R (it + 1) a' (step b L[it])) :
    ∀ m it, it + m = L.length → ∀ a b, R it a b →
      ∃ a', Py.whileM cond body a = some a' ∧ R L.length a' ((L.drop it).foldl step b) := by
  intro m
  induction m with
  | zero =>
    intro it hit a b h
    have hit' : it = L.length := by omega
    subst hit'
    refine ⟨a, ?_, ?_⟩
    · rw [HeapRefine.whileM_false _ _ _ (by rw [hcond _ a b h]; simp)]
    · rw [List.drop_length]; exact h
  | succ m ih =>
    intro it hit a b h
    have hlt : it < L.length := by omega
    obtain ⟨a1, e1, r1⟩ := hbody it a b hlt h
    obtain ⟨a2, e2, r2⟩ := ih (it + 1) (by omega) a1 _ r1
    refine ⟨a2, ?_, ?_⟩
    · rw [HeapRefine.whileM_true _ _ _ a1 (by rw [hcond _ a b h]; simp [hlt]) e1]
      exact e2
    · rw [List.drop_eq_getElem_cons hlt, List.foldl_cons]
      exact r2

/-! ### counting -/

theorem countP_le_of_imp (l : List Nat) (P Q : Nat → Bool)
    (hmono : ∀ x, x ∈ l → Q x = true → P x = true) : l.countP Q ≤ l.countP P := by
  induction l with
  | nil => simp
  | cons a l ih =>
    have ih' := ih (fun x hx => hmono x (List.mem_cons_of_mem _ hx))
    have ha := hmono a List.mem_cons_self
    rw [List.countP_cons, List.countP_cons]
    by_cases hq : Q a = true
    · rw [if_pos hq, if_pos (ha hq)]; omega
    · rw [if_neg hq]; split <;> omega

theorem countP_lt_of_imp (l : List Nat) (P Q : Nat → Bool)
    (hmono : ∀ x, x ∈ l → Q x = true → P x = true) (p : Nat) (hp : p ∈ l)
    (hP : P p = true) (hQ : Q p = false) : l.countP Q < l.countP P := by
  induction l with
  | nil => exact absurd hp (by simp)
  | cons a l ih =>
    have hm' : ∀ x, x ∈ l → Q x = true → P x = true := fun x hx => hmono x (List.mem_cons_of_mem _ hx)
    rw [List.countP_cons, List.countP_cons]
    rcases List.mem_cons.1 hp with e | hl
    · subst e
      have := countP_le_of_imp l P Q hm'
      rw [if_pos hP, if_neg (by rw [hQ]; decide)]
      omega
    · have ih' := ih hm' hl
      have ha := hmono a List.mem_cons_self
      by_cases hq : Q a = true
      · rw [if_pos hq, if_pos (ha hq)]; omega
      · rw [if_neg hq]; split <;> omega

/-- number of identifiers that are not yet BLACK. -/
def nb (n : Nat) (h : Heap) : Nat := (List.range n).countP (fun x => decide (h.colorOf x ≠ BLACK))

theorem nb_le (n : Nat) (h : Heap) : nb n h ≤ n := by
  unfold nb
  have := List.countP_le_length (p := fun x => decide (h.colorOf x ≠ BLACK)) (l := List.range n)
  rw [List.length_range] at this
  exact this

/-- one more identifier turned BLACK, none turned back. -/
theorem nb_lt (n : Nat) (h h' : Heap) (p : Nat) (hp : p < n) (hp0 : h.colorOf p ≠ BLACK)
    (hp1 : h'.colorOf p = BLACK) (hmono : ∀ x, h.colorOf x = BLACK → h'.colorOf x = BLACK) :
    nb n h' < nb n h := by
  unfold nb
  apply countP_lt_of_imp _ _ _ _ p (List.mem_range.2 hp)
  · rw [decide_eq_true_eq]; exact hp0
  · rw [decide_eq_false_iff_not, not_not]; exact hp1
  · intro x _ hx
    rw [decide_eq_true_eq] at hx ⊢
    exact fun hb => hx (hmono x hb)

/-! ### arrays -/

theorem getElem?_getD {α : Type} (a : Array α) (x : Nat) (d : α) (h : x < a.size) :
    a[x]? = some (a.getD x d) := by
  simp [Array.getD_eq_getD_getElem?, h]

theorem getElem?_set {α : Type} (a : Array α) (i k : Nat) (v : α) (hi : i < a.size) :
    (a.setIfInBounds i v)[k]? = if k = i then some v else a[k]? := by
  rw [Array.getElem?_setIfInBounds]
  by_cases e : i = k
  · subst e; simp [hi]
  · have : ¬ k = i := fun h => e h.symm
    simp [e, this]

theorem size_set {α : Type} (a : Array α) (j : Nat) (v : α) (n : Nat) (h : a.size = n) :
    (a.setIfInBounds j v).size = n := by rw [Array.size_setIfInBounds]; exact h

/-- a store at `i` on both sides keeps a pointwise correspondence of two arrays. -/
theorem upd_field {α β : Type} (a : Array α) (b : Array β) (d : β) (F : β → α) (n i : Nat) (v : β)
    (ha : a.size = n) (hb : b.size = n) (hi : i < n)
    (h : ∀ x, x < n → a[x]? = some (F (b.getD x d))) :
    ∀ x, x < n → (a.setIfInBounds i (F v))[x]? = some (F ((b.setIfInBounds i v).getD x d)) := by
  intro x hx
  rw [getElem?_set _ _ _ _ (by omega), Heap.getD_set]
  by_cases e : x = i
  · rw [if_pos e, if_pos ⟨e, by omega⟩]
  · rw [if_neg e, if_neg (fun c => e c.1)]; exact h x hx

/-! ### heap facts that need no order -/

theorem insert_wf {h : Heap} (w : Heap.WF h) {x : Nat} (hx : x < h.size)
    (hw : h.colorOf x = WHITE) :
    Heap.WF (h.insert x).1 ∧ (h.insert x).1.colorOf x = GRAY ∧
    (∀ y, y ≠ x → (h.insert x).1.colorOf y = h.colorOf y) := by
  have hg : h.colorOf x ≠ GRAY := by rw [hw]; decide
  have hnf : h.cnt ≠ h.size := by
    intro hf
    obtain ⟨k, hk, e⟩ := w.surj_of_full hf x hx
    exact w.not_gray_slot hx hg hk e
  have hlt : h.cnt < h.size := by have := w.cnt_le; omega
  have wpre := Heap.WF_insPre w hx hg hlt
  have hxc : x < h.color.size := by rw [w.size_color]; exact hx
  rw [Heap.insert_eq, if_neg hnf]
  refine ⟨Heap.WF_goUp wpre (by rw [Heap.insPre_cnt]; omega), ?_, ?_⟩
  · show ((Heap.insPre h x).goUp h.cnt).colorOf x = GRAY
    rw [Heap.goUp_colorOf, Heap.insPre_colorOf, if_pos ⟨rfl, hxc⟩]
  · intro y hy
    show ((Heap.insPre h x).goUp h.cnt).colorOf y = h.colorOf y
    have n1 : ¬ (y = x ∧ x < h.color.size) := fun a => hy a.1
    rw [Heap.goUp_colorOf, Heap.insPre_colorOf, if_neg n1]

theorem remove_wf {h : Heap} (w : Heap.WF h) (hne : 0 < h.cnt) :
    (h.remove).2 = some (h.slot 0) ∧ h.slot 0 < h.size ∧ h.colorOf (h.slot 0) = GRAY ∧
    Heap.WF (h.remove).1 ∧ (h.remove).1.colorOf (h.slot 0) = BLACK ∧
    (∀ y, y ≠ h.slot 0 → (h.remove).1.colorOf y = h.colorOf y) := by
  have hs0 : h.slot 0 < h.color.size := by rw [w.size_color]; exact w.slot_lt 0 hne
  have wpre := Heap.WF_remPre w hne
  rw [Heap.remove_eq, if_neg (by omega)]
  refine ⟨rfl, w.slot_lt 0 hne, (w.gray_iff _ (w.slot_lt 0 hne)).2 ⟨0, hne, rfl⟩,
    Heap.WF_goDown wpre, ?_, ?_⟩
  · show ((Heap.remPre h).goDown 0).colorOf (h.slot 0) = BLACK
    rw [Heap.goDown_colorOf, Heap.remPre_colorOf, if_pos ⟨rfl, hs0⟩]
  · intro y hy
    show ((Heap.remPre h).goDown 0).colorOf y = h.colorOf y
    have n1 : ¬ (y = h.slot 0 ∧ h.slot 0 < h.color.size) := fun a => hy a.1
    rw [Heap.goDown_colorOf, Heap.remPre_colorOf, if_neg n1]

theorem update_wf {h : Heap} (w : Heap.WF h) {x : Nat} (c : Int) (hx : x < h.size) :
    Heap.WF (h.update x c) ∧ (∀ y, h.colorOf y = BLACK → (h.update x c).colorOf y = BLACK) := by
  rw [Heap.update_eq]
  by_cases hW : h.colorOf x = WHITE
  · rw [if_pos hW]
    obtain ⟨i1, i2, i3⟩ := insert_wf (Heap.WF_setCost w x c) (x := x) hx hW
    refine ⟨i1, fun y hy => ?_⟩
    by_cases e : y = x
    · subst e; rw [hW] at hy; exact absurd hy (by decide)
    · rw [i3 y e]; exact hy
  · rw [if_neg hW]
    by_cases hG : h.colorOf x = GRAY
    · rw [if_pos hG]
      obtain ⟨k, hk, e⟩ := (w.gray_iff x hx).1 hG
      have hp : h.posOf x = k := by rw [← e]; exact w.pos_slot k hk
      rw [hp]
      refine ⟨Heap.WF_goUp (Heap.WF_setCost w x c) hk, fun y hy => ?_⟩
      rw [Heap.goUp_colorOf, Heap.setCost_colorOf]; exact hy
    · rw [if_neg hG]
      exact ⟨Heap.WF_setCost w x c, fun y hy => hy⟩

theorem asInt_retOf (p : Nat) : Py.asInt (HeapRefine.retOf (some p)) = (p : Int) := rfl

/-! ### the abstraction relation (copy of `ClusRefine.RelK`) -/

def pInt : Option Nat → Int
  | none => -1
  | some p => (p : Int)

def aInt (l : List Nat) : Array Int := (l.map (fun (x : Nat) => (x : Int))).toArray

theorem aInt_size (l : List Nat) : (aInt l).size = l.length := by simp [aInt]

theorem aInt_get (l : List Nat) (k : Nat) (hk : k < l.length) :
    (aInt l)[k]? = some (l[k] : Int) := by
  simp [aInt, hk]

theorem aInt_cons (i : Nat) (l : List Nat) : #[(i : Int)] ++ aInt l = aInt (i :: l) := by
  simp [aInt]

structure KRel (unsup : Bool) (sg : KSG) (c : Clu) : Prop where
  n : sg.n_nodes = (c.n : Int)
  nclusters : sg.n_clusters = (c.nclusters : Int)
  sz_adj : sg.adjacency.size = c.n
  sz_density : sg.density.size = c.n
  sz_cost : sg.cost.size = c.n
  sz_pred : sg.pred.size = c.n
  sz_root : sg.root.size = c.n
  sz_label : sg.label.size = c.n
  sz_plabel : sg.predicted_label.size = c.n
  sz_nplat : sg.n_plateaus.size = c.n
  sz_clabel : sg.cluster_label.size = c.n
  adj : ∀ x, x < c.n → sg.adjacency[x]? = some (aInt (c.adjOf x))
  density : ∀ x, x < c.n → sg.density[x]? = some (c.densOf x)
  cost : ∀ x, x < c.n → sg.cost[x]? = some (c.costOf x)
  pred : ∀ x, x < c.n → sg.pred[x]? = some (pInt (c.predOf x))
  root : ∀ x, x < c.n → sg.root[x]? = some (c.rootOf x : Int)
  label : ∀ x, x < c.n → sg.label[x]? = some (c.tlabelOf x : Int)
  nplat : ∀ x, x < c.n → sg.n_plateaus[x]? = some (c.nplat.getD x 0 : Int)
  lab_knn : unsup = false → ∀ x, x < c.n → sg.predicted_label[x]? = some (c.labOf x : Int)
  lab_uns : unsup = true → ∀ x, x < c.n → sg.cluster_label[x]? = some (c.labOf x : Int)
  order : sg.idx_nodes = c.order.map (fun (x : Nat) => (x : Int))

namespace KRel
variable {u : Bool} {sg : KSG} {c : Clu}

theorem idx_adj (r : KRel u sg c) {x : Nat} (hx : x < c.n) :
    Py.idx sg.adjacency (x : Int) = some (aInt (c.adjOf x)) := by rw [idx_nat]; exact r.adj x hx
theorem idx_density (r : KRel u sg c) {x : Nat} (hx : x < c.n) :
    Py.idx sg.density (x : Int) = some (c.densOf x) := by rw [idx_nat]; exact r.density x hx
theorem idx_cost (r : KRel u sg c) {x : Nat} (hx : x < c.n) :
    Py.idx sg.cost (x : Int) = some (c.costOf x) := by rw [idx_nat]; exact r.cost x hx
theorem idx_pred (r : KRel u sg c) {x : Nat} (hx : x < c.n) :
    Py.idx sg.pred (x : Int) = some (pInt (c.predOf x)) := by rw [idx_nat]; exact r.pred x hx
theorem idx_root (r : KRel u sg c) {x : Nat} (hx : x < c.n) :
    Py.idx sg.root (x : Int) = some (c.rootOf x : Int) := by rw [idx_nat]; exact r.root x hx
theorem idx_label (r : KRel u sg c) {x : Nat} (hx : x < c.n) :
    Py.idx sg.label (x : Int) = some (c.tlabelOf x : Int) := by rw [idx_nat]; exact r.label x hx
theorem idx_nplat (r : KRel u sg c) {x : Nat} (hx : x < c.n) :
    Py.idx sg.n_plateaus (x : Int) = some (c.nplat.getD x 0 : Int) := by
  rw [idx_nat]; exact r.nplat x hx
theorem idx_plabel (r : KRel false sg c) {x : Nat} (hx : x < c.n) :
    Py.idx sg.predicted_label (x : Int) = some (c.labOf x : Int) := by
  rw [idx_nat]; exact r.lab_knn rfl x hx
theorem idx_clabel (r : KRel true sg c) {x : Nat} (hx : x < c.n) :
    Py.idx sg.cluster_label (x : Int) = some (c.labOf x : Int) := by
  rw [idx_nat]; exact r.lab_uns rfl x hx

end KRel

/-! ### stores on both sides -/

namespace KRel
variable {u : Bool} {sg : KSG} {c : Clu}

theorem set_adj (r : KRel u sg c) (hs : c.adj.size = c.n) {j : Nat} (hj : j < c.n) (l : List Nat) :
    KRel u { sg with adjacency := sg.adjacency.setIfInBounds j (aInt l) }
      { c with adj := c.adj.setIfInBounds j l } :=
  ⟨r.n, r.nclusters, size_set _ _ _ _ r.sz_adj,
    r.sz_density, r.sz_cost, r.sz_pred, r.sz_root, r.sz_label, r.sz_plabel, r.sz_nplat, r.sz_clabel,
    upd_field sg.adjacency c.adj [] aInt c.n j l r.sz_adj hs hj r.adj,
    r.density, r.cost, r.pred, r.root, r.label, r.nplat, r.lab_knn, r.lab_uns, r.order⟩

theorem set_nplat (r : KRel u sg c) (hs : c.nplat.size = c.n) {j : Nat} (hj : j < c.n) (v : Nat) :
    KRel u { sg with n_plateaus := sg.n_plateaus.setIfInBounds j (v : Int) }
      { c with nplat := c.nplat.setIfInBounds j v } :=
  ⟨r.n, r.nclusters, r.sz_adj, r.sz_density, r.sz_cost, r.sz_pred, r.sz_root, r.sz_label, r.sz_plabel,
    size_set _ _ _ _ r.sz_nplat,
    r.sz_clabel, r.adj, r.density, r.cost, r.pred, r.root, r.label,
    upd_field sg.n_plateaus c.nplat 0 (fun (x : Nat) => (x : Int)) c.n j v r.sz_nplat hs hj r.nplat,
    r.lab_knn, r.lab_uns, r.order⟩

theorem set_pred (r : KRel u sg c) (hs : c.pred.size = c.n) {j : Nat} (hj : j < c.n) (v : Option Nat) :
    KRel u { sg with pred := sg.pred.setIfInBounds j (pInt v) }
      { c with pred := c.pred.setIfInBounds j v } :=
  ⟨r.n, r.nclusters, r.sz_adj, r.sz_density, r.sz_cost,
    size_set _ _ _ _ r.sz_pred,
    r.sz_root, r.sz_label, r.sz_plabel, r.sz_nplat, r.sz_clabel, r.adj, r.density, r.cost,
    upd_field sg.pred c.pred none pInt c.n j v r.sz_pred hs hj r.pred,
    r.root, r.label, r.nplat, r.lab_knn, r.lab_uns, r.order⟩

theorem set_root (r : KRel u sg c) (hs : c.root.size = c.n) {j : Nat} (hj : j < c.n) (v : Nat) :
    KRel u { sg with root := sg.root.setIfInBounds j (v : Int) }
      { c with root := c.root.setIfInBounds j v } :=
  ⟨r.n, r.nclusters, r.sz_adj, r.sz_density, r.sz_cost, r.sz_pred,
    size_set _ _ _ _ r.sz_root,
    r.sz_label, r.sz_plabel, r.sz_nplat, r.sz_clabel, r.adj, r.density, r.cost, r.pred,
    upd_field sg.root c.root 0 (fun (x : Nat) => (x : Int)) c.n j v r.sz_root hs hj r.root,
    r.label, r.nplat, r.lab_knn, r.lab_uns, r.order⟩

theorem set_cost (r : KRel u sg c) (hs : c.cost.size = c.n) {j : Nat} (hj : j < c.n) (v : Int) :
    KRel u { sg with cost := sg.cost.setIfInBounds j v }
      { c with cost := c.cost.setIfInBounds j v } :=
  ⟨r.n, r.nclusters, r.sz_adj, r.sz_density,
    size_set _ _ _ _ r.sz_cost,
    r.sz_pred, r.sz_root, r.sz_label, r.sz_plabel, r.sz_nplat, r.sz_clabel, r.adj, r.density,
    upd_field sg.cost c.cost 0 (fun (x : Int) => x) c.n j v r.sz_cost hs hj r.cost,
    r.pred, r.root, r.label, r.nplat, r.lab_knn, r.lab_uns, r.order⟩

theorem set_plabel {sg : KSG} (r : KRel false sg c) (hs : c.lab.size = c.n) {j : Nat} (hj : j < c.n)
    (v : Nat) :
    KRel false { sg with predicted_label := sg.predicted_label.setIfInBounds j (v : Int) }
      { c with lab := c.lab.setIfInBounds j v } :=
  ⟨r.n, r.nclusters, r.sz_adj, r.sz_density, r.sz_cost, r.sz_pred, r.sz_root, r.sz_label,
    size_set _ _ _ _ r.sz_plabel,
    r.sz_nplat, r.sz_clabel, r.adj, r.density, r.cost, r.pred, r.root, r.label, r.nplat,
    fun _ => upd_field sg.predicted_label c.lab 0 (fun (x : Nat) => (x : Int)) c.n j v r.sz_plabel hs hj
      (r.lab_knn rfl),
    fun h => absurd h (by decide), r.order⟩

theorem set_clabel {sg : KSG} (r : KRel true sg c) (hs : c.lab.size = c.n) {j : Nat} (hj : j < c.n)
    (v : Nat) :
    KRel true { sg with cluster_label := sg.cluster_label.setIfInBounds j (v : Int) }
      { c with lab := c.lab.setIfInBounds j v } :=
  ⟨r.n, r.nclusters, r.sz_adj, r.sz_density, r.sz_cost, r.sz_pred, r.sz_root, r.sz_label,
    r.sz_plabel, r.sz_nplat,
    size_set _ _ _ _ r.sz_clabel,
    r.adj, r.density, r.cost, r.pred, r.root, r.label, r.nplat,
    fun h => absurd h (by decide),
    fun _ => upd_field sg.cluster_label c.lab 0 (fun (x : Nat) => (x : Int)) c.n j v r.sz_clabel hs hj
      (r.lab_uns rfl),
    r.order⟩

theorem push_order (r : KRel u sg c) (p : Nat) :
    KRel u { sg with idx_nodes := sg.idx_nodes.push (p : Int) } { c with order := c.order.push p } :=
  ⟨r.n, r.nclusters, r.sz_adj, r.sz_density, r.sz_cost, r.sz_pred, r.sz_root, r.sz_label,
    r.sz_plabel, r.sz_nplat, r.sz_clabel, r.adj, r.density, r.cost, r.pred, r.root, r.label, r.nplat,
    r.lab_knn, r.lab_uns,
    by show sg.idx_nodes.push (p : Int) = (c.order.push p).map (fun (x : Nat) => (x : Int))
       rw [Array.map_push, r.order]⟩

theorem set_nclusters (r : KRel u sg c) (l : Nat) :
    KRel u { sg with n_clusters := (l : Int) } { c with nclusters := l } :=
  ⟨r.n, rfl, r.sz_adj, r.sz_density, r.sz_cost, r.sz_pred, r.sz_root, r.sz_label,
    r.sz_plabel, r.sz_nplat, r.sz_clabel, r.adj, r.density, r.cost, r.pred, r.root, r.label, r.nplat,
    r.lab_knn, r.lab_uns, r.order⟩

end KRel

/-- reading position `k` of a translated adjacency list. -/
theorem idx_aInt (l : List Nat) (k : Nat) (hk : k < l.length) :
    Py.idx (aInt l) (k : Int) = some (l[k] : Int) := by
  rw [idx_nat]; exact aInt_get l k hk

end Opf.ClusRefineAux
