/-
Lemmas for C01 (executable side): the executable competition `Opf.competeRun` (which drives the
heap model L0) is a lawful run of the relational semantics of `Model/CompeteSpec.lean`.

Structure:
* `CE.CWF`            – concrete well-formedness (heap invariant, sizes, untouched fields);
* `CE.Rel`            – the concrete state agrees with an abstract state on the nodes `< n`;
* `CE.mid`            – the abstract state in the middle of the relaxation loop (nodes `< k` done);
* `CE.relax_step/fold`– the sequential relaxation loop computes the parallel `fire`;
* `CE.remove_step`    – `Heap.remove` yields a lawful pick;
* `CE.step_some/none` – one iteration of the `while` loop;
* `CE.loop_lawful`    – the whole loop, by induction on the fuel;
* `CE.init_fold`      – the initialisation loop establishes `CompInst.init`;
* `competeRun_lawful` – the statement used by `Props/C01Exec.lean`.
All helper lemmas live in the namespace `Opf.CE`.
-/
import OpfVerif.Model.ExecSpec
import OpfVerif.Lemmas.Heap
import OpfVerif.Lemmas.Compete
import OpfVerif.Lemmas.Lawful

namespace Opf
namespace CE

/-! ### small heap facts -/

theorem insert_isMax (h : Heap) (x : Nat) : (h.insert x).1.isMax = h.isMax := by
  rw [Heap.insert_eq]; split
  · rfl
  · show ((Heap.insPre h x).goUp h.cnt).isMax = h.isMax
    rw [Heap.goUp_isMax, Heap.insPre_isMax]

theorem remove_isMax (h : Heap) : (h.remove).1.isMax = h.isMax := by
  rw [Heap.remove_eq]; split
  · rfl
  · show ((Heap.remPre h).goDown 0).isMax = h.isMax
    rw [Heap.goDown_isMax, Heap.remPre_isMax]

theorem update_isMax (h : Heap) (x : Nat) (c : Int) : (h.update x c).isMax = h.isMax := by
  rw [Heap.update_eq]; split
  · rw [insert_isMax, Heap.setCost_isMax]
  · split
    · rw [Heap.goUp_isMax, Heap.setCost_isMax]
    · rfl

theorem better_false (a b : Int) : Heap.better false a b = decide (a < b) := by
  unfold Heap.better; simp

theorem init_costOf (n : Nat) (m : Bool) (top : Int) (x : Nat) (hx : x < n) :
    (Heap.init n m top).costOf x = top := by
  unfold Heap.init Heap.costOf
  simp only [Array.getD_eq_getD_getElem?, Array.getElem?_replicate]
  rw [if_pos hx]; rfl

/-! ### concrete well-formedness and agreement with an abstract state -/

/-- concrete well-formedness: heap invariant, a min-heap of capacity `n`, array sizes, and the
fields the competition never writes. -/
structure CWF (n : Nat) (f0 : Forest) (s : CompSt) : Prop where
  inv : Heap.Inv s.h
  hsize : s.h.size = n
  hmax : s.h.isMax = false
  spred : s.f.pred.size = n
  splabel : s.f.plabel.size = n
  sncost : s.f.ncost.size = n
  proto : s.f.proto = f0.proto
  fn : s.f.n = f0.n

/-- the concrete state and the abstract one agree on every node `< n` and on the order. -/
structure Rel (n : Nat) (s : CompSt) (a : AState) : Prop where
  order : s.f.order.toList = a.order
  color : ∀ x, x < n → s.h.colorOf x = a.color x
  cost : ∀ x, x < n → s.h.costOf x = a.cost x
  pred : ∀ x, x < n → s.f.predOf x = a.pred x
  lab : ∀ x, x < n → s.f.plabelOf x = a.lab x

/-- `Node.cost` has been recorded for every removed node. -/
def NC (n : Nat) (s : CompSt) (a : AState) : Prop :=
  ∀ x, x < n → a.color x = BLACK → s.f.costOf x = a.cost x

/-! ### the abstract state in the middle of the relaxation loop -/

/-- `p` has been removed and the nodes `< k` have been relaxed. -/
def mid (I : CompInst) (a : AState) (p k : Nat) : AState :=
  { color := fun q => if q < k then (I.fire a p).color q else if q = p then BLACK else a.color q,
    cost := fun q => if q < k then (I.fire a p).cost q else a.cost q,
    pred := fun q => if q < k then (I.fire a p).pred q else a.pred q,
    lab := fun q => if q < k then (I.fire a p).lab q else a.lab q,
    order := a.order ++ [p] }

section mid
variable (I : CompInst) (a : AState) (p k q : Nat)

theorem mid_color_lt (h : q < k) : (mid I a p k).color q = (I.fire a p).color q := if_pos h
theorem mid_cost_lt (h : q < k) : (mid I a p k).cost q = (I.fire a p).cost q := if_pos h
theorem mid_pred_lt (h : q < k) : (mid I a p k).pred q = (I.fire a p).pred q := if_pos h
theorem mid_lab_lt (h : q < k) : (mid I a p k).lab q = (I.fire a p).lab q := if_pos h
theorem mid_color_ge (h : ¬ q < k) :
    (mid I a p k).color q = if q = p then BLACK else a.color q := if_neg h
theorem mid_cost_ge (h : ¬ q < k) : (mid I a p k).cost q = a.cost q := if_neg h
theorem mid_pred_ge (h : ¬ q < k) : (mid I a p k).pred q = a.pred q := if_neg h
theorem mid_lab_ge (h : ¬ q < k) : (mid I a p k).lab q = a.lab q := if_neg h

theorem mid_cost_p : (mid I a p k).cost p = a.cost p := by
  by_cases h : p < k
  · rw [mid_cost_lt I a p k p h, CompInst.fire_cost_keep (CompInst.not_rel_self I a p)]
  · rw [mid_cost_ge I a p k p h]

theorem mid_lab_p : (mid I a p k).lab p = a.lab p := by
  by_cases h : p < k
  · rw [mid_lab_lt I a p k p h, CompInst.fire_lab_keep (CompInst.not_rel_self I a p)]
  · rw [mid_lab_ge I a p k p h]

/-- the fields of `mid … (k+1)` at a node other than `k` are those of `mid … k`. -/
theorem mid_succ_ne (h : q ≠ k) :
    (mid I a p (k + 1)).color q = (mid I a p k).color q ∧
    (mid I a p (k + 1)).cost q = (mid I a p k).cost q ∧
    (mid I a p (k + 1)).pred q = (mid I a p k).pred q ∧
    (mid I a p (k + 1)).lab q = (mid I a p k).lab q := by
  by_cases hq : q < k
  · have hq' : q < k + 1 := by omega
    rw [mid_color_lt I a p _ q hq', mid_cost_lt I a p _ q hq', mid_pred_lt I a p _ q hq',
      mid_lab_lt I a p _ q hq', mid_color_lt I a p _ q hq, mid_cost_lt I a p _ q hq,
      mid_pred_lt I a p _ q hq, mid_lab_lt I a p _ q hq]
    exact ⟨rfl, rfl, rfl, rfl⟩
  · have hq' : ¬ q < k + 1 := by omega
    rw [mid_color_ge I a p _ q hq', mid_cost_ge I a p _ q hq', mid_pred_ge I a p _ q hq',
      mid_lab_ge I a p _ q hq', mid_color_ge I a p _ q hq, mid_cost_ge I a p _ q hq,
      mid_pred_ge I a p _ q hq, mid_lab_ge I a p _ q hq]
    exact ⟨rfl, rfl, rfl, rfl⟩

end mid

/-! ### the relaxation loop -/

theorem compRelax_pos (w : Nat → Nat → Int) (semi : Bool) (p : Nat) (s : CompSt) (q : Nat)
    (h : p ≠ q ∧ s.h.costOf p < s.h.costOf q ∧ max (s.h.costOf p) (w p q) < s.h.costOf q) :
    compRelax w semi p s q =
      { h := s.h.update q (max (s.h.costOf p) (w p q)),
        f := { s.f with pred := s.f.pred.setIfInBounds q (some p),
                        plabel := s.f.plabel.setIfInBounds q (s.f.plabelOf p),
                        label := if semi then s.f.label.setIfInBounds q (s.f.plabelOf p)
                                 else s.f.label } } := by
  unfold compRelax; exact if_pos h

theorem compRelax_neg (w : Nat → Nat → Int) (semi : Bool) (p : Nat) (s : CompSt) (q : Nat)
    (h : ¬ (p ≠ q ∧ s.h.costOf p < s.h.costOf q ∧ max (s.h.costOf p) (w p q) < s.h.costOf q)) :
    compRelax w semi p s q = s := by
  unfold compRelax; exact if_neg h

/-- one iteration of `for q in range(n)` moves from `mid … k` to `mid … (k+1)`. -/
theorem relax_step (I : CompInst) (semi : Bool) (f0 : Forest) (a : AState) (p k : Nat)
    (s : CompSt) (hw : CWF I.n f0 s) (hr : Rel I.n s (mid I a p k)) (hk : k < I.n)
    (hp : p < I.n) :
    CWF I.n f0 (compRelax I.w semi p s k) ∧ Rel I.n (compRelax I.w semi p s k) (mid I a p (k + 1)) ∧
    (compRelax I.w semi p s k).f.ncost = s.f.ncost := by
  have hkk : ¬ k < k := Nat.lt_irrefl k
  have hk1 : k < k + 1 := Nat.lt_succ_self k
  have hcp : s.h.costOf p = a.cost p := by rw [hr.cost p hp, mid_cost_p]
  have hck : s.h.costOf k = a.cost k := by rw [hr.cost k hk, mid_cost_ge I a p k k hkk]
  have hlp : s.f.plabelOf p = a.lab p := by rw [hr.lab p hp, mid_lab_p]
  have hcol : s.h.colorOf k = if k = p then BLACK else a.color k := by
    rw [hr.color k hk, mid_color_ge I a p k k hkk]
  have hpk : s.f.predOf k = a.pred k := by rw [hr.pred k hk, mid_pred_ge I a p k k hkk]
  have hlk : s.f.plabelOf k = a.lab k := by rw [hr.lab k hk, mid_lab_ge I a p k k hkk]
  by_cases hg : p ≠ k ∧ s.h.costOf p < s.h.costOf k ∧
      max (s.h.costOf p) (I.w p k) < s.h.costOf k
  · -- the offer is accepted
    have hkp : k ≠ p := fun e => hg.1 e.symm
    have hrel : I.relaxed a p k = true := by
      rw [CompInst.relaxed_iff]
      refine ⟨hk, hkp, ?_⟩
      rw [← hcp, ← hck]; exact hg.2.2
    rw [compRelax_pos I.w semi p s k hg]
    have hks : k < s.h.size := by rw [hw.hsize]; exact hk
    have hcontract : s.h.colorOf k = GRAY →
        Heap.better s.h.isMax (s.h.costOf k) (max (s.h.costOf p) (I.w p k)) = false := by
      intro _
      rw [hw.hmax, better_false, decide_eq_false_iff_not]
      have := hg.2.2; omega
    obtain ⟨u1, u2, u3, u4, u5⟩ := Heap.update_spec s.h k _ hw.inv hks hcontract
    refine ⟨?_, ?_, rfl⟩
    · refine ⟨u1, ?_, ?_, ?_, ?_, hw.sncost, hw.proto, hw.fn⟩
      · rw [Heap.update_size]; exact hw.hsize
      · rw [update_isMax]; exact hw.hmax
      · show (s.f.pred.setIfInBounds k (some p)).size = I.n
        rw [Array.size_setIfInBounds]; exact hw.spred
      · show (s.f.plabel.setIfInBounds k (s.f.plabelOf p)).size = I.n
        rw [Array.size_setIfInBounds]; exact hw.splabel
    · refine ⟨hr.order, ?_, ?_, ?_, ?_⟩
      · intro x hx
        show (s.h.update k (max (s.h.costOf p) (I.w p k))).colorOf x = _
        by_cases hxk : x = k
        · subst hxk
          rw [u4, mid_color_lt I a p _ x hk1, CompInst.fire_color, if_neg hkp, hcol, if_neg hkp]
          by_cases hW : a.color x = WHITE
          · rw [if_pos hW, if_pos ⟨hrel, hW⟩]
          · rw [if_neg hW, if_neg (fun h => hW h.2)]
        · rw [u5 x hxk, (mid_succ_ne I a p k x hxk).1]; exact hr.color x hx
      · intro x hx
        show (s.h.update k (max (s.h.costOf p) (I.w p k))).costOf x = _
        by_cases hxk : x = k
        · subst hxk
          rw [u2, mid_cost_lt I a p _ x hk1, CompInst.fire_cost_rel hrel, hcp]
        · rw [u3 x hxk, (mid_succ_ne I a p k x hxk).2.1]; exact hr.cost x hx
      · intro x hx
        show (s.f.pred.setIfInBounds k (some p)).getD x none = _
        rw [Heap.getD_set]
        by_cases hxk : x = k
        · subst hxk
          rw [if_pos ⟨rfl, by rw [hw.spred]; exact hk⟩, mid_pred_lt I a p _ x hk1,
            CompInst.fire_pred_rel hrel]
        · rw [if_neg (fun h => hxk h.1), (mid_succ_ne I a p k x hxk).2.2.1]; exact hr.pred x hx
      · intro x hx
        show (s.f.plabel.setIfInBounds k (s.f.plabelOf p)).getD x 0 = _
        rw [Heap.getD_set]
        by_cases hxk : x = k
        · subst hxk
          rw [if_pos ⟨rfl, by rw [hw.splabel]; exact hk⟩, mid_lab_lt I a p _ x hk1,
            CompInst.fire_lab_rel hrel, hlp]
        · rw [if_neg (fun h => hxk h.1), (mid_succ_ne I a p k x hxk).2.2.2]; exact hr.lab x hx
  · -- nothing happens
    have hrel : I.relaxed a p k = false := by
      rw [CompInst.relaxed_false_iff]
      rintro ⟨_, h2, h3⟩
      apply hg
      rw [hcp, hck]
      refine ⟨fun e => h2 e.symm, ?_, h3⟩
      omega
    rw [compRelax_neg I.w semi p s k hg]
    refine ⟨hw, ?_, rfl⟩
    refine ⟨hr.order, ?_, ?_, ?_, ?_⟩
    · intro x hx
      by_cases hxk : x = k
      · subst hxk
        rw [hcol, mid_color_lt I a p _ x hk1, CompInst.fire_color, hrel]
        simp
      · rw [(mid_succ_ne I a p k x hxk).1]; exact hr.color x hx
    · intro x hx
      by_cases hxk : x = k
      · subst hxk
        rw [hck, mid_cost_lt I a p _ x hk1, CompInst.fire_cost_keep hrel]
      · rw [(mid_succ_ne I a p k x hxk).2.1]; exact hr.cost x hx
    · intro x hx
      by_cases hxk : x = k
      · subst hxk
        rw [hpk, mid_pred_lt I a p _ x hk1, CompInst.fire_pred_keep hrel]
      · rw [(mid_succ_ne I a p k x hxk).2.2.1]; exact hr.pred x hx
    · intro x hx
      by_cases hxk : x = k
      · subst hxk
        rw [hlk, mid_lab_lt I a p _ x hk1, CompInst.fire_lab_keep hrel]
      · rw [(mid_succ_ne I a p k x hxk).2.2.2]; exact hr.lab x hx

/-- the first `k` iterations of the relaxation loop. -/
theorem relax_fold (I : CompInst) (semi : Bool) (f0 : Forest) (a : AState) (p : Nat)
    (hp : p < I.n) (s : CompSt) (hw : CWF I.n f0 s) (hr : Rel I.n s (mid I a p 0)) :
    ∀ k, k ≤ I.n →
      CWF I.n f0 ((List.range k).foldl (compRelax I.w semi p) s) ∧
      Rel I.n ((List.range k).foldl (compRelax I.w semi p) s) (mid I a p k) ∧
      ((List.range k).foldl (compRelax I.w semi p) s).f.ncost = s.f.ncost := by
  intro k
  induction k with
  | zero => intro _; exact ⟨hw, hr, rfl⟩
  | succ k ih =>
    intro hk
    obtain ⟨h1, h2, h3⟩ := ih (by omega)
    rw [List.range_succ, List.foldl_append]
    simp only [List.foldl_cons, List.foldl_nil]
    obtain ⟨g1, g2, g3⟩ := relax_step I semi f0 a p k _ h1 h2 (by omega) hp
    exact ⟨g1, g2, g3.trans h3⟩

/-- after the whole loop the state agrees with `fire`. -/
theorem rel_mid_fire (I : CompInst) (a : AState) (p : Nat) (s : CompSt)
    (hr : Rel I.n s (mid I a p I.n)) : Rel I.n s (I.fire a p) := by
  refine ⟨hr.order, ?_, ?_, ?_, ?_⟩
  · intro x hx; rw [← mid_color_lt I a p I.n x hx]; exact hr.color x hx
  · intro x hx; rw [← mid_cost_lt I a p I.n x hx]; exact hr.cost x hx
  · intro x hx; rw [← mid_pred_lt I a p I.n x hx]; exact hr.pred x hx
  · intro x hx; rw [← mid_lab_lt I a p I.n x hx]; exact hr.lab x hx

/-! ### the removal -/

/-- the state right after `p = h.remove()`, `idx_nodes.append(p)`, `nodes[p].cost = h.cost[p]`. -/
def afterRemove (s : CompSt) (p : Nat) : CompSt :=
  { h := (s.h.remove).1,
    f := { s.f with order := s.f.order.push p,
                    ncost := s.f.ncost.setIfInBounds p ((s.h.remove).1.costOf p) } }

theorem compStep_some (w : Nat → Nat → Int) (semi : Bool) (n : Nat) (s : CompSt) (p : Nat)
    (h : (s.h.remove).2 = some p) :
    compStep w semi n s = some ((List.range n).foldl (compRelax w semi p) (afterRemove s p)) := by
  unfold compStep afterRemove
  rcases hh : s.h.remove with ⟨h1, o⟩
  rw [hh] at h
  simp only at h
  subst h
  rfl

theorem compStep_none (w : Nat → Nat → Int) (semi : Bool) (n : Nat) (s : CompSt)
    (h : s.h.cnt = 0) : compStep w semi n s = none := by
  unfold compStep
  rw [Heap.remove_empty s.h h]

theorem pickOk_of (I : CompInst) (a : AState) (p : Nat) (hp : p < I.n) (hg : a.color p = GRAY)
    (hmin : ∀ q, q < I.n → a.color q = GRAY → a.cost p ≤ a.cost q) : I.pickOk a p = true := by
  unfold CompInst.pickOk
  simp only [Bool.and_eq_true, decide_eq_true_eq, List.all_eq_true, List.mem_range,
    Bool.or_eq_true, Bool.not_eq_true', decide_eq_false_iff_not]
  refine ⟨⟨hp, hg⟩, ?_⟩
  intro q hq
  by_cases hc : a.color q = GRAY
  · exact Or.inr (hmin q hq hc)
  · exact Or.inl hc

/-- `Heap.remove` on a non-empty heap yields a lawful pick, and the state after the three
statements that follow it is `mid … 0`. -/
theorem remove_step (I : CompInst) (f0 : Forest) (s : CompSt) (a : AState)
    (hw : CWF I.n f0 s) (hr : Rel I.n s a) (hne : 0 < s.h.cnt) :
    ∃ p, (s.h.remove).2 = some p ∧ p < I.n ∧ a.color p = GRAY ∧
      (∀ q, q < I.n → a.color q = GRAY → a.cost p ≤ a.cost q) ∧
      CWF I.n f0 (afterRemove s p) ∧ Rel I.n (afterRemove s p) (mid I a p 0) ∧
      (afterRemove s p).f.costOf p = a.cost p ∧
      (∀ x, x ≠ p → (afterRemove s p).f.costOf x = s.f.costOf x) := by
  obtain ⟨p, r1, ⟨r2a, r2b⟩, r3, r4, r5, r6, r7, _⟩ := Heap.remove_spec s.h hw.inv hne
  have hp : p < I.n := by rw [← hw.hsize]; exact r2a
  have hn0 : ∀ x, ¬ x < 0 := fun x => Nat.not_lt_zero x
  refine ⟨p, r1, hp, ?_, ?_, ?_, ?_, ?_, ?_⟩
  · rw [← hr.color p hp]; exact r2b
  · intro q hq hc
    have hq' : Heap.Queued s.h q := ⟨by rw [hw.hsize]; exact hq, by rw [hr.color q hq]; exact hc⟩
    have := r3 q hq'
    rw [hw.hmax, better_false, decide_eq_false_iff_not, hr.cost q hq, hr.cost p hp] at this
    omega
  · refine ⟨r4, ?_, ?_, hw.spred, hw.splabel, ?_, hw.proto, hw.fn⟩
    · show (s.h.remove).1.size = I.n
      rw [Heap.remove_size]; exact hw.hsize
    · show (s.h.remove).1.isMax = false
      rw [remove_isMax]; exact hw.hmax
    · show (s.f.ncost.setIfInBounds p ((s.h.remove).1.costOf p)).size = I.n
      rw [Array.size_setIfInBounds]; exact hw.sncost
  · refine ⟨?_, ?_, ?_, ?_, ?_⟩
    · show (s.f.order.push p).toList = a.order ++ [p]
      rw [Array.toList_push, hr.order]
    · intro x hx
      show (s.h.remove).1.colorOf x = _
      rw [mid_color_ge I a p 0 x (hn0 x)]
      by_cases hxp : x = p
      · subst hxp; rw [r5, if_pos rfl]
      · rw [r6 x hxp, if_neg hxp]; exact hr.color x hx
    · intro x hx
      show (s.h.remove).1.costOf x = _
      rw [mid_cost_ge I a p 0 x (hn0 x), r7 x]; exact hr.cost x hx
    · intro x hx
      rw [mid_pred_ge I a p 0 x (hn0 x)]; exact hr.pred x hx
    · intro x hx
      rw [mid_lab_ge I a p 0 x (hn0 x)]; exact hr.lab x hx
  · show (s.f.ncost.setIfInBounds p ((s.h.remove).1.costOf p)).getD p 0 = _
    rw [Heap.getD_set, if_pos ⟨rfl, by rw [hw.sncost]; exact hp⟩, r7 p]
    exact hr.cost p hp
  · intro x hxp
    show (s.f.ncost.setIfInBounds p ((s.h.remove).1.costOf p)).getD x 0 = _
    rw [Heap.getD_set, if_neg (fun h => hxp h.1)]
    rfl

/-! ### one iteration of `while not h.is_empty()` -/

theorem step_some (I : CompInst) (semi : Bool) (f0 : Forest) (s : CompSt) (a : AState)
    (hc : CompInst.CInv I a) (hw : CWF I.n f0 s) (hr : Rel I.n s a) (hnc : NC I.n s a)
    (hne : 0 < s.h.cnt) :
    ∃ p s', compStep I.w semi I.n s = some s' ∧ I.pickOk a p = true ∧
      CWF I.n f0 s' ∧ Rel I.n s' (I.fire a p) ∧ NC I.n s' (I.fire a p) := by
  obtain ⟨p, r1, hp, hgray, hmin, w1, e1, c1, c2⟩ := remove_step I f0 s a hw hr hne
  obtain ⟨w2, e2, n2⟩ := relax_fold I semi f0 a p hp (afterRemove s p) w1 e1 I.n (Nat.le_refl _)
  refine ⟨p, _, compStep_some I.w semi I.n s p r1, pickOk_of I a p hp hgray hmin, w2,
    rel_mid_fire I a p _ e2, ?_⟩
  intro x hx hb
  have hcost : ∀ y, ((List.range I.n).foldl (compRelax I.w semi p) (afterRemove s p)).f.costOf y =
      (afterRemove s p).f.costOf y := by
    intro y
    show Array.getD _ y 0 = Array.getD _ y 0
    rw [n2]
  rw [hcost x]
  rw [CompInst.fire_color_black_iff] at hb
  rcases hb with hb | hb
  · subst hb
    rw [c1, CompInst.fire_cost_keep (CompInst.not_rel_self I a x)]
  · have hxp : x ≠ p := by
      intro e; subst e; rw [hgray] at hb; exact absurd hb (by decide)
    rw [c2 x hxp, hnc x hx hb, CompInst.fire_cost_keep (CompInst.not_rel_black hc hp hgray hb)]

theorem step_none (I : CompInst) (f0 : Forest) (s : CompSt) (a : AState)
    (hw : CWF I.n f0 s) (hr : Rel I.n s a) (he : s.h.cnt = 0) :
    I.isFinal a = true ∧ s.h.isEmpty = true := by
  have hemp : s.h.isEmpty = true := by unfold Heap.isEmpty; rw [he]; rfl
  refine ⟨?_, hemp⟩
  have hall := (Heap.truthful s.h hw.inv).1.1 hemp
  unfold CompInst.isFinal
  simp only [List.all_eq_true, List.mem_range, Bool.not_eq_true', decide_eq_false_iff_not]
  intro q hq hg
  exact hall q ⟨by rw [hw.hsize]; exact hq, by rw [hr.color q hq]; exact hg⟩

/-! ### the loop -/

theorem runPicks_snoc (I : CompInst) (l : List Nat) (p : Nat) :
    ∀ s a, I.runPicks s l = some a → I.pickOk a p = true →
      I.runPicks s (l ++ [p]) = some (I.fire a p) := by
  induction l with
  | nil =>
    intro s a h hp
    simp only [CompInst.runPicks, Option.some.injEq] at h
    subst h
    simp only [List.nil_append, CompInst.runPicks, hp, if_true]
  | cons x l ih =>
    intro s a h hp
    simp only [CompInst.runPicks] at h
    by_cases hx : I.pickOk s x = true
    · rw [if_pos hx] at h
      simp only [List.cons_append, CompInst.runPicks]
      rw [if_pos hx]
      exact ih _ _ h hp
    · rw [if_neg hx] at h
      exact absurd h (by simp)

theorem loop_lawful (I : CompInst) (semi : Bool) (f0 : Forest) (pred0 : Nat → Option Nat)
    (lab0 : Nat → Nat) (hg : I.Good) :
    ∀ fuel s a, CWF I.n f0 s → Rel I.n s a → NC I.n s a →
      I.runPicks (I.init pred0 lab0) s.f.order.toList = some a →
      I.n + 1 ≤ a.order.length + fuel →
      ∃ a', I.runPicks (I.init pred0 lab0) (compLoop I.w semi I.n fuel s).f.order.toList = some a' ∧
        I.isFinal a' = true ∧ (compLoop I.w semi I.n fuel s).h.isEmpty = true ∧
        CWF I.n f0 (compLoop I.w semi I.n fuel s) ∧ Rel I.n (compLoop I.w semi I.n fuel s) a' ∧
        NC I.n (compLoop I.w semi I.n fuel s) a' := by
  intro fuel
  induction fuel with
  | zero =>
    intro s a _ _ _ hrun hlen
    have hreach := CompInst.runPicks_reach I pred0 lab0 _ CompInst.Reach.init _ a hrun
    have := (CompInst.compete_bounded I pred0 lab0 hg a hreach).2.2
    omega
  | succ fuel ih =>
    intro s a hw hr hnc hrun hlen
    have hreach := CompInst.runPicks_reach I pred0 lab0 _ CompInst.Reach.init _ a hrun
    have hc := CompInst.cinv_of_reach I pred0 lab0 hg hreach
    by_cases he : s.h.cnt = 0
    · obtain ⟨f1, f2⟩ := step_none I f0 s a hw hr he
      have hl : compLoop I.w semi I.n (fuel + 1) s = s := by
        simp only [compLoop, compStep_none I.w semi I.n s he]
      rw [hl]
      exact ⟨a, hrun, f1, f2, hw, hr, hnc⟩
    · obtain ⟨p, s', e1, e2, e3, e4, e5⟩ := step_some I semi f0 s a hc hw hr hnc (by omega)
      have hl : compLoop I.w semi I.n (fuel + 1) s = compLoop I.w semi I.n fuel s' := by
        simp only [compLoop, e1]
      rw [hl]
      apply ih s' (I.fire a p) e3 e4 e5
      · rw [e4.order, CompInst.fire_order, ← hr.order]
        exact runPicks_snoc I _ p _ a hrun e2
      · rw [CompInst.fire_order, List.length_append, List.length_singleton]
        omega

/-! ### the initialisation loop -/

/-- abstract state after `k` iterations of the initialisation loop. -/
def midInit (I : CompInst) (pred0 : Nat → Option Nat) (lab0 : Nat → Nat) (k : Nat) : AState :=
  { color := fun x => if x < k then (I.init pred0 lab0).color x else WHITE,
    cost := fun x => if x < k then (I.init pred0 lab0).cost x else I.top,
    pred := fun x => if x < k then (I.init pred0 lab0).pred x else pred0 x,
    lab := fun x => if x < k then (I.init pred0 lab0).lab x else lab0 x,
    order := [] }

section midInit
variable (I : CompInst) (pred0 : Nat → Option Nat) (lab0 : Nat → Nat) (k x : Nat)

theorem midInit_color_lt (h : x < k) :
    (midInit I pred0 lab0 k).color x = (I.init pred0 lab0).color x := if_pos h
theorem midInit_cost_lt (h : x < k) :
    (midInit I pred0 lab0 k).cost x = (I.init pred0 lab0).cost x := if_pos h
theorem midInit_pred_lt (h : x < k) :
    (midInit I pred0 lab0 k).pred x = (I.init pred0 lab0).pred x := if_pos h
theorem midInit_lab_lt (h : x < k) :
    (midInit I pred0 lab0 k).lab x = (I.init pred0 lab0).lab x := if_pos h
theorem midInit_color_ge (h : ¬ x < k) : (midInit I pred0 lab0 k).color x = WHITE := if_neg h
theorem midInit_cost_ge (h : ¬ x < k) : (midInit I pred0 lab0 k).cost x = I.top := if_neg h
theorem midInit_pred_ge (h : ¬ x < k) : (midInit I pred0 lab0 k).pred x = pred0 x := if_neg h
theorem midInit_lab_ge (h : ¬ x < k) : (midInit I pred0 lab0 k).lab x = lab0 x := if_neg h

theorem midInit_succ_ne (h : x ≠ k) :
    (midInit I pred0 lab0 (k + 1)).color x = (midInit I pred0 lab0 k).color x ∧
    (midInit I pred0 lab0 (k + 1)).cost x = (midInit I pred0 lab0 k).cost x ∧
    (midInit I pred0 lab0 (k + 1)).pred x = (midInit I pred0 lab0 k).pred x ∧
    (midInit I pred0 lab0 (k + 1)).lab x = (midInit I pred0 lab0 k).lab x := by
  by_cases hq : x < k
  · have hq' : x < k + 1 := by omega
    rw [midInit_color_lt I pred0 lab0 _ x hq', midInit_cost_lt I pred0 lab0 _ x hq',
      midInit_pred_lt I pred0 lab0 _ x hq', midInit_lab_lt I pred0 lab0 _ x hq',
      midInit_color_lt I pred0 lab0 _ x hq, midInit_cost_lt I pred0 lab0 _ x hq,
      midInit_pred_lt I pred0 lab0 _ x hq, midInit_lab_lt I pred0 lab0 _ x hq]
    exact ⟨rfl, rfl, rfl, rfl⟩
  · have hq' : ¬ x < k + 1 := by omega
    rw [midInit_color_ge I pred0 lab0 _ x hq', midInit_cost_ge I pred0 lab0 _ x hq',
      midInit_pred_ge I pred0 lab0 _ x hq', midInit_lab_ge I pred0 lab0 _ x hq',
      midInit_color_ge I pred0 lab0 _ x hq, midInit_cost_ge I pred0 lab0 _ x hq,
      midInit_pred_ge I pred0 lab0 _ x hq, midInit_lab_ge I pred0 lab0 _ x hq]
    exact ⟨rfl, rfl, rfl, rfl⟩

theorem init_color (I : CompInst) (pred0 : Nat → Option Nat) (lab0 : Nat → Nat) (x : Nat) :
    (I.init pred0 lab0).color x = if x < I.n ∧ I.seed x = true then GRAY else WHITE := rfl
theorem init_cost (I : CompInst) (pred0 : Nat → Option Nat) (lab0 : Nat → Nat) (x : Nat) :
    (I.init pred0 lab0).cost x = if I.seed x = true then 0 else I.top := rfl
theorem init_pred (I : CompInst) (pred0 : Nat → Option Nat) (lab0 : Nat → Nat) (x : Nat) :
    (I.init pred0 lab0).pred x = if I.seed x = true then none else pred0 x := rfl
theorem init_lab (I : CompInst) (pred0 : Nat → Option Nat) (lab0 : Nat → Nat) (x : Nat) :
    (I.init pred0 lab0).lab x = if I.seed x = true then I.lam x else lab0 x := rfl

end midInit

theorem compInit_pos (top : Int) (s : CompSt) (i : Nat) (h : s.f.isProto i = true) :
    compInit top s i =
      { h := ((s.h.setCost i 0).insert i).1,
        f := { s.f with pred := s.f.pred.setIfInBounds i none,
                        plabel := s.f.plabel.setIfInBounds i (s.f.labelOf i) } } := by
  unfold compInit; exact if_pos h

theorem compInit_neg (top : Int) (s : CompSt) (i : Nat) (h : ¬ s.f.isProto i = true) :
    compInit top s i = { s with h := s.h.setCost i top } := by
  unfold compInit; exact if_neg h

/-- one iteration of the initialisation loop. -/
theorem init_step (w : Nat → Nat → Int) (top : Int) (f : Forest) (k : Nat) (s : CompSt)
    (hw : CWF f.n f s) (hl : s.f.label = f.label)
    (hr : Rel f.n s (midInit (compInstOf w top f) f.predOf f.plabelOf k)) (hk : k < f.n) :
    CWF f.n f (compInit top s k) ∧ (compInit top s k).f.label = f.label ∧
    Rel f.n (compInit top s k) (midInit (compInstOf w top f) f.predOf f.plabelOf (k + 1)) := by
  have hkk : ¬ k < k := Nat.lt_irrefl k
  have hk1 : k < k + 1 := Nat.lt_succ_self k
  have hks : k < s.h.size := by rw [hw.hsize]; exact hk
  have hkc : k < s.h.cost.size := by rw [hw.inv.size_cost]; exact hks
  have hcol : s.h.colorOf k = WHITE := by
    rw [hr.color k hk, midInit_color_ge _ _ _ k k hkk]
  have hng : s.h.colorOf k ≠ GRAY := by rw [hcol]; decide
  have hpk : s.f.predOf k = f.predOf k := by
    rw [hr.pred k hk, midInit_pred_ge _ _ _ k k hkk]
  have hproto : s.f.isProto k = f.isProto k := by
    show s.f.proto.getD k false = f.proto.getD k false
    rw [hw.proto]
  have hlab : s.f.labelOf k = f.labelOf k := by
    show s.f.label.getD k 0 = f.label.getD k 0
    rw [hl]
  have hseed : (compInstOf w top f).seed k = f.isProto k := rfl
  by_cases hpr : s.f.isProto k = true
  · -- a prototype: cost 0, own label, queued
    have hsd : (compInstOf w top f).seed k = true := by rw [hseed, ← hproto]; exact hpr
    rw [compInit_pos top s k hpr]
    have hinv1 : Heap.Inv (s.h.setCost k 0) := Heap.Inv_setCost hw.inv 0 hks hng
    obtain ⟨_, i1, i2, i3, i4, _⟩ := Heap.insert_spec (s.h.setCost k 0) k hinv1 hks hcol
    refine ⟨?_, hl, ?_⟩
    · refine ⟨i1, ?_, ?_, ?_, ?_, hw.sncost, hw.proto, hw.fn⟩
      · show ((s.h.setCost k 0).insert k).1.size = f.n
        rw [Heap.insert_size, Heap.setCost_size]; exact hw.hsize
      · show ((s.h.setCost k 0).insert k).1.isMax = false
        rw [insert_isMax, Heap.setCost_isMax]; exact hw.hmax
      · show (s.f.pred.setIfInBounds k none).size = f.n
        rw [Array.size_setIfInBounds]; exact hw.spred
      · show (s.f.plabel.setIfInBounds k (s.f.labelOf k)).size = f.n
        rw [Array.size_setIfInBounds]; exact hw.splabel
    · refine ⟨hr.order, ?_, ?_, ?_, ?_⟩
      · intro x hx
        show ((s.h.setCost k 0).insert k).1.colorOf x = _
        by_cases hxk : x = k
        · subst hxk
          rw [i2, midInit_color_lt _ _ _ _ x hk1, init_color, if_pos ⟨hk, hsd⟩]
        · rw [i3 x hxk, Heap.setCost_colorOf, (midInit_succ_ne _ _ _ k x hxk).1]
          exact hr.color x hx
      · intro x hx
        show ((s.h.setCost k 0).insert k).1.costOf x = _
        rw [i4 x, Heap.setCost_costOf]
        by_cases hxk : x = k
        · subst hxk
          rw [if_pos ⟨rfl, hkc⟩, midInit_cost_lt _ _ _ _ x hk1, init_cost, if_pos hsd]
        · rw [if_neg (fun h => hxk h.1), (midInit_succ_ne _ _ _ k x hxk).2.1]
          exact hr.cost x hx
      · intro x hx
        show (s.f.pred.setIfInBounds k none).getD x none = _
        rw [Heap.getD_set]
        by_cases hxk : x = k
        · subst hxk
          rw [if_pos ⟨rfl, by rw [hw.spred]; exact hk⟩, midInit_pred_lt _ _ _ _ x hk1, init_pred,
            if_pos hsd]
        · rw [if_neg (fun h => hxk h.1), (midInit_succ_ne _ _ _ k x hxk).2.2.1]
          exact hr.pred x hx
      · intro x hx
        show (s.f.plabel.setIfInBounds k (s.f.labelOf k)).getD x 0 = _
        rw [Heap.getD_set]
        by_cases hxk : x = k
        · subst hxk
          rw [if_pos ⟨rfl, by rw [hw.splabel]; exact hk⟩, midInit_lab_lt _ _ _ _ x hk1, init_lab,
            if_pos hsd, hlab]
          rfl
        · rw [if_neg (fun h => hxk h.1), (midInit_succ_ne _ _ _ k x hxk).2.2.2]
          exact hr.lab x hx
  · -- not a prototype: cost `top`
    have hsd : ¬ (compInstOf w top f).seed k = true := by rw [hseed, ← hproto]; exact hpr
    rw [compInit_neg top s k hpr]
    refine ⟨?_, hl, ?_⟩
    · exact ⟨Heap.Inv_setCost hw.inv top hks hng, hw.hsize, hw.hmax, hw.spred, hw.splabel,
        hw.sncost, hw.proto, hw.fn⟩
    · refine ⟨hr.order, ?_, ?_, ?_, ?_⟩
      · intro x hx
        show (s.h.setCost k top).colorOf x = _
        rw [Heap.setCost_colorOf]
        by_cases hxk : x = k
        · subst hxk
          rw [hcol, midInit_color_lt _ _ _ _ x hk1, init_color, if_neg (fun h => hsd h.2)]
        · rw [(midInit_succ_ne _ _ _ k x hxk).1]; exact hr.color x hx
      · intro x hx
        show (s.h.setCost k top).costOf x = _
        rw [Heap.setCost_costOf]
        by_cases hxk : x = k
        · subst hxk
          rw [if_pos ⟨rfl, hkc⟩, midInit_cost_lt _ _ _ _ x hk1, init_cost, if_neg hsd]
          rfl
        · rw [if_neg (fun h => hxk h.1), (midInit_succ_ne _ _ _ k x hxk).2.1]
          exact hr.cost x hx
      · intro x hx
        show s.f.predOf x = _
        by_cases hxk : x = k
        · subst hxk
          rw [hpk, midInit_pred_lt _ _ _ _ x hk1, init_pred, if_neg hsd]
        · rw [(midInit_succ_ne _ _ _ k x hxk).2.2.1]; exact hr.pred x hx
      · intro x hx
        show s.f.plabelOf x = _
        by_cases hxk : x = k
        · subst hxk
          rw [hr.lab x hx, midInit_lab_ge _ _ _ x x hkk, midInit_lab_lt _ _ _ _ x hk1, init_lab,
            if_neg hsd]
        · rw [(midInit_succ_ne _ _ _ k x hxk).2.2.2]; exact hr.lab x hx

/-- the first `k` iterations of the initialisation loop. -/
theorem init_fold (w : Nat → Nat → Int) (top : Int) (f : Forest) (hs : f.Sized)
    (ho : f.order = #[]) :
    ∀ k, k ≤ f.n →
      CWF f.n f ((List.range k).foldl (compInit top) { h := Heap.init f.n false top, f := f }) ∧
      ((List.range k).foldl (compInit top) { h := Heap.init f.n false top, f := f }).f.label
        = f.label ∧
      Rel f.n ((List.range k).foldl (compInit top) { h := Heap.init f.n false top, f := f })
        (midInit (compInstOf w top f) f.predOf f.plabelOf k) := by
  intro k
  induction k with
  | zero =>
    intro _
    have hn0 : ∀ x, ¬ x < 0 := fun x => Nat.not_lt_zero x
    refine ⟨⟨Heap.inv_init f.n false top, rfl, rfl, hs.size_pred, hs.size_plabel, hs.size_ncost,
      rfl, rfl⟩, rfl, ?_⟩
    refine ⟨?_, ?_, ?_, ?_, ?_⟩
    · show f.order.toList = []
      rw [ho]
    · intro x _
      show (Heap.init f.n false top).colorOf x = _
      rw [Heap.init_colorOf, midInit_color_ge _ _ _ 0 x (hn0 x)]
    · intro x hx
      show (Heap.init f.n false top).costOf x = _
      rw [init_costOf f.n false top x hx, midInit_cost_ge _ _ _ 0 x (hn0 x)]
      rfl
    · intro x _
      rw [midInit_pred_ge _ _ _ 0 x (hn0 x)]
      rfl
    · intro x _
      rw [midInit_lab_ge _ _ _ 0 x (hn0 x)]
      rfl
  | succ k ih =>
    intro hk
    obtain ⟨h1, h2, h3⟩ := ih (by omega)
    rw [List.range_succ, List.foldl_append]
    simp only [List.foldl_cons, List.foldl_nil]
    exact init_step w top f k _ h1 h2 h3 (by omega)

theorem rel_midInit_init (I : CompInst) (pred0 : Nat → Option Nat) (lab0 : Nat → Nat)
    (s : CompSt) (hr : Rel I.n s (midInit I pred0 lab0 I.n)) : Rel I.n s (I.init pred0 lab0) := by
  refine ⟨hr.order, ?_, ?_, ?_, ?_⟩
  · intro x hx; rw [← midInit_color_lt I pred0 lab0 I.n x hx]; exact hr.color x hx
  · intro x hx; rw [← midInit_cost_lt I pred0 lab0 I.n x hx]; exact hr.cost x hx
  · intro x hx; rw [← midInit_pred_lt I pred0 lab0 I.n x hx]; exact hr.pred x hx
  · intro x hx; rw [← midInit_lab_lt I pred0 lab0 I.n x hx]; exact hr.lab x hx

end CE

/-- the executable competition is a lawful run of the relational semantics: the recorded conquest
order is accepted by `runPicks`, the run ends with an empty queue, and the recorded fields are
those of the final abstract state. -/
theorem competeRun_lawful (w : Nat → Nat → Int) (top : Int) (semi : Bool) (f : Forest)
    (hs : f.Sized) (ho : f.order = #[]) (hg : (compInstOf w top f).Good) :
    ∃ s', (compInstOf w top f).runPicks ((compInstOf w top f).init f.predOf f.plabelOf)
            (competeRun w top semi f).f.order.toList = some s' ∧
      (compInstOf w top f).isFinal s' = true ∧
      (competeRun w top semi f).h.isEmpty = true ∧
      (competeRun w top semi f).f.order.toList = s'.order ∧
      (∀ x, x < f.n → (competeRun w top semi f).f.costOf x = s'.cost x ∧
                       (competeRun w top semi f).f.predOf x = s'.pred x ∧
                       (competeRun w top semi f).f.plabelOf x = s'.lab x) ∧
      (competeRun w top semi f).f.proto = f.proto ∧ (competeRun w top semi f).f.n = f.n := by
  obtain ⟨w0, _, r0⟩ := CE.init_fold w top f hs ho f.n (Nat.le_refl _)
  have r0' := CE.rel_midInit_init (compInstOf w top f) f.predOf f.plabelOf _ r0
  have hrun : competeRun w top semi f =
      compLoop (compInstOf w top f).w semi (compInstOf w top f).n ((compInstOf w top f).n + 1)
        ((List.range f.n).foldl (compInit top) { h := Heap.init f.n false top, f := f }) := rfl
  rw [hrun]
  have hnc : CE.NC (compInstOf w top f).n
      ((List.range f.n).foldl (compInit top) { h := Heap.init f.n false top, f := f })
      ((compInstOf w top f).init f.predOf f.plabelOf) := by
    intro x _ hb
    rw [CE.init_color] at hb
    split at hb <;> exact absurd hb (by decide)
  obtain ⟨a', h1, h2, h3, h4, h5, h6⟩ :=
    CE.loop_lawful (compInstOf w top f) semi f f.predOf f.plabelOf hg
      ((compInstOf w top f).n + 1) _ ((compInstOf w top f).init f.predOf f.plabelOf) w0 r0' hnc
      (by rw [r0'.order]; rfl) (by omega)
  have hreach := CompInst.runPicks_reach _ f.predOf f.plabelOf _ CompInst.Reach.init _ a' h1
  have hblack := CompInst.compete_all_black _ f.predOf f.plabelOf hg a' hreach
    (CompInst.isFinal_final _ a' h2)
  exact ⟨a', h1, h2, h3, h5.order, fun x hx => ⟨h6 x hx (hblack x hx), h5.pred x hx, h5.lab x hx⟩,
    h4.proto, h4.fn⟩

end Opf
