-- helper lemmas for Props/C16SelRefine.lean
import OpfVerif.Gen.SelImp
import OpfVerif.Props.C16
set_option linter.unusedVariables false
namespace Opf.SelRefine
open Opf Opf.Sel Opf.Gen.SelImp
variable {σ : Type}

/-! ## KNN-supervised `_learn` -/

theorem accStep_fold_counter (l : List Int) : ∀ st : Int × Option Nat × Nat,
    (l.foldl accStep st).2.2 = st.2.2 + l.length := by
  induction l with
  | nil => intro st; simp
  | cons a l ih =>
    intro st
    rw [List.foldl_cons, ih]
    unfold accStep
    split <;> simp <;> omega

theorem knnTrace_length (ops : SelOps σ) : ∀ (m : Nat) (s s' : σ) (accs : List Int),
    knnTrace ops m s = some (s', accs) → accs.length = m := by
  intro m
  induction m with
  | zero =>
    intro s s' accs h
    simp only [knnTrace, Option.some.injEq, Prod.mk.injEq] at h
    rw [← h.2]; rfl
  | succ m ih =>
    intro s s' accs h
    simp only [knnTrace, bind, Option.bind] at h
    cases h1 : knnTrace ops m s with
    | none => simp [h1] at h
    | some r =>
      obtain ⟨s1, l⟩ := r
      simp only [h1] at h
      cases h2 : knnCandidate ops s1 ((m : Int) + 1) with
      | none => simp [h2] at h
      | some r2 =>
        obtain ⟨s2, a⟩ := r2
        simp only [h2, pure, Option.some.injEq, Prod.mk.injEq] at h
        rw [← h.2, List.length_append, ih s s1 l h1]; rfl

theorem knnCandidate_acc (ops : SelOps σ) (s s' : σ) (k a : Int)
    (h : knnCandidate ops s k = some (s', a)) : ∃ p, ops.opf_accuracy p = some a := by
  simp only [knnCandidate, bind, Option.bind, pure] at h
  cases h1 : ops.set_best_k s k with
  | none => simp [h1] at h
  | some s1 =>
    simp only [h1] at h
    cases h2 : ops.create_arcs s1 k with
    | none => simp [h2] at h
    | some r2 =>
      simp only [h2] at h
      cases h3 : ops.calculate_pdf r2.1 k with
      | none => simp [h3] at h
      | some s3 =>
        simp only [h3] at h
        cases h4 : ops.knn_clustering s3 false with
        | none => simp [h4] at h
        | some s4 =>
          simp only [h4] at h
          cases h5 : ops.predict_val s4 with
          | none => simp [h5] at h
          | some r5 =>
            simp only [h5] at h
            cases h6 : ops.opf_accuracy r5.2 with
            | none => simp [h6] at h
            | some acc =>
              simp only [h6] at h
              cases h7 : ops.destroy_arcs r5.1 with
              | none => simp [h7] at h
              | some s7 =>
                simp only [h7, Option.some.injEq, Prod.mk.injEq] at h
                exact ⟨r5.2, by rw [h6, h.2]⟩

theorem knnTrace_acc (ops : SelOps σ) : ∀ (m : Nat) (s s' : σ) (accs : List Int),
    knnTrace ops m s = some (s', accs) → ∀ a ∈ accs, ∃ p, ops.opf_accuracy p = some a := by
  intro m
  induction m with
  | zero =>
    intro s s' accs h
    simp only [knnTrace, Option.some.injEq, Prod.mk.injEq] at h
    rw [← h.2]; intro a ha; cases ha
  | succ m ih =>
    intro s s' accs h
    simp only [knnTrace, bind, Option.bind] at h
    cases h1 : knnTrace ops m s with
    | none => simp [h1] at h
    | some r =>
      obtain ⟨s1, l⟩ := r
      simp only [h1] at h
      cases h2 : knnCandidate ops s1 ((m : Int) + 1) with
      | none => simp [h2] at h
      | some r2 =>
        obtain ⟨s2, a⟩ := r2
        simp only [h2, pure, Option.some.injEq, Prod.mk.injEq] at h
        rw [← h.2]
        intro x hx
        rcases List.mem_append.1 hx with hx | hx
        · exact ih s s1 l h1 x hx
        · simp only [List.mem_singleton] at hx
          subst hx
          exact knnCandidate_acc ops _ _ _ _ h2

/-- what the loop state of `_learn` is after the observed accuracies `accs`. -/
def knnOut (start : Int) (r : σ × List Int) : σ × Int × Option Int :=
  (r.1, (r.2.foldl accStep (start, none, 1)).1,
    ((r.2.foldl accStep (start, none, 1)).2.1).map (fun (k : Nat) => (k : Int)))

theorem knn_loop (ops : SelOps σ)
    (body : Int → σ × Int × Option Int → Option (σ × Int × Option Int))
    (hbody : ∀ (q : Nat) s mx bk, body (q : Int) (s, mx, bk) =
      (knnCandidate ops s ((q : Int) + 1)).bind (fun r =>
        some (r.1, (if r.2 > mx then r.2 else mx), (if r.2 > mx then some ((q : Int) + 1) else bk))))
    (start : Int) (s0 : σ) : ∀ m : Nat,
    (List.range m).foldlM (fun st (q : Nat) => body (q : Int) st) (s0, start, none) =
      (knnTrace ops m s0).bind (fun r => some (knnOut start r)) := by
  intro m
  induction m with
  | zero => simp [knnTrace, knnOut]
  | succ m ih =>
    rw [List.range_succ, List.foldlM_append, ih]
    simp only [knnTrace, bind, Option.bind]
    cases h1 : knnTrace ops m s0 with
    | none => rfl
    | some r =>
      obtain ⟨s1, l⟩ := r
      simp only [knnOut, List.foldlM_cons, List.foldlM_nil, hbody, bind, Option.bind]
      cases h2 : knnCandidate ops s1 ((m : Int) + 1) with
      | none => rfl
      | some r2 =>
        obtain ⟨s2, a⟩ := r2
        have hlen := knnTrace_length ops m s0 s1 l h1
        have hc := accStep_fold_counter l (start, none, 1)
        simp only [pure, List.foldl_append, List.foldl_cons, List.foldl_nil]
        generalize List.foldl accStep (start, none, 1) l = st at hc
        obtain ⟨mx, b, i⟩ := st
        simp only at hc
        subst hc
        unfold accStep
        by_cases hgt : a > mx
        · simp only [hgt, if_true, Option.map_some]
          rw [hlen]
          simp [Int.add_comm]
        · simp only [hgt, if_false]

/-- the generated loop body of `knn_learn` (a copy: `knn_learn_eq` is `rfl`). -/
def knnBody (ops : SelOps σ) : Int → σ × Int × Option Int → Option (σ × Int × Option Int) :=
  fun q (s, max_acc, best_k) => do
      let k := (1 : Int) + q
      let s ← ops.set_best_k s k
      let (s, _) ← ops.create_arcs s k
      let s ← ops.calculate_pdf s k
      let s ← ops.knn_clustering s false
      let (s, preds_v) ← ops.predict_val s
      let preds := preds_v
      let acc_v ← ops.opf_accuracy preds
      let acc := acc_v
      let (s, max_acc, best_k) ← (if decide (acc > max_acc) then (do
          let max_acc := acc
          let best_k : Option Int := some k
          pure (s, max_acc, best_k)) else (do
          pure (s, max_acc, best_k)))
      let s ← ops.destroy_arcs s
      pure (s, max_acc, best_k)

theorem knnBody_spec (ops : SelOps σ) (q : Nat) (s : σ) (mx : Int) (bk : Option Int) :
    knnBody ops (q : Int) (s, mx, bk) =
      (knnCandidate ops s ((q : Int) + 1)).bind (fun r =>
        some (r.1, (if r.2 > mx then r.2 else mx), (if r.2 > mx then some ((q : Int) + 1) else bk))) := by
  simp only [knnBody, knnCandidate, Option.bind_eq_bind, Option.pure_def, Int.add_comm 1 (q : Int)]
  cases h1 : ops.set_best_k s ((q : Int) + 1) with
  | none => simp
  | some s1 =>
  cases h2 : ops.create_arcs s1 ((q : Int) + 1) with
  | none => simp [h2]
  | some r2 =>
  cases h3 : ops.calculate_pdf r2.1 ((q : Int) + 1) with
  | none => simp [h2, h3]
  | some s3 =>
  cases h4 : ops.knn_clustering s3 false with
  | none => simp [h2, h3, h4]
  | some s4 =>
  cases h5 : ops.predict_val s4 with
  | none => simp [h2, h3, h4, h5]
  | some r5 =>
  cases h6 : ops.opf_accuracy r5.2 with
  | none => simp [h2, h3, h4, h5, h6]
  | some acc =>
  cases h7 : ops.destroy_arcs r5.1 with
  | none => by_cases hgt : acc > mx <;> simp [h2, h3, h4, h5, h6, h7, hgt]
  | some s7 => by_cases hgt : acc > mx <;> simp [h2, h3, h4, h5, h6, h7, hgt]

theorem knn_learn_eq (ops : SelOps σ) (top negOne zero : Int) (s : σ) :
    knn_learn ops top negOne zero s = (do
      let s ← ops.new_subgraph s
      let s ← (if (ops.pre_computed_distance s) then (do
          let s ← (if (decide ((ops.pre_shape0 s) ≠ (ops.n_nodes s)) || decide ((ops.pre_shape1 s) ≠ (ops.n_nodes s))) then (do
              let _r : Unit ← none
              pure s) else (do
              pure s))
          pure s) else (do
          pure s))
      let (s, max_acc, best_k) ← Py.forRange (((ops.max_k s) + (1 : Int)) - 1) (knnBody ops) (s, negOne, none)
      let t3 ← best_k
      let s ← ops.set_best_k s t3
      pure s) := rfl


theorem knn_learn_tail (ops : SelOps σ) (negOne : Int) (m : Nat) (s : σ) :
    (((knnTrace ops m s).bind (fun r => some (knnOut negOne r))).bind
        fun __x => __x.2.snd.bind fun t3 => ops.set_best_k __x.fst t3) =
      (knnTrace ops m s).bind fun __x =>
        (selectMaxAcc negOne __x.snd).bind fun k => ops.set_best_k __x.fst ↑k := by
  cases knnTrace ops m s with
  | none => rfl
  | some r =>
    simp only [Option.bind_some, knnOut, selectMaxAcc_eq]
    cases (List.foldl accStep (negOne, none, 1) r.2).2.1 <;> rfl

/-! ## unsupervised `_best_minimum_cut` -/

/-- the generated loop body of `uns_best_minimum_cut`. -/
def unsBody (ops : SelOps σ) (max_distances : Array Int) (FC_0_0 t2 : Int) :
    Int → σ × Int × Option Int → Option (σ × Int × Option Int) :=
  fun q (s, min_cut, best_k) => do
      let k := t2 + q
      let (s, min_cut, best_k) ← (if decide (min_cut ≠ FC_0_0) then (do
          let t1 ← Py.idx max_distances (k - (1 : Int))
          let s ← ops.set_density s t1
          let s ← ops.set_best_k s k
          let s ← ops.calculate_pdf s k
          let s ← ops.uns_clustering s k
          let cut_v ← ops.normalized_cut s k
          let cut := cut_v
          let (s, min_cut, best_k) ← (if decide (cut < min_cut) then (do
              let min_cut := cut
              let best_k : Option Int := some k
              pure (s, min_cut, best_k)) else (do
              pure (s, min_cut, best_k)))
          pure (s, min_cut, best_k)) else (do
          pure (s, min_cut, best_k)))
      pure (s, min_cut, best_k)

theorem uns_bmc_eq (ops : SelOps σ) (top negOne zero : Int) (s : σ) (min_k max_k : Int) :
    uns_best_minimum_cut ops top negOne zero s min_k max_k = (do
      let (s, md) ← ops.create_arcs s max_k
      let (s, min_cut, best_k) ← Py.forRange ((max_k + (1 : Int)) - min_k) (unsBody ops md zero min_k) (s, top, none)
      let s ← ops.destroy_arcs s
      let t4 ← best_k
      let s ← ops.set_best_k s t4
      let t5 ← best_k
      let (s, _) ← ops.create_arcs s t5
      let t6 ← best_k
      let s ← ops.calculate_pdf s t6
      let t7 ← best_k
      pure s) := rfl

theorem unsBody_spec (ops : SelOps σ) (md : Array Int) (zero base : Int) (q : Nat) (s : σ) (mn : Int)
    (bk : Option Int) :
    unsBody ops md zero base (q : Int) (s, mn, bk) =
      if mn ≠ zero then
        (unsCandidate ops md s (base + (q : Int))).bind (fun r =>
          some (r.1, (if r.2 < mn then r.2 else mn), (if r.2 < mn then some (base + (q : Int)) else bk)))
      else some (s, mn, bk) := by
  simp only [unsBody, unsCandidate, Option.bind_eq_bind, Option.pure_def]
  by_cases hz : mn = zero
  · simp [hz]
  · simp only [ne_eq, hz, not_false_eq_true, decide_true, if_true]
    cases h1 : Py.idx md (base + (q : Int) - 1) with
    | none => simp
    | some d =>
    cases h2 : ops.set_density s d with
    | none => simp [h2]
    | some s2 =>
    cases h3 : ops.set_best_k s2 (base + (q : Int)) with
    | none => simp [h2, h3]
    | some s3 =>
    cases h4 : ops.calculate_pdf s3 (base + (q : Int)) with
    | none => simp [h2, h3, h4]
    | some s4 =>
    cases h5 : ops.uns_clustering s4 (base + (q : Int)) with
    | none => simp [h2, h3, h4, h5]
    | some s5 =>
    cases h6 : ops.normalized_cut s5 (base + (q : Int)) with
    | none => simp [h2, h3, h4, h5, h6]
    | some cut => by_cases hlt : cut < mn <;> simp [h2, h3, h4, h5, h6, hlt]


theorem unsTrace_zero (ops : SelOps σ) (md : Array Int) (zero : Int) : ∀ (c : Nat) (k : Int) (s : σ),
    unsTrace ops md zero c k zero s = some (s, []) := by
  intro c
  induction c with
  | zero => intro k s; rfl
  | succ c ih => intro k s; simp only [unsTrace, ne_eq, not_true_eq_false, if_false, ih]

theorem foldlM_const {α β : Type} (f : β → α → Option β) (b : β) (hf : ∀ a, f b a = some b) :
    ∀ l : List α, l.foldlM f b = some b := by
  intro l
  induction l with
  | nil => rfl
  | cons a l ih => rw [List.foldlM_cons, hf]; exact ih

theorem foldlM_range_succ_shift {β : Type} (g : Nat → β → Option β) (c j : Nat) (init : β) :
    (List.range (c + 1)).foldlM (fun st (q : Nat) => g (j + q) st) init =
      (g j init).bind (fun init' => (List.range c).foldlM (fun st (q : Nat) => g (j + 1 + q) st) init') := by
  rw [List.range_succ_eq_map, List.foldlM_cons]
  simp only [List.foldlM_map, Nat.add_zero, Option.bind_eq_bind]
  have hfun : (fun (st : β) (q : Nat) => g (j + q.succ) st) = (fun st (q : Nat) => g (j + 1 + q) st) := by
    funext st q
    rw [show j + q.succ = j + 1 + q by omega]
  rw [hfun]

/-- what the loop state of `_best_minimum_cut` is after the evaluated cuts `ev`, started from the running
state `(mn, b, j, n)` of `selectMinCut`. -/
def unsOut (zero base mn : Int) (b : Option Nat) (j n : Nat) (r : σ × List Int) : σ × Int × Option Int :=
  (r.1, (r.2.foldl (cutStep zero) (mn, b, j, n)).1,
    ((r.2.foldl (cutStep zero) (mn, b, j, n)).2.1).map (fun (i : Nat) => base + (i : Int)))

theorem uns_loop (ops : SelOps σ) (md : Array Int) (zero base : Int)
    (body : Int → σ × Int × Option Int → Option (σ × Int × Option Int))
    (hbody : ∀ (q : Nat) s mn bk, body (q : Int) (s, mn, bk) =
      if mn ≠ zero then
        (unsCandidate ops md s (base + (q : Int))).bind (fun r =>
          some (r.1, (if r.2 < mn then r.2 else mn), (if r.2 < mn then some (base + (q : Int)) else bk)))
      else some (s, mn, bk)) :
    ∀ (c j : Nat) (s : σ) (mn : Int) (b : Option Nat) (n : Nat),
    (List.range c).foldlM (fun st (q : Nat) => body ((j + q : Nat) : Int) st)
        (s, mn, b.map (fun (i : Nat) => base + (i : Int))) =
      (unsTrace ops md zero c (base + (j : Int)) mn s).bind (fun r => some (unsOut zero base mn b j n r)) := by
  intro c
  induction c with
  | zero => intro j s mn b n; simp [unsTrace, unsOut]
  | succ c ih =>
    intro j s mn b n
    rw [foldlM_range_succ_shift (fun q st => body (q : Int) st), hbody]
    by_cases hz : mn = zero
    · subst hz
      simp only [ne_eq, not_true_eq_false, if_false, Option.bind_some]
      rw [foldlM_const _ _ (fun q => by rw [hbody]; simp), unsTrace_zero]
      simp [unsOut]
    · simp only [unsTrace, ne_eq, hz, not_false_eq_true, if_true, Option.bind_eq_bind, Option.pure_def]
      cases h1 : unsCandidate ops md s (base + (j : Int)) with
      | none => simp
      | some r1 =>
        obtain ⟨s1, cut⟩ := r1
        simp only [Option.bind_some]
        have hk : base + (j : Int) + 1 = base + ((j + 1 : Nat) : Int) := by omega
        rw [hk]
        by_cases hlt : cut < mn
        · simp only [hlt, if_true]
          have := ih (j + 1) s1 cut (some j) (n + 1)
          simp only [Option.map_some] at this
          rw [this]
          cases unsTrace ops md zero c (base + ((j + 1 : Nat) : Int)) cut s1 with
          | none => rfl
          | some r2 => simp [unsOut, cutStep, hz, hlt]
        · simp only [hlt, if_false]
          rw [ih (j + 1) s1 mn b (n + 1)]
          cases unsTrace ops md zero c (base + ((j + 1 : Nat) : Int)) mn s1 with
          | none => rfl
          | some r2 => simp [unsOut, cutStep, hz, hlt]


theorem unsCandidate_cut (ops : SelOps σ) (md : Array Int) (s s' : σ) (k cut : Int)
    (h : unsCandidate ops md s k = some (s', cut)) : ∃ s k, ops.normalized_cut s k = some cut := by
  simp only [unsCandidate, Option.bind_eq_bind, Option.pure_def] at h
  cases h1 : Py.idx md (k - 1) with
  | none => simp [h1] at h
  | some d =>
  cases h2 : ops.set_density s d with
  | none => simp [h1, h2] at h
  | some s2 =>
  cases h3 : ops.set_best_k s2 k with
  | none => simp [h1, h2, h3] at h
  | some s3 =>
  cases h4 : ops.calculate_pdf s3 k with
  | none => simp [h1, h2, h3, h4] at h
  | some s4 =>
  cases h5 : ops.uns_clustering s4 k with
  | none => simp [h1, h2, h3, h4, h5] at h
  | some s5 =>
  cases h6 : ops.normalized_cut s5 k with
  | none => simp [h1, h2, h3, h4, h5, h6] at h
  | some c =>
    simp [h1, h2, h3, h4, h5, h6] at h
    exact ⟨s5, k, by rw [h6, h.2]⟩

/-- one step of `unsTrace` with a running minimum different from `zero`, inverted. -/
theorem unsTrace_succ_inv (ops : SelOps σ) (md : Array Int) (zero : Int) (c : Nat) (k mn : Int) (s s' : σ)
    (ev : List Int) (hz : mn ≠ zero) (h : unsTrace ops md zero (c + 1) k mn s = some (s', ev)) :
    ∃ s1 cut ev', unsCandidate ops md s k = some (s1, cut) ∧
      unsTrace ops md zero c (k + 1) (if cut < mn then cut else mn) s1 = some (s', ev') ∧ ev = cut :: ev' := by
  simp only [unsTrace, ne_eq, hz, not_false_eq_true, if_true, Option.bind_eq_bind, Option.pure_def] at h
  cases h1 : unsCandidate ops md s k with
  | none => simp [h1] at h
  | some r1 =>
    obtain ⟨s1, cut⟩ := r1
    simp only [h1, Option.bind_some] at h
    cases h2 : unsTrace ops md zero c (k + 1) (if cut < mn then cut else mn) s1 with
    | none => simp [h2] at h
    | some r2 =>
      obtain ⟨s2, ev'⟩ := r2
      simp only [h2, Option.bind_some, Option.some.injEq, Prod.mk.injEq] at h
      exact ⟨s1, cut, ev', rfl, by rw [h2, h.1], h.2.symm⟩

theorem unsTrace_cut (ops : SelOps σ) (md : Array Int) (zero : Int) : ∀ (c : Nat) (k mn : Int) (s s' : σ)
    (ev : List Int), unsTrace ops md zero c k mn s = some (s', ev) →
    ∀ x ∈ ev, ∃ s k, ops.normalized_cut s k = some x := by
  intro c
  induction c with
  | zero =>
    intro k mn s s' ev h
    simp only [unsTrace, Option.some.injEq, Prod.mk.injEq] at h
    rw [← h.2]; intro x hx; cases hx
  | succ c ih =>
    intro k mn s s' ev h
    by_cases hz : mn = zero
    · subst hz
      rw [unsTrace_zero] at h
      simp only [Option.some.injEq, Prod.mk.injEq] at h
      rw [← h.2]; intro x hx; cases hx
    · obtain ⟨s1, cut, ev', h1, h2, rfl⟩ := unsTrace_succ_inv ops md zero c k mn s s' ev hz h
      intro x hx
      rcases List.mem_cons.1 hx with hx | hx
      · subst hx; exact unsCandidate_cut ops md _ _ _ _ h1
      · exact ih _ _ _ _ _ h2 x hx

theorem unsTrace_eval_gen (ops : SelOps σ) (md : Array Int) (zero : Int) : ∀ (c : Nat) (k mn : Int) (s s' : σ)
    (ev : List Int) (b : Option Nat) (j n : Nat), unsTrace ops md zero c k mn s = some (s', ev) →
    (ev.foldl (cutStep zero) (mn, b, j, n)).2.2.2 = n + ev.length ∧ ev.length ≤ c ∧
      (ev.length < c → mn = zero ∨ zero ∈ ev) := by
  intro c
  induction c with
  | zero =>
    intro k mn s s' ev b j n h
    simp only [unsTrace, Option.some.injEq, Prod.mk.injEq] at h
    rw [← h.2]; simp
  | succ c ih =>
    intro k mn s s' ev b j n h
    by_cases hz : mn = zero
    · subst hz
      rw [unsTrace_zero] at h
      simp only [Option.some.injEq, Prod.mk.injEq] at h
      rw [← h.2]; simp
    · obtain ⟨s1, cut, ev', h1, h2, rfl⟩ := unsTrace_succ_inv ops md zero c k mn s s' ev hz h
      rw [List.foldl_cons]
      by_cases hlt : cut < mn
      · simp only [hlt, if_true] at h2
        obtain ⟨i1, i2, i3⟩ := ih _ _ _ _ _ (some j) (j + 1) (n + 1) h2
        have hstep : cutStep zero (mn, b, j, n) cut = (cut, some j, j + 1, n + 1) := by
          simp [cutStep, hz, hlt]
        rw [hstep, i1]
        refine ⟨by simp; omega, by simp; omega, ?_⟩
        intro hl
        right
        rcases i3 (by simpa using hl) with h0 | h0
        · rw [h0]; simp
        · simp [h0]
      · simp only [hlt, if_false] at h2
        obtain ⟨i1, i2, i3⟩ := ih _ _ _ _ _ b (j + 1) (n + 1) h2
        have hstep : cutStep zero (mn, b, j, n) cut = (mn, b, j + 1, n + 1) := by
          simp [cutStep, hz, hlt]
        rw [hstep, i1]
        refine ⟨by simp; omega, by simp; omega, ?_⟩
        intro hl
        right
        rcases i3 (by simpa using hl) with h0 | h0
        · exact absurd h0 hz
        · simp [h0]

end Opf.SelRefine
