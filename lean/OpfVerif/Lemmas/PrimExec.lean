/-
Helper lemmas for C02 (executable side): the executable model `Opf.primRun` of
`_find_prototypes` (Model/Forest.lean), which drives the heap model, is simulated step by step by
the relational Prim semantics (`PrimInst.fire`, accepted by `PrimInst.runPicks`).

Layout: small facts on the heap operations not exported by `Lemmas/Heap.lean` (`isMax`, initial
costs); accessor reads after `setIfInBounds`; `Same` (fields/sizes of a forest that prototype
selection never changes); `primFlag`; the relaxation fold (`FoldInv`); the simulation relation
`Sim`; one iteration (`step_sim`); the loop (`loop_sim`); the initial state; `primRun_lawful`.
-/
import OpfVerif.Model.ExecSpec
import OpfVerif.Lemmas.Heap
import OpfVerif.Lemmas.Prim
import OpfVerif.Lemmas.Lawful

namespace Opf
namespace PrimExec

/-! ### heap facts -/

theorem insert_isMax (h : Heap) (x : Nat) : (h.insert x).1.isMax = h.isMax := by
  rw [Heap.insert_eq]; split
  · rfl
  · show ((Heap.insPre h x).goUp h.cnt).isMax = h.isMax
    rw [Heap.goUp_isMax, Heap.insPre_isMax]

theorem remove_isMax (h : Heap) : (h.remove).1.isMax = h.isMax := by
  rw [Heap.remove_eq]; split
  · rfl
  · show ((Heap.remPre h).goDown 0).isMax = h.isMax
    rw [Heap.goDown_isMax, Heap.remPre_isMax]

theorem update_isMax (h : Heap) (x : Nat) (c : Int) : (h.update x c).isMax = h.isMax := by
  rw [Heap.update_eq]; split
  · rw [insert_isMax, Heap.setCost_isMax]
  · split
    · rw [Heap.goUp_isMax, Heap.setCost_isMax]
    · rfl

theorem init_costOf (size : Nat) (isMax : Bool) (top : Int) (x : Nat) (hx : x < size) :
    (Heap.init size isMax top).costOf x = top := by
  unfold Heap.init Heap.costOf
  simp only [Array.getD_eq_getD_getElem?, Array.getElem?_replicate]
  rw [if_pos hx]; rfl

theorem better_min_false {a b : Int} (h : b ≤ a) : Heap.better false a b = false := by
  unfold Heap.better
  simp only [Bool.false_eq_true, if_false, decide_eq_false_iff_not]
  omega

theorem le_of_better_min {a b : Int} (h : Heap.better false a b = false) : b ≤ a := by
  unfold Heap.better at h
  simp only [Bool.false_eq_true, if_false, decide_eq_false_iff_not] at h
  omega

/-! ### small `if` facts used by the fold -/

theorem ite_succ_ne {α} {q k : Nat} (h : q ≠ k) (x y : α) :
    (if q < k + 1 then x else y) = if q < k then x else y := by
  by_cases hq : q < k
  · rw [if_pos hq, if_pos (by omega)]
  · rw [if_neg hq, if_neg (by omega)]

theorem ite_succ_self {α} (k : Nat) (x y : α) : (if k < k + 1 then x else y) = x :=
  if_pos (Nat.lt_succ_self k)

theorem ite_lt_self {α} (k : Nat) (x y : α) : (if k < k then x else y) = y :=
  if_neg (Nat.lt_irrefl k)

/-! ### forests: what prototype selection never changes -/

/-- `g` has the fields `n`, `plabel`, `label`, `order` of `f` and arrays of the same sizes. -/
structure Same (f g : Forest) : Prop where
  n : g.n = f.n
  plabel : g.plabel = f.plabel
  label : g.label = f.label
  order : g.order = f.order
  spred : g.pred.size = f.pred.size
  sproto : g.proto.size = f.proto.size
  sncost : g.ncost.size = f.ncost.size

theorem Same.refl (f : Forest) : Same f f := ⟨rfl, rfl, rfl, rfl, rfl, rfl, rfl⟩

theorem Same.trans {f g k : Forest} (a : Same f g) (b : Same g k) : Same f k :=
  ⟨b.n.trans a.n, b.plabel.trans a.plabel, b.label.trans a.label, b.order.trans a.order,
   b.spred.trans a.spred, b.sproto.trans a.sproto, b.sncost.trans a.sncost⟩

theorem Same.sized {f g : Forest} (a : Same f g) (hs : f.Sized) : g.Sized :=
  ⟨by rw [a.spred, a.n, hs.size_pred], by rw [a.sproto, a.n, hs.size_proto],
   by rw [a.sncost, a.n, hs.size_ncost], by rw [a.plabel, a.n, hs.size_plabel],
   by rw [a.label, a.n, hs.size_label]⟩

theorem Same.labelOf {f g : Forest} (a : Same f g) (x : Nat) : g.labelOf x = f.labelOf x := by
  unfold Forest.labelOf; rw [a.label]

theorem same_setPred (f : Forest) (i : Nat) (v : Option Nat) :
    Same f { f with pred := f.pred.setIfInBounds i v } :=
  ⟨rfl, rfl, rfl, rfl, Array.size_setIfInBounds, rfl, rfl⟩

theorem same_setNcost (f : Forest) (i : Nat) (v : Int) :
    Same f { f with ncost := f.ncost.setIfInBounds i v } :=
  ⟨rfl, rfl, rfl, rfl, rfl, rfl, Array.size_setIfInBounds⟩

theorem predOf_setPred (f : Forest) (i : Nat) (v : Option Nat) (x : Nat) :
    ({ f with pred := f.pred.setIfInBounds i v } : Forest).predOf x =
      if x = i ∧ i < f.pred.size then v else f.predOf x := by
  unfold Forest.predOf; exact Heap.getD_set _ _ _ _ _

/-! ### `primFlag` -/

theorem primFlag_none {g : Forest} {p : Nat} (h : g.predOf p = none) : primFlag g p = g := by
  simp only [primFlag, h]

theorem primFlag_some_eq {g : Forest} {p r : Nat} (h : g.predOf p = some r)
    (hl : ¬ g.labelOf p ≠ g.labelOf r) : primFlag g p = g := by
  simp only [primFlag, h]
  rw [if_neg hl]

theorem primFlag_some_ne {g : Forest} {p r : Nat} (h : g.predOf p = some r)
    (hl : g.labelOf p ≠ g.labelOf r) :
    primFlag g p = { g with proto := (g.proto.setIfInBounds p true).setIfInBounds r true } := by
  simp only [primFlag, h]
  rw [if_pos hl]

theorem primFlag_same (g : Forest) (p : Nat) : Same g (primFlag g p) := by
  cases h : g.predOf p with
  | none => rw [primFlag_none h]; exact Same.refl g
  | some r =>
    by_cases hl : g.labelOf p ≠ g.labelOf r
    · rw [primFlag_some_ne h hl]
      exact ⟨rfl, rfl, rfl, rfl, rfl,
        by simp only [Array.size_setIfInBounds], rfl⟩
    · rw [primFlag_some_eq h hl]; exact Same.refl g

theorem primFlag_pred (g : Forest) (p : Nat) : (primFlag g p).pred = g.pred := by
  cases h : g.predOf p with
  | none => rw [primFlag_none h]
  | some r =>
    by_cases hl : g.labelOf p ≠ g.labelOf r
    · rw [primFlag_some_ne h hl]
    · rw [primFlag_some_eq h hl]

theorem primFlag_predOf (g : Forest) (p x : Nat) : (primFlag g p).predOf x = g.predOf x := by
  unfold Forest.predOf; rw [primFlag_pred]

/-- `primFlag` realises the `proto` component of `fire`. -/
theorem primFlag_isProto (g : Forest) (p q : Nat) (hp : p < g.proto.size)
    (hr : ∀ r, g.predOf p = some r → r < g.proto.size) :
    (primFlag g p).isProto q =
      match g.predOf p with
      | none => g.isProto q
      | some r => if g.labelOf p ≠ g.labelOf r ∧ (q = p ∨ q = r) then true else g.isProto q := by
  cases h : g.predOf p with
  | none => rw [primFlag_none h]
  | some r =>
    have hrs := hr r h
    by_cases hl : g.labelOf p ≠ g.labelOf r
    · rw [primFlag_some_ne h hl]
      show ((g.proto.setIfInBounds p true).setIfInBounds r true).getD q false = _
      rw [Heap.getD_set, Heap.getD_set, Array.size_setIfInBounds]
      show _ = if g.labelOf p ≠ g.labelOf r ∧ (q = p ∨ q = r) then true else g.isProto q
      by_cases hqr : q = r
      · rw [if_pos ⟨hqr, hrs⟩, if_pos ⟨hl, Or.inr hqr⟩]
      · rw [if_neg (fun hc => hqr hc.1)]
        by_cases hqp : q = p
        · rw [if_pos ⟨hqp, hp⟩, if_pos ⟨hl, Or.inl hqp⟩]
        · rw [if_neg (fun hc => hqp hc.1), if_neg]
          · rfl
          · rintro ⟨_, h1 | h1⟩
            · exact hqp h1
            · exact hqr h1
    · rw [primFlag_some_eq h hl]
      show _ = if g.labelOf p ≠ g.labelOf r ∧ (q = p ∨ q = r) then true else g.isProto q
      rw [if_neg (fun hc => hl hc.1)]

/-! ### `primRelax` and its fold -/

theorem primRelax_pos {w : Nat → Nat → Int} {p : Nat} {s : PrimSt} {q : Nat}
    (h : s.h.colorOf q ≠ BLACK ∧ p ≠ q ∧ w p q < s.h.costOf q) :
    primRelax w p s q =
      { h := s.h.update q (w p q),
        f := { s.f with pred := s.f.pred.setIfInBounds q (some p) } } := by
  unfold primRelax; rw [if_pos h]

theorem primRelax_neg {w : Nat → Nat → Int} {p : Nat} {s : PrimSt} {q : Nat}
    (h : ¬ (s.h.colorOf q ≠ BLACK ∧ p ≠ q ∧ w p q < s.h.costOf q)) :
    primRelax w p s q = s := by
  unfold primRelax; rw [if_neg h]

theorem primRelax_same (w : Nat → Nat → Int) (p : Nat) (s : PrimSt) (q : Nat) :
    Same s.f (primRelax w p s q).f := by
  by_cases h : s.h.colorOf q ≠ BLACK ∧ p ≠ q ∧ w p q < s.h.costOf q
  · rw [primRelax_pos h]; exact same_setPred _ _ _
  · rw [primRelax_neg h]; exact Same.refl _

theorem primRelax_proto (w : Nat → Nat → Int) (p : Nat) (s : PrimSt) (q : Nat) :
    (primRelax w p s q).f.proto = s.f.proto := by
  by_cases h : s.h.colorOf q ≠ BLACK ∧ p ≠ q ∧ w p q < s.h.costOf q
  · rw [primRelax_pos h]
  · rw [primRelax_neg h]

theorem fold_same (w : Nat → Nat → Int) (p : Nat) (l : List Nat) (s : PrimSt) :
    Same s.f (l.foldl (primRelax w p) s).f := by
  induction l generalizing s with
  | nil => exact Same.refl _
  | cons q l ih =>
    rw [List.foldl_cons]
    exact (primRelax_same w p s q).trans (ih _)

theorem fold_proto (w : Nat → Nat → Int) (p : Nat) (l : List Nat) (s : PrimSt) :
    (l.foldl (primRelax w p) s).f.proto = s.f.proto := by
  induction l generalizing s with
  | nil => rfl
  | cons q l ih =>
    rw [List.foldl_cons, ih, primRelax_proto]

/-- state of the relaxation loop after the nodes `< k` have been scanned: those nodes carry the
values of `fire a p`, the others still the values just after the removal of `p`. -/
structure FoldInv (I : PrimInst) (a : PState) (p k : Nat) (s : PrimSt) : Prop where
  hinv : Heap.Inv s.h
  hsize : s.h.size = I.n
  hmin : s.h.isMax = false
  col : ∀ q, q < I.n → s.h.colorOf q =
    if q < k then (I.fire a p).color q else (if q = p then BLACK else a.color q)
  cost : ∀ q, q < I.n → s.h.costOf q = if q < k then (I.fire a p).cost q else a.cost q
  pred : ∀ q, q < I.n → s.f.predOf q = if q < k then (I.fire a p).pred q else a.pred q
  predhi : ∀ q, I.n ≤ q → s.f.predOf q = none
  psize : I.n ≤ s.f.pred.size

theorem foldInv_step (I : PrimInst) (a : PState) (p k : Nat) (s : PrimSt) (hk : k < I.n)
    (hF : FoldInv I a p k s) : FoldInv I a p (k + 1) (primRelax I.w p s k) := by
  have hck : s.h.colorOf k = if k = p then BLACK else a.color k := by
    have := hF.col k hk; rwa [ite_lt_self] at this
  have hcost : s.h.costOf k = a.cost k := by
    have := hF.cost k hk; rwa [ite_lt_self] at this
  have hpred : s.f.predOf k = a.pred k := by
    have := hF.pred k hk; rwa [ite_lt_self] at this
  by_cases hc : s.h.colorOf k ≠ BLACK ∧ p ≠ k ∧ I.w p k < s.h.costOf k
  · rw [primRelax_pos hc]
    obtain ⟨hcb, hpk, hlt⟩ := hc
    have hkp : k ≠ p := fun e => hpk e.symm
    rw [if_neg hkp] at hck
    have hrel : I.relaxed a p k = true :=
      (I.relaxed_iff a p k).2 ⟨hk, hkp, hck ▸ hcb, hcost ▸ hlt⟩
    obtain ⟨i1, c1, c2, k1, k2⟩ := Heap.update_spec s.h k (I.w p k) hF.hinv
      (by rw [hF.hsize]; exact hk)
      (by intro _; rw [hF.hmin]; exact better_min_false (Int.le_of_lt hlt))
    refine ⟨i1, by rw [Heap.update_size, hF.hsize], by rw [update_isMax, hF.hmin], ?_, ?_, ?_, ?_, ?_⟩
    · intro q hq
      show (s.h.update k (I.w p k)).colorOf q = _
      by_cases hqk : q = k
      · subst hqk
        rw [k1, ite_succ_self, I.fire_color_ne hkp, hck]
        by_cases hw : a.color q = WHITE
        · rw [if_pos hw, if_pos ⟨hrel, hw⟩]
        · rw [if_neg hw, if_neg (fun h => hw h.2)]
      · rw [k2 q hqk, ite_succ_ne hqk]; exact hF.col q hq
    · intro q hq
      show (s.h.update k (I.w p k)).costOf q = _
      by_cases hqk : q = k
      · subst hqk
        rw [c1, ite_succ_self, I.fire_cost_relaxed hrel]
      · rw [c2 q hqk, ite_succ_ne hqk]; exact hF.cost q hq
    · intro q hq
      show ({ s.f with pred := s.f.pred.setIfInBounds k (some p) } : Forest).predOf q = _
      rw [predOf_setPred]
      by_cases hqk : q = k
      · subst hqk
        rw [ite_succ_self, I.fire_pred_relaxed hrel]
        rw [if_pos ⟨rfl, Nat.lt_of_lt_of_le hq hF.psize⟩]
      · rw [if_neg (fun h => hqk h.1), ite_succ_ne hqk]; exact hF.pred q hq
    · intro q hq
      show ({ s.f with pred := s.f.pred.setIfInBounds k (some p) } : Forest).predOf q = _
      rw [predOf_setPred, if_neg (fun h => by omega)]
      exact hF.predhi q hq
    · show I.n ≤ (s.f.pred.setIfInBounds k (some p)).size
      rw [Array.size_setIfInBounds]; exact hF.psize
  · rw [primRelax_neg hc]
    have hnrel : ¬ I.relaxed a p k = true := by
      intro hrel
      obtain ⟨_, hkp, hcb, hlt⟩ := (I.relaxed_iff a p k).1 hrel
      rw [if_neg hkp] at hck
      exact hc ⟨hck ▸ hcb, fun e => hkp e.symm, hcost ▸ hlt⟩
    refine ⟨hF.hinv, hF.hsize, hF.hmin, ?_, ?_, ?_, hF.predhi, hF.psize⟩
    · intro q hq
      by_cases hqk : q = k
      · subst hqk
        rw [ite_succ_self, hck]
        by_cases hqp : q = p
        · subst hqp; rw [if_pos rfl, I.fire_color_self]
        · rw [if_neg hqp, I.fire_color_ne hqp, if_neg (fun h => hnrel h.1)]
      · rw [ite_succ_ne hqk]; exact hF.col q hq
    · intro q hq
      by_cases hqk : q = k
      · subst hqk
        rw [ite_succ_self, hcost, I.fire_cost_not hnrel]
      · rw [ite_succ_ne hqk]; exact hF.cost q hq
    · intro q hq
      by_cases hqk : q = k
      · subst hqk
        rw [ite_succ_self, hpred, I.fire_pred_not hnrel]
      · rw [ite_succ_ne hqk]; exact hF.pred q hq

theorem foldInv_fold (I : PrimInst) (a : PState) (p : Nat) (s : PrimSt)
    (hF : FoldInv I a p 0 s) (k : Nat) (hk : k ≤ I.n) :
    FoldInv I a p k ((List.range k).foldl (primRelax I.w p) s) := by
  induction k with
  | zero => exact hF
  | succ k ih =>
    rw [List.range_succ, List.foldl_append, List.foldl_cons, List.foldl_nil]
    exact foldInv_step I a p k _ (by omega) (ih (by omega))

/-! ### the simulation relation -/

/-- the executable state `s` realises the abstract state `a` on the nodes `< I.n`, has a well
formed min-heap of capacity `I.n`, and has left everything else of `f` untouched. -/
structure Sim (I : PrimInst) (f : Forest) (s : PrimSt) (a : PState) : Prop where
  hinv : Heap.Inv s.h
  hsize : s.h.size = I.n
  hmin : s.h.isMax = false
  same : Same f s.f
  col : ∀ x, x < I.n → s.h.colorOf x = a.color x
  cost : ∀ x, x < I.n → s.h.costOf x = a.cost x
  pred : ∀ x, x < I.n → s.f.predOf x = a.pred x
  proto : ∀ x, x < I.n → s.f.isProto x = a.proto x
  predhi : ∀ x, I.n ≤ x → s.f.predOf x = none
  protohi : ∀ x, I.n ≤ x → s.f.isProto x = false

theorem primStep_none {w : Nat → Nat → Int} {n : Nat} {s : PrimSt} (h : s.h.cnt = 0) :
    primStep w n s = none := by
  unfold primStep; rw [Heap.remove_empty _ h]

theorem primStep_some {w : Nat → Nat → Int} {n : Nat} {s : PrimSt} {h1 : Heap} {p : Nat}
    (h : s.h.remove = (h1, some p)) :
    primStep w n s = some ((List.range n).foldl (primRelax w p)
      { h := h1,
        f := primFlag { s.f with ncost := s.f.ncost.setIfInBounds p (h1.costOf p) } p }) := by
  unfold primStep; rw [h]

/-- one iteration of the loop on a non-empty heap is a lawful step. -/
theorem step_sim (I : PrimInst) (f : Forest) (hs : f.Sized) (hn : I.n ≤ f.n)
    (hlam : I.lam = f.labelOf) (s : PrimSt) (a : PState) (hA : I.Inv a) (hsim : Sim I f s a)
    (hne : 0 < s.h.cnt) :
    ∃ p s', primStep I.w I.n s = some s' ∧ I.pickOk a p = true ∧ Sim I f s' (I.fire a p) := by
  obtain ⟨x, hx2, hq, hbest, hinv1, hblack, hcol1, hcost1, _⟩ :=
    Heap.remove_spec s.h hsim.hinv hne
  have hrem : s.h.remove = (s.h.remove.1, some x) := Prod.ext rfl hx2
  have hxn : x < I.n := by rw [← hsim.hsize]; exact hq.1
  have hxg : a.color x = GRAY := by rw [← hsim.col x hxn]; exact hq.2
  -- the pick is accepted
  have hpick : I.pickOk a x = true := by
    unfold PrimInst.pickOk
    simp only [Bool.and_eq_true, decide_eq_true_eq, List.all_eq_true, List.mem_range,
      Bool.or_eq_true, Bool.not_eq_true', decide_eq_false_iff_not]
    refine ⟨⟨hxn, hxg⟩, fun q hqn => ?_⟩
    by_cases hqg : a.color q = GRAY
    · right
      have hb := hbest q ⟨by rw [hsim.hsize]; exact hqn, by rw [hsim.col q hqn]; exact hqg⟩
      rw [hsim.hmin] at hb
      have := le_of_better_min hb
      rwa [hsim.cost x hxn, hsim.cost q hqn] at this
    · left; exact hqg
  -- sizes
  have hpsz : s.f.proto.size = f.n := by rw [hsim.same.sproto, hs.size_proto]
  have hdsz : s.f.pred.size = f.n := by rw [hsim.same.spred, hs.size_pred]
  -- the forest after `ncost[p] := …` and flagging
  let f1 : Forest := { s.f with ncost := s.f.ncost.setIfInBounds x ((s.h.remove).1.costOf x) }
  have hf1 : Same s.f f1 := same_setNcost _ _ _
  have hsameg : Same f (primFlag f1 x) := (hsim.same.trans hf1).trans (primFlag_same f1 x)
  have hpredg : ∀ q, (primFlag f1 x).predOf q = s.f.predOf q := fun q => primFlag_predOf f1 x q
  have hprx : ∀ r, a.pred x = some r → r < I.n := fun r hr =>
    hA.hlt r (hA.hdom x r hr).2
  have hprotog : ∀ q, (q < I.n → (primFlag f1 x).isProto q = (I.fire a x).proto q) ∧
      (I.n ≤ q → (primFlag f1 x).isProto q = false) := by
    intro q
    have hf1pred : f1.predOf x = a.pred x := hsim.pred x hxn
    have hlab : ∀ y, f1.labelOf y = I.lam y := fun y => by
      rw [hlam]; exact hsim.same.labelOf y
    have hiso : ∀ y, f1.isProto y = s.f.isProto y := fun _ => rfl
    have hkey := primFlag_isProto f1 x q (by show x < s.f.proto.size; omega)
      (fun r hr => by
        show r < s.f.proto.size
        have := hprx r (hf1pred ▸ hr); omega)
    rw [hkey, hf1pred]
    cases hpx : a.pred x with
    | none =>
      simp only [PrimInst.fire, hpx]
      exact ⟨fun hq => by rw [hiso, hsim.proto q hq], fun hq => by rw [hiso, hsim.protohi q hq]⟩
    | some r =>
      have hrn := hprx r hpx
      simp only [PrimInst.fire, hpx, hlab]
      constructor
      · intro hq
        by_cases hc : I.lam x ≠ I.lam r ∧ (q = x ∨ q = r)
        · rw [if_pos hc, if_pos hc]
        · rw [if_neg hc, if_neg hc, hiso, hsim.proto q hq]
      · intro hq
        rw [if_neg, hiso, hsim.protohi q hq]
        rintro ⟨_, h1 | h1⟩ <;> omega
  -- the relaxation fold
  have hF0 : FoldInv I a x 0 { h := (s.h.remove).1, f := primFlag f1 x } := by
    refine ⟨hinv1, by rw [← hsim.hsize]; exact Heap.remove_size s.h,
      by rw [← hsim.hmin]; exact remove_isMax s.h, ?_, ?_, ?_, ?_, ?_⟩
    · intro q hqn
      rw [if_neg (Nat.not_lt_zero q)]
      show (s.h.remove).1.colorOf q = _
      by_cases hqx : q = x
      · rw [if_pos hqx, hqx]; exact hblack
      · rw [if_neg hqx, hcol1 q hqx]; exact hsim.col q hqn
    · intro q hqn
      rw [if_neg (Nat.not_lt_zero q)]
      show (s.h.remove).1.costOf q = _
      rw [hcost1 q]; exact hsim.cost q hqn
    · intro q hqn
      rw [if_neg (Nat.not_lt_zero q)]
      show (primFlag f1 x).predOf q = _
      rw [hpredg q]; exact hsim.pred q hqn
    · intro q hqn
      show (primFlag f1 x).predOf q = _
      rw [hpredg q]; exact hsim.predhi q hqn
    · show I.n ≤ (primFlag f1 x).pred.size
      rw [primFlag_pred]
      show I.n ≤ s.f.pred.size
      omega
  have hF := foldInv_fold I a x _ hF0 I.n (Nat.le_refl _)
  refine ⟨x, _, primStep_some hrem, hpick, ?_⟩
  refine ⟨hF.hinv, hF.hsize, hF.hmin, hsameg.trans (fold_same I.w x (List.range I.n) { h := (s.h.remove).1, f := primFlag f1 x }), ?_, ?_, ?_, ?_,
    hF.predhi, ?_⟩
  · intro q hqn; rw [hF.col q hqn, if_pos hqn]
  · intro q hqn; rw [hF.cost q hqn, if_pos hqn]
  · intro q hqn; rw [hF.pred q hqn, if_pos hqn]
  · intro q hqn
    unfold Forest.isProto
    rw [fold_proto]
    exact (hprotog q).1 hqn
  · intro q hqn
    unfold Forest.isProto
    rw [fold_proto]
    exact (hprotog q).2 hqn

/-! ### replaying picks -/

theorem runPicks_snoc (I : PrimInst) (ps : List Nat) (s a : PState) (p : Nat)
    (h : I.runPicks s ps = some a) (hp : I.pickOk a p = true) :
    I.runPicks s (ps ++ [p]) = some (I.fire a p) := by
  induction ps generalizing s with
  | nil =>
    simp only [PrimInst.runPicks, Option.some.injEq] at h
    subst h
    simp only [List.nil_append, PrimInst.runPicks, hp, if_true]
  | cons q ps ih =>
    simp only [PrimInst.runPicks] at h
    by_cases hq : I.pickOk s q = true
    · rw [if_pos hq] at h
      simp only [List.cons_append, PrimInst.runPicks]
      rw [if_pos hq]
      exact ih _ h
    · rw [if_neg hq] at h
      exact absurd h (by simp)

theorem runPicks_order (I : PrimInst) (ps : List Nat) (s a : PState)
    (h : I.runPicks s ps = some a) : a.order = s.order ++ ps := by
  induction ps generalizing s with
  | nil =>
    simp only [PrimInst.runPicks, Option.some.injEq] at h
    subst h
    rw [List.append_nil]
  | cons q ps ih =>
    simp only [PrimInst.runPicks] at h
    by_cases hq : I.pickOk s q = true
    · rw [if_pos hq] at h
      rw [ih _ h, I.fire_order, List.append_assoc]; rfl
    · rw [if_neg hq] at h
      exact absurd h (by simp)

theorem nodup_length_le (l : List Nat) (n : Nat) (hnd : l.Nodup) (hlt : ∀ x, x ∈ l → x < n) :
    l.length ≤ n := by
  have h1 : l.toFinset.card = l.length := List.toFinset_card_of_nodup hnd
  have h2 : l.toFinset ⊆ Finset.range n := by
    intro x hx
    rw [List.mem_toFinset] at hx
    exact Finset.mem_range.2 (hlt x hx)
  have h3 := Finset.card_le_card h2
  rw [Finset.card_range] at h3
  omega

/-! ### the loop -/

theorem primLoop_zero (w : Nat → Nat → Int) (n : Nat) (s : PrimSt) : primLoop w n 0 s = s := rfl

theorem primLoop_none {w : Nat → Nat → Int} {n : Nat} {s : PrimSt} (fuel : Nat)
    (h : primStep w n s = none) : primLoop w n (fuel + 1) s = s := by
  simp only [primLoop, h]

theorem primLoop_some {w : Nat → Nat → Int} {n : Nat} {s s' : PrimSt} (fuel : Nat)
    (h : primStep w n s = some s') : primLoop w n (fuel + 1) s = primLoop w n fuel s' := by
  simp only [primLoop, h]

theorem loop_sim (I : PrimInst) (f : Forest) (hg : I.Good) (hs : f.Sized) (hn : I.n ≤ f.n)
    (hlam : I.lam = f.labelOf) (fuel : Nat) :
    ∀ (s : PrimSt) (a : PState) (picks : List Nat),
      I.runPicks I.init picks = some a → Sim I f s a → I.n + 1 ≤ picks.length + fuel →
      ∃ picks' a', I.runPicks I.init picks' = some a' ∧ I.isFinal a' = true ∧
        (primLoop I.w I.n fuel s).h.isEmpty = true ∧ Sim I f (primLoop I.w I.n fuel s) a' := by
  induction fuel with
  | zero =>
    intro s a picks hrun _ hfuel
    exfalso
    have hA : I.Inv a := I.inv_of_reach hg (I.runPicks_reach I.init PrimInst.Reach.init picks a hrun)
    have hord := runPicks_order I picks _ a hrun
    have hlen := nodup_length_le a.order I.n hA.hnd hA.hlt
    rw [hord] at hlen
    simp only [PrimInst.init, List.nil_append] at hlen
    omega
  | succ fuel ih =>
    intro s a picks hrun hsim hfuel
    have hA : I.Inv a := I.inv_of_reach hg (I.runPicks_reach I.init PrimInst.Reach.init picks a hrun)
    by_cases hc : s.h.cnt = 0
    · rw [primLoop_none fuel (primStep_none hc)]
      have hemp : s.h.isEmpty = true := by unfold Heap.isEmpty; rw [hc]; rfl
      refine ⟨picks, a, hrun, ?_, hemp, hsim⟩
      have hnq := (Heap.truthful s.h hsim.hinv).1.1 hemp
      unfold PrimInst.isFinal
      simp only [List.all_eq_true, List.mem_range, Bool.not_eq_true', decide_eq_false_iff_not]
      intro q hq hqg
      exact hnq q ⟨by rw [hsim.hsize]; exact hq, by rw [hsim.col q hq]; exact hqg⟩
    · obtain ⟨p, s', hstep, hpick, hsim'⟩ :=
        step_sim I f hs hn hlam s a hA hsim (Nat.pos_of_ne_zero hc)
      rw [primLoop_some fuel hstep]
      exact ih s' (I.fire a p) (picks ++ [p]) (runPicks_snoc I picks _ a p hrun hpick) hsim'
        (by rw [List.length_append, List.length_singleton]; omega)

/-! ### the initial state and the run -/

theorem init_sim (I : PrimInst) (f : Forest) (hg : I.Good)
    (hfresh : ∀ x, f.predOf x = none ∧ f.isProto x = false) :
    Sim I f { h := ((Heap.init I.n false I.top).insert 0).1,
              f := { f with pred := f.pred.setIfInBounds 0 none } } I.init := by
  have hi := Heap.inv_init I.n false I.top
  obtain ⟨_, i1, g0, g1, c1, _⟩ := Heap.insert_spec (Heap.init I.n false I.top) 0 hi hg.n_pos
    (Heap.init_colorOf _ _ _ 0)
  refine ⟨i1, Heap.insert_size _ _, insert_isMax _ _, same_setPred f 0 none, ?_, ?_, ?_, ?_, ?_, ?_⟩
  · intro x hx
    show ((Heap.init I.n false I.top).insert 0).1.colorOf x = _
    simp only [PrimInst.init]
    by_cases hx0 : x = 0
    · rw [if_pos ⟨hx0, hg.n_pos⟩, hx0]; exact g0
    · rw [if_neg (fun h => hx0 h.1), g1 x hx0]; exact Heap.init_colorOf _ _ _ x
  · intro x hx
    show ((Heap.init I.n false I.top).insert 0).1.costOf x = _
    rw [c1 x]; exact init_costOf _ _ _ x hx
  · intro x _
    rw [predOf_setPred]
    split
    · rfl
    · exact (hfresh x).1
  · intro x _; exact (hfresh x).2
  · intro x _
    rw [predOf_setPred]
    split
    · rfl
    · exact (hfresh x).1
  · intro x _; exact (hfresh x).2

end PrimExec

open PrimExec in
/-- `primRun` on a fresh forest is a lawful run of the relational Prim semantics (statement of
`c02_exec`, Props/C02Exec.lean). -/
theorem primRun_lawful (w : Nat → Nat → Int) (top : Int) (nLab : Nat) (f : Forest)
    (hs : f.Sized) (hn : nLab ≤ f.n)
    (hfresh : ∀ x, f.predOf x = none ∧ f.isProto x = false)
    (hg : (primInstOf w top nLab f).Good) :
    ∃ picks s', (primInstOf w top nLab f).runPicks (primInstOf w top nLab f).init picks = some s' ∧
      (primInstOf w top nLab f).isFinal s' = true ∧
      (primRun w top nLab f).h.isEmpty = true ∧
      (∀ x, x < nLab → (primRun w top nLab f).f.predOf x = s'.pred x ∧
                        (primRun w top nLab f).f.isProto x = s'.proto x) ∧
      (∀ x, nLab ≤ x → (primRun w top nLab f).f.predOf x = none ∧
                        (primRun w top nLab f).f.isProto x = false) ∧
      (primRun w top nLab f).f.label = f.label ∧ (primRun w top nLab f).f.plabel = f.plabel ∧
      (primRun w top nLab f).f.order = f.order ∧ (primRun w top nLab f).f.n = f.n ∧
      (primRun w top nLab f).f.Sized := by
  have h0 := init_sim (primInstOf w top nLab f) f hg hfresh
  obtain ⟨picks, a, hrun, hfin, hemp, hsim⟩ :=
    loop_sim (primInstOf w top nLab f) f hg hs hn rfl (nLab + 1) _ _ [] rfl h0
      (by show nLab + 1 ≤ 0 + (nLab + 1); omega)
  exact ⟨picks, a, hrun, hfin, hemp,
    fun x hx => ⟨hsim.pred x hx, hsim.proto x hx⟩,
    fun x hx => ⟨hsim.predhi x hx, hsim.protohi x hx⟩,
    hsim.same.label, hsim.same.plabel, hsim.same.order, hsim.same.n, hsim.same.sized hs⟩

end Opf
