/- soundness of the executable lawful-run acceptance test. -/
import OpfVerif.Model.Lawful
namespace Opf

namespace CompInst
theorem pickOk_step (I : CompInst) (s : AState) (p : Nat) (h : I.pickOk s p = true) :
    I.Step s (I.fire s p) := by
  unfold pickOk at h
  simp only [Bool.and_eq_true, decide_eq_true_eq, List.all_eq_true, List.mem_range,
    Bool.or_eq_true, Bool.not_eq_true', decide_eq_false_iff_not] at h
  obtain ⟨⟨hp, hg⟩, hall⟩ := h
  refine ⟨p, hp, hg, ?_, rfl⟩
  intro q hq hqg
  rcases hall q hq with h1 | h1
  · exact absurd hqg h1
  · exact h1

theorem runPicks_reach (I : CompInst) (pred0 : Nat → Option Nat) (lab0 : Nat → Nat)
    (s : AState) (hs : Reach I pred0 lab0 s) (ps : List Nat) (s' : AState)
    (h : I.runPicks s ps = some s') : Reach I pred0 lab0 s' := by
  induction ps generalizing s with
  | nil => simp [runPicks] at h; subst h; exact hs
  | cons p ps ih =>
    simp only [runPicks] at h
    split at h
    · rename_i hok
      exact ih _ (Reach.step hs (pickOk_step I s p hok)) h
    · exact absurd h (by simp)

theorem isFinal_final (I : CompInst) (s : AState) (h : I.isFinal s = true) : I.Final s := by
  unfold isFinal at h
  simp only [List.all_eq_true, List.mem_range, Bool.not_eq_true', decide_eq_false_iff_not] at h
  exact fun q hq => h q hq
end CompInst

namespace PrimInst
theorem pickOk_step (I : PrimInst) (s : PState) (p : Nat) (h : I.pickOk s p = true) :
    I.Step s (I.fire s p) := by
  unfold pickOk at h
  simp only [Bool.and_eq_true, decide_eq_true_eq, List.all_eq_true, List.mem_range,
    Bool.or_eq_true, Bool.not_eq_true', decide_eq_false_iff_not] at h
  obtain ⟨⟨hp, hg⟩, hall⟩ := h
  refine ⟨p, hp, hg, ?_, rfl⟩
  intro q hq hqg
  rcases hall q hq with h1 | h1
  · exact absurd hqg h1
  · exact h1

theorem runPicks_reach (I : PrimInst) (s : PState) (hs : Reach I s) (ps : List Nat) (s' : PState)
    (h : I.runPicks s ps = some s') : Reach I s' := by
  induction ps generalizing s with
  | nil => simp [runPicks] at h; subst h; exact hs
  | cons p ps ih =>
    simp only [runPicks] at h
    split at h
    · rename_i hok
      exact ih _ (Reach.step hs (pickOk_step I s p hok)) h
    · exact absurd h (by simp)

theorem isFinal_final (I : PrimInst) (s : PState) (h : I.isFinal s = true) : I.Final s := by
  unfold isFinal at h
  simp only [List.all_eq_true, List.mem_range, Bool.not_eq_true', decide_eq_false_iff_not] at h
  exact fun q hq => h q hq
end PrimInst

end Opf

namespace Opf

theorem tabOf_map_range {β : Type} (n : Nat) (f : Nat → β) : tabOf ((Array.range n).map f) f = f := by
  funext x
  show (if h : x < ((Array.range n).map f).size then ((Array.range n).map f)[x] else f x) = f x
  split
  · simp
  · rfl

namespace CompInst
theorem freeze_eq (n : Nat) (s : AState) : freeze n s = s := by
  cases s; simp [freeze, tabOf_map_range]

theorem runPicksF_eq (I : CompInst) (s : AState) (ps : List Nat) : I.runPicksF s ps = I.runPicks s ps := by
  induction ps generalizing s with
  | nil => rfl
  | cons p ps ih => simp only [runPicksF, runPicks, freeze_eq, ih]
end CompInst

namespace PrimInst
theorem freeze_eq (n : Nat) (s : PState) : freeze n s = s := by
  cases s; simp [freeze, tabOf_map_range]

theorem runPicksF_eq (I : PrimInst) (s : PState) (ps : List Nat) : I.runPicksF s ps = I.runPicks s ps := by
  induction ps generalizing s with
  | nil => rfl
  | cons p ps ih => simp only [runPicksF, runPicks, freeze_eq, ih]
end PrimInst

end Opf
