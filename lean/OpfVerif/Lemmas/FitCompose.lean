/-
Fit-level composition (C15, and C01/C02 for the executable supervised model): `fitRun` =
prototype selection (`primRun`) on the labeled prefix of a fresh forest, followed by the competition
(`competeRun`) over ALL samples.  The exec-refinement theorems `c02_exec` / `c01_exec` are chained:
the fresh forest satisfies the premises of `c02_exec`; its conclusion (sizes, empty order, unchanged
labels, prototypes = those of a lawful finished Prim run, none beyond `nLab`) together with
`c02_every_class` yields `(compInstOf …).Good`, the premise of `c01_exec`.  Section 4 shows by a
simulation that the `semi` flag can only influence the `label` field.
-/
import OpfVerif.Props.C01Exec
import OpfVerif.Props.C02Exec
namespace Opf

/-- hypotheses of a fit on `n = lab.size` samples of which the first `nLab` are labeled. -/
structure FitHyp (w : Nat → Nat → Int) (top : Int) (nLab : Nat) (lab : Array Nat) : Prop where
  nLab_pos : 0 < nLab
  nLab_le : nLab ≤ lab.size
  symm : ∀ p q, p < nLab → q < nLab → w p q = w q p
  w_nonneg : ∀ p q, p < lab.size → q < lab.size → 0 ≤ w p q
  w_lt_top : ∀ p q, p < lab.size → q < lab.size → w p q < top
  top_pos : 0 < top
  two_classes : ∃ a b, a < nLab ∧ b < nLab ∧ lab.getD a 0 ≠ lab.getD b 0

namespace FitCompose

/-! ### 1. the fresh forest -/

theorem init_n (lab : Array Nat) : (Forest.init lab).n = lab.size := rfl
theorem init_label (lab : Array Nat) : (Forest.init lab).label = lab := rfl
theorem init_order (lab : Array Nat) : (Forest.init lab).order = #[] := rfl
theorem init_labelOf (lab : Array Nat) (x : Nat) : (Forest.init lab).labelOf x = lab.getD x 0 := rfl

theorem init_sized (lab : Array Nat) : (Forest.init lab).Sized :=
  ⟨by simp [Forest.init], by simp [Forest.init], by simp [Forest.init], by simp [Forest.init],
   by simp [Forest.init]⟩

theorem init_fresh (lab : Array Nat) (x : Nat) :
    (Forest.init lab).predOf x = none ∧ (Forest.init lab).isProto x = false := by
  constructor
  · simp [Forest.init, Forest.predOf, Array.getD_eq_getD_getElem?, Array.getElem?_replicate]
    split <;> rfl
  · simp [Forest.init, Forest.isProto, Array.getD_eq_getD_getElem?, Array.getElem?_replicate]
    split <;> rfl

theorem prim_good {w : Nat → Nat → Int} {top : Int} {nLab : Nat} {lab : Array Nat}
    (H : FitHyp w top nLab lab) : (primInstOf w top nLab (Forest.init lab)).Good :=
  ⟨H.nLab_pos, H.symm,
   fun p q hp hq => H.w_lt_top p q (Nat.lt_of_lt_of_le hp H.nLab_le) (Nat.lt_of_lt_of_le hq H.nLab_le)⟩


/-! ### 1–2. prototype selection on the labeled prefix -/

/-- `c02_exec` on the fresh forest, with the accepted run turned into `Reach`/`Final`. -/
theorem prim_lawful {w : Nat → Nat → Int} {top : Int} {nLab : Nat} {lab : Array Nat}
    (H : FitHyp w top nLab lab) :
    ∃ s', (primInstOf w top nLab (Forest.init lab)).Reach s' ∧
      (primInstOf w top nLab (Forest.init lab)).Final s' ∧
      (primRun w top nLab (Forest.init lab)).h.isEmpty = true ∧
      (∀ x, x < nLab → (primRun w top nLab (Forest.init lab)).f.predOf x = s'.pred x ∧
                        (primRun w top nLab (Forest.init lab)).f.isProto x = s'.proto x) ∧
      (∀ x, nLab ≤ x → (primRun w top nLab (Forest.init lab)).f.predOf x = none ∧
                        (primRun w top nLab (Forest.init lab)).f.isProto x = false) ∧
      (primRun w top nLab (Forest.init lab)).f.label = lab ∧
      (primRun w top nLab (Forest.init lab)).f.plabel = (Forest.init lab).plabel ∧
      (primRun w top nLab (Forest.init lab)).f.order = #[] ∧
      (primRun w top nLab (Forest.init lab)).f.n = lab.size ∧
      (primRun w top nLab (Forest.init lab)).f.Sized := by
  obtain ⟨picks, s', hrun, hfin, hemp, hlab, hunl, hl, hpl, ho, hn, hsz⟩ :=
    c02_exec w top nLab (Forest.init lab) (init_sized lab) H.nLab_le (init_fresh lab) (prim_good H)
  exact ⟨s', PrimInst.runPicks_reach _ _ PrimInst.Reach.init picks s' hrun,
    PrimInst.isFinal_final _ s' hfin, hemp, hlab, hunl, hl, hpl, ho, hn, hsz⟩

/-- at least one prototype, and it is a labeled sample. -/
theorem prim_has_proto {w : Nat → Nat → Int} {top : Int} {nLab : Nat} {lab : Array Nat}
    (H : FitHyp w top nLab lab) :
    ∃ p, p < nLab ∧ (primRun w top nLab (Forest.init lab)).f.isProto p = true := by
  obtain ⟨s', hr, hf, _, hlab, _⟩ := prim_lawful H
  obtain ⟨a, b, ha, hb, hab⟩ := H.two_classes
  obtain ⟨p, hp, hpp, _⟩ := PrimInst.c02_every_class (primInstOf w top nLab (Forest.init lab))
    (prim_good H) s' hr hf ⟨a, b, ha, hb, hab⟩ a ha
  exact ⟨p, hp, by rw [(hlab p hp).2]; exact hpp⟩

/-- every class present among the labeled samples contributes a prototype. -/
theorem prim_every_class {w : Nat → Nat → Int} {top : Int} {nLab : Nat} {lab : Array Nat}
    (H : FitHyp w top nLab lab) (a : Nat) (ha : a < nLab) :
    ∃ p, p < nLab ∧ (primRun w top nLab (Forest.init lab)).f.isProto p = true ∧
      lab.getD p 0 = lab.getD a 0 := by
  obtain ⟨s', hr, hf, _, hlab, _⟩ := prim_lawful H
  obtain ⟨a', b', ha', hb', hab⟩ := H.two_classes
  obtain ⟨p, hp, hpp, hl⟩ := PrimInst.c02_every_class (primInstOf w top nLab (Forest.init lab))
    (prim_good H) s' hr hf ⟨a', b', ha', hb', hab⟩ a ha
  exact ⟨p, hp, by rw [(hlab p hp).2]; exact hpp, hl⟩

/-- no prototype among the unlabeled samples. -/
theorem prim_proto_labeled {w : Nat → Nat → Int} {top : Int} {nLab : Nat} {lab : Array Nat}
    (H : FitHyp w top nLab lab) (x : Nat)
    (hx : (primRun w top nLab (Forest.init lab)).f.isProto x = true) : x < nLab := by
  obtain ⟨s', _, _, _, _, hunl, _⟩ := prim_lawful H
  apply Classical.byContradiction
  intro hge
  have := (hunl x (by omega)).2
  rw [this] at hx; cases hx

/-- a labeled sample is a prototype exactly when it is an endpoint of an arc of the spanning tree
recorded in `pred` that joins samples of different classes. -/
theorem prim_prototypes_iff {w : Nat → Nat → Int} {top : Int} {nLab : Nat} {lab : Array Nat}
    (H : FitHyp w top nLab lab) (v : Nat) (hv : v < nLab) :
    (primRun w top nLab (Forest.init lab)).f.isProto v = true ↔
      ∃ u, u < nLab ∧
        ((primRun w top nLab (Forest.init lab)).f.predOf v = some u ∨
         (primRun w top nLab (Forest.init lab)).f.predOf u = some v) ∧
        lab.getD u 0 ≠ lab.getD v 0 := by
  obtain ⟨s', hr, hf, _, hlab, _⟩ := prim_lawful H
  have := PrimInst.c02_prototypes (primInstOf w top nLab (Forest.init lab)) (prim_good H) s' hr hf v hv
  rw [(hlab v hv).2, this]
  constructor
  · rintro ⟨u, hu, harc, hne⟩
    refine ⟨u, hu, ?_, hne⟩
    rw [(hlab v hv).1, (hlab u hu).1]; exact harc
  · rintro ⟨u, hu, harc, hne⟩
    refine ⟨u, hu, ?_, hne⟩
    rw [(hlab v hv).1, (hlab u hu).1] at harc; exact harc

theorem prim_labelOf {w : Nat → Nat → Int} {top : Int} {nLab : Nat} {lab : Array Nat}
    (H : FitHyp w top nLab lab) (x : Nat) :
    (primRun w top nLab (Forest.init lab)).f.labelOf x = lab.getD x 0 := by
  obtain ⟨s', _, _, _, _, _, hl, _⟩ := prim_lawful H
  unfold Forest.labelOf; rw [hl]

theorem comp_good {w : Nat → Nat → Int} {top : Int} {nLab : Nat} {lab : Array Nat}
    (H : FitHyp w top nLab lab) :
    (compInstOf w top (primRun w top nLab (Forest.init lab)).f).Good := by
  obtain ⟨s', _, _, _, _, _, _, _, _, hn, _⟩ := prim_lawful H
  obtain ⟨p, hp, hpp⟩ := prim_has_proto H
  refine ⟨H.top_pos, ?_, ?_, ⟨p, ?_, hpp⟩⟩
  · intro a b ha hb
    exact H.w_nonneg a b (by simpa [compInstOf, hn] using ha) (by simpa [compInstOf, hn] using hb)
  · intro a b ha hb
    exact H.w_lt_top a b (by simpa [compInstOf, hn] using ha) (by simpa [compInstOf, hn] using hb)
  · show p < (primRun w top nLab (Forest.init lab)).f.n
    rw [hn]; exact Nat.lt_of_lt_of_le hp H.nLab_le


/-! ### 3. the competition on the forest left by prototype selection -/

/-- the forest handed from prototype selection to the competition. -/
abbrev fitPrim (w : Nat → Nat → Int) (top : Int) (nLab : Nat) (lab : Array Nat) : Forest :=
  (primRun w top nLab (Forest.init lab)).f

/-- the competition instance of a fit: all `lab.size` samples, seeds = the prototypes flagged on the
labeled prefix, seed labels = true labels. -/
abbrev fitInst (w : Nat → Nat → Int) (top : Int) (nLab : Nat) (lab : Array Nat) : CompInst :=
  compInstOf w top (fitPrim w top nLab lab)

theorem fitRun_eq (w : Nat → Nat → Int) (top : Int) (semi : Bool) (nLab : Nat) (lab : Array Nat) :
    fitRun w top semi nLab lab = competeRun w top semi (fitPrim w top nLab lab) := rfl

theorem fitInst_n {w : Nat → Nat → Int} {top : Int} {nLab : Nat} {lab : Array Nat}
    (H : FitHyp w top nLab lab) : (fitInst w top nLab lab).n = lab.size := by
  obtain ⟨s', _, _, _, _, _, _, _, _, hn, _⟩ := prim_lawful H
  exact hn

theorem fitPrim_n {w : Nat → Nat → Int} {top : Int} {nLab : Nat} {lab : Array Nat}
    (H : FitHyp w top nLab lab) : (fitPrim w top nLab lab).n = lab.size := fitInst_n H

theorem fitPrim_sized {w : Nat → Nat → Int} {top : Int} {nLab : Nat} {lab : Array Nat}
    (H : FitHyp w top nLab lab) : (fitPrim w top nLab lab).Sized := by
  obtain ⟨s', _, _, _, _, _, _, _, _, _, hs⟩ := prim_lawful H
  exact hs

theorem fitPrim_order {w : Nat → Nat → Int} {top : Int} {nLab : Nat} {lab : Array Nat}
    (H : FitHyp w top nLab lab) : (fitPrim w top nLab lab).order = #[] := by
  obtain ⟨s', _, _, _, _, _, _, _, ho, _, _⟩ := prim_lawful H
  exact ho

/-- `c01_exec` for the composed fit, with the accepted run turned into `Reach`/`Final`. -/
theorem fit_lawful {w : Nat → Nat → Int} {top : Int} {nLab : Nat} {lab : Array Nat}
    (H : FitHyp w top nLab lab) (semi : Bool) :
    ∃ s', (fitInst w top nLab lab).Reach (fitPrim w top nLab lab).predOf
            (fitPrim w top nLab lab).plabelOf s' ∧
      (fitInst w top nLab lab).Final s' ∧
      (fitRun w top semi nLab lab).h.isEmpty = true ∧
      (fitRun w top semi nLab lab).f.order.toList = s'.order ∧
      (∀ x, x < lab.size → (fitRun w top semi nLab lab).f.costOf x = s'.cost x ∧
                            (fitRun w top semi nLab lab).f.predOf x = s'.pred x ∧
                            (fitRun w top semi nLab lab).f.plabelOf x = s'.lab x) ∧
      (fitRun w top semi nLab lab).f.proto = (fitPrim w top nLab lab).proto ∧
      (fitRun w top semi nLab lab).f.n = lab.size := by
  obtain ⟨s', hrun, hfin, hemp, hord, hfields, hproto, hn⟩ :=
    c01_exec w top semi (fitPrim w top nLab lab) (fitPrim_sized H) (fitPrim_order H) (comp_good H)
  refine ⟨s', CompInst.runPicks_reach _ _ _ _ CompInst.Reach.init _ s' hrun,
    CompInst.isFinal_final _ s' hfin, hemp, hord, ?_, hproto, ?_⟩
  · intro x hx
    exact hfields x (by rw [fitPrim_n H]; exact hx)
  · rw [fitRun_eq, hn, fitPrim_n H]

theorem fit_cost_optimal {w : Nat → Nat → Int} {top : Int} {nLab : Nat} {lab : Array Nat}
    (H : FitHyp w top nLab lab) (semi : Bool) (t : Nat) (ht : t < lab.size) :
    (fitInst w top nLab lab).PathCost t ((fitRun w top semi nLab lab).f.costOf t) ∧
    ∀ c, (fitInst w top nLab lab).PathCost t c → (fitRun w top semi nLab lab).f.costOf t ≤ c :=
  c01_exec_cost_optimal w top semi (fitPrim w top nLab lab) (fitPrim_sized H) (fitPrim_order H)
    (comp_good H) t (by rw [fitPrim_n H]; exact ht)

theorem fit_order {w : Nat → Nat → Int} {top : Int} {nLab : Nat} {lab : Array Nat}
    (H : FitHyp w top nLab lab) (semi : Bool) :
    (fitRun w top semi nLab lab).f.order.toList.Nodup ∧
    (∀ t, t ∈ (fitRun w top semi nLab lab).f.order.toList ↔ t < lab.size) ∧
    (fitRun w top semi nLab lab).f.order.size = lab.size ∧
    (fitRun w top semi nLab lab).f.order.toList.Pairwise
      (fun a b => (fitRun w top semi nLab lab).f.costOf a ≤ (fitRun w top semi nLab lab).f.costOf b) := by
  obtain ⟨hnd, hmem, hsorted⟩ := c01_exec_order w top semi (fitPrim w top nLab lab)
    (fitPrim_sized H) (fitPrim_order H) (comp_good H)
  rw [fitPrim_n H] at hmem
  obtain ⟨s', hr, hf, _, hord, _⟩ := fit_lawful H semi
  obtain ⟨_, _, hlen, _⟩ := CompInst.c01_order _ _ _ (comp_good H) s' hr hf
  refine ⟨hnd, hmem, ?_, hsorted⟩
  rw [← Array.length_toList, hord, hlen, fitInst_n H]

/-- the predecessor of a conquered node is a node. -/
theorem final_pred_lt (I : CompInst) (pred0 : Nat → Option Nat) (lab0 : Nat → Nat) (hg : I.Good)
    (s : AState) (hr : I.Reach pred0 lab0 s) (hf : I.Final s) (t p : Nat) (ht : t < I.n)
    (hp : s.pred t = some p) : p < I.n := by
  cases hseed : I.seed t with
  | true =>
    have := (CompInst.c01_seeds I pred0 lab0 hg s hr t ht hseed).2.1
    rw [this] at hp; cases hp
  | false =>
    obtain ⟨p', hp', hlt, _⟩ := CompInst.c01_link I pred0 lab0 hg s hr hf t ht hseed
    rw [hp'] at hp; cases hp; exact hlt

/-- a `Chain` of the final abstract state is an ancestor chain of the recorded forest. -/
theorem chain_anc (I : CompInst) (pred0 : Nat → Option Nat) (lab0 : Nat → Nat) (hg : I.Good)
    (s : AState) (hr : I.Reach pred0 lab0 s) (hf : I.Final s) (f : Forest)
    (hfields : ∀ x, x < I.n → f.predOf x = s.pred x) (r t : Nat) (hc : CompInst.Chain s r t)
    (ht : t < I.n) : Anc f r t := by
  induction hc with
  | refl => exact Anc.refl
  | step hp _ ih =>
    have hlt := final_pred_lt I pred0 lab0 hg s hr hf _ _ ht hp
    exact Anc.step (by rw [hfields _ ht]; exact hp) (ih hlt)

theorem fit_forest {w : Nat → Nat → Int} {top : Int} {nLab : Nat} {lab : Array Nat}
    (H : FitHyp w top nLab lab) (semi : Bool) (t : Nat) (ht : t < lab.size) :
    ∃ r, r < nLab ∧ (fitPrim w top nLab lab).isProto r = true ∧
      Anc (fitRun w top semi nLab lab).f r t ∧
      (fitRun w top semi nLab lab).f.plabelOf t = lab.getD r 0 := by
  obtain ⟨s', hr, hf, _, _, hfields, _, _⟩ := fit_lawful H semi
  have hn := fitInst_n H
  obtain ⟨r, _, hseed, hchain, hlab⟩ :=
    CompInst.c01_forest _ _ _ (comp_good H) s' hr hf t (by rw [hn]; exact ht)
  refine ⟨r, prim_proto_labeled H r hseed, hseed, ?_, ?_⟩
  · exact chain_anc _ _ _ (comp_good H) s' hr hf _
      (fun x hx => (hfields x (by rw [← hn]; exact hx)).2.1) r t hchain (by rw [hn]; exact ht)
  · rw [(hfields t ht).2.2, hlab]
    exact prim_labelOf H r

theorem fit_seeds {w : Nat → Nat → Int} {top : Int} {nLab : Nat} {lab : Array Nat}
    (H : FitHyp w top nLab lab) (semi : Bool) (r : Nat)
    (hp : (fitPrim w top nLab lab).isProto r = true) :
    r < nLab ∧ (fitRun w top semi nLab lab).f.isProto r = true ∧
    (fitRun w top semi nLab lab).f.costOf r = 0 ∧
    (fitRun w top semi nLab lab).f.predOf r = none ∧
    (fitRun w top semi nLab lab).f.plabelOf r = lab.getD r 0 := by
  obtain ⟨s', hr, hf, _, _, hfields, hproto, _⟩ := fit_lawful H semi
  have hn := fitInst_n H
  have hrl := prim_proto_labeled H r hp
  have hrn : r < lab.size := Nat.lt_of_lt_of_le hrl H.nLab_le
  obtain ⟨hc, hpr, hl⟩ := CompInst.c01_seeds _ _ _ (comp_good H) s' hr r (by rw [hn]; exact hrn) hp
  refine ⟨hrl, ?_, ?_, ?_, ?_⟩
  · unfold Forest.isProto; rw [hproto]; exact hp
  · rw [(hfields r hrn).1, hc]
  · rw [(hfields r hrn).2.1, hpr]
  · rw [(hfields r hrn).2.2, hl]; exact prim_labelOf H r

theorem fit_link {w : Nat → Nat → Int} {top : Int} {nLab : Nat} {lab : Array Nat}
    (H : FitHyp w top nLab lab) (semi : Bool) (t : Nat) (ht : t < lab.size)
    (hnp : (fitPrim w top nLab lab).isProto t = false) :
    ∃ p, (fitRun w top semi nLab lab).f.predOf t = some p ∧ p < lab.size ∧ p ≠ t ∧
      (fitRun w top semi nLab lab).f.costOf t =
        max ((fitRun w top semi nLab lab).f.costOf p) (w p t) ∧
      (fitRun w top semi nLab lab).f.plabelOf t = (fitRun w top semi nLab lab).f.plabelOf p ∧
      (fitRun w top semi nLab lab).f.order.toList.idxOf p <
        (fitRun w top semi nLab lab).f.order.toList.idxOf t := by
  obtain ⟨s', hr, hf, _, hord, hfields, _, _⟩ := fit_lawful H semi
  have hn := fitInst_n H
  obtain ⟨p, hp, hpn, hne, hcost, hlab, hidx⟩ :=
    CompInst.c01_link _ _ _ (comp_good H) s' hr hf t (by rw [hn]; exact ht) hnp
  rw [hn] at hpn
  refine ⟨p, ?_, hpn, hne, ?_, ?_, ?_⟩
  · rw [(hfields t ht).2.1, hp]
  · rw [(hfields t ht).1, (hfields p hpn).1, hcost]; rfl
  · rw [(hfields t ht).2.2, (hfields p hpn).2.2, hlab]
  · rw [hord]; exact hidx


/-! ### 4. the `semi` flag only affects the `label` field -/

/-- two forests agree on every field except (possibly) `label`. -/
structure EqExceptLabel (f g : Forest) : Prop where
  n : f.n = g.n
  pred : f.pred = g.pred
  proto : f.proto = g.proto
  ncost : f.ncost = g.ncost
  plabel : f.plabel = g.plabel
  order : f.order = g.order
  relevant : f.relevant = g.relevant

theorem EqExceptLabel.refl (f : Forest) : EqExceptLabel f f := ⟨rfl, rfl, rfl, rfl, rfl, rfl, rfl⟩

/-- competition states with the same heap and forests equal except for `label`. -/
def SimSt (s t : CompSt) : Prop := s.h = t.h ∧ EqExceptLabel s.f t.f

theorem compRelax_sim (w : Nat → Nat → Int) (a b : Bool) (p : Nat) (s t : CompSt) (q : Nat)
    (h : SimSt s t) : SimSt (compRelax w a p s q) (compRelax w b p t q) := by
  obtain ⟨hs, fs⟩ := s
  obtain ⟨ht, ft⟩ := t
  obtain ⟨hh, ⟨h1, h2, h3, h4, h5, h6, h7⟩⟩ := h
  dsimp only at hh h1 h2 h3 h4 h5 h6 h7
  subst hh
  unfold compRelax
  dsimp only
  split
  · refine ⟨rfl, ⟨h1, ?_, h3, h4, ?_, h6, h7⟩⟩
    · dsimp only; rw [h2]
    · dsimp only [Forest.plabelOf]; rw [h5]
  · exact ⟨rfl, ⟨h1, h2, h3, h4, h5, h6, h7⟩⟩

theorem compRelax_fold_sim (w : Nat → Nat → Int) (a b : Bool) (p : Nat) (l : List Nat) :
    ∀ s t, SimSt s t → SimSt (l.foldl (compRelax w a p) s) (l.foldl (compRelax w b p) t) := by
  induction l with
  | nil => intro s t h; exact h
  | cons q l ih => intro s t h; exact ih _ _ (compRelax_sim w a b p s t q h)

/-- `Option` lifting of `SimSt`. -/
def SimOpt : Option CompSt → Option CompSt → Prop
  | none, none => True
  | some s, some t => SimSt s t
  | _, _ => False

theorem compStep_sim (w : Nat → Nat → Int) (a b : Bool) (n : Nat) (s t : CompSt) (h : SimSt s t) :
    SimOpt (compStep w a n s) (compStep w b n t) := by
  obtain ⟨hh, ⟨h1, h2, h3, h4, h5, h6, h7⟩⟩ := h
  unfold compStep
  rw [← hh]
  rcases hrem : s.h.remove with ⟨h1', _ | p⟩
  · exact trivial
  · dsimp only
    apply compRelax_fold_sim
    refine ⟨rfl, ⟨h1, h2, h3, ?_, h5, ?_, h7⟩⟩
    · dsimp only; rw [h4]
    · dsimp only; rw [h6]

theorem compLoop_sim (w : Nat → Nat → Int) (a b : Bool) (n : Nat) (fuel : Nat) :
    ∀ s t, SimSt s t → SimSt (compLoop w a n fuel s) (compLoop w b n fuel t) := by
  induction fuel with
  | zero => intro s t h; exact h
  | succ fuel ih =>
    intro s t h
    have hstep := compStep_sim w a b n s t h
    unfold compLoop
    rcases hs : compStep w a n s with _ | s' <;> rcases ht : compStep w b n t with _ | t' <;>
      rw [hs, ht] at hstep
    · exact h
    · exact hstep.elim
    · exact hstep.elim
    · exact ih s' t' hstep

theorem competeRun_sim (w : Nat → Nat → Int) (top : Int) (a b : Bool) (f : Forest) :
    SimSt (competeRun w top a f) (competeRun w top b f) := by
  unfold competeRun
  exact compLoop_sim w a b f.n (f.n + 1) _ _ ⟨rfl, EqExceptLabel.refl _⟩

/-- the forests produced with and without the true-label overwrite differ at most in `label`. -/
theorem fitRun_semi_irrelevant (w : Nat → Nat → Int) (top : Int) (nLab : Nat) (lab : Array Nat) :
    (fitRun w top true nLab lab).h = (fitRun w top false nLab lab).h ∧
    EqExceptLabel (fitRun w top true nLab lab).f (fitRun w top false nLab lab).f :=
  competeRun_sim w top true false _


/-! ### the supervised competition never writes `label` -/

theorem compRelax_false_label (w : Nat → Nat → Int) (p : Nat) (s : CompSt) (q : Nat) :
    (compRelax w false p s q).f.label = s.f.label := by
  unfold compRelax
  split
  · rfl
  · rfl

theorem compRelax_false_fold_label (w : Nat → Nat → Int) (p : Nat) (l : List Nat) :
    ∀ s, (l.foldl (compRelax w false p) s).f.label = s.f.label := by
  induction l with
  | nil => intro s; rfl
  | cons q l ih => intro s; rw [List.foldl_cons, ih, compRelax_false_label]

theorem compLoop_false_label (w : Nat → Nat → Int) (n : Nat) (fuel : Nat) :
    ∀ s, (compLoop w false n fuel s).f.label = s.f.label := by
  induction fuel with
  | zero => intro s; rfl
  | succ fuel ih =>
    intro s
    unfold compLoop
    rcases hs : compStep w false n s with _ | s'
    · rfl
    · dsimp only
      rw [ih]
      unfold compStep at hs
      rcases hrem : s.h.remove with ⟨h1, _ | p⟩
      · rw [hrem] at hs; cases hs
      · rw [hrem] at hs
        dsimp only at hs
        cases hs
        rw [compRelax_false_fold_label]

theorem compInit_label (top : Int) (s : CompSt) (i : Nat) : (compInit top s i).f.label = s.f.label := by
  unfold compInit
  split <;> rfl

theorem compInit_fold_label (top : Int) (l : List Nat) :
    ∀ s, (l.foldl (compInit top) s).f.label = s.f.label := by
  induction l with
  | nil => intro s; rfl
  | cons q l ih => intro s; rw [List.foldl_cons, ih, compInit_label]

theorem competeRun_false_label (w : Nat → Nat → Int) (top : Int) (f : Forest) :
    (competeRun w top false f).f.label = f.label := by
  unfold competeRun
  dsimp only
  rw [compLoop_false_label, compInit_fold_label]

end FitCompose
end Opf
