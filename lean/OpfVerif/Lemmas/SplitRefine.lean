/-
Refinement of the translated `split`, `split_with_index`, `merge` (`Gen/SplitImp.lean`, regenerated
from `opfython/stream/splitter.py` on every run by `tools/translate_np.py`) to the models
`splitIdx` / `gather` / `mergeRun` of `Model/Stream.lean` about which `Props/C18.lean` speaks.
-/
import OpfVerif.Gen.SplitImp
import OpfVerif.Model.Stream
namespace Opf.SplitRefine
open Opf Opf.Gen Opf.Gen.SplitImp

/-- a list of row positions as numpy hands it over. -/
def castArr (l : List Nat) : Array Int := (l.map (fun (x : Nat) => (x : Int))).toArray

/-- `a[k]` for a natural `k` (as `HeapRefine.idx_nat`). -/
theorem idx_nat {α : Type} (a : Array α) (k : Nat) : Py.idx a (k : Int) = a[k]? := by
  unfold Py.idx Py.resolve
  by_cases h : k < a.size
  · simp [h]
  · simp [h]

/-- `idx[:h]` on a cast list is `take`. -/
theorem sliceTo_cast (l : List Nat) (h : Nat) : Py.sliceTo (castArr l) (h : Int) = castArr (l.take h) := by
  unfold Py.sliceTo castArr
  have : ¬ ((h : Int) < 0) := by omega
  simp only [this, if_false]
  have e : (min (h : Int) ((List.map (fun (x : Nat) => (x : Int)) l).toArray.size : Int)).toNat = min h l.length := by
    simp; omega
  rw [e]
  simp [List.map_take]

/-- `idx[h:]` on a cast list is `drop`. -/
theorem sliceFrom_cast (l : List Nat) (h : Nat) : Py.sliceFrom (castArr l) (h : Int) = castArr (l.drop h) := by
  unfold Py.sliceFrom castArr
  have : ¬ ((h : Int) < 0) := by omega
  simp only [this, if_false]
  have e : (min (h : Int) ((List.map (fun (x : Nat) => (x : Int)) l).toArray.size : Int)).toNat = min h l.length := by
    simp; omega
  rw [e]
  rcases Nat.le_total h l.length with hh | hh
  · rw [Nat.min_eq_left hh]; simp only [List.extract_toArray, List.extract_eq_take_drop, List.size_toArray, List.length_map, List.map_drop]
    congr 1
    apply List.take_of_length_le
    simp
  · rw [Nat.min_eq_right hh]; simp [List.drop_of_length_le hh]

/-- fancy indexing with in-range positions raises nothing and is the model `gather`. -/
theorem gather_cast {α : Type} [Inhabited α] (a : Array α) (l : List Nat) (hl : ∀ i, i ∈ l → i < a.size) :
    Py.gather a (castArr l) = some ((gather a.toList l).toArray) := by
  unfold Py.gather castArr Opf.gather
  rw [List.mapM_toArray]
  induction l with
  | nil => simp
  | cons x xs ih =>
    have hx : x < a.size := hl x (by simp)
    have := ih (fun i hi => hl i (by simp [hi]))
    simp [idx_nat, hx] at this ⊢
    rw [this]; simp


/-- `split_with_index`: with `idx = perm` the permutation drawn under the seed (every entry a row
position) and `halt` the truncated product, the translated code raises nothing and returns the rows,
labels and indexes the model selects. `halt` may exceed the number of rows (Python slices clip). -/
theorem split_with_index_refines (PERM : Int → Option (Array Int)) (HALT : Int → Option Int)
    (X Y : Array Int) (perm : List Nat) (halt : Nat) (hsz : X.size = Y.size)
    (hP : PERM (X.size : Int) = some (castArr perm)) (hH : HALT (X.size : Int) = some (halt : Int))
    (hperm : ∀ i, i ∈ perm → i < X.size) :
    split_with_index PERM HALT X Y = some
      ((gather X.toList (splitIdx perm halt).1).toArray, (gather X.toList (splitIdx perm halt).2).toArray,
       (gather Y.toList (splitIdx perm halt).1).toArray, (gather Y.toList (splitIdx perm halt).2).toArray,
       castArr (splitIdx perm halt).1, castArr (splitIdx perm halt).2) := by
  have ht : ∀ i, i ∈ perm.take halt → i < X.size := fun i hi => hperm i (List.mem_of_mem_take hi)
  have hd : ∀ i, i ∈ perm.drop halt → i < X.size := fun i hi => hperm i (List.mem_of_mem_drop hi)
  have hg : ¬ ((X.size : Int) ≠ (Y.size : Int)) := by omega
  unfold split_with_index splitIdx
  simp only [hP, hH, decide_eq_true_eq, hg, if_false, bind, pure, Option.bind_some]
  simp only [sliceTo_cast, sliceFrom_cast]
  simp [gather_cast X _ ht, gather_cast X _ hd, gather_cast Y _ (hsz ▸ ht), gather_cast Y _ (hsz ▸ hd)]

/-- `split` returns the first four components of `split_with_index`. -/
theorem split_refines (PERM : Int → Option (Array Int)) (HALT : Int → Option Int)
    (X Y : Array Int) (perm : List Nat) (halt : Nat) (hsz : X.size = Y.size)
    (hP : PERM (X.size : Int) = some (castArr perm)) (hH : HALT (X.size : Int) = some (halt : Int))
    (hperm : ∀ i, i ∈ perm → i < X.size) :
    split PERM HALT X Y = some
      ((gather X.toList (splitIdx perm halt).1).toArray, (gather X.toList (splitIdx perm halt).2).toArray,
       (gather Y.toList (splitIdx perm halt).1).toArray, (gather Y.toList (splitIdx perm halt).2).toArray) := by
  have ht : ∀ i, i ∈ perm.take halt → i < X.size := fun i hi => hperm i (List.mem_of_mem_take hi)
  have hd : ∀ i, i ∈ perm.drop halt → i < X.size := fun i hi => hperm i (List.mem_of_mem_drop hi)
  have hg : ¬ ((X.size : Int) ≠ (Y.size : Int)) := by omega
  unfold split splitIdx
  simp only [hP, hH, decide_eq_true_eq, hg, if_false, bind, pure, Option.bind_some]
  simp only [sliceTo_cast, sliceFrom_cast]
  simp [gather_cast X _ ht, gather_cast X _ hd, gather_cast Y _ (hsz ▸ ht), gather_cast Y _ (hsz ▸ hd)]

/-- differing numbers of rows and labels: `SizeError`. -/
theorem split_size_error (PERM : Int → Option (Array Int)) (HALT : Int → Option Int) (X Y : Array Int)
    (h : X.size ≠ Y.size) : split PERM HALT X Y = none ∧ split_with_index PERM HALT X Y = none := by
  have hg : ((X.size : Int) ≠ (Y.size : Int)) := by omega
  constructor
  · unfold split; simp [hg]
  · unfold split_with_index; simp [hg]

/-- `merge`: stacking in matching order, or `SizeError`. -/
theorem merge_refines (X1 X2 Y1 Y2 : Array Int) :
    merge X1 X2 Y1 Y2 =
      (if X1.size + X2.size = Y1.size + Y2.size then
         some (X1 ++ X2, Y1 ++ Y2)      -- `mergeRun` on the underlying lists
       else none) := by
  unfold merge
  dsimp only
  by_cases h : X1.size + X2.size = Y1.size + Y2.size
  · have hg : ¬ (((X1 ++ X2).size : Int) ≠ ((Y1 ++ Y2).size : Int)) := by
      simp only [Array.size_append]; omega
    rw [if_pos h, decide_eq_false hg]; rfl
  · have hg : (((X1 ++ X2).size : Int) ≠ ((Y1 ++ Y2).size : Int)) := by
      simp only [Array.size_append]; omega
    rw [if_neg h, decide_eq_true hg]; rfl

end Opf.SplitRefine
