/-
The loop invariant of the competition part of the translated `_clustering` methods, and the
initialisation (`Heap(...)` + the `for i in range(n_nodes)` loop that queues every node), which is
textually the same in both variants (`initBody` is `rfl`-equal to both generated bodies).
-/
import OpfVerif.Lemmas.ClusRefineBase
set_option linter.unusedVariables false
set_option linter.unusedSimpArgs false
namespace Opf.ClusRefineAux
open Opf Opf.Gen Opf.Gen.ClusImp

/-! ### `Clu.WF` under the stores of the competition -/

theorem wf_set_pred {c : Clu} (w : c.WF) (j : Nat) (v : Option Nat) :
    Clu.WF { c with pred := c.pred.setIfInBounds j v } :=
  ⟨w.size_adj, w.size_nplat, w.size_dens, w.size_cost, size_set _ _ _ _ w.size_pred, w.size_root,
    w.size_lab, w.size_tlabel, w.adj_lt⟩

theorem wf_set_root {c : Clu} (w : c.WF) (j : Nat) (v : Nat) :
    Clu.WF { c with root := c.root.setIfInBounds j v } :=
  ⟨w.size_adj, w.size_nplat, w.size_dens, w.size_cost, w.size_pred, size_set _ _ _ _ w.size_root,
    w.size_lab, w.size_tlabel, w.adj_lt⟩

theorem wf_set_lab {c : Clu} (w : c.WF) (j : Nat) (v : Nat) :
    Clu.WF { c with lab := c.lab.setIfInBounds j v } :=
  ⟨w.size_adj, w.size_nplat, w.size_dens, w.size_cost, w.size_pred, w.size_root,
    size_set _ _ _ _ w.size_lab, w.size_tlabel, w.adj_lt⟩

theorem wf_set_cost {c : Clu} (w : c.WF) (j : Nat) (v : Int) :
    Clu.WF { c with cost := c.cost.setIfInBounds j v } :=
  ⟨w.size_adj, w.size_nplat, w.size_dens, size_set _ _ _ _ w.size_cost, w.size_pred, w.size_root,
    w.size_lab, w.size_tlabel, w.adj_lt⟩

theorem wf_push_order {c : Clu} (w : c.WF) (p : Nat) :
    Clu.WF { c with order := c.order.push p } :=
  ⟨w.size_adj, w.size_nplat, w.size_dens, w.size_cost, w.size_pred, w.size_root,
    w.size_lab, w.size_tlabel, w.adj_lt⟩

/-! ### the invariant -/

/-- invariant relating the translated heap object and subgraph to the model state. -/
structure LInv (u : Bool) (n : Nat) (sg : KSG) (g : HeapImp.Obj) (s : CluSt) : Prop where
  rel : HeapRefine.Rel g s.h
  wf : Heap.WF s.h
  hsize : s.h.size = n
  relk : KRel u sg s.c
  cwf : s.c.WF
  cn : s.c.n = n

theorem LInv.idx_hcost {u : Bool} {n : Nat} {sg : KSG} {g : HeapImp.Obj} {s : CluSt}
    (L : LInv u n sg g s) {x : Nat} (hx : x < n) : Py.idx g.cost (x : Int) = some (s.h.costOf x) :=
  L.rel.idx_cost L.wf (by rw [L.hsize]; exact hx)

theorem LInv.idx_hcolor {u : Bool} {n : Nat} {sg : KSG} {g : HeapImp.Obj} {s : CluSt}
    (L : LInv u n sg g s) {x : Nat} (hx : x < n) :
    Py.idx g.color (x : Int) = some (s.h.colorOf x : Int) :=
  L.rel.idx_color (by rw [L.hsize]; exact hx)

/-! ### initialisation -/

def initBody : Int → HeapImp.Obj × KSG → Option (HeapImp.Obj × KSG) :=
    (fun i (h, sg) => (do
      let t2014 ← Py.idx sg.cost i
      let t2015 ← Py.setIdx h.cost i t2014
      let h := { h with cost := t2015 }
      let _g ← (if (decide ((-1 : Int) < (-1 : Int))) then none else pure ())
      let t2016 ← Py.setIdx sg.pred i (-1 : Int)
      let sg := { sg with pred := t2016 }
      let _g ← (if (decide (i < (0 : Int))) then none else pure ())
      let t2017 ← Py.setIdx sg.root i i
      let sg := { sg with root := t2017 }
      let (h, t2018) ← HeapImp.Obj.insert h i
      pure (h, sg)))

theorem initBody_step (u : Bool) (n i : Nat) (hi : i < n) (sg : KSG) (g : HeapImp.Obj)
    (s : CluSt) (L : LInv u n sg g s) (hwhite : ∀ j, i ≤ j → s.h.colorOf j = WHITE) :
    ∃ a', initBody (i : Int) (g, sg) = some a' ∧ LInv u n a'.2 a'.1 (cluInit s i) ∧
      (∀ j, i + 1 ≤ j → (cluInit s i).h.colorOf j = WHITE) ∧ (cluInit s i).l = s.l := by
  have hic : i < s.c.n := by rw [L.cn]; exact hi
  have his : i < s.h.size := by rw [L.hsize]; exact hi
  have hw := hwhite i (Nat.le_refl i)
  have e1 := L.relk.idx_cost hic
  have e2 := HeapRefine.setIdx_cost L.rel L.wf his (s.c.costOf i)
  have e3 : Py.setIdx sg.pred (i : Int) (-1) = some (sg.pred.setIfInBounds i (-1)) :=
    setIdx_nat _ _ _ (by rw [L.relk.sz_pred]; exact hic)
  have e4 : Py.setIdx sg.root (i : Int) (i : Int) = some (sg.root.setIfInBounds i (i : Int)) :=
    setIdx_nat _ _ _ (by rw [L.relk.sz_root]; exact hic)
  have w1 := Heap.WF_setCost L.wf i (s.c.costOf i)
  obtain ⟨g', e5, r5⟩ := HeapRefine.insert_refines_wf (HeapRefine.rel_setCost L.rel i (s.c.costOf i))
    w1 i his (Or.inl hw)
  obtain ⟨i1, i2, i3⟩ := insert_wf w1 (x := i) his hw
  have hg : ¬ ((i : Int) < 0) := by omega
  refine ⟨(g', { sg with pred := sg.pred.setIfInBounds i (-1),
                          root := sg.root.setIfInBounds i (i : Int) }), ?_, ?_, ?_, rfl⟩
  · simp only [initBody, e1, e2, e3, e4, e5, hg, Option.bind_eq_bind, Option.bind_some,
      Option.pure_def, decide_false, if_false, Int.lt_irrefl, Bool.false_eq_true]
  · refine ⟨r5, i1, ?_, ?_, ?_, L.cn⟩
    · show ((s.h.setCost i _).insert i).1.size = n
      rw [Heap.insert_size, Heap.setCost_size]; exact L.hsize
    · exact (L.relk.set_pred L.cwf.size_pred hic none).set_root
        (wf_set_pred L.cwf i none).size_root hic i
    · exact wf_set_root (wf_set_pred L.cwf i none) i i
  · intro j hj
    show ((s.h.setCost i _).insert i).1.colorOf j = WHITE
    rw [i3 j (by omega), Heap.setCost_colorOf]; exact hwhite j (by omega)

/-- `h = Heap(n_nodes, "max")` and the loop that queues every node. -/
theorem init_refines (u : Bool) (top : Int) (sg : KSG) (c : Clu) (r : KRel u sg c) (w : c.WF)
    (hn : 0 < c.n) :
    ∃ g0 a', HeapImp.Obj.init sg.n_nodes "max" top = some g0 ∧
      Py.forRange (σ := HeapImp.Obj × KSG) sg.n_nodes initBody (g0, sg) = some a' ∧
      LInv u c.n a'.2 a'.1
        ((List.range c.n).foldl cluInit { h := Heap.init c.n true top, c := c, l := 0 }) ∧
      ((List.range c.n).foldl cluInit { h := Heap.init c.n true top, c := c, l := 0 }).l = 0 := by
  obtain ⟨g0, e0, r0⟩ := HeapRefine.init_refines c.n hn true top
  have L0 : LInv u c.n sg g0 { h := Heap.init c.n true top, c := c, l := 0 } :=
    ⟨r0, ((Heap.inv_iff _).1 (Heap.inv_init c.n true top)).1, rfl, r, w, rfl⟩
  obtain ⟨a', e1, L1, _, hl⟩ := forRange_refines
    (fun (k : Nat) (a : HeapImp.Obj × KSG) (b : CluSt) => LInv u c.n a.2 a.1 b ∧
      (∀ j, k ≤ j → b.h.colorOf j = WHITE) ∧ b.l = 0)
    initBody cluInit c.n
    (fun k hk a b hab => by
      obtain ⟨a', e, h1, h2, h3⟩ := initBody_step u c.n k hk a.2 a.1 b hab.1 hab.2.1
      exact ⟨a', e, h1, h2, h3.trans hab.2.2⟩)
    (g0, sg) _ ⟨L0, fun j _ => Heap.init_colorOf c.n true top j, rfl⟩
  refine ⟨g0, a', ?_, ?_, L1, hl⟩
  · rw [r.n]; exact e0
  · rw [r.n]; exact e1

end Opf.ClusRefineAux
