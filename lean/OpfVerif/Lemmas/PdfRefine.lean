/-
Refinement of the translated `KNNSubgraph.calculate_pdf` (`Gen/PdfImp.lean`) to the polymorphic
model `pdfG` (`Model/Knn.lean`) instantiated with the UNINTERPRETED float operations `fo`.
Two spots of the source compute a constant differently from `pdfG`'s parametrisation (integer
arithmetic before conversion: `c.MAX_DENSITY - 1`; exact negation: `-c.FLOAT_MAX`); they are bridged
by the two hypotheses `h999`, `hneg`, both true of IEEE binary64.

Structure (as in `ArcsRefine.lean`): `eOf`/`sumOf`/`pv`/`mmStep`/`mmOf` name the pieces of the model and
`modelOut_eq` unfolds `modelOut` into its six fields; `innerBody`, `outerBody`, `eqBody`, `neBody` are
the loop bodies of the generated text under names (`calculate_pdf_eq` is `rfl` against the generated
text); `inner_refines`, `outerBody_step` (invariant `OInv`), `eqBody_step` / `neBody_step` (invariant
`FInv`) relate each loop to the model through `ArcsRefine.forRange_refines`.
-/
import OpfVerif.Gen.PdfImp
import OpfVerif.Lemmas.FSym
import OpfVerif.Lemmas.ArcsRefine
set_option linter.unusedVariables false
namespace Opf.PdfRefine
open Opf Opf.Gen Opf.Gen.PdfImp

def adjInt (l : List Nat) : Array Int := (l.map (fun (x : Nat) => (x : Int))).toArray

/-- the flattened subgraph before the call: `n` nodes, adjacency `adj`, density bound `bound`. -/
structure RelP (sg : PSG) (n : Nat) (adj : Array (List Nat)) (bound : Int) : Prop where
  n_eq : sg.n_nodes = (n : Int)
  bound_eq : sg.sg_density = bound
  sz_adj : sg.adjacency.size = n
  sz_density : sg.density.size = n
  sz_cost : sg.cost.size = n
  adj_eq : ∀ x, x < n → sg.adjacency[x]? = some (adjInt (adj.getD x []))

/-- `2 * density / 9` as the source computes it. -/
def constOf (fo : Py.FOps) (bound : Int) : Int := fo.div (fo.mul (fo.ofInt 2) bound) (fo.ofInt 9)

/-- the `np.exp(-distance / constant)` values of node `i`'s first `k` neighbours, in adjacency order. -/
def expsOf (fo : Py.FOps) (w : Nat → Nat → Int) (adj : Array (List Nat)) (bound : Int) (k n : Nat) : List (List (FSym fo)) :=
  (List.range n).map (fun i => ((adj.getD i []).take k).map (fun j => ⟨fo.exp (fo.div (-(w i j)) (constOf fo bound))⟩))

/-- the model's result for this call. -/
def modelOut (fo : Py.FOps) (w : Nat → Nat → Int) (adj : Array (List Nat)) (bound top : Int) (k n : Nat) : PdfOut (FSym fo) :=
  pdfG (α := FSym fo) ⟨0⟩ (FSym.ofInt fo 1) (FSym.ofInt fo 2) (FSym.ofInt fo 9) (FSym.ofInt fo 1000) ⟨top⟩ ⟨bound⟩ k
    (FSym.ofInt fo ((k : Int) + 1)) (expsOf fo w adj bound k n)

/-! ### model side -/
section Model
variable (fo : Py.FOps) (w : Nat → Nat → Int) (adj : Array (List Nat)) (bound top : Int) (k : Nat)

def eOf (i j : Nat) : FSym fo := ⟨fo.exp (fo.div (-(w i j)) (constOf fo bound))⟩
def sumOf (i m : Nat) : FSym fo := ((adj.getD i []).take m).foldl (fun s j => s + eOf fo w bound i j) ⟨0⟩
def pv (i : Nat) : FSym fo := sumOf fo w adj bound i k / FSym.ofInt fo ((k : Int) + 1)
def mmStep (m : FSym fo × FSym fo) (i : Nat) : FSym fo × FSym fo :=
  (if pv fo w adj bound k i < m.1 then pv fo w adj bound k i else m.1,
   if m.2 < pv fo w adj bound k i then pv fo w adj bound k i else m.2)
def mmOf (n : Nat) : FSym fo × FSym fo := (List.range n).foldl (mmStep fo w adj bound k) (⟨top⟩, ⟨-top⟩)

theorem beq_iff (a b : FSym fo) : (a == b) = true ↔ a.val = b.val := by
  show (a.val == b.val) = true ↔ _
  exact beq_iff_eq

theorem pdf_list_eq (n : Nat) :
    (expsOf fo w adj bound k n).map (fun es => (es.take k).foldl (· + ·) (⟨0⟩ : FSym fo) / FSym.ofInt fo ((k : Int) + 1)) =
      (List.range n).map (pv fo w adj bound k) := by
  unfold expsOf
  rw [List.map_map]
  apply List.map_congr_left
  intro i _
  show (List.take k (((adj.getD i []).take k).map _)).foldl _ _ / _ = _
  rw [List.take_of_length_le (by rw [List.length_map, List.length_take]; exact Nat.min_le_left _ _),
    List.foldl_map]
  rfl

theorem modelOut_eq (hneg : fo.sub 0 top = -top) (n : Nat) :
    modelOut fo w adj bound top k n =
      if (mmOf fo w adj bound top k n).1.val = (mmOf fo w adj bound top k n).2.val then
        { constant := ⟨constOf fo bound⟩, minD := (mmOf fo w adj bound top k n).1,
          maxD := (mmOf fo w adj bound top k n).2,
          pdf := (List.range n).map (pv fo w adj bound k),
          density := (List.range n).map (fun _ => FSym.ofInt fo 1000),
          cost := (List.range n).map (fun _ => FSym.ofInt fo 1000 - FSym.ofInt fo 1) }
      else
        { constant := ⟨constOf fo bound⟩, minD := (mmOf fo w adj bound top k n).1,
          maxD := (mmOf fo w adj bound top k n).2,
          pdf := (List.range n).map (pv fo w adj bound k),
          density := (List.range n).map (fun x => (FSym.ofInt fo 1000 - FSym.ofInt fo 1) *
            (pv fo w adj bound k x - (mmOf fo w adj bound top k n).1) /
            ((mmOf fo w adj bound top k n).2 - (mmOf fo w adj bound top k n).1) + FSym.ofInt fo 1),
          cost := (List.range n).map (fun x => (FSym.ofInt fo 1000 - FSym.ofInt fo 1) *
            (pv fo w adj bound k x - (mmOf fo w adj bound top k n).1) /
            ((mmOf fo w adj bound top k n).2 - (mmOf fo w adj bound top k n).1) + FSym.ofInt fo 1 - FSym.ofInt fo 1) } := by
  have hz : ((⟨0⟩ : FSym fo) - ⟨top⟩) = ⟨-top⟩ := by
    show (⟨fo.sub 0 top⟩ : FSym fo) = _
    rw [hneg]
  have hmm : ((List.range n).map (pv fo w adj bound k)).foldl
      (fun (m : FSym fo × FSym fo) p => (if p < m.1 then p else m.1, if m.2 < p then p else m.2))
      (⟨top⟩, (⟨0⟩ : FSym fo) - ⟨top⟩) = mmOf fo w adj bound top k n := by
    rw [List.foldl_map, hz]; rfl
  unfold modelOut pdfG
  simp only [pdf_list_eq, hmm, List.map_map]
  by_cases c : (mmOf fo w adj bound top k n).1.val = (mmOf fo w adj bound top k n).2.val
  · rw [if_pos c, if_pos ((beq_iff fo _ _).2 c)]
    rfl
  · rw [if_neg c, if_neg (fun h => c ((beq_iff fo _ _).1 h))]
    rfl
end Model

/-! ### the loop bodies of the generated text under names -/

def innerBody (W : Int → Int → Option Int) (fo : Py.FOps) (sg : PSG) (i : Int) :
    Int → Array Int × Int → Option (Array Int × Int) :=
        (fun k (pdf, n_pdf) => (do
          let t4002 ← Py.idx sg.adjacency i
          let t4003 ← Py.idx t4002 k
          let j := t4003
          let distance ← W i j
          let t4004 ← Py.idx pdf i
          let t4005 ← Py.setIdx pdf i (fo.add t4004 (fo.exp (fo.div (-distance) sg.constant)))
          let pdf := t4005
          let n_pdf := (n_pdf + (1 : Int))
          pure (pdf, n_pdf)))

def outerBody (W : Int → Int → Option Int) (fo : Py.FOps) (n_neighbours : Int) :
    Int → Array Int × PSG → Option (Array Int × PSG) :=
    (fun i (pdf, sg) => (do
      let t4001 ← Py.setIdx pdf i (0 : Int)
      let pdf := t4001
      let n_pdf := (1 : Int)
      let (pdf, n_pdf) ← Py.forRange (σ := Array Int × Int) n_neighbours
        (innerBody W fo sg i) (pdf, n_pdf)
      let t4006 ← Py.idx pdf i
      let t4007 ← Py.setIdx pdf i (fo.div t4006 (fo.ofInt n_pdf))
      let pdf := t4007
      let t4008 ← Py.idx pdf i
      let sg ← (if (decide (t4008 < sg.min_density)) then (do
          let t4009 ← Py.idx pdf i
          let sg := { sg with min_density := t4009 }
          pure sg) else (do
          pure sg))
      let t4010 ← Py.idx pdf i
      let sg ← (if (decide (t4010 > sg.max_density)) then (do
          let t4011 ← Py.idx pdf i
          let sg := { sg with max_density := t4011 }
          pure sg) else (do
          pure sg))
      pure (pdf, sg)))

def eqBody (fo : Py.FOps) : Int → PSG → Option PSG :=
        (fun i sg => (do
          let t4012 ← Py.setIdx sg.density i (fo.ofInt (1000 : Int))
          let sg := { sg with density := t4012 }
          let t4013 ← Py.setIdx sg.cost i (fo.ofInt ((1000 : Int) - (1 : Int)))
          let sg := { sg with cost := t4013 }
          pure sg))

def neBody (fo : Py.FOps) (pdf : Array Int) : Int → PSG → Option PSG :=
        (fun i sg => (do
          let t4014 ← Py.idx pdf i
          let t4015 ← Py.setIdx sg.density i (fo.add (fo.div (fo.mul (fo.ofInt ((1000 : Int) - (1 : Int))) (fo.sub t4014 sg.min_density)) (fo.sub sg.max_density sg.min_density)) (fo.ofInt (1 : Int)))
          let sg := { sg with density := t4015 }
          let t4016 ← Py.idx sg.density i
          let t4017 ← Py.setIdx sg.cost i (fo.sub t4016 (fo.ofInt (1 : Int)))
          let sg := { sg with cost := t4017 }
          pure sg))

theorem calculate_pdf_eq (W : Int → Int → Option Int) (fo : Py.FOps) (top : Int) (sg : PSG) (k : Int) :
    calculate_pdf W fo top sg k = (do
      let (pdf, sg) ← Py.forRange (σ := Array Int × PSG) sg.n_nodes (outerBody W fo k)
        (Py.replicate sg.n_nodes (0 : Int),
          { sg with constant := (fo.div (fo.mul (fo.ofInt (2 : Int)) sg.sg_density) (fo.ofInt (9 : Int))),
                    min_density := top, max_density := -top })
      let sg ← (if (decide (sg.min_density = sg.max_density)) then
          Py.forRange (σ := PSG) sg.n_nodes (eqBody fo) sg
        else Py.forRange (σ := PSG) sg.n_nodes (neBody fo pdf) sg)
      pure (sg, ())) := by
  unfold calculate_pdf
  rfl


/-! ### arrays -/

theorem adjInt_get (l : List Nat) (k : Nat) (hk : k < l.length) :
    (adjInt l)[k]? = some (l[k] : Int) := by
  simp [adjInt, hk]

theorem idx_adjInt (l : List Nat) (k : Nat) (hk : k < l.length) :
    Py.idx (adjInt l) (k : Int) = some (l[k] : Int) := by
  rw [HeapRefine.idx_nat]; exact adjInt_get l k hk

theorem set_set {α : Type} (a : Array α) (i : Nat) (u v : α) :
    (a.setIfInBounds i u).setIfInBounds i v = a.setIfInBounds i v := by
  apply Array.ext_getElem?
  intro t
  simp only [Array.getElem?_setIfInBounds, Array.size_setIfInBounds]
  by_cases e : i = t
  · simp [e]
  · simp [e]

theorem idx_set {α : Type} (a : Array α) (i : Nat) (v : α) (hi : i < a.size) :
    Py.idx (a.setIfInBounds i v) (i : Int) = some v := by
  rw [HeapRefine.idx_nat, ArcsRefine.getq_set _ _ _ _ hi, if_pos rfl]

theorem setIdx_set {α : Type} (a : Array α) (i : Nat) (u v : α) (hi : i < a.size) :
    Py.setIdx (a.setIfInBounds i u) (i : Int) v = some (a.setIfInBounds i v) := by
  rw [HeapRefine.setIdx_nat _ _ _ (by rw [Array.size_setIfInBounds]; exact hi), set_set]

/-! ### the inner loop -/

theorem sumOf_succ (fo : Py.FOps) (w : Nat → Nat → Int) (adj : Array (List Nat)) (bound : Int)
    (i m : Nat) (hm : m < (adj.getD i []).length) :
    sumOf fo w adj bound i (m + 1) = sumOf fo w adj bound i m + eOf fo w bound i (adj.getD i [])[m] := by
  unfold sumOf
  rw [List.take_add_one, List.foldl_append, List.getElem?_eq_getElem hm]
  rfl

theorem innerBody_step (W : Int → Int → Option Int) (fo : Py.FOps) (w : Nat → Nat → Int)
    (adj : Array (List Nat)) (bound : Int) (n : Nat)
    (hW : ∀ a b : Nat, a < n → b < n → W (a : Int) (b : Int) = some (w a b))
    (hadj : ∀ i, i < n → ∀ j, j ∈ adj.getD i [] → j < n)
    (sg : PSG) (i : Nat) (hi : i < n) (hc : sg.constant = constOf fo bound)
    (ha : sg.adjacency[i]? = some (adjInt (adj.getD i [])))
    (P : Array Int) (hP : P.size = n) (m : Nat) (hm : m < (adj.getD i []).length) (np : Int) :
    innerBody W fo sg (i : Int) (m : Int) (P.setIfInBounds i (sumOf fo w adj bound i m).val, np) =
      some (P.setIfInBounds i (sumOf fo w adj bound i (m + 1)).val, np + 1) := by
  have e1 : Py.idx sg.adjacency (i : Int) = some (adjInt (adj.getD i [])) := by
    rw [HeapRefine.idx_nat]; exact ha
  have e2 := idx_adjInt (adj.getD i []) m hm
  have hj : (adj.getD i [])[m] < n := hadj i hi _ (List.getElem_mem hm)
  have e3 := hW i _ hi hj
  have e4 : Py.idx (P.setIfInBounds i (sumOf fo w adj bound i m).val) (i : Int) =
      some (sumOf fo w adj bound i m).val := idx_set _ _ _ (by omega)
  have e5 : ∀ v, Py.setIdx (P.setIfInBounds i (sumOf fo w adj bound i m).val) (i : Int) v =
      some (P.setIfInBounds i v) := fun v => setIdx_set _ _ _ _ (by omega)
  rw [sumOf_succ _ _ _ _ _ _ hm]
  simp only [innerBody, e1, e2, e3, e4, e5, hc, Option.bind_eq_bind, Option.bind_some, Option.pure_def]
  rfl

theorem inner_refines (W : Int → Int → Option Int) (fo : Py.FOps) (w : Nat → Nat → Int)
    (adj : Array (List Nat)) (bound : Int) (n : Nat)
    (hW : ∀ a b : Nat, a < n → b < n → W (a : Int) (b : Int) = some (w a b))
    (hadj : ∀ i, i < n → ∀ j, j ∈ adj.getD i [] → j < n)
    (sg : PSG) (i : Nat) (hi : i < n) (hc : sg.constant = constOf fo bound)
    (ha : sg.adjacency[i]? = some (adjInt (adj.getD i [])))
    (P : Array Int) (hP : P.size = n) (k : Nat) (hk : k ≤ (adj.getD i []).length) :
    Py.forRange (k : Int) (innerBody W fo sg (i : Int)) (P.setIfInBounds i 0, 1) =
      some (P.setIfInBounds i (sumOf fo w adj bound i k).val, 1 + (k : Int)) := by
  obtain ⟨a', e, r⟩ := ArcsRefine.forRange_refines
    (fun (m : Nat) (a : Array Int × Int) (_ : Unit) =>
      a = (P.setIfInBounds i (sumOf fo w adj bound i m).val, 1 + (m : Int)))
    (innerBody W fo sg (i : Int)) (fun _ _ => ()) k
    (fun m hm a _ h => by
      subst h
      refine ⟨_, innerBody_step W fo w adj bound n hW hadj sg i hi hc ha P hP m (by omega) _, ?_⟩
      rw [Int.add_assoc]; rfl)
    (P.setIfInBounds i 0, 1) () rfl
  rw [e, r]


/-! ### the outer loop -/

theorem lt_iff {fo : Py.FOps} (a b : FSym fo) : a < b ↔ a.val < b.val := Iff.rfl

/-- invariant of `for i in range(n_nodes)`. -/
structure OInv (fo : Py.FOps) (w : Nat → Nat → Int) (adj : Array (List Nat)) (bound : Int) (k : Nat)
    (sg : PSG) (n q : Nat) (st : Array Int × PSG) (m : FSym fo × FSym fo) : Prop where
  sz : st.1.size = n
  vals : ∀ x, x < q → st.1[x]? = some (pv fo w adj bound k x).val
  sgeq : st.2 = { sg with constant := constOf fo bound, min_density := m.1.val, max_density := m.2.val }

theorem outerBody_step (W : Int → Int → Option Int) (fo : Py.FOps) (w : Nat → Nat → Int)
    (adj : Array (List Nat)) (bound : Int) (n k : Nat) (sg : PSG) (hr : RelP sg n adj bound)
    (hW : ∀ a b : Nat, a < n → b < n → W (a : Int) (b : Int) = some (w a b))
    (hlong : ∀ i, i < n → k ≤ (adj.getD i []).length)
    (hadj : ∀ i, i < n → ∀ j, j ∈ adj.getD i [] → j < n)
    (i : Nat) (hi : i < n) (st : Array Int × PSG) (m : FSym fo × FSym fo)
    (h : OInv fo w adj bound k sg n i st m) :
    ∃ st', outerBody W fo (k : Int) (i : Int) st = some st' ∧
      OInv fo w adj bound k sg n (i + 1) st' (mmStep fo w adj bound k m i) := by
  obtain ⟨P, s⟩ := st
  obtain ⟨hP, hv, hs⟩ := h
  simp only at hP hv hs
  subst hs
  have e1 : Py.setIdx P (i : Int) 0 = some (P.setIfInBounds i 0) :=
    HeapRefine.setIdx_nat _ _ _ (by omega)
  have e2 := inner_refines W fo w adj bound n hW hadj
    { sg with constant := constOf fo bound, min_density := m.1.val, max_density := m.2.val } i hi rfl
    (hr.adj_eq i hi) P hP k (hlong i hi)
  have e3 : Py.idx (P.setIfInBounds i (sumOf fo w adj bound i k).val) (i : Int) =
      some (sumOf fo w adj bound i k).val := idx_set _ _ _ (by omega)
  have e4 : ∀ v, Py.setIdx (P.setIfInBounds i (sumOf fo w adj bound i k).val) (i : Int) v =
      some (P.setIfInBounds i v) := fun v => setIdx_set _ _ _ _ (by omega)
  have e5 : ∀ v, Py.idx (P.setIfInBounds i v) (i : Int) = some v := fun v => idx_set _ _ _ (by omega)
  have e6 : fo.div (sumOf fo w adj bound i k).val (fo.ofInt (1 + (k : Int))) = (pv fo w adj bound k i).val := by
    rw [Int.add_comm]; rfl
  have hvals : ∀ x, x < i + 1 → (P.setIfInBounds i (pv fo w adj bound k i).val)[x]? =
      some (pv fo w adj bound k x).val := by
    intro x hx
    rw [ArcsRefine.getq_set _ _ _ _ (by omega)]
    by_cases e : x = i
    · rw [if_pos e, e]
    · rw [if_neg e]; exact hv x (by omega)
  unfold mmStep
  generalize pv fo w adj bound k i = p at *
  by_cases c1 : p.val < m.1.val <;> by_cases c2 : m.2.val < p.val
  all_goals
    refine ⟨(P.setIfInBounds i p.val, _), ?_, ⟨ArcsRefine.size_set _ _ _ _ hP, hvals, rfl⟩⟩
    simp only [outerBody, e1, e2, e3, e4, e5, e6, c1, c2, lt_iff, gt_iff_lt, decide_true, decide_false,
      Bool.false_eq_true, if_true, if_false, Option.bind_eq_bind, Option.bind_some, Option.pure_def]


/-! ### the two closing loops -/

/-- invariant of both `for i in range(n_nodes)` closing loops: the first `q` densities / costs hold
`dv` / `cv`, everything else is as in `s0`. -/
structure FInv (s0 : PSG) (n : Nat) (dv cv : Nat → Int) (q : Nat) (s : PSG) : Prop where
  nn : s.n_nodes = s0.n_nodes
  bd : s.sg_density = s0.sg_density
  cst : s.constant = s0.constant
  mn : s.min_density = s0.min_density
  mx : s.max_density = s0.max_density
  ad : s.adjacency = s0.adjacency
  szd : s.density.size = n
  szc : s.cost.size = n
  dens : ∀ x, x < q → s.density[x]? = some (dv x)
  cost : ∀ x, x < q → s.cost[x]? = some (cv x)

theorem FInv.upd {s0 : PSG} {n : Nat} {dv cv : Nat → Int} {q : Nat} {s : PSG}
    (h : FInv s0 n dv cv q s) (hq : q < n) :
    FInv s0 n dv cv (q + 1)
      { s with density := s.density.setIfInBounds q (dv q), cost := s.cost.setIfInBounds q (cv q) } := by
  refine ⟨h.nn, h.bd, h.cst, h.mn, h.mx, h.ad, ArcsRefine.size_set _ _ _ _ h.szd,
    ArcsRefine.size_set _ _ _ _ h.szc, ?_, ?_⟩
  · intro x hx
    show (s.density.setIfInBounds q (dv q))[x]? = _
    rw [ArcsRefine.getq_set _ _ _ _ (by rw [h.szd]; exact hq)]
    by_cases e : x = q
    · rw [if_pos e, e]
    · rw [if_neg e]; exact h.dens x (by omega)
  · intro x hx
    show (s.cost.setIfInBounds q (cv q))[x]? = _
    rw [ArcsRefine.getq_set _ _ _ _ (by rw [h.szc]; exact hq)]
    by_cases e : x = q
    · rw [if_pos e, e]
    · rw [if_neg e]; exact h.cost x (by omega)

theorem arr_eq (a : Array Int) (n : Nat) (f : Nat → Int) (hs : a.size = n)
    (h : ∀ x, x < n → a[x]? = some (f x)) : a = ((List.range n).map f).toArray := by
  apply Array.ext_getElem?
  intro x
  by_cases hx : x < n
  · rw [h x hx]; simp [hx]
  · simp [hx]
    omega

theorem eqBody_step (fo : Py.FOps) (s0 : PSG) (n q : Nat) (hq : q < n) (s : PSG)
    (h : FInv s0 n (fun _ => fo.ofInt 1000) (fun _ => fo.ofInt 999) q s) :
    ∃ s', eqBody fo (q : Int) s = some s' ∧
      FInv s0 n (fun _ => fo.ofInt 1000) (fun _ => fo.ofInt 999) (q + 1) s' := by
  have e1 : ∀ v, Py.setIdx s.density (q : Int) v = some (s.density.setIfInBounds q v) :=
    fun v => HeapRefine.setIdx_nat _ _ _ (by rw [h.szd]; exact hq)
  have e2 : ∀ v, Py.setIdx s.cost (q : Int) v = some (s.cost.setIfInBounds q v) :=
    fun v => HeapRefine.setIdx_nat _ _ _ (by rw [h.szc]; exact hq)
  have e3 : (1000 : Int) - 1 = 999 := rfl
  refine ⟨_, ?_, h.upd hq⟩
  simp only [eqBody, e1, e2, e3, Option.bind_eq_bind, Option.bind_some, Option.pure_def]

theorem neBody_step (fo : Py.FOps) (s0 : PSG) (n q : Nat) (hq : q < n) (P : Array Int) (pvs : Nat → Int)
    (hP : ∀ x, x < n → P[x]? = some (pvs x)) (s : PSG)
    (h : FInv s0 n
      (fun x => fo.add (fo.div (fo.mul (fo.ofInt 999) (fo.sub (pvs x) s0.min_density))
        (fo.sub s0.max_density s0.min_density)) (fo.ofInt 1))
      (fun x => fo.sub (fo.add (fo.div (fo.mul (fo.ofInt 999) (fo.sub (pvs x) s0.min_density))
        (fo.sub s0.max_density s0.min_density)) (fo.ofInt 1)) (fo.ofInt 1)) q s) :
    ∃ s', neBody fo P (q : Int) s = some s' ∧ FInv s0 n
      (fun x => fo.add (fo.div (fo.mul (fo.ofInt 999) (fo.sub (pvs x) s0.min_density))
        (fo.sub s0.max_density s0.min_density)) (fo.ofInt 1))
      (fun x => fo.sub (fo.add (fo.div (fo.mul (fo.ofInt 999) (fo.sub (pvs x) s0.min_density))
        (fo.sub s0.max_density s0.min_density)) (fo.ofInt 1)) (fo.ofInt 1)) (q + 1) s' := by
  have e0 : Py.idx P (q : Int) = some (pvs q) := by rw [HeapRefine.idx_nat]; exact hP q hq
  have e1 : ∀ v, Py.setIdx s.density (q : Int) v = some (s.density.setIfInBounds q v) :=
    fun v => HeapRefine.setIdx_nat _ _ _ (by rw [h.szd]; exact hq)
  have e2 : ∀ v, Py.setIdx s.cost (q : Int) v = some (s.cost.setIfInBounds q v) :=
    fun v => HeapRefine.setIdx_nat _ _ _ (by rw [h.szc]; exact hq)
  have e3 : (1000 : Int) - 1 = 999 := rfl
  have e4 : ∀ v, Py.idx (s.density.setIfInBounds q v) (q : Int) = some v :=
    fun v => idx_set _ _ _ (by rw [h.szd]; exact hq)
  refine ⟨_, ?_, h.upd hq⟩
  simp only [neBody, e0, e1, e2, e3, e4, h.mn, h.mx, Option.bind_eq_bind, Option.bind_some, Option.pure_def]


/-! ### the whole method -/

/-- `calculate_pdf(k)`: every list holds at least `k` entries (read by position), entries are node
positions. The translated code raises nothing; it records the model's constant / minimum / maximum
and writes the model's densities and costs into the nodes, leaving the rest unchanged. -/
theorem calculate_pdf_refines (fo : Py.FOps) (W : Int → Int → Option Int) (w : Nat → Nat → Int) (top : Int)
    (sg : PSG) (n k : Nat) (adj : Array (List Nat)) (bound : Int)
    (h999 : fo.sub (fo.ofInt 1000) (fo.ofInt 1) = fo.ofInt 999) (hneg : fo.sub 0 top = -top)
    (hr : RelP sg n adj bound) (hn : 0 < n)
    (hW : ∀ a b : Nat, a < n → b < n → W (a : Int) (b : Int) = some (w a b))
    (hlong : ∀ i, i < n → k ≤ (adj.getD i []).length)
    (hadj : ∀ i, i < n → ∀ j, j ∈ adj.getD i [] → j < n) :
    ∃ sg', calculate_pdf W fo top sg (k : Int) = some (sg', ()) ∧
      sg'.constant = (modelOut fo w adj bound top k n).constant.val ∧
      sg'.min_density = (modelOut fo w adj bound top k n).minD.val ∧
      sg'.max_density = (modelOut fo w adj bound top k n).maxD.val ∧
      sg'.density = ((modelOut fo w adj bound top k n).density.map (·.val)).toArray ∧
      sg'.cost = ((modelOut fo w adj bound top k n).cost.map (·.val)).toArray ∧
      sg'.adjacency = sg.adjacency ∧ sg'.sg_density = sg.sg_density ∧ sg'.n_nodes = sg.n_nodes := by
  have en := hr.n_eq
  have ec : fo.div (fo.mul (fo.ofInt 2) sg.sg_density) (fo.ofInt 9) = constOf fo bound := by
    rw [hr.bound_eq]; rfl
  obtain ⟨st, e, hI⟩ := ArcsRefine.forRange_refines
    (fun q => OInv fo w adj bound k sg n q) (outerBody W fo (k : Int)) (mmStep fo w adj bound k) n
    (fun i hi st m h => outerBody_step W fo w adj bound n k sg hr hW hlong hadj i hi st m h)
    (Py.replicate (n : Int) 0,
      { sg with constant := constOf fo bound, min_density := top, max_density := -top })
    (⟨top⟩, ⟨-top⟩)
    ⟨by simp [Py.replicate], fun x hx => absurd hx (Nat.not_lt_zero x), rfl⟩
  obtain ⟨P, s1⟩ := st
  obtain ⟨hP, hv, hs⟩ := hI
  simp only at hP hv hs
  have hmm : (List.range n).foldl (mmStep fo w adj bound k) (⟨top⟩, ⟨-top⟩) = mmOf fo w adj bound top k n := rfl
  rw [hmm] at hs
  rw [modelOut_eq fo w adj bound top k hneg n]
  generalize mmOf fo w adj bound top k n = mm at hs ⊢
  have hm1 : s1.min_density = mm.1.val := by rw [hs]
  have hm2 : s1.max_density = mm.2.val := by rw [hs]
  have hnn : s1.n_nodes = (n : Int) := by rw [hs]; exact en
  have h0 : ∀ dv cv, FInv s1 n dv cv 0 s1 := fun dv cv =>
    ⟨rfl, rfl, rfl, rfl, rfl, rfl, by rw [hs]; exact hr.sz_density, by rw [hs]; exact hr.sz_cost,
      fun x hx => absurd hx (Nat.not_lt_zero x), fun x hx => absurd hx (Nat.not_lt_zero x)⟩
  simp only [en] at e
  by_cases c : mm.1.val = mm.2.val
  · rw [if_pos c]
    obtain ⟨s', e2, hF⟩ := ArcsRefine.forRange_refines
      (fun q (s : PSG) (_ : Unit) => FInv s1 n (fun _ => fo.ofInt 1000) (fun _ => fo.ofInt 999) q s)
      (eqBody fo) (fun _ _ => ()) n (fun q hq s _ h => eqBody_step fo s1 n q hq s h) s1 () (h0 _ _)
    refine ⟨s', ?_, ?_, ?_, ?_, ?_, ?_, ?_, ?_, ?_⟩
    · rw [calculate_pdf_eq]
      simp only [en, ec, e, hm1, hm2, hnn, c, decide_true, if_true, e2, Option.bind_eq_bind,
        Option.bind_some, Option.pure_def]
    · rw [hF.cst, hs]
    · rw [hF.mn, hs]
    · rw [hF.mx, hs]
    · rw [arr_eq _ n _ hF.szd hF.dens, List.map_map]; rfl
    · rw [arr_eq _ n _ hF.szc hF.cost, List.map_map, ← h999]; rfl
    · rw [hF.ad, hs]
    · rw [hF.bd, hs]
    · rw [hF.nn, hs]
  · rw [if_neg c]
    obtain ⟨s', e2, hF⟩ := ArcsRefine.forRange_refines
      (fun q (s : PSG) (_ : Unit) => FInv s1 n _ _ q s)
      (neBody fo P) (fun _ _ => ()) n
      (fun q hq s _ h => neBody_step fo s1 n q hq P (fun x => (pv fo w adj bound k x).val) hv s h)
      s1 () (h0 _ _)
    refine ⟨s', ?_, ?_, ?_, ?_, ?_, ?_, ?_, ?_, ?_⟩
    · rw [calculate_pdf_eq]
      simp only [en, ec, e, hm1, hm2, hnn, c, decide_false, Bool.false_eq_true, if_false, e2,
        Option.bind_eq_bind, Option.bind_some, Option.pure_def]
    · rw [hF.cst, hs]
    · rw [hF.mn, hs]
    · rw [hF.mx, hs]
    · rw [arr_eq _ n _ hF.szd hF.dens, List.map_map, hm1, hm2, ← h999]; rfl
    · rw [arr_eq _ n _ hF.szc hF.cost, List.map_map, hm1, hm2, ← h999]; rfl
    · rw [hF.ad, hs]
    · rw [hF.bd, hs]
    · rw [hF.nn, hs]

end Opf.PdfRefine
