/-
Helper lemmas for C13 (`OpfVerif/Props/C13.lean`): the executable model of the density clustering
(`Model/Knn.lean`, section L5) — plateau symmetrisation (`symKnn`, `symUns`) and the max-heap
competition (`clusterRun`).

Layout: accessor reads after `setIfInBounds`; symmetrisation (`SInv`: frame, soundness, growth,
well-formedness; completeness for `symKnn`); heap facts (`isMax`); the loop invariant `CInv` with
its per-node part `NodeOK`; the relaxation (`relax_inv`, `fold_inv`); the removal (`pop_inv`); one
iteration (`step_inv`); the loop (`loop_inv`); the initial state (`init_inv`); the finished run
(`Final`) and its consequences (chains, bounds, labels).
-/
import OpfVerif.Model.KnnSpec
import OpfVerif.Lemmas.Heap
import Mathlib.Data.List.Nodup
import Mathlib.Data.List.Range
import Mathlib.Data.List.Perm.Basic

namespace Opf

/-- the clustering input after the symmetrisation pass of the selected variant. -/
def Clu.sym (unsup : Bool) (k : Nat) (c : Clu) : Clu := if unsup then symUns k c else symKnn c

namespace Cluster

/-! ### symmetrisation -/

/-- `d` is `c` with `i` pushed on the list of `j` and `nplat` replaced by `np`. -/
def insArc (d : Clu) (i j : Nat) (np : Array Nat) : Clu :=
  { d with adj := d.adj.setIfInBounds j (i :: d.adjOf j), nplat := np }

theorem insArc_adjOf (d : Clu) (i j : Nat) (np : Array Nat) (a : Nat) :
    (insArc d i j np).adjOf a = if a = j ∧ j < d.adj.size then i :: d.adjOf j else d.adjOf a := by
  unfold insArc Clu.adjOf; exact Heap.getD_set _ _ _ _ _

/-- everything except `adj`/`nplat` is untouched, sizes are kept. -/
structure Frame (c d : Clu) : Prop where
  n : d.n = c.n
  dens : d.dens = c.dens
  cost : d.cost = c.cost
  pred : d.pred = c.pred
  root : d.root = c.root
  lab : d.lab = c.lab
  tlabel : d.tlabel = c.tlabel
  order : d.order = c.order
  nclusters : d.nclusters = c.nclusters
  sadj : d.adj.size = c.adj.size
  snplat : d.nplat.size = c.nplat.size

theorem Frame.refl (c : Clu) : Frame c c := ⟨rfl, rfl, rfl, rfl, rfl, rfl, rfl, rfl, rfl, rfl, rfl⟩

theorem Frame.densOf {c d : Clu} (f : Frame c d) (x : Nat) : d.densOf x = c.densOf x := by
  unfold Clu.densOf; rw [f.dens]
theorem Frame.costOf {c d : Clu} (f : Frame c d) (x : Nat) : d.costOf x = c.costOf x := by
  unfold Clu.costOf; rw [f.cost]
theorem Frame.tlabelOf {c d : Clu} (f : Frame c d) (x : Nat) : d.tlabelOf x = c.tlabelOf x := by
  unfold Clu.tlabelOf; rw [f.tlabel]

/-- invariant of the symmetrisation passes, relative to the input `c`. -/
structure SInv (c d : Clu) : Prop where
  frame : Frame c d
  snd : ∀ a b, b ∈ d.adjOf a → b ∈ c.adjOf a ∨ (a ∈ c.adjOf b ∧ c.densOf a = c.densOf b)
  mono : ∀ a b, b ∈ c.adjOf a → b ∈ d.adjOf a
  len : ∀ a, (c.adjOf a).length ≤ (d.adjOf a).length
  alt : ∀ i, i < c.n → ∀ j, j ∈ d.adjOf i → j < c.n ∧ j ≠ i

theorem SInv.refl {c : Clu} (w : c.WF) : SInv c c :=
  ⟨Frame.refl c, fun _ _ h => Or.inl h, fun _ _ h => h, fun _ => Nat.le_refl _, w.adj_lt⟩

theorem SInv.wf {c d : Clu} (w : c.WF) (s : SInv c d) : d.WF := by
  have f := s.frame
  refine ⟨by rw [f.sadj, f.n, w.size_adj], by rw [f.snplat, f.n, w.size_nplat],
    by rw [f.dens, f.n, w.size_dens], by rw [f.cost, f.n, w.size_cost],
    by rw [f.pred, f.n, w.size_pred], by rw [f.root, f.n, w.size_root],
    by rw [f.lab, f.n, w.size_lab], by rw [f.tlabel, f.n, w.size_tlabel], ?_⟩
  intro i hi j hj
  rw [f.n] at hi ⊢
  exact s.alt i hi j hj

theorem SInv_ins {c d : Clu} (s : SInv c d) {i j : Nat} (np : Array Nat) (hi : i < c.n)
    (hji : j ≠ i) (hnp : np.size = d.nplat.size)
    (harc : i ∈ c.adjOf j ∨ (j ∈ c.adjOf i ∧ c.densOf j = c.densOf i)) :
    SInv c (insArc d i j np) := by
  have f := s.frame
  refine ⟨⟨f.n, f.dens, f.cost, f.pred, f.root, f.lab, f.tlabel, f.order, f.nclusters, ?_, ?_⟩,
    ?_, ?_, ?_, ?_⟩
  · show (d.adj.setIfInBounds j (i :: d.adjOf j)).size = c.adj.size
    rw [Array.size_setIfInBounds]; exact f.sadj
  · show np.size = c.nplat.size
    rw [hnp]; exact f.snplat
  · intro a b hb
    rw [insArc_adjOf] at hb
    by_cases h : a = j ∧ j < d.adj.size
    · rw [if_pos h, List.mem_cons] at hb
      rcases hb with hb | hb
      · rw [hb, h.1]; exact harc
      · rw [h.1]; exact s.snd j b hb
    · rw [if_neg h] at hb; exact s.snd a b hb
  · intro a b hb
    rw [insArc_adjOf]
    by_cases h : a = j ∧ j < d.adj.size
    · rw [if_pos h]; exact List.mem_cons_of_mem _ (h.1 ▸ s.mono a b hb)
    · rw [if_neg h]; exact s.mono a b hb
  · intro a
    rw [insArc_adjOf]
    by_cases h : a = j ∧ j < d.adj.size
    · rw [if_pos h, List.length_cons, h.1]; exact Nat.le_succ_of_le (s.len j)
    · rw [if_neg h]; exact s.len a
  · intro a ha b hb
    rw [insArc_adjOf] at hb
    by_cases h : a = j ∧ j < d.adj.size
    · rw [if_pos h, List.mem_cons] at hb
      rcases hb with hb | hb
      · rw [hb, h.1]; exact ⟨hi, fun e => hji e.symm⟩
      · exact s.alt a ha b (h.1 ▸ hb)
    · rw [if_neg h] at hb; exact s.alt a ha b hb

/-- what is known of an entry `j` of the list of `i` in a state satisfying `SInv`. -/
theorem SInv.entry {c d : Clu} (s : SInv c d) {i j : Nat} (hi : i < c.n) (hj : j ∈ d.adjOf i)
    (hd : c.densOf i = c.densOf j) :
    j ≠ i ∧ (i ∈ c.adjOf j ∨ (j ∈ c.adjOf i ∧ c.densOf j = c.densOf i)) := by
  refine ⟨(s.alt i hi j hj).2, ?_⟩
  rcases s.snd i j hj with h | h
  · exact Or.inr ⟨h, hd.symm⟩
  · exact Or.inl h.1

/-! #### the KNN-supervised variant -/

theorem symKnnInner_eq (d : Clu) (i j : Nat) :
    symKnnInner d i j =
      if d.densOf i = d.densOf j then
        (if (d.adjOf j).all (fun l => l ≠ i) then insArc d i j d.nplat else d) else d := rfl

/-- the fixed (state independent) fact on the entries scanned for `i`. -/
def Entry (c : Clu) (i j : Nat) : Prop :=
  j ≠ i ∧ (c.densOf i = c.densOf j → (i ∈ c.adjOf j ∨ (j ∈ c.adjOf i ∧ c.densOf j = c.densOf i)))

theorem symKnnInner_inv {c d : Clu} (s : SInv c d) {i j : Nat} (hi : i < c.n)
    (he : Entry c i j) : SInv c (symKnnInner d i j) := by
  rw [symKnnInner_eq]
  by_cases hd : d.densOf i = d.densOf j
  · rw [if_pos hd]
    split
    · rw [s.frame.densOf, s.frame.densOf] at hd
      exact SInv_ins s d.nplat hi he.1 rfl (he.2 hd)
    · exact s
  · rw [if_neg hd]; exact s

theorem symKnn_fold_inv {c : Clu} {i : Nat} (hi : i < c.n) (L : List Nat) :
    ∀ d, SInv c d → (∀ j, j ∈ L → Entry c i j) →
      SInv c (L.foldl (fun d j => symKnnInner d i j) d) := by
  induction L with
  | nil => intro d s _; exact s
  | cons j L ih =>
    intro d s hL
    rw [List.foldl_cons]
    exact ih _ (symKnnInner_inv s hi (hL j (List.mem_cons_self ..)))
      (fun j' hj' => hL j' (List.mem_cons_of_mem _ hj'))

theorem SInv.entries {c d : Clu} (s : SInv c d) {i : Nat} (hi : i < c.n) :
    ∀ j, j ∈ d.adjOf i → Entry c i j :=
  fun _ hj => ⟨(s.alt i hi _ hj).2, fun hd => (s.entry hi hj hd).2⟩

theorem symKnn_outer_inv {c : Clu} (is : List Nat) (his : ∀ i, i ∈ is → i < c.n) :
    ∀ d, SInv c d →
      SInv c (is.foldl (fun d i => (d.adjOf i).foldl (fun d j => symKnnInner d i j) d) d) := by
  induction is with
  | nil => intro d s; exact s
  | cons i is ih =>
    intro d s
    rw [List.foldl_cons]
    have hi := his i (List.mem_cons_self ..)
    exact ih (fun i' h => his i' (List.mem_cons_of_mem _ h)) _
      (symKnn_fold_inv hi (d.adjOf i) d s (s.entries hi))

theorem symKnn_inv {c : Clu} (w : c.WF) : SInv c (symKnn c) :=
  symKnn_outer_inv (List.range c.n) (fun _ h => List.mem_range.1 h) c (SInv.refl w)

theorem symKnnInner_nplat (d : Clu) (i j : Nat) : (symKnnInner d i j).nplat = d.nplat := by
  rw [symKnnInner_eq]; split
  · split <;> rfl
  · rfl

theorem symKnn_fold_nplat (i : Nat) (L : List Nat) (d : Clu) :
    (L.foldl (fun d j => symKnnInner d i j) d).nplat = d.nplat := by
  induction L generalizing d with
  | nil => rfl
  | cons j L ih => rw [List.foldl_cons, ih, symKnnInner_nplat]

theorem symKnn_nplat (c : Clu) : (symKnn c).nplat = c.nplat := by
  unfold symKnn
  generalize List.range c.n = is
  suffices h : ∀ d : Clu,
      (is.foldl (fun d i => (d.adjOf i).foldl (fun d j => symKnnInner d i j) d) d).nplat = d.nplat
    from h c
  induction is with
  | nil => intro d; rfl
  | cons i is ih => intro d; rw [List.foldl_cons, ih, symKnn_fold_nplat]

/-- lists only grow. -/
def Grow (d e : Clu) : Prop := ∀ a b, b ∈ d.adjOf a → b ∈ e.adjOf a

theorem Grow.refl (d : Clu) : Grow d d := fun _ _ h => h
theorem Grow.trans {d e f : Clu} (h1 : Grow d e) (h2 : Grow e f) : Grow d f :=
  fun a b h => h2 a b (h1 a b h)

theorem symKnnInner_grow (d : Clu) (i j : Nat) : Grow d (symKnnInner d i j) := by
  rw [symKnnInner_eq]
  split
  · split
    · intro a b hb
      rw [insArc_adjOf]
      by_cases h : a = j ∧ j < d.adj.size
      · rw [if_pos h]; exact List.mem_cons_of_mem _ (h.1 ▸ hb)
      · rw [if_neg h]; exact hb
    · exact Grow.refl d
  · exact Grow.refl d

theorem symKnn_fold_grow (i : Nat) (L : List Nat) (d : Clu) :
    Grow d (L.foldl (fun d j => symKnnInner d i j) d) := by
  induction L generalizing d with
  | nil => exact Grow.refl d
  | cons j L ih => rw [List.foldl_cons]; exact (symKnnInner_grow d i j).trans (ih _)

theorem symKnn_outer_grow (is : List Nat) (d : Clu) :
    Grow d (is.foldl (fun d i => (d.adjOf i).foldl (fun d j => symKnnInner d i j) d) d) := by
  induction is generalizing d with
  | nil => exact Grow.refl d
  | cons i is ih => rw [List.foldl_cons]; exact (symKnn_fold_grow i _ d).trans (ih _)

theorem symKnnInner_hit {d : Clu} {i j : Nat} (hd : d.densOf i = d.densOf j)
    (hj : j < d.adj.size) : i ∈ (symKnnInner d i j).adjOf j := by
  rw [symKnnInner_eq, if_pos hd]
  by_cases h : (d.adjOf j).all (fun l => l ≠ i) = true
  · rw [if_pos h, insArc_adjOf, if_pos ⟨rfl, hj⟩]; exact List.mem_cons_self ..
  · rw [if_neg h]
    simp only [List.all_eq_true, decide_eq_true_eq, not_forall] at h
    obtain ⟨l, hl, hne⟩ := h
    have : l = i := Classical.not_not.1 hne
    exact this ▸ hl

theorem symKnn_fold_hit {c : Clu} {i j : Nat} (hi : i < c.n) (hd : c.densOf i = c.densOf j)
    (hjn : j < c.adj.size) (L : List Nat) :
    ∀ d, SInv c d → (∀ j', j' ∈ L → Entry c i j') → j ∈ L →
      i ∈ (L.foldl (fun d j => symKnnInner d i j) d).adjOf j := by
  induction L with
  | nil => intro d _ _ h; exact absurd h List.not_mem_nil
  | cons j' L ih =>
    intro d s hL hj
    rw [List.foldl_cons]
    have s' := symKnnInner_inv s hi (hL j' (List.mem_cons_self ..))
    rcases List.mem_cons.1 hj with e | hj
    · subst e
      have h1 : i ∈ (symKnnInner d i j).adjOf j :=
        symKnnInner_hit (by rw [s.frame.densOf, s.frame.densOf]; exact hd)
          (by rw [s.frame.sadj]; exact hjn)
      exact symKnn_fold_grow i L _ j i h1
    · exact ih _ s' (fun j'' h => hL j'' (List.mem_cons_of_mem _ h)) hj

theorem symKnn_outer_hit {c : Clu} {i j : Nat} (hd : c.densOf i = c.densOf j)
    (hjn : j < c.adj.size) (hj : j ∈ c.adjOf i) (is : List Nat) (his : ∀ i, i ∈ is → i < c.n) :
    ∀ d, SInv c d → i ∈ is →
      i ∈ (is.foldl (fun d i => (d.adjOf i).foldl (fun d j => symKnnInner d i j) d) d).adjOf j := by
  induction is with
  | nil => intro d _ h; exact absurd h List.not_mem_nil
  | cons i' is ih =>
    intro d s hi
    rw [List.foldl_cons]
    have hi' := his i' (List.mem_cons_self ..)
    have s' := symKnn_fold_inv hi' (d.adjOf i') d s (s.entries hi')
    rcases List.mem_cons.1 hi with e | hi
    · subst e
      have h1 := symKnn_fold_hit hi' hd hjn (d.adjOf i) d s (s.entries hi') (s.mono i j hj)
      exact symKnn_outer_grow is _ j i h1
    · exact ih (fun i'' h => his i'' (List.mem_cons_of_mem _ h)) _ s' hi

theorem symKnn_complete {c : Clu} (w : c.WF) {i j : Nat} (hi : i < c.n) (hj : j ∈ c.adjOf i)
    (hd : c.densOf i = c.densOf j) : i ∈ (symKnn c).adjOf j :=
  symKnn_outer_hit hd (by rw [w.size_adj]; exact (w.adj_lt i hi j hj).1) hj (List.range c.n)
    (fun _ h => List.mem_range.1 h) c (SInv.refl w) (List.mem_range.2 hi)

/-! #### the unsupervised variant -/

/-- one position of the innermost scan. -/
def unsStep (i j : Nat) (st : Clu × Bool) (l : Nat) : Clu × Bool :=
  let adjv := (st.1.adjOf j).getD l 0
  let ins := st.2 && !(i == adjv)
  if ins then ({ st.1 with adj := st.1.adj.setIfInBounds j (i :: st.1.adjOf j),
                           nplat := st.1.nplat.setIfInBounds j (st.1.nplat.getD j 0 + 1) }, ins)
  else (st.1, ins)

theorem symUnsInner_eq (k : Nat) (d : Clu) (i pos : Nat) :
    symUnsInner k d i pos =
      if d.densOf i = d.densOf ((d.adjOf i).getD pos 0) then
        ((List.range k).foldl (unsStep i ((d.adjOf i).getD pos 0)) (d, true)).1
      else d := rfl

theorem unsStep_inv {c : Clu} {i j : Nat} (hi : i < c.n) (hji : j ≠ i)
    (harc : i ∈ c.adjOf j ∨ (j ∈ c.adjOf i ∧ c.densOf j = c.densOf i))
    (st : Clu × Bool) (l : Nat) (s : SInv c st.1) : SInv c (unsStep i j st l).1 := by
  unfold unsStep
  simp only
  split
  · exact SInv_ins s _ hi hji Array.size_setIfInBounds harc
  · exact s

theorem unsStep_fold_inv {c : Clu} {i j : Nat} (hi : i < c.n) (hji : j ≠ i)
    (harc : i ∈ c.adjOf j ∨ (j ∈ c.adjOf i ∧ c.densOf j = c.densOf i)) (L : List Nat) :
    ∀ st : Clu × Bool, SInv c st.1 → SInv c (L.foldl (unsStep i j) st).1 := by
  induction L with
  | nil => intro st s; exact s
  | cons l L ih => intro st s; rw [List.foldl_cons]; exact ih _ (unsStep_inv hi hji harc st l s)

theorem symUnsInner_inv {c d : Clu} {k i pos : Nat} (s : SInv c d) (hi : i < c.n)
    (hpos : pos < (c.adjOf i).length) : SInv c (symUnsInner k d i pos) := by
  rw [symUnsInner_eq]
  by_cases hd : d.densOf i = d.densOf ((d.adjOf i).getD pos 0)
  · rw [if_pos hd]
    have hp : pos < (d.adjOf i).length := Nat.lt_of_lt_of_le hpos (s.len i)
    have hmem : (d.adjOf i).getD pos 0 ∈ d.adjOf i := by
      rw [List.getD_eq_getElem?_getD, List.getElem?_eq_getElem hp]; exact List.getElem_mem hp
    rw [s.frame.densOf, s.frame.densOf] at hd
    obtain ⟨h1, h2⟩ := s.entry hi hmem hd
    exact unsStep_fold_inv hi h1 h2 (List.range k) (d, true) s
  · rw [if_neg hd]; exact s

theorem symUns_fold_inv {c : Clu} {k i : Nat} (hi : i < c.n) (hlen : k ≤ (c.adjOf i).length)
    (L : List Nat) (hL : ∀ pos, pos ∈ L → pos < k) :
    ∀ d, SInv c d → SInv c (L.foldl (fun d pos => symUnsInner k d i pos) d) := by
  induction L with
  | nil => intro d s; exact s
  | cons pos L ih =>
    intro d s
    rw [List.foldl_cons]
    exact ih (fun p h => hL p (List.mem_cons_of_mem _ h)) _
      (symUnsInner_inv s hi (Nat.lt_of_lt_of_le (hL pos (List.mem_cons_self ..)) hlen))

theorem symUns_outer_inv {c : Clu} {k : Nat} (hlen : ∀ i, i < c.n → k ≤ (c.adjOf i).length)
    (is : List Nat) (his : ∀ i, i ∈ is → i < c.n) :
    ∀ d, SInv c d →
      SInv c (is.foldl (fun d i => (List.range k).foldl (fun d pos => symUnsInner k d i pos) d) d) := by
  induction is with
  | nil => intro d s; exact s
  | cons i is ih =>
    intro d s
    rw [List.foldl_cons]
    have hi := his i (List.mem_cons_self ..)
    exact ih (fun i' h => his i' (List.mem_cons_of_mem _ h)) _
      (symUns_fold_inv hi (hlen i hi) (List.range k) (fun _ h => List.mem_range.1 h) d s)

theorem symUns_inv {c : Clu} {k : Nat} (w : c.WF) (hlen : ∀ i, i < c.n → k ≤ (c.adjOf i).length) :
    SInv c (symUns k c) :=
  symUns_outer_inv hlen (List.range c.n) (fun _ h => List.mem_range.1 h) c (SInv.refl w)

theorem sym_inv {c : Clu} {unsup : Bool} {k : Nat} (w : c.WF)
    (hlen : unsup = true → ∀ i, i < c.n → k ≤ (c.adjOf i).length) : SInv c (c.sym unsup k) := by
  unfold Clu.sym
  cases unsup with
  | true => exact symUns_inv w (hlen rfl)
  | false => exact symKnn_inv w

/-! ### heap facts -/

theorem insert_isMax (h : Heap) (x : Nat) : (h.insert x).1.isMax = h.isMax := by
  rw [Heap.insert_eq]; split
  · rfl
  · show ((Heap.insPre h x).goUp h.cnt).isMax = h.isMax
    rw [Heap.goUp_isMax, Heap.insPre_isMax]

theorem remove_isMax (h : Heap) : (h.remove).1.isMax = h.isMax := by
  rw [Heap.remove_eq]; split
  · rfl
  · show ((Heap.remPre h).goDown 0).isMax = h.isMax
    rw [Heap.goDown_isMax, Heap.remPre_isMax]

theorem update_isMax (h : Heap) (x : Nat) (c : Int) : (h.update x c).isMax = h.isMax := by
  rw [Heap.update_eq]; split
  · rw [insert_isMax, Heap.setCost_isMax]
  · split
    · rw [Heap.goUp_isMax, Heap.setCost_isMax]
    · rfl

theorem better_max_false {a b : Int} (h : a ≤ b) : Heap.better true a b = false := by
  unfold Heap.better
  simp only [if_true, decide_eq_false_iff_not]
  omega

theorem nodup_length_le (l : List Nat) (n : Nat) (hnd : l.Nodup) (hlt : ∀ x, x ∈ l → x < n) :
    l.length ≤ n := by
  have h1 : l.toFinset.card = l.length := List.toFinset_card_of_nodup hnd
  have h2 : l.toFinset ⊆ Finset.range n := by
    intro x hx
    rw [List.mem_toFinset] at hx
    exact Finset.mem_range.2 (hlt x hx)
  have h3 := Finset.card_le_card h2
  rw [Finset.card_range] at h3
  omega

/-! ### the competition: invariant -/

/-- fields of the working `Clu` that the competition never changes, and the sizes it keeps. -/
structure Same (c0 c : Clu) : Prop where
  n : c.n = c0.n
  adj : c.adj = c0.adj
  nplat : c.nplat = c0.nplat
  dens : c.dens = c0.dens
  tlabel : c.tlabel = c0.tlabel
  scost : c.cost.size = c0.n
  spred : c.pred.size = c0.n
  sroot : c.root.size = c0.n
  slab : c.lab.size = c0.n

theorem Same.densOf {c0 c : Clu} (a : Same c0 c) (x : Nat) : c.densOf x = c0.densOf x := by
  unfold Clu.densOf; rw [a.dens]
theorem Same.tlabelOf {c0 c : Clu} (a : Same c0 c) (x : Nat) : c.tlabelOf x = c0.tlabelOf x := by
  unfold Clu.tlabelOf; rw [a.tlabel]
theorem Same.nbrs {c0 c : Clu} (a : Same c0 c) (u : Bool) (k p : Nat) :
    c.nbrs u k p = c0.nbrs u k p := by
  unfold Clu.nbrs Clu.adjOf; rw [a.adj, a.nplat]

/-- the arc `pred x = some p` as the competition recorded it. -/
structure Link (unsup force : Bool) (k : Nat) (c0 : Clu) (s : CluSt) (x p : Nat) : Prop where
  plt : p < c0.n
  pin : p ∈ s.c.order.toList
  nbr : x ∈ c0.nbrs unsup k p
  hcost : s.h.costOf x = min (s.h.costOf p) (c0.densOf x)
  gt : c0.costOf x < s.h.costOf x
  root : s.c.rootOf x = s.c.rootOf p
  lab : s.c.labOf x = s.c.labOf p
  tl : force = true → c0.tlabelOf p = c0.tlabelOf x
  idx : x ∈ s.c.order.toList → s.c.order.toList.idxOf p < s.c.order.toList.idxOf x

/-- per-node part of the loop invariant. -/
structure NodeOK (unsup force : Bool) (k : Nat) (c0 : Clu) (s : CluSt) (x : Nat) : Prop where
  col : s.h.colorOf x = GRAY ∨ s.h.colorOf x = BLACK
  blk : s.h.colorOf x = BLACK ↔ x ∈ s.c.order.toList
  cst : s.h.colorOf x = BLACK → s.c.costOf x = s.h.costOf x
  rootc : s.c.predOf x = none → s.c.rootOf x = x ∧
    s.h.costOf x = (if s.h.colorOf x = BLACK then c0.densOf x else c0.costOf x)
  link : ∀ p, s.c.predOf x = some p → Link unsup force k c0 s x p
  knn : unsup = false → s.h.colorOf x = BLACK → s.c.predOf x = none →
    s.c.labOf x = c0.tlabelOf x

/-- the loop invariant. -/
structure CInv (unsup force : Bool) (k : Nat) (c0 : Clu) (s : CluSt) : Prop where
  hinv : Heap.Inv s.h
  hsize : s.h.size = c0.n
  hmax : s.h.isMax = true
  same : Same c0 s.c
  nd : s.c.order.toList.Nodup
  olt : ∀ x, x ∈ s.c.order.toList → x < c0.n
  node : ∀ x, x < c0.n → NodeOK unsup force k c0 s x
  ids : unsup = true →
    (s.c.order.toList.filter (fun t => s.c.predOf t == none)).map s.c.labOf = List.range s.l

/-- the two states agree on everything attached to node `y`. -/
structure Agree (s s' : CluSt) (y : Nat) : Prop where
  hc : s'.h.costOf y = s.h.costOf y
  col : s'.h.colorOf y = s.h.colorOf y
  pred : s'.c.predOf y = s.c.predOf y
  root : s'.c.rootOf y = s.c.rootOf y
  lab : s'.c.labOf y = s.c.labOf y
  cost : s'.c.costOf y = s.c.costOf y

/-- a transition that touches only node `z` (not yet removed) and appends at most `z` to the
order keeps the invariant of every other node. -/
theorem NodeOK.frame {unsup force : Bool} {k : Nat} {c0 : Clu} {s s' : CluSt} {z x : Nat}
    (hx : NodeOK unsup force k c0 s x) (hxz : x ≠ z) (hz : z ∉ s.c.order.toList)
    (ext : List Nat) (hext : ∀ y, y ∈ ext → y = z)
    (ho : s'.c.order.toList = s.c.order.toList ++ ext)
    (ha : ∀ y, y ≠ z → Agree s s' y) : NodeOK unsup force k c0 s' x := by
  have ax := ha x hxz
  have hmem : x ∈ s'.c.order.toList ↔ x ∈ s.c.order.toList := by
    rw [ho, List.mem_append]
    constructor
    · rintro (h | h)
      · exact h
      · exact absurd (hext x h) hxz
    · exact Or.inl
  refine ⟨by rw [ax.col]; exact hx.col, by rw [ax.col, hmem]; exact hx.blk,
    fun h => by rw [ax.cost, ax.hc]; exact hx.cst (ax.col ▸ h), fun h => ?_, fun p hp => ?_,
    fun hu hb hp => ?_⟩
  · rw [ax.pred] at h
    rw [ax.root, ax.hc, ax.col]; exact hx.rootc h
  · rw [ax.pred] at hp
    have L := hx.link p hp
    have hpz : p ≠ z := fun e => hz (e ▸ L.pin)
    have ap := ha p hpz
    refine ⟨L.plt, by rw [ho]; exact List.mem_append_left _ L.pin, L.nbr,
      by rw [ax.hc, ap.hc]; exact L.hcost, by rw [ax.hc]; exact L.gt,
      by rw [ax.root, ap.root]; exact L.root, by rw [ax.lab, ap.lab]; exact L.lab, L.tl, ?_⟩
    intro hxo
    have hxo' := hmem.1 hxo
    rw [ho, List.idxOf_append_of_mem L.pin, List.idxOf_append_of_mem hxo']
    exact L.idx hxo'
  · rw [ax.lab]; exact hx.knn hu (ax.col ▸ hb) (ax.pred ▸ hp)

theorem ids_congr (L : List Nat) (c c' : Clu)
    (h : ∀ y, y ∈ L → c'.predOf y = c.predOf y ∧ c'.labOf y = c.labOf y) :
    (L.filter (fun t => c'.predOf t == none)).map c'.labOf =
      (L.filter (fun t => c.predOf t == none)).map c.labOf := by
  rw [List.filter_congr (q := fun t => c.predOf t == none) (fun y hy => by rw [(h y hy).1])]
  exact List.map_congr_left (fun y hy => (h y (List.mem_of_mem_filter hy)).2)

/-- lower bound on every heap cost. -/
theorem NodeOK.lb {unsup force : Bool} {k : Nat} {c0 : Clu} {s : CluSt} {x : Nat}
    (hx : NodeOK unsup force k c0 s x) (hc0 : c0.costOf x < c0.densOf x) :
    c0.costOf x ≤ s.h.costOf x := by
  cases hp : s.c.predOf x with
  | none =>
    have := (hx.rootc hp).2
    split at this <;> omega
  | some p => exact Int.le_of_lt (hx.link p hp).gt

/-! ### the relaxation -/

/-- the `Clu` after `q` has been conquered by `p`. -/
def relC (c : Clu) (p q : Nat) : Clu :=
  { c with pred := c.pred.setIfInBounds q (some p),
           root := c.root.setIfInBounds q (c.rootOf p),
           lab := c.lab.setIfInBounds q (c.labOf p) }

theorem relC_predOf (c : Clu) (p q y : Nat) :
    (relC c p q).predOf y = if y = q ∧ q < c.pred.size then some p else c.predOf y := by
  unfold relC Clu.predOf; exact Heap.getD_set _ _ _ _ _
theorem relC_rootOf (c : Clu) (p q y : Nat) :
    (relC c p q).rootOf y = if y = q ∧ q < c.root.size then c.rootOf p else c.rootOf y := by
  unfold relC; exact Heap.getD_set _ _ _ _ _
theorem relC_labOf (c : Clu) (p q y : Nat) :
    (relC c p q).labOf y = if y = q ∧ q < c.lab.size then c.labOf p else c.labOf y := by
  unfold relC; exact Heap.getD_set _ _ _ _ _

theorem relC_same {c0 c : Clu} (a : Same c0 c) (p q : Nat) : Same c0 (relC c p q) :=
  ⟨a.n, a.adj, a.nplat, a.dens, a.tlabel, a.scost,
    by show (c.pred.setIfInBounds q (some p)).size = c0.n; rw [Array.size_setIfInBounds]; exact a.spred,
    by show (c.root.setIfInBounds q (c.rootOf p)).size = c0.n; rw [Array.size_setIfInBounds]; exact a.sroot,
    by show (c.lab.setIfInBounds q (c.labOf p)).size = c0.n; rw [Array.size_setIfInBounds]; exact a.slab⟩

/-- the value offered to `q`. -/
def curOf (force : Bool) (negTop : Int) (p : Nat) (s : CluSt) (q : Nat) : Int :=
  if force ∧ s.c.tlabelOf p ≠ s.c.tlabelOf q then negTop else min (s.h.costOf p) (s.c.densOf q)

theorem cluRelax_eq (force : Bool) (negTop : Int) (p : Nat) (s : CluSt) (q : Nat) :
    cluRelax force negTop p s q =
      if s.h.colorOf q ≠ BLACK then
        (if curOf force negTop p s q > s.h.costOf q then
          { h := s.h.update q (curOf force negTop p s q), c := relC s.c p q, l := s.l }
        else s)
      else s := rfl

theorem cluRelax_order (force : Bool) (negTop : Int) (p : Nat) (s : CluSt) (q : Nat) :
    (cluRelax force negTop p s q).c.order = s.c.order := by
  rw [cluRelax_eq]; split
  · split <;> rfl
  · rfl

theorem relax_inv {unsup force : Bool} {negTop : Int} {k : Nat} {c0 : Clu}
    (hc0 : ∀ i, i < c0.n → c0.costOf i < c0.densOf i)
    (hneg : ∀ i, i < c0.n → negTop < c0.costOf i)
    {s : CluSt} {p q : Nat} (hI : CInv unsup force k c0 s) (hp : p < c0.n)
    (hpo : p ∈ s.c.order.toList) (hq : q < c0.n) (hqn : q ∈ c0.nbrs unsup k p) :
    CInv unsup force k c0 (cluRelax force negTop p s q) := by
  rw [cluRelax_eq]
  by_cases hcb : s.h.colorOf q ≠ BLACK
  · rw [if_pos hcb]
    by_cases hgt : curOf force negTop p s q > s.h.costOf q
    · rw [if_pos hgt]
      have nq := hI.node q hq
      have hlb := nq.lb (hc0 q hq)
      have hqg : s.h.colorOf q = GRAY := nq.col.resolve_right hcb
      have hqo : q ∉ s.c.order.toList := fun h => hcb (nq.blk.2 h)
      have hpq : p ≠ q := fun e => hqo (e ▸ hpo)
      -- the offered value is the genuine one
      have hcur : curOf force negTop p s q = min (s.h.costOf p) (c0.densOf q) ∧
          (force = true → c0.tlabelOf p = c0.tlabelOf q) := by
        unfold curOf at hgt ⊢
        by_cases hf : force = true ∧ s.c.tlabelOf p ≠ s.c.tlabelOf q
        · rw [if_pos hf] at hgt
          have := hneg q hq
          omega
        · rw [if_neg hf, hI.same.densOf]
          refine ⟨rfl, fun hft => ?_⟩
          rw [← hI.same.tlabelOf, ← hI.same.tlabelOf]
          exact Classical.not_not.1 (fun hne => hf ⟨hft, hne⟩)
      generalize curOf force negTop p s q = cur at hgt hcur
      obtain ⟨i1, c1, c2, k1, k2⟩ := Heap.update_spec s.h q cur hI.hinv
        (by rw [hI.hsize]; exact hq)
        (by intro _; rw [hI.hmax]; exact better_max_false (Int.le_of_lt hgt))
      have hk1 : (s.h.update q cur).colorOf q = GRAY := by
        rw [k1, hqg]; rfl
      have hag : ∀ y, y ≠ q →
          Agree s { h := s.h.update q cur, c := relC s.c p q, l := s.l } y := by
        intro y hy
        have n1 : ∀ m : Nat, ¬ (y = q ∧ q < m) := fun m h => hy h.1
        exact ⟨c2 y hy, k2 y hy, by show (relC s.c p q).predOf y = _; rw [relC_predOf, if_neg (n1 _)],
          by show (relC s.c p q).rootOf y = _; rw [relC_rootOf, if_neg (n1 _)],
          by show (relC s.c p q).labOf y = _; rw [relC_labOf, if_neg (n1 _)], rfl⟩
      refine ⟨i1, by rw [Heap.update_size]; exact hI.hsize, by rw [update_isMax]; exact hI.hmax,
        relC_same hI.same p q, hI.nd, hI.olt, ?_, ?_⟩
      · intro x hx
        by_cases hxq : x = q
        · subst hxq
          have hpr : (relC s.c p x).predOf x = some p := by
            rw [relC_predOf, if_pos ⟨rfl, by rw [hI.same.spred]; exact hq⟩]
          have ap := hag p hpq
          refine ⟨Or.inl hk1, ?_, ?_, ?_, ?_, ?_⟩
          · show (s.h.update x cur).colorOf x = BLACK ↔ x ∈ s.c.order.toList
            rw [hk1]
            exact ⟨fun h => absurd h (by decide), fun h => absurd h hqo⟩
          · intro h
            have h' : (s.h.update x cur).colorOf x = BLACK := h
            rw [hk1] at h'; exact absurd h' (by decide)
          · intro h
            have h' : (relC s.c p x).predOf x = none := h
            rw [hpr] at h'; exact absurd h' (by simp)
          · intro p' h
            have h' : (relC s.c p x).predOf x = some p' := h
            rw [hpr] at h'
            have e : p = p' := Option.some.inj h'
            subst e
            refine ⟨hp, hpo, hqn, ?_, ?_, ?_, ?_, hcur.2, fun h => absurd h hqo⟩
            · show (s.h.update x cur).costOf x = min ((s.h.update x cur).costOf p) (c0.densOf x)
              rw [c1, c2 p hpq, hcur.1]
            · show c0.costOf x < (s.h.update x cur).costOf x
              rw [c1]; omega
            · show (relC s.c p x).rootOf x = (relC s.c p x).rootOf p
              rw [relC_rootOf, if_pos ⟨rfl, by rw [hI.same.sroot]; exact hq⟩, relC_rootOf,
                if_neg (fun h => hpq h.1)]
            · show (relC s.c p x).labOf x = (relC s.c p x).labOf p
              rw [relC_labOf, if_pos ⟨rfl, by rw [hI.same.slab]; exact hq⟩, relC_labOf,
                if_neg (fun h => hpq h.1)]
          · intro _ h
            have h' : (s.h.update x cur).colorOf x = BLACK := h
            rw [hk1] at h'; exact absurd h' (by decide)
        · exact (hI.node x hx).frame hxq hqo [] (fun _ h => absurd h List.not_mem_nil)
            (by show s.c.order.toList = _; rw [List.append_nil]) hag
      · intro hu
        show (s.c.order.toList.filter (fun t => (relC s.c p q).predOf t == none)).map
          (relC s.c p q).labOf = List.range s.l
        rw [ids_congr s.c.order.toList s.c (relC s.c p q) (fun y hy => by
          have hyq : y ≠ q := fun e => hqo (e ▸ hy)
          exact ⟨(hag y hyq).pred, (hag y hyq).lab⟩)]
        exact hI.ids hu
    · rw [if_neg hgt]; exact hI
  · rw [if_neg hcb]; exact hI

theorem fold_inv {unsup force : Bool} {negTop : Int} {k : Nat} {c0 : Clu}
    (hc0 : ∀ i, i < c0.n → c0.costOf i < c0.densOf i)
    (hneg : ∀ i, i < c0.n → negTop < c0.costOf i) {p : Nat} (hp : p < c0.n) (L : List Nat)
    (hL : ∀ q, q ∈ L → q < c0.n ∧ q ∈ c0.nbrs unsup k p) :
    ∀ s, CInv unsup force k c0 s → p ∈ s.c.order.toList →
      CInv unsup force k c0 (L.foldl (cluRelax force negTop p) s) ∧
      (L.foldl (cluRelax force negTop p) s).c.order = s.c.order := by
  induction L with
  | nil => intro s hI _; exact ⟨hI, rfl⟩
  | cons q L ih =>
    intro s hI hpo
    rw [List.foldl_cons]
    obtain ⟨h1, h2⟩ := hL q (List.mem_cons_self ..)
    have hI' := relax_inv hc0 hneg hI hp hpo h1 h2
    have ho := cluRelax_order force negTop p s q
    obtain ⟨r1, r2⟩ := ih (fun q' h => hL q' (List.mem_cons_of_mem _ h)) _ hI' (by rw [ho]; exact hpo)
    exact ⟨r1, r2.trans ho⟩

/-! ### the removal -/

def popRoot (unsup : Bool) (s : CluSt) (h1 : Heap) (p : Nat) : CluSt :=
  { h := h1.setCost p (s.c.densOf p),
    c := { s.c with order := s.c.order.push p,
                    lab := s.c.lab.setIfInBounds p (if unsup then s.l else s.c.tlabelOf p),
                    cost := s.c.cost.setIfInBounds p ((h1.setCost p (s.c.densOf p)).costOf p) },
    l := if unsup then s.l + 1 else s.l }

def popLink (s : CluSt) (h1 : Heap) (p : Nat) : CluSt :=
  { h := h1,
    c := { s.c with order := s.c.order.push p,
                    cost := s.c.cost.setIfInBounds p (h1.costOf p) },
    l := s.l }

theorem cluStep_none {unsup force : Bool} {negTop : Int} {k : Nat} {s : CluSt}
    (h : s.h.cnt = 0) : cluStep unsup force negTop k s = none := by
  unfold cluStep; rw [Heap.remove_empty _ h]

theorem cluStep_root {unsup force : Bool} {negTop : Int} {k : Nat} {s : CluSt} {h1 : Heap} {p : Nat}
    (hrem : s.h.remove = (h1, some p)) (hr : s.c.predOf p = none) :
    cluStep unsup force negTop k s =
      some ((s.c.nbrs unsup k p).foldl (cluRelax force negTop p) (popRoot unsup s h1 p)) := by
  have e : (({ s.c with order := s.c.order.push p } : Clu).predOf p == none) = true := by
    show (s.c.predOf p == none) = true
    rw [hr]; rfl
  unfold cluStep
  rw [hrem]
  simp only [e, if_true, true_and]
  rfl

theorem cluStep_link {unsup force : Bool} {negTop : Int} {k : Nat} {s : CluSt} {h1 : Heap} {p p' : Nat}
    (hrem : s.h.remove = (h1, some p)) (hr : s.c.predOf p = some p') :
    cluStep unsup force negTop k s =
      some ((s.c.nbrs unsup k p).foldl (cluRelax force negTop p) (popLink s h1 p)) := by
  have e : (({ s.c with order := s.c.order.push p } : Clu).predOf p == none) = false := by
    show (s.c.predOf p == none) = false
    rw [hr]; rfl
  unfold cluStep
  rw [hrem]
  simp only [e, Bool.false_eq_true, if_false, false_and]
  rfl


theorem nodup_snoc {l : List Nat} {p : Nat} (h : l.Nodup) (hp : p ∉ l) : (l ++ [p]).Nodup :=
  List.Nodup.append h (List.nodup_singleton p) (by simpa using hp)

theorem nbrs_lt {c0 : Clu} (w : c0.WF) {u : Bool} {k p q : Nat} (hp : p < c0.n)
    (hq : q ∈ c0.nbrs u k p) : q < c0.n := by
  unfold Clu.nbrs at hq
  cases u with
  | true => exact (w.adj_lt p hp q (List.mem_of_mem_take hq)).1
  | false => exact (w.adj_lt p hp q hq).1

/-- assembling the invariant after the removal of `p`. -/
theorem cinv_of_pop {unsup force : Bool} {k : Nat} {c0 : Clu} {s s' : CluSt} {p : Nat}
    (hI : CInv unsup force k c0 s) (hp : p < c0.n) (hpo : p ∉ s.c.order.toList)
    (ho : s'.c.order.toList = s.c.order.toList ++ [p])
    (hag : ∀ y, y ≠ p → Agree s s' y)
    (hinv : Heap.Inv s'.h) (hsize : s'.h.size = c0.n) (hmax : s'.h.isMax = true)
    (same : Same c0 s'.c) (hnode : NodeOK unsup force k c0 s' p)
    (hl : unsup = true →
      List.range s.l ++ (if (s'.c.predOf p == none) = true then [s'.c.labOf p] else []) =
        List.range s'.l) :
    CInv unsup force k c0 s' := by
  refine ⟨hinv, hsize, hmax, same, by rw [ho]; exact nodup_snoc hI.nd hpo, ?_, ?_, ?_⟩
  · intro x hx
    rw [ho, List.mem_append, List.mem_singleton] at hx
    rcases hx with hx | hx
    · exact hI.olt x hx
    · rw [hx]; exact hp
  · intro x hx
    by_cases hxp : x = p
    · rw [hxp]; exact hnode
    · exact (hI.node x hx).frame hxp hpo [p] (fun y hy => List.mem_singleton.1 hy) ho hag
  · intro hu
    rw [ho, List.filter_append, List.map_append,
      ids_congr s.c.order.toList s.c s'.c (fun y hy => by
        have hyp : y ≠ p := fun e => hpo (e ▸ hy)
        exact ⟨(hag y hyp).pred, (hag y hyp).lab⟩), hI.ids hu, ← hl hu]
    congr 1
    by_cases h : (s'.c.predOf p == none) = true
    · rw [if_pos h]
      have h' : s'.c.predOf p = none := by simpa using h
      simp [h']
    · rw [if_neg h]
      have h' : ¬ s'.c.predOf p = none := by simpa using h
      simp [h']

theorem pop_inv {unsup force : Bool} {k : Nat} {c0 : Clu} {s : CluSt}
    (hI : CInv unsup force k c0 s) (hne : 0 < s.h.cnt) :
    ∃ h1 p, s.h.remove = (h1, some p) ∧ p < c0.n ∧
      ((s.c.predOf p = none ∧ CInv unsup force k c0 (popRoot unsup s h1 p) ∧
          (popRoot unsup s h1 p).c.order = s.c.order.push p) ∨
       (∃ p', s.c.predOf p = some p' ∧ CInv unsup force k c0 (popLink s h1 p) ∧
          (popLink s h1 p).c.order = s.c.order.push p)) := by
  obtain ⟨p, hx2, hq, _, hinv1, hblack, hcol1, hcost1, _⟩ := Heap.remove_spec s.h hI.hinv hne
  have hrem : s.h.remove = (s.h.remove.1, some p) := Prod.ext rfl hx2
  have hpn : p < c0.n := by rw [← hI.hsize]; exact hq.1
  have np := hI.node p hpn
  have hpo : p ∉ s.c.order.toList := fun h => by
    have := np.blk.2 h; rw [hq.2] at this; exact absurd this (by decide)
  have hsz1 : (s.h.remove).1.size = c0.n := by rw [Heap.remove_size]; exact hI.hsize
  have hmax1 : (s.h.remove).1.isMax = true := by rw [remove_isMax]; exact hI.hmax
  have hcs : p < s.c.cost.size := by rw [hI.same.scost]; exact hpn
  have hls : p < s.c.lab.size := by rw [hI.same.slab]; exact hpn
  have horder : ∀ a : Array Nat, (a.push p).toList = a.toList ++ [p] := fun a => Array.toList_push
  refine ⟨s.h.remove.1, p, hrem, hpn, ?_⟩
  generalize s.h.remove.1 = h1 at hinv1 hblack hcol1 hcost1 hsz1 hmax1
  cases hpr : s.c.predOf p with
  | none =>
    left
    refine ⟨rfl, ?_, rfl⟩
    have hcz : p < h1.cost.size := by rw [hinv1.size_cost, hsz1]; exact hpn
    have hcp : (h1.setCost p (s.c.densOf p)).costOf p = c0.densOf p := by
      rw [Heap.setCost_costOf, if_pos ⟨rfl, hcz⟩, hI.same.densOf]
    have hag : ∀ y, y ≠ p → Agree s (popRoot unsup s h1 p) y := by
      intro y hy
      have n1 : ∀ m : Nat, ¬ (y = p ∧ p < m) := fun m h => hy h.1
      refine ⟨?_, hcol1 y hy, rfl, rfl, ?_, ?_⟩
      · show (h1.setCost p (s.c.densOf p)).costOf y = _
        rw [Heap.setCost_costOf, if_neg (n1 _)]; exact hcost1 y
      · show (s.c.lab.setIfInBounds p _).getD y 0 = _
        rw [Heap.getD_set, if_neg (n1 _)]; rfl
      · show (s.c.cost.setIfInBounds p _).getD y 0 = _
        rw [Heap.getD_set, if_neg (n1 _)]; rfl
    have hlabp : (popRoot unsup s h1 p).c.labOf p = if unsup then s.l else s.c.tlabelOf p := by
      show (s.c.lab.setIfInBounds p _).getD p 0 = _
      rw [Heap.getD_set, if_pos ⟨rfl, hls⟩]
    refine cinv_of_pop hI hpn hpo (horder _) hag
      (Heap.Inv_setCost hinv1 _ (by rw [hsz1]; exact hpn) (by rw [hblack]; decide))
      hsz1 hmax1 ?_ ?_ ?_
    · exact ⟨hI.same.n, hI.same.adj, hI.same.nplat, hI.same.dens, hI.same.tlabel,
        by show (s.c.cost.setIfInBounds p _).size = c0.n; rw [Array.size_setIfInBounds]; exact hI.same.scost,
        hI.same.spred, hI.same.sroot,
        by show (s.c.lab.setIfInBounds p _).size = c0.n; rw [Array.size_setIfInBounds]; exact hI.same.slab⟩
    · have hb : (popRoot unsup s h1 p).h.colorOf p = BLACK := hblack
      refine ⟨Or.inr hb, ?_, ?_, ?_, ?_, ?_⟩
      · rw [hb]
        refine ⟨fun _ => ?_, fun _ => rfl⟩
        show p ∈ (s.c.order.push p).toList
        rw [horder]; exact List.mem_append_right _ (List.mem_singleton_self p)
      · intro _
        show (s.c.cost.setIfInBounds p _).getD p 0 = _
        rw [Heap.getD_set, if_pos ⟨rfl, hcs⟩]; rfl
      · intro _
        refine ⟨(np.rootc hpr).1, ?_⟩
        rw [if_pos hb]; exact hcp
      · intro p' h
        have h' : s.c.predOf p = some p' := h
        rw [hpr] at h'; exact absurd h' (by simp)
      · intro hu _ _
        rw [hlabp, hu, hI.same.tlabelOf]; rfl
    · intro hu
      have hpp : ((popRoot unsup s h1 p).c.predOf p == none) = true := by
        show (s.c.predOf p == none) = true
        rw [hpr]; rfl
      rw [if_pos hpp, hlabp, hu]
      show List.range s.l ++ [s.l] = List.range (s.l + 1)
      rw [List.range_succ]
  | some p' =>
    right
    refine ⟨p', rfl, ?_, rfl⟩
    have hag : ∀ y, y ≠ p → Agree s (popLink s h1 p) y := by
      intro y hy
      have n1 : ∀ m : Nat, ¬ (y = p ∧ p < m) := fun m h => hy h.1
      refine ⟨hcost1 y, hcol1 y hy, rfl, rfl, rfl, ?_⟩
      show (s.c.cost.setIfInBounds p _).getD y 0 = _
      rw [Heap.getD_set, if_neg (n1 _)]; rfl
    refine cinv_of_pop hI hpn hpo (horder _) hag hinv1 hsz1 hmax1 ?_ ?_ ?_
    · exact ⟨hI.same.n, hI.same.adj, hI.same.nplat, hI.same.dens, hI.same.tlabel,
        by show (s.c.cost.setIfInBounds p _).size = c0.n; rw [Array.size_setIfInBounds]; exact hI.same.scost,
        hI.same.spred, hI.same.sroot, hI.same.slab⟩
    · have hb : (popLink s h1 p).h.colorOf p = BLACK := hblack
      refine ⟨Or.inr hb, ?_, ?_, ?_, ?_, ?_⟩
      · rw [hb]
        refine ⟨fun _ => ?_, fun _ => rfl⟩
        show p ∈ (s.c.order.push p).toList
        rw [horder]; exact List.mem_append_right _ (List.mem_singleton_self p)
      · intro _
        show (s.c.cost.setIfInBounds p _).getD p 0 = _
        rw [Heap.getD_set, if_pos ⟨rfl, hcs⟩]; rfl
      · intro h
        have h' : s.c.predOf p = none := h
        rw [hpr] at h'; exact absurd h' (by simp)
      · intro p'' h
        have h' : s.c.predOf p = some p'' := h
        have L := np.link p'' h'
        have hne : p'' ≠ p := fun e => hpo (e ▸ L.pin)
        refine ⟨L.plt, ?_, L.nbr, ?_, ?_, L.root, L.lab, L.tl, ?_⟩
        · show p'' ∈ (s.c.order.push p).toList
          rw [horder]; exact List.mem_append_left _ L.pin
        · show h1.costOf p = min (h1.costOf p'') (c0.densOf p)
          rw [hcost1, hcost1]; exact L.hcost
        · show c0.costOf p < h1.costOf p
          rw [hcost1]; exact L.gt
        · intro _
          show (s.c.order.push p).toList.idxOf p'' < (s.c.order.push p).toList.idxOf p
          rw [horder, List.idxOf_append_of_mem L.pin, List.idxOf_append_of_notMem hpo,
            List.idxOf_cons_self]
          have := List.idxOf_lt_length_iff.2 L.pin
          omega
      · intro _ _ h
        have h' : s.c.predOf p = none := h
        rw [hpr] at h'; exact absurd h' (by simp)
    · intro _
      have hpp : ¬ ((popLink s h1 p).c.predOf p == none) = true := by
        show ¬ (s.c.predOf p == none) = true
        rw [hpr]; simp
      rw [if_neg hpp, List.append_nil]
      rfl

/-! ### one iteration, the loop -/

theorem step_inv {unsup force : Bool} {negTop : Int} {k : Nat} {c0 : Clu} (w : c0.WF)
    (hc0 : ∀ i, i < c0.n → c0.costOf i < c0.densOf i)
    (hneg : ∀ i, i < c0.n → negTop < c0.costOf i)
    {s : CluSt} (hI : CInv unsup force k c0 s) (hne : 0 < s.h.cnt) :
    ∃ s', cluStep unsup force negTop k s = some s' ∧ CInv unsup force k c0 s' ∧
      s'.c.order.size = s.c.order.size + 1 := by
  obtain ⟨h1, p, hrem, hpn, hcase⟩ := pop_inv hI hne
  have hL : ∀ q, q ∈ s.c.nbrs unsup k p → q < c0.n ∧ q ∈ c0.nbrs unsup k p := fun q hq => by
    rw [hI.same.nbrs] at hq; exact ⟨nbrs_lt w hpn hq, hq⟩
  have hmem : p ∈ (s.c.order.push p).toList := by
    rw [Array.toList_push]; exact List.mem_append_right _ (List.mem_singleton_self p)
  rcases hcase with ⟨hr, hI', ho⟩ | ⟨p', hr, hI', ho⟩
  · obtain ⟨r1, r2⟩ := fold_inv hc0 hneg hpn _ hL _ hI' (by rw [ho]; exact hmem)
    exact ⟨_, cluStep_root hrem hr, r1, by rw [r2, ho, Array.size_push]⟩
  · obtain ⟨r1, r2⟩ := fold_inv hc0 hneg hpn _ hL _ hI' (by rw [ho]; exact hmem)
    exact ⟨_, cluStep_link hrem hr, r1, by rw [r2, ho, Array.size_push]⟩

theorem cluLoop_none {unsup force : Bool} {negTop : Int} {k : Nat} {s : CluSt} (fuel : Nat)
    (h : cluStep unsup force negTop k s = none) : cluLoop unsup force negTop k (fuel + 1) s = s := by
  simp only [cluLoop, h]

theorem cluLoop_some {unsup force : Bool} {negTop : Int} {k : Nat} {s s' : CluSt} (fuel : Nat)
    (h : cluStep unsup force negTop k s = some s') :
    cluLoop unsup force negTop k (fuel + 1) s = cluLoop unsup force negTop k fuel s' := by
  simp only [cluLoop, h]

theorem loop_inv {unsup force : Bool} {negTop : Int} {k : Nat} {c0 : Clu} (w : c0.WF)
    (hc0 : ∀ i, i < c0.n → c0.costOf i < c0.densOf i)
    (hneg : ∀ i, i < c0.n → negTop < c0.costOf i) (fuel : Nat) :
    ∀ s, CInv unsup force k c0 s → c0.n + 1 ≤ s.c.order.size + fuel →
      CInv unsup force k c0 (cluLoop unsup force negTop k fuel s) ∧
      (cluLoop unsup force negTop k fuel s).h.cnt = 0 := by
  induction fuel with
  | zero =>
    intro s hI hf
    exfalso
    have := nodup_length_le _ c0.n hI.nd hI.olt
    rw [Array.length_toList] at this
    omega
  | succ fuel ih =>
    intro s hI hf
    by_cases hc : s.h.cnt = 0
    · rw [cluLoop_none fuel (cluStep_none hc)]; exact ⟨hI, hc⟩
    · obtain ⟨s', hstep, hI', hsz⟩ := step_inv w hc0 hneg hI (Nat.pos_of_ne_zero hc)
      rw [cluLoop_some fuel hstep]
      exact ih s' hI' (by omega)

theorem all_black {unsup force : Bool} {k : Nat} {c0 : Clu} {s : CluSt}
    (hI : CInv unsup force k c0 s) (hc : s.h.cnt = 0) : ∀ x, x < c0.n → s.h.colorOf x = BLACK := by
  intro x hx
  have hemp : s.h.isEmpty = true := by unfold Heap.isEmpty; rw [hc]; rfl
  have hnq := (Heap.truthful s.h hI.hinv).1.1 hemp x
  rcases (hI.node x hx).col with h | h
  · exact absurd ⟨by rw [hI.hsize]; exact hx, h⟩ hnq
  · exact h

/-! ### the initial state -/

/-- state of the initialisation loop after the nodes `< j`. -/
structure IInv (c0 : Clu) (j : Nat) (s : CluSt) : Prop where
  hinv : Heap.Inv s.h
  hsize : s.h.size = c0.n
  hmax : s.h.isMax = true
  same : Same c0 s.c
  cost : s.c.cost = c0.cost
  order : s.c.order = c0.order
  l : s.l = 0
  lo : ∀ x, x < c0.n → x < j → s.h.colorOf x = GRAY ∧ s.h.costOf x = c0.costOf x ∧
    s.c.predOf x = none ∧ s.c.rootOf x = x
  hi : ∀ x, x < c0.n → j ≤ x → s.h.colorOf x = WHITE

theorem iinv_zero {c0 : Clu} (w : c0.WF) (top : Int) :
    IInv c0 0 { h := Heap.init c0.n true top, c := c0, l := 0 } :=
  ⟨Heap.inv_init _ _ _, rfl, rfl,
    ⟨rfl, rfl, rfl, rfl, rfl, w.size_cost, w.size_pred, w.size_root, w.size_lab⟩, rfl, rfl, rfl,
    fun x _ h => absurd h (Nat.not_lt_zero x), fun x _ _ => Heap.init_colorOf _ _ _ x⟩

theorem iinv_step {c0 : Clu} {j : Nat} {s : CluSt} (hj : j < c0.n) (hI : IInv c0 j s) :
    IInv c0 (j + 1) (cluInit s j) := by
  have hjs : j < s.h.size := by rw [hI.hsize]; exact hj
  have hw : s.h.colorOf j = WHITE := hI.hi j hj (Nat.le_refl j)
  have hcv : s.c.costOf j = c0.costOf j := by unfold Clu.costOf; rw [hI.cost]
  have i0 := Heap.Inv_setCost hI.hinv (s.c.costOf j) hjs (by rw [hw]; decide)
  obtain ⟨_, i1, g0, g1, c1, _⟩ := Heap.insert_spec (s.h.setCost j (s.c.costOf j)) j i0 hjs hw
  have hjc : j < s.h.cost.size := by rw [hI.hinv.size_cost]; exact hjs
  refine ⟨i1, (Heap.insert_size _ _).trans hI.hsize, (insert_isMax _ _).trans hI.hmax, ?_,
    hI.cost, hI.order, hI.l, ?_, ?_⟩
  · exact ⟨hI.same.n, hI.same.adj, hI.same.nplat, hI.same.dens, hI.same.tlabel, hI.same.scost,
      by show (s.c.pred.setIfInBounds j none).size = c0.n; rw [Array.size_setIfInBounds]; exact hI.same.spred,
      by show (s.c.root.setIfInBounds j j).size = c0.n; rw [Array.size_setIfInBounds]; exact hI.same.sroot,
      hI.same.slab⟩
  · intro x hx hxj
    show ((s.h.setCost j (s.c.costOf j)).insert j).1.colorOf x = GRAY ∧
      ((s.h.setCost j (s.c.costOf j)).insert j).1.costOf x = c0.costOf x ∧
      (s.c.pred.setIfInBounds j none).getD x none = none ∧
      (s.c.root.setIfInBounds j j).getD x 0 = x
    rw [c1, Heap.setCost_costOf, Heap.getD_set, Heap.getD_set]
    by_cases e : x = j
    · subst e
      rw [if_pos ⟨rfl, hjc⟩, if_pos ⟨rfl, by rw [hI.same.spred]; exact hj⟩,
        if_pos ⟨rfl, by rw [hI.same.sroot]; exact hj⟩]
      exact ⟨g0, hcv, rfl, rfl⟩
    · have n1 : ∀ m : Nat, ¬ (x = j ∧ j < m) := fun m h => e h.1
      obtain ⟨a1, a2, a3, a4⟩ := hI.lo x hx (by omega)
      rw [if_neg (n1 _), if_neg (n1 _), if_neg (n1 _), g1 x e]
      exact ⟨a1, a2, a3, a4⟩
  · intro x hx hxj
    show ((s.h.setCost j (s.c.costOf j)).insert j).1.colorOf x = WHITE
    rw [g1 x (by omega)]
    exact hI.hi x hx (by omega)

theorem iinv_fold {c0 : Clu} (w : c0.WF) (top : Int) (j : Nat) (hj : j ≤ c0.n) :
    IInv c0 j ((List.range j).foldl cluInit { h := Heap.init c0.n true top, c := c0, l := 0 }) := by
  induction j with
  | zero => exact iinv_zero w top
  | succ j ih =>
    rw [List.range_succ, List.foldl_append, List.foldl_cons, List.foldl_nil]
    exact iinv_step (by omega) (ih (by omega))

theorem cinv_of_iinv {unsup force : Bool} {k : Nat} {c0 : Clu} {s : CluSt}
    (ho : c0.order = #[]) (hI : IInv c0 c0.n s) : CInv unsup force k c0 s := by
  have hol : s.c.order.toList = [] := by rw [hI.order, ho]
  refine ⟨hI.hinv, hI.hsize, hI.hmax, hI.same, by rw [hol]; exact List.nodup_nil,
    fun x hx => by rw [hol] at hx; exact absurd hx List.not_mem_nil, ?_, ?_⟩
  · intro x hx
    obtain ⟨a1, a2, a3, a4⟩ := hI.lo x hx hx
    have hnb : ¬ s.h.colorOf x = BLACK := by rw [a1]; decide
    refine ⟨Or.inl a1, ⟨fun h => absurd h hnb, fun h => by rw [hol] at h; exact absurd h List.not_mem_nil⟩,
      fun h => absurd h hnb, fun _ => ⟨a4, by rw [if_neg hnb]; exact a2⟩, ?_, fun _ h => absurd h hnb⟩
    intro p hp
    rw [a3] at hp; exact absurd hp (by simp)
  · intro _
    rw [hol, hI.l]; rfl

/-! ### the finished run -/

/-- all fields but `nclusters` coincide. -/
structure EqF (a b : Clu) : Prop where
  n : b.n = a.n
  adj : b.adj = a.adj
  nplat : b.nplat = a.nplat
  dens : b.dens = a.dens
  cost : b.cost = a.cost
  pred : b.pred = a.pred
  root : b.root = a.root
  lab : b.lab = a.lab
  tlabel : b.tlabel = a.tlabel
  order : b.order = a.order

/-- what the finished run `r` satisfies, relative to the (symmetrised) input `c0`. -/
structure Final (unsup force : Bool) (k : Nat) (c0 r : Clu) : Prop where
  n : r.n = c0.n
  adj : r.adj = c0.adj
  nplat : r.nplat = c0.nplat
  dens : r.dens = c0.dens
  tlabel : r.tlabel = c0.tlabel
  wf : r.WF
  nd : r.order.toList.Nodup
  mem : ∀ t, t ∈ r.order.toList ↔ t < c0.n
  rootc : ∀ t, t < c0.n → r.predOf t = none → r.costOf t = c0.densOf t ∧ r.rootOf t = t
  link : ∀ q, q < c0.n → ∀ p, r.predOf q = some p →
    p < c0.n ∧ q ∈ c0.nbrs unsup k p ∧ r.costOf q = min (r.costOf p) (c0.densOf q) ∧
    c0.costOf q < r.costOf q ∧ r.order.toList.idxOf p < r.order.toList.idxOf q ∧
    r.rootOf q = r.rootOf p ∧ r.labOf q = r.labOf p ∧
    (force = true → c0.tlabelOf p = c0.tlabelOf q)
  ids : unsup = true →
    (r.order.toList.filter (fun t => r.predOf t == none)).map r.labOf = List.range r.nclusters
  knn : unsup = false → ∀ t, t < c0.n → r.predOf t = none → r.labOf t = c0.tlabelOf t

theorem final_of_cinv {unsup force : Bool} {k : Nat} {c0 : Clu} (w : c0.WF) {s : CluSt}
    (hI : CInv unsup force k c0 s) (hb : ∀ x, x < c0.n → s.h.colorOf x = BLACK)
    (r : Clu) (e : EqF s.c r) (hn : unsup = true → r.nclusters = s.l) :
    Final unsup force k c0 r := by
  have hpred : ∀ x, r.predOf x = s.c.predOf x := fun x => by unfold Clu.predOf; rw [e.pred]
  have hroot : ∀ x, r.rootOf x = s.c.rootOf x := fun x => by unfold Clu.rootOf; rw [e.root]
  have hlab : ∀ x, r.labOf x = s.c.labOf x := fun x => by unfold Clu.labOf; rw [e.lab]
  have hcost : ∀ x, r.costOf x = s.c.costOf x := fun x => by unfold Clu.costOf; rw [e.cost]
  have hlabf : r.labOf = s.c.labOf := funext hlab
  have hmem : ∀ t, t ∈ s.c.order.toList ↔ t < c0.n :=
    fun t => ⟨hI.olt t, fun ht => (hI.node t ht).blk.1 (hb t ht)⟩
  have a := hI.same
  refine ⟨e.n.trans a.n, e.adj.trans a.adj, e.nplat.trans a.nplat, e.dens.trans a.dens,
    e.tlabel.trans a.tlabel, ?_, by rw [e.order]; exact hI.nd, by rw [e.order]; exact hmem,
    ?_, ?_, ?_, ?_⟩
  · refine ⟨by rw [e.adj, a.adj, e.n, a.n]; exact w.size_adj,
      by rw [e.nplat, a.nplat, e.n, a.n]; exact w.size_nplat,
      by rw [e.dens, a.dens, e.n, a.n]; exact w.size_dens,
      by rw [e.cost, a.scost, e.n, a.n], by rw [e.pred, a.spred, e.n, a.n],
      by rw [e.root, a.sroot, e.n, a.n], by rw [e.lab, a.slab, e.n, a.n],
      by rw [e.tlabel, a.tlabel, e.n, a.n]; exact w.size_tlabel, ?_⟩
    intro i hi j hj
    have : r.adjOf i = c0.adjOf i := by unfold Clu.adjOf; rw [e.adj, a.adj]
    rw [this] at hj
    rw [e.n, a.n] at hi ⊢
    exact w.adj_lt i hi j hj
  · intro t ht hp
    rw [hpred] at hp
    have nt := hI.node t ht
    have := (nt.rootc hp)
    rw [if_pos (hb t ht)] at this
    rw [hcost, hroot, nt.cst (hb t ht)]
    exact ⟨this.2, this.1⟩
  · intro q hq p hp
    rw [hpred] at hp
    have nq := hI.node q hq
    have L := nq.link p hp
    have np := hI.node p L.plt
    rw [hcost, hcost, hroot, hroot, hlab, hlab, e.order, nq.cst (hb q hq), np.cst (hb p L.plt)]
    exact ⟨L.plt, L.nbr, L.hcost, L.gt, L.idx ((hmem q).2 hq), L.root, L.lab, L.tl⟩
  · intro hu
    rw [hn hu, e.order, hlabf, ← hI.ids hu]
    congr 2
    funext t
    rw [hpred]
  · intro hu t ht hp
    rw [hpred] at hp
    rw [hlab]
    exact (hI.node t ht).knn hu (hb t ht) hp

theorem clusterRun_eq (unsup force : Bool) (top negTop : Int) (k : Nat) (c : Clu) :
    clusterRun unsup force top negTop k c =
      if unsup then
        { (cluLoop unsup force negTop k ((c.sym unsup k).n + 1)
            ((List.range (c.sym unsup k).n).foldl cluInit
              { h := Heap.init (c.sym unsup k).n true top, c := c.sym unsup k, l := 0 })).c with
          nclusters := (cluLoop unsup force negTop k ((c.sym unsup k).n + 1)
            ((List.range (c.sym unsup k).n).foldl cluInit
              { h := Heap.init (c.sym unsup k).n true top, c := c.sym unsup k, l := 0 })).l }
      else
        (cluLoop unsup force negTop k ((c.sym unsup k).n + 1)
            ((List.range (c.sym unsup k).n).foldl cluInit
              { h := Heap.init (c.sym unsup k).n true top, c := c.sym unsup k, l := 0 })).c := rfl

/-- the run on a well-formed symmetrised input with an empty `order` ends in a `Final` state. -/
theorem run_final {unsup force : Bool} {top negTop : Int} {k : Nat} {c : Clu}
    (w : (c.sym unsup k).WF)
    (hc0 : ∀ i, i < (c.sym unsup k).n → (c.sym unsup k).costOf i < (c.sym unsup k).densOf i)
    (hneg : ∀ i, i < (c.sym unsup k).n → negTop < (c.sym unsup k).costOf i)
    (ho : (c.sym unsup k).order = #[]) :
    Final unsup force k (c.sym unsup k) (clusterRun unsup force top negTop k c) := by
  rw [clusterRun_eq]
  have h0 : CInv unsup force k (c.sym unsup k) _ :=
    cinv_of_iinv ho (iinv_fold w top (c.sym unsup k).n (Nat.le_refl _))
  obtain ⟨hI, hcnt⟩ := loop_inv (negTop := negTop) w hc0 hneg ((c.sym unsup k).n + 1) _ h0 (by omega)
  have hb := all_black hI hcnt
  cases unsup with
  | true =>
    exact final_of_cinv w hI hb _ ⟨rfl, rfl, rfl, rfl, rfl, rfl, rfl, rfl, rfl, rfl⟩ (fun _ => rfl)
  | false =>
    exact final_of_cinv w hI hb _ ⟨rfl, rfl, rfl, rfl, rfl, rfl, rfl, rfl, rfl, rfl⟩
      (fun h => absurd h (by decide))

/-! ### consequences of `Final` -/

/-- induction along the `pred` arcs (well-founded by the removal order). -/
theorem Final.induct {unsup force : Bool} {k : Nat} {c0 r : Clu} (F : Final unsup force k c0 r)
    (P : Nat → Prop) (h0 : ∀ t, t < c0.n → r.predOf t = none → P t)
    (h1 : ∀ t, t < c0.n → ∀ p, r.predOf t = some p → p < c0.n → P p → P t) :
    ∀ t, t < c0.n → P t := by
  suffices h : ∀ m t, r.order.toList.idxOf t = m → t < c0.n → P t from fun t ht => h _ t rfl ht
  intro m
  induction m using Nat.strongRecOn with
  | ind m ih =>
    intro t hm ht
    cases hp : r.predOf t with
    | none => exact h0 t ht hp
    | some p =>
      obtain ⟨hpn, _, _, _, hidx, _⟩ := F.link t ht p hp
      exact h1 t ht p hp hpn (ih _ (hm ▸ hidx) p rfl hpn)

theorem Final.reaches {unsup force : Bool} {k : Nat} {c0 r : Clu} (F : Final unsup force k c0 r) :
    ∀ t, t < c0.n → ∃ ρ, ρ < c0.n ∧ r.predOf ρ = none ∧ Clu.Chain r ρ t ∧ r.rootOf t = ρ ∧
      r.labOf t = r.labOf ρ := by
  refine F.induct _ (fun t ht hp => ⟨t, ht, hp, Clu.Chain.refl, (F.rootc t ht hp).2, rfl⟩) ?_
  intro t ht p hp _ ⟨ρ, h1, h2, h3, h4, h5⟩
  obtain ⟨_, _, _, _, _, hr, hl, _⟩ := F.link t ht p hp
  exact ⟨ρ, h1, h2, Clu.Chain.step hp h3, hr.trans h4, hl.trans h5⟩

theorem chain_root_unique {r : Clu} {ρ ρ' t : Nat} (h1 : Clu.Chain r ρ t) (h2 : Clu.Chain r ρ' t)
    (hρ : r.predOf ρ = none) (hρ' : r.predOf ρ' = none) : ρ = ρ' := by
  induction h1 with
  | refl =>
    cases h2 with
    | refl => rfl
    | step hp _ => rw [hρ] at hp; exact absurd hp (by simp)
  | step hp _ ih =>
    cases h2 with
    | refl => rw [hρ'] at hp; exact absurd hp (by simp)
    | step hp' hc' =>
      rw [hp] at hp'
      have e := Option.some.inj hp'
      subst e
      exact ih hc'

theorem Final.root_bound {unsup force : Bool} {k : Nat} {c0 r : Clu}
    (F : Final unsup force k c0 r) : ∀ t, t < c0.n → r.costOf t ≤ c0.densOf (r.rootOf t) := by
  refine F.induct _ (fun t ht hp => ?_) ?_
  · obtain ⟨a, b⟩ := F.rootc t ht hp
    rw [a, b]
  · intro t ht p hp _ ih
    obtain ⟨_, _, hc, _, _, hr, _, _⟩ := F.link t ht p hp
    rw [hr, hc]
    omega

theorem Final.cost_gt {unsup force : Bool} {k : Nat} {c0 r : Clu} (F : Final unsup force k c0 r)
    (hc0 : ∀ i, i < c0.n → c0.costOf i < c0.densOf i) :
    ∀ t, t < c0.n → c0.costOf t < r.costOf t := by
  intro t ht
  cases hp : r.predOf t with
  | none => rw [(F.rootc t ht hp).1]; exact hc0 t ht
  | some p => exact (F.link t ht p hp).2.2.2.1

theorem Final.forced {unsup force : Bool} {k : Nat} {c0 r : Clu} (F : Final unsup force k c0 r)
    (hu : unsup = false) (hf : force = true) : ∀ t, t < c0.n → r.labOf t = c0.tlabelOf t := by
  refine F.induct _ (fun t ht hp => F.knn hu t ht hp) ?_
  intro t ht p hp _ ih
  obtain ⟨_, _, _, _, _, _, hl, htl⟩ := F.link t ht p hp
  rw [hl, ih, htl hf]

/-- number of roots = number of cluster identifiers handed out. -/
theorem Final.count {unsup force : Bool} {k : Nat} {c0 r : Clu} (F : Final unsup force k c0 r)
    (hu : unsup = true) :
    r.nclusters = ((List.range c0.n).filter (fun t => r.predOf t == none)).length := by
  have hperm : r.order.toList.Perm (List.range c0.n) :=
    (List.perm_ext_iff_of_nodup F.nd List.nodup_range).2
      (fun t => by rw [F.mem, List.mem_range])
  have h1 := congrArg List.length (F.ids hu)
  rw [List.length_map, List.length_range] at h1
  rw [← h1]
  exact (hperm.filter _).length_eq

theorem propagate_getD (r : Clu) (t : Nat) (ht : t < r.n) :
    (propagateLabels r).getD t 0 = r.tlabelOf (r.rootOf t) := by
  unfold propagateLabels
  rw [Array.getD_eq_getD_getElem?, Array.getElem?_map, Array.getElem?_range]
  rw [if_pos ht]
  show (if r.rootOf t = t then r.tlabelOf t else r.tlabelOf (r.rootOf t)) = _
  split
  · next h => rw [h]
  · rfl

end Cluster

/-- hypotheses of C13 on the clustering input `c` (before symmetrisation): well-formed arrays and
adjacency; initial costs strictly below the densities; the sentinel `negTop` strictly below every
initial cost; for the unsupervised variant every list has at least the `k` entries its
symmetrisation scan reads; `order` empty, so that the `order` of the result is this run's
removal order. -/
structure Clu.Ready (unsup : Bool) (negTop : Int) (k : Nat) (c : Clu) : Prop where
  wf : c.WF
  below : ∀ i, i < c.n → c.costOf i < c.densOf i
  sentinel : ∀ i, i < c.n → negTop < c.costOf i
  long : unsup = true → ∀ i, i < c.n → k ≤ (c.adjOf i).length
  fresh : c.order = #[]

namespace Cluster

theorem run_spec {unsup force : Bool} {top negTop : Int} {k : Nat} {c : Clu}
    (h : c.Ready unsup negTop k) :
    SInv c (c.sym unsup k) ∧
      Final unsup force k (c.sym unsup k) (clusterRun unsup force top negTop k c) := by
  have s := sym_inv h.wf h.long
  have f := s.frame
  refine ⟨s, run_final (s.wf h.wf) ?_ ?_ (by rw [f.order]; exact h.fresh)⟩
  · intro i hi
    rw [f.costOf, f.densOf]; exact h.below i (f.n ▸ hi)
  · intro i hi
    rw [f.costOf]; exact h.sentinel i (f.n ▸ hi)

end Cluster
end Opf
