/-
Lemmas about the relational Prim semantics of `Model/PrimSpec.lean` used by the statements of C02:
an inductive invariant of lawful runs (`Inv`), its consequences for finished runs (`Tree`), the
cut and cycle properties, the prototype characterisation, and the identification of the tree with
the order-free `MstArc` set when weights are pairwise distinct.
-/
import OpfVerif.Model.PrimSpec
import Mathlib.Data.List.Nodup
import Mathlib.Data.List.Range
import Mathlib.Data.List.Perm.Basic

namespace Opf.PrimInst

/-! ### `List.idxOf` on `l ++ [p]` -/

theorem idx_snoc_mem {l : List Nat} {p x : Nat} (hx : x ∈ l) :
    (l ++ [p]).idxOf x = l.idxOf x := List.idxOf_append_of_mem hx

theorem idx_snoc_self {l : List Nat} {p : Nat} (hp : p ∉ l) :
    (l ++ [p]).idxOf p = l.length := by
  rw [List.idxOf_append_of_notMem hp]; simp

theorem idx_snoc_other {l : List Nat} {p x : Nat} (hx : x ∉ l) (hxp : x ≠ p) :
    (l ++ [p]).idxOf x = l.length + 1 := by
  rw [List.idxOf_append_of_notMem hx, List.idxOf_cons_ne _ (Ne.symm hxp)]; simp

theorem idx_notMem {l : List Nat} {x : Nat} (hx : x ∉ l) : l.idxOf x = l.length :=
  List.idxOf_eq_length_iff.2 hx

theorem idx_lt {l : List Nat} {x : Nat} (hx : x ∈ l) : l.idxOf x < l.length :=
  List.idxOf_lt_length_iff.2 hx

theorem mem_of_idx_lt {l : List Nat} {x : Nat} (hx : l.idxOf x < l.length) : x ∈ l :=
  List.idxOf_lt_length_iff.1 hx

variable (I : PrimInst)

/-! ### one removal -/

theorem relaxed_iff (s : PState) (p q : Nat) :
    I.relaxed s p q = true ↔ (q < I.n ∧ q ≠ p ∧ s.color q ≠ BLACK ∧ I.w p q < s.cost q) := by
  simp [relaxed]

theorem fire_order (s : PState) (p : Nat) : (I.fire s p).order = s.order ++ [p] := rfl

theorem fire_pred_relaxed {s : PState} {p q : Nat} (h : I.relaxed s p q = true) :
    (I.fire s p).pred q = some p := by simp [fire, h]

theorem fire_pred_not {s : PState} {p q : Nat} (h : ¬ I.relaxed s p q = true) :
    (I.fire s p).pred q = s.pred q := by simp [fire, h]

theorem fire_cost_relaxed {s : PState} {p q : Nat} (h : I.relaxed s p q = true) :
    (I.fire s p).cost q = I.w p q := by simp [fire, h]

theorem fire_cost_not {s : PState} {p q : Nat} (h : ¬ I.relaxed s p q = true) :
    (I.fire s p).cost q = s.cost q := by simp [fire, h]

theorem fire_color_self (s : PState) (p : Nat) : (I.fire s p).color p = BLACK := by simp [fire]

theorem fire_color_ne {s : PState} {p q : Nat} (h : q ≠ p) :
    (I.fire s p).color q =
      if I.relaxed s p q = true ∧ s.color q = WHITE then GRAY else s.color q := by
  simp [fire, h]

theorem fire_proto (s : PState) (p x : Nat) :
    (I.fire s p).proto x = true ↔
      s.proto x = true ∨ ∃ r, s.pred p = some r ∧ I.lam p ≠ I.lam r ∧ (x = p ∨ x = r) := by
  cases hp : s.pred p with
  | none => simp [fire, hp]
  | some r =>
    simp only [fire, hp, Option.some.injEq]
    by_cases hc : I.lam p ≠ I.lam r ∧ (x = p ∨ x = r)
    · rw [if_pos hc]
      exact ⟨fun _ => Or.inr ⟨r, rfl, hc.1, hc.2⟩, fun _ => rfl⟩
    · rw [if_neg hc]
      constructor
      · exact Or.inl
      · rintro (h | ⟨r', rfl, h1, h2⟩)
        · exact h
        · exact absurd ⟨h1, h2⟩ hc

/-! ### the invariant of lawful runs -/

structure Inv (s : PState) : Prop where
  h0 : s.order = [] → s = I.init
  hcol : ∀ x, x ∈ s.order ↔ s.color x = BLACK
  hlt : ∀ x, x ∈ s.order → x < I.n
  hnd : s.order.Nodup
  hhead : s.order ≠ [] → s.order.head? = some 0
  hgray : s.order ≠ [] → ∀ q, q < I.n → q ∉ s.order →
    s.color q = GRAY ∧ ∃ b, b ∈ s.order ∧ s.pred q = some b ∧ s.cost q = I.w b q ∧
      ∀ a, a ∈ s.order → s.cost q ≤ I.w a q
  hpar : ∀ v, v ∈ s.order → v ≠ 0 →
    ∃ u, s.pred v = some u ∧ u ∈ s.order ∧ s.order.idxOf u < s.order.idxOf v
  hcut : ∀ v u, v ∈ s.order → s.pred v = some u → ∀ a b, a < I.n → b < I.n →
    s.order.idxOf a < s.order.idxOf v → s.order.idxOf v ≤ s.order.idxOf b → I.w u v ≤ I.w a b
  hroot : s.pred 0 = none
  hdom : ∀ x y, s.pred x = some y → x < I.n ∧ y ∈ s.order
  hproto : ∀ x, s.proto x = true ↔
    ∃ v r, v ∈ s.order ∧ s.pred v = some r ∧ I.lam v ≠ I.lam r ∧ (x = v ∨ x = r)

theorem inv_init : I.Inv I.init where
  h0 := fun _ => rfl
  hcol := by
    intro x
    simp only [init, List.not_mem_nil, false_iff]
    split <;> simp [GRAY, WHITE, BLACK]
  hlt := by intro x hx; simp [init] at hx
  hnd := by simp [init]
  hhead := by intro h; simp [init] at h
  hgray := by intro h; simp [init] at h
  hpar := by intro v hv; simp [init] at hv
  hcut := by intro v u hv; simp [init] at hv
  hroot := rfl
  hdom := by intro x y h; simp [init] at h
  hproto := by intro x; simp [init]

/-- in the initial state only node 0 is queued. -/
theorem init_gray {p : Nat} (h : I.init.color p = GRAY) : p = 0 := by
  simp only [init] at h
  split at h
  · rename_i hc; exact hc.1
  · simp [GRAY, WHITE] at h

theorem inv_step (hg : I.Good) {s s' : PState} (h : I.Inv s) (hs : I.Step s s') : I.Inv s' := by
  obtain ⟨p, hp, hgp, hmin, rfl⟩ := hs
  have hpn : p ∉ s.order := by
    intro hm; have := (h.hcol p).1 hm; rw [hgp] at this; simp [GRAY, BLACK] at this
  -- nodes of the new order keep their predecessor
  have hkeep : ∀ v, v ∈ s.order ++ [p] → (I.fire s p).pred v = s.pred v := by
    intro v hv
    apply fire_pred_not
    rw [relaxed_iff]
    rintro ⟨_, h2, h3, _⟩
    rcases List.mem_append.1 hv with hv | hv
    · exact h3 ((h.hcol v).1 hv)
    · exact h2 (by simpa using hv)
  -- the first removal is node 0 from the initial state
  have hfirst : s.order = [] → s = I.init ∧ p = 0 := by
    intro he
    have := h.h0 he
    subst this
    exact ⟨rfl, I.init_gray hgp⟩
  have hne : s.order ++ [p] ≠ [] := by simp
  refine
    { h0 := ?_, hcol := ?_, hlt := ?_, hnd := ?_, hhead := ?_, hgray := ?_, hpar := ?_,
      hcut := ?_, hroot := ?_, hdom := ?_, hproto := ?_ }
  · intro he; exact absurd he hne
  · -- hcol
    intro x
    rw [fire_order, List.mem_append, List.mem_singleton]
    by_cases hx : x = p
    · subst hx; simp [fire_color_self]
    · rw [fire_color_ne I hx]
      split
      · rename_i hc
        have : x ∉ s.order := by
          intro hm; have := (h.hcol x).1 hm; rw [hc.2] at this; simp [WHITE, BLACK] at this
        simp [hx, this, GRAY, BLACK]
      · simp [hx, h.hcol x]
  · -- hlt
    intro x hx
    rw [fire_order, List.mem_append, List.mem_singleton] at hx
    rcases hx with hx | rfl
    · exact h.hlt x hx
    · exact hp
  · -- hnd
    rw [fire_order]
    refine List.nodup_append.2 ⟨h.hnd, by simp, ?_⟩
    intro a ha b hb
    rw [List.mem_singleton] at hb
    subst hb
    intro e; subst e; exact hpn ha
  · -- hhead
    intro _
    rw [fire_order, List.head?_append]
    by_cases he : s.order = []
    · obtain ⟨_, rfl⟩ := hfirst he
      simp [he]
    · rw [h.hhead he]; rfl
  · -- hgray
    intro _ q hq hqn
    rw [fire_order, List.mem_append, List.mem_singleton] at hqn
    have hqo : q ∉ s.order := fun hm => hqn (Or.inl hm)
    have hqp : q ≠ p := fun e => hqn (Or.inr e)
    by_cases he : s.order = []
    · obtain ⟨rfl, rfl⟩ := hfirst he
      have hr : I.relaxed I.init 0 q = true := by
        rw [relaxed_iff]
        refine ⟨hq, hqp, ?_, hg.w_lt_top 0 q hg.n_pos hq⟩
        simp [init, hqp, WHITE, BLACK]
      refine ⟨?_, 0, by simp [fire_order], fire_pred_relaxed I hr, fire_cost_relaxed I hr, ?_⟩
      · rw [fire_color_ne I hqp, if_pos ⟨hr, by simp [init, hqp]⟩]
      · intro a ha
        rw [fire_order] at ha
        simp [init] at ha
        subst ha
        rw [fire_cost_relaxed I hr]
        exact Int.le_refl _
    · obtain ⟨hcq, b, hb, hpq, hcost, hall⟩ := h.hgray he q hq hqo
      refine ⟨?_, ?_⟩
      · rw [fire_color_ne I hqp, hcq]; simp [GRAY, WHITE]
      · by_cases hr : I.relaxed s p q = true
        · refine ⟨p, by simp [fire_order], fire_pred_relaxed I hr, fire_cost_relaxed I hr, ?_⟩
          intro a ha
          rw [fire_cost_relaxed I hr]
          rw [fire_order, List.mem_append, List.mem_singleton] at ha
          rcases ha with ha | rfl
          · have := hall a ha
            have := ((relaxed_iff I s p q).1 hr).2.2.2
            omega
          · exact Int.le_refl _
        · refine ⟨b, by simp [fire_order, hb], by rw [fire_pred_not I hr]; exact hpq,
            by rw [fire_cost_not I hr]; exact hcost, ?_⟩
          intro a ha
          rw [fire_cost_not I hr]
          rw [fire_order, List.mem_append, List.mem_singleton] at ha
          rcases ha with ha | rfl
          · exact hall a ha
          · rw [relaxed_iff] at hr
            have hcb : s.color q ≠ BLACK := by rw [hcq]; simp [GRAY, BLACK]
            have : ¬ I.w a q < s.cost q := fun hlt => hr ⟨hq, hqp, hcb, hlt⟩
            omega
  · -- hpar
    intro v hv hv0
    rw [hkeep v hv]
    rw [fire_order] at hv ⊢
    rcases List.mem_append.1 hv with hvo | hvp
    · obtain ⟨u, hu, huo, hlt⟩ := h.hpar v hvo hv0
      exact ⟨u, hu, List.mem_append_left _ huo, by rw [idx_snoc_mem huo, idx_snoc_mem hvo]; exact hlt⟩
    · rw [List.mem_singleton] at hvp
      subst hvp
      by_cases he : s.order = []
      · exact absurd (hfirst he).2 hv0
      · obtain ⟨_, b, hb, hpq, _, _⟩ := h.hgray he v hp hpn
        refine ⟨b, hpq, List.mem_append_left _ hb, ?_⟩
        rw [idx_snoc_mem hb, idx_snoc_self hpn]
        exact idx_lt hb
  · -- hcut
    intro v u hv hpv a b ha hb hav hvb
    rw [hkeep v hv] at hpv
    rw [fire_order] at hv hav hvb
    rcases List.mem_append.1 hv with hvo | hvp
    · rw [idx_snoc_mem hvo] at hav hvb
      have hvl := idx_lt hvo
      have hao : a ∈ s.order := by
        by_contra hao
        by_cases hap : a = p
        · subst hap; rw [idx_snoc_self hpn] at hav; omega
        · rw [idx_snoc_other hao hap] at hav; omega
      rw [idx_snoc_mem hao] at hav
      refine h.hcut v u hvo hpv a b ha hb hav ?_
      by_cases hbo : b ∈ s.order
      · rw [idx_snoc_mem hbo] at hvb; exact hvb
      · rw [idx_notMem hbo]; omega
    · rw [List.mem_singleton] at hvp
      subst hvp
      rw [idx_snoc_self hpn] at hav hvb
      have hao : a ∈ s.order := by
        by_contra hao
        by_cases hap : a = v
        · subst hap; rw [idx_snoc_self hpn] at hav; omega
        · rw [idx_snoc_other hao hap] at hav; omega
      have hbo : b ∉ s.order := by
        intro hbo
        rw [idx_snoc_mem hbo] at hvb
        have := idx_lt hbo
        omega
      have he : s.order ≠ [] := by intro he; rw [he] at hao; simp at hao
      obtain ⟨_, u', _, hpu, hcu, _⟩ := h.hgray he v hp hpn
      rw [hpv] at hpu
      cases hpu
      obtain ⟨hcb, _, _, _, _, hball⟩ := h.hgray he b hb hbo
      have h1 := hmin b hb hcb
      have h2 := hball a hao
      omega
  · -- hroot
    by_cases he : s.order = []
    · obtain ⟨_, rfl⟩ := hfirst he
      rw [hkeep 0 (by simp)]; exact h.hroot
    · have h0 : (0 : Nat) ∈ s.order := by
        have := h.hhead he
        exact List.mem_of_mem_head? (by rw [this]; rfl)
      rw [hkeep 0 (List.mem_append_left _ h0)]; exact h.hroot
  · -- hdom
    intro x y hxy
    rw [fire_order]
    by_cases hr : I.relaxed s p x = true
    · rw [fire_pred_relaxed I hr] at hxy
      cases hxy
      exact ⟨((relaxed_iff I s p x).1 hr).1, by simp⟩
    · rw [fire_pred_not I hr] at hxy
      obtain ⟨h1, h2⟩ := h.hdom x y hxy
      exact ⟨h1, List.mem_append_left _ h2⟩
  · -- hproto
    intro x
    rw [fire_proto, h.hproto x, fire_order]
    constructor
    · rintro (⟨v, r, hv, hpv, hl, hx⟩ | ⟨r, hpr, hl, hx⟩)
      · exact ⟨v, r, List.mem_append_left _ hv,
          by rw [hkeep v (List.mem_append_left _ hv)]; exact hpv, hl, hx⟩
      · exact ⟨p, r, by simp, by rw [hkeep p (by simp)]; exact hpr, hl, hx⟩
    · rintro ⟨v, r, hv, hpv, hl, hx⟩
      rw [hkeep v hv] at hpv
      rcases List.mem_append.1 hv with hvo | hvp
      · exact Or.inl ⟨v, r, hvo, hpv, hl, hx⟩
      · rw [List.mem_singleton] at hvp
        subst hvp
        exact Or.inr ⟨r, hpv, hl, hx⟩

theorem inv_of_reach (hg : I.Good) {s : PState} (hr : Reach I s) : I.Inv s := by
  induction hr with
  | init => exact I.inv_init
  | step _ hs ih => exact I.inv_step hg ih hs

/-! ### progress -/

theorem exists_argmin (P : Nat → Prop) (f : Nat → Int) :
    ∀ m, (∃ q, q < m ∧ P q) → ∃ p, p < m ∧ P p ∧ ∀ q, q < m → P q → f p ≤ f q := by
  intro m
  induction m with
  | zero => rintro ⟨q, hq, _⟩; omega
  | succ m ih =>
    rintro ⟨q0, hq0, hP0⟩
    by_cases hex : ∃ q, q < m ∧ P q
    · obtain ⟨p, hp, hPp, hmin⟩ := ih hex
      by_cases hm : P m ∧ f m < f p
      · refine ⟨m, by omega, hm.1, ?_⟩
        intro q hq hPq
        by_cases hqm : q = m
        · subst hqm; exact Int.le_refl _
        · have := hmin q (by omega) hPq
          have := hm.2
          omega
      · refine ⟨p, by omega, hPp, ?_⟩
        intro q hq hPq
        by_cases hqm : q = m
        · subst hqm
          have : ¬ f q < f p := fun hlt => hm ⟨hPq, hlt⟩
          omega
        · exact hmin q (by omega) hPq
    · have hq0m : q0 = m := by
        by_contra hne
        exact hex ⟨q0, by omega, hP0⟩
      subst hq0m
      refine ⟨q0, by omega, hP0, ?_⟩
      intro q hq hPq
      by_cases hqm : q = q0
      · subst hqm; exact Int.le_refl _
      · exact absurd ⟨q, by omega, hPq⟩ hex

theorem prim_progress (_hg : I.Good) (s : PState) (_hr : Reach I s) (hnf : ¬ I.Final s) :
    ∃ s', I.Step s s' := by
  have hex : ∃ q, q < I.n ∧ s.color q = GRAY := by
    by_contra hcon
    apply hnf
    intro q hq hc
    exact hcon ⟨q, hq, hc⟩
  obtain ⟨p, hp, hcp, hmin⟩ := exists_argmin (fun q => s.color q = GRAY) s.cost I.n hex
  exact ⟨I.fire s p, p, hp, hcp, hmin, rfl⟩

/-! ### finished runs: the spanning tree -/

structure Tree (s : PState) : Prop where
  nd : s.order.Nodup
  mem : ∀ t, t ∈ s.order ↔ t < I.n
  head : s.order.head? = some 0
  root : s.pred 0 = none
  par : ∀ t, t < I.n → t ≠ 0 →
    ∃ p, s.pred t = some p ∧ p < I.n ∧ s.order.idxOf p < s.order.idxOf t
  dom : ∀ x y, s.pred x = some y → x < I.n ∧ y < I.n
  cut : ∀ u v, s.pred v = some u → ∀ a b, a < I.n → b < I.n →
    s.order.idxOf a < s.order.idxOf v → s.order.idxOf v ≤ s.order.idxOf b → I.w u v ≤ I.w a b
  proto : ∀ x, s.proto x = true ↔
    ∃ v r, s.pred v = some r ∧ I.lam v ≠ I.lam r ∧ (x = v ∨ x = r)

theorem tree_of_final (hg : I.Good) {s : PState} (hr : Reach I s) (hf : I.Final s) :
    I.Tree s := by
  have h := I.inv_of_reach hg hr
  have hne : s.order ≠ [] := by
    intro he
    have := h.h0 he
    subst this
    exact hf 0 hg.n_pos (by simp [init, hg.n_pos])
  have hall : ∀ q, q < I.n → q ∈ s.order := by
    intro q hq
    by_contra hqn
    exact hf q hq (h.hgray hne q hq hqn).1
  refine
    { nd := h.hnd, mem := fun t => ⟨h.hlt t, hall t⟩, head := h.hhead hne, root := h.hroot,
      par := ?_, dom := ?_, cut := ?_, proto := ?_ }
  · intro t ht ht0
    obtain ⟨u, hu, huo, hlt⟩ := h.hpar t (hall t ht) ht0
    exact ⟨u, hu, h.hlt u huo, hlt⟩
  · intro x y hxy
    obtain ⟨h1, h2⟩ := h.hdom x y hxy
    exact ⟨h1, h.hlt y h2⟩
  · intro u v hpv
    exact h.hcut v u (hall v (h.hdom v u hpv).1) hpv
  · intro x
    rw [h.hproto x]
    constructor
    · rintro ⟨v, r, _, hpv, hl, hx⟩; exact ⟨v, r, hpv, hl, hx⟩
    · rintro ⟨v, r, hpv, hl, hx⟩; exact ⟨v, r, hall v (h.hdom v r hpv).1, hpv, hl, hx⟩

variable {I}

theorem Tree.pred_lt {s : PState} (T : I.Tree s) {v u : Nat} (h : s.pred v = some u) :
    s.order.idxOf u < s.order.idxOf v := by
  have hv := (T.dom v u h).1
  have hv0 : v ≠ 0 := by rintro rfl; rw [T.root] at h; cases h
  obtain ⟨p, hp, _, hlt⟩ := T.par v hv hv0
  rw [h] at hp; cases hp; exact hlt

theorem Tree.idx_inj {s : PState} (T : I.Tree s) {x y : Nat} (hx : x < I.n)
    (h : s.order.idxOf x = s.order.idxOf y) : x = y :=
  (List.idxOf_inj ((T.mem x).2 hx)).1 h

theorem Tree.idx_zero {s : PState} (T : I.Tree s) : s.order.idxOf 0 = 0 := by
  have := T.head
  cases hord : s.order with
  | nil => rw [hord] at this; simp at this
  | cons a l =>
    rw [hord] at this
    simp only [List.head?_cons, Option.some.injEq] at this
    subst this
    exact List.idxOf_cons_self

theorem Tree.anc_le {s : PState} (T : I.Tree s) {c u : Nat} (h : Anc s c u) :
    s.order.idxOf c ≤ s.order.idxOf u := by
  induction h with
  | refl => exact Nat.le_refl _
  | step hu _ ih => have := T.pred_lt hu; omega

/-- ancestors of `u` are totally ordered. -/
theorem Tree.anc_chain {s : PState} (T : I.Tree s) {c d u pd : Nat} (hc : Anc s c u)
    (hd : Anc s d u) (hlt : s.order.idxOf c < s.order.idxOf d) (hpd : s.pred d = some pd) :
    Anc s c pd := by
  induction hd with
  | refl =>
    cases hc with
    | refl => omega
    | step hu h => rw [hpd] at hu; cases hu; exact h
  | step hu hd' ih =>
    cases hc with
    | refl => have := T.anc_le hd'; have := T.pred_lt hu; omega
    | step hu' h => rw [hu] at hu'; cases hu'; exact ih h

/-- first ancestor-or-self `d` of `v` whose tree arc crosses position `k`. -/
theorem Tree.exists_crossing {s : PState} (T : I.Tree s) (k : Nat) (hk : 0 < k) :
    ∀ m v, s.order.idxOf v = m → v < I.n → k ≤ s.order.idxOf v →
      ∃ d pd, Anc s d v ∧ s.pred d = some pd ∧ k ≤ s.order.idxOf d ∧ s.order.idxOf pd < k := by
  intro m
  induction m using Nat.strongRecOn with
  | _ m ih =>
    intro v hm hv hkv
    have hv0 : v ≠ 0 := by
      rintro rfl; rw [T.idx_zero] at hkv; omega
    obtain ⟨p, hpv, hp, hlt⟩ := T.par v hv hv0
    by_cases hpk : s.order.idxOf p < k
    · exact ⟨v, p, Anc.refl, hpv, hkv, hpk⟩
    · obtain ⟨d, pd, hd, hpd, h1, h2⟩ := ih (s.order.idxOf p) (by omega) p rfl hp (by omega)
      exact ⟨d, pd, Anc.step hpv hd, hpd, h1, h2⟩

theorem Tree.cycle {s : PState} (T : I.Tree s) (hg : I.Good) :
    ∀ t c pc u v, s.order.length - s.order.idxOf c = t → u < I.n → v < I.n →
      s.pred c = some pc → Anc s c u → ¬ Anc s c v → I.w pc c ≤ I.w u v := by
  intro t
  induction t using Nat.strongRecOn with
  | _ t ih =>
    intro c pc u v ht hu hv hpc hcu hcv
    have hcn := (T.dom c pc hpc).1
    have hcu_le := T.anc_le hcu
    by_cases hvc : s.order.idxOf v < s.order.idxOf c
    · have := T.cut pc c hpc v u hv hu hvc hcu_le
      rw [hg.symm u v hu hv]; exact this
    · have hk : 0 < s.order.idxOf c := by have := T.pred_lt hpc; omega
      obtain ⟨d, pd, hdv, hpd, hcd, hpdc⟩ :=
        T.exists_crossing (s.order.idxOf c) hk _ v rfl hv (by omega)
      have hdc : d ≠ c := by rintro rfl; exact hcv hdv
      obtain ⟨hdn, hpdn⟩ := T.dom d pd hpd
      have hlt : s.order.idxOf c < s.order.idxOf d := by
        have : s.order.idxOf c ≠ s.order.idxOf d := fun e => hdc (T.idx_inj hcn e).symm
        omega
      have h1 : I.w pc c ≤ I.w pd d := T.cut pc c hpc pd d hpdn hdn hpdc hcd
      have hdu : ¬ Anc s d u := by
        intro hdu
        have := T.anc_le (T.anc_chain hcu hdu hlt hpd)
        omega
      have hdl : s.order.idxOf d < s.order.length := idx_lt ((T.mem d).2 hdn)
      have h2 := ih (s.order.length - s.order.idxOf d) (by omega) d pd v u rfl hv hu hpd hdv hdu
      rw [hg.symm u v hu hv]; omega

/-! ### connectivity below a threshold -/

theorem Conn.right_lt {θ : Int} {u v : Nat} (h : Conn I θ u v) : v < I.n := by
  cases h with
  | refl h => exact h
  | arc _ hx _ => exact hx

theorem Conn.cons {θ : Int} {u v x : Nat} (hu : u < I.n) (huv : I.w u v < θ)
    (h : Conn I θ v x) : Conn I θ u x := by
  induction h with
  | refl hv => exact Conn.arc (Conn.refl hu) hv huv
  | arc _ hx hw ih => exact Conn.arc ih hx hw

theorem Conn.symm (hg : I.Good) {θ : Int} {u v : Nat} (h : Conn I θ u v) : Conn I θ v u := by
  induction h with
  | refl h => exact Conn.refl h
  | arc hc hx hw ih =>
    have hv := hc.right_lt
    exact Conn.cons hx (by rw [hg.symm _ _ hx hv]; exact hw) ih

/-- a path of arcs lighter than `θ` that crosses the cut in front of `v` forces
`w (pred v) v < θ`. -/
theorem Tree.conn_cross {s : PState} (T : I.Tree s) (hg : I.Good) {u v : Nat}
    (hp : s.pred v = some u) {θ : Int} {x y : Nat} (h : Conn I θ x y) :
    (s.order.idxOf x < s.order.idxOf v ↔ s.order.idxOf y < s.order.idxOf v) ∨ I.w u v < θ := by
  induction h with
  | refl _ => exact Or.inl Iff.rfl
  | @arc y z hc hz hw ih =>
    rcases ih with ih | ih
    · have hyn := hc.right_lt
      by_cases hy : s.order.idxOf y < s.order.idxOf v <;>
        by_cases hz' : s.order.idxOf z < s.order.idxOf v
      · left; rw [ih]; exact ⟨fun _ => hz', fun _ => hy⟩
      · right
        have := T.cut u v hp y z hyn hz hy (by omega)
        omega
      · right
        have := T.cut u v hp z y hz hyn hz' (by omega)
        rw [hg.symm z y hz hyn] at this
        omega
      · left; rw [ih]; exact ⟨fun h => absurd h hy, fun h => absurd h hz'⟩
    · exact Or.inr ih

/-- if every tree arc on the tree path between `x` and `y` is lighter than `θ`, the path
connects them below `θ`. -/
theorem Tree.conn_of_light {s : PState} (T : I.Tree s) (hg : I.Good) (θ : Int) :
    ∀ m x y, s.order.idxOf x + s.order.idxOf y = m → x < I.n → y < I.n →
      (∀ c pc, s.pred c = some pc → (Anc s c x ∧ ¬ Anc s c y) ∨ (Anc s c y ∧ ¬ Anc s c x) →
        I.w pc c < θ) → Conn I θ x y := by
  intro m
  induction m using Nat.strongRecOn with
  | _ m ih =>
    intro x y hm hx hy hl
    by_cases hxy : x = y
    · subst hxy; exact Conn.refl hx
    · have hne : s.order.idxOf x ≠ s.order.idxOf y := fun e => hxy (T.idx_inj hx e)
      rcases Nat.lt_or_gt_of_ne hne with hlt | hlt
      · have hy0 : y ≠ 0 := by rintro rfl; rw [T.idx_zero] at hlt; omega
        obtain ⟨q, hq, hqn, hqlt⟩ := T.par y hy hy0
        have hnx : ¬ Anc s y x := fun h => by have := T.anc_le h; omega
        have hw := hl y q hq (Or.inr ⟨Anc.refl, hnx⟩)
        have hc : Conn I θ x q := by
          refine ih (s.order.idxOf x + s.order.idxOf q) (by omega) x q rfl hx hqn ?_
          intro c pc hpc hcase
          apply hl c pc hpc
          rcases hcase with ⟨h1, h2⟩ | ⟨h1, h2⟩
          · left
            refine ⟨h1, fun h3 => ?_⟩
            cases h3 with
            | refl => exact hnx h1
            | step hpy h4 => rw [hq] at hpy; cases hpy; exact h2 h4
          · right; exact ⟨Anc.step hq h1, h2⟩
        exact Conn.arc hc hy hw
      · have hx0 : x ≠ 0 := by rintro rfl; rw [T.idx_zero] at hlt; omega
        obtain ⟨q, hq, hqn, hqlt⟩ := T.par x hx hx0
        have hny : ¬ Anc s x y := fun h => by have := T.anc_le h; omega
        have hw := hl x q hq (Or.inl ⟨Anc.refl, hny⟩)
        have hc : Conn I θ y q := by
          refine ih (s.order.idxOf y + s.order.idxOf q) (by omega) y q rfl hy hqn ?_
          intro c pc hpc hcase
          apply hl c pc hpc
          rcases hcase with ⟨h1, h2⟩ | ⟨h1, h2⟩
          · right
            refine ⟨h1, fun h3 => ?_⟩
            cases h3 with
            | refl => exact hny h1
            | step hpx h4 => rw [hq] at hpx; cases hpx; exact h2 h4
          · left; exact ⟨Anc.step hq h1, h2⟩
        exact (Conn.arc hc hx hw).symm hg

variable (I)

/-! ### the statements of C02 -/

theorem prim_spanning (hg : I.Good) (s : PState) (hr : Reach I s) (hf : I.Final s) :
    s.order.Nodup ∧ (∀ t, t ∈ s.order ↔ t < I.n) ∧ s.order.length = I.n ∧
    s.order.head? = some 0 ∧ s.pred 0 = none ∧
    (∀ t, t < I.n → t ≠ 0 →
      ∃ p, s.pred t = some p ∧ p < I.n ∧ s.order.idxOf p < s.order.idxOf t) := by
  have T := I.tree_of_final hg hr hf
  refine ⟨T.nd, T.mem, ?_, T.head, T.root, T.par⟩
  have hperm : s.order.Perm (List.range I.n) :=
    (List.perm_ext_iff_of_nodup T.nd List.nodup_range).2
      (fun a => by rw [T.mem, List.mem_range])
  rw [hperm.length_eq, List.length_range]

theorem prim_cut (hg : I.Good) (s : PState) (hr : Reach I s) (hf : I.Final s)
    (u v : Nat) (_hv : v < I.n) (hp : s.pred v = some u) (a b : Nat) (ha : a < I.n) (hb : b < I.n)
    (hab : s.order.idxOf a < s.order.idxOf v) (hvb : s.order.idxOf v ≤ s.order.idxOf b) :
    I.w u v ≤ I.w a b :=
  (I.tree_of_final hg hr hf).cut u v hp a b ha hb hab hvb

theorem prim_cycle (hg : I.Good) (s : PState) (hr : Reach I s) (hf : I.Final s)
    (c pc u v : Nat) (hu : u < I.n) (hv : v < I.n) (hpc : s.pred c = some pc)
    (hcu : Anc s c u) (hcv : ¬ Anc s c v) : I.w pc c ≤ I.w u v :=
  (I.tree_of_final hg hr hf).cycle hg _ c pc u v rfl hu hv hpc hcu hcv

theorem prim_prototypes (hg : I.Good) (s : PState) (hr : Reach I s) (hf : I.Final s) (v : Nat)
    (_hv : v < I.n) :
    s.proto v = true ↔ ∃ u, u < I.n ∧ TreeArc s u v ∧ I.lam u ≠ I.lam v := by
  have T := I.tree_of_final hg hr hf
  rw [T.proto v]
  constructor
  · rintro ⟨x, r, hpx, hl, rfl | rfl⟩
    · exact ⟨r, (T.dom _ r hpx).2, Or.inl hpx, Ne.symm hl⟩
    · exact ⟨x, (T.dom x _ hpx).1, Or.inr hpx, hl⟩
  · rintro ⟨u, _, hpu | hpu, hl⟩
    · exact ⟨v, u, hpu, Ne.symm hl, Or.inl rfl⟩
    · exact ⟨u, v, hpu, hl, Or.inr rfl⟩

theorem prim_every_class (hg : I.Good) (s : PState) (hr : Reach I s) (hf : I.Final s)
    (h2 : ∃ a b, a < I.n ∧ b < I.n ∧ I.lam a ≠ I.lam b) (a : Nat) (ha : a < I.n) :
    ∃ p, p < I.n ∧ s.proto p = true ∧ I.lam p = I.lam a := by
  have T := I.tree_of_final hg hr hf
  by_contra hno
  -- without such a prototype, membership in the class of `a` is constant along tree arcs
  have hconst : ∀ m x, s.order.idxOf x = m → x < I.n →
      (I.lam x = I.lam a ↔ I.lam 0 = I.lam a) := by
    intro m
    induction m using Nat.strongRecOn with
    | _ m ih =>
      intro x hm hx
      by_cases hx0 : x = 0
      · subst hx0; exact Iff.rfl
      · obtain ⟨p, hpx, hp, hlt⟩ := T.par x hx hx0
        have hih := ih (s.order.idxOf p) (by omega) p rfl hp
        rw [← hih]
        by_cases hxa : I.lam x = I.lam a <;> by_cases hpa : I.lam p = I.lam a
        · exact ⟨fun _ => hpa, fun _ => hxa⟩
        · exfalso; apply hno
          exact ⟨x, hx, (T.proto x).2 ⟨x, p, hpx, by rw [hxa]; exact Ne.symm hpa, Or.inl rfl⟩, hxa⟩
        · exfalso; apply hno
          exact ⟨p, hp, (T.proto p).2 ⟨x, p, hpx, by rw [hpa]; exact hxa, Or.inr rfl⟩, hpa⟩
        · exact ⟨fun h => absurd h hxa, fun h => absurd h hpa⟩
  obtain ⟨a', b', ha', hb', hab⟩ := h2
  have h0 : I.lam 0 = I.lam a := (hconst _ a rfl ha).1 rfl
  have h1 := (hconst _ a' rfl ha').2 h0
  have h2 := (hconst _ b' rfl hb').2 h0
  exact hab (h1.trans h2.symm)

theorem prim_tree_eq_mst (hg : I.Good) (hd : I.Distinct) (s : PState) (hr : Reach I s)
    (hf : I.Final s) (u v : Nat) (hu : u < I.n) (hv : v < I.n) :
    TreeArc s u v ↔ I.MstArc u v := by
  have T := I.tree_of_final hg hr hf
  constructor
  · rintro (hp | hp)
    · have hlt := T.pred_lt hp
      refine ⟨hu, hv, by rintro rfl; omega, fun hc => ?_⟩
      rcases T.conn_cross hg hp hc with h | h
      · have := h.1 hlt; omega
      · omega
    · have hlt := T.pred_lt hp
      refine ⟨hu, hv, by rintro rfl; omega, fun hc => ?_⟩
      rcases T.conn_cross hg hp hc with h | h
      · have := h.2 hlt; omega
      · rw [hg.symm v u hv hu] at h; omega
  · rintro ⟨_, _, hne, hnc⟩
    by_contra hnt
    apply hnc
    refine T.conn_of_light hg (I.w u v) _ u v rfl hu hv ?_
    intro c pc hpc hcase
    obtain ⟨hcn, hpcn⟩ := T.dom c pc hpc
    have hpcc : pc ≠ c := by
      rintro rfl; have := T.pred_lt hpc; omega
    have hle : I.w pc c ≤ I.w u v := by
      rcases hcase with ⟨h1, h2⟩ | ⟨h1, h2⟩
      · exact T.cycle hg _ c pc u v rfl hu hv hpc h1 h2
      · rw [hg.symm u v hu hv]; exact T.cycle hg _ c pc v u rfl hv hu hpc h1 h2
    have hneq : I.w pc c ≠ I.w u v := by
      intro e
      rcases hd pc c u v hpcn hcn hu hv hpcc hne e with ⟨rfl, rfl⟩ | ⟨rfl, rfl⟩
      · exact hnt (Or.inl hpc)
      · exact hnt (Or.inr hpc)
    omega

theorem prim_unique (hg : I.Good) (hd : I.Distinct) (s₁ s₂ : PState)
    (h₁ : Reach I s₁) (f₁ : I.Final s₁) (h₂ : Reach I s₂) (f₂ : I.Final s₂) :
    (∀ u v, u < I.n → v < I.n → (TreeArc s₁ u v ↔ TreeArc s₂ u v)) ∧
    (∀ v, v < I.n → s₁.proto v = s₂.proto v) := by
  have hT : ∀ u v, u < I.n → v < I.n → (TreeArc s₁ u v ↔ TreeArc s₂ u v) := by
    intro u v hu hv
    rw [I.prim_tree_eq_mst hg hd s₁ h₁ f₁ u v hu hv, I.prim_tree_eq_mst hg hd s₂ h₂ f₂ u v hu hv]
  refine ⟨hT, ?_⟩
  intro v hv
  rw [Bool.eq_iff_iff, I.prim_prototypes hg s₁ h₁ f₁ v hv, I.prim_prototypes hg s₂ h₂ f₂ v hv]
  constructor
  · rintro ⟨u, hu, ht, hl⟩; exact ⟨u, hu, (hT u v hu hv).1 ht, hl⟩
  · rintro ⟨u, hu, ht, hl⟩; exact ⟨u, hu, (hT u v hu hv).2 ht, hl⟩

/-! ### non-vacuity: a concrete lawful run with ties -/

/-- four samples, weights `w 0 2 = w 1 3 = 1`, every other pair `2` (so nodes 1 and 3 are tied in
the queue after 0 and 2 are removed), classes `{0, 1}` and `{2, 3}`. -/
def demoInst : PrimInst :=
  { n := 4,
    w := fun a b => if a = b then 0 else if (a + b) % 2 = 0 then 1 else 2,
    lam := fun x => if x < 2 then 0 else 1,
    top := 10 }

/-- the run removing 0, 2, 1, 3. -/
def demoFinal : PState :=
  demoInst.fire (demoInst.fire (demoInst.fire (demoInst.fire demoInst.init 0) 2) 1) 3

theorem demo_good : demoInst.Good where
  n_pos := by decide
  symm := by
    intro p q _ _
    simp only [demoInst, Nat.add_comm q p, eq_comm (a := q) (b := p)]
  w_lt_top := by
    intro p q _ _
    simp only [demoInst]
    split
    · decide
    · split <;> decide

example : Reach demoInst demoFinal ∧ demoInst.Final demoFinal ∧ demoInst.Good ∧
    demoFinal.order = [0, 2, 1, 3] ∧ (∃ a b, a < demoInst.n ∧ b < demoInst.n ∧
      demoInst.lam a ≠ demoInst.lam b) := by
  refine ⟨?_, ?_, demo_good, by decide, 0, 2, by decide, by decide, by decide⟩
  · have r1 : Reach demoInst (demoInst.fire demoInst.init 0) :=
      Reach.step Reach.init ⟨0, by decide, by decide, by decide, rfl⟩
    have r2 : Reach demoInst (demoInst.fire (demoInst.fire demoInst.init 0) 2) :=
      Reach.step r1 ⟨2, by decide, by decide, by decide, rfl⟩
    have r3 : Reach demoInst (demoInst.fire (demoInst.fire (demoInst.fire demoInst.init 0) 2) 1) :=
      Reach.step r2 ⟨1, by decide, by decide, by decide, rfl⟩
    exact Reach.step r3 ⟨3, by decide, by decide, by decide, rfl⟩
  · unfold Final; decide

end Opf.PrimInst
