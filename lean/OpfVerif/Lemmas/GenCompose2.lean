/-
Helpers for the end-to-end files `Props/C12Gen.lean`, `Props/C14Gen.lean`, `Props/C05Gen.lean`
(round 3 refinements composed with the model-level theorems).

* `LexLt`, `IsKNearest` — the vocabulary in which the end-to-end theorems describe a neighbour list
  WITHOUT mentioning the model (`kNearest`, `stableSort`): ascending distance, ties by index, every
  candidate left out lexicographically after every candidate kept.  `IsKNearest.unique` shows that the
  description determines the list; `isKNearest_kNearest` that the reference list of the model meets it.
* congruence of `stableSort` / `kNearest` / `scan` in the distance function (only the distances of
  the candidates matter);
* readers of `ArcsRefine.RelA`, the abstract reading `absA` of a well-formed flattened `KNNSubgraph`
  (`ArcsWF`), and `relA_abs`;
* running-maximum facts (`foldl max`) on sorted lists.
Core Lean + project modules only.
-/
import OpfVerif.Lemmas.Scan
import OpfVerif.Lemmas.ArcsRefine
import OpfVerif.Lemmas.GenCompose
namespace Opf.GenCompose2
open Opf Opf.Gen Opf.Gen.ArcsImp Opf.ArcsRefine

/-! ### lexicographic order (distance, index) -/

/-- `a` comes before `b`: strictly nearer, or equally near and smaller index. -/
def LexLt (dist : Nat → Int) (a b : Nat) : Prop := dist a < dist b ∨ (dist a = dist b ∧ a < b)

theorem LexLt.le {dist : Nat → Int} {a b : Nat} (h : LexLt dist a b) : dist a ≤ dist b := by
  rcases h with h | h <;> omega

theorem LexLt.irrefl (dist : Nat → Int) (a : Nat) : ¬ LexLt dist a a := by
  rintro (h | h) <;> omega

theorem LexLt.asymm {dist : Nat → Int} {a b : Nat} (h : LexLt dist a b) : ¬ LexLt dist b a := by
  rcases h with h | h <;> rintro (h' | h') <;> omega

theorem LexLt.trans {dist : Nat → Int} {a b c : Nat} (h : LexLt dist a b) (h' : LexLt dist b c) :
    LexLt dist a c := by
  unfold LexLt at *
  rcases h with h | h <;> rcases h' with h' | h' <;> omega

theorem LexLt.total (dist : Nat → Int) (a b : Nat) (hab : a ≠ b) : LexLt dist a b ∨ LexLt dist b a := by
  unfold LexLt
  omega

/-- the same order on slots `(distance, index)`. -/
def SlotLex (a b : Slot) : Prop := a.1 < b.1 ∨ (a.1 = b.1 ∧ a.2 < b.2)

theorem SlotLex.le {a b : Slot} (h : SlotLex a b) : a.1 ≤ b.1 := by
  rcases h with h | h <;> omega

theorem lex_stableInsert (a : Slot) (l : List Slot) (h : l.Pairwise SlotLex)
    (hlt : ∀ b ∈ l, b.2 < a.2) : (stableInsert a l).Pairwise SlotLex := by
  induction l with
  | nil => simp [stableInsert]
  | cons b l ih =>
    have hb := List.pairwise_cons.mp h
    simp only [stableInsert]
    split
    · rename_i hab
      refine List.pairwise_cons.mpr ⟨?_, h⟩
      intro x hx
      rcases List.mem_cons.mp hx with rfl | hx
      · exact Or.inl hab
      · have := (hb.1 x hx).le
        exact Or.inl (by omega)
    · rename_i hab
      refine List.pairwise_cons.mpr ⟨?_, ih hb.2 (fun c hc => hlt c (List.mem_cons_of_mem _ hc))⟩
      intro y hy
      rcases mem_stableInsert.mp hy with rfl | hy
      · have := hlt b List.mem_cons_self
        unfold SlotLex
        omega
      · exact hb.1 y hy

/-- on candidates listed in ascending index the reference sort is the lexicographic sort. -/
theorem lex_stableSort (dist : Nat → Int) (cands : List Nat) (hc : cands.Pairwise (· < ·)) :
    (stableSort dist cands).Pairwise SlotLex := by
  induction cands using list_snoc_induction with
  | nil => exact List.Pairwise.nil
  | snoc pre j ih =>
    rw [stableSort_concat]
    have hp := List.pairwise_append.mp hc
    refine lex_stableInsert _ _ (ih hp.1) ?_
    intro b hb
    exact hp.2.2 b.2 (mem_stableSort.mp hb).1 j (List.mem_singleton.mpr rfl)

/-! ### the description of a neighbour list -/

/-- `nb` lists the `m` candidates that come first in the order "ascending distance, ties by index":
`m` entries, all candidates, pairwise distinct, listed in that order, and every candidate NOT listed
comes after every listed one. -/
structure IsKNearest (dist : Nat → Int) (cand : Nat → Prop) (m : Nat) (nb : List Nat) : Prop where
  length_eq : nb.length = m
  mem_cand : ∀ j, j ∈ nb → cand j
  nodup : nb.Nodup
  sorted : nb.Pairwise (LexLt dist)
  nearest : ∀ j, cand j → j ∉ nb → ∀ t, t ∈ nb → LexLt dist t j

namespace IsKNearest
variable {dist : Nat → Int} {cand : Nat → Prop} {m : Nat} {nb : List Nat}

/-- distances along the list never decrease. -/
theorem dist_sorted (h : IsKNearest dist cand m nb) : (nb.map dist).Pairwise (· ≤ ·) := by
  rw [List.pairwise_map]
  exact h.sorted.imp (fun hab => hab.le)

/-- every candidate left out is at least as far as every candidate kept. -/
theorem smallest (h : IsKNearest dist cand m nb) (j : Nat) (hj : cand j) (hn : j ∉ nb) (t : Nat)
    (ht : t ∈ nb) : dist t ≤ dist j := (h.nearest j hj hn t ht).le

/-- only the distances of candidates matter. -/
theorem congr {dist' : Nat → Int} (h : IsKNearest dist cand m nb)
    (he : ∀ j, cand j → dist j = dist' j) : IsKNearest dist' cand m nb := by
  refine ⟨h.length_eq, h.mem_cand, h.nodup, ?_, ?_⟩
  · refine List.Pairwise.imp_of_mem ?_ h.sorted
    intro a b ha hb hab
    unfold LexLt at *
    rw [← he a (h.mem_cand a ha), ← he b (h.mem_cand b hb)]
    exact hab
  · intro j hj hn t ht
    have := h.nearest j hj hn t ht
    unfold LexLt at *
    rw [← he j hj, ← he t (h.mem_cand t ht)]
    exact this

/-- two lists meeting the description have the same members. -/
theorem mem_iff {nb' : List Nat} (h : IsKNearest dist cand m nb) (h' : IsKNearest dist cand m nb') :
    ∀ t, t ∈ nb → t ∈ nb' := by
  intro t ht
  by_cases htn : t ∈ nb'
  · exact htn
  · exfalso
    -- some member of nb' is not in nb (else nb' ⊆ nb \ {t}, too short)
    have hex : ∃ t', t' ∈ nb' ∧ t' ∉ nb := by
      by_cases hsub : ∀ t', t' ∈ nb' → t' ∈ nb
      · exfalso
        have hsub' : nb' ⊆ nb.erase t := by
          intro x hx
          have hxt : x ≠ t := fun e => htn (e ▸ hx)
          exact (List.mem_erase_of_ne hxt).mpr (hsub x hx)
        have hlen := (List.subperm_of_subset h'.nodup hsub').length_le
        rw [List.length_erase_of_mem ht, h.length_eq, h'.length_eq] at hlen
        have : 0 < nb.length := List.length_pos_of_mem ht
        rw [h.length_eq] at this
        omega
      · obtain ⟨t', ht'⟩ := Classical.not_forall.mp hsub
        exact ⟨t', Classical.not_imp.mp ht'⟩
    obtain ⟨t', ht', hn'⟩ := hex
    have a := h'.nearest t (h.mem_cand t ht) htn t' ht'
    have b := h.nearest t' (h'.mem_cand t' ht') hn' t ht
    exact a.asymm b

/-- the description determines the list. -/
theorem unique {nb' : List Nat} (h : IsKNearest dist cand m nb) (h' : IsKNearest dist cand m nb') :
    nb = nb' := by
  have hp : nb.Perm nb' :=
    (List.perm_ext_iff_of_nodup h.nodup h'.nodup).mpr
      (fun a => ⟨h.mem_iff h' a, h'.mem_iff h a⟩)
  -- two sorted (strict, asymmetric) permutations of each other are equal
  have key : ∀ (l l' : List Nat), l.Perm l' → l.Pairwise (LexLt dist) → l'.Pairwise (LexLt dist) →
      l = l' := by
    intro l
    induction l with
    | nil => intro l' hp _ _; exact (List.Perm.nil_eq hp)
    | cons a l ih =>
      intro l' hp hs hs'
      cases l' with
      | nil => exact absurd hp.symm (List.Perm.nil_eq · |> fun e => by cases e)
      | cons b l' =>
        have hsa := List.pairwise_cons.mp hs
        have hsb := List.pairwise_cons.mp hs'
        have hab : a = b := by
          by_cases e : a = b
          · exact e
          · exfalso
            have ha : a ∈ b :: l' := hp.subset List.mem_cons_self
            have hb : b ∈ a :: l := hp.symm.subset List.mem_cons_self
            have ha' : a ∈ l' := by
              rcases List.mem_cons.mp ha with h | h
              · exact absurd h e
              · exact h
            have hb' : b ∈ l := by
              rcases List.mem_cons.mp hb with h | h
              · exact absurd h.symm e
              · exact h
            exact (hsa.1 b hb').asymm (hsb.1 a ha')
        subst hab
        rw [ih l' (List.Perm.cons_inv hp) hsa.2 hsb.2]
  exact key nb nb' hp h.sorted h'.sorted

end IsKNearest

/-- **the model's reference list meets the description** (candidates given in ascending index). -/
theorem isKNearest_kNearest (k : Nat) (dist : Nat → Int) (cands : List Nat)
    (hc : cands.Pairwise (· < ·)) :
    IsKNearest dist (· ∈ cands) (min k cands.length) ((kNearest k dist cands).map (·.2)) := by
  have hlex := lex_stableSort dist cands hc
  have hnd : cands.Nodup := hc.imp (fun h => Nat.ne_of_lt h)
  refine ⟨by rw [List.length_map, length_kNearest], ?_, nodup_kNearest k dist cands hnd, ?_, ?_⟩
  · intro j hj
    obtain ⟨s, hs, rfl⟩ := List.mem_map.mp hj
    exact (mem_kNearest hs).1
  · rw [List.pairwise_map]
    have hk : (kNearest k dist cands).Pairwise SlotLex :=
      List.Pairwise.sublist (List.take_sublist _ _) hlex
    refine List.Pairwise.imp_of_mem ?_ hk
    intro a b ha hb hab
    have ea := (mem_kNearest ha).2
    have eb := (mem_kNearest hb).2
    unfold LexLt
    unfold SlotLex at hab
    rw [← ea, ← eb]
    exact hab
  · intro j hj hnot t ht
    obtain ⟨s, hs, rfl⟩ := List.mem_map.mp ht
    have hmem : (dist j, j) ∈ stableSort dist cands := mem_stableSort.mpr ⟨hj, rfl⟩
    rw [← List.take_append_drop k (stableSort dist cands)] at hmem hlex
    rcases List.mem_append.mp hmem with h | h
    · exact absurd (List.mem_map.mpr ⟨(dist j, j), h, rfl⟩) hnot
    · have := (List.pairwise_append.mp hlex).2.2 s hs _ h
      have es := (mem_kNearest hs).2
      unfold LexLt
      unfold SlotLex at this
      simp only at this
      rw [← es]
      exact this

/-- the distances stored in the reference list are those of the listed indices. -/
theorem kNearest_map_fst (k : Nat) (dist : Nat → Int) (cands : List Nat) :
    (kNearest k dist cands).map (·.1) = ((kNearest k dist cands).map (·.2)).map dist := by
  rw [List.map_map]
  refine List.map_congr_left ?_
  intro s hs
  exact (mem_kNearest hs).2

/-! ### congruence in the distance function -/

theorem stableSort_congr (dist dist' : Nat → Int) (cands : List Nat)
    (h : ∀ j, j ∈ cands → dist j = dist' j) : stableSort dist cands = stableSort dist' cands := by
  induction cands using list_snoc_induction with
  | nil => rfl
  | snoc pre j ih =>
    rw [stableSort_concat, stableSort_concat,
      ih (fun x hx => h x (List.mem_append_left _ hx)),
      h j (List.mem_append_right _ (List.mem_singleton.mpr rfl))]

theorem kNearest_congr (k : Nat) (dist dist' : Nat → Int) (cands : List Nat)
    (h : ∀ j, j ∈ cands → dist j = dist' j) : kNearest k dist cands = kNearest k dist' cands := by
  unfold kNearest
  rw [stableSort_congr dist dist' cands h]

theorem scan_congr (k : Nat) (top : Int) (dist dist' : Nat → Int) (cands : List Nat)
    (h : ∀ j, j ∈ cands → dist j = dist' j) : scan k top dist cands = scan k top dist' cands := by
  unfold scan
  generalize Array.replicate (k + 1) ((top, 0) : Slot) = b
  induction cands generalizing b with
  | nil => rfl
  | cons a l ih =>
    simp only [List.foldl_cons]
    rw [h a List.mem_cons_self]
    exact ih (fun j hj => h j (List.mem_cons_of_mem _ hj)) _

/-! ### candidates of `create_arcs` and of `predict` -/

theorem others_sorted (n i : Nat) : ((List.range n).filter (· ≠ i)).Pairwise (· < ·) :=
  List.Pairwise.filter _ List.pairwise_lt_range

theorem mem_others {n i j : Nat} : j ∈ (List.range n).filter (· ≠ i) ↔ j < n ∧ j ≠ i := by
  simp [List.mem_filter]

theorem length_others {n i : Nat} (hi : i < n) : ((List.range n).filter (· ≠ i)).length = n - 1 := by
  have he := List.Nodup.erase_eq_filter (List.nodup_range (n := n)) i
  have : ((List.range n).filter (· ≠ i)) = (List.range n).erase i := by
    rw [he]; congr 1; funext x; simp [bne]; rfl
  rw [this, List.length_erase_of_mem (List.mem_range.mpr hi), List.length_range]

/-! ### running maxima -/

/-- the running maximum from `a` bounds `a` and every element, and is `a` or an element. -/
theorem foldl_max_spec (a : Int) (l : List Int) :
    a ≤ l.foldl max a ∧ (∀ x ∈ l, x ≤ l.foldl max a) ∧ (l.foldl max a = a ∨ l.foldl max a ∈ l) :=
  ⟨foldl_max_ge l a, foldl_max_mem_le l a, foldl_max_attained l a⟩

/-- on a non-decreasing non-empty list of values `≥ a` the running maximum is the LAST value. -/
theorem foldl_max_sorted_last (a : Int) (l : List Int) (hs : l.Pairwise (· ≤ ·)) (hne : l ≠ [])
    (ha : ∀ x ∈ l, a ≤ x) : l.foldl max a = l.getLast hne := by
  have hmem := List.getLast_mem hne
  have hle : ∀ x ∈ l, x ≤ l.getLast hne := by
    intro x hx
    obtain ⟨pre, hpre⟩ : ∃ pre, l = pre ++ [l.getLast hne] :=
      ⟨l.dropLast, (List.dropLast_append_getLast hne).symm⟩
    rw [hpre] at hx hs
    rcases List.mem_append.mp hx with h | h
    · exact (List.pairwise_append.mp hs).2.2 x h _ (List.mem_singleton.mpr rfl)
    · rw [List.mem_singleton.mp h]
  have h1 := foldl_max_mem_le l a _ hmem
  rcases foldl_max_attained l a with h | h
  · have := ha _ hmem
    omega
  · have := hle _ h
    omega

/-! ### readers of `RelA` -/

section readers
variable {sg : ASG} {g : KnnSub}

theorem ra_adj (hr : RelA sg g) {x : Nat} (hx : x < g.n) :
    sg.adjacency.getD x #[] = adjInt (g.adj.getD x []) :=
  GenCompose.getD_of_getElem? (hr.adj x hx)

theorem ra_radius (hr : RelA sg g) {x : Nat} (hx : x < g.n) :
    sg.radius.getD x 0 = g.radius.getD x 0 :=
  GenCompose.getD_of_getElem? (hr.radius x hx)

theorem ra_nplat (hr : RelA sg g) {x : Nat} (hx : x < g.n) :
    sg.n_plateaus.getD x 0 = (g.nplat.getD x 0 : Int) :=
  GenCompose.getD_of_getElem? (hr.nplat x hx)

end readers

theorem adjInt_append (l l' : List Nat) : adjInt (l ++ l') = adjInt l ++ adjInt l' := by
  unfold adjInt
  simp

theorem adjInt_toList (l : List Nat) : (adjInt l).toList = l.map (fun (x : Nat) => (x : Int)) := by
  unfold adjInt
  simp

theorem adjInt_size (l : List Nat) : (adjInt l).size = l.length := by
  unfold adjInt
  simp

theorem adjInt_nil : adjInt [] = #[] := rfl

/-! ### the abstract reading of a flattened `KNNSubgraph` -/

/-- what `create_arcs` assumes of the object it is called on: `n` nodes, the three per-node arrays
have `n` entries, adjacency entries are node identifiers (non-negative), plateau counts are counts
(non-negative).  Nothing about `radius`, `density`, or the lengths of the lists. -/
structure ArcsWF (sg : ASG) (n : Nat) : Prop where
  n_eq : sg.n_nodes = (n : Int)
  sz_adj : sg.adjacency.size = n
  sz_radius : sg.radius.size = n
  sz_nplat : sg.n_plateaus.size = n
  adj_nonneg : ∀ i, i < n → ∀ z, z ∈ (sg.adjacency.getD i #[]).toList → 0 ≤ z
  nplat_nonneg : ∀ i, i < n → 0 ≤ sg.n_plateaus.getD i 0

/-- the model subgraph a well-formed `sg` stands for. -/
def absA (sg : ASG) (n : Nat) : KnnSub where
  n := n
  adj := sg.adjacency.map (fun a => a.toList.map Int.toNat)
  radius := sg.radius
  nplat := sg.n_plateaus.map Int.toNat
  bound := sg.density

theorem relA_abs {sg : ASG} {n : Nat} (h : ArcsWF sg n) : RelA sg (absA sg n) := by
  refine ⟨h.n_eq, rfl, h.sz_adj, h.sz_radius, h.sz_nplat, by simp [absA, h.sz_adj], h.sz_radius,
    by simp [absA, h.sz_nplat], ?_, ?_, ?_⟩
  · intro x hx
    have hx' : x < n := hx
    have hxs : x < sg.adjacency.size := by rw [h.sz_adj]; exact hx'
    have h0 := h.adj_nonneg x hx'
    simp only [absA, Array.getD_eq_getD_getElem?, Array.getElem?_map, Array.getElem?_eq_getElem hxs,
      Option.map_some, Option.getD_some] at h0 ⊢
    congr 1
    apply Array.ext'
    unfold adjInt
    simp only [List.map_map]
    symm
    have : ∀ z ∈ sg.adjacency[x].toList, ((fun (y : Nat) => (y : Int)) ∘ Int.toNat) z = z := by
      intro z hz
      have := h0 z hz
      simp only [Function.comp]
      omega
    rw [List.map_congr_left this, List.map_id']
  · intro x hx
    have hx' : x < n := hx
    have hxs : x < sg.radius.size := by rw [h.sz_radius]; exact hx'
    simp [absA, Array.getD_eq_getD_getElem?, hxs]
  · intro x hx
    have hx' : x < n := hx
    have hxs : x < sg.n_plateaus.size := by rw [h.sz_nplat]; exact hx'
    have h0 := h.nplat_nonneg x hx'
    simp only [absA, Array.getD_eq_getD_getElem?, Array.getElem?_map, Array.getElem?_eq_getElem hxs,
      Option.map_some, Option.getD_some] at h0 ⊢
    congr 1
    omega

theorem absA_n (sg : ASG) (n : Nat) : (absA sg n).n = n := rfl
theorem absA_bound (sg : ASG) (n : Nat) : (absA sg n).bound = sg.density := rfl

/-- the prior adjacency list of node `i`, read back from the abstraction. -/
theorem absA_adj {sg : ASG} {n : Nat} (h : ArcsWF sg n) {i : Nat} (hi : i < n) :
    adjInt ((absA sg n).adj.getD i []) = sg.adjacency.getD i #[] :=
  (ra_adj (relA_abs h) (show i < (absA sg n).n from hi)).symm

/-- every subgraph related to a model subgraph is well formed (so `create_arcs` can be called again
on what it returns). -/
theorem wf_of_relA {sg : ASG} {g : KnnSub} (hr : RelA sg g) : ArcsWF sg g.n := by
  refine ⟨hr.n, hr.sz_adj, hr.sz_radius, hr.sz_nplat, ?_, ?_⟩
  · intro i hi z hz
    rw [ra_adj hr hi, adjInt_toList] at hz
    obtain ⟨y, _, rfl⟩ := List.mem_map.mp hz
    omega
  · intro i hi
    rw [ra_nplat hr hi]
    omega

/-- the node stored at position `l` of the adjacency list of node `i`. -/
def nbrAt (sg : ASG) (i l : Nat) : Nat := ((sg.adjacency.getD i #[]).getD l 0).toNat

theorem nbrAt_new {sg : ASG} {i l : Nat} {nb : List Nat} {old : Array Int}
    (h : sg.adjacency.getD i #[] = adjInt nb ++ old) (hl : l < nb.length) :
    nbrAt sg i l = nb.getD l 0 := by
  unfold nbrAt
  rw [h]
  have hs : l < (adjInt nb).size := by rw [adjInt_size]; exact hl
  rw [Array.getD_eq_getD_getElem?, Array.getElem?_append_left hs]
  unfold adjInt
  simp [List.getD_eq_getElem?_getD, hl]

end Opf.GenCompose2
