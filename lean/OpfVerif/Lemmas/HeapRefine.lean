/-
Refinement between the translation of `opfython/core/heap.py` (`Gen/HeapImp.lean`) and the model
`Opf.Heap`.  Vocabulary + lemmas; the property-level statements are in `Props/C05Refine.lean`.
-/
import OpfVerif.Gen.HeapImp
import OpfVerif.Lemmas.Heap
namespace Opf.HeapRefine
open Opf Opf.Heap Opf.Gen.HeapImp

/-- the policy string of a model heap. -/
def polOf (isMax : Bool) : String := if isMax then "max" else "min"

/-- what the real `remove` returns for the model's result (`False` on an empty heap). -/
def retOf : Option Nat → Sum Int Bool
  | some x => Sum.inl (x : Int)
  | none => Sum.inr false

/-- abstraction relation: translated object `g` represents model state `h`. -/
structure Rel (g : Obj) (h : Heap) : Prop where
  size : g.size = (h.size : Int)
  policy : g.policy = polOf h.isMax
  last : g.last = (h.cnt : Int) - 1
  cost : g.cost = h.cost
  color_size : g.color.size = h.size
  color : ∀ x, x < h.size → g.color[x]? = some (h.colorOf x : Int)
  p_size : g.p.size = h.size
  p : ∀ k, k < h.cnt → g.p[k]? = some (h.slot k : Int)
  pos_size : g.pos.size = h.size
  pos : ∀ k, k < h.cnt → g.pos[h.slot k]? = some (k : Int)
  pos_free : ∀ x, x < h.size → h.colorOf x ≠ GRAY → g.pos[x]? = some (-1) ∨ g.pos[x]? = some 0

/-- outputs of the translated operations. -/
inductive GOut where
  | ok | fail | removed (p : Int)
deriving DecidableEq, Repr

def liftOut : Out → GOut
  | .ok => .ok
  | .fail => .fail
  | .removed x => .removed (x : Int)

/-- one operation of a history on the translated object; `ins x c` is
`h.cost[x] = c; h.insert(x)` exactly as the callers in the library write it. -/
def gstep (g : Obj) : Op → Option (Obj × GOut)
  | .ins x c => do
      let a ← Py.setIdx g.cost (x : Int) c
      let (g, b) ← Obj.insert { g with cost := a } (x : Int)
      pure (g, if b then .ok else .fail)
  | .insraw x => do
      let (g, b) ← Obj.insert g (x : Int)
      pure (g, if b then .ok else .fail)
  | .rem => do
      let (g, r) ← Obj.remove g
      pure (g, match r with | .inl p => .removed p | .inr _ => .fail)
  | .upd x c => do
      let (g, _) ← Obj.update g (x : Int) c
      pure (g, .ok)

def grun (g : Obj) : List Op → Option (Obj × List GOut)
  | [] => some (g, [])
  | op :: ops => do
      let (g1, o) ← gstep g op
      let (g2, os) ← grun g1 ops
      pure (g2, o :: os)

def greturned : List GOut → List Int
  | [] => []
  | .removed p :: os => p :: greturned os
  | .ok :: os => greturned os
  | .fail :: os => greturned os

/-! ### evaluation of the prelude -/

theorem idx_nat {α : Type} (a : Array α) (k : Nat) : Py.idx a (k : Int) = a[k]? := by
  unfold Py.idx Py.resolve
  by_cases h : k < a.size
  · simp [h]
  · simp [h]

theorem idx_of_eq {α : Type} (a : Array α) (z : Int) (k : Nat) (hz : z = k) : Py.idx a z = a[k]? := by
  subst hz; exact idx_nat a k

theorem setIdx_nat {α : Type} (a : Array α) (k : Nat) (v : α) (hk : k < a.size) :
    Py.setIdx a (k : Int) v = some (a.setIfInBounds k v) := by
  unfold Py.setIdx Py.resolve
  simp [hk]

theorem whileM_true {σ : Type} (c : σ → Option Bool) (b : σ → Option σ) (s s' : σ)
    (hc : c s = some true) (hb : b s = some s') : Py.whileM c b s = Py.whileM c b s' := by
  rw [Py.whileM.eq_1]; simp [hc, hb]

theorem whileM_false {σ : Type} (c : σ → Option Bool) (b : σ → Option σ) (s : σ)
    (hc : c s = some false) : Py.whileM c b s = some s := by
  rw [Py.whileM.eq_1]; simp [hc]

theorem tdiv_dad (i : Nat) : Int.tdiv ((i : Int) - 1) 2 = (((i - 1) / 2 : Nat) : Int) := by
  rcases Nat.eq_zero_or_pos i with rfl | hi
  · decide
  · rw [Int.tdiv_eq_ediv_of_nonneg (by omega)]
    omega

theorem dad_nat (g : Obj) (i : Nat) : Obj.dad g (i : Int) = some (((i - 1) / 2 : Nat) : Int) := by
  simp [Obj.dad, Py.intTrueDiv, tdiv_dad]

/-! ### reading a related object -/

theorem Rel.idx_p {g : Obj} {h : Heap} (hr : Rel g h) {k : Nat} (hk : k < h.cnt) :
    Py.idx g.p (k : Int) = some (h.slot k : Int) := by
  rw [idx_nat]; exact hr.p k hk

theorem Rel.idx_pos {g : Obj} {h : Heap} (hr : Rel g h) {k : Nat} (hk : k < h.cnt) :
    Py.idx g.pos (h.slot k : Int) = some (k : Int) := by
  rw [idx_nat]; exact hr.pos k hk

theorem Rel.idx_color {g : Obj} {h : Heap} (hr : Rel g h) {x : Nat} (hx : x < h.size) :
    Py.idx g.color (x : Int) = some (h.colorOf x : Int) := by
  rw [idx_nat]; exact hr.color x hx

theorem Rel.idx_cost {g : Obj} {h : Heap} (hr : Rel g h) (w : WF h) {x : Nat} (hx : x < h.size) :
    Py.idx g.cost (x : Int) = some (h.costOf x) := by
  rw [idx_nat, hr.cost]
  have : x < h.cost.size := by rw [w.size_cost]; exact hx
  simp [costOf, this]

theorem Rel.idx_key {g : Obj} {h : Heap} (hr : Rel g h) (w : WF h) {k : Nat} (hk : k < h.cnt) :
    Py.idx g.cost (h.slot k : Int) = some (h.key k) :=
  hr.idx_cost w (w.slot_lt k hk)

/-! ### the swap block -/

def gswap (g : Obj) (h : Heap) (a b : Nat) : Obj :=
  { g with p := (g.p.setIfInBounds b (h.slot a : Int)).setIfInBounds a (h.slot b : Int),
           pos := (g.pos.setIfInBounds (h.slot b) (a : Int)).setIfInBounds (h.slot a) (b : Int) }

theorem rel_gswap {g : Obj} {h : Heap} (hr : Rel g h) (w : WF h) {a b : Nat} (ha : a < h.cnt)
    (hb : b < h.cnt) : Rel (gswap g h a b) (h.swap a b) := by
  have hap := w.lt_p ha
  have hbp := w.lt_p hb
  have hsa := w.slot_lt_pos ha
  have hsb := w.slot_lt_pos hb
  have gap : a < g.p.size := by rw [hr.p_size, ← w.size_p]; exact hap
  have gbp : b < g.p.size := by rw [hr.p_size, ← w.size_p]; exact hbp
  have gsa : h.slot a < g.pos.size := by rw [hr.pos_size, ← w.size_pos]; exact hsa
  have gsb : h.slot b < g.pos.size := by rw [hr.pos_size, ← w.size_pos]; exact hsb
  refine ⟨hr.size, hr.policy, hr.last, hr.cost, hr.color_size, hr.color, ?_, ?_, ?_, ?_, ?_⟩
  · show ((g.p.setIfInBounds b _).setIfInBounds a _).size = h.size
    rw [Array.size_setIfInBounds, Array.size_setIfInBounds]; exact hr.p_size
  · intro k hk
    rw [swap_cnt] at hk
    show ((g.p.setIfInBounds b _).setIfInBounds a _)[k]? = _
    rw [swap_slot h a b k hap hbp, Array.getElem?_setIfInBounds, Array.getElem?_setIfInBounds,
      Array.size_setIfInBounds]
    by_cases e1 : k = a
    · subst e1; rw [if_pos rfl, if_pos rfl, if_pos gap]
    · rw [if_neg (fun e => e1 e.symm), if_neg e1]
      by_cases e2 : k = b
      · subst e2; rw [if_pos rfl, if_pos rfl, if_pos gbp]
      · rw [if_neg (fun e => e2 e.symm), if_neg e2]; exact hr.p k hk
  · show ((g.pos.setIfInBounds _ _).setIfInBounds _ _).size = h.size
    rw [Array.size_setIfInBounds, Array.size_setIfInBounds]; exact hr.pos_size
  · intro k hk
    rw [swap_cnt] at hk
    show ((g.pos.setIfInBounds _ _).setIfInBounds _ _)[_]? = _
    rw [swap_slot h a b k hap hbp, Array.getElem?_setIfInBounds, Array.getElem?_setIfInBounds,
      Array.size_setIfInBounds]
    by_cases e1 : k = a
    · subst e1
      rw [if_pos rfl]
      by_cases e : h.slot k = h.slot b
      · rw [if_pos e, if_pos gsa, w.slot_inj ha hb e]
      · rw [if_neg e, if_pos rfl, if_pos gsb]
    · rw [if_neg e1]
      by_cases e2 : k = b
      · subst e2; rw [if_pos rfl, if_pos rfl, if_pos gsa]
      · rw [if_neg e2]
        have n1 : ¬ h.slot a = h.slot k := fun e => e1 (w.slot_inj hk ha e.symm)
        have n2 : ¬ h.slot b = h.slot k := fun e => e2 (w.slot_inj hk hb e.symm)
        rw [if_neg n1, if_neg n2]
        exact hr.pos k hk
  · intro x hx hg
    rw [swap_size] at hx
    rw [swap_colorOf] at hg
    show ((g.pos.setIfInBounds _ _).setIfInBounds _ _)[_]? = _ ∨
      ((g.pos.setIfInBounds _ _).setIfInBounds _ _)[_]? = _
    have n1 : ¬ h.slot a = x := w.not_gray_slot hx hg ha
    have n2 : ¬ h.slot b = x := w.not_gray_slot hx hg hb
    rw [Array.getElem?_setIfInBounds, Array.getElem?_setIfInBounds, if_neg n1, if_neg n2]
    exact hr.pos_free x hx hg

/-! ### `go_up` -/

theorem goUp_loop (m : Bool) (C : Obj × Int × Int → Option Bool)
    (B : Obj × Int × Int → Option (Obj × Int × Int))
    (hC0 : ∀ g j, C (g, 0, j) = some false)
    (hC : ∀ g h (i : Nat), Rel g h → WF h → h.isMax = m → 0 < i → i < h.cnt →
      C (g, (i : Int), (((i - 1) / 2 : Nat) : Int)) =
        some (better m (h.key i) (h.key ((i - 1) / 2))))
    (hB : ∀ g h (i : Nat), Rel g h → WF h → 0 < i → i < h.cnt →
      B (g, (i : Int), (((i - 1) / 2 : Nat) : Int)) =
        some (gswap g h i ((i - 1) / 2), (((i - 1) / 2 : Nat) : Int),
          ((((i - 1) / 2 - 1) / 2 : Nat) : Int))) :
    ∀ (h : Heap) (i : Nat) (g : Obj), Rel g h → WF h → h.isMax = m → i < h.cnt →
      ∃ g' s, Py.whileM C B (g, (i : Int), (((i - 1) / 2 : Nat) : Int)) = some (g', s) ∧
        Rel g' (h.goUp i) := by
  intro h i
  fun_induction goUp h i with
  | case1 h =>
    intro g hr w hm hi
    exact ⟨g, _, whileM_false _ _ _ (hC0 g _), hr⟩
  | case2 h i hi0 hb ih =>
    intro g hr w hm hi
    have hj : (i - 1) / 2 < h.cnt := by omega
    have hc := hC g h i hr w hm (by omega) hi
    rw [← hm, hb] at hc
    rw [whileM_true _ _ _ _ hc (hB g h i hr w (by omega) hi)]
    exact ih _ (rel_gswap hr w hi hj) (WF_swap w hi hj) (by rw [swap_isMax]; exact hm)
      (by rw [swap_cnt]; exact hj)
  | case3 h i hi0 hb =>
    intro g hr w hm hi
    have hc := hC g h i hr w hm (by omega) hi
    rw [← hm, Bool.not_eq_true _ |>.mp hb] at hc
    exact ⟨g, _, whileM_false _ _ _ hc, hr⟩

theorem polOf_false : polOf false = "min" := rfl
theorem polOf_true : polOf true = "max" := rfl

theorem wrap_loop {σ : Type} {o : Option (Obj × σ)} {f : Obj × σ → Option (Obj × σ)}
    {k : Obj × σ → Option (Obj × Unit)} {P : Obj → Prop}
    (hf : ∀ x, f x = some x) (hk : ∀ x, k x = some (x.1, ()))
    (ho : ∃ g' s, o = some (g', s) ∧ P g') :
    ∃ g', (o.bind f).bind k = some (g', ()) ∧ P g' := by
  obtain ⟨g', s, e, hp⟩ := ho
  subst e
  exact ⟨g', by simp [hf, hk], hp⟩

theorem swap_comm (h : Heap) {a b : Nat} (hab : a ≠ b) (hs : h.slot a ≠ h.slot b) :
    h.swap a b = h.swap b a := by
  unfold swap
  simp only
  rw [Array.setIfInBounds_comm _ _ hab, Array.setIfInBounds_comm _ _ hs]

/-- the eight reads and writes of `p[j], p[i] = p[i], p[j]; pos[p[i]] = i; pos[p[j]] = j`. -/
theorem swap_evals {g : Obj} {h : Heap} (hr : Rel g h) (w : WF h) {a b : Nat} (ha : a < h.cnt)
    (hb : b < h.cnt) (hab : a ≠ b) :
    Py.idx g.p (a : Int) = some (h.slot a : Int) ∧
    Py.idx g.p (b : Int) = some (h.slot b : Int) ∧
    Py.setIdx g.p (b : Int) (h.slot a : Int) = some (g.p.setIfInBounds b (h.slot a : Int)) ∧
    Py.setIdx (g.p.setIfInBounds b (h.slot a : Int)) (a : Int) (h.slot b : Int) =
      some (gswap g h a b).p ∧
    Py.idx (gswap g h a b).p (a : Int) = some (h.slot b : Int) ∧
    Py.setIdx g.pos (h.slot b : Int) (a : Int) = some (g.pos.setIfInBounds (h.slot b) (a : Int)) ∧
    Py.idx (gswap g h a b).p (b : Int) = some (h.slot a : Int) ∧
    Py.setIdx (g.pos.setIfInBounds (h.slot b) (a : Int)) (h.slot a : Int) (b : Int) =
      some (gswap g h a b).pos := by
  have hap := w.lt_p ha
  have hbp := w.lt_p hb
  have gap : a < g.p.size := by rw [hr.p_size, ← w.size_p]; exact hap
  have gbp : b < g.p.size := by rw [hr.p_size, ← w.size_p]; exact hbp
  have gsa : h.slot a < g.pos.size := by rw [hr.pos_size, ← w.size_pos]; exact w.slot_lt_pos ha
  have gsb : h.slot b < g.pos.size := by rw [hr.pos_size, ← w.size_pos]; exact w.slot_lt_pos hb
  have hr' := rel_gswap hr w ha hb
  have e1 := hr'.idx_p (show a < (h.swap a b).cnt from ha)
  have e2 := hr'.idx_p (show b < (h.swap a b).cnt from hb)
  rw [swap_slot h a b _ hap hbp, if_pos rfl] at e1
  rw [swap_slot h a b _ hap hbp, if_neg (fun e => hab e.symm), if_pos rfl] at e2
  refine ⟨hr.idx_p ha, hr.idx_p hb, setIdx_nat _ _ _ gbp, ?_, e1, setIdx_nat _ _ _ gsb, e2, ?_⟩
  · exact setIdx_nat _ _ _ (by rw [Array.size_setIfInBounds]; exact gap)
  · exact setIdx_nat _ _ _ (by rw [Array.size_setIfInBounds]; exact gsa)

theorem go_up_refines {g : Obj} {h : Heap} (hr : Rel g h) (w : WF h) (i : Nat) (hi : i < h.cnt) :
    ∃ g', Obj.go_up g (i : Int) = some (g', ()) ∧ Rel g' (h.goUp i) := by
  unfold Obj.go_up
  rw [dad_nat]
  simp only [Option.bind_eq_bind, Option.bind_some, hr.policy]
  cases hm : h.isMax
  · simp only [polOf_false, decide_true, if_true]
    refine wrap_loop (fun _ => rfl) (fun _ => rfl) (goUp_loop false _ _ ?_ ?_ ?_ h i g hr w hm hi)
    · intro g j; simp
    · intro g h i hr w hm hi0 hi
      have hj : (i - 1) / 2 < h.cnt := by omega
      have hi0' : (i : Int) > 0 := by omega
      simp only [hi0', decide_true, if_true, hr.idx_p hi, hr.idx_p hj, hr.idx_key w hi,
        hr.idx_key w hj, Option.bind_some, pure, better]
      simp
    · intro g h i hr w hi0 hi
      have hj : (i - 1) / 2 < h.cnt := by omega
      obtain ⟨e1, e2, e3, e4, e5, e6, e7, e8⟩ := swap_evals hr w hi hj (by omega)
      simp only [e1, e2, e3, e4, e5, e6, e7, e8, dad_nat, Option.bind_some, pure]
      rfl
  · simp only [polOf_true, String.reduceEq, decide_false, Bool.false_eq_true, if_false]
    refine wrap_loop (fun _ => rfl) (fun _ => rfl) (goUp_loop true _ _ ?_ ?_ ?_ h i g hr w hm hi)
    · intro g j; simp
    · intro g h i hr w hm hi0 hi
      have hj : (i - 1) / 2 < h.cnt := by omega
      have hi0' : (i : Int) > 0 := by omega
      simp only [hi0', decide_true, if_true, hr.idx_p hi, hr.idx_p hj, hr.idx_key w hi,
        hr.idx_key w hj, Option.bind_some, pure, better]
    · intro g h i hr w hi0 hi
      have hj : (i - 1) / 2 < h.cnt := by omega
      obtain ⟨e1, e2, e3, e4, e5, e6, e7, e8⟩ := swap_evals hr w hi hj (by omega)
      simp only [e1, e2, e3, e4, e5, e6, e7, e8, dad_nat, Option.bind_some, pure]
      rfl

theorem go_up_nonpos (g : Obj) (i : Int) (hi : i ≤ 0) : Obj.go_up g i = some (g, ()) := by
  unfold Obj.go_up
  have hc : decide (i > 0) = false := by simp; omega
  simp only [Obj.dad, Py.intTrueDiv, Option.bind_eq_bind, Option.bind_some, pure,
    show ((2 : Int) = 0) = False from by simp, if_false]
  cases decide (g.policy = "min")
  · simp only [Bool.false_eq_true, if_false]
    rw [whileM_false]
    · rfl
    · simp only [hc, Bool.false_eq_true, if_false]
  · simp only [if_true]
    rw [whileM_false]
    · rfl
    · simp only [hc, Bool.false_eq_true, if_false]

/-! ### `go_down` -/

theorem Rel.idx_p' {g : Obj} {h : Heap} (hr : Rel g h) {k : Nat} (hk : k < h.cnt) (z : Int)
    (hz : z = k) : Py.idx g.p z = some (h.slot k : Int) := by
  subst hz; exact hr.idx_p hk

/-- the choice of `j` in `go_down`, for either policy (`f` is the comparison as written). -/
theorem pick_block {g : Obj} {h : Heap} (hr : Rel g h) (w : WF h) (i : Nat)
    (f : Int → Int → Bool) (hf : ∀ a b, f a b = better h.isMax a b) :
    ((if decide (2 * (i : Int) + 1 ≤ g.last) = true then
        (Py.idx g.p (2 * (i : Int) + 1)).bind fun t37 =>
          (Py.idx g.cost t37).bind fun t38 =>
            (Py.idx g.p (i : Int)).bind fun t39 =>
              (Py.idx g.cost t39).bind fun t40 => some (f t38 t40)
      else some false).bind fun t41 =>
      (if t41 = true then some (2 * (i : Int) + 1) else some (i : Int)).bind fun j =>
        (if decide (2 * (i : Int) + 2 ≤ g.last) = true then
            (Py.idx g.p (2 * (i : Int) + 2)).bind fun t42 =>
              (Py.idx g.cost t42).bind fun t43 =>
                (Py.idx g.p j).bind fun t44 =>
                  (Py.idx g.cost t44).bind fun t45 => some (f t43 t45)
          else some false).bind fun t46 =>
          if t46 = true then some (2 * (i : Int) + 2) else some j) =
      some ((h.pick i : Nat) : Int) := by
  have eL : ∀ hl : 2 * i + 1 < h.cnt, Py.idx g.p (2 * (i : Int) + 1) = some (h.slot (2 * i + 1) : Int) :=
    fun hl => hr.idx_p' hl _ (by omega)
  have eR : ∀ hl : 2 * i + 2 < h.cnt, Py.idx g.p (2 * (i : Int) + 2) = some (h.slot (2 * i + 2) : Int) :=
    fun hl => hr.idx_p' hl _ (by omega)
  have eI : ∀ hl : i < h.cnt, Py.idx g.p (i : Int) = some (h.slot i : Int) := fun hl => hr.idx_p hl
  have eK : ∀ k, k < h.cnt → Py.idx g.cost (h.slot k : Int) = some (h.key k) := fun k hk => hr.idx_key w hk
  have cL : (2 * (i : Int) + 1 ≤ g.last) ↔ 2 * i + 1 < h.cnt := by rw [hr.last]; omega
  have cR : (2 * (i : Int) + 2 ≤ g.last) ↔ 2 * i + 2 < h.cnt := by rw [hr.last]; omega
  unfold pick
  simp only [cL, cR, hf]
  by_cases hl : 2 * i + 1 < h.cnt
  · have hi : i < h.cnt := by omega
    simp only [hl, decide_true, if_true, eL hl, eI hi, eK _ hl, eK _ hi, Option.bind_some, true_and]
    by_cases bl : better h.isMax (h.key (2 * i + 1)) (h.key i) = true
    · simp only [bl, if_true, Option.bind_some]
      by_cases hr2 : 2 * i + 2 < h.cnt
      · simp only [hr2, decide_true, if_true, eL hl, eR hr2, eK _ hl, eK _ hr2, Option.bind_some, true_and]
        by_cases br : better h.isMax (h.key (2 * i + 2)) (h.key (2 * i + 1)) = true
        · simp [br]
        · simp [br]
      · simp [hr2]
    · simp only [bl, Bool.false_eq_true, if_false, Option.bind_some]
      by_cases hr2 : 2 * i + 2 < h.cnt
      · simp only [hr2, decide_true, if_true, eI hi, eR hr2, eK _ hi, eK _ hr2, Option.bind_some, true_and]
        by_cases br : better h.isMax (h.key (2 * i + 2)) (h.key i) = true
        · simp [br]
        · simp [br]
      · simp [hr2]
  · have hr2 : ¬ 2 * i + 2 < h.cnt := by omega
    simp [hl, hr2]

theorem go_down_wrap {J : Option Int} {R : Int → Option Obj} {K : Obj → Option (Obj × Unit)}
    {v : Int} {P : Obj → Prop} (hJ : J = some v) (hK : ∀ x, K x = some (x, ()))
    (hR : ∃ g', R v = some g' ∧ P g') :
    ∃ g', (J.bind fun j => (R j).bind K) = some (g', ()) ∧ P g' := by
  obtain ⟨g', e, hp⟩ := hR
  subst hJ
  exact ⟨g', by simp [e, hK], hp⟩

theorem polOf_min (m : Bool) : decide (polOf m = "min") = !m := by
  cases m <;> decide

theorem go_down_refines {g : Obj} {h : Heap} (i : Nat) (hr : Rel g h) (w : WF h) :
    ∃ g', Obj.go_down g (i : Int) = some (g', ()) ∧ Rel g' (h.goDown i) := by
  fun_induction goDown h i generalizing g with
  | case1 h i hp =>
    rw [Obj.go_down.eq_1]
    simp only [Obj.left_son, Obj.right_son, Option.bind_eq_bind, Option.bind_some, pure]
    have hpol : decide (g.policy = "min") = !h.isMax := by rw [hr.policy]; exact polOf_min _
    cases hm : h.isMax <;> rw [hm] at hpol <;>
      simp only [hpol, Bool.not_false, Bool.not_true, Bool.false_eq_true, if_true, if_false] <;>
      refine go_down_wrap (pick_block hr w i _ ?_) (fun _ => rfl) ?_
    · intro a b; rw [hm]; rfl
    · rw [hp]; exact ⟨g, by simp, hr⟩
    · intro a b; rw [hm]; rfl
    · rw [hp]; exact ⟨g, by simp, hr⟩
  | case2 h i hp ih =>
    rw [Obj.go_down.eq_1]
    simp only [Obj.left_son, Obj.right_son, Option.bind_eq_bind, Option.bind_some, pure]
    have hpol : decide (g.policy = "min") = !h.isMax := by rw [hr.policy]; exact polOf_min _
    obtain ⟨_, _, hj, _⟩ := (pick_spec h i).2 hp
    have hi : i < h.cnt := by have := pick_cases h i; omega
    have hne : h.slot i ≠ h.slot (h.pick i) := fun e => hp (w.slot_inj hi hj e).symm
    have hr' : Rel (gswap g h i (h.pick i)) (h.swap (h.pick i) i) := by
      rw [← swap_comm h (fun e => hp e.symm) hne]; exact rel_gswap hr w hi hj
    obtain ⟨g', e', r'⟩ := ih hr' (WF_swap w hj hi)
    obtain ⟨e1, e2, e3, e4, e5, e6, e7, e8⟩ := swap_evals hr w hi hj (fun e => hp e.symm)
    have hd : decide ((h.pick i : Int) ≠ (i : Int)) = true := by
      simp only [decide_eq_true_eq]; omega
    have fin : ((Obj.go_down (gswap g h i (h.pick i)) (h.pick i : Int)).bind fun x => some x.1)
        = some g' := by rw [e']; rfl
    cases hm : h.isMax <;> rw [hm] at hpol <;>
      simp only [hpol, Bool.not_false, Bool.not_true, Bool.false_eq_true, if_true, if_false] <;>
      refine go_down_wrap (pick_block hr w i _ ?_) (fun _ => rfl) ?_
    · intro a b; rw [hm]; rfl
    · simp only [hd, if_true, e1, e2, e3, e4, e5, e6, e7, e8, Option.bind_some]
      exact ⟨g', fin, r'⟩
    · intro a b; rw [hm]; rfl
    · simp only [hd, if_true, e1, e2, e3, e4, e5, e6, e7, e8, Option.bind_some]
      exact ⟨g', fin, r'⟩

/-! ### `insert` -/

def gins (g : Obj) (h : Heap) (x : Nat) : Obj :=
  { g with last := (h.cnt : Int), p := g.p.setIfInBounds h.cnt (x : Int),
           color := g.color.setIfInBounds x 1, pos := g.pos.setIfInBounds x (h.cnt : Int) }

theorem rel_gins {g : Obj} {h : Heap} (hr : Rel g h) (w : WF h) {x : Nat} (hx : x < h.size)
    (hg : h.colorOf x ≠ GRAY) (hnf : h.cnt < h.size) : Rel (gins g h x) (insPre h x) := by
  have hcp : h.cnt < h.p.size := by rw [w.size_p]; exact hnf
  have hxc : x < h.color.size := by rw [w.size_color]; exact hx
  have hxp : x < h.pos.size := by rw [w.size_pos]; exact hx
  have gcp : h.cnt < g.p.size := by rw [hr.p_size]; exact hnf
  have gxc : x < g.color.size := by rw [hr.color_size]; exact hx
  have gxp : x < g.pos.size := by rw [hr.pos_size]; exact hx
  refine ⟨hr.size, hr.policy, ?_, hr.cost, ?_, ?_, ?_, ?_, ?_, ?_, ?_⟩
  · show (h.cnt : Int) = ((h.cnt + 1 : Nat) : Int) - 1
    omega
  · show (g.color.setIfInBounds x 1).size = h.size
    rw [Array.size_setIfInBounds]; exact hr.color_size
  · intro y hy
    show (g.color.setIfInBounds x 1)[y]? = _
    rw [insPre_colorOf, Array.getElem?_setIfInBounds]
    by_cases e : x = y
    · subst e; rw [if_pos rfl, if_pos gxc, if_pos ⟨rfl, hxc⟩]; rfl
    · rw [if_neg e, if_neg (fun a => e a.1.symm)]; exact hr.color y hy
  · show (g.p.setIfInBounds h.cnt (x : Int)).size = h.size
    rw [Array.size_setIfInBounds]; exact hr.p_size
  · intro k hk
    rw [insPre_cnt] at hk
    show (g.p.setIfInBounds h.cnt (x : Int))[k]? = _
    rw [insPre_slot, Array.getElem?_setIfInBounds]
    by_cases e : h.cnt = k
    · subst e; rw [if_pos rfl, if_pos gcp, if_pos ⟨rfl, hcp⟩]
    · rw [if_neg e, if_neg (fun a => e a.1.symm)]; exact hr.p k (by omega)
  · show (g.pos.setIfInBounds x (h.cnt : Int)).size = h.size
    rw [Array.size_setIfInBounds]; exact hr.pos_size
  · intro k hk
    rw [insPre_cnt] at hk
    show (g.pos.setIfInBounds x (h.cnt : Int))[_]? = _
    rw [insPre_slot]
    by_cases e : k = h.cnt
    · subst e; rw [if_pos ⟨rfl, hcp⟩, Array.getElem?_setIfInBounds, if_pos rfl, if_pos gxp]
    · have hk' : k < h.cnt := by omega
      rw [if_neg (fun a => e a.1), Array.getElem?_setIfInBounds,
        if_neg (fun a => w.not_gray_slot hx hg hk' a.symm)]
      exact hr.pos k hk'
  · intro y hy hgy
    rw [insPre_size] at hy
    show (g.pos.setIfInBounds x (h.cnt : Int))[y]? = _ ∨ (g.pos.setIfInBounds x (h.cnt : Int))[y]? = _
    rw [insPre_colorOf] at hgy
    by_cases e : y = x
    · exact absurd (by rw [if_pos ⟨e, hxc⟩]) hgy
    · rw [if_neg (fun a => e a.1)] at hgy
      rw [Array.getElem?_setIfInBounds, if_neg (fun a => e a.symm)]
      exact hr.pos_free y hy hgy

theorem insert_refines_wf {g : Obj} {h : Heap} (hr : Rel g h) (w : WF h) (x : Nat)
    (hx : x < h.size) (hw : h.colorOf x = WHITE ∨ h.cnt = h.size) :
    ∃ g', Obj.insert g (x : Int) = some (g', (h.insert x).2) ∧ Rel g' (h.insert x).1 := by
  unfold Obj.insert
  simp only [Obj.is_full, Obj.set_last, Option.bind_eq_bind, pure]
  by_cases hf : h.cnt = h.size
  · have c : g.last = g.size - 1 := by rw [hr.last, hr.size, hf]
    rw [insert_full h x hf]
    simp only [c, decide_true, if_true, Option.bind_some, Bool.not_true, Bool.false_eq_true, if_false]
    exact ⟨g, rfl, hr⟩
  · have hW : h.colorOf x = WHITE := hw.resolve_right hf
    have hg : h.colorOf x ≠ GRAY := by rw [hW]; decide
    have hnf : h.cnt < h.size := by have := w.cnt_le; omega
    have c : ¬ g.last = g.size - 1 := by rw [hr.last, hr.size]; omega
    have c2 : ¬ (h.cnt : Int) < -1 := by omega
    have hl : g.last + 1 = (h.cnt : Int) := by rw [hr.last]; omega
    have e1 : Py.setIdx g.p (h.cnt : Int) (x : Int) = some (g.p.setIfInBounds h.cnt (x : Int)) :=
      setIdx_nat _ _ _ (by rw [hr.p_size]; exact hnf)
    have e2 : Py.setIdx g.color (x : Int) 1 = some (g.color.setIfInBounds x 1) :=
      setIdx_nat _ _ _ (by rw [hr.color_size]; exact hx)
    have e3 : Py.setIdx g.pos (x : Int) (h.cnt : Int) = some (g.pos.setIfInBounds x (h.cnt : Int)) :=
      setIdx_nat _ _ _ (by rw [hr.pos_size]; exact hx)
    simp only [c, c2, decide_false, if_true, Option.bind_some, Bool.not_true, Bool.not_false,
      Bool.false_eq_true, if_false, hl, e1, e2, e3]
    rw [insert_eq, if_neg hf]
    obtain ⟨g', e', r'⟩ := go_up_refines (rel_gins hr w hx hg hnf) (WF_insPre w hx hg hnf) h.cnt
      (by rw [insPre_cnt]; omega)
    refine ⟨g', ?_, r'⟩
    show ((Obj.go_up (gins g h x) (h.cnt : Int)).bind fun y => some (y.1, true)) = _
    rw [e']; rfl

/-! ### `remove` -/

theorem setIdx_of_eq {α : Type} (a : Array α) (z : Int) (k : Nat) (v : α) (hz : z = k)
    (hk : k < a.size) : Py.setIdx a z v = some (a.setIfInBounds k v) := by
  subst hz; exact setIdx_nat a k v hk

def grem (g : Obj) (h : Heap) : Obj :=
  { g with pos := (g.pos.setIfInBounds (h.slot 0) (-1)).setIfInBounds (h.slot (h.cnt - 1)) 0,
           color := g.color.setIfInBounds (h.slot 0) 2,
           p := (g.p.setIfInBounds 0 (h.slot (h.cnt - 1) : Int)).setIfInBounds (h.cnt - 1) (-1),
           last := g.last - 1 }

theorem rel_grem {g : Obj} {h : Heap} (hr : Rel g h) (w : WF h) (hne : 0 < h.cnt) :
    Rel (grem g h) (remPre h) := by
  have hn : h.cnt - 1 < h.cnt := by omega
  have h0p : 0 < h.p.size := w.lt_p hne
  have hsn : h.slot (h.cnt - 1) < h.pos.size := w.slot_lt_pos hn
  have hs0 : h.slot 0 < h.color.size := by rw [w.size_color]; exact w.slot_lt 0 hne
  have g0p : 0 < g.p.size := by rw [hr.p_size, ← w.size_p]; exact h0p
  have gsn : h.slot (h.cnt - 1) < g.pos.size := by rw [hr.pos_size, ← w.size_pos]; exact hsn
  have gs0 : h.slot 0 < g.color.size := by rw [hr.color_size, ← w.size_color]; exact hs0
  have gs0p : h.slot 0 < g.pos.size := by rw [hr.pos_size]; exact w.slot_lt 0 hne
  refine ⟨hr.size, hr.policy, ?_, hr.cost, ?_, ?_, ?_, ?_, ?_, ?_, ?_⟩
  · show g.last - 1 = ((h.cnt - 1 : Nat) : Int) - 1
    rw [hr.last]; omega
  · show (g.color.setIfInBounds _ 2).size = h.size
    rw [Array.size_setIfInBounds]; exact hr.color_size
  · intro y hy
    show (g.color.setIfInBounds _ 2)[y]? = _
    rw [remPre_colorOf, Array.getElem?_setIfInBounds]
    by_cases e : h.slot 0 = y
    · subst e; rw [if_pos rfl, if_pos gs0, if_pos ⟨rfl, hs0⟩]; rfl
    · rw [if_neg e, if_neg (fun a => e a.1.symm)]; exact hr.color y hy
  · show ((g.p.setIfInBounds 0 _).setIfInBounds _ _).size = h.size
    rw [Array.size_setIfInBounds, Array.size_setIfInBounds]; exact hr.p_size
  · intro k hk
    rw [remPre_cnt] at hk
    show ((g.p.setIfInBounds 0 _).setIfInBounds _ _)[k]? = _
    rw [remPre_slot, Array.getElem?_setIfInBounds, if_neg (by omega), Array.getElem?_setIfInBounds]
    by_cases e : 0 = k
    · subst e; rw [if_pos rfl, if_pos g0p, if_pos ⟨rfl, h0p⟩]
    · rw [if_neg e, if_neg (fun a => e a.1.symm)]; exact hr.p k (by omega)
  · show ((g.pos.setIfInBounds _ _).setIfInBounds _ _).size = h.size
    rw [Array.size_setIfInBounds, Array.size_setIfInBounds]; exact hr.pos_size
  · intro k hk
    rw [remPre_cnt] at hk
    show ((g.pos.setIfInBounds _ _).setIfInBounds _ _)[_]? = _
    rw [remPre_slot]
    by_cases e : k = 0
    · subst e
      rw [if_pos ⟨rfl, h0p⟩, Array.getElem?_setIfInBounds, if_pos rfl, Array.size_setIfInBounds,
        if_pos gsn]
      rfl
    · have hk' : k < h.cnt := by omega
      have n1 : ¬ h.slot (h.cnt - 1) = h.slot k := fun a => by
        have := w.slot_inj hn hk' a; omega
      have n2 : ¬ h.slot 0 = h.slot k := fun a => by
        have := w.slot_inj hne hk' a; omega
      rw [if_neg (fun a => e a.1), Array.getElem?_setIfInBounds, if_neg n1,
        Array.getElem?_setIfInBounds, if_neg n2]
      exact hr.pos k hk'
  · intro z hz hgz
    rw [remPre_size] at hz
    show ((g.pos.setIfInBounds _ _).setIfInBounds _ _)[z]? = _ ∨
      ((g.pos.setIfInBounds _ _).setIfInBounds _ _)[z]? = _
    rw [Array.getElem?_setIfInBounds, Array.size_setIfInBounds]
    by_cases e1 : h.slot (h.cnt - 1) = z
    · rw [if_pos e1, if_pos gsn]; exact Or.inr rfl
    · rw [if_neg e1, Array.getElem?_setIfInBounds]
      by_cases e2 : h.slot 0 = z
      · rw [if_pos e2, if_pos gs0p]; exact Or.inl rfl
      · rw [if_neg e2]
        rw [remPre_colorOf, if_neg (fun a => e2 a.1.symm)] at hgz
        exact hr.pos_free z hz hgz

theorem remove_refines_wf {g : Obj} {h : Heap} (hr : Rel g h) (w : WF h) :
    ∃ g', Obj.remove g = some (g', retOf (h.remove).2) ∧ Rel g' (h.remove).1 := by
  unfold Obj.remove
  simp only [Obj.is_empty, Obj.set_last, Option.bind_eq_bind, pure]
  by_cases h0 : h.cnt = 0
  · have c : g.last = -1 := by rw [hr.last, h0]; rfl
    rw [remove_empty h h0]
    simp only [c, decide_true, if_true, Option.bind_some, Bool.not_true, Bool.false_eq_true, if_false]
    exact ⟨g, rfl, hr⟩
  · have hne : 0 < h.cnt := by omega
    have hn : h.cnt - 1 < h.cnt := by omega
    have c : ¬ g.last = -1 := by rw [hr.last]; omega
    have c2 : ¬ g.last - 1 < -1 := by rw [hr.last]; omega
    have e1 : Py.idx g.p 0 = some (h.slot 0 : Int) := hr.idx_p' hne 0 rfl
    have e2 : Py.setIdx g.pos (h.slot 0 : Int) (-1) = some (g.pos.setIfInBounds (h.slot 0) (-1)) :=
      setIdx_nat _ _ _ (by rw [hr.pos_size]; exact w.slot_lt 0 hne)
    have e3 : Py.setIdx g.color (h.slot 0 : Int) 2 = some (g.color.setIfInBounds (h.slot 0) 2) :=
      setIdx_nat _ _ _ (by rw [hr.color_size]; exact w.slot_lt 0 hne)
    have e4 : Py.idx g.p g.last = some (h.slot (h.cnt - 1) : Int) :=
      hr.idx_p' hn _ (by rw [hr.last]; omega)
    have e5 : Py.setIdx g.p 0 (h.slot (h.cnt - 1) : Int) =
        some (g.p.setIfInBounds 0 (h.slot (h.cnt - 1) : Int)) :=
      setIdx_of_eq _ _ 0 _ rfl (by rw [hr.p_size]; have := w.cnt_le; omega)
    simp only [c, c2, decide_false, if_true, Option.bind_some, Bool.not_true, Bool.not_false,
      Bool.false_eq_true, if_false, e1, e2, e3, e4, e5]
    have g0p : 0 < g.p.size := by rw [hr.p_size]; have := w.cnt_le; omega
    have e6 : Py.idx (g.p.setIfInBounds 0 (h.slot (h.cnt - 1) : Int)) 0 =
        some (h.slot (h.cnt - 1) : Int) := by
      rw [idx_of_eq _ 0 0 rfl, Array.getElem?_setIfInBounds, if_pos rfl, if_pos g0p]
    have e7 : Py.setIdx (g.pos.setIfInBounds (h.slot 0) (-1)) (h.slot (h.cnt - 1) : Int) 0 =
        some (grem g h).pos :=
      setIdx_nat _ _ _ (by rw [Array.size_setIfInBounds, hr.pos_size]; exact w.slot_lt _ hn)
    have e8 : Py.setIdx (g.p.setIfInBounds 0 (h.slot (h.cnt - 1) : Int)) g.last (-1) =
        some (grem g h).p :=
      setIdx_of_eq _ _ (h.cnt - 1) _ (by rw [hr.last]; omega)
        (by rw [Array.size_setIfInBounds, hr.p_size]; have := w.cnt_le; omega)
    simp only [e6, e7, e8, Option.bind_some]
    rw [remove_eq, if_neg h0]
    obtain ⟨g', e', r'⟩ := go_down_refines 0 (rel_grem hr w hne) (WF_remPre w hne)
    refine ⟨g', ?_, r'⟩
    show ((Obj.go_down (grem g h) ((0 : Nat) : Int)).bind fun y => some (y.1, Sum.inl _)) = _
    rw [e']; rfl

/-! ### `update` -/

theorem rel_setCost {g : Obj} {h : Heap} (hr : Rel g h) (x : Nat) (c : Int) :
    Rel { g with cost := g.cost.setIfInBounds x c } (h.setCost x c) :=
  ⟨hr.size, hr.policy, hr.last, by show g.cost.setIfInBounds x c = h.cost.setIfInBounds x c; rw [hr.cost],
    hr.color_size, hr.color, hr.p_size, hr.p, hr.pos_size, hr.pos, hr.pos_free⟩

theorem setIdx_cost {g : Obj} {h : Heap} (hr : Rel g h) (w : WF h) {x : Nat} (hx : x < h.size)
    (c : Int) : Py.setIdx g.cost (x : Int) c = some (g.cost.setIfInBounds x c) :=
  setIdx_nat _ _ _ (by rw [hr.cost, w.size_cost]; exact hx)

theorem update_refines_wf {g : Obj} {h : Heap} (hr : Rel g h) (w : WF h) (x : Nat) (c : Int)
    (hx : x < h.size) :
    ∃ g', Obj.update g (x : Int) c = some (g', ()) ∧ Rel g' (h.update x c) := by
  unfold Obj.update
  have hr1 := rel_setCost hr x c
  have w1 := WF_setCost w x c
  simp only [Option.bind_eq_bind, pure, setIdx_cost hr w hx, hr.idx_color hx, Option.bind_some,
    ite_self]
  rw [update_eq]
  by_cases hW : h.colorOf x = WHITE
  · have d : decide (((h.colorOf x : Nat) : Int) = 0) = true := by rw [hW]; rfl
    obtain ⟨g', e', r'⟩ := insert_refines_wf hr1 w1 x hx (Or.inl hW)
    simp only [d, if_true, if_pos hW, e', Option.bind_some]
    exact ⟨g', rfl, r'⟩
  · have d : decide (((h.colorOf x : Nat) : Int) = 0) = false := by
      simp only [decide_eq_false_iff_not]; change ¬ h.colorOf x = 0 at hW; omega
    simp only [d, Bool.false_eq_true, if_false, if_neg hW]
    by_cases hG : h.colorOf x = GRAY
    · obtain ⟨k, hk, e⟩ := (w.gray_iff x hx).1 hG
      have hp : h.posOf x = k := by rw [← e]; exact w.pos_slot k hk
      have e1 : Py.idx g.pos (x : Int) = some (k : Int) := by rw [← e]; exact hr.idx_pos hk
      obtain ⟨g', e', r'⟩ := go_up_refines hr1 w1 k hk
      simp only [if_pos hG, e1, hp, e', Option.bind_some]
      exact ⟨g', rfl, r'⟩
    · have key : ∀ z : Int, z ≤ 0 → Py.idx g.pos (x : Int) = some z →
          ∃ g', ((Py.idx g.pos (x : Int)).bind fun t87 =>
            (Obj.go_up { g with cost := g.cost.setIfInBounds x c } t87).bind fun y => some y.1).bind
              (fun self => some (self, ())) = some (g', ()) ∧ Rel g' (h.setCost x c) := by
        intro z hz ez
        rw [ez, Option.bind_some, go_up_nonpos _ z hz]
        exact ⟨_, rfl, hr1⟩
      rw [if_neg hG]
      rcases hr.pos_free x hx hG with e1 | e1
      · exact key (-1) (by omega) (by rw [idx_nat]; exact e1)
      · exact key 0 (by omega) (by rw [idx_nat]; exact e1)

/-! ### the nine statements -/

def ginit (size : Nat) (isMax : Bool) (top : Int) : Obj where
  size := (size : Int)
  policy := polOf isMax
  cost := Array.replicate size top
  color := Array.replicate size 0
  p := Array.replicate size (-1)
  pos := Array.replicate size (-1)
  last := -1

theorem init_refines (size : Nat) (hs : 0 < size) (isMax : Bool) (top : Int) :
    ∃ g, Obj.init (size : Int) (polOf isMax) top = some g ∧ Rel g (Heap.init size isMax top) := by
  have c1 : ¬ (size : Int) < 1 := by omega
  have c2 : (["min", "max"].contains (polOf isMax)) = true := by cases isMax <;> decide
  have c3 : ¬ (-1 : Int) < -1 := by omega
  refine ⟨ginit size isMax top, ?_, ?_⟩
  · unfold Obj.init
    simp only [Obj.set_size, Obj.set_policy, Obj.set_cost, Obj.set_color, Obj.set_p, Obj.set_pos,
      Obj.set_last, Option.bind_eq_bind, pure, c1, c2, c3, decide_false, Bool.not_true,
      Bool.false_eq_true, if_false, Option.bind_some, Py.replicate, Int.toNat_natCast]
    rfl
  · refine ⟨rfl, rfl, ?_, rfl, Array.size_replicate, ?_, Array.size_replicate, ?_,
      Array.size_replicate, ?_, ?_⟩
    · show (-1 : Int) = ((0 : Nat) : Int) - 1
      rfl
    · intro x hx
      change x < size at hx
      show (Array.replicate size (0 : Int))[x]? = _
      rw [init_colorOf, Array.getElem?_replicate, if_pos hx]; rfl
    · intro k hk; exact absurd hk (Nat.not_lt_zero _)
    · intro k hk; exact absurd hk (Nat.not_lt_zero _)
    · intro x hx _
      change x < size at hx
      left
      show (Array.replicate size (-1 : Int))[x]? = _
      rw [Array.getElem?_replicate, if_pos hx]

theorem init_rejects (size : Int) (pol : String) (top : Int)
    (h : size < 1 ∨ (pol ≠ "min" ∧ pol ≠ "max")) : Obj.init size pol top = none := by
  unfold Obj.init
  simp only [Obj.set_size, Obj.set_policy, Option.bind_eq_bind, pure, Bool.not_true,
    Bool.false_eq_true, if_false]
  by_cases c1 : size < 1
  · simp only [c1, decide_true, if_true, Option.bind_none]
  · have hp := h.resolve_left c1
    have c2 : (["min", "max"].contains pol) = false := by
      simp [hp.1, hp.2]
    simp only [c1, decide_false, Bool.false_eq_true, if_false, Option.bind_some, c2, Bool.not_false,
      if_true, Option.bind_none]

theorem insert_refines (g : Obj) (h : Heap) (hr : Rel g h) (hinv : Inv h) (x : Nat)
    (hx : x < h.size) (hw : h.colorOf x = WHITE ∨ h.cnt = h.size) :
    ∃ g', Obj.insert g (x : Int) = some (g', (h.insert x).2) ∧ Rel g' (h.insert x).1 :=
  insert_refines_wf hr ((inv_iff h).1 hinv).1 x hx hw

theorem remove_refines (g : Obj) (h : Heap) (hr : Rel g h) (hinv : Inv h) :
    ∃ g', Obj.remove g = some (g', retOf (h.remove).2) ∧ Rel g' (h.remove).1 :=
  remove_refines_wf hr ((inv_iff h).1 hinv).1

theorem update_refines (g : Obj) (h : Heap) (hr : Rel g h) (hinv : Inv h) (x : Nat) (c : Int)
    (hx : x < h.size) :
    ∃ g', Obj.update g (x : Int) c = some (g', ()) ∧ Rel g' (h.update x c) :=
  update_refines_wf hr ((inv_iff h).1 hinv).1 x c hx

theorem step_refines (g : Obj) (h : Heap) (hr : Rel g h) (hinv : Inv h) (op : Op)
    (hl : Legal h op) :
    ∃ g', gstep g op = some (g', liftOut (step h op).2) ∧ Rel g' (step h op).1 := by
  have w := ((inv_iff h).1 hinv).1
  cases op with
  | ins x c =>
    obtain ⟨hx, hw⟩ := hl
    obtain ⟨g', e', r'⟩ := insert_refines_wf (rel_setCost hr x c) (WF_setCost w x c) x hx (Or.inl hw)
    refine ⟨g', ?_, by rw [step_ins]; exact r'⟩
    rw [step_ins]
    simp only [gstep, Option.bind_eq_bind, pure, setIdx_cost hr w hx, Option.bind_some, e']
    cases ((h.setCost x c).insert x).2 <;> rfl
  | insraw x =>
    obtain ⟨hx, hw⟩ := hl
    obtain ⟨g', e', r'⟩ := insert_refines_wf hr w x hx hw
    refine ⟨g', ?_, by rw [step_insraw]; exact r'⟩
    rw [step_insraw]
    simp only [gstep, Option.bind_eq_bind, pure, Option.bind_some, e']
    cases (h.insert x).2 <;> rfl
  | rem =>
    obtain ⟨g', e', r'⟩ := remove_refines_wf hr w
    refine ⟨g', ?_, by rw [step_rem]; exact r'⟩
    rw [step_rem]
    simp only [gstep, Option.bind_eq_bind, pure, Option.bind_some, e']
    cases (h.remove).2 <;> rfl
  | upd x c =>
    obtain ⟨hx, _⟩ := hl
    obtain ⟨g', e', r'⟩ := update_refines_wf hr w x c hx
    refine ⟨g', ?_, by rw [step_upd]; exact r'⟩
    rw [step_upd]
    simp only [gstep, Option.bind_eq_bind, pure, Option.bind_some, e']
    rfl

theorem grun_refines (ops : List Op) : ∀ (g : Obj) (h : Heap), Rel g h → Inv h → LegalRun h ops →
    ∃ g', grun g ops = some (g', ((run h ops).2).map liftOut) ∧ Rel g' (run h ops).1 := by
  induction ops with
  | nil => intro g h hr _ _; exact ⟨g, rfl, hr⟩
  | cons op ops ih =>
    intro g h hr hinv hl
    obtain ⟨g1, e1, r1⟩ := step_refines g h hr hinv op hl.1
    obtain ⟨g2, e2, r2⟩ := ih g1 _ r1 (step_inv h op hinv hl.1) hl.2
    refine ⟨g2, ?_, r2⟩
    simp only [grun, Option.bind_eq_bind, pure, Option.bind_some, e1, e2]
    rfl

theorem run_refines (size : Nat) (hs : 0 < size) (isMax : Bool) (top : Int) (ops : List Op)
    (hl : LegalRun (Heap.init size isMax top) ops) :
    ∃ g g', Obj.init (size : Int) (polOf isMax) top = some g ∧
      grun g ops = some (g', ((run (Heap.init size isMax top) ops).2).map liftOut) ∧
      Rel g' (run (Heap.init size isMax top) ops).1 := by
  obtain ⟨g, e, r⟩ := init_refines size hs isMax top
  obtain ⟨g', e', r'⟩ := grun_refines ops g _ r (inv_init size isMax top) hl
  exact ⟨g, g', e, e', r'⟩

theorem greturned_lift (os : List Out) :
    greturned (os.map liftOut) = (returned os).map (fun x : Nat => (x : Int)) := by
  induction os with
  | nil => rfl
  | cons o os ih =>
    cases o with
    | ok => exact ih
    | fail => exact ih
    | removed x =>
      show (x : Int) :: greturned (os.map liftOut) = (x : Int) :: (returned os).map _
      rw [ih]

theorem gen_exactly_once (size : Nat) (hs : 0 < size) (isMax : Bool) (top : Int) (ops : List Op)
    (hl : LegalRun (Heap.init size isMax top) ops) :
    ∃ g g' outs, Obj.init (size : Int) (polOf isMax) top = some g ∧ grun g ops = some (g', outs) ∧
      (greturned outs).Nodup ∧
      (∀ p, p ∈ greturned outs ↔ (0 ≤ p ∧ p < (size : Int) ∧ Py.idx g'.color p = some 2)) ∧
      (g'.last = -1 → ∀ p, 0 ≤ p → p < (size : Int) → Py.idx g'.color p ≠ some 0 →
        p ∈ greturned outs) := by
  obtain ⟨g, g', e, e', r'⟩ := run_refines size hs isMax top ops hl
  obtain ⟨nd, mem, emp⟩ := run_exactly_once size isMax top ops hl
  have hsz : (run (Heap.init size isMax top) ops).1.size = size :=
    (run_colors _ ops (inv_init size isMax top) hl).1
  generalize run (Heap.init size isMax top) ops = r at *
  have hcol : ∀ x, x < size → Py.idx g'.color (x : Int) = some (r.1.colorOf x : Int) :=
    fun x hx => r'.idx_color (by rw [hsz]; exact hx)
  refine ⟨g, g', _, e, e', ?_, ?_, ?_⟩
  · rw [greturned_lift]
    exact nd.map (fun a b hab => Int.ofNat.inj hab)
  · intro p
    rw [greturned_lift, List.mem_map]
    constructor
    · rintro ⟨x, hx, rfl⟩
      obtain ⟨hxs, hb⟩ := (mem x).1 hx
      refine ⟨by omega, by omega, ?_⟩
      rw [hcol x hxs, hb]; rfl
    · rintro ⟨h0, h1, h2⟩
      obtain ⟨x, rfl⟩ := Int.eq_ofNat_of_zero_le h0
      have hxs : x < size := by omega
      refine ⟨x, (mem x).2 ⟨hxs, ?_⟩, rfl⟩
      rw [hcol x hxs] at h2
      have := Option.some.inj h2
      show r.1.colorOf x = 2
      omega
  · intro hlast p h0 h1 h2
    obtain ⟨x, rfl⟩ := Int.eq_ofNat_of_zero_le h0
    have hxs : x < size := by omega
    rw [greturned_lift, List.mem_map]
    refine ⟨x, emp ?_ x hxs ?_, rfl⟩
    · have := r'.last
      rw [hlast] at this
      simp only [isEmpty, beq_iff_eq]
      omega
    · intro hw
      apply h2
      rw [hcol x hxs, hw]; rfl

theorem gen_remove_extremal (g : Obj) (h : Heap) (hr : Rel g h) (hinv : Inv h) (hne : 0 < h.cnt) :
    ∃ g' p, Obj.remove g = some (g', Sum.inl p) ∧ 0 ≤ p ∧ p < g.size ∧
      Py.idx g.color p = some 1 ∧
      ∀ q cq cp, 0 ≤ q → q < g.size → Py.idx g.color q = some 1 →
        Py.idx g.cost q = some cq → Py.idx g.cost p = some cp →
        (if g.policy = "min" then cp ≤ cq else cq ≤ cp) := by
  have w := ((inv_iff h).1 hinv).1
  obtain ⟨g', e', _⟩ := remove_refines g h hr hinv
  obtain ⟨x, ex, ⟨hxs, hxg⟩, hext, _⟩ := remove_spec h hinv hne
  rw [ex] at e'
  refine ⟨g', (x : Int), e', by omega, by rw [hr.size]; omega, ?_, ?_⟩
  · rw [hr.idx_color hxs, hxg]; rfl
  · intro q cq cp h0 h1 hq hcq hcp
    obtain ⟨y, rfl⟩ := Int.eq_ofNat_of_zero_le h0
    have hys : y < h.size := by rw [hr.size] at h1; omega
    rw [hr.idx_color hys] at hq
    have hyg : h.colorOf y = GRAY := by
      have := Option.some.inj hq
      show h.colorOf y = 1
      omega
    rw [hr.idx_cost w hys] at hcq
    rw [hr.idx_cost w hxs] at hcp
    have := hext y ⟨hys, hyg⟩
    rw [Option.some.inj hcq, Option.some.inj hcp] at this
    rw [hr.policy]
    unfold better at this
    cases hm : h.isMax <;> rw [hm] at this <;> simp [polOf] at this ⊢ <;> omega

end Opf.HeapRefine
