/-
Lemmas for C13 (relational tier): invariants of every lawful run of the density-clustering semantics
(`Model/ClusterSpec.lean`) and the consequences used by `Props/C13Rel.lean`.

Structure:
* `conquered_iff`, `fire_*`            – unfolding of the step function;
* `exists_max_on`                      – a non-empty subset of `{0..n-1}` has a maximiser;
* `DInv`                               – the invariant bundle (colours, order, roots, links, labels, ids);
* `dinv_init`, `dinv_step`, `dinv_of_reach`;
* the `clu_*` lemmas (one per property theorem);
* soundness of the executable acceptance test (`pickOk_step`, `runPicksClu_reach`, `isFinal_final`);
* a non-vacuity example (n = 4, a plateau `{0,1}` whose tie is broken against the index order).
-/
import OpfVerif.Model.ClusterSpec
import Mathlib.Data.List.Nodup
import Mathlib.Data.List.Range
import Mathlib.Data.List.Perm.Basic

namespace Opf.CluInst

/-! ### unfolding the step function -/

theorem conquered_iff (I : CluInst) (s : DState) (p q : Nat) :
    I.conquered s p q = true ↔
      (q ∈ I.nbrs p ∧ q ≠ p ∧ s.color q ≠ BLACK ∧ s.cost q < I.offer s p q) := by
  unfold conquered
  exact decide_eq_true_iff

theorem conquered_false_iff (I : CluInst) (s : DState) (p q : Nat) :
    I.conquered s p q = false ↔
      ¬ (q ∈ I.nbrs p ∧ q ≠ p ∧ s.color q ≠ BLACK ∧ s.cost q < I.offer s p q) := by
  rw [← conquered_iff]; cases I.conquered s p q <;> simp

theorem conq_self (I : CluInst) (s : DState) (p : Nat) : I.conquered s p p = false := by
  rw [conquered_false_iff]; intro h; exact h.2.1 rfl

/-- a BLACK sample is never conquered. -/
theorem conq_black (I : CluInst) {s : DState} (p : Nat) {q : Nat} (hb : s.color q = BLACK) :
    I.conquered s p q = false := by
  rw [conquered_false_iff]; intro h; exact h.2.2.1 hb

theorem conq_ne {I : CluInst} {s : DState} {p q : Nat} (h : I.conquered s p q = true) : q ≠ p :=
  ((conquered_iff I s p q).1 h).2.1

theorem fire_color (I : CluInst) (s : DState) (p q : Nat) :
    (I.fire s p).color q = if q = p then BLACK else s.color q := rfl

theorem fire_order (I : CluInst) (s : DState) (p : Nat) : (I.fire s p).order = s.order ++ [p] := rfl

theorem fire_next (I : CluInst) (s : DState) (p : Nat) :
    (I.fire s p).next = if s.pred p = none ∧ I.unsup = true then s.next + 1 else s.next := rfl

theorem fire_cost_self (I : CluInst) (s : DState) (p : Nat) :
    (I.fire s p).cost p = I.liftedCost s p := by
  show (if p = p then _ else _) = _
  rw [if_pos rfl]

theorem fire_lab_self (I : CluInst) (s : DState) (p : Nat) :
    (I.fire s p).lab p = I.liftedLab s p := by
  show (if p = p then _ else _) = _
  rw [if_pos rfl]

theorem fire_cost_conq {I : CluInst} {s : DState} {p q : Nat} (h : I.conquered s p q = true) :
    (I.fire s p).cost q = I.offer s p q := by
  show (if q = p then _ else if I.conquered s p q = true then _ else _) = _
  rw [if_neg (conq_ne h), if_pos h]

theorem fire_pred_conq {I : CluInst} {s : DState} {p q : Nat} (h : I.conquered s p q = true) :
    (I.fire s p).pred q = some p := by
  show (if q ≠ p ∧ I.conquered s p q = true then _ else _) = _
  rw [if_pos ⟨conq_ne h, h⟩]

theorem fire_root_conq {I : CluInst} {s : DState} {p q : Nat} (h : I.conquered s p q = true) :
    (I.fire s p).root q = s.root p := by
  show (if q ≠ p ∧ I.conquered s p q = true then _ else _) = _
  rw [if_pos ⟨conq_ne h, h⟩]

theorem fire_lab_conq {I : CluInst} {s : DState} {p q : Nat} (h : I.conquered s p q = true) :
    (I.fire s p).lab q = I.liftedLab s p := by
  show (if q = p then _ else if I.conquered s p q = true then _ else _) = _
  rw [if_neg (conq_ne h), if_pos h]

theorem fire_pred_keep {I : CluInst} {s : DState} {p q : Nat} (h : I.conquered s p q = false) :
    (I.fire s p).pred q = s.pred q := by
  show (if q ≠ p ∧ I.conquered s p q = true then _ else _) = _
  rw [if_neg (by rw [h]; simp)]

theorem fire_root_keep {I : CluInst} {s : DState} {p q : Nat} (h : I.conquered s p q = false) :
    (I.fire s p).root q = s.root q := by
  show (if q ≠ p ∧ I.conquered s p q = true then _ else _) = _
  rw [if_neg (by rw [h]; simp)]

theorem fire_cost_keep {I : CluInst} {s : DState} {p q : Nat} (hqp : q ≠ p)
    (h : I.conquered s p q = false) : (I.fire s p).cost q = s.cost q := by
  show (if q = p then _ else if I.conquered s p q = true then _ else _) = _
  rw [if_neg hqp, if_neg (by rw [h]; simp)]

theorem fire_lab_keep {I : CluInst} {s : DState} {p q : Nat} (hqp : q ≠ p)
    (h : I.conquered s p q = false) : (I.fire s p).lab q = s.lab q := by
  show (if q = p then _ else if I.conquered s p q = true then _ else _) = _
  rw [if_neg hqp, if_neg (by rw [h]; simp)]

/-- the predecessor of the removed sample is not touched. -/
theorem fire_pred_self (I : CluInst) (s : DState) (p : Nat) : (I.fire s p).pred p = s.pred p :=
  fire_pred_keep (conq_self I s p)

theorem fire_root_self (I : CluInst) (s : DState) (p : Nat) : (I.fire s p).root p = s.root p :=
  fire_root_keep (conq_self I s p)

theorem fire_color_black_iff (I : CluInst) (s : DState) (p q : Nat) :
    (I.fire s p).color q = BLACK ↔ q = p ∨ s.color q = BLACK := by
  rw [fire_color]
  by_cases hqp : q = p
  · simp [hqp]
  · rw [if_neg hqp]; simp [hqp]

/-- a predecessor link is never erased. -/
theorem fire_pred_none {I : CluInst} {s : DState} {p q : Nat} (h : (I.fire s p).pred q = none) :
    I.conquered s p q = false ∧ s.pred q = none := by
  cases hc : I.conquered s p q
  · rw [fire_pred_keep hc] at h; exact ⟨rfl, h⟩
  · rw [fire_pred_conq hc] at h; exact absurd h (by simp)

/-! ### maximiser on an initial segment -/

theorem exists_max_on (P : Nat → Prop) (f : Nat → Int) :
    ∀ n, (∃ q, q < n ∧ P q) → ∃ p, p < n ∧ P p ∧ ∀ q, q < n → P q → f q ≤ f p := by
  intro n
  induction n with
  | zero => rintro ⟨q, hq, _⟩; omega
  | succ n ih =>
    rintro ⟨q, hq, hPq⟩
    by_cases hex : ∃ q, q < n ∧ P q
    · obtain ⟨p0, hp0, hP0, hmax0⟩ := ih hex
      by_cases hPn : P n
      · by_cases hle : f n ≤ f p0
        · refine ⟨p0, by omega, hP0, ?_⟩
          intro r hr hPr
          by_cases hrn : r = n
          · subst hrn; exact hle
          · exact hmax0 r (by omega) hPr
        · refine ⟨n, by omega, hPn, ?_⟩
          intro r hr hPr
          by_cases hrn : r = n
          · subst hrn; exact Int.le_refl _
          · have := hmax0 r (by omega) hPr; omega
      · refine ⟨p0, by omega, hP0, ?_⟩
        intro r hr hPr
        by_cases hrn : r = n
        · subst hrn; exact absurd hPr hPn
        · exact hmax0 r (by omega) hPr
    · have hqn : q = n := by
        by_cases hqn : q = n
        · exact hqn
        · exact absurd ⟨q, by omega, hPq⟩ hex
      subst hqn
      refine ⟨q, by omega, hPq, ?_⟩
      intro r hr hPr
      by_cases hrn : r = q
      · subst hrn; exact Int.le_refl _
      · exact absurd ⟨r, by omega, hPr⟩ hex

/-! ### the invariant -/

/-- invariant of the clustering loop (does not depend on the initial labels). -/
structure DInv (I : CluInst) (s : DState) : Prop where
  /-- every sample is queued (GRAY) or removed (BLACK). -/
  col : ∀ q, q < I.n → s.color q = GRAY ∨ s.color q = BLACK
  out : ∀ q, I.n ≤ q → s.color q = WHITE
  nodup : s.order.Nodup
  mem : ∀ q, q ∈ s.order ↔ s.color q = BLACK
  /-- costs never go below the initial cost … -/
  ge0 : ∀ q, q < I.n → I.cost0 q ≤ s.cost q
  /-- … nor above the sample's own density … -/
  le_dens : ∀ q, q < I.n → s.cost q ≤ I.dens q
  /-- … nor above the density of the recorded root. -/
  rbound : ∀ q, q < I.n → s.cost q ≤ I.dens (s.root q)
  /-- a sample without predecessor: own root; initial cost while queued, density once removed. -/
  rootinv : ∀ q, q < I.n → s.pred q = none →
    s.root q = q ∧ (s.color q = GRAY → s.cost q = I.cost0 q) ∧
      (s.color q = BLACK → s.cost q = I.dens q)
  /-- a sample with predecessor `p`: `p` is removed (hence frozen) and the arc is recorded. -/
  link : ∀ q, q < I.n → ∀ p, s.pred q = some p →
    p < I.n ∧ s.color p = BLACK ∧ q ∈ I.nbrs p ∧ s.cost q = min (s.cost p) (I.dens q) ∧
      I.cost0 q < s.cost q ∧ s.root q = s.root p ∧ s.lab q = s.lab p ∧
      (I.force = true → I.tlabel p = I.tlabel q) ∧
      (q ∈ s.order → s.order.idxOf p < s.order.idxOf q)
  /-- KNN-supervised: a removed root carries its true label. -/
  knn : I.unsup = false → ∀ t, t < I.n → s.pred t = none → s.color t = BLACK →
    s.lab t = I.tlabel t
  /-- KNN-supervised, forced prototypes: every removed sample carries its true label. -/
  forced : I.unsup = false → I.force = true → ∀ t, t < I.n → s.color t = BLACK →
    s.lab t = I.tlabel t
  /-- unsupervised: the removed roots, in removal order, carry `0, 1, …, next-1`. -/
  ids : I.unsup = true →
    (s.order.filter (fun t => s.pred t == none)).map s.lab = List.range s.next

theorem dinv_init (I : CluInst) (lab0 : Nat → Nat) (hg : I.Good) : DInv I (I.init lab0) where
  col := by
    intro q hq; simp only [init]; rw [if_pos hq]; exact Or.inl rfl
  out := by
    intro q hq; simp only [init]; rw [if_neg]; omega
  nodup := by simp [init]
  mem := by
    intro q; simp only [init]; split <;> simp [WHITE, GRAY, BLACK]
  ge0 := by intro q _; exact Int.le_refl _
  le_dens := by intro q hq; exact Int.le_of_lt (hg.below q hq)
  rbound := by intro q hq; exact Int.le_of_lt (hg.below q hq)
  rootinv := by
    intro q hq _
    refine ⟨rfl, fun _ => rfl, ?_⟩
    simp only [init]; rw [if_pos hq]; intro h; exact absurd h (by decide)
  link := by
    intro q _ p h; simp [init] at h
  knn := by
    intro _ t ht _ hc; simp only [init] at hc; rw [if_pos ht] at hc; exact absurd hc (by decide)
  forced := by
    intro _ _ t ht hc; simp only [init] at hc; rw [if_pos ht] at hc; exact absurd hc (by decide)
  ids := by intro _; simp [init]

/-! ### one step preserves the invariant -/

section step
variable {I : CluInst} {s : DState} {p : Nat}

/-- what it means to be conquered, once the sentinel case has been excluded. -/
theorem conq_facts (G : I.Good) (h : DInv I s) (hp : p < I.n) {q : Nat}
    (hc : I.conquered s p q = true) :
    q < I.n ∧ q ≠ p ∧ s.color q = GRAY ∧ q ∈ I.nbrs p ∧
      I.offer s p q = min (I.liftedCost s p) (I.dens q) ∧
      s.cost q < min (I.liftedCost s p) (I.dens q) ∧
      (I.force = true → I.tlabel p = I.tlabel q) := by
  obtain ⟨hmem, hqp, hnb, hlt⟩ := (conquered_iff I s p q).1 hc
  have hq : q < I.n := (G.nbrs_lt p hp q hmem).1
  have hgq : s.color q = GRAY := by
    rcases h.col q hq with e | e
    · exact e
    · exact absurd e hnb
  by_cases hx : I.force = true ∧ I.tlabel p ≠ I.tlabel q
  · exfalso
    have e : I.offer s p q = I.negTop := by unfold offer; rw [if_pos hx]
    rw [e] at hlt
    have h1 := G.sentinel q hq
    have h2 := h.ge0 q hq
    omega
  · have e : I.offer s p q = min (I.liftedCost s p) (I.dens q) := by unfold offer; rw [if_neg hx]
    refine ⟨hq, hqp, hgq, hmem, e, e ▸ hlt, ?_⟩
    intro hf
    by_contra hne
    exact hx ⟨hf, hne⟩

theorem lifted_cases (I : CluInst) (s : DState) (p : Nat) :
    (s.pred p = none ∧ I.liftedCost s p = I.dens p) ∨
      ((∃ p0, s.pred p = some p0) ∧ I.liftedCost s p = s.cost p) := by
  unfold liftedCost
  cases hpp : s.pred p with
  | none => left; simp
  | some p0 => right; exact ⟨⟨p0, rfl⟩, by simp⟩

theorem lifted_ge (h : DInv I s) (hp : p < I.n) : s.cost p ≤ I.liftedCost s p := by
  rcases lifted_cases I s p with ⟨_, e⟩ | ⟨_, e⟩ <;> rw [e]
  · exact h.le_dens p hp
  · exact Int.le_refl _

theorem lifted_le_dens (h : DInv I s) (hp : p < I.n) : I.liftedCost s p ≤ I.dens p := by
  rcases lifted_cases I s p with ⟨_, e⟩ | ⟨_, e⟩ <;> rw [e]
  · exact Int.le_refl _
  · exact h.le_dens p hp

theorem lifted_le_root (h : DInv I s) (hp : p < I.n) :
    I.liftedCost s p ≤ I.dens (s.root p) := by
  rcases lifted_cases I s p with ⟨hn, e⟩ | ⟨_, e⟩ <;> rw [e]
  · rw [(h.rootinv p hp hn).1]; exact Int.le_refl _
  · exact h.rbound p hp

theorem dinv_step (G : I.Good) (h : DInv I s) (hp : p < I.n) (hgray : s.color p = GRAY) :
    DInv I (I.fire s p) := by
  have hpnb : s.color p ≠ BLACK := by rw [hgray]; decide
  have hpmem : p ∉ s.order := by rw [h.mem]; exact hpnb
  -- an old BLACK sample is different from `p` and keeps all its fields
  have hblk : ∀ b, s.color b = BLACK →
      b ≠ p ∧ (I.fire s p).cost b = s.cost b ∧ (I.fire s p).pred b = s.pred b ∧
        (I.fire s p).root b = s.root b ∧ (I.fire s p).lab b = s.lab b := by
    intro b hb
    have hbp : b ≠ p := by intro e; subst e; exact hpnb hb
    have hc := conq_black I p hb
    exact ⟨hbp, fire_cost_keep hbp hc, fire_pred_keep hc, fire_root_keep hc, fire_lab_keep hbp hc⟩
  refine
    { col := ?col, out := ?out, nodup := ?nodup, mem := ?mem, ge0 := ?ge0, le_dens := ?le_dens,
      rbound := ?rbound, rootinv := ?rootinv, link := ?link, knn := ?knn, forced := ?forced,
      ids := ?ids }
  case col =>
    intro q hq; rw [fire_color]
    by_cases hqp : q = p
    · rw [if_pos hqp]; exact Or.inr rfl
    · rw [if_neg hqp]; exact h.col q hq
  case out =>
    intro q hq
    rw [fire_color, if_neg (by omega)]
    exact h.out q hq
  case nodup =>
    rw [fire_order, List.nodup_append]
    refine ⟨h.nodup, List.nodup_singleton p, ?_⟩
    intro a ha b hb e
    rw [List.mem_singleton] at hb
    subst hb; subst e; exact hpmem ha
  case mem =>
    intro q
    rw [fire_order, fire_color_black_iff, List.mem_append, List.mem_singleton, h.mem]
    exact Or.comm
  case ge0 =>
    intro q hq
    by_cases hqp : q = p
    · subst hqp; rw [fire_cost_self]
      have := lifted_ge h hp; have := h.ge0 q hq; omega
    · cases hc : I.conquered s p q
      · rw [fire_cost_keep hqp hc]; exact h.ge0 q hq
      · obtain ⟨_, _, _, _, e, hlt, _⟩ := conq_facts G h hp hc
        rw [fire_cost_conq hc, e]
        have := h.ge0 q hq; omega
  case le_dens =>
    intro q hq
    by_cases hqp : q = p
    · subst hqp; rw [fire_cost_self]; exact lifted_le_dens h hp
    · cases hc : I.conquered s p q
      · rw [fire_cost_keep hqp hc]; exact h.le_dens q hq
      · obtain ⟨_, _, _, _, e, _, _⟩ := conq_facts G h hp hc
        rw [fire_cost_conq hc, e]; omega
  case rbound =>
    intro q hq
    by_cases hqp : q = p
    · subst hqp; rw [fire_cost_self, fire_root_self]; exact lifted_le_root h hp
    · cases hc : I.conquered s p q
      · rw [fire_cost_keep hqp hc, fire_root_keep hc]; exact h.rbound q hq
      · obtain ⟨_, _, _, _, e, _, _⟩ := conq_facts G h hp hc
        rw [fire_cost_conq hc, e, fire_root_conq hc]
        have := lifted_le_root h hp; omega
  case rootinv =>
    intro q hq hpn
    obtain ⟨hc, hpn0⟩ := fire_pred_none hpn
    obtain ⟨r1, r2, r3⟩ := h.rootinv q hq hpn0
    refine ⟨by rw [fire_root_keep hc]; exact r1, ?_, ?_⟩
    · intro hg'
      rw [fire_color] at hg'
      by_cases hqp : q = p
      · rw [if_pos hqp] at hg'; exact absurd hg' (by decide)
      · rw [if_neg hqp] at hg'
        rw [fire_cost_keep hqp hc]; exact r2 hg'
    · intro hb'
      rw [fire_color_black_iff] at hb'
      rcases hb' with hb' | hb'
      · subst hb'
        rw [fire_cost_self]
        unfold liftedCost; rw [if_pos hpn0]
      · rw [(hblk q hb').2.1]; exact r3 hb'
  case link =>
    intro q hq p' hpq
    cases hc : I.conquered s p q
    · -- untouched (or `q = p`): the old link survives
      rw [fire_pred_keep hc] at hpq
      obtain ⟨l1, l2, l3, l4, l5, l6, l7, l8, l9⟩ := h.link q hq p' hpq
      obtain ⟨_, b1, _, b3, b4⟩ := hblk p' l2
      have hp'mem : p' ∈ s.order := (h.mem p').2 l2
      have hcostq : (I.fire s p).cost q = s.cost q := by
        by_cases hqp : q = p
        · subst hqp; rw [fire_cost_self]; unfold liftedCost; rw [hpq]; simp
        · exact fire_cost_keep hqp hc
      have hlabq : (I.fire s p).lab q = s.lab q := by
        by_cases hqp : q = p
        · subst hqp; rw [fire_lab_self]; unfold liftedLab; rw [hpq]; simp
        · exact fire_lab_keep hqp hc
      refine ⟨l1, ?_, l3, ?_, ?_, ?_, ?_, l8, ?_⟩
      · rw [fire_color_black_iff]; exact Or.inr l2
      · rw [hcostq, b1]; exact l4
      · rw [hcostq]; exact l5
      · rw [fire_root_keep hc, b3]; exact l6
      · rw [hlabq, b4]; exact l7
      · intro _
        rw [fire_order, List.idxOf_append, List.idxOf_append, if_pos hp'mem]
        by_cases hqo : q ∈ s.order
        · rw [if_pos hqo]; exact l9 hqo
        · rw [if_neg hqo]
          have := List.idxOf_lt_length_of_mem hp'mem
          omega
    · -- conquered: the new predecessor is `p`
      rw [fire_pred_conq hc] at hpq
      have hpp : p = p' := by injection hpq
      subst hpp
      obtain ⟨_, hqp, hgq, hmem, e, hlt, hfl⟩ := conq_facts G h hp hc
      refine ⟨hp, ?_, hmem, ?_, ?_, ?_, ?_, hfl, ?_⟩
      · rw [fire_color_black_iff]; exact Or.inl rfl
      · rw [fire_cost_conq hc, e, fire_cost_self]
      · rw [fire_cost_conq hc, e]; have := h.ge0 q hq; omega
      · rw [fire_root_conq hc, fire_root_self]
      · rw [fire_lab_conq hc, fire_lab_self]
      · intro hmem'
        rw [fire_order, List.mem_append, List.mem_singleton] at hmem'
        rcases hmem' with hm | hm
        · have := (h.mem q).1 hm; rw [hgq] at this; exact absurd this (by decide)
        · exact absurd hm hqp
  case knn =>
    intro hu t ht hpn hb'
    obtain ⟨_, hpn0⟩ := fire_pred_none hpn
    rw [fire_color_black_iff] at hb'
    rcases hb' with hb' | hb'
    · subst hb'
      rw [fire_lab_self]; unfold liftedLab; rw [if_pos hpn0, hu]; simp
    · rw [(hblk t hb').2.2.2.2]; exact h.knn hu t ht hpn0 hb'
  case forced =>
    intro hu hf t ht hb'
    rw [fire_color_black_iff] at hb'
    rcases hb' with hb' | hb'
    · subst hb'
      rw [fire_lab_self]; unfold liftedLab
      cases hpp : s.pred t with
      | none => rw [if_pos rfl, hu]; simp
      | some p0 =>
        rw [if_neg (by simp)]
        obtain ⟨l1, l2, _, _, _, _, l7, l8, _⟩ := h.link t ht p0 hpp
        rw [l7, h.forced hu hf p0 l1 l2]; exact l8 hf
    · rw [(hblk t hb').2.2.2.2]; exact h.forced hu hf t ht hb'
  case ids =>
    intro hu
    have hold := h.ids hu
    have hfil : s.order.filter (fun t => (I.fire s p).pred t == none) =
        s.order.filter (fun t => s.pred t == none) := by
      apply List.filter_congr
      intro x hx
      rw [(hblk x ((h.mem x).1 hx)).2.2.1]
    have hmap : (s.order.filter (fun t => s.pred t == none)).map (I.fire s p).lab =
        (s.order.filter (fun t => s.pred t == none)).map s.lab := by
      apply List.map_congr_left
      intro x hx
      have hx' : x ∈ s.order := (List.mem_filter.1 hx).1
      exact (hblk x ((h.mem x).1 hx')).2.2.2.2
    have hps : (I.fire s p).pred p = s.pred p := fire_pred_self I s p
    rw [fire_order, List.filter_append, List.map_append, hfil, hmap, hold, fire_next]
    cases hpp : s.pred p with
    | none =>
      have hl : (I.fire s p).lab p = s.next := by
        rw [fire_lab_self]; unfold liftedLab; rw [if_pos hpp, hu]; simp
      rw [if_pos ⟨rfl, hu⟩, List.range_succ]
      simp [hps, hpp, hl]
    | some p0 =>
      rw [if_neg (by simp)]
      simp [hps, hpp]

end step

theorem dinv_of_reach (I : CluInst) (lab0 : Nat → Nat) (hg : I.Good) {s : DState}
    (hr : Reach I lab0 s) : DInv I s := by
  induction hr with
  | init => exact dinv_init I lab0 hg
  | step _ hstep ih =>
    obtain ⟨p, hp, hgray, _, rfl⟩ := hstep
    exact dinv_step hg ih hp hgray

/-! ### consequences -/

variable (I : CluInst) (lab0 : Nat → Nat)

theorem clu_progress (_hg : I.Good) (s : DState) (_hr : Reach I lab0 s) (hnf : ¬ I.Final s) :
    ∃ s', I.Step s s' := by
  have hex : ∃ q, q < I.n ∧ s.color q = GRAY := by
    by_contra hcon
    apply hnf
    intro q hq hc
    exact hcon ⟨q, hq, hc⟩
  obtain ⟨p, hp, hgray, hmax⟩ := exists_max_on (fun q => s.color q = GRAY) s.cost I.n hex
  exact ⟨I.fire s p, p, hp, hgray, hmax, rfl⟩

theorem clu_order_lt (hg : I.Good) (s : DState) (hr : Reach I lab0 s) :
    ∀ t, t ∈ s.order → t < I.n := by
  have h := dinv_of_reach I lab0 hg hr
  intro t ht
  by_contra hge
  have h1 := h.out t (by omega)
  have h2 := (h.mem t).1 ht
  rw [h1] at h2; exact absurd h2 (by decide)

theorem clu_bounded (hg : I.Good) (s : DState) (hr : Reach I lab0 s) :
    s.order.Nodup ∧ (∀ t, t ∈ s.order → t < I.n) ∧ s.order.length ≤ I.n := by
  have h := dinv_of_reach I lab0 hg hr
  have hlt := clu_order_lt I lab0 hg s hr
  refine ⟨h.nodup, hlt, ?_⟩
  have hsub : s.order ⊆ List.range I.n := by
    intro t ht; rw [List.mem_range]; exact hlt t ht
  have := (List.subperm_of_subset h.nodup hsub).length_le
  rwa [List.length_range] at this

theorem clu_all_black (hg : I.Good) (s : DState) (hr : Reach I lab0 s) (hf : I.Final s) :
    ∀ t, t < I.n → s.color t = BLACK := by
  have h := dinv_of_reach I lab0 hg hr
  intro t ht
  rcases h.col t ht with hc | hc
  · exact absurd hc (hf t ht)
  · exact hc

theorem clu_order (hg : I.Good) (s : DState) (hr : Reach I lab0 s) (hf : I.Final s) :
    s.order.Nodup ∧ (∀ t, t ∈ s.order ↔ t < I.n) := by
  have h := dinv_of_reach I lab0 hg hr
  have hb := clu_all_black I lab0 hg s hr hf
  exact ⟨h.nodup, fun t => ⟨clu_order_lt I lab0 hg s hr t, fun ht => (h.mem t).2 (hb t ht)⟩⟩

theorem clu_order_perm (hg : I.Good) (s : DState) (hr : Reach I lab0 s) (hf : I.Final s) :
    s.order.Perm (List.range I.n) := by
  obtain ⟨hnd, hmem⟩ := clu_order I lab0 hg s hr hf
  rw [List.perm_ext_iff_of_nodup hnd List.nodup_range]
  intro t; rw [hmem, List.mem_range]

theorem clu_root_cost (hg : I.Good) (s : DState) (hr : Reach I lab0 s) (hf : I.Final s) :
    ∀ t, t < I.n → s.pred t = none → s.cost t = I.dens t ∧ s.root t = t := by
  have h := dinv_of_reach I lab0 hg hr
  intro t ht hpn
  obtain ⟨r1, _, r3⟩ := h.rootinv t ht hpn
  exact ⟨r3 (clu_all_black I lab0 hg s hr hf t ht), r1⟩

theorem clu_link (hg : I.Good) (s : DState) (hr : Reach I lab0 s) (hf : I.Final s) :
    ∀ q, q < I.n → ∀ p, s.pred q = some p →
      p < I.n ∧ q ∈ I.nbrs p ∧ s.cost q = min (s.cost p) (I.dens q) ∧ I.cost0 q < s.cost q ∧
      s.order.idxOf p < s.order.idxOf q ∧ s.root q = s.root p ∧ s.lab q = s.lab p ∧
      (I.force = true → I.tlabel p = I.tlabel q) := by
  have h := dinv_of_reach I lab0 hg hr
  intro q hq p hpq
  obtain ⟨l1, _, l3, l4, l5, l6, l7, l8, l9⟩ := h.link q hq p hpq
  exact ⟨l1, l3, l4, l5, l9 ((h.mem q).2 (clu_all_black I lab0 hg s hr hf q hq)), l6, l7, l8⟩

theorem clu_reaches_root (hg : I.Good) (s : DState) (hr : Reach I lab0 s) (hf : I.Final s) :
    ∀ t, t < I.n → ∃ ρ, ρ < I.n ∧ s.pred ρ = none ∧ DChain s ρ t ∧ s.root t = ρ ∧
      s.lab t = s.lab ρ := by
  have key : ∀ k t, s.order.idxOf t = k → t < I.n →
      ∃ ρ, ρ < I.n ∧ s.pred ρ = none ∧ DChain s ρ t ∧ s.root t = ρ ∧ s.lab t = s.lab ρ := by
    intro k
    induction k using Nat.strongRecOn with
    | ind k ih =>
      intro t hk ht
      cases hpt : s.pred t with
      | none =>
        exact ⟨t, ht, hpt, DChain.refl, (clu_root_cost I lab0 hg s hr hf t ht hpt).2, rfl⟩
      | some p =>
        obtain ⟨hpn, _, _, _, hidx, hroot, hlab, _⟩ := clu_link I lab0 hg s hr hf t ht p hpt
        obtain ⟨ρ, r1, r2, r3, r4, r5⟩ := ih _ (hk ▸ hidx) p rfl hpn
        exact ⟨ρ, r1, r2, DChain.step hpt r3, hroot.trans r4, hlab.trans r5⟩
  intro t ht
  exact key _ t rfl ht

/-- `pred` is a function, so a chain has at most one root: holds for every state. -/
theorem dchain_root_unique {s : DState} {ρ ρ' t : Nat} (h1 : DChain s ρ t) (h2 : DChain s ρ' t)
    (hρ : s.pred ρ = none) (hρ' : s.pred ρ' = none) : ρ = ρ' := by
  induction h1 with
  | refl =>
    cases h2 with
    | refl => rfl
    | step hp _ => rw [hρ] at hp; exact absurd hp (by simp)
  | step hp _ ih =>
    cases h2 with
    | refl => rw [hρ'] at hp; exact absurd hp (by simp)
    | step hp' hc' =>
      rw [hp] at hp'
      injection hp' with e
      subst e
      exact ih hc'

theorem clu_root_bound (hg : I.Good) (s : DState) (hr : Reach I lab0 s) :
    ∀ t, t < I.n → s.cost t ≤ I.dens (s.root t) :=
  (dinv_of_reach I lab0 hg hr).rbound

theorem clu_cost_gt (hg : I.Good) (s : DState) (hr : Reach I lab0 s) (hf : I.Final s) :
    ∀ t, t < I.n → I.cost0 t < s.cost t := by
  have h := dinv_of_reach I lab0 hg hr
  intro t ht
  cases hpt : s.pred t with
  | none => rw [(clu_root_cost I lab0 hg s hr hf t ht hpt).1]; exact hg.below t ht
  | some p => exact (h.link t ht p hpt).2.2.2.2.1

theorem clu_ids_unsup (hg : I.Good) (s : DState) (hr : Reach I lab0 s) (hf : I.Final s)
    (hu : I.unsup = true) :
    s.next = ((List.range I.n).filter (fun t => s.pred t == none)).length ∧
    (s.order.filter (fun t => s.pred t == none)).map s.lab = List.range s.next := by
  have h := dinv_of_reach I lab0 hg hr
  have hids := h.ids hu
  refine ⟨?_, hids⟩
  have hperm := (clu_order_perm I lab0 hg s hr hf).filter (fun t => s.pred t == none)
  rw [← hperm.length_eq]
  have := congrArg List.length hids
  rw [List.length_map, List.length_range] at this
  exact this.symm

theorem clu_labels_knn (hg : I.Good) (s : DState) (hr : Reach I lab0 s) (hf : I.Final s)
    (hu : I.unsup = false) : ∀ t, t < I.n → s.pred t = none → s.lab t = I.tlabel t := by
  have h := dinv_of_reach I lab0 hg hr
  intro t ht hpn
  exact h.knn hu t ht hpn (clu_all_black I lab0 hg s hr hf t ht)

theorem clu_knn_forced (hg : I.Good) (s : DState) (hr : Reach I lab0 s) (hf : I.Final s)
    (hu : I.unsup = false) (hfo : I.force = true) : ∀ t, t < I.n → s.lab t = I.tlabel t := by
  have h := dinv_of_reach I lab0 hg hr
  intro t ht
  exact h.forced hu hfo t ht (clu_all_black I lab0 hg s hr hf t ht)

/-! ### soundness of the executable acceptance test -/

theorem pickOk_step (s : DState) (p : Nat) (h : I.pickOk s p = true) : I.Step s (I.fire s p) := by
  unfold pickOk at h
  simp only [Bool.and_eq_true, decide_eq_true_eq, List.all_eq_true, List.mem_range,
    Bool.or_eq_true, Bool.not_eq_true', decide_eq_false_iff_not] at h
  obtain ⟨⟨hp, hg⟩, hall⟩ := h
  refine ⟨p, hp, hg, ?_, rfl⟩
  intro q hq hqg
  rcases hall q hq with h1 | h1
  · exact absurd hqg h1
  · exact h1

theorem runPicksClu_reach (s : DState) (hs : Reach I lab0 s) (ps : List Nat) (s' : DState)
    (h : I.runPicksClu s ps = some s') : Reach I lab0 s' := by
  induction ps generalizing s with
  | nil => simp [runPicksClu] at h; subst h; exact hs
  | cons p ps ih =>
    simp only [runPicksClu] at h
    split at h
    · rename_i hok
      exact ih _ (Reach.step hs (pickOk_step I s p hok)) h
    · exact absurd h (by simp)

theorem isFinal_final (s : DState) (h : I.isFinal s = true) : I.Final s := by
  unfold isFinal at h
  simp only [List.all_eq_true, List.mem_range, Bool.not_eq_true', decide_eq_false_iff_not] at h
  exact fun q hq => h q hq

/-! ### non-vacuity: a concrete lawful run that ends -/

/-- 4 samples, densities `5 5 3 2`, initial costs `dens - 1`; arcs (after symmetrisation)
`0→1, 1→0, 1→2, 2→1, 3→2`; `{0, 1}` is a plateau, so the first removal is a tie. -/
def exI : CluInst :=
  { n := 4
    nbrs := fun p => if p = 0 then [1] else if p = 1 then [0, 2] else if p = 2 then [1] else [2]
    dens := fun x => if x = 0 then 5 else if x = 1 then 5 else if x = 2 then 3 else 2
    cost0 := fun x => if x = 0 then 4 else if x = 1 then 4 else if x = 2 then 2 else 1
    tlabel := fun x => if x = 0 then 7 else if x = 1 then 7 else if x = 2 then 8 else 9
    unsup := true
    force := false
    negTop := -100 }

theorem exI_good : exI.Good where
  nbrs_lt := by
    intro p hp q hq
    have hp' : p < 4 := hp
    match p, hp' with
    | 0, _ | 1, _ | 2, _ | 3, _ =>
      simp [exI] at hq
      rcases hq with rfl | rfl <;> exact ⟨by decide, by decide⟩
  below := by
    intro i hi
    have hi' : i < 4 := hi
    match i, hi' with
    | 0, _ | 1, _ | 2, _ | 3, _ => decide
  sentinel := by
    intro i hi
    have hi' : i < 4 := hi
    match i, hi' with
    | 0, _ | 1, _ | 2, _ | 3, _ => decide

/-- the run that removes 1, 0, 2, 3 (1 before 0 although both cost 4: not the index order). -/
def exS : DState := exI.fire (exI.fire (exI.fire (exI.fire (exI.init (fun _ => 0)) 1) 0) 2) 3

theorem exS_run : exI.runPicksClu (exI.init (fun _ => 0)) [1, 0, 2, 3] = some exS := rfl

example : exI.Good ∧ Reach exI (fun _ => 0) exS ∧ exI.Final exS ∧
    exS.order = [1, 0, 2, 3] ∧
    (List.range 4).map exS.pred = [some 1, none, some 1, none] ∧
    (List.range 4).map exS.root = [1, 1, 1, 3] ∧
    (List.range 4).map exS.cost = [5, 5, 3, 2] ∧
    (List.range 4).map exS.lab = [0, 0, 0, 1] ∧ exS.next = 2 := by
  refine ⟨exI_good, ?_, ?_, by decide, by decide, by decide, by decide, by decide, by decide⟩
  · exact runPicksClu_reach exI (fun _ => 0) _ Reach.init _ _ exS_run
  · exact isFinal_final exI exS (by decide)

end Opf.CluInst
